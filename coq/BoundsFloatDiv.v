(* BoundsFloatDiv.v — x / 1.0 = x for EVERY binary64 value (bit for bit; NaN included, Coq's floats have one NaN).
   This is the step "theta = MAX_THETA  =>  get_theta() = 1.0  =>  estimate = retained / 1.0 = retained" of C06.
   Proved through Flocq's formalisation of IEEE-754 division (Bdiv_correct) and its bridge to Coq's primitive floats
   (div_equiv), i.e. from the FloatAxioms specification; uses Coq's real numbers (classical axioms of the standard library). *)
From Coq Require Import ZArith Reals Floats SpecFloat Bool Lia Lra.
From Flocq Require Import Core.Core IEEE754.BinarySingleNaN IEEE754.PrimFloat.
Local Open Scope R_scope.
Local Instance Hprec : FLX.Prec_gt_0 prec := eq_refl _.
Local Instance Hmax : Prec_lt_emax prec emax := eq_refl _.

Lemma Prim2B_one_SF : B2SF (Prim2B Coq.Floats.PrimFloat.one) = S754_finite false 4503599627370496 (-52).
Proof. rewrite B2SF_Prim2B. reflexivity. Qed.

Lemma fdiv_one (x : Coq.Floats.PrimFloat.float) : Coq.Floats.PrimFloat.div x Coq.Floats.PrimFloat.one = x.
Proof.
  apply Prim2B_inj. rewrite div_equiv.
  pose proof Prim2B_one_SF as Hy. set (y := Prim2B Coq.Floats.PrimFloat.one) in *. set (bx := Prim2B x).
  destruct y as [sy|sy| |sy my ey Hb]; simpl in Hy; try discriminate.
  injection Hy as -> -> ->.
  set (y := B754_finite false 4503599627370496 (-52) Hb).
  assert (HyR : B2R y = 1).
  { unfold y, B2R, F2R, Fnum, Fexp, cond_Zopp. simpl. lra. }
  destruct bx as [s|s| |s m e Hm].
  - simpl. now rewrite xorb_false_r.
  - simpl. now rewrite xorb_false_r.
  - reflexivity.
  - set (bx := B754_finite s m e Hm).
    pose proof (Bdiv_correct prec emax _ _ mode_NE bx y) as H. rewrite HyR in H. specialize (H ltac:(lra)).
    unfold Rdiv in H. rewrite Rinv_1, Rmult_1_r in H.
    rewrite (round_generic radix2 (fexp prec emax) (round_mode mode_NE) (B2R bx) (generic_format_B2R prec emax bx)) in H.
    rewrite (Rlt_bool_true _ _ (abs_B2R_lt_emax prec emax bx)) in H.
    destruct H as (H1 & H2 & H3).
    apply B2R_Bsign_inj.
    + etransitivity; [exact H2 | reflexivity].
    + reflexivity.
    + exact H1.
    + etransitivity; [apply H3 | unfold y; simpl; now rewrite xorb_false_r].
      destruct (Bdiv mode_NE bx y); simpl in *; try reflexivity; discriminate.
Qed.
