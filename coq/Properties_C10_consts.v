(* Properties_C10_consts.v — C10: the wire-format constants the code uses today are the documented ones.
   DS.gen.WireConstantsGen is regenerated from /repo's headers by translators/gen_wireconsts.py on every run. *)
From Coq Require Import NArith String List.
From DS Require Import WireConstantsDoc.
From DS.gen Require Import WireConstantsGen.

Theorem C10_wire_constants_documented :
  forall name v, In (name, v) documented_constants -> lookup name wire_constants = Some v.
Proof. apply conforms_spec. vm_compute. reflexivity. Qed.

(* non-vacuity: the documented list is not empty and names e.g. the KLL family id *)
Example C10_consts_nonvacuous : In ("kll/kll_sketch.FAMILY"%string, 15%N) documented_constants /\ (100 < length documented_constants)%nat.
Proof. split; [vm_compute; tauto | vm_compute; repeat constructor]. Qed.

Print Assumptions C10_wire_constants_documented.
