(* CodecCmProofs.v — the count-min sketch image (CodecCmDefs.v): well-formed sketches, layout of the image,
   round trips through both readers, advertised size, rejection of strict prefixes, bounds on what the readers
   accept from arbitrary bytes. Reuses the little-endian / rd lemmas of ThetaCodecProofs2.v. *)
From Coq Require Import NArith ZArith List Bool Arith Lia.
From DS Require Import Word RunnerLib ThetaCodecDefs ThetaCodecProofs ThetaCodecProofs2 CodecCmDefs.
Import ListNotations.
Local Open Scope N_scope.

(* every sketch the C++ can build: the constructor bounds (uint8 hashes, uint32 buckets >= 3, fewer than 2^30
   cells), a 16-bit seed hash, 64-bit patterns for the weight and the cells, a full table, and an untouched table
   when the total weight is 0 (the total is the sum of the absolute update weights). *)
Definition wf (s : cm) : Prop :=
  c_nh s < 256 /\ 3 <= c_nb s /\ c_nb s < two32 /\ c_nh s * c_nb s < 1073741824 /\
  c_seed_hash s < 65536 /\ c_total s < two64 /\
  Forall (fun e => e < two64) (c_cells s) /\
  length (c_cells s) = N.to_nat (c_nh s * c_nb s) /\
  (c_total s = 0 -> c_cells s = zeros (c_nh s * c_nb s)).

(* ---------- pieces of the image ---------- *)
Definition cm_flag (s : cm) : N := if cm_empty s then 1 else 0.
Definition cm_head (s : cm) : list N :=
  [2; 1; 18; cm_flag s; 0; 0; 0; 0] ++ u32 (c_nb s) ++ [c_nh s] ++ u16 (c_seed_hash s) ++ [0].
Definition cm_body (s : cm) : list N :=
  if cm_empty s then [] else u64 (c_total s) ++ flat_map u64 (c_cells s).

Lemma enc_split s : enc s = cm_head s ++ cm_body s.
Proof. unfold enc, cm_head, cm_body, cm_flag. rewrite <- !app_assoc. reflexivity. Qed.

Lemma cm_head_length s : length (cm_head s) = 16%nat.
Proof. unfold cm_head, u32, u16. rewrite !app_length, !N_to_le_bytes_length. reflexivity. Qed.

Lemma cm_body_length s :
  length (cm_body s) = if cm_empty s then 0%nat else (8 + 8 * length (c_cells s))%nat.
Proof.
  unfold cm_body. destruct (cm_empty s); [reflexivity|].
  rewrite app_length, flat_u64_length. unfold u64. now rewrite N_to_le_bytes_length.
Qed.

Lemma enc_length s :
  length (enc s) = if cm_empty s then 16%nat else (24 + 8 * length (c_cells s))%nat.
Proof.
  rewrite enc_split, app_length, cm_head_length, cm_body_length. destruct (cm_empty s); lia.
Qed.

Lemma cm_flag_cases s : cm_flag s = 0 \/ cm_flag s = 1.
Proof. unfold cm_flag. destruct (cm_empty s); auto. Qed.

Lemma cm_flag_bit0 s : N.testbit (cm_flag s) 0 = cm_empty s.
Proof. unfold cm_flag. destruct (cm_empty s); reflexivity. Qed.

Lemma header_ok_flag s : header_ok 2 1 18 (cm_flag s) = true.
Proof. destruct (cm_flag_cases s) as [-> | ->]; reflexivity. Qed.

(* the sixteen header bytes *)
Lemma cm_header s tl : c_nh s < 256 -> c_nb s < two32 -> c_seed_hash s < 65536 ->
  let img := cm_head s ++ tl in
  rd 1 0 img = Some 2 /\ rd 1 1 img = Some 1 /\ rd 1 2 img = Some 18 /\ rd 1 3 img = Some (cm_flag s) /\
  rd 4 4 img = Some 0 /\ rd 4 8 img = Some (c_nb s) /\ rd 1 12 img = Some (c_nh s) /\
  rd 2 13 img = Some (c_seed_hash s) /\ rd 1 15 img = Some 0 /\
  skipn 16 img = tl /\ (16 <= length img)%nat.
Proof.
  intros Hnh Hnb Hsh img. subst img.
  refine (conj _ (conj _ (conj _ (conj _ (conj _ (conj _ (conj _ (conj _ (conj _ (conj _ _)))))))))).
  11: { rewrite app_length, cm_head_length. lia. }
  10: { apply skipn_app_exact, cm_head_length. }
  all: unfold cm_head; cbn [app]; rewrite <- !app_assoc.
  - eapply (rd_at 1 0 _ [] [_]); reflexivity.
  - eapply (rd_at 1 1 _ [_] [_]); reflexivity.
  - eapply (rd_at 1 2 _ [_;_] [_]); reflexivity.
  - eapply (rd_at 1 3 _ [_;_;_] [_]); try reflexivity. apply le1.
    destruct (cm_flag_cases s) as [-> | ->]; reflexivity.
  - eapply (rd_at 4 4 _ [_;_;_;_] [_;_;_;_]); reflexivity.
  - eapply (rd_at 4 8 _ [_;_;_;_;_;_;_;_] (u32 _)); try reflexivity. now apply u32_rt.
  - eapply (rd_at2 1 12 _ [_;_;_;_;_;_;_;_] (u32 _) [_]); try reflexivity. now apply le1.
  - eapply (rd_at3 2 13 _ [_;_;_;_;_;_;_;_] (u32 _) [_] (u16 _)); try reflexivity. now apply u16_rt.
  - eapply (rd_at4 1 15 _ [_;_;_;_;_;_;_;_] (u32 _) [_] (u16 _) [_]); reflexivity.
Qed.

(* ---------- the readers, given the header fields ---------- *)
Definition dec_bytes_tail (expected : N) (bytes : list N) (fl nb nh sh : N) : option cm :=
  if negb (sh =? expected) then None else
  if N.testbit fl 0 then
    if negb (ctor_ok nh nb) then None else
    Some {| c_nh := nh; c_nb := nb; c_seed_hash := sh; c_total := 0; c_cells := zeros (ncells nh nb) |}
  else
    if N.of_nat (length bytes) - 16 <? 8 * (1 + nb * nh) then None else
    if negb (ctor_ok nh nb) then None else
    do total <- rd 8 16 bytes;
    do cells <- rd_entries (N.to_nat (ncells nh nb)) (skipn 24 bytes);
    Some {| c_nh := nh; c_nb := nb; c_seed_hash := sh; c_total := total; c_cells := cells |}.

Lemma dec_bytes_cm_eq e bytes pre ver fam fl nb nh sh :
  (16 <= length bytes)%nat ->
  rd 1 0 bytes = Some pre -> rd 1 1 bytes = Some ver -> rd 1 2 bytes = Some fam -> rd 1 3 bytes = Some fl ->
  header_ok pre ver fam fl = true ->
  rd 4 8 bytes = Some nb -> rd 1 12 bytes = Some nh -> rd 2 13 bytes = Some sh ->
  dec_bytes e bytes = dec_bytes_tail e bytes fl nb nh sh.
Proof.
  intros Hl H0 H1 H2 H3 Hok H8 H12 H13. unfold dec_bytes.
  destruct (Nat.ltb_spec (length bytes) 16); [lia|].
  rewrite H0, H1, H2, H3. cbn [bind]. rewrite Hok. cbn [negb]. rewrite H8, H12, H13. reflexivity.
Qed.

Definition dec_stream_tail (expected : N) (bytes : list N) (fl nb nh sh : N) : option (cm * nat) :=
  if negb (sh =? expected) then None else
  if negb (ctor_ok nh nb) then None else
  if N.testbit fl 0 then
    Some ({| c_nh := nh; c_nb := nb; c_seed_hash := sh; c_total := 0; c_cells := zeros (ncells nh nb) |}, 16%nat)
  else
    do total <- rd 8 16 bytes;
    do cells <- rd_entries (N.to_nat (ncells nh nb)) (skipn 24 bytes);
    Some ({| c_nh := nh; c_nb := nb; c_seed_hash := sh; c_total := total; c_cells := cells |},
          (24 + 8 * N.to_nat (ncells nh nb))%nat).

Lemma dec_stream_cm_eq e bytes pre ver fam fl u4 nb nh sh u1 :
  rd 1 0 bytes = Some pre -> rd 1 1 bytes = Some ver -> rd 1 2 bytes = Some fam -> rd 1 3 bytes = Some fl ->
  rd 4 4 bytes = Some u4 -> header_ok pre ver fam fl = true ->
  rd 4 8 bytes = Some nb -> rd 1 12 bytes = Some nh -> rd 2 13 bytes = Some sh -> rd 1 15 bytes = Some u1 ->
  dec_stream e bytes = dec_stream_tail e bytes fl nb nh sh.
Proof.
  intros H0 H1 H2 H3 H4 Hok H8 H12 H13 H15. unfold dec_stream.
  rewrite H0, H1, H2, H3, H4. cbn [bind]. rewrite Hok. cbn [negb]. rewrite H8, H12, H13, H15. reflexivity.
Qed.

(* ---------- facts from wf ---------- *)
Lemma wf_ncells s : wf s -> ncells (c_nh s) (c_nb s) = c_nh s * c_nb s.
Proof.
  intros _. unfold ncells. reflexivity.
Qed.

Lemma wf_ctor_ok s : wf s -> ctor_ok (c_nh s) (c_nb s) = true.
Proof.
  intros Hwf. pose proof Hwf as (_ & H3 & _ & Hc & _). unfold ctor_ok. rewrite (wf_ncells s Hwf).
  apply andb_true_intro. split; [apply N.leb_le; exact H3 | apply N.ltb_lt; exact Hc].
Qed.

Lemma cm_eta s : {| c_nh := c_nh s; c_nb := c_nb s; c_seed_hash := c_seed_hash s; c_total := c_total s;
                    c_cells := c_cells s |} = s.
Proof. destruct s; reflexivity. Qed.

Lemma cm_empty_total s : cm_empty s = true -> c_total s = 0.
Proof. unfold cm_empty. apply N.eqb_eq. Qed.

(* the header fields of the whole image followed by anything *)
Lemma enc_header s rest : wf s ->
  let img := enc s ++ rest in
  rd 1 0 img = Some 2 /\ rd 1 1 img = Some 1 /\ rd 1 2 img = Some 18 /\ rd 1 3 img = Some (cm_flag s) /\
  rd 4 4 img = Some 0 /\ rd 4 8 img = Some (c_nb s) /\ rd 1 12 img = Some (c_nh s) /\
  rd 2 13 img = Some (c_seed_hash s) /\ rd 1 15 img = Some 0 /\
  skipn 16 img = cm_body s ++ rest /\ (16 <= length img)%nat.
Proof.
  intros (Hnh & _ & Hnb & _ & Hsh & _) img. subst img. rewrite enc_split, <- app_assoc.
  apply cm_header; assumption.
Qed.

(* the weight and the table of a non-empty image *)
Lemma enc_nonempty s rest : wf s -> cm_empty s = false ->
  rd 8 16 (enc s ++ rest) = Some (c_total s) /\
  skipn 24 (enc s ++ rest) = flat_map u64 (c_cells s) ++ rest /\
  length (enc s) = (24 + 8 * length (c_cells s))%nat.
Proof.
  intros Hwf He. pose proof Hwf as (_ & _ & _ & _ & _ & Ht & _).
  split; [|split].
  - rewrite enc_split. unfold cm_body. rewrite He, <- !app_assoc.
    eapply (rd_at 8 16 _ (cm_head s) (u64 _)); try reflexivity. now apply u64_rt.
  - rewrite enc_split. unfold cm_body. rewrite He, <- !app_assoc.
    apply (skipn_app2 24 (cm_head s) (u64 _)). rewrite cm_head_length. reflexivity.
  - rewrite enc_length, He. reflexivity.
Qed.

(* ---------- round trips ---------- *)
Theorem cm_roundtrip_bytes s : wf s -> forall rest, dec_bytes (c_seed_hash s) (enc s ++ rest) = Some s.
Proof.
  intros Hwf rest.
  destruct (enc_header s rest Hwf) as (H0 & H1 & H2 & H3 & H4 & H8 & H12 & H13 & H15 & Hsk & Hl).
  rewrite (dec_bytes_cm_eq _ _ _ _ _ _ _ _ _ Hl H0 H1 H2 H3 (header_ok_flag s) H8 H12 H13).
  unfold dec_bytes_tail. rewrite N.eqb_refl. cbn [negb]. rewrite cm_flag_bit0, (wf_ctor_ok s Hwf). cbn [negb].
  rewrite (wf_ncells s Hwf).
  pose proof Hwf as (_ & _ & _ & _ & _ & _ & Hcells & Hlen & Hzero).
  destruct (cm_empty s) eqn:He.
  - pose proof (cm_empty_total s He) as Ht. f_equal. rewrite <- (Hzero Ht), <- Ht. apply cm_eta.
  - destruct (enc_nonempty s rest Hwf He) as (Hrt & Hsk24 & Hlen').
    destruct (N.ltb_spec (N.of_nat (length (enc s ++ rest)) - 16) (8 * (1 + c_nb s * c_nh s))) as [Hc|_].
    { exfalso. rewrite app_length, Hlen', Hlen in Hc. lia. }
    rewrite Hrt. cbn [bind]. rewrite Hsk24, <- Hlen, rd_entries_flat by assumption. cbn [bind].
    f_equal. apply cm_eta.
Qed.

Theorem cm_roundtrip_stream s : wf s -> forall rest,
  dec_stream (c_seed_hash s) (enc s ++ rest) = Some (s, length (enc s)).
Proof.
  intros Hwf rest.
  destruct (enc_header s rest Hwf) as (H0 & H1 & H2 & H3 & H4 & H8 & H12 & H13 & H15 & Hsk & Hl).
  rewrite (dec_stream_cm_eq _ _ _ _ _ _ _ _ _ _ _ H0 H1 H2 H3 H4 (header_ok_flag s) H8 H12 H13 H15).
  unfold dec_stream_tail. rewrite N.eqb_refl. cbn [negb]. rewrite cm_flag_bit0, (wf_ctor_ok s Hwf). cbn [negb].
  rewrite (wf_ncells s Hwf).
  pose proof Hwf as (_ & _ & _ & _ & _ & _ & Hcells & Hlen & Hzero).
  destruct (cm_empty s) eqn:He.
  - pose proof (cm_empty_total s He) as Ht. rewrite enc_length, He. f_equal. f_equal.
    rewrite <- (Hzero Ht), <- Ht. apply cm_eta.
  - destruct (enc_nonempty s rest Hwf He) as (Hrt & Hsk24 & Hlen').
    rewrite Hrt. cbn [bind]. rewrite Hsk24, <- Hlen, rd_entries_flat by assumption. cbn [bind].
    rewrite Hlen'. f_equal. f_equal. apply cm_eta.
Qed.

(* the advertised size is the image size *)
Theorem cm_size s : wf s -> N.of_nat (length (enc s)) = serialized_size s.
Proof.
  intros (_ & _ & _ & _ & _ & _ & _ & Hlen & _). rewrite enc_length. unfold serialized_size.
  destruct (cm_empty s); [reflexivity|]. rewrite Hlen. lia.
Qed.

(* ---------- strict prefixes ---------- *)
Lemma cm_dec_stream_min_len e l r : dec_stream e l = Some r -> (16 <= length l)%nat.
Proof. unfold dec_stream, bind. intros H. brk H. all: rd_facts; lia. Qed.

Theorem cm_prefix_bytes s e n : wf s -> (n < length (enc s))%nat -> dec_bytes e (firstn n (enc s)) = None.
Proof.
  intros Hwf Hn.
  destruct (Nat.lt_ge_cases n 16) as [H16|H16].
  { unfold dec_bytes. rewrite firstn_length.
    destruct (Nat.ltb_spec (Nat.min n (length (enc s))) 16); [reflexivity|lia]. }
  destruct (enc_header s [] Hwf) as (H0 & H1 & H2 & H3 & H4 & H8 & H12 & H13 & H15 & Hsk & Hl).
  rewrite app_nil_r in *.
  rewrite (dec_bytes_cm_eq e _ 2 1 18 (cm_flag s) (c_nb s) (c_nh s) (c_seed_hash s))
    by (rewrite ?rd_firstn by lia; try assumption; try apply header_ok_flag; rewrite firstn_length; lia).
  unfold dec_bytes_tail. rewrite cm_flag_bit0.
  pose proof Hwf as (_ & _ & _ & _ & _ & _ & _ & Hlen & _).
  pose proof (enc_length s) as Hel.
  destruct (cm_empty s); [lia|].
  destruct (negb _); [reflexivity|].
  destruct (N.ltb_spec (N.of_nat (length (firstn n (enc s))) - 16) (8 * (1 + c_nb s * c_nh s))) as [_|Hc];
    [reflexivity|].
  exfalso. rewrite firstn_length, Hel, Hlen in Hc. rewrite Hel, Hlen in Hn. lia.
Qed.

Theorem cm_prefix_stream s e n : wf s -> (n < length (enc s))%nat -> dec_stream e (firstn n (enc s)) = None.
Proof.
  intros Hwf Hn. destruct (dec_stream e (firstn n (enc s))) as [r|] eqn:H; [exfalso|reflexivity].
  pose proof (cm_dec_stream_min_len _ _ _ H) as H16. rewrite firstn_length in H16.
  destruct (enc_header s [] Hwf) as (H0 & H1 & H2 & H3 & H4 & H8 & H12 & H13 & H15 & Hsk & Hl).
  rewrite app_nil_r in *.
  rewrite (dec_stream_cm_eq e _ 2 1 18 (cm_flag s) 0 (c_nb s) (c_nh s) (c_seed_hash s) 0) in H
    by (rewrite ?rd_firstn by lia; try assumption; apply header_ok_flag).
  unfold dec_stream_tail in H. rewrite cm_flag_bit0, (wf_ncells s Hwf) in H.
  pose proof Hwf as (_ & _ & _ & _ & _ & _ & _ & Hlen & _).
  pose proof (enc_length s) as Hel.
  destruct (cm_empty s); [lia|].
  unfold bind in H. brk H. rd_facts. rewrite ?firstn_length in *. lia.
Qed.

Theorem cm_prefix_rejected s : wf s -> forall e n, (n < length (enc s))%nat ->
  dec_bytes e (firstn n (enc s)) = None /\ dec_stream e (firstn n (enc s)) = None.
Proof. intros Hwf e n Hn. split; [now apply cm_prefix_bytes | now apply cm_prefix_stream]. Qed.

(* ---------- arbitrary bytes ---------- *)
Lemma skipn_nth_cons (l : list N) : forall k, (k < length l)%nat -> skipn k l = nth k l 0 :: skipn (S k) l.
Proof.
  induction l as [|x t IH]; intros k Hk; [cbn [length] in Hk; lia|].
  destruct k as [|k]; [reflexivity|]. cbn [length] in Hk. cbn [skipn nth]. rewrite IH by lia. reflexivity.
Qed.

Lemma rd1_nth k l v : rd 1 k l = Some v -> v = w8 (nth k l 0).
Proof.
  intros H. pose proof (rd_some_len _ _ _ _ H) as Hl. unfold rd in H.
  destruct (Nat.leb_spec (k + 1) (length l)); [|discriminate]. injection H as <-.
  rewrite skipn_nth_cons by lia. cbn [firstn le_bytes_to_N]. now rewrite N.shiftl_0_l, N.lor_0_r.
Qed.

Lemma testbit_w8_0 x : N.testbit (w8 x) 0 = N.testbit x 0.
Proof. unfold w8. rewrite N.land_spec. change (N.testbit 255 0) with true. apply andb_true_r. Qed.

Lemma zeros_length n : length (zeros n) = N.to_nat n.
Proof. apply repeat_length. Qed.

Theorem cm_stream_used_bounded e bytes s used :
  dec_stream e bytes = Some (s, used) -> (used <= length bytes)%nat.
Proof.
  unfold dec_stream, bind. intros H. brk H.
  all: apply some_pair_inv in H; destruct H as [Hs Hu]; subst s used.
  all: rd_facts; lia.
Qed.

Theorem cm_bytes_nonempty_bounded e bytes s :
  dec_bytes e bytes = Some s -> N.testbit (nth 3 bytes 0) 0 = false ->
  (24 + 8 * length (c_cells s) <= length bytes)%nat.
Proof.
  unfold dec_bytes, bind. intros H Hb. brk H.
  all: match goal with Hf : rd 1 3 _ = Some _ |- _ => pose proof (rd1_nth _ _ _ Hf) as Hfl end.
  all: subst; rewrite testbit_w8_0 in *; try congruence.
  injection H as <-. cbn [c_cells]. rd_facts. lia.
Qed.

Theorem cm_stream_nonempty_bounded e bytes s used :
  dec_stream e bytes = Some (s, used) -> N.testbit (nth 3 bytes 0) 0 = false ->
  (24 + 8 * length (c_cells s) <= length bytes)%nat /\ used = (24 + 8 * length (c_cells s))%nat.
Proof.
  unfold dec_stream, bind. intros H Hb. brk H.
  all: match goal with Hf : rd 1 3 _ = Some _ |- _ => pose proof (rd1_nth _ _ _ Hf) as Hfl end.
  all: subst; rewrite testbit_w8_0 in *; try congruence.
  apply some_pair_inv in H. destruct H as [Hs Hu]. subst s used. cbn [c_cells]. rd_facts. lia.
Qed.

(* whatever is accepted went through the constructor checks: at least 3 buckets, fewer than 2^30 cells, the
   expected seed hash, a full table *)
Theorem cm_bytes_accepts_ctor e bytes s : dec_bytes e bytes = Some s ->
  c_seed_hash s = e /\ 3 <= c_nb s /\ N.of_nat (length (c_cells s)) = ncells (c_nh s) (c_nb s) /\
  ncells (c_nh s) (c_nb s) < 1073741824.
Proof.
  unfold dec_bytes, bind. intros H. brk H.
  all: injection H as <-; cbn [c_cells c_nh c_nb c_seed_hash]; rewrite ?zeros_length.
  all: repeat match goal with
    | Hx : negb _ = false |- _ => apply negb_false_iff in Hx
    | Hx : ctor_ok _ _ = true |- _ => unfold ctor_ok in Hx; apply andb_prop in Hx; destruct Hx as [?Hc1 ?Hc2];
                                       apply N.leb_le in Hc1; apply N.ltb_lt in Hc2
    | Hx : (_ =? _) = true |- _ => apply N.eqb_eq in Hx
    end.
  all: rd_facts; repeat split; try assumption; try lia.
Qed.

Theorem cm_stream_accepts_ctor e bytes s used : dec_stream e bytes = Some (s, used) ->
  c_seed_hash s = e /\ 3 <= c_nb s /\ N.of_nat (length (c_cells s)) = ncells (c_nh s) (c_nb s) /\
  ncells (c_nh s) (c_nb s) < 1073741824.
Proof.
  unfold dec_stream, bind. intros H. brk H.
  all: apply some_pair_inv in H; destruct H as [Hs Hu]; subst s used;
       cbn [c_cells c_nh c_nb c_seed_hash]; rewrite ?zeros_length.
  all: repeat match goal with
    | Hx : negb _ = false |- _ => apply negb_false_iff in Hx
    | Hx : ctor_ok _ _ = true |- _ => unfold ctor_ok in Hx; apply andb_prop in Hx; destruct Hx as [?Hc1 ?Hc2];
                                       apply N.leb_le in Hc1; apply N.ltb_lt in Hc2
    | Hx : (_ =? _) = true |- _ => apply N.eqb_eq in Hx
    end.
  all: rd_facts; repeat split; try assumption; try lia.
Qed.

(* the documented exception: with the EMPTY flag set, a 16-byte image (followed by anything, or nothing) yields a
   sketch whose table has nh*nb cells - up to 2^30 - 1 of them - whatever the length of the input. *)
Definition empty_image (nh nb sh : N) : list N :=
  [2; 1; 18; 1; 0; 0; 0; 0] ++ u32 nb ++ [nh] ++ u16 sh ++ [0].

Lemma Forall_zeros n : Forall (fun e => e < two64) (zeros n).
Proof. apply Forall_forall. intros x Hx. apply repeat_spec in Hx. subst x. reflexivity. Qed.

Theorem cm_empty_image_cells_unbounded nh nb sh rest :
  nh < 256 -> 3 <= nb -> nb < two32 -> nh * nb < 1073741824 -> sh < 65536 ->
  length (empty_image nh nb sh) = 16%nat /\
  exists s, dec_bytes sh (empty_image nh nb sh ++ rest) = Some s /\
            dec_stream sh (empty_image nh nb sh ++ rest) = Some (s, 16%nat) /\
            length (c_cells s) = N.to_nat (nh * nb).
Proof.
  intros Hnh H3 Hnb Hc Hsh.
  set (s := {| c_nh := nh; c_nb := nb; c_seed_hash := sh; c_total := 0; c_cells := zeros (nh * nb) |}).
  assert (Hwf : wf s).
  { unfold wf, s. cbn [c_nh c_nb c_seed_hash c_total c_cells].
    repeat split; try assumption; try reflexivity; [apply Forall_zeros | apply zeros_length]. }
  assert (Henc : enc s = empty_image nh nb sh).
  { unfold enc, empty_image, s, cm_empty. cbn [c_nh c_nb c_seed_hash c_total c_cells].
    change (0 =? 0) with true. cbv iota. reflexivity. }
  split; [rewrite <- Henc, enc_length; reflexivity|].
  exists s. rewrite <- Henc. split; [|split].
  - apply (cm_roundtrip_bytes s Hwf).
  - pose proof (cm_roundtrip_stream s Hwf rest) as Hr. rewrite enc_length in Hr. exact Hr.
  - apply zeros_length.
Qed.

(* ---------- documented layout ---------- *)
Lemma cm_rd_skip n (a l : list N) off : rd n (length a + off) (a ++ l) = rd n off l.
Proof.
  unfold rd. rewrite app_length.
  replace (length a + off + n <=? length a + length l)%nat with (off + n <=? length l)%nat.
  2:{ destruct (Nat.leb_spec (off + n) (length l)), (Nat.leb_spec (length a + off + n) (length a + length l));
      lia || reflexivity. }
  rewrite skipn_app. rewrite skipn_all2 by lia.
  replace (length a + off - length a)%nat with off by lia. reflexivity.
Qed.

Lemma cm_rd_flat ents : Forall (fun e => e < two64) ents -> forall i rest, (i < length ents)%nat ->
  rd 8 (8 * i) (flat_map u64 ents ++ rest) = Some (nth i ents 0).
Proof.
  induction 1 as [|e r He Hr IH]; intros i rest Hi; [cbn [length] in Hi; lia|].
  cbn [flat_map]. rewrite <- app_assoc. destruct i as [|i].
  - eapply (rd_at 8 0 _ [] (u64 e)); try reflexivity. now apply u64_rt.
  - replace (8 * S i)%nat with (length (u64 e) + 8 * i)%nat by (unfold u64; rewrite N_to_le_bytes_length; lia).
    rewrite cm_rd_skip. cbn [nth]. apply IH. cbn [length] in Hi. lia.
Qed.

Theorem cm_layout s rest : wf s ->
  let img := enc s ++ rest in
  nth 0 img 0 = 2 /\ nth 1 img 0 = 1 /\ nth 2 img 0 = 18 /\
  N.testbit (nth 3 img 0) 0 = cm_empty s /\ (nth 3 img 0 = 0 \/ nth 3 img 0 = 1) /\
  nth 4 img 0 = 0 /\ nth 5 img 0 = 0 /\ nth 6 img 0 = 0 /\ nth 7 img 0 = 0 /\
  rd 4 8 img = Some (c_nb s) /\ rd 1 12 img = Some (c_nh s) /\ rd 2 13 img = Some (c_seed_hash s) /\
  rd 1 15 img = Some 0 /\
  (cm_empty s = true -> length (enc s) = 16%nat) /\
  (cm_empty s = false ->
     rd 8 16 img = Some (c_total s) /\
     length (enc s) = (24 + 8 * length (c_cells s))%nat /\
     forall i, (i < length (c_cells s))%nat -> rd 8 (24 + 8 * i) img = Some (nth i (c_cells s) 0)).
Proof.
  intros Hwf img.
  destruct (enc_header s rest Hwf) as (H0 & H1 & H2 & H3 & H4 & H8 & H12 & H13 & H15 & Hsk & Hl).
  subst img.
  assert (Hn : forall k, (k < 8)%nat -> nth k (enc s ++ rest) 0 = nth k [2; 1; 18; cm_flag s; 0; 0; 0; 0] 0).
  { intros k Hk. rewrite enc_split. unfold cm_head. rewrite <- !app_assoc. apply app_nth1. cbn [length]. lia. }
  rewrite !Hn by lia. cbn [nth].
  refine (conj eq_refl (conj eq_refl (conj eq_refl (conj (cm_flag_bit0 s) (conj (cm_flag_cases s)
          (conj eq_refl (conj eq_refl (conj eq_refl (conj eq_refl (conj H8 (conj H12 (conj H13 (conj H15
          (conj _ _)))))))))))))).
  - intros He. rewrite enc_length, He. reflexivity.
  - intros He. destruct (enc_nonempty s rest Hwf He) as (Hrt & Hsk24 & Hlen).
    split; [exact Hrt|]. split; [exact Hlen|]. intros i Hi.
    pose proof Hwf as (_ & _ & _ & _ & _ & _ & Hcells & _).
    rewrite <- (firstn_skipn 24 (enc s ++ rest)), Hsk24.
    replace 24%nat with (length (firstn 24 (enc s ++ rest))) at 1
      by (rewrite firstn_length, app_length, Hlen; lia).
    rewrite cm_rd_skip. now apply cm_rd_flat.
Qed.
