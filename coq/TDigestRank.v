(* TDigestRank.v — get_rank over exact rationals: what the binary searches find on sorted centroids, the value of the
   interpolation in terms of the centres of the centroids, range and monotonicity of the rank in the value, and the
   unreachability of the tail formulas, for every state get_rank can see (a compressed non-empty digest: [Good]). *)
From Coq Require Import ZArith List Bool QArith Lia Lqa Psatz Sorting.Sorted Arith.
From DS Require Import RunnerLib TDigestDefs TDigestProofs TDigestQuantile.
Import ListNotations.
Local Open Scope Q_scope.

Section Rank.
  Variable ln : Q -> Q.
  Variables pinf ninf : Q.
  Notation QO := (qops ln pinf ninf).
  Notation cq := (centroid QO).
  Notation mean := (c_mean QO).
  Notation wt := (c_w QO).
  Notation mle := (mle ln pinf ninf).
  Notation wpos := (wpos ln pinf ninf).
  Notation Good := (Good ln pinf ninf).
  Notation nthc := (cnth QO).

  Local Lemma Lt a b : nltb QO a b = true <-> a < b. Proof. apply ltb_lt. Qed.
  Local Lemma Ge a b : nltb QO a b = false <-> b <= a. Proof. apply ltb_ge. Qed.

  Ltac qr := unfold nhalf, n0, n1, n2 in *;
             change (nadd QO) with Qplus in *; change (nsub QO) with Qminus in *; change (nmul QO) with Qmult in *;
             change (ndiv QO) with Qdiv in *; change (nofZ QO) with inject_Z in *; change (num QO) with Q in *;
             change (inject_Z 0) with 0 in *; change (inject_Z 1) with 1 in *; change (inject_Z 2) with 2 in *.

  (* ---- sorted lists by index ---- *)
  Lemma sorted_nth (cs : list cq) : StronglySorted mle cs ->
    forall i j, (i <= j < length cs)%nat -> mean (nthc cs i) <= mean (nthc cs j).
  Proof.
    induction 1 as [|x l Hl IH Hx]; intros i j [Hij Hj]; [simpl in Hj; lia|].
    destruct j as [|j'].
    - assert (i = 0)%nat by lia. subst. apply Qle_refl.
    - simpl in Hj. destruct i as [|i'].
      + unfold cnth. cbn [nth]. rewrite Forall_forall in Hx. apply (Hx (nth j' l (dflt QO))). apply nth_In. lia.
      + unfold cnth in *. cbn [nth]. apply IH. lia.
  Qed.

  Lemma nth_last_c (cs : list cq) : nthc cs (length cs - 1) = last cs (dflt QO).
  Proof.
    unfold cnth. destruct cs as [|x l]; [reflexivity|]. revert x. induction l as [|y l' IH]; intro x; [reflexivity|].
    cbn [length]. replace (S (S (length l')) - 1)%nat with (S (length l')) by lia.
    change (nth (S (length l')) (x :: y :: l') (dflt QO)) with (nth (length l') (y :: l') (dflt QO)).
    change (last (x :: y :: l') (dflt QO)) with (last (y :: l') (dflt QO)).
    rewrite <- (IH y). cbn [length]. replace (S (length l') - 1)%nat with (length l') by lia. reflexivity.
  Qed.

  (* ---- std::lower_bound / std::upper_bound ---- *)
  Section Search.
    Variable cs : list cq.
    Variable v : Q.
    Hypothesis Hs : StronglySorted mle cs.

    Lemma lb_spec : forall fuel first len, (len <= fuel)%nat -> (first + len <= length cs)%nat ->
      let r := lower_bound QO fuel cs v first len in
      (first <= r <= first + len)%nat /\
      (forall i, (first <= i < r)%nat -> mean (nthc cs i) < v) /\
      (forall i, (r <= i < first + len)%nat -> v <= mean (nthc cs i)).
    Proof.
      induction fuel as [|f IH]; intros first len Hf Hl; cbv zeta.
      - assert (len = 0)%nat by lia. subst. cbn [lower_bound]. repeat split; try lia; intros; lia.
      - cbn [lower_bound]. destruct len as [|len'].
        + repeat split; try lia; intros; lia.
        + set (half := Nat.div2 (S len')).
          assert (Hh : (half < S len')%nat) by (apply Nat.lt_div2; lia).
          destruct (nltb QO (mean (nthc cs (first + half))) v) eqn:C.
          * apply Lt in C.
            destruct (IH (S (first + half)) (S len' - half - 1)%nat) as (R1 & R2 & R3); [lia|lia|].
            set (r := lower_bound QO f cs v (S (first + half)) (S len' - half - 1)) in *.
            split; [lia|]. split.
            -- intros i Hi. destruct (Nat.le_gt_cases i (first + half)) as [X|X].
               ++ eapply Qle_lt_trans; [|exact C]. apply sorted_nth; auto. lia.
               ++ apply R2. lia.
            -- intros i Hi. apply R3. lia.
          * apply Ge in C.
            destruct (IH first half) as (R1 & R2 & R3); [lia|lia|].
            set (r := lower_bound QO f cs v first half) in *.
            split; [lia|]. split.
            -- intros i Hi. apply R2. lia.
            -- intros i Hi. destruct (Nat.le_gt_cases (first + half) i) as [X|X].
               ++ eapply Qle_trans; [exact C|]. apply sorted_nth; auto. lia.
               ++ apply R3. lia.
    Qed.

    Lemma ub_spec : forall fuel first len, (len <= fuel)%nat -> (first + len <= length cs)%nat ->
      let r := upper_bound QO fuel cs v first len in
      (first <= r <= first + len)%nat /\
      (forall i, (first <= i < r)%nat -> mean (nthc cs i) <= v) /\
      (forall i, (r <= i < first + len)%nat -> v < mean (nthc cs i)).
    Proof.
      induction fuel as [|f IH]; intros first len Hf Hl; cbv zeta.
      - assert (len = 0)%nat by lia. subst. cbn [upper_bound]. repeat split; try lia; intros; lia.
      - cbn [upper_bound]. destruct len as [|len'].
        + repeat split; try lia; intros; lia.
        + set (half := Nat.div2 (S len')).
          assert (Hh : (half < S len')%nat) by (apply Nat.lt_div2; lia).
          destruct (nltb QO v (mean (nthc cs (first + half)))) eqn:C.
          * apply Lt in C.
            destruct (IH first half) as (R1 & R2 & R3); [lia|lia|].
            set (r := upper_bound QO f cs v first half) in *.
            split; [lia|]. split.
            -- intros i Hi. apply R2. lia.
            -- intros i Hi. destruct (Nat.le_gt_cases (first + half) i) as [X|X].
               ++ eapply Qlt_le_trans; [exact C|]. apply sorted_nth; auto. lia.
               ++ apply R3. lia.
          * apply Ge in C.
            destruct (IH (S (first + half)) (S len' - half - 1)%nat) as (R1 & R2 & R3); [lia|lia|].
            set (r := upper_bound QO f cs v (S (first + half)) (S len' - half - 1)) in *.
            split; [lia|]. split.
            -- intros i Hi. destruct (Nat.le_gt_cases i (first + half)) as [X|X].
               ++ eapply Qle_trans; [|exact C]. apply sorted_nth; auto. lia.
               ++ apply R2. lia.
            -- intros i Hi. apply R3. lia.
    Qed.
  End Search.

  (* ---- sums of weights ---- *)
  Lemma wsum_val (l : list cq) : forall acc, wsum QO l acc == acc + inject_Z (sumw QO l).
  Proof.
    induction l as [|x l IH]; intro acc.
    - unfold wsum. cbn [fold_left]. change (sumw QO []) with 0%Z. change (inject_Z 0) with 0. lra.
    - change (wsum QO (x :: l) acc) with (wsum QO l (nadd QO acc (nofZ QO (wt x)))). rewrite IH.
      change (sumw QO (x :: l)) with (wt x + sumw QO l)%Z. rewrite inject_Z_plus. qr. lra.
  Qed.

  Lemma firstn_add (l : list cq) : forall i k, firstn (i + k) l = firstn i l ++ firstn k (skipn i l).
  Proof.
    induction l as [|x l IH]; intros i k.
    - rewrite skipn_nil, !firstn_nil. reflexivity.
    - destruct i as [|i']; [reflexivity|]. cbn [Nat.add firstn skipn app]. rewrite IH. reflexivity.
  Qed.

  Lemma firstn_S_nth (l : list cq) : forall i, (i < length l)%nat -> firstn (S i) l = firstn i l ++ [nthc l i].
  Proof.
    induction l as [|x l IH]; intros i Hi; [simpl in Hi; lia|].
    destruct i as [|i']; [reflexivity|]. simpl in Hi. unfold cnth in *.
    change (firstn (S (S i')) (x :: l)) with (x :: firstn (S i') l). change (firstn (S i') (x :: l)) with (x :: firstn i' l).
    change (nth (S i') (x :: l) (dflt QO)) with (nth i' l (dflt QO)). rewrite IH by lia. reflexivity.
  Qed.

  (* prefix weight and centre of the i-th centroid *)
  Definition Wp (cs : list cq) (i : nat) : Q := inject_Z (sumw QO (firstn i cs)).
  Definition Cc (cs : list cq) (i : nat) : Q := Wp cs i + inject_Z (wt (nthc cs i)) * (1 # 2).

  Lemma Wp_S cs i : (i < length cs)%nat -> Wp cs (S i) == Wp cs i + inject_Z (wt (nthc cs i)).
  Proof.
    intro H. unfold Wp. rewrite firstn_S_nth by auto. rewrite sumw_app, inject_Z_plus.
    change (sumw QO [nthc cs i]) with (wt (nthc cs i) + 0)%Z. rewrite Z.add_0_r. reflexivity.
  Qed.

  Lemma wpos_nth cs i : wpos cs -> (i < length cs)%nat -> 1 <= inject_Z (wt (nthc cs i)).
  Proof.
    intros Hp Hi. unfold wpos in Hp. rewrite Forall_forall in Hp.
    change 1 with (inject_Z 1). rewrite <- Zle_Qle. apply Hp. unfold cnth. apply nth_In. exact Hi.
  Qed.

  Lemma Cc_step cs i : wpos cs -> (S i < length cs)%nat -> Cc cs i + 1 <= Cc cs (S i).
  Proof.
    intros Hp Hi. unfold Cc. rewrite Wp_S by lia.
    pose proof (wpos_nth cs i Hp ltac:(lia)). pose proof (wpos_nth cs (S i) Hp Hi). lra.
  Qed.

  Lemma Cc_mono cs : wpos cs -> forall j i, (i <= j < length cs)%nat -> Cc cs i <= Cc cs j.
  Proof.
    intros Hp. induction j as [|j IH]; intros i Hij.
    - assert (i = 0)%nat by lia. subst. apply Qle_refl.
    - destruct (Nat.eq_dec i (S j)) as [->|Hne]; [apply Qle_refl|].
      eapply Qle_trans; [apply (IH i); lia|]. pose proof (Cc_step cs j Hp ltac:(lia)). lra.
  Qed.

  Lemma Cc_first cs : wpos cs -> (0 < length cs)%nat -> 1 # 2 <= Cc cs 0.
  Proof.
    intros Hp Hl. unfold Cc, Wp. cbn [firstn]. change (sumw QO []) with 0%Z. change (inject_Z 0) with 0.
    pose proof (wpos_nth cs 0 Hp Hl). lra.
  Qed.

  Lemma Cc_last cs : wpos cs -> (0 < length cs)%nat -> Cc cs (length cs - 1) + (1 # 2) <= inject_Z (sumw QO cs).
  Proof.
    intros Hp Hl. unfold Cc.
    assert (E : inject_Z (sumw QO cs) == Wp cs (length cs - 1) + inject_Z (wt (nthc cs (length cs - 1)))).
    { rewrite <- Wp_S by lia. unfold Wp. replace (S (length cs - 1)) with (length cs) by lia. rewrite firstn_all. reflexivity. }
    rewrite E. pose proof (wpos_nth cs (length cs - 1) Hp ltac:(lia)). lra.
  Qed.

  (* ---- the body of get_rank after the two tail tests, split into the index adjustment and the interpolation ---- *)
  Definition rank_fin (cs : list cq) (cw : Z) (v : Q) (lower upper : nat) : option Q :=
    let cwn := nofZ QO cw in
    let lo := nthc cs lower in
    let up := nthc cs upper in
    let weight_below := nadd QO (wsum QO (firstn lower cs) (n0 QO)) (ndiv QO (nofZ QO (wt lo)) (n2 QO)) in
    let weight_delta := wsum QO (firstn (upper - lower) (skipn lower cs)) (n0 QO) in
    let weight_delta := nsub QO weight_delta (ndiv QO (nofZ QO (wt lo)) (n2 QO)) in
    let weight_delta := nadd QO weight_delta (ndiv QO (nofZ QO (wt up)) (n2 QO)) in
    let dm := nsub QO (mean up) (mean lo) in
    if nltb QO (n0 QO) dm then
      Some (ndiv QO (nadd QO weight_below (ndiv QO (nmul QO weight_delta (nsub QO v (mean lo))) dm)) cwn)
    else Some (ndiv QO (nadd QO weight_below (ndiv QO weight_delta (n2 QO))) cwn).

  Definition rank_mid (cs : list cq) (cw : Z) (v : Q) (L U : nat) : option Q :=
    let n := length cs in
    let lower := if nltb QO v (mean (nthc cs L)) then (L - 1)%nat else L in
    let upper := if Nat.eqb U n || negb (nltb QO (mean (nthc cs (U - 1))) v) then (U - 1)%nat else U in
    rank_fin cs cw v lower upper.

  Definition tail_left (mn : Q) (cs : list cq) (cw : Z) (v : Q) : option Q :=
    let cwn := nofZ QO cw in
    let first := nthc cs 0 in
    let first_mean := mean first in
    if nltb QO (n0 QO) (nsub QO first_mean mn) then
      (if neqb QO v mn then Some (ndiv QO (nhalf QO) cwn)
       else Some (nadd QO (n1 QO) (nmul QO (ndiv QO (nsub QO v mn) (nsub QO first_mean mn))
                                         (nsub QO (ndiv QO (nofZ QO (wt first)) (n2 QO)) (n1 QO)))))
    else Some (n0 QO).

  Definition tail_right (mx : Q) (cs : list cq) (cw : Z) (v : Q) : option Q :=
    let cwn := nofZ QO cw in
    let lastc := last_c QO cs (dflt QO) in
    let last_mean := mean lastc in
    if nltb QO (n0 QO) (nsub QO mx last_mean) then
      (if neqb QO v mx then Some (nsub QO (n1 QO) (ndiv QO (nhalf QO) cwn))
       else Some (nsub QO (n1 QO) (ndiv QO (nadd QO (n1 QO) (nmul QO (ndiv QO (nsub QO mx v) (nsub QO mx last_mean))
                                                                 (nsub QO (ndiv QO (nofZ QO (wt lastc)) (n2 QO)) (n1 QO)))) cwn)))
    else Some (n1 QO).

  Lemma rank_core_unfold mn mx cs cw v :
    rank_core QO mn mx cs cw v =
    if nltb QO v (mean (nthc cs 0)) then tail_left mn cs cw v else
    if nltb QO (mean (last_c QO cs (dflt QO))) v then tail_right mx cs cw v else
    let n := length cs in
    let L := lower_bound QO n cs v 0 n in
    if Nat.eqb L n then None else
    let U := upper_bound QO n cs v L (n - L) in
    if Nat.eqb U 0 then None else rank_mid cs cw v L U.
  Proof. reflexivity. Qed.

  (* value of the interpolation between the centroids lo <= up: in terms of their centres *)
  Lemma rank_fin_val cs cw v lo up : (lo <= up)%nat ->
    exists r, rank_fin cs cw v lo up = Some r /\
      ((0 < mean (nthc cs up) - mean (nthc cs lo) /\
        r == (Cc cs lo + (Cc cs up - Cc cs lo) * (v - mean (nthc cs lo)) / (mean (nthc cs up) - mean (nthc cs lo))) / inject_Z cw) \/
       (mean (nthc cs up) - mean (nthc cs lo) <= 0 /\
        r == (Cc cs lo + (Cc cs up - Cc cs lo) * (1 # 2)) / inject_Z cw)).
  Proof.
    intro Hle. unfold rank_fin. cbv zeta.
    assert (Hb : nadd QO (wsum QO (firstn lo cs) (n0 QO)) (ndiv QO (nofZ QO (wt (nthc cs lo))) (n2 QO)) == Cc cs lo).
    { rewrite wsum_val. unfold Cc, Wp. qr. unfold Qdiv. change (/ 2) with (1 # 2). lra. }
    assert (Hd : nadd QO (nsub QO (wsum QO (firstn (up - lo) (skipn lo cs)) (n0 QO)) (ndiv QO (nofZ QO (wt (nthc cs lo))) (n2 QO)))
                      (ndiv QO (nofZ QO (wt (nthc cs up))) (n2 QO)) == Cc cs up - Cc cs lo).
    { rewrite wsum_val. unfold Cc, Wp. replace up with (lo + (up - lo))%nat at 3 by lia. rewrite firstn_add, sumw_app, inject_Z_plus.
      qr. unfold Qdiv. change (/ 2) with (1 # 2). lra. }
    set (wb := nadd QO (wsum QO (firstn lo cs) (n0 QO)) _) in *.
    set (wd := nadd QO (nsub QO (wsum QO (firstn (up - lo) (skipn lo cs)) (n0 QO)) _) _) in *.
    clearbody wb wd.
    destruct (nltb QO (n0 QO) (nsub QO (mean (nthc cs up)) (mean (nthc cs lo)))) eqn:C.
    - apply Lt in C. eexists. split; [reflexivity|]. left. qr. split; [exact C|]. rewrite Hb, Hd. reflexivity.
    - apply Ge in C. eexists. split; [reflexivity|]. right. qr. split; [exact C|]. rewrite Hb, Hd.
      unfold Qdiv at 2. change (/ 2) with (1 # 2). reflexivity.
  Qed.

  (* ---- what get_rank answers for min <= v <= max: X = rank * total weight, between the centres of centroids lo <= up ---- *)
  Record RankAt (cs : list cq) (v : Q) (lo up : nat) (X : Q) : Prop := {
    ra_bounds : (lo <= up < length cs)%nat;
    ra_below : forall i, (i < length cs)%nat -> mean (nthc cs i) < v -> (i <= lo)%nat;
    ra_above : forall i, (i < length cs)%nat -> v < mean (nthc cs i) -> (up <= i)%nat;
    ra_kind :
      (* v equals the means of the block lo..up: midpoint of the centres of its first and last centroid *)
      (mean (nthc cs lo) == v /\ mean (nthc cs up) == v /\
       (forall i, (i < lo)%nat -> mean (nthc cs i) < v) /\ (forall i, (up < i < length cs)%nat -> v < mean (nthc cs i)) /\
       X == (Cc cs lo + Cc cs up) * (1 # 2)) \/
      (* v strictly between two adjacent centroids: linear interpolation between their centres *)
      (up = S lo /\ mean (nthc cs lo) < v /\ v < mean (nthc cs up) /\
       X == Cc cs lo + (Cc cs up - Cc cs lo) * (v - mean (nthc cs lo)) / (mean (nthc cs up) - mean (nthc cs lo))) }.

  Lemma good_ends mn mx cs cw : Good mn mx cs cw ->
    (0 < length cs)%nat /\ mean (nthc cs 0) == mn /\ mean (last cs (dflt QO)) == mx /\
    wt (nthc cs 0) = 1%Z /\ wt (last cs (dflt QO)) = 1%Z /\
    wpos cs /\ StronglySorted mle cs /\ cw = sumw QO cs.
  Proof.
    intro G. destruct (good_shape ln pinf ninf mn mx cs cw G) as (c0 & t & -> & W0 & M0 & Wl & Ml & Hp & Hs & Hcw).
    rewrite (last_cons_default ln pinf ninf t c0 (dflt QO)). cbn [length]. repeat split; auto. lia.
  Qed.

  Lemma rank_char mn mx cs cw v : Good mn mx cs cw -> mn <= v -> v <= mx ->
    exists r lo up X, rank_core QO mn mx cs cw v = Some r /\ r == X / inject_Z cw /\ RankAt cs v lo up X.
  Proof.
    intros G Hlo Hhi. destruct (good_ends mn mx cs cw G) as (Hn & M0 & Ml & _ & _ & Hp & Hs & Hcw).
    rewrite rank_core_unfold.
    assert (E1 : nltb QO v (mean (nthc cs 0)) = false). { apply Ge. rewrite M0. exact Hlo. }
    assert (E2 : nltb QO (mean (last_c QO cs (dflt QO))) v = false). { apply Ge. unfold last_c. rewrite Ml. exact Hhi. }
    rewrite E1, E2. cbv zeta.
    set (n := length cs) in *.
    destruct (lb_spec cs v Hs n 0 n) as (L1 & L2 & L3); [lia|lia|].
    set (L := lower_bound QO n cs v 0 n) in *. cbn [Nat.add] in L1, L3.
    assert (HLn : (L < n)%nat).
    { destruct (Nat.eq_dec L n) as [E|E]; [|lia]. exfalso.
      assert (X : mean (nthc cs (n - 1)) < v) by (apply L2; lia).
      unfold n in X. rewrite nth_last_c, Ml in X. lra. }
    assert (E3 : Nat.eqb L n = false) by (apply Nat.eqb_neq; lia). rewrite E3.
    destruct (ub_spec cs v Hs n L (n - L)) as (U1 & U2 & U3); [lia|lia|].
    set (U := upper_bound QO n cs v L (n - L)) in *.
    replace (L + (n - L))%nat with n in U1, U3 by lia.
    assert (HU0 : (0 < U)%nat).
    { destruct (Nat.eq_dec U 0) as [E|E]; [|lia]. exfalso.
      assert (X : v < mean (nthc cs 0)) by (apply U3; lia). rewrite M0 in X. lra. }
    assert (E4 : Nat.eqb U 0 = false) by (apply Nat.eqb_neq; lia). rewrite E4.
    unfold rank_mid. cbv zeta. fold n.
    destruct (nltb QO v (mean (nthc cs L))) eqn:CL.
    - (* v strictly between centroid L-1 and centroid L *)
      apply Lt in CL.
      assert (HL1 : (1 <= L)%nat).
      { destruct (Nat.eq_dec L 0) as [E|E]; [|lia]. exfalso. rewrite E in CL. rewrite M0 in CL. lra. }
      assert (HUL : U = L).
      { destruct (Nat.eq_dec U L) as [E|E]; auto. exfalso. assert (X : mean (nthc cs L) <= v) by (apply U2; lia). lra. }
      assert (Hbelow : mean (nthc cs (L - 1)) < v) by (apply L2; lia).
      assert (E5 : Nat.eqb U n = false) by (apply Nat.eqb_neq; lia).
      assert (E6 : nltb QO (mean (nthc cs (U - 1))) v = true) by (apply Lt; rewrite HUL; exact Hbelow).
      rewrite E5, E6. cbn [orb negb].
      destruct (rank_fin_val cs cw v (L - 1) U) as (r & Er & [(Hd & Hr)|(Hd & Hr)]); [lia| |exfalso; rewrite HUL in Hd; lra].
      exists r, (L - 1)%nat, U. eexists. split; [exact Er|]. split; [exact Hr|].
      split.
      + fold n. lia.
      + fold n. intros i Hi Hm. destruct (Nat.le_gt_cases L i) as [X|X]; [|lia]. exfalso.
        assert (v <= mean (nthc cs i)) by (apply L3; lia). lra.
      + fold n. intros i Hi Hm. destruct (Nat.le_gt_cases U i) as [X|X]; auto. exfalso.
        assert (mean (nthc cs i) < v) by (apply L2; lia). lra.
      + right. rewrite HUL in *. split; [lia|]. split; [exact Hbelow|]. split; [exact CL|]. reflexivity.
    - (* v equals the mean of centroids L .. U-1 *)
      apply Ge in CL.
      assert (HvL : v <= mean (nthc cs L)) by (apply L3; lia).
      assert (HLU : (L < U)%nat).
      { destruct (Nat.eq_dec U L) as [E|E]; [|lia]. exfalso. assert (X : v < mean (nthc cs L)) by (apply U3; lia). lra. }
      assert (HU1 : mean (nthc cs (U - 1)) <= v) by (apply U2; lia).
      assert (HU1' : v <= mean (nthc cs (U - 1))) by (apply L3; lia).
      assert (E6 : nltb QO (mean (nthc cs (U - 1))) v = false) by (apply Ge; exact HU1').
      rewrite E6. cbn [negb]. rewrite orb_true_r.
      destruct (rank_fin_val cs cw v L (U - 1)) as (r & Er & [(Hd & Hr)|(Hd & Hr)]); [lia|exfalso; lra|].
      exists r, L, (U - 1)%nat. eexists. split; [exact Er|]. split; [exact Hr|].
      split.
      + fold n. lia.
      + fold n. intros i Hi Hm. destruct (Nat.le_gt_cases L i) as [X|X]; [|lia]. exfalso.
        assert (v <= mean (nthc cs i)) by (apply L3; lia). lra.
      + fold n. intros i Hi Hm. destruct (Nat.le_gt_cases (U - 1) i) as [X|X]; auto. exfalso.
        destruct (Nat.le_gt_cases L i) as [Y|Y].
        * assert (mean (nthc cs i) <= v) by (apply U2; lia). lra.
        * assert (mean (nthc cs i) < v) by (apply L2; lia). lra.
      + left. split; [apply Qle_antisym; auto|]. split; [apply Qle_antisym; auto|].
        split; [intros i Hi; apply L2; lia|]. split; [fold n; intros i Hi; apply U3; lia|]. lra.
  Qed.

  Lemma RankAt_bounds cs v lo up X : wpos cs -> RankAt cs v lo up X -> Cc cs lo <= X /\ X <= Cc cs up.
  Proof.
    intros Hp [B _ _ K]. pose proof (Cc_mono cs Hp up lo ltac:(lia)) as HC.
    destruct K as [(_ & _ & _ & _ & E)|(_ & A1 & A2 & E)]; rewrite E.
    - split; lra.
    - destruct (frac_between_pos (Cc cs up - Cc cs lo) (v - mean (nthc cs lo)) (mean (nthc cs up) - mean (nthc cs lo)))
        as [F1 F2]; try lra.
  Qed.

  Lemma RankAt_mono cs v1 v2 lo1 up1 X1 lo2 up2 X2 : wpos cs -> StronglySorted mle cs -> v1 <= v2 ->
    RankAt cs v1 lo1 up1 X1 -> RankAt cs v2 lo2 up2 X2 -> X1 <= X2.
  Proof.
    intros Hp Hs H12 R1 R2.
    destruct (RankAt_bounds _ _ _ _ _ Hp R1) as [_ U1]. destruct (RankAt_bounds _ _ _ _ _ Hp R2) as [L2 _].
    destruct R1 as [B1 Bl1 Ab1 K1]. destruct R2 as [B2 Bl2 Ab2 K2].
    destruct (Nat.le_gt_cases up1 lo2) as [Hul|Hul].
    { eapply Qle_trans; [exact U1|]. eapply Qle_trans; [|exact L2]. apply Cc_mono; auto. lia. }
    (* lo2 < up1: the two answers come from the same block or the same gap *)
    assert (Hup1 : v2 <= mean (nthc cs up1)).
    { destruct (Qlt_le_dec (mean (nthc cs up1)) v2) as [X|X]; auto. exfalso. specialize (Bl2 up1 ltac:(lia) X). lia. }
    assert (Hlo2 : mean (nthc cs lo2) <= v1).
    { destruct (Qlt_le_dec v1 (mean (nthc cs lo2))) as [X|X]; auto. exfalso. specialize (Ab1 lo2 ltac:(lia) X). lia. }
    destruct K1 as [(A1 & A2 & A3 & A4 & E1)|(A1 & A2 & A3 & E1)].
    - assert (Hv : v1 == v2) by (apply Qle_antisym; auto; rewrite <- A2; exact Hup1).
      destruct K2 as [(C1 & C2 & C3 & C4 & E2)|(C1 & C2 & C3 & E2)].
      + assert (lo1 = lo2).
        { destruct (Nat.lt_trichotomy lo1 lo2) as [X|[X|X]]; auto; exfalso.
          - specialize (C3 lo1 X). lra.
          - specialize (A3 lo2 X). lra. }
        assert (up1 = up2).
        { destruct (Nat.lt_trichotomy up1 up2) as [X|[X|X]]; auto; exfalso.
          - specialize (A4 up2 ltac:(lia)). lra.
          - specialize (C4 up1 ltac:(lia)). lra. }
        subst. rewrite E1, E2. apply Qle_refl.
      + exfalso. subst up2.
        pose proof (sorted_nth cs Hs (S lo2) up1 ltac:(lia)). lra.
    - subst up1.
      destruct K2 as [(C1 & C2 & C3 & C4 & E2)|(C1 & C2 & C3 & E2)].
      + exfalso. pose proof (sorted_nth cs Hs lo2 lo1 ltac:(lia)). lra.
      + subst up2. assert (X : mean (nthc cs lo1) < v2) by lra. specialize (Bl2 lo1 ltac:(lia) X).
        assert (lo1 = lo2) by lia. subst lo2. rewrite E1, E2.
        pose proof (Cc_mono cs Hp (S lo1) lo1 ltac:(lia)) as HC.
        set (D := Cc cs (S lo1) - Cc cs lo1) in *. set (m := mean (nthc cs lo1)) in *.
        set (dm := mean (nthc cs (S lo1)) - m) in *.
        assert (Hdm : 0 < dm) by (unfold dm; lra).
        assert (HD : 0 <= D) by (unfold D; lra).
        clearbody D dm m.
        assert (Y : D * (v1 - m) / dm <= D * (v2 - m) / dm).
        { unfold Qdiv. apply Qmult_le_compat_r; [nra|]. apply Qinv_le_0_compat. lra. }
        lra.
  Qed.

  (* ---- rank on a compressed non-empty digest, value inside [min, max] ---- *)
  Lemma good_cw_pos mn mx cs cw : Good mn mx cs cw -> 1 <= inject_Z cw.
  Proof.
    intro G. destruct (good_ends mn mx cs cw G) as (Hn & _ & _ & _ & _ & Hp & _ & Hcw).
    pose proof (Cc_first cs Hp Hn). pose proof (Cc_last cs Hp Hn). pose proof (Cc_mono cs Hp (length cs - 1)%nat 0%nat ltac:(lia)).
    subst cw. lra.
  Qed.

  Theorem rank_core_range mn mx cs cw v r : Good mn mx cs cw -> mn <= v -> v <= mx ->
    rank_core QO mn mx cs cw v = Some r -> 0 < r /\ r < 1.
  Proof.
    intros G Hlo Hhi E. destruct (rank_char mn mx cs cw v G Hlo Hhi) as (r' & lo & up & X & E' & Hr & R).
    rewrite E in E'. inversion E'; subst r'. clear E'.
    destruct (good_ends mn mx cs cw G) as (Hn & _ & _ & _ & _ & Hp & _ & Hcw).
    destruct (RankAt_bounds _ _ _ _ _ Hp R) as [A B]. destruct R as [Bd _ _ _].
    pose proof (Cc_first cs Hp Hn). pose proof (Cc_last cs Hp Hn).
    pose proof (Cc_mono cs Hp lo 0%nat ltac:(lia)). pose proof (Cc_mono cs Hp (length cs - 1)%nat up ltac:(lia)).
    pose proof (good_cw_pos _ _ _ _ G) as Hc. rewrite <- Hcw in *.
    rewrite Hr. split.
    - apply Qlt_shift_div_l; lra.
    - apply Qlt_shift_div_r; lra.
  Qed.

  Theorem rank_core_mono mn mx cs cw v1 v2 r1 r2 : Good mn mx cs cw -> mn <= v1 -> v1 <= v2 -> v2 <= mx ->
    rank_core QO mn mx cs cw v1 = Some r1 -> rank_core QO mn mx cs cw v2 = Some r2 -> r1 <= r2.
  Proof.
    intros G H1 H12 H2 E1 E2.
    destruct (rank_char mn mx cs cw v1 G H1 ltac:(lra)) as (r1' & lo1 & up1 & X1 & E1' & Hr1 & R1).
    destruct (rank_char mn mx cs cw v2 G ltac:(lra) H2) as (r2' & lo2 & up2 & X2 & E2' & Hr2 & R2).
    rewrite E1 in E1'. inversion E1'; subst r1'. rewrite E2 in E2'. inversion E2'; subst r2'.
    destruct (good_ends mn mx cs cw G) as (_ & _ & _ & _ & _ & Hp & Hs & _).
    pose proof (RankAt_mono cs v1 v2 _ _ _ _ _ _ Hp Hs H12 R1 R2) as HX.
    pose proof (good_cw_pos _ _ _ _ G) as Hc.
    rewrite Hr1, Hr2. unfold Qdiv. apply Qmult_le_compat_r; auto. apply Qinv_le_0_compat. lra.
  Qed.

  (* the tail formulas of get_rank (weight > 1 first / last centroid) cannot execute: inside [min, max] neither tail test fires *)
  Theorem rank_tail_unreachable mn mx cs cw v : Good mn mx cs cw -> mn <= v -> v <= mx ->
    nltb QO v (mean (nthc cs 0)) = false /\ nltb QO (mean (last_c QO cs (dflt QO))) v = false.
  Proof.
    intros G Hlo Hhi. destruct (good_ends mn mx cs cw G) as (_ & M0 & Ml & _).
    split; apply Ge; [rewrite M0|unfold last_c; rewrite Ml]; auto.
  Qed.

  (* the tail formulas of get_quantile are guarded by first / last weight > 1, which never holds *)
  Theorem quantile_tail_unreachable mn mx cs cw : Good mn mx cs cw ->
    nltb QO (n1 QO) (nofZ QO (wt (nthc cs 0))) = false /\ nltb QO (n1 QO) (nofZ QO (wt (last_c QO cs (dflt QO)))) = false.
  Proof.
    intro G. destruct (good_ends mn mx cs cw G) as (_ & _ & _ & W0 & Wl & _). unfold last_c. rewrite W0, Wl. split; reflexivity.
  Qed.

  (* ---- the public get_rank on any digest satisfying the invariant ---- *)
  Notation Inv := (Inv ln pinf ninf).

  Lemma nltb_eq_r a b c : b == c -> nltb QO a b = nltb QO a c.
  Proof. intro H. change (negb (Qle_bool b a) = negb (Qle_bool c a)). rewrite H. reflexivity. Qed.
  Lemma nltb_eq_l a b c : b == c -> nltb QO b a = nltb QO c a.
  Proof. intro H. change (negb (Qle_bool a b) = negb (Qle_bool a c)). rewrite H. reflexivity. Qed.

  Lemma inv_nonempty s vs : Inv s vs -> td_is_empty QO s = false -> vs <> [].
  Proof. intros I H X. apply (i_empty _ _ _ _ _ I) in X. congruence. Qed.

  Lemma compress_min_max s vs : Inv s vs -> td_is_empty QO s = false ->
    t_min QO (td_compress QO s) == t_min QO s /\ t_max QO (td_compress QO s) == t_max QO s /\ t_min QO s <= t_max QO s.
  Proof.
    intros I Hne. pose proof (inv_nonempty s vs I Hne) as Hvs. pose proof (Inv_compress ln pinf ninf s vs I) as I'.
    destruct (i_gmin _ _ _ _ _ I Hvs) as [(x & Hx & Ex) Lx]. destruct (i_gmin _ _ _ _ _ I' Hvs) as [(x' & Hx' & Ex') Lx'].
    destruct (i_gmax _ _ _ _ _ I Hvs) as [(y & Hy & Ey) Ly]. destruct (i_gmax _ _ _ _ _ I' Hvs) as [(y' & Hy' & Ey') Ly'].
    split; [|split].
    - apply Qle_antisym; [rewrite <- Ex; apply Lx'; exact Hx|rewrite <- Ex'; apply Lx; exact Hx'].
    - apply Qle_antisym; [rewrite <- Ey'; apply Ly; exact Hy'|rewrite <- Ey; apply Ly'; exact Hy].
    - eapply Qle_trans; [apply (Lx x Hx)|]. apply Ly. exact Hx.
  Qed.

  Definition count (s : td QO) : nat := (length (t_cents QO s) + length (t_buf QO s))%nat.

  (* the four ways get_rank answers on a non-empty digest *)
  Lemma td_rank_cases s vs v : Inv s vs -> td_is_empty QO s = false ->
    let s' := td_compress QO s in
    (v < t_min QO s /\ snd (td_rank QO s v) = Some 0) \/
    (t_min QO s <= v /\ t_max QO s < v /\ snd (td_rank QO s v) = Some 1) \/
    (t_min QO s <= v /\ v <= t_max QO s /\ count s = 1%nat /\ snd (td_rank QO s v) = Some (nhalf QO)) \/
    (t_min QO s <= v /\ v <= t_max QO s /\ count s <> 1%nat /\
     snd (td_rank QO s v) = rank_core QO (t_min QO s') (t_max QO s') (t_cents QO s') (t_cw QO s') v).
  Proof.
    intros I Hne. cbv zeta. unfold td_rank. rewrite Hne. change (nisnan QO v) with false. cbv iota.
    destruct (nltb QO v (t_min QO s)) eqn:A.
    { left. apply Lt in A. split; [exact A|reflexivity]. }
    apply Ge in A. destruct (nltb QO (t_max QO s) v) eqn:B.
    { right. left. apply Lt in B. repeat split; auto. }
    apply Ge in B. right. right. fold (count s). destruct (Nat.eqb_spec (count s) 1) as [C|C].
    - left. repeat split; auto.
    - right. repeat split; auto.
  Qed.

  Theorem td_rank_range s vs v r : Inv s vs -> snd (td_rank QO s v) = Some r ->
    0 <= r /\ r <= 1 /\ (v < t_min QO s -> r == 0) /\ (t_max QO s < v -> r == 1).
  Proof.
    intros I H.
    assert (Hne : td_is_empty QO s = false).
    { destruct (td_is_empty QO s) eqn:E; auto. unfold td_rank in H. rewrite E in H. discriminate. }
    destruct (compress_min_max s vs I Hne) as (Emin & Emax & Hmm).
    destruct (td_rank_cases s vs v I Hne) as [(A & E)|[(A & B & E)|[(A & B & C & E)|(A & B & C & E)]]]; rewrite E in H.
    - inversion H; subst r. repeat split; intros; lra.
    - inversion H; subst r. repeat split; intros; lra.
    - inversion H; subst r. change (inject_Z 1 / inject_Z 2) with (1 # 2). change (num QO) with Q in *. repeat split; intros; lra.
    - pose proof (compress_Good ln pinf ninf s vs I Hne) as G. cbv zeta in G.
      destruct (rank_core_range _ _ _ _ v r G) as [R1 R2]; auto; try lra.
      all: repeat split; intros; lra.
  Qed.

  Theorem td_rank_mono s vs v1 v2 r1 r2 : Inv s vs -> v1 <= v2 ->
    snd (td_rank QO s v1) = Some r1 -> snd (td_rank QO s v2) = Some r2 -> r1 <= r2.
  Proof.
    intros I H12 H1 H2.
    assert (Hne : td_is_empty QO s = false).
    { destruct (td_is_empty QO s) eqn:E; auto. unfold td_rank in H1. rewrite E in H1. discriminate. }
    destruct (td_rank_range s vs v1 r1 I H1) as (L1 & U1 & _). destruct (td_rank_range s vs v2 r2 I H2) as (L2 & U2 & _).
    destruct (compress_min_max s vs I Hne) as (Emin & Emax & Hmm).
    destruct (td_rank_cases s vs v1 I Hne) as [(A & E)|[(A & B & E)|[(A & B & C & E)|(A & B & C & E)]]]; rewrite E in H1.
    - inversion H1; subst r1. exact L2.
    - inversion H1; subst r1.
      destruct (td_rank_cases s vs v2 I Hne) as [(A' & E')|[(A' & B' & E')|[(A' & B' & C' & E')|(A' & B' & C' & E')]]];
        rewrite E' in H2; try (exfalso; lra).
      inversion H2; subst r2. apply Qle_refl.
    - destruct (td_rank_cases s vs v2 I Hne) as [(A' & E')|[(A' & B' & E')|[(A' & B' & C' & E')|(A' & B' & C' & E')]]];
        rewrite E' in H2; try (exfalso; lra).
      + inversion H2; subst r2. exact U1.
      + inversion H1; inversion H2; subst. apply Qle_refl.
      + contradiction.
    - destruct (td_rank_cases s vs v2 I Hne) as [(A' & E')|[(A' & B' & E')|[(A' & B' & C' & E')|(A' & B' & C' & E')]]];
        rewrite E' in H2; try (exfalso; lra).
      + inversion H2; subst r2. exact U1.
      + contradiction.
      + pose proof (compress_Good ln pinf ninf s vs I Hne) as G. cbv zeta in G.
        eapply (rank_core_mono _ _ _ _ v1 v2); eauto; lra.
  Qed.

  (* inside [min, max] on a digest with more than one point, get_rank runs the interpolation with both tail tests false *)
  Theorem td_rank_tails_unreachable s vs v : Inv s vs -> td_is_empty QO s = false ->
    t_min QO s <= v -> v <= t_max QO s ->
    let s' := td_compress QO s in
    nltb QO v (mean (nthc (t_cents QO s') 0)) = false /\ nltb QO (mean (last_c QO (t_cents QO s') (dflt QO))) v = false.
  Proof.
    intros I Hne A B. cbv zeta. destruct (compress_min_max s vs I Hne) as (Emin & Emax & _).
    pose proof (compress_Good ln pinf ninf s vs I Hne) as G. cbv zeta in G.
    apply (rank_tail_unreachable _ _ _ _ v G); lra.
  Qed.

  (* ---- get_rank does not depend on whether the buffer has been flushed: get_CDF / get_PMF are get_rank ---- *)
  Lemma sumw_ge_length (l : list cq) : wpos l -> (Z.of_nat (length l) <= sumw QO l)%Z.
  Proof.
    induction 1 as [|x l Hx _ IH]; [reflexivity|].
    change (sumw QO (x :: l)) with (wt x + sumw QO l)%Z. cbn [length]. lia.
  Qed.

  Lemma count_one_iff s vs : Inv s vs -> td_is_empty QO s = false -> (count s = 1%nat <-> td_total QO s = 1%Z).
  Proof.
    intros I Hne. pose proof (i_w _ _ _ _ _ I) as W. pose proof (i_c _ _ _ _ _ I) as C. unfold WInv in W.
    unfold count, td_total, blen. rewrite W. pose proof (sumw_ge_length _ (ci_pos _ _ _ _ C)) as Hge.
    unfold td_is_empty in Hne. split; intro H.
    - destruct (t_cents QO s) as [|c [|c2 t]] eqn:Ec; destruct (t_buf QO s) as [|b [|b2 bt]] eqn:Eb; simpl in H; try lia; try discriminate.
      + reflexivity.
      + pose proof (ci_first _ _ _ _ C c [] eq_refl) as L. unfold light in L.
        change (sumw QO [c]) with (wt c + 0)%Z. cbn [length]. lia.
    - destruct (t_cents QO s) as [|c t] eqn:Ec; destruct (t_buf QO s) as [|b bt] eqn:Eb; try discriminate; cbn [length] in *; lia.
  Qed.

  Lemma compress_idem (s : td QO) : td_compress QO (td_compress QO s) = td_compress QO s.
  Proof. unfold td_compress at 1. rewrite (compress_buf ln pinf ninf). reflexivity. Qed.

  Lemma is_empty_compress s vs : Inv s vs -> td_is_empty QO (td_compress QO s) = td_is_empty QO s.
  Proof.
    intro I. pose proof (Inv_compress ln pinf ninf s vs I) as I'.
    destruct (td_is_empty QO s) eqn:A; destruct (td_is_empty QO (td_compress QO s)) eqn:B; auto.
    - apply (i_empty _ _ _ _ _ I) in A. apply (i_empty _ _ _ _ _ I') in A. congruence.
    - apply (i_empty _ _ _ _ _ I') in B. apply (i_empty _ _ _ _ _ I) in B. congruence.
  Qed.

  Lemma td_rank_compress s vs v : Inv s vs -> snd (td_rank QO (td_compress QO s) v) = snd (td_rank QO s v).
  Proof.
    intro I. pose proof (Inv_compress ln pinf ninf s vs I) as I'. pose proof (is_empty_compress s vs I) as He.
    destruct (td_is_empty QO s) eqn:Hne.
    - unfold td_rank. rewrite He, Hne. reflexivity.
    - destruct (compress_min_max s vs I Hne) as (Emin & Emax & Hmm).
      assert (Hc : count (td_compress QO s) = 1%nat <-> count s = 1%nat).
      { rewrite (count_one_iff _ vs I' He), (count_one_iff s vs I Hne), blen_total_compress. tauto. }
      pose proof (td_rank_cases _ vs v I' He) as X'. cbv zeta in X'. rewrite compress_idem in X'.
      destruct (td_rank_cases s vs v I Hne) as [(A & E)|[(A & B & E)|[(A & B & C & E)|(A & B & C & E)]]];
        destruct X' as [(A' & E')|[(A' & B' & E')|[(A' & B' & C' & E')|(A' & B' & C' & E')]]];
        rewrite E, E'; first [reflexivity | exfalso; lra | exfalso; tauto].
  Qed.

  Definition rank_of (s : td QO) (v : Q) : option Q := snd (td_rank QO s v).

  Lemma ranks_spec : forall l s vs s2 rs, Inv s vs -> ranks QO s l = (s2, Some rs) ->
    Forall2 (fun v r => rank_of s v = Some r) l rs.
  Proof.
    induction l as [|x t IH]; intros s vs s2 rs I H; cbn [ranks] in H.
    - inversion H. constructor.
    - pose proof (rank_state ln pinf ninf s x) as St. pose proof (Inv_rank ln pinf ninf s vs x I) as I1.
      destruct (td_rank QO s x) as [s1 [r|]] eqn:E1; [|discriminate]. cbn [fst] in St, I1.
      destruct (ranks QO s1 t) as [s3 [rs'|]] eqn:E2; [|discriminate]. inversion H; subst s3 rs. clear H.
      constructor.
      + unfold rank_of. rewrite E1. reflexivity.
      + pose proof (IH s1 vs s2 rs' I1 E2) as F.
        destruct St as [->| ->]; [exact F|].
        clear -F I. induction F as [|a b la lb Hab _ IHF]; constructor; auto.
        unfold rank_of in *. rewrite <- (td_rank_compress s vs a I). exact Hab.
  Qed.

  Theorem td_cdf_spec s vs l out : Inv s vs -> snd (td_cdf QO s l) = Some out ->
    exists rs, out = rs ++ [1] /\ Forall2 (fun v r => rank_of s v = Some r) l rs.
  Proof.
    intros I H. unfold td_cdf in H. destruct (td_is_empty QO s); [discriminate|].
    destruct (split_ok QO l); [|discriminate].
    destruct (ranks QO s l) as [s2 [rs|]] eqn:E; [|discriminate]. cbn [snd] in H. inversion H.
    exists rs. split; [reflexivity|]. eapply ranks_spec; eauto.
  Qed.

  Fixpoint qsum (l : list Q) : Q := match l with [] => 0 | x :: t => x + qsum t end.

  Lemma last_cons_Q : forall (t : list Q) c d, last (c :: t) d = last t c.
  Proof.
    induction t as [|a t IH]; intros c d; [reflexivity|].
    change (last (c :: a :: t) d) with (last (a :: t) d). rewrite (IH a d), (IH a c). reflexivity.
  Qed.

  Lemma diffs_sum : forall (l : list Q) prev, qsum (diffs QO prev l) == last l prev - prev.
  Proof.
    induction l as [|x t IH]; intro prev; cbn [diffs qsum].
    - cbn [last]. lra.
    - rewrite IH. change (nsub QO x prev) with (x - prev).
      assert (E : last (x :: t) prev = last t x) by apply last_cons_Q.
      rewrite E. lra.
  Qed.

  (* get_PMF returns the first differences of get_CDF; they sum to 1 *)
  Theorem td_pmf_spec s vs l p : Inv s vs -> snd (td_pmf QO s l) = Some p ->
    exists c0 ct, snd (td_cdf QO s l) = Some (c0 :: ct) /\ p = c0 :: diffs QO c0 ct /\ qsum p == 1.
  Proof.
    intros I H. unfold td_pmf in H.
    destruct (td_cdf QO s l) as [s2 [[|c0 ct]|]] eqn:E; cbn [snd] in *; try discriminate.
    - destruct (td_cdf_spec s vs l [] I) as (rs & Hrs & _); [rewrite E; reflexivity|]. destruct rs; discriminate.
    - inversion H. exists c0, ct. split; [reflexivity|]. split; [reflexivity|].
      destruct (td_cdf_spec s vs l (c0 :: ct) I) as (rs & Hrs & _); [rewrite E; reflexivity|].
      pose proof (diffs_sum ct c0) as D. pose proof (last_cons_Q ct c0 c0) as L0.
      assert (L : last (c0 :: ct) c0 = 1) by (rewrite Hrs; apply last_last).
      change (num QO) with Q in *. rewrite L in L0. rewrite <- L0 in D.
      cbn [qsum]. rewrite D. lra.
  Qed.
End Rank.
