(* ReqCodecDefs.v — executable model of the REQ serialization (req_sketch_impl.hpp:332-589 serialize / deserialize,
   req_compactor_impl.hpp:344-506 serialize / deserialize / deserializing constructor; arithmetic serde), no proofs here.
   Layout (little endian):
     byte 0 preamble_ints (4 in estimation mode = more than one level, else 2)   byte 1 serial version (1)   byte 2 family (17)
     byte 3 flags (bit 2 empty, bit 3 high rank accuracy, bit 4 raw items, bit 5 level zero sorted)
     bytes 4-5 k   byte 6 num_levels (0 when empty)   byte 7 num_raw_items (n when n <= 4, else 0)
     estimation mode only: n (8 bytes), min item, max item
     raw form (n <= 4): the n items of level 0;
     otherwise per compactor: state (8) | section_size_raw binary32 (4) | lg_weight (1) | num_sections (1) | padding (2) |
                              num_items (4) | items in address order.
   Both readers (bytes and stream) decode the same way; they differ only in how they notice a short input, and both
   accept trailing bytes.  Every compactor the reader constructs draws a fresh coin_ (random_utils::random_bit() in the
   deserializing constructor), as does the sketch constructor used for an empty image: [dec_core] returns the result
   with all coins false together with the NUMBER of coins drawn before it finished or failed, [dec] draws them.
   Where the code's behaviour is undefined on a corrupted image (non-empty image with num_levels = 0, a single level
   without items, a section size that is not a positive normal binary32) the model rejects; these cases are findings of
   the implementation-side C11 family (fam_serde) and are not fed to the correspondence runs of this family.
   Items: kind 0 int64, kind 1 double (integer values), kind 3 float (integer values, |v| < 2^24). *)
From Coq Require Import ZArith List Bool Lia.
From DS Require Import RunnerLib SortedView ReqDefs.
From DS Require KllCodecDefs.
Import ListNotations.
Local Open Scope Z_scope.

Notation le := KllCodecDefs.le.
Notation from_le := KllCodecDefs.from_le.
Notation take := KllCodecDefs.take.
Notation bit := KllCodecDefs.bit.

(* ---------- items ---------- *)
(* IEEE-754 binary32 pattern of the integer v, |v| < 2^24 *)
Definition flt_bits (v : Z) : Z :=
  if v =? 0 then 0 else
  let a := Z.abs v in
  let e := Z.log2 a in
  (if v <? 0 then 2 ^ 31 else 0) + (e + 127) * 2 ^ 23 + (a * 2 ^ (23 - e) - 2 ^ 23).

Definition flt_int (u : Z) : option Z :=
  if u =? 0 then Some 0 else
  let sgn := u / 2 ^ 31 in
  let be := (u mod 2 ^ 31) / 2 ^ 23 in
  let man := u mod 2 ^ 23 in
  let e := be - 127 in
  if (e <? 0) || (23 <? e) then None else
  let full := 2 ^ 23 + man in
  if full mod 2 ^ (23 - e) =? 0 then Some ((if sgn =? 0 then 1 else -1) * (full / 2 ^ (23 - e))) else None.

Definition isz (kind : Z) : nat := if kind =? 3 then 4%nat else 8%nat.
Definition item_enc (kind v : Z) : list Z := if kind =? 3 then le 4 (flt_bits v) else KllCodecDefs.item_enc kind v.
Definition item_dec (kind : Z) (bs : list Z) : option Z :=
  if kind =? 3 then flt_int (from_le bs) else KllCodecDefs.item_dec kind bs.

Fixpoint take_items (kind : Z) (n : nat) (bs : list Z) : option (list Z * list Z) :=
  match n with
  | O => Some ([], bs)
  | S n' =>
      match take (isz kind) bs with
      | Some (b, r) =>
          match item_dec kind b, take_items kind n' r with
          | Some v, Some (vs, r') => Some (v :: vs, r')
          | _, _ => None
          end
      | None => None
      end
  end.

(* ---------- binary32 section size ---------- *)
Definition f32_of_bits (u : Z) : option f32 :=
  let be := u / two23 in
  if (1 <=? be) && (be <=? 254) then Some (two23 + u mod two23, be - 150) else None.

(* ---------- encoder ---------- *)
Definition enc_comp (kind : Z) (c : comp) : list Z :=
  le 8 (cstate c) ++ le 4 (f32_bits (ssr c)) ++ [lgw c; nsec c; 0; 0] ++ le 4 (nitems c) ++ flat_map (item_enc kind) (items c).

Definition c0 (s : req) : comp := hd dummy (comps s).

Definition flags_of (s : req) : Z :=
  (if rn s =? 0 then 4 else 0) + (if hra s then 8 else 0) + (if rn s <=? 4 then 16 else 0) + (if srt (c0 s) then 32 else 0).

Definition est_mode (s : req) : bool := (2 <=? length (comps s))%nat.

Definition enc (kind : Z) (s : req) : list Z :=
  let empty := rn s =? 0 in
  let raw := rn s <=? 4 in
  [if est_mode s then 4 else 2; 1; 17; flags_of s] ++ le 2 (rk s) ++ [if empty then 0 else len (comps s); if raw then rn s else 0] ++
  (if empty then [] else
   (if est_mode s then le 8 (rn s) ++ item_enc kind (rmin s) ++ item_enc kind (rmax s) else []) ++
   (if raw then flat_map (item_enc kind) (firstn (Z.to_nat (rn s)) (items (c0 s)))
    else flat_map (enc_comp kind) (comps s))).

(* ---------- decoder ---------- *)
Definition dec_comp (kind : Z) (sorted : bool) (bs : list Z) : option (comp * list Z) :=
  match take 20 bs with                                          (* the fixed fields must be present (f4128db) *)
  | Some (f, r) =>
      match take 8 f with
      | Some (bst, f1) =>
          match take 4 f1 with
          | Some (braw, lg :: ns :: _ :: _ :: bnum) =>
              match f32_of_bits (from_le braw), take_items kind (Z.to_nat (from_le bnum)) r with
              | Some v, Some (its, r') => Some (mkcomp lg false sorted v (nearest_even v) ns (from_le bst) its, r')
              | _, _ => None
              end
          | _ => None
          end
      | None => None
      end
  | None => None
  end.

(* the compactors of the image, level 0 first; (result, number of compactors constructed = coins drawn) *)
Fixpoint dec_comps (kind : Z) (n : nat) (first : bool) (sorted0 : bool) (bs : list Z) : option (list comp * list Z) * nat :=
  match n with
  | O => (Some ([], bs), O)
  | S n' =>
      match dec_comp kind (if first then sorted0 else true) bs with
      | None => (None, O)
      | Some (c, r) =>
          let (res, k) := dec_comps kind n' false sorted0 r in
          (match res with Some (cs, r') => Some (c :: cs, r') | None => None end, S k)
      end
  end.

Definition mk (k : Z) (h : bool) (n : Z) (cs : list comp) (lo hi : Z) : req :=
  mkreq k h (sum_nom cs) (sum_items cs) n cs lo hi.

(* after the preamble and the optional n / min / max: the raw items or the compactors, then the sketch constructor *)
Definition dec_tail (kind k : Z) (h raw s0 : bool) (nl nraw n lo hi : Z) (r2 : list Z) : option (req * list Z) * nat :=
  let (res, coins) :=
    if raw
    then match take_items kind (Z.to_nat nraw) r2 with
         | Some (its, r3) => (Some ([mkcomp 0 false s0 (f32_of_Z k) (nearest_even (f32_of_Z k)) 3 0 its], r3), 1%nat)
         | None => (None, O)
         end
    else dec_comps kind (Z.to_nat nl) true s0 r2 in
  match res with
  | None => (None, coins)
  | Some (cs, r3) =>
      if nl =? 1
      then match cs with
           | c :: _ => if nitems c =? 0 then (None, coins)                                 (* undefined in the code *)
                       else (Some (mk k h (nitems c) cs (lmin (items c)) (lmax (items c)), r3), coins)
           | [] => (None, coins)
           end
      else (Some (mk k h n cs lo hi, r3), coins)
  end.

Definition dec_core (kind : Z) (bytes : list Z) : option (req * list Z) * nat :=
  match bytes with
  | pre :: sv :: fam :: fl :: k0 :: k1 :: nl :: nraw :: rest =>
      let k := k0 + 256 * k1 in
      if negb (pre =? (if 1 <? nl then 4 else 2)) || negb (sv =? 1) || negb (fam =? 17) then (None, O) else
      let empty := bit fl 2 in
      let h := bit fl 3 in
      let raw := bit fl 4 in
      let s0 := bit fl 5 in
      if empty then (Some (grow_with (mkreq (eff_k k) h 0 0 0 [] 0 0) false, rest), 1%nat) else      (* req_sketch(k, hra) *)
      if nl =? 0 then (None, O) else                                                            (* undefined in the code *)
      if 1 <? nl
      then match take 8 rest with
           | Some (bn, r1) => match take_items kind 2 r1 with
                              | Some ([lo; hi], r2) => dec_tail kind k h raw s0 nl nraw (from_le bn) lo hi r2
                              | _ => (None, O)
                              end
           | None => (None, O)
           end
      else dec_tail kind k h raw s0 nl nraw 1 0 0 rest
  | _ => (None, O)                                                                              (* fewer than 8 bytes *)
  end.

(* the coins of the compactors, level 0 first *)
Fixpoint set_coins (bs : list bool) (l : list comp) : list comp :=
  match l, bs with
  | c :: r, b :: t => mkcomp (lgw c) b (srt c) (ssr c) (ssz c) (nsec c) (cstate c) (items c) :: set_coins t r
  | _, _ => l
  end.
Definition with_coins (bs : list bool) (s : req) : req := set_comps s (set_coins bs (comps s)).
Definition coins_of (s : req) : list bool := map coin (comps s).

Fixpoint draws {A} (n : nat) (k : list bool -> M A) : M A :=
  match n with
  | O => k []
  | S n' => Flip (fun c => draws n' (fun l => k (c :: l)))
  end.

Definition dec (kind : Z) (bytes : list Z) : M (option (req * list Z)) :=
  let (r, n) := dec_core kind bytes in
  draws n (fun cs => Ret (option_map (fun p => (with_coins cs (fst p), snd p)) r)).

(* ---------- line protocol: the REQ operations of ReqDefs plus the codec operations ---------- *)
(*   30 r            : R = serialize(r)
     31 r r2 / 32 r r2 : r := deserialize(serialize(r2)) through the bytes / the stream reader (ghost log of r2 kept)
     33 r kind bytes / 34 r kind bytes : r := deserialize(bytes) through the bytes / the stream reader; ghost log empty;
                       R = 1 (S = the number of bytes left over), or -1 when the reader refuses *)
Definition kind_ok (kind : Z) : bool := (kind =? 0) || (kind =? 1) || (kind =? 3).

Definition cstep (s : st) (o e : line) : st * outline :=
  match o with
  | 30 :: r :: _ =>
      match reg_get s r with
      | Some g => if kind_ok (r_kind g) then (s, (enc (r_kind g) (r_sk g), [])) else (s, (refused, []))
      | None => (s, (refused, []))
      end
  | 31 :: r :: r2 :: _ | 32 :: r :: r2 :: _ =>
      match reg_get s r2 with
      | Some g =>
          if kind_ok (r_kind g) then
            run_m (dec (r_kind g) (enc (r_kind g) (r_sk g))) e s
              (fun res => match res with
                          | Some (sk, _) => (reg_set s r (mkreg (r_kind g) sk (r_log g)), (ok, []))
                          | None => (s, (refused, []))
                          end)
          else (s, (refused, []))
      | None => (s, (refused, []))
      end
  | 33 :: r :: kind :: bytes | 34 :: r :: kind :: bytes =>
      if kind_ok kind then
        run_m (dec kind bytes) e s
          (fun res => match res with
                      | Some (sk, rest) => (reg_set s r (mkreg kind sk []), (ok, [len rest]))
                      | None => (s, (refused, []))
                      end)
      else (s, (refused, []))
  | _ => step s o e
  end.

Definition crun (ops : list opline) : list outline := run_case cstep [] ops.
