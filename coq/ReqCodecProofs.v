(* ReqCodecProofs.v — the REQ image decodes to the sketch it was written from, strict prefixes are refused, accepted
   images have size-bounded content (model ReqCodecDefs.v). *)
From Coq Require Import ZArith List Bool Lia Permutation Sorted.
From DS Require Import RunnerLib SortedView ReqDefs ReqProofs ReqCodecInv ReqCodecDefs.
From DS Require KllCodecDefs KllCodecProofs.
Import ListNotations.
Local Open Scope Z_scope.

Notation le_length := KllCodecProofs.le_length.
Notation from_le_le := KllCodecProofs.from_le_le.
Notation take_app := KllCodecProofs.take_app.

(* ===================== items ===================== *)
Definition item_ok (kind v : Z) : Prop := if kind =? 3 then Z.abs v < 2 ^ 24 else KllCodecProofs.item_ok kind v.

Lemma flt_int_bits v : v <> 0 -> Z.abs v < 2 ^ 24 -> flt_int (flt_bits v) = Some v /\ 0 <= flt_bits v < 2 ^ 32.
Proof.
  intros NZ H. unfold flt_bits. destruct (Z.eqb_spec v 0) as [|_]; [contradiction|].
  set (a := Z.abs v). assert (Ha : 1 <= a < 2 ^ 24) by (unfold a; lia).
  set (e := Z.log2 a). destruct (Z.log2_spec a ltac:(lia)) as [L1 L2]. fold e in L1, L2.
  assert (He : 0 <= e <= 23).
  { split; [apply Z.log2_nonneg|]. assert (e < 24); [|lia]. apply (Z.pow_lt_mono_r_iff 2); lia. }
  set (P := 2 ^ (23 - e)).
  assert (HP : 2 ^ e * P = 2 ^ 23). { unfold P. rewrite <- Z.pow_add_r by lia. f_equal. lia. }
  assert (P1 : 1 <= P) by (unfold P; pose proof (Z.pow_pos_nonneg 2 (23 - e)); lia).
  set (man := a * P - 2 ^ 23).
  assert (Hm : 0 <= man < 2 ^ 23). { unfold man. rewrite Z.pow_succ_r in L2 by lia. nia. }
  set (sg := if v <? 0 then 1 else 0).
  assert (ES : (if v <? 0 then 2 ^ 31 else 0) = sg * 2 ^ 31) by (unfold sg; destruct (v <? 0); lia).
  rewrite ES. set (U := sg * 2 ^ 31 + (e + 127) * 2 ^ 23 + man).
  assert (Hsg : 0 <= sg <= 1) by (unfold sg; destruct (v <? 0); lia).
  assert (F1 : (U =? 0) = false) by (apply Z.eqb_neq; unfold U; nia).
  assert (F2 : U / 2 ^ 31 = sg).
  { symmetry. apply (Z.div_unique U (2 ^ 31) sg ((e + 127) * 2 ^ 23 + man)); [nia|unfold U; lia]. }
  assert (F3 : U mod 2 ^ 31 = (e + 127) * 2 ^ 23 + man).
  { symmetry. apply (Z.mod_unique U (2 ^ 31) sg); [nia|unfold U; lia]. }
  assert (F4 : ((e + 127) * 2 ^ 23 + man) / 2 ^ 23 = e + 127).
  { symmetry. apply (Z.div_unique _ (2 ^ 23) (e + 127) man); lia. }
  assert (F5 : U mod 2 ^ 23 = man).
  { symmetry. apply (Z.mod_unique U (2 ^ 23) (sg * 256 + e + 127)); [lia|unfold U; lia]. }
  split; [|unfold U; nia].
  unfold flt_int. rewrite F1. cbv zeta. rewrite F2, F3, F4, F5.
  replace (e + 127 - 127) with e by lia.
  replace ((e <? 0) || (23 <? e)) with false by (symmetry; apply orb_false_iff; split; apply Z.ltb_ge; lia).
  fold P. replace (2 ^ 23 + man) with (a * P) by (unfold man; lia).
  rewrite Z.mod_mul, Z.div_mul by lia. cbn [Z.eqb].
  f_equal. unfold sg, a. destruct (Z.ltb_spec v 0); simpl Z.eqb; cbv iota; lia.
Qed.

Lemma item_roundtrip kind v : item_ok kind v -> length (item_enc kind v) = isz kind /\ item_dec kind (item_enc kind v) = Some v.
Proof.
  unfold item_ok, item_enc, item_dec, isz. destruct (kind =? 3).
  - intro H. split; [apply le_length|]. destruct (Z.eq_dec v 0) as [->|NZ]; [reflexivity|].
    destruct (flt_int_bits v NZ H) as [A B]. rewrite from_le_le by (change (256 ^ Z.of_nat 4) with (2 ^ 32); exact B). exact A.
  - apply KllCodecProofs.item_roundtrip.
Qed.

Lemma item_enc_length kind v : length (item_enc kind v) = isz kind.
Proof.
  unfold item_enc, isz, KllCodecDefs.item_enc, KllCodecDefs.enc_i64. destruct (kind =? 3); [apply le_length|].
  destruct (kind =? 1); apply le_length.
Qed.

Lemma take_items_enc kind : forall vs rest, Forall (item_ok kind) vs ->
  take_items kind (length vs) (flat_map (item_enc kind) vs ++ rest) = Some (vs, rest).
Proof.
  induction vs as [|v vs IH]; intros rest H; [reflexivity|].
  inversion H; subst. destruct (item_roundtrip kind v H2) as [L D].
  cbn [length flat_map take_items]. rewrite <- app_assoc, (take_app (isz kind) _ _ L), D, IH by assumption. reflexivity.
Qed.

Lemma flat_map_items_length kind (l : list Z) : length (flat_map (item_enc kind) l) = (isz kind * length l)%nat.
Proof. induction l as [|x l IH]; [simpl; lia|]. cbn [flat_map length]. rewrite app_length, IH, item_enc_length. lia. Qed.

(* ===================== binary32 ===================== *)
Lemma f32_bits_roundtrip v : f32_valid v -> f32_of_bits (f32_bits v) = Some v /\ 0 <= f32_bits v < 2 ^ 32.
Proof.
  intros [[M1 M2] [E1 E2]]. unfold f32_bits, f32_of_bits, two23, two24 in *. destruct v as [m e]. cbn [fst snd] in *.
  assert (D : ((e + 150) * 8388608 + (m - 8388608)) / 8388608 = e + 150).
  { symmetry. apply (Z.div_unique _ 8388608 (e + 150) (m - 8388608)); lia. }
  assert (R : ((e + 150) * 8388608 + (m - 8388608)) mod 8388608 = m - 8388608).
  { symmetry. apply (Z.mod_unique _ 8388608 (e + 150)); lia. }
  split; [|lia]. rewrite D, R.
  replace ((1 <=? e + 150) && (e + 150 <=? 254)) with true by (symmetry; apply andb_true_iff; split; apply Z.leb_le; lia).
  replace (8388608 + (m - 8388608)) with m by lia. replace (e + 150 - 150) with e by lia. reflexivity.
Qed.

(* ===================== one compactor ===================== *)
Definition clearc (c : comp) : comp := mkcomp (lgw c) false (srt c) (ssr c) (ssz c) (nsec c) (cstate c) (items c).

Record comp_fits (kind : Z) (c : comp) : Prop := mkCF {
  cf_state : 0 <= cstate c < 2 ^ 64;
  cf_lgw : 0 <= lgw c < 256;
  cf_nsec : 0 <= nsec c < 256;
  cf_n : nitems c < 2 ^ 32;
  cf_items : Forall (item_ok kind) (items c)
}.

Lemma dec_comp_enc kind c rest : cwf c -> comp_fits kind c ->
  dec_comp kind (srt c) (enc_comp kind c ++ rest) = Some (clearc c, rest).
Proof.
  intros W [F1 F2 F3 F4 F5]. inversion W as [raw sz V SZ _]. subst raw sz.
  destruct (f32_bits_roundtrip (ssr c) V) as [RB RR].
  unfold dec_comp, enc_comp.
  set (X := flat_map (item_enc kind) (items c)).
  replace ((le 8 (cstate c) ++ le 4 (f32_bits (ssr c)) ++ [lgw c; nsec c; 0; 0] ++ le 4 (nitems c) ++ X) ++ rest)
    with ((le 8 (cstate c) ++ le 4 (f32_bits (ssr c)) ++ [lgw c; nsec c; 0; 0] ++ le 4 (nitems c)) ++ X ++ rest)
    by (rewrite <- !app_assoc; reflexivity).
  rewrite (take_app 20) by (rewrite !app_length, !le_length; reflexivity).
  rewrite (take_app 8 (le 8 (cstate c))) by apply le_length.
  rewrite (take_app 4 (le 4 (f32_bits (ssr c)))) by apply le_length.
  cbn [app]. rewrite !from_le_le.
  1: { rewrite RB. unfold nitems, len. rewrite Nat2Z.id. unfold X. rewrite take_items_enc by assumption.
       unfold clearc. now rewrite <- SZ. }
  all: first [change (256 ^ Z.of_nat 4) with (2 ^ 32)|change (256 ^ Z.of_nat 8) with (2 ^ 64)];
       pose proof (nitems_nonneg c); first [exact RR|exact F1|lia].
Qed.

(* ===================== the sketch ===================== *)
Definition clear (s : req) : req := set_comps s (map clearc (comps s)).

Lemma sum_nom_clear cs : sum_nom (map clearc cs) = sum_nom cs.
Proof. induction cs as [|c r IH]; [reflexivity|]. cbn [map]. rewrite !sum_nom_cons, IH. reflexivity. Qed.
Lemma sum_items_clear cs : sum_items (map clearc cs) = sum_items cs.
Proof. induction cs as [|c r IH]; [reflexivity|]. cbn [map]. rewrite !sum_items_cons, IH. reflexivity. Qed.

Lemma set_coins_clear : forall cs, set_coins (map coin cs) (map clearc cs) = cs.
Proof. induction cs as [|c r IH]; [reflexivity|]. cbn [map set_coins clearc lgw srt ssr ssz nsec cstate items]. rewrite IH. now destruct c. Qed.

Lemma with_coins_clear s : with_coins (coins_of s) (clear s) = s.
Proof. unfold with_coins, clear, coins_of, set_comps. cbn [comps rk hra maxnom nret rn rmin rmax]. rewrite set_coins_clear. now destruct s. Qed.

Lemma set_coins_clear_any : forall bs cs, length bs = length cs -> set_coins bs (map clearc cs) = set_coins bs cs.
Proof.
  induction bs as [|b bs IH]; intros [|c r] L; try discriminate; try reflexivity.
  cbn [map set_coins]. rewrite IH by (simpl in L; lia). reflexivity.
Qed.

Definition mkflags (e h r z : bool) : Z :=
  (if e then 4 else 0) + (if h then 8 else 0) + (if r then 16 else 0) + (if z then 32 else 0).

Lemma flags_bits e h r z : bit (mkflags e h r z) 2 = e /\ bit (mkflags e h r z) 3 = h /\ bit (mkflags e h r z) 4 = r /\ bit (mkflags e h r z) 5 = z.
Proof. destruct e, h, r, z; repeat split; reflexivity. Qed.

Lemma k_bytes k : 0 <= k < 65536 -> k mod 256 + 256 * (k / 256 mod 256) = k.
Proof. apply KllCodecProofs.k_bytes. Qed.

Definition srt_ok (first s0 : bool) (cs : list comp) : Prop :=
  match cs with
  | [] => True
  | c :: r => srt c = (if first then s0 else true) /\ Forall (fun c => srt c = true) r
  end.

Lemma dec_comps_enc kind s0 : forall cs first rest, Forall cwf cs -> Forall (comp_fits kind) cs -> srt_ok first s0 cs ->
  dec_comps kind (length cs) first s0 (flat_map (enc_comp kind) cs ++ rest) = (Some (map clearc cs, rest), length cs).
Proof.
  induction cs as [|c r IH]; intros first rest W F S; [reflexivity|].
  pose proof (Forall_inv W) as Wc. pose proof (Forall_inv_tail W) as Wr.
  pose proof (Forall_inv F) as Fc. pose proof (Forall_inv_tail F) as Fr. destruct S as [S1 S2].
  assert (S' : srt_ok false s0 r) by (destruct r as [|c2 r2]; [exact I|split; [apply (Forall_inv S2)|apply (Forall_inv_tail S2)]]).
  cbn [length flat_map dec_comps]. rewrite <- app_assoc, <- S1, dec_comp_enc by assumption.
  rewrite (IH false rest Wr Fr S'). reflexivity.
Qed.

Record Fits (kind : Z) (s : req) : Prop := mkFits {
  f_comps : Forall (comp_fits kind) (comps s);
  f_n : 0 <= rn s < 2 ^ 64;
  f_nl : (length (comps s) < 256)%nat;
  f_mm : item_ok kind (rmin s) /\ item_ok kind (rmax s)
}.

Lemma flags_of_eq s : flags_of s = mkflags (rn s =? 0) (hra s) (rn s <=? 4) (srt (c0 s)).
Proof. reflexivity. Qed.

Ltac header k :=
  cbn [app KllCodecDefs.le]; unfold dec_core, dec_tail; rewrite (k_bytes k) by lia; rewrite flags_of_eq;
  match goal with |- context [mkflags ?e ?h ?r ?z] =>
    destruct (flags_bits e h r z) as (?B2 & ?B3 & ?B4 & ?B5); rewrite B2, B3, B4, B5 end.

Lemma dec_enc_empty kind s rest b : rn s = 0 -> s = grow_with (mkreq (rk s) (hra s) 0 0 0 [] 0 0) b ->
  4 <= rk s <= 255 -> eff_k (rk s) = rk s ->
  dec_core kind (enc kind s ++ rest) = (Some (clear s, rest), 1%nat).
Proof.
  intros N0 E K EK.
  assert (C : comps s = [new_comp 0 (rk s) b]) by (rewrite E at 1; reflexivity).
  assert (C1 : maxnom s = sum_nom [new_comp 0 (rk s) b]) by (rewrite E at 1; reflexivity).
  assert (C2 : nret s = 0) by (rewrite E at 1; reflexivity).
  assert (C3 : rmin s = 0) by (rewrite E at 1; reflexivity).
  assert (C4 : rmax s = 0) by (rewrite E at 1; reflexivity).
  clear E. unfold enc, est_mode. rewrite C. cbn [length Nat.leb]. rewrite N0. cbn [Z.eqb Z.leb Z.compare].
  header (rk s). rewrite N0. cbn [Z.ltb Z.compare Z.eqb Pos.eqb negb orb]. rewrite EK.
  f_equal. f_equal. f_equal. unfold clear. destruct s; cbn in *; subst; reflexivity.
Qed.

Lemma firstn_all_len {A} (l : list A) n : n = length l -> firstn n l = l.
Proof. intros ->. apply firstn_all. Qed.

Lemma dec_enc_raw kind s c rest : 1 <= rn s <= 4 -> comps s = [c] -> cstate c = 0 -> nsec c = 3 -> ssr c = f32_of_Z (rk s) ->
  lgw c = 0 -> ssz c = nearest_even (ssr c) -> nitems c = rn s -> rmin s = lmin (items c) -> rmax s = lmax (items c) ->
  nret s = sum_items (comps s) -> maxnom s = sum_nom (comps s) -> 4 <= rk s <= 255 -> Forall (item_ok kind) (items c) ->
  dec_core kind (enc kind s ++ rest) = (Some (clear s, rest), 1%nat).
Proof.
  intros N C C0 C3 CR LG SZ NI MN MX RT NM K IT.
  assert (E0 : (rn s =? 0) = false) by (apply Z.eqb_neq; lia).
  assert (E4 : (rn s <=? 4) = true) by (apply Z.leb_le; lia).
  unfold enc, est_mode, c0. rewrite C, E0, E4. cbn [length Nat.leb hd]. change (len [c]) with 1.
  rewrite firstn_all_len by (unfold nitems, len in NI; lia).
  header (rk s). rewrite ?E0, ?E4. unfold c0. rewrite ?C.
  cbn [hd Z.ltb Z.compare Pos.compare Pos.compare_cont Z.eqb Pos.eqb negb orb app].
  replace (Z.to_nat (rn s)) with (length (items c)) by (unfold nitems, len in NI; lia).
  rewrite take_items_enc by assumption.
  assert (EC : mkcomp 0 false (srt c) (f32_of_Z (rk s)) (nearest_even (f32_of_Z (rk s))) 3 0 (items c) = clearc c)
    by (unfold clearc; rewrite C0, C3, LG, SZ, CR; reflexivity).
  rewrite EC. change (nitems (clearc c)) with (nitems c). change (ReqDefs.items (clearc c)) with (ReqDefs.items c).
  replace (nitems c =? 0) with false by (symmetry; apply Z.eqb_neq; lia).
  f_equal. f_equal. f_equal. unfold clear, mk, set_comps. rewrite C. cbn [map].
  change [clearc c] with (map clearc [c]). rewrite sum_nom_clear, sum_items_clear, <- C, <- NM, <- RT, NI, <- MN, <- MX. reflexivity.
Qed.

Lemma dec_enc_single kind s c rest : 5 <= rn s -> comps s = [c] -> cwf c -> comp_fits kind c ->
  nitems c = rn s -> rmin s = lmin (items c) -> rmax s = lmax (items c) ->
  nret s = sum_items (comps s) -> maxnom s = sum_nom (comps s) -> 4 <= rk s <= 255 ->
  dec_core kind (enc kind s ++ rest) = (Some (clear s, rest), 1%nat).
Proof.
  intros N C W F NI MN MX RT NM K.
  assert (E0 : (rn s =? 0) = false) by (apply Z.eqb_neq; lia).
  assert (E4 : (rn s <=? 4) = false) by (apply Z.leb_gt; lia).
  unfold enc, est_mode, c0. rewrite C, E0, E4. cbn [length Nat.leb hd]. change (len [c]) with 1.
  header (rk s). rewrite ?E0, ?E4. unfold c0. rewrite ?C.
  cbn [hd Z.ltb Z.compare Pos.compare Pos.compare_cont Z.eqb Pos.eqb negb orb app Z.to_nat Pos.to_nat Pos.iter_op Nat.add].
  change (Pos.to_nat 1) with (length [c]).
  rewrite (dec_comps_enc kind (srt c) [c] true rest (Forall_cons _ W (Forall_nil _)) (Forall_cons _ F (Forall_nil _)) (conj eq_refl (Forall_nil _))). cbn [map].
  replace (nitems (clearc c) =? 0) with false by (symmetry; apply Z.eqb_neq; change (nitems (clearc c)) with (nitems c); lia).
  f_equal. f_equal. f_equal. unfold clear, mk, set_comps. rewrite C. cbn [map].
  change (nitems (clearc c)) with (nitems c). change (ReqDefs.items (clearc c)) with (ReqDefs.items c).
  change [clearc c] with (map clearc [c]). rewrite sum_nom_clear, sum_items_clear, <- C, <- NM, <- RT, NI, <- MN, <- MX. reflexivity.
Qed.

Lemma dec_enc_multi kind s rest : 5 <= rn s < 2 ^ 64 -> (2 <= length (comps s) < 256)%nat ->
  Forall cwf (comps s) -> Forall (comp_fits kind) (comps s) -> Forall (fun c => srt c = true) (tl (comps s)) ->
  nret s = sum_items (comps s) -> maxnom s = sum_nom (comps s) -> 4 <= rk s <= 255 ->
  item_ok kind (rmin s) -> item_ok kind (rmax s) ->
  dec_core kind (enc kind s ++ rest) = (Some (clear s, rest), length (comps s)).
Proof.
  intros N L W F S1 RT NM K Imn Imx.
  assert (E0 : (rn s =? 0) = false) by (apply Z.eqb_neq; lia).
  assert (E4 : (rn s <=? 4) = false) by (apply Z.leb_gt; lia).
  assert (EL : (2 <=? length (comps s))%nat = true) by (apply Nat.leb_le; lia).
  unfold enc, est_mode, c0. rewrite E0, E4, EL.
  set (N8 := le 8 (rn s)). set (nl := len (comps s)).
  assert (NL : 2 <= nl < 256) by (unfold nl, len; lia).
  header (rk s). rewrite ?E0, ?E4.
  replace (1 <? nl) with true by (symmetry; apply Z.ltb_lt; lia).
  replace (nl =? 0) with false by (symmetry; apply Z.eqb_neq; lia).
  replace (nl =? 1) with false by (symmetry; apply Z.eqb_neq; lia).
  cbn [Z.eqb Pos.eqb negb orb]. rewrite <- !app_assoc.
  unfold N8. rewrite (take_app 8) by apply le_length.
  replace (item_enc kind (rmin s) ++ item_enc kind (rmax s) ++ flat_map (enc_comp kind) (comps s) ++ rest)
    with (flat_map (item_enc kind) [rmin s; rmax s] ++ flat_map (enc_comp kind) (comps s) ++ rest)
    by (cbn [flat_map]; rewrite <- !app_assoc; reflexivity).
  assert (T2 : take_items kind 2 (flat_map (item_enc kind) [rmin s; rmax s] ++ flat_map (enc_comp kind) (comps s) ++ rest)
               = Some ([rmin s; rmax s], flat_map (enc_comp kind) (comps s) ++ rest))
    by (apply (take_items_enc kind [rmin s; rmax s]); repeat constructor; assumption).
  rewrite T2. replace (Z.to_nat nl) with (length (comps s)) by (unfold nl, len; lia).
  rewrite dec_comps_enc; try assumption.
  - rewrite from_le_le by (change (256 ^ Z.of_nat 8) with (2 ^ 64); lia).
    f_equal. f_equal. f_equal. unfold clear, mk, set_comps. rewrite sum_nom_clear, sum_items_clear, <- NM, <- RT. reflexivity.
  - unfold c0. destruct (comps s) as [|c r]; [exact I|]. split; [reflexivity|exact S1].
Qed.

(* ===================== every reachable sketch ===================== *)
Theorem reach_roundtrip kind s log rest : reach true s log -> Fits kind s ->
  dec_core kind (enc kind s ++ rest) = (Some (clear s, rest), length (comps s)).
Proof.
  intros R [FC FN FL [Fmn Fmx]].
  pose proof (reach_Rel _ _ _ R) as RL. pose proof (r_inv _ _ RL) as I. destruct (reach_P _ _ _ R) as [PW PK PE].
  destruct (Z.eq_dec (rn s) 0) as [N0|N0].
  { destruct (reach_empty_shape _ _ _ R N0) as [b E].
    assert (L1 : length (comps s) = 1%nat) by (rewrite E; reflexivity). rewrite L1.
    apply (dec_enc_empty kind s rest b N0 E PK). now apply eff_k_id. }
  assert (POS : 0 < rn s) by lia.
  destruct (Z_le_gt_dec (rn s) 4) as [R4|R5].
  - (* raw items *)
    destruct (reach_pristine _ _ _ R) as [(c & C & C0 & C3 & CR & CZ)|G]; [|lia].
    destruct (pristine_facts s c I C) as (LG & A & B & D).
    destruct (single_level_exact s log c RL C) as [NI MM]. destruct (MM POS) as [MN MX].
    rewrite C in PW. pose proof (Forall_inv PW) as Wc. inversion Wc as [raw sz V SZ _]. subst raw sz.
    rewrite C in FC. pose proof (Forall_inv FC) as [_ _ _ _ IT].
    rewrite C. cbn [length].
    apply (dec_enc_raw kind s c rest); auto; try lia. apply (i_ret s I). apply (i_nom s I).
  - destruct (comps s) as [|c [|c2 r]] eqn:C.
    + destruct (i_ne s I). exact C.
    + (* one level *)
      destruct (single_level_exact s log c RL C) as [NI MM]. destruct (MM POS) as [MN MX].
      cbn [length]. apply (dec_enc_single kind s c rest); auto; try lia.
      * apply (Forall_inv PW). * apply (Forall_inv FC). * apply (i_ret s I). * apply (i_nom s I).
    + (* estimation mode *)
      rewrite <- C in *. apply (dec_enc_multi kind s rest); auto; try lia.
      * rewrite C. cbn [length]. rewrite C in FL. cbn [length] in FL. lia.
      * apply (i_srt1 s I). * apply (i_ret s I). * apply (i_nom s I).
Qed.

(* the image does not depend on the coins *)
Lemma enc_comp_coins kind c b : enc_comp kind (mkcomp (lgw c) b (srt c) (ssr c) (ssz c) (nsec c) (cstate c) (items c)) = enc_comp kind c.
Proof. reflexivity. Qed.

Lemma set_coins_length : forall bs cs, length (set_coins bs cs) = length cs.
Proof. induction bs as [|b bs IH]; intros [|c r]; try reflexivity. cbn [set_coins length]. now rewrite IH. Qed.

Lemma set_coins_enc kind : forall bs cs, flat_map (enc_comp kind) (set_coins bs cs) = flat_map (enc_comp kind) cs.
Proof. induction bs as [|b bs IH]; intros [|c r]; try reflexivity. cbn [set_coins flat_map]. now rewrite IH. Qed.

Lemma set_coins_hd : forall bs cs, srt (hd dummy (set_coins bs cs)) = srt (hd dummy cs) /\ items (hd dummy (set_coins bs cs)) = items (hd dummy cs).
Proof. intros [|b bs] [|c r]; split; reflexivity. Qed.

Theorem enc_with_coins kind bs s : enc kind (with_coins bs s) = enc kind s.
Proof.
  unfold enc, with_coins, flags_of, est_mode, c0, set_comps, len. cbn [rn rk hra comps rmin rmax].
  rewrite !set_coins_length, set_coins_enc. destruct (set_coins_hd bs (comps s)) as [-> ->]. reflexivity.
Qed.

(* ===================== the reader with its coins ===================== *)
Lemma leaf_draws {A} : forall n (k : list bool -> M A) a, leaf (draws n k) a -> exists cs, length cs = n /\ leaf (k cs) a.
Proof.
  induction n as [|n IH]; intros k a L; cbn [draws] in L.
  - exists []. auto.
  - apply leaf_flip_inv in L as [c L]. apply IH in L as (cs & E & L). exists (c :: cs). split; [simpl; lia|exact L].
Qed.

Definition tok (b : bool) : Z := if b then 1 else 0.

Lemma replay_draws {A} : forall bs (k : list bool -> M A) rest,
  replay (draws (length bs) k) (map tok bs ++ rest) = replay (k bs) rest.
Proof.
  induction bs as [|b bs IH]; intros k rest; [reflexivity|]. cbn [length draws map app replay].
  replace (negb (tok b =? 0)) with b by (destruct b; reflexivity). apply (IH (fun l => k (b :: l))).
Qed.

(* every outcome of reading the image of a reachable sketch: that sketch with freshly drawn coins, nothing else consumed *)
Theorem dec_roundtrip kind s log rest : reach true s log -> Fits kind s ->
  (forall r, leaf (dec kind (enc kind s ++ rest)) r ->
     exists cs, length cs = length (comps s) /\ r = Some (with_coins cs s, rest)) /\
  replay (dec kind (enc kind s ++ rest)) (map tok (coins_of s)) = Some (Some (s, rest), []).
Proof.
  intros R F. unfold dec. rewrite (reach_roundtrip kind s log rest R F). split.
  - intros r L. apply leaf_draws in L as (cs & E & L). apply leaf_ret_inv in L. exists cs. split; [exact E|]. subst r.
    cbn [option_map fst snd]. f_equal. f_equal. unfold with_coins, clear, set_comps. cbn [comps rk hra maxnom nret rn rmin rmax].
    now rewrite set_coins_clear_any.
  - replace (length (comps s)) with (length (coins_of s)) by (unfold coins_of; apply map_length).
    rewrite <- (app_nil_r (map tok (coins_of s))), replay_draws. cbn [replay option_map fst snd]. now rewrite with_coins_clear.
Qed.

(* ===================== size ===================== *)
Lemma enc_comp_length kind c : len (enc_comp kind c) = 20 + Z.of_nat (isz kind) * nitems c.
Proof.
  unfold enc_comp, len, nitems, len. rewrite !app_length, !le_length, flat_map_items_length. cbn [length]. lia.
Qed.

Definition comps_size (kind : Z) (cs : list comp) : Z := fold_right (fun c a => 20 + Z.of_nat (isz kind) * nitems c + a) 0 cs.

Lemma flat_map_comps_length kind cs : len (flat_map (enc_comp kind) cs) = comps_size kind cs.
Proof.
  induction cs as [|c r IH]; [reflexivity|]. cbn [flat_map]. rewrite len_app, enc_comp_length, IH. reflexivity.
Qed.

(* get_serialized_size_bytes, for the states the code can be in (the raw form holds n items) *)
Theorem enc_size kind s : nitems (c0 s) = rn s \/ 4 < rn s ->
  len (enc kind s) =
  8 + (if rn s =? 0 then 0 else
       (if est_mode s then 8 + 2 * Z.of_nat (isz kind) else 0) +
       (if rn s <=? 4 then Z.of_nat (isz kind) * rn s else comps_size kind (comps s))).
Proof.
  intro H. unfold enc. rewrite !len_app. unfold len at 1 2 3. rewrite le_length. cbn [length].
  destruct (rn s =? 0) eqn:E0; [change (len (@nil Z)) with 0; lia|].
  rewrite len_app. replace (len (if est_mode s then le 8 (rn s) ++ item_enc kind (rmin s) ++ item_enc kind (rmax s) else []))
    with (if est_mode s then 8 + 2 * Z.of_nat (isz kind) else 0)
    by (destruct (est_mode s); [rewrite !len_app; unfold len; rewrite le_length, !item_enc_length; lia|reflexivity]).
  destruct (Z.leb_spec (rn s) 4) as [L4|G4].
  - destruct H as [H|H]; [|lia]. unfold len at 1. rewrite flat_map_items_length.
    rewrite firstn_all_len by (unfold nitems, len in H; lia). unfold nitems, len in H. apply Z.eqb_neq in E0. lia.
  - rewrite flat_map_comps_length. lia.
Qed.

(* ===================== extension: what follows the image does not matter ===================== *)
Lemma take_ext n (b : list Z) a r t : take n b = Some (a, r) -> take n (b ++ t) = Some (a, r ++ t).
Proof.
  unfold KllCodecDefs.take. destruct (Nat.leb_spec n (length b)) as [L|L]; [|discriminate]. intros [= <- <-].
  rewrite app_length. replace (n <=? length b + length t)%nat with true by (symmetry; apply Nat.leb_le; lia).
  rewrite firstn_app, skipn_app. replace (n - length b)%nat with 0%nat by lia. cbn [firstn skipn]. now rewrite app_nil_r.
Qed.

Lemma take_len n (b : list Z) a r : take n b = Some (a, r) -> length a = n /\ length b = (n + length r)%nat.
Proof.
  unfold KllCodecDefs.take. destruct (Nat.leb_spec n (length b)) as [L|L]; [|discriminate]. intros [= <- <-].
  rewrite firstn_length, skipn_length. lia.
Qed.

Lemma take_items_ext kind t : forall n b vs r, take_items kind n b = Some (vs, r) -> take_items kind n (b ++ t) = Some (vs, r ++ t).
Proof.
  induction n as [|n IH]; intros b vs r H; cbn [take_items] in *; [now inversion H|].
  destruct (take (isz kind) b) as [[a r1]|] eqn:T; [|discriminate]. rewrite (take_ext _ _ _ _ t T).
  destruct (item_dec kind a); [|discriminate]. destruct (take_items kind n r1) as [[vs' r']|] eqn:TI; [|discriminate].
  rewrite (IH _ _ _ TI). now inversion H.
Qed.

Lemma take_items_len kind : forall n b vs r, take_items kind n b = Some (vs, r) ->
  length vs = n /\ length b = (n * isz kind + length r)%nat.
Proof.
  induction n as [|n IH]; intros b vs r H; cbn [take_items] in *; [inversion H; subst; simpl; lia|].
  destruct (take (isz kind) b) as [[a r1]|] eqn:T; [|discriminate]. destruct (take_len _ _ _ _ T) as [_ L].
  destruct (item_dec kind a); [|discriminate]. destruct (take_items kind n r1) as [[vs' r']|] eqn:TI; [|discriminate].
  destruct (IH _ _ _ TI) as [A B]. inversion H; subst. simpl. lia.
Qed.

Lemma dec_comp_ext kind so t b c r : dec_comp kind so b = Some (c, r) -> dec_comp kind so (b ++ t) = Some (c, r ++ t).
Proof.
  unfold dec_comp. destruct (take 20 b) as [[f r0]|] eqn:T; [|discriminate]. rewrite (take_ext _ _ _ _ t T).
  destruct (take 8 f) as [[bst f1]|]; [|discriminate]. destruct (take 4 f1) as [[braw [|lg [|ns [|p1 [|p2 bnum]]]]]|]; try discriminate.
  destruct (f32_of_bits (from_le braw)); [|discriminate].
  destruct (take_items kind (Z.to_nat (from_le bnum)) r0) as [[its r']|] eqn:TI; [|discriminate].
  rewrite (take_items_ext _ t _ _ _ _ TI). now intros [= <- <-].
Qed.

Lemma dec_comp_len kind so b c r : dec_comp kind so b = Some (c, r) ->
  len b = 20 + Z.of_nat (isz kind) * nitems c + len r.
Proof.
  unfold dec_comp. destruct (take 20 b) as [[f r0]|] eqn:T; [|discriminate]. destruct (take_len _ _ _ _ T) as [_ L].
  destruct (take 8 f) as [[bst f1]|]; [|discriminate]. destruct (take 4 f1) as [[braw [|lg [|ns [|p1 [|p2 bnum]]]]]|]; try discriminate.
  destruct (f32_of_bits (from_le braw)); [|discriminate].
  destruct (take_items kind (Z.to_nat (from_le bnum)) r0) as [[its r']|] eqn:TI; [|discriminate].
  destruct (take_items_len _ _ _ _ _ TI) as [A B]. intros [= <- <-]. unfold nitems, len. cbn [items]. lia.
Qed.

Lemma dec_comps_ext kind s0 t : forall n first b cs r k, dec_comps kind n first s0 b = (Some (cs, r), k) ->
  dec_comps kind n first s0 (b ++ t) = (Some (cs, r ++ t), k).
Proof.
  induction n as [|n IH]; intros first b cs r k H; cbn [dec_comps] in *; [now inversion H|].
  destruct (dec_comp kind (if first then s0 else true) b) as [[c r1]|] eqn:D; [|discriminate]. rewrite (dec_comp_ext _ _ t _ _ _ D).
  destruct (dec_comps kind n false s0 r1) as [[[cs' r']|] k'] eqn:DC; [|discriminate].
  rewrite (IH _ _ _ _ _ DC). now inversion H.
Qed.

Lemma dec_comps_len kind s0 : forall n first b cs r k, dec_comps kind n first s0 b = (Some (cs, r), k) ->
  len b = comps_size kind cs + len r /\ k = length cs /\ length cs = n.
Proof.
  induction n as [|n IH]; intros first b cs r k H; cbn [dec_comps] in *; [inversion H; subst; cbn; lia|].
  destruct (dec_comp kind (if first then s0 else true) b) as [[c r1]|] eqn:D; [|discriminate]. pose proof (dec_comp_len _ _ _ _ _ D) as L.
  destruct (dec_comps kind n false s0 r1) as [[[cs' r']|] k'] eqn:DC; [|discriminate].
  destruct (IH _ _ _ _ _ DC) as (A & B & C). inversion H; subst.
  change (comps_size kind (c :: cs')) with (20 + Z.of_nat (isz kind) * nitems c + comps_size kind cs'). cbn [length]. lia.
Qed.

Lemma dec_tail_ext kind k h raw s0 nl nraw n lo hi t r2 x r c :
  dec_tail kind k h raw s0 nl nraw n lo hi r2 = (Some (x, r), c) ->
  dec_tail kind k h raw s0 nl nraw n lo hi (r2 ++ t) = (Some (x, r ++ t), c).
Proof.
  unfold dec_tail. destruct raw.
  - destruct (take_items kind (Z.to_nat nraw) r2) as [[its r3]|] eqn:TI; [|discriminate]. rewrite (take_items_ext _ t _ _ _ _ TI).
    destruct (nl =? 1); [destruct (nitems _ =? 0); [discriminate|]|]; now intros [= <- <- <-].
  - destruct (dec_comps kind (Z.to_nat nl) true s0 r2) as [[[cs r3]|] k'] eqn:DC; [|discriminate]. rewrite (dec_comps_ext _ _ t _ _ _ _ _ _ DC).
    destruct (nl =? 1); [destruct cs as [|c1 cs']; [discriminate|]; destruct (nitems c1 =? 0); [discriminate|]|]; now intros [= <- <- <-].
Qed.

Theorem dec_core_ext kind t b x r c : dec_core kind b = (Some (x, r), c) -> dec_core kind (b ++ t) = (Some (x, r ++ t), c).
Proof.
  destruct b as [|pre [|sv [|fam [|fl [|k0 [|k1 [|nl [|nraw rest]]]]]]]]; try discriminate. cbn [app]. unfold dec_core.
  destruct (negb (pre =? (if 1 <? nl then 4 else 2)) || negb (sv =? 1) || negb (fam =? 17)); [discriminate|].
  destruct (bit fl 2); [now intros [= <- <- <-]|]. destruct (nl =? 0); [discriminate|].
  destruct (1 <? nl); [|apply dec_tail_ext].
  destruct (take 8 rest) as [[bn r1]|] eqn:T8; [|discriminate]. rewrite (take_ext _ _ _ _ t T8).
  destruct (take_items kind 2 r1) as [[l r2]|] eqn:T2; [|discriminate]. rewrite (take_items_ext _ t _ _ _ _ T2).
  destruct l as [|lo [|hi [|z l']]]; try discriminate. apply dec_tail_ext.
Qed.

(* every strict prefix of the image of a reachable sketch is refused *)
Theorem prefix_refused kind s log n : reach true s log -> Fits kind s -> (n < length (enc kind s))%nat ->
  fst (dec_core kind (firstn n (enc kind s))) = None.
Proof.
  intros R F L. destruct (dec_core kind (firstn n (enc kind s))) as [[[x r]|] c] eqn:D; [exfalso|reflexivity].
  pose proof (dec_core_ext kind (skipn n (enc kind s)) _ _ _ _ D) as E. rewrite firstn_skipn in E.
  pose proof (reach_roundtrip kind s log [] R F) as RT. rewrite app_nil_r in RT. rewrite RT in E.
  inversion E as [[E1 E2 E3]]. symmetry in E2. apply app_eq_nil in E2 as [_ E2].
  apply (f_equal (@length Z)) in E2. rewrite skipn_length in E2. cbn [length] in E2. lia.
Qed.

(* ===================== accepted images have size-bounded content ===================== *)
Lemma dec_tail_len kind k h raw s0 nl nraw n lo hi r2 x r c :
  dec_tail kind k h raw s0 nl nraw n lo hi r2 = (Some (x, r), c) ->
  Z.of_nat (isz kind) * nret x + len r <= len r2 /\ nret x = sum_items (comps x) /\ c = length (comps x) /\
  20 * (Z.of_nat c - 1) <= len r2.
Proof.
  unfold dec_tail. destruct raw.
  - destruct (take_items kind (Z.to_nat nraw) r2) as [[its r3]|] eqn:TI; [|discriminate]. destruct (take_items_len _ _ _ _ _ TI) as [A B].
    set (c1 := mkcomp 0 false s0 (f32_of_Z k) (nearest_even (f32_of_Z k)) 3 0 its).
    assert (N1 : nitems c1 = len its) by reflexivity. pose proof (len_nonneg r3).
    destruct (nl =? 1); [destruct (nitems c1 =? 0); [discriminate|]|]; intros [= <- <- <-];
      unfold mk; cbn [nret comps]; rewrite sum_items_cons; cbn [sum_items fold_right length]; rewrite N1; unfold len in *; splits; auto; lia.
  - destruct (dec_comps kind (Z.to_nat nl) true s0 r2) as [[[cs r3]|] k'] eqn:DC; [|discriminate]. destruct (dec_comps_len _ _ _ _ _ _ _ _ DC) as (A & B & C).
    assert (S : Z.of_nat (isz kind) * sum_items cs + 20 * Z.of_nat (length cs) = comps_size kind cs).
    { clear. induction cs as [|c1 r1 IH]; [cbn; lia|].
      change (comps_size kind (c1 :: r1)) with (20 + Z.of_nat (isz kind) * nitems c1 + comps_size kind r1).
      rewrite sum_items_cons, <- IH. cbn [length]. lia. }
    pose proof (len_nonneg r3). pose proof (sum_items_nonneg cs) as SN. pose proof (Nat2Z.is_nonneg (isz kind)) as IZ.
    assert (G : Z.of_nat (isz kind) * sum_items cs + len r3 <= len r2 /\ 20 * (Z.of_nat (length cs) - 1) <= len r2) by (split; nia).
    destruct G as [G1 G2]. subst k'.
    destruct (nl =? 1); [destruct cs as [|c1 cs']; [discriminate|]; destruct (nitems c1 =? 0); [discriminate|]|];
      intros [= <- <- <-]; unfold mk; cbn [nret comps]; splits; auto.
Qed.

Theorem accepted_bounded kind b x r c : dec_core kind b = (Some (x, r), c) ->
  Z.of_nat (isz kind) * nret x + 8 + len r <= len b /\ nret x = sum_items (comps x) /\ c = length (comps x) /\ Z.of_nat c <= len b.
Proof.
  destruct b as [|pre [|sv [|fam [|fl [|k0 [|k1 [|nl [|nraw rest]]]]]]]]; try discriminate. unfold dec_core.
  destruct (negb (pre =? (if 1 <? nl then 4 else 2)) || negb (sv =? 1) || negb (fam =? 17)); [discriminate|].
  rewrite !len_cons. pose proof (len_nonneg rest) as LR.
  destruct (bit fl 2).
  { intros [= <- <- <-]. cbn [grow_with nret comps app length sum_items fold_right new_comp nitems items]. change (len (@nil Z)) with 0. splits; auto; lia. }
  destruct (nl =? 0); [discriminate|].
  destruct (1 <? nl).
  - destruct (take 8 rest) as [[bn r1]|] eqn:T8; [|discriminate]. destruct (take_len _ _ _ _ T8) as [_ L8].
    destruct (take_items kind 2 r1) as [[l r2]|] eqn:T2; [|discriminate]. destruct (take_items_len _ _ _ _ _ T2) as [_ L2].
    destruct l as [|lo [|hi [|z l']]]; try discriminate. intro H. destruct (dec_tail_len _ _ _ _ _ _ _ _ _ _ _ _ _ _ H) as (A & B & C & D).
    unfold len in *. splits; auto; lia.
  - intro H. destruct (dec_tail_len _ _ _ _ _ _ _ _ _ _ _ _ _ _ H) as (A & B & C & D). unfold len in *. splits; auto; lia.
Qed.

(* a wrong preamble size, serial version or family id is refused before any coin is drawn; so is anything shorter than 8 bytes *)
Theorem bad_preamble_refused kind pre sv fam fl k0 k1 nl nraw rest :
  pre <> (if 1 <? nl then 4 else 2) \/ sv <> 1 \/ fam <> 17 ->
  dec_core kind (pre :: sv :: fam :: fl :: k0 :: k1 :: nl :: nraw :: rest) = (None, O).
Proof.
  intro H. unfold dec_core.
  replace (negb (pre =? (if 1 <? nl then 4 else 2)) || negb (sv =? 1) || negb (fam =? 17)) with true; [reflexivity|].
  symmetry. rewrite !orb_true_iff, !negb_true_iff, !Z.eqb_neq. tauto.
Qed.

Theorem short_refused kind b : (length b < 8)%nat -> dec_core kind b = (None, O).
Proof. intro H. do 8 (destruct b as [|? b]; [reflexivity|]). simpl in H. lia. Qed.

(* ===================== layout ===================== *)
Theorem enc_preamble kind s : 0 <= rk s < 65536 ->
  firstn 8 (enc kind s) =
  [if est_mode s then 4 else 2; 1; 17; flags_of s; rk s mod 256; rk s / 256 mod 256;
   if rn s =? 0 then 0 else len (comps s); if rn s <=? 4 then rn s else 0] /\
  from_le [rk s mod 256; rk s / 256 mod 256] = rk s.
Proof. intro K. split; [reflexivity|]. cbn [KllCodecDefs.from_le]. pose proof (k_bytes (rk s) K). lia. Qed.

Theorem enc_estimation_fields kind s : rn s <> 0 -> est_mode s = true ->
  skipn 8 (enc kind s) = le 8 (rn s) ++ item_enc kind (rmin s) ++ item_enc kind (rmax s) ++
                         (if rn s <=? 4 then flat_map (item_enc kind) (firstn (Z.to_nat (rn s)) (items (c0 s)))
                          else flat_map (enc_comp kind) (comps s)).
Proof.
  intros N E. unfold enc. rewrite E. apply Z.eqb_neq in N. rewrite N. cbn [app KllCodecDefs.le skipn]. now rewrite <- !app_assoc.
Qed.

Theorem enc_exact_fields kind s : rn s <> 0 -> est_mode s = false ->
  skipn 8 (enc kind s) = if rn s <=? 4 then flat_map (item_enc kind) (firstn (Z.to_nat (rn s)) (items (c0 s)))
                         else flat_map (enc_comp kind) (comps s).
Proof. intros N E. unfold enc. rewrite E. apply Z.eqb_neq in N. rewrite N. reflexivity. Qed.

Theorem enc_comp_layout kind c :
  firstn 8 (enc_comp kind c) = le 8 (cstate c) /\
  firstn 4 (skipn 8 (enc_comp kind c)) = le 4 (f32_bits (ssr c)) /\
  firstn 4 (skipn 12 (enc_comp kind c)) = [lgw c; nsec c; 0; 0] /\
  firstn 4 (skipn 16 (enc_comp kind c)) = le 4 (nitems c) /\
  skipn 20 (enc_comp kind c) = flat_map (item_enc kind) (items c).
Proof. repeat split; reflexivity. Qed.

(* ===================== the restored sketch answers like the original ===================== *)
Lemma rank_coins x incl : forall bs cs,
  fold_right (fun c a => comp_weight c x incl + a) 0 (set_coins bs cs) = fold_right (fun c a => comp_weight c x incl + a) 0 cs.
Proof. induction bs as [|b bs IH]; intros [|c r]; try reflexivity. cbn [set_coins fold_right]. now rewrite IH. Qed.

Lemma set_coins_nil l : set_coins [] l = l.
Proof. destruct l; reflexivity. Qed.

Lemma skip_empty_coins : forall bs cs, exists bs', skip_empty (set_coins bs cs) = set_coins bs' (skip_empty cs).
Proof.
  induction bs as [|b bs IH]; intros cs; [exists []; now rewrite !set_coins_nil|]. destruct cs as [|c r]; [exists []; reflexivity|].
  cbn [set_coins skip_empty items]. destruct (items c) eqn:E; [apply IH|]. exists (b :: bs). cbn [set_coins]. now rewrite E.
Qed.

Lemma iter_levels_coins : forall bs cs, iter_levels (set_coins bs cs) = iter_levels cs.
Proof. induction bs as [|b bs IH]; intros [|c r]; try reflexivity. cbn [set_coins iter_levels items lgw]. now rewrite IH. Qed.

Lemma add_comps_coins : forall bs cs es, add_comps es (set_coins bs cs) = add_comps es cs.
Proof. induction bs as [|b bs IH]; intros [|c r] es; try reflexivity. cbn [set_coins add_comps items lgw]. now rewrite IH. Qed.

Theorem with_coins_observations bs s :
  rn (with_coins bs s) = rn s /\ nret (with_coins bs s) = nret s /\ rk (with_coins bs s) = rk s /\ hra (with_coins bs s) = hra s /\
  rmin (with_coins bs s) = rmin s /\ rmax (with_coins bs s) = rmax s /\
  iterate (with_coins bs s) = iterate s /\
  (forall x incl, rank_w (with_coins bs s) x incl = rank_w s x incl) /\
  sorted_view (with_coins bs s) = sorted_view s.
Proof.
  unfold with_coins, set_comps. splits; try reflexivity.
  - unfold iterate. cbn [comps]. destruct (skip_empty_coins bs (comps s)) as [bs' ->]. apply iter_levels_coins.
  - intros x incl. unfold rank_w. cbn [comps]. apply rank_coins.
  - unfold sorted_view. cbn [comps]. now rewrite add_comps_coins.
Qed.
