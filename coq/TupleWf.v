(* TupleWf.v — the results of the tuple set operations are well-formed compact sketches ([cwf]: distinct keys, no
   entries when empty, strictly increasing when flagged ordered), so they can be fed to further set operations and
   the theorems of TupleSetProofs.v / TupleUnionProofs.v cover arbitrary sequences of operations. *)
From Coq Require Import ZArith NArith List Bool Lia Permutation Sorted Arith.
From DS Require Import Word RunnerLib OpenAddr KSmallest Canon ThetaDefs ThetaProofs ThetaRefine ThetaFacts TupleDefs
  TupleProofs TupleSetProofs TupleUnionProofs.
Import ListNotations.
Local Open Scope N_scope.

Section Wf.
  Variable S : Type.
  Notation compact := (compact S).
  Notation cwf := (cwf S).

  Lemma sorted_filter (p : N * S -> bool) l : StronglySorted (klt fst) l -> StronglySorted (klt fst) (filter p l).
  Proof.
    induction 1 as [|a l Hs IH Hf]; simpl; [constructor|]. destruct (p a); [|exact IH].
    constructor; [exact IH|]. rewrite Forall_forall in *. intros x Hx. apply filter_In in Hx. apply Hf. tauto.
  Qed.

  Lemma sorted_nodup_keys (l : list (N * S)) : StronglySorted (klt fst) l -> NoDup (map fst l).
  Proof.
    induction 1 as [|a l Hs IH Hf]; simpl; constructor; [|exact IH].
    intros Hin. apply in_map_iff in Hin. destruct Hin as (x & E & Hx). rewrite Forall_forall in Hf.
    specialize (Hf x Hx). unfold klt in Hf. lia.
  Qed.

  (* mk_cs: the constructor's "ordered || size <= 1" *)
  Lemma mk_cs_wf e o th ents : NoDup (map fst ents) -> (e = true -> ents = []) ->
    (o = true -> StronglySorted (klt fst) ents) -> cwf (mk_cs S e o th ents).
  Proof.
    intros Hnd He Ho. unfold mk_cs. split; [exact Hnd|]. split; [exact He|]. cbn [c_ordered c_entries]. intros H.
    apply orb_true_iff in H. destruct H as [H|H]; [auto|]. apply short_sorted'. now apply Nat.leb_le.
  Qed.

  (* set_difference output is a sorted sub-range of a *)
  Lemma set_diff_incl a : forall b x, In x (set_diff S a b) -> In x a.
  Proof.
    induction a as [|x a IHa]; intros b z.
    - destruct b; simpl; tauto.
    - induction b as [|y b IHb]; [simpl; tauto|]. cbn [set_diff].
      destruct (fst x <? fst y); [|destruct (fst y <? fst x)].
      + intros [<-|H]; [left; auto|right; eapply IHa; eauto].
      + exact IHb.
      + intros H. right. eapply IHa; eauto.
  Qed.

  Lemma set_diff_sorted a : forall b, StronglySorted (klt fst) a -> StronglySorted (klt fst) (set_diff S a b).
  Proof.
    induction a as [|x a IHa]; intros b Ha.
    - destruct b; simpl; constructor.
    - inversion Ha; subst. induction b as [|y b IHb]; [simpl; exact Ha|]. cbn [set_diff].
      destruct (fst x <? fst y); [|destruct (fst y <? fst x)].
      + constructor; [apply IHa; auto|]. rewrite Forall_forall in *. intros z Hz. apply H2. eapply set_diff_incl; eauto.
      + exact IHb.
      + apply IHa; auto.
  Qed.

  Theorem a_not_b_wf a b ordered : cwf a -> cwf b -> cwf (a_not_b S a b ordered).
  Proof.
    intros Ha Hb. destruct (anb_early S a b) eqn:He.
    - now destruct (a_not_b_early S a b ordered Ha He) as (_ & _ & _ & H).
    - destruct Ha as (Hnda & Hea & Hoa), Hb as (Hndb & Heb & Hob).
      unfold a_not_b. fold (anb_early S a b). rewrite He.
      set (th := N.min (c_theta a) (c_theta b)). cbv zeta.
      match goal with |- ThetaFacts.cwf S (mk_cs S ?e ?o th (if _ then msort fst ?x else ?x)) => set (ents := x); set (em := e) end.
      assert (Hnd : NoDup (map fst ents)).
      { unfold ents. destruct (length (c_entries b) =? 0)%nat; [now apply NoDup_map_filter|].
        destruct (c_ordered a && c_ordered b) eqn:Eo.
        - apply andb_true_iff in Eo. destruct Eo as [Eoa _]. apply NoDup_map_filter, sorted_nodup_keys, set_diff_sorted. auto.
        - rewrite (scan_lt_wf S _ th _ Hoa). now apply NoDup_map_filter, NoDup_map_filter. }
      assert (Hso : c_ordered a = true -> StronglySorted (klt fst) ents).
      { intros Eoa. specialize (Hoa Eoa). unfold ents. destruct (length (c_entries b) =? 0)%nat; [now apply sorted_filter|].
        destruct (c_ordered a && c_ordered b).
        - now apply sorted_filter, set_diff_sorted.
        - rewrite Eoa. rewrite (scan_lt_sorted S th _ Hoa). now apply sorted_filter, sorted_filter. }
      assert (Hem : em = true -> ents = []).
      { unfold em. intros H. apply orb_true_iff in H. destruct H as [H|H].
        - unfold anb_early in He. rewrite H in He. discriminate.
        - apply andb_true_iff in H. destruct H as [H _]. apply Nat.eqb_eq in H. now apply length_zero_iff_nil. }
      destruct (c_ordered a) eqn:Eoa.
      + rewrite andb_false_r. apply mk_cs_wf; auto.
      + rewrite andb_true_r. cbn [orb]. destruct ordered.
        * apply mk_cs_wf.
          -- eapply Permutation_NoDup; [symmetry; apply Permutation_map, msort_perm|exact Hnd].
          -- intros H. rewrite (Hem H). reflexivity.
          -- intros _. now apply msort_strict.
        * apply mk_cs_wf; auto; try discriminate.
  Qed.

  Variable comb : S -> S -> S.

  Theorem inter_result_wf cs ordered c : Forall cwf cs -> inter_result S (inter_run S comb cs) ordered = Some c -> cwf c.
  Proof.
    intros Hwf. destruct (iinv_run S comb cs Hwf) as [Hnd _ _ Hemp _]. unfold inter_result.
    destruct (i_valid (inter_run S comb cs)); [|discriminate]. intros H. inversion H; subst c.
    assert (Hnil : i_empty (inter_run S comb cs)
                   || ((length (i_ents (inter_run S comb cs)) =? 0)%nat && (i_theta (inter_run S comb cs) =? max_theta)) = true ->
                   i_ents (inter_run S comb cs) = []).
    { intros E. apply orb_true_iff in E. destruct E as [E|E]; [auto|]. apply andb_true_iff in E. destruct E as [E _].
      apply Nat.eqb_eq in E. now apply length_zero_iff_nil. }
    destruct ordered.
    - apply mk_cs_wf.
      + eapply Permutation_NoDup; [symmetry; apply Permutation_map, msort_perm|exact Hnd].
      + intros E. rewrite (Hnil E). reflexivity.
      + intros _. now apply msort_strict.
    - apply mk_cs_wf; auto; try discriminate.
  Qed.

  Variable sel : nat -> list (N * S) -> list (N * S).
  Hypothesis sel_ok : forall k l, (k < length l)%nat -> nth_post fst k l (sel k l).
  Variables lgn r th0 : N.
  Hypothesis lgn_ge : 5 <= lgn.

  Lemma nodup_keys_firstn k (l : list (N * S)) : NoDup (map fst l) -> NoDup (map fst (firstn k l)).
  Proof.
    revert k. induction l as [|a l IH]; intros [|k] H; simpl; try constructor.
    - inversion H; subst. intros Hin. apply H2. apply in_map_iff in Hin. destruct Hin as (x & E & Hx).
      apply in_map_iff. exists x. split; [auto|]. eapply firstn_in; eauto.
    - inversion H; subst. apply IH; auto.
  Qed.

  Theorem union_result_wf cs ordered : Forall cwf cs ->
    cwf (union_result S sel (union_run S sel comb lgn r th0 cs) ordered).
  Proof.
    intros Hwf. destruct (uinv_run S sel sel_ok comb lgn r th0 lgn_ge cs Hwf) as (ops & [Htab _]).
    set (u := union_run S sel comb lgn r th0 cs) in *. unfold union_result.
    destruct (is_empty (u_tab u)).
    { apply mk_cs_wf; [constructor|reflexivity|constructor]. }
    set (t := u_tab u) in *. set (th := N.min (u_theta u) (theta t)).
    set (ents := if theta t <=? u_theta u then entries S t else filter (fun e => fst e <? th) (entries S t)).
    assert (Hndt : NoDup (map fst (entries S t))).
    { destruct Htab as (_ & _ & _ & _ & _ & _ & Esl). unfold entries. rewrite Esl.
      now destruct (refines S sel sel_ok lgn r th0 lgn_ge ops) as (H & _). }
    assert (Hnd : NoDup (map fst ents)).
    { unfold ents. destruct (theta t <=? u_theta u); [auto|now apply NoDup_map_filter]. }
    set (k := knom S t).
    assert (Hnd' : forall th' ents', (if (k <? length ents)%nat
                    then match nth_error (sel k ents) k with Some p => (fst p, firstn k (sel k ents)) | None => (th, ents) end
                    else (th, ents)) = (th', ents') -> NoDup (map fst ents')).
    { intros th' ents' E. destruct (k <? length ents)%nat eqn:Ek.
      - apply Nat.ltb_lt in Ek. destruct (sel_ok k ents Ek) as [Hperm _].
        destruct (nth_error (sel k ents) k); inversion E; subst; [|auto].
        apply nodup_keys_firstn. eapply Permutation_NoDup; [symmetry; apply Permutation_map, Hperm|exact Hnd].
      - inversion E; subst. auto. }
    destruct (if (k <? length ents)%nat then _ else _) as [th' ents'] eqn:E.
    specialize (Hnd' _ _ eq_refl). destruct ordered.
    - apply mk_cs_wf.
      + eapply Permutation_NoDup; [symmetry; apply Permutation_map, msort_perm|exact Hnd'].
      + discriminate.
      + intros _. now apply msort_strict.
    - apply mk_cs_wf; auto; try discriminate.
  Qed.
End Wf.
