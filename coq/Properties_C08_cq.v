(* Properties_C08_cq.v — C08 for the classic quantiles sketch: the rank estimate is unbiased over the outcomes of the
   internal random choices, and the number / arity of the choices does not depend on their outcomes.
   Histories are trees of updates, merges (any valid k on either side: standard merge, downsampling merge in both
   directions, result built on a copy of the source) and interleaved queries ([prog]); [exec q] is the choice tree of
   the history: one [Draw 2] per zip_buffer (random_bit) and one [Draw stride] per zip_buffer_with_stride.
   [Ex] is the exact expectation (each draw uniform over its arity, draws independent).
   The same statements are given for flat operation scripts over registers ([fop], [frun]: what the runner executes),
   where one sketch may be merged into several others or several times into the same one (merge DAGs, copies,
   rvalue merges).  Statements only; proofs in CqProofs.v, CqUnbiased.v, CqDraws.v, CqScripts.v. *)
From Coq Require Import ZArith List Bool Lia Permutation Sorted QArith.
From DS Require Import RunnerLib SortedView CqDefs CqProofs CqView CqUnbiased CqDraws CqScripts Regression_cq.
Import ListNotations.
Local Open Scope Z_scope.

(* halve pair lemma: the two possible outcomes of zip_buffer on a run (each kept item doubling its weight) add up to
   twice the weighted count before, for every predicate p (in particular "< x" and "<= x") *)
Theorem C08_cq_halve_pair : forall p buf w,
  2 * w * cnt p (every 2 0 buf) + 2 * w * cnt p (every 2 1 buf) = 2 * (w * cnt p buf).
Proof. intros p buf w. pose proof (every2_cnt p buf). lia. Qed.

(* stride lemma: the stride possible outcomes of zip_buffer_with_stride (each kept item multiplying its weight by
   stride) add up to stride times the weighted count before *)
Theorem C08_cq_stride_sum : forall p buf w m,
  zsum (S m) (fun o => Z.of_nat (S m) * w * cnt p (every (S m) o buf)) = Z.of_nat (S m) * (w * cnt p buf).
Proof. intros p buf w m. rewrite zsum_scale, every_cnt_sum. ring. Qed.

(* the length of what is kept does not depend on the outcome: k of 2k, resp. k of stride * k *)
Theorem C08_cq_zip_sizes : forall stride o k l, 0 <= o < stride -> 0 <= k -> len l = stride * k ->
  len (every (Z.to_nat stride) (Z.to_nat o) l) = k.
Proof. exact every_len. Qed.

(* one update / one merge keeps the estimate in expectation, on every reachable state *)
Theorem C08_cq_update_unbiased : forall p s log x, reach s log ->
  Mart (Rest p) (update s x) (Rest p s + (if p x then 1 else 0)).
Proof. intros p s log x R. apply update_Mart. exact (r_inv s log (reach_Rel s log R)). Qed.

Theorem C08_cq_merge_unbiased : forall p s l1 o l2, reach s l1 -> reach o l2 ->
  Mart (Rest p) (merge s o) (Rest p s + Rest p o).
Proof. intros p s l1 o l2 R1 R2. apply (merge_Mart p s l1 o l2); now apply reach_Rel. Qed.

(* every history: the weighted count of retained items satisfying p has expectation = the number of inputs satisfying p *)
Theorem C08_cq_estimator_unbiased : forall p q, wf q -> Mart (Rest p) (exec q) (cnt p (inputs q)).
Proof. exact estimator_unbiased. Qed.

(* [Mart] is the exact expectation *)
Theorem C08_cq_Mart_is_expectation : forall (f : cq -> Z) m v, Mart f m v -> (Ex (fmap f m) == inject_Z v)%Q.
Proof. intros f m v. apply Mart_Ex. Qed.

(* every history, every query point, both criteria: the rank numerator get_rank computes from the sorted view,
   averaged over all outcomes of the random choices, is exactly the true rank of the input multiset *)
Theorem C08_cq_rank_unbiased : forall x incl q, wf q ->
  (Ex (fmap (rank_of x incl) (exec q)) == inject_Z (cnt (below Z Z.ltb x incl) (inputs q)))%Q.
Proof. exact rank_unbiased. Qed.

(* the number of draws and their arities are the same along all branches of a history, and so are k, n, bit_pattern
   and the buffer sizes of the result *)
Theorem C08_cq_draws_independent_of_outcomes : forall q ar1 s1 ar2 s2,
  path (exec q) ar1 s1 -> path (exec q) ar2 s2 -> ar1 = ar2 /\ ctl s1 = ctl s2.
Proof. exact draws_independent_of_outcomes. Qed.

(* ... and do not depend on the item values either: only on the shape of the history (tree, k's, stream lengths) *)
Theorem C08_cq_draws_independent_of_items : forall q1 q2 ar1 s1 ar2 s2, same_shape q1 q2 ->
  path (exec q1) ar1 s1 -> path (exec q2) ar2 s2 -> ar1 = ar2 /\ ctl s1 = ctl s2.
Proof. intros q1 q2 ar1 s1 ar2 s2 H P1 P2. exact (exec_det q1 q2 H _ _ _ _ P1 P2). Qed.

(* the runner consumes exactly one reported outcome per draw of the branch it follows *)
Theorem C08_cq_replay_consumes_draws : forall q cs s rest, replay (exec q) cs = Some (s, rest) ->
  exists ar, path (exec q) ar s /\ length cs = (length ar + length rest)%nat.
Proof. intros q cs s rest. apply replay_path. Qed.

(* ---------- flat scripts over registers (merge DAGs) ---------- *)
(* every register of every state a script reaches is a reachable sketch, related to the deterministic ghost log:
   all C07 statements apply to it *)
Theorem C08_cq_script_states_reachable : forall ops st r s, leaf (frun ops []) st -> reg_get st r = Some s ->
  exists l, reg_get (lrun ops []) r = Some l /\ reach s l.
Proof. exact script_states_reachable. Qed.

(* every script, every register: the weighted count of retained items satisfying p has expectation = the number of
   items satisfying p that flowed into the register *)
Theorem C08_cq_script_estimator_unbiased : forall p ops r,
  Mart (fun st => vec p st r) (frun ops []) (lvec p (lrun ops []) r).
Proof. exact script_unbiased. Qed.

Theorem C08_cq_script_rank_unbiased : forall x incl ops r,
  (Ex (fmap (rank_reg x incl r) (frun ops [])) ==
   inject_Z (match reg_get (lrun ops []) r with Some l => cnt (below Z Z.ltb x incl) l | None => 0 end))%Q.
Proof. exact script_rank_unbiased. Qed.

Theorem C08_cq_script_draws_independent_of_outcomes : forall ops ar1 st1 ar2 st2,
  path (frun ops []) ar1 st1 -> path (frun ops []) ar2 st2 -> ar1 = ar2.
Proof. exact script_draws_independent. Qed.

(* non-vacuity of the script statements: b is merged TWICE into a (k = 2, 9 and 5 items) and then a into c *)
Example C08_cq_script_nonvacuous :
  let ops := [FNew 0 2; FNew 1 2; FNew 2 4] ++ map (FUpd 0) (range 0 9) ++ map (FUpd 1) (range 20 5) ++
             [FMerge 0 1; FMerge 0 1; FUpd 2 7; FMerge 2 0] in
  reg_get (lrun ops []) 2 = Some (7 :: range 0 9 ++ range 20 5 ++ range 20 5) /\
  (Ex (fmap (rank_reg 20 true 2) (frun ops [])) == inject_Z 12)%Q.
Proof.
  cbv zeta. split; [vm_compute; reflexivity|]. rewrite script_rank_unbiased.
  match goal with |- (inject_Z ?X == _)%Q => assert (E : X = 12) by (vm_compute; reflexivity); rewrite E end.
  reflexivity.
Qed.

(* non-vacuity: a history with ten coins and one stride-4 draw (2^10 * 4 outcomes) *)
Example C08_cq_nonvacuous :
  wf W1 /\
  (exists s, path (exec W1) [2; 2; 2; 2; 2; 2; 2; 2; 2; 2; 4] s /\ cn s = 50) /\
  (Ex (fmap (rank_of 30 true) (exec W1)) == inject_Z 31)%Q.
Proof.
  split; [exact W1_wf|]. split.
  - destruct witness1_values as (ar & s & H & P & E & _ & A & _). exists s. split; [|exact A].
    rewrite <- E. exact P.
  - rewrite (rank_unbiased 30 true W1 W1_wf).
    match goal with |- (inject_Z ?X == _)%Q => assert (E : X = 31) by (vm_compute; reflexivity); rewrite E end.
    reflexivity.
Qed.

Print Assumptions C08_cq_halve_pair.
Print Assumptions C08_cq_stride_sum.
Print Assumptions C08_cq_zip_sizes.
Print Assumptions C08_cq_update_unbiased.
Print Assumptions C08_cq_merge_unbiased.
Print Assumptions C08_cq_estimator_unbiased.
Print Assumptions C08_cq_Mart_is_expectation.
Print Assumptions C08_cq_rank_unbiased.
Print Assumptions C08_cq_draws_independent_of_outcomes.
Print Assumptions C08_cq_draws_independent_of_items.
Print Assumptions C08_cq_replay_consumes_draws.
Print Assumptions C08_cq_script_states_reachable.
Print Assumptions C08_cq_script_estimator_unbiased.
Print Assumptions C08_cq_script_rank_unbiased.
Print Assumptions C08_cq_script_draws_independent_of_outcomes.
