(* DensityDefs.v — executable model of density/include/density_sketch_impl.hpp (no proofs here), i.e. of the code WITH the
   repairs /verif/fixes/20_*.patch (is_empty() <=> n_ == 0 and the readers keep level 0; dimension check in get_estimate;
   serialize(header); bounds/stream checks in the readers); the behaviour before the repairs is in Regression_density.v.
   A point is a list of integer coordinates; the kernel is an ARBITRARY function
   point -> point -> Z (the concrete instances below are scaled by 2^20 so that the
   harness kernels, which only return small dyadic values, are represented exactly).
   Every random choice of the implementation (the first sign bit and the Fisher-Yates
   indices of compact_level) is read from an environment [env]; a draw from an
   exhausted environment yields 0 and raises the flag [e_short], so that the model is a
   total function of (operations, choice sequence) and the theorems quantify over all
   choice sequences.  The two while-loops of the code (update, merge) are iterated with
   a fuel of 2^depth steps, depth computed from the retained count; DensityProofs.v shows
   the fuel is never exhausted. *)
From Coq Require Import ZArith NArith List Bool.
From DS Require Import RunnerLib.
Import ListNotations.
Local Open Scope Z_scope.

Definition point := list Z.

(* ---- environment of choices ---- *)
Record env := { e_toks : list Z; e_short : bool }.
Definition draw (e : env) : Z * env :=
  match e_toks e with
  | [] => (0, {| e_toks := []; e_short := true |})
  | v :: t => (v, {| e_toks := t; e_short := e_short e |})
  end.

(* ---- while loops ---- *)
Section While.
  Variable S : Type.
  Variable cond : S -> bool.
  Variable body : S -> S.
  (* at most f iterations *)
  Fixpoint while_fuel (f : nat) (s : S) : S :=
    match f with
    | O => s
    | Datatypes.S f' => if cond s then while_fuel f' (body s) else s
    end.
  (* at most 2^n iterations, in recursion depth n *)
  Fixpoint while_pow (n : nat) (s : S) : S :=
    match n with
    | O => if cond s then body s else s
    | Datatypes.S n' => let s' := while_pow n' s in if cond s' then while_pow n' s' else s'
    end.
End While.

Section Abstract.
  Variable K : point -> point -> Z.           (* ANY kernel *)

  Record ds := { d_k : Z; d_dim : Z; d_ret : Z; d_n : Z; d_levels : list (list point) }.

  Definition ds_new (k dim : Z) : ds :=
    {| d_k := k; d_dim := dim; d_ret := 0; d_n := 0; d_levels := [[]] |}.

  Definition total (ls : list (list point)) : nat := length (concat ls).

  (* -- compact_level -- *)
  Definition swap (l : list point) (i j : nat) : list point :=
    upd_nth i (fun _ => nth j l []) (upd_nth j (fun _ => nth i l []) l).

  (* for (i = size; i > 1; --i) swap(level[i-1], level[index(i)]) *)
  Fixpoint fy (i : nat) (l : list point) (e : env) : list point * env :=
    match i with
    | Datatypes.S (Datatypes.S _ as i') =>
        let (v, e') := draw e in
        let j := Z.to_nat (v mod Z.of_nat i) in
        fy i' (swap l i' j) e'
    | _ => (l, e)
    end.

  Definition sgn (b : bool) : Z := if b then 1 else -1.

  (* delta += (bits[j] ? 1 : -1) * kernel(level[i], level[j]), j < i *)
  Definition delta (p : point) (done : list (point * bool)) : Z :=
    fold_left (fun acc qb => acc + sgn (snd qb) * K p (fst qb)) done 0.

  (* bits[i] = delta < 0 *)
  Fixpoint signs (done : list (point * bool)) (rest : list point) : list (point * bool) :=
    match rest with
    | [] => done
    | p :: t => signs (done ++ [(p, delta p done <? 0)]) t
    end.

  Definition assign (b0 : bool) (l : list point) : list (point * bool) :=
    match l with
    | [] => []
    | p0 :: t => signs [(p0, b0)] t
    end.

  (* the core of compact_level on one level: (promoted points in order, number dropped) *)
  Definition compact_one (l : list point) (e : env) : list point * Z * env :=
    let (b, e1) := draw e in
    let (sh, e2) := fy (length l) l e1 in
    let pb := assign (Z.odd b) sh in
    (map fst (filter (fun x => snd x) pb),
     Z.of_nat (length (filter (fun x => negb (snd x)) pb)), e2).

  (* compact(): first level with size >= k; a new level is pushed if it is the last one;
     the level is emptied, the promoted points are appended to the next level *)
  Fixpoint compact_ls (k : Z) (ls : list (list point)) (e : env) : list (list point) * Z * env :=
    match ls with
    | [] => ([], 0, e)
    | l :: t =>
        if k <=? Z.of_nat (length l) then
          let '(prom, dropped, e') := compact_one l e in
          match t with
          | [] => ([[]; prom], dropped, e')
          | l1 :: t' => ([] :: (l1 ++ prom) :: t', dropped, e')
          end
        else
          let '(t', dropped, e') := compact_ls k t e in (l :: t', dropped, e')
    end.

  Definition compact (se : ds * env) : ds * env :=
    let (s, e) := se in
    let '(ls, dropped, e') := compact_ls (d_k s) (d_levels s) e in
    ({| d_k := d_k s; d_dim := d_dim s; d_ret := d_ret s - dropped; d_n := d_n s; d_levels := ls |}, e').

  (* num_retained_ >= k_ * levels_.size() *)
  Definition over (se : ds * env) : bool :=
    d_k (fst se) * Z.of_nat (length (d_levels (fst se))) <=? d_ret (fst se).

  Definition depth (s : ds) : nat := Z.to_nat (2 * Z.log2_up (d_ret s + 1)).

  Definition run_compactions (s : ds) (e : env) : ds * env :=
    while_pow _ over compact (depth s) (s, e).

  (* -- update -- *)
  Definition push0 (p : point) (ls : list (list point)) : list (list point) :=
    match ls with
    | [] => []
    | l :: t => (l ++ [p]) :: t
    end.

  Definition ds_update (s : ds) (p : point) (e : env) : option (ds * env) :=
    if Z.of_nat (length p) =? d_dim s then
      let (s1, e1) := run_compactions s e in
      Some ({| d_k := d_k s1; d_dim := d_dim s1; d_ret := d_ret s1 + 1; d_n := d_n s1 + 1;
               d_levels := push0 p (d_levels s1) |}, e1)
    else None.

  (* -- merge -- *)
  Fixpoint zip_app (a b : list (list point)) : list (list point) :=
    match a, b with
    | la :: ta, lb :: tb => (la ++ lb) :: zip_app ta tb
    | [], _ => b
    | _, [] => a
    end.

  Definition ds_merge (s o : ds) (e : env) : option (ds * env) :=
    if d_n o =? 0 then Some (s, e)                        (* other.is_empty() <=> other.n_ == 0: ignored, before the dimension check *)
    else if negb (d_dim o =? d_dim s) then None
    else Some (run_compactions
                 {| d_k := d_k s; d_dim := d_dim s; d_ret := d_ret s + d_ret o; d_n := d_n s + d_n o;
                    d_levels := zip_app (d_levels s) (d_levels o) |} e).

  (* -- estimate: numerator sum_h sum_{p in level h} 2^h K(p, q); the estimate is num / n -- *)
  Definition level_sum (q : point) (w : Z) (l : list point) : Z :=
    fold_left (fun acc p => acc + w * K p q) l 0.
  Fixpoint est_levels (q : point) (w : Z) (ls : list (list point)) : Z :=
    match ls with
    | [] => 0
    | l :: t => level_sum q w l + est_levels q (2 * w) t
    end.
  Definition est_num (s : ds) (q : point) : Z := est_levels q 1 (d_levels s).
  Definition ds_estimate (s : ds) (q : point) : option (Z * Z) :=
    if d_n s =? 0 then None                                      (* is_empty() <=> n_ == 0 *)
    else if negb (Z.of_nat (length q) =? d_dim s) then None      (* dimension check, as in update *)
    else Some (est_num s q, d_n s).

  (* -- iterator: every point with weight 2^level -- *)
  Fixpoint iter_levels (w : Z) (ls : list (list point)) : list (point * Z) :=
    match ls with
    | [] => []
    | l :: t => map (fun p => (p, w)) l ++ iter_levels (2 * w) t
    end.
  Definition ds_iterate (s : ds) : list (point * Z) := iter_levels 1 (d_levels s).

  (* -- serialize / deserialize round trip, as coded: an empty (n = 0) sketch is written without
        num_retained, n and levels; the reader stops reading levels once num_retained points were read
        (trailing empty levels are dropped) and keeps at least level 0.  DensityCodecProofs.v shows that this is
        what the byte-level decoder makes of the byte-level encoder's image. -- *)
  Fixpoint take_levels (r : Z) (ls : list (list point)) : list (list point) :=
    if r <=? 0 then [] else
    match ls with
    | [] => []
    | l :: t => l :: take_levels (r - Z.of_nat (length l)) t
    end.
  Definition ensure1 (ls : list (list point)) : list (list point) :=
    match ls with [] => [[]] | _ => ls end.
  Definition ds_roundtrip (s : ds) : ds :=
    if d_n s =? 0 then ds_new (d_k s) (d_dim s)
    else {| d_k := d_k s; d_dim := d_dim s; d_ret := d_ret s; d_n := d_n s;
            d_levels := ensure1 (take_levels (d_ret s) (d_levels s)) |}.

  (* ---- histories: merge trees of updates, for the theorems ---- *)
  Inductive hist : Type :=
  | HNew (k dim : Z)
  | HUpd (h : hist) (p : point) (e : env)
  | HMerge (h1 h2 : hist) (e : env).

  (* a refused operation leaves the sketch unchanged *)
  Fixpoint eval (h : hist) : ds :=
    match h with
    | HNew k dim => ds_new k dim
    | HUpd h p e => match ds_update (eval h) p e with Some (s, _) => s | None => eval h end
    | HMerge h1 h2 e => match ds_merge (eval h1) (eval h2) e with Some (s, _) => s | None => eval h1 end
    end.

  (* the input stream of a history (ghost): accepted points in order; an accepted merge
     concatenates the streams *)
  Fixpoint inputs (h : hist) : list point :=
    match h with
    | HNew _ _ => []
    | HUpd h p e => match ds_update (eval h) p e with Some _ => inputs h ++ [p] | None => inputs h end
    | HMerge h1 h2 e => match ds_merge (eval h1) (eval h2) e with
                        | Some _ => inputs h1 ++ inputs h2
                        | None => inputs h1
                        end
    end.
End Abstract.


(* ---------------------------------------------------------------------------------------------- *)
(* Serialized image (density_sketch_impl.hpp: layout comment, serialize, deserialize).             *)
(* The codec works on sketches in WIRE FORM: every coordinate is the 64-bit pattern of the double.  *)
(* [to_wire]/[of_wire] convert between integer coordinates (the form the kernels of this file use)  *)
(* and patterns; DensityCodecProofs.v proves they are inverse for |c| < 2^53.                       *)
(* ---------------------------------------------------------------------------------------------- *)
Fixpoint le_bytes (n : nat) (x : Z) : list Z :=
  match n with O => [] | S n' => x mod 256 :: le_bytes n' (x / 256) end.
Fixpoint le_val (bs : list Z) : Z :=
  match bs with [] => 0 | b :: t => b + 256 * le_val t end.

Definition enc_point (p : point) : list Z := concat (map (le_bytes 8) p).
Definition enc_level (l : list point) : list Z :=
  le_bytes 4 (Z.of_nat (length l)) ++ concat (map enc_point l).
(* preamble_ints, serial version 1, family 19, flags, k (u16), 2 unused bytes, dim (u32) *)
Definition enc_header (pre flags : Z) (s : ds) : list Z :=
  [pre; 1; 19; flags] ++ le_bytes 2 (d_k s) ++ [0; 0] ++ le_bytes 4 (d_dim s).
Definition enc (s : ds) : list Z :=
  if d_n s =? 0 then enc_header 3 4 s                       (* is_empty(): short preamble, flag 1 << IS_EMPTY *)
  else enc_header 6 0 s ++ le_bytes 4 (d_ret s) ++ le_bytes 8 (d_n s) ++ concat (map enc_level (d_levels s)).
(* serialize(header_size_bytes): h reserved zero bytes, then the image *)
Definition enc_hdr (h : Z) (s : ds) : list Z := repeat 0 (Z.to_nat h) ++ enc s.

(* -- reader: a parser returns the value and the unread rest -- *)
Definition parser (A : Type) := list Z -> option (A * list Z).
Definition pret {A} (a : A) : parser A := fun b => Some (a, b).
Definition pbind {A B} (p : parser A) (f : A -> parser B) : parser B :=
  fun b => match p b with Some (a, r) => f a r | None => None end.
Fixpoint take_n (n : nat) : parser (list Z) :=
  fun b => match n with
           | O => Some ([], b)
           | S n' => match b with
                     | [] => None
                     | x :: t => match take_n n' t with Some (l, r) => Some (x :: l, r) | None => None end
                     end
           end.
Definition rd (n : nat) : parser Z := pbind (take_n n) (fun l => pret (le_val l)).
(* ensure_minimum_memory(remaining, m) of the bytes path; the stream path (la = false) has no such look-ahead *)
Definition need (la : bool) (m : Z) : parser unit :=
  fun b => if la && (Z.of_nat (length b) <? m) then None else Some (tt, b).
Definition guard (c : bool) : parser unit := fun b => if c then Some (tt, b) else None.

Fixpoint rd_words (n : nat) : parser (list Z) :=
  match n with
  | O => pret []
  | S n' => pbind (rd 8) (fun w => pbind (rd_words n') (fun t => pret (w :: t)))
  end.
Fixpoint rd_points (c : nat) (dim : nat) : parser (list point) :=
  match c with
  | O => pret []
  | S c' => pbind (rd_words dim) (fun p => pbind (rd_points c' dim) (fun t => pret (p :: t)))
  end.
(* while (num_to_read > 0) { level_size; ensure(level_size * pt_size); points; num_to_read -= level_size }
   followed by "if (num_to_read != 0) throw".  Every iteration reads the 4-byte level size, so [fuel] = number of
   input bytes is never exhausted (DensityCodecProofs.rd_levels_fuel). *)
Fixpoint rd_levels (la : bool) (fuel : nat) (dim : Z) (to_read : Z) : parser (list (list point)) :=
  if to_read <=? 0 then pbind (guard (to_read =? 0)) (fun _ => pret [])
  else match fuel with
       | O => fun _ => None
       | S f =>
           pbind (rd 4) (fun c =>
           pbind (need la (c * (8 * dim))) (fun _ =>
           pbind (rd_points (Z.to_nat c) (Z.to_nat dim)) (fun l =>
           pbind (rd_levels la f dim (to_read - c)) (fun t => pret (l :: t)))))
       end.

Notation "x <- p ;; q" := (pbind p (fun x => q)) (at level 61, p at next level, right associativity).

(* the 12 bytes every image starts with and the checks made on them: k, dim, empty flag *)
Definition dec_head (la : bool) : parser (Z * Z * bool) :=
  _ <- need la 12 ;;
  pre <- rd 1 ;; ver <- rd 1 ;; fam <- rd 1 ;; flags <- rd 1 ;; k <- rd 2 ;; _ <- rd 2 ;; dim <- rd 4 ;;
  _ <- guard (2 <=? k) ;;                                             (* check_k *)
  _ <- guard (ver =? 1) ;;                                            (* check_serial_version *)
  _ <- guard (fam =? 19) ;;                                           (* check_family_id *)
  let empty := Z.testbit flags 2 in
  _ <- guard ((empty && (pre =? 3)) || (negb empty && (pre =? 6))) ;; (* check_header_validity *)
  pret (k, dim, empty).

Definition dec_body (la : bool) (fuel : nat) (k dim : Z) : parser ds :=
  _ <- need la 12 ;;                                                  (* PREAMBLE_INTS_LONG * 4 = 24 bytes in total *)
  ret <- rd 4 ;; n <- rd 8 ;;
  _ <- need la (ret * (8 * dim)) ;;
  ls <- rd_levels la fuel dim ret ;;
  pret {| d_k := k; d_dim := dim; d_ret := ret; d_n := n; d_levels := ensure1 ls |}.

Definition dec_p (la : bool) (fuel : nat) : parser ds :=
  h <- dec_head la ;;
  let '(k, dim, empty) := h in
  if empty then pret (ds_new k dim) else dec_body la fuel k dim.

(* deserialize(bytes, size) [la = true] and deserialize(istream) [la = false]: the sketch and the unread rest *)
Definition dec (la : bool) (b : list Z) : option (ds * list Z) := dec_p la (length b) b.

(* -- doubles with integer values <-> their IEEE-754 binary64 patterns (exact for |z| < 2^53) -- *)
Definition dbits (z : Z) : Z :=
  if z =? 0 then 0 else
  let a := Z.abs z in
  let e := Z.log2 a in
  (if z <? 0 then 2 ^ 63 else 0) + (e + 1023) * 2 ^ 52 + (a - 2 ^ e) * 2 ^ (52 - e).
Definition dint (w : Z) : option Z :=
  if w =? 0 then Some 0 else
  let sg := w / 2 ^ 63 in
  let e := (w / 2 ^ 52) mod 2048 - 1023 in
  let m := w mod 2 ^ 52 in
  if (0 <=? e) && (e <=? 52) && (m mod 2 ^ (52 - e) =? 0) && (sg <=? 1) && (0 <=? w)
  then Some ((if sg =? 1 then -1 else 1) * (2 ^ e + m / 2 ^ (52 - e))) else None.

Fixpoint opt_all {A B} (f : A -> option B) (l : list A) : option (list B) :=
  match l with
  | [] => Some []
  | x :: t => match f x, opt_all f t with Some y, Some t' => Some (y :: t') | _, _ => None end
  end.

Definition map_levels (f : Z -> Z) (ls : list (list point)) : list (list point) := map (map (map f)) ls.
Definition to_wire (s : ds) : ds :=
  {| d_k := d_k s; d_dim := d_dim s; d_ret := d_ret s; d_n := d_n s; d_levels := map_levels dbits (d_levels s) |}.
Definition of_wire (w : ds) : option ds :=
  match opt_all (opt_all (opt_all dint)) (d_levels w) with
  | Some ls => Some {| d_k := d_k w; d_dim := d_dim w; d_ret := d_ret w; d_n := d_n w; d_levels := ls |}
  | None => None
  end.

(* ---- concrete kernels (scaled by 2^20) and line protocol ---- *)
Definition scale : Z := 1048576.

Definition l1 (a b : point) : Z :=
  fold_left (fun acc xy => acc + Z.abs (fst xy - snd xy)) (combine a b) 0.

(* kind 0: harness kernel 2^-L1(a,b) if L1 <= 20, else exactly 0 (compact support) *)
Definition kern0 (a b : point) : Z :=
  let d := l1 a b in if d <=? 20 then 2 ^ (20 - d) else 0.
(* kind 1: signed, asymmetric harness kernel: sign by the parity of the first coordinate of the FIRST argument *)
Definition kern1 (a b : point) : Z :=
  let d := Z.min (l1 a b) 20 in
  let s := match a with x :: _ => if Z.odd x then -1 else 1 | [] => 1 end in
  s * 2 ^ (20 - d).
(* kind 2: the library's gaussian_kernel<double> restricted to points of the lattice 40 Z^d:
   exp(-0) = 1 for equal points, exp(-x) = 0 for x >= 1600 *)
Definition kern2 (a b : point) : Z :=
  if forallb (fun xy => fst xy =? snd xy) (combine a b) then scale else 0.

(* the harness kernels carry a runtime parameter (their state, handed to the sketch through the public constructor):
   the radius r beyond which kind 0 is exactly 0 / at which kind 1 saturates.  kern0 = kern0r 20, kern1 = kern1r 20. *)
Definition kern0r (r : Z) (a b : point) : Z :=
  let d := l1 a b in if d <=? r then 2 ^ (20 - d) else 0.
Definition kern1r (r : Z) (a b : point) : Z :=
  let d := Z.min (l1 a b) r in
  let s := match a with x :: _ => if Z.odd x then -1 else 1 | [] => 1 end in
  s * 2 ^ (20 - d).

(* kernel code of a register: kind = code mod 4, parameter = code / 4, radius = 20 - parameter (0 <= parameter <= 15) *)
Definition kern (code : Z) : point -> point -> Z :=
  let r := 20 - code / 4 in
  match code mod 4 with
  | 0 => kern0r r
  | 1 => kern1r r
  | _ => kern2
  end.

(* register: kernel kind, sketch, ghost log of all inputs, ghost flag "some compaction happened in the history",
   ghost count of inputs that came in through a merge source with num_retained = 0 (the sources that the code
   before the repair "is_empty() <=> n_ == 0" skipped; only used by the oracle to name that failure) *)
Record full := { f_kind : Z; f_ds : ds; f_log : list point; f_cnt : Z; f_comp : bool; f_lost : Z }.
(* ghost: f_cnt is the number of inputs (updates + merged sketches), an unbounded integer; f_log lists them only while
   there are at most [log_cap] (a history that merges copies of itself reaches 2^40 inputs); beyond that the log is
   dropped and f_comp is set, which switches off the exact-mean predicate, the only user of the log *)
Definition log_cap : Z := 4096.
Definition cap_log (cnt : Z) (l : list point) : list point := if log_cap <? cnt then [] else l.

Definition mk_env (e : line) : env := {| e_toks := e; e_short := false |}.
Definition env_ok (e : env) : bool := negb (e_short e) && match e_toks e with [] => true | _ => false end.

(* did the compaction loop run at least once?  (it runs iff the loop condition holds on entry) *)
Definition will_compact (s : ds) : bool := over (s, mk_env []).

(* sorted flattening of the iterator: entries (weight :: coordinates), lexicographic *)
Fixpoint lex_leb (a b : list Z) : bool :=
  match a, b with
  | [], _ => true
  | _ :: _, [] => false
  | x :: a', y :: b' => if x <? y then true else if y <? x then false else lex_leb a' b'
  end.
Fixpoint insert_sorted (x : list Z) (l : list (list Z)) : list (list Z) :=
  match l with
  | [] => [x]
  | y :: t => if lex_leb x y then x :: l else y :: insert_sorted x t
  end.
Definition isort (l : list (list Z)) : list (list Z) := fold_right insert_sorted [] l.

Definition abs_kern (kind : Z) (a b : point) : Z := Z.abs (kern kind a b).

(* result of a deserialization: R = 1, bytes consumed (stream path; 0 on the bytes path), k, dim, num_retained, n,
   is_estimation_mode, then the iteration in order (weight, coordinate patterns); the register is set when every
   coordinate is an integer-valued double (the form the kernels of this model understand), dropped otherwise *)
Definition decode_into (s : list (Z * full)) (r2 kind path : Z) (b : list Z) : list (Z * full) * outline :=
  match dec (path =? 0) b with
  | None => (s, (refused, []))
  | Some (w, rest) =>
      let used := if path =? 0 then 0 else Z.of_nat (length b) - Z.of_nat (length rest) in
      let R := [1; used; d_k w; d_dim w; d_ret w; d_n w; bz (1 <? Z.of_nat (length (d_levels w)))] ++
               concat (map (fun pw => snd pw :: fst pw) (ds_iterate w)) in
      match of_wire w with
      | Some d => (reg_set s r2 {| f_kind := kind; f_ds := d; f_log := []; f_cnt := d_n d; f_comp := true; f_lost := 0 |}, (R, []))
      | None => (reg_del s r2, (R, []))
      end
  end.

Definition step (s : list (Z * full)) (o el : line) : list (Z * full) * outline :=
  let e := mk_env el in
  let noenv (r : list (Z * full) * outline) : list (Z * full) * outline :=
      match el with [] => r | _ => (s, ([-3], [])) end in
  match o with
  | 1 :: r :: k :: dim :: kind :: _ =>               (* new sketch; check_k *)
      noenv (if k <? 2 then (s, (refused, []))
             else (reg_set s r {| f_kind := kind; f_ds := ds_new k dim; f_log := []; f_cnt := 0; f_comp := false; f_lost := 0 |},
                   (ok, [])))
  | 2 :: r :: p =>                                    (* update *)
      match reg_get s r with
      | Some f =>
          match ds_update (kern (f_kind f)) (f_ds f) p e with
          | Some (d', e') =>
              if env_ok e' then
                (reg_set s r {| f_kind := f_kind f; f_ds := d'; f_log := cap_log (f_cnt f + 1) (f_log f ++ [p]); f_cnt := f_cnt f + 1;
                                f_comp := f_comp f || will_compact (f_ds f) || (log_cap <? f_cnt f + 1); f_lost := f_lost f |}, (ok, []))
              else (s, ([-3], []))
          | None => noenv (s, (refused, []))
          end
      | None => noenv (s, (refused, []))
      end
  | 3 :: r :: r2 :: _ =>                              (* merge r2 into r *)
      match reg_get s r, reg_get s r2 with
      | Some f, Some g =>
          if negb (f_kind f =? f_kind g) then noenv (s, (refused, [])) else
          match ds_merge (kern (f_kind f)) (f_ds f) (f_ds g) e with
          | Some (d', e') =>
              if env_ok e' then
                let ign := d_n (f_ds g) =? 0 in
                let zr := d_ret (f_ds g) =? 0 in
                let merged := {| d_k := d_k (f_ds f); d_dim := d_dim (f_ds f); d_ret := d_ret (f_ds f) + d_ret (f_ds g);
                                 d_n := d_n (f_ds f) + d_n (f_ds g);
                                 d_levels := zip_app (d_levels (f_ds f)) (d_levels (f_ds g)) |} in
                (reg_set s r {| f_kind := f_kind f; f_ds := d'; f_log := if log_cap <? f_cnt f + f_cnt g then [] else f_log f ++ f_log g;
                                f_cnt := f_cnt f + f_cnt g;
                                f_comp := f_comp f || f_comp g || (negb ign && will_compact merged) || (log_cap <? f_cnt f + f_cnt g);
                                f_lost := f_lost f + (if zr then f_cnt g else f_lost g) |},
                 (ok, []))
              else (s, ([-3], []))
          | None => noenv (s, (refused, []))
          end
      | _, _ => noenv (s, (refused, []))
      end
  | 4 :: r :: _ =>                                    (* getters; S: true n, lost, compacted, levels *)
      noenv match reg_get s r with
      | Some f =>
          let d := f_ds f in
          (s, ([d_n d; d_ret d; bz (1 <? Z.of_nat (length (d_levels d))); bz (d_n d =? 0); d_k d; d_dim d],
               [f_cnt f; f_lost f; bz (f_comp f); Z.of_nat (length (d_levels d))]))
      | None => (s, (refused, []))
      end
  | 5 :: r :: q =>                                    (* estimate; S: num, den, abs num, terms, exact num, exact den, compacted *)
      noenv match reg_get s r with
      | Some f =>
          let d := f_ds f in
          let kd := f_kind f in
          let spec := [est_num (kern kd) d q; d_n d * scale; est_num (abs_kern kd) d q; d_ret d;
                       level_sum (kern kd) q 1 (f_log f); f_cnt f * scale; bz (f_comp f);
                       d_dim d] in
          match ds_estimate (kern kd) d q with
          | Some _ => (s, (ok, spec))
          | None => (s, (refused, spec))
          end
      | None => (s, (refused, []))
      end
  | 6 :: r :: _ =>                                    (* iterate: retained, count, then sorted (weight, coordinates) *)
      noenv match reg_get s r with
      | Some f =>
          let it := ds_iterate (f_ds f) in
          (s, (d_ret (f_ds f) :: Z.of_nat (length it) :: concat (isort (map (fun pw => snd pw :: fst pw) it)), []))
      | None => (s, (refused, []))
      end
  | 7 :: r :: r2 :: _ =>                              (* serialize r, deserialize into r2 *)
      noenv match reg_get s r with
      | Some f =>
          let d := ds_roundtrip (f_ds f) in
          let fresh := d_n (f_ds f) =? 0 in
          (reg_set s r2 {| f_kind := f_kind f; f_ds := d; f_log := if fresh then [] else f_log f; f_cnt := if fresh then 0 else f_cnt f;
                           f_comp := if fresh then false else f_comp f; f_lost := if fresh then 0 else f_lost f |},
           (ok, []))
      | None => (s, (refused, []))
      end
  | 8 :: r :: path :: h :: _ =>                       (* serialize: bytes path with h header bytes (path 0) or stream (path 1) *)
      noenv match reg_get s r with
      | Some f => (s, (1 :: enc_hdr (if path =? 0 then h else 0) (to_wire (f_ds f)), []))
      | None => (s, (refused, []))
      end
  | 10 :: r2 :: kind :: path :: b =>                  (* deserialize the given bytes (path 0: bytes, 1: stream) into r2 *)
      noenv (decode_into s r2 kind path b)
  | 11 :: r :: r2 :: path :: cut :: extra =>          (* deserialize (first cut bytes of, if cut >= 0) serialize(r) ++ extra *)
      noenv match reg_get s r with
      | Some f =>
          let img := enc (to_wire (f_ds f)) in
          let img := if cut <? 0 then img else firstn (Z.to_nat cut) img in
          decode_into s r2 (f_kind f) path (img ++ extra)
      | None => (s, (refused, []))
      end
  | 98 :: _ => noenv (s, (ok, []))                    (* scripted draws: harness only *)
  | 99 :: _ => noenv (s, (ok, []))                    (* reseed: harness only *)
  | _ => (s, ([-2], []))
  end.

Definition run (ops : list opline) : list outline := run_case step [] ops.
