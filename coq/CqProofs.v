(* CqProofs.v — lemmas about the classic quantiles model (CqDefs.v): choice monad, sorted runs, zip / zip with stride,
   carry propagation, invariants of update and of every merge case for every outcome of the random choices,
   reachable states. *)
From Coq Require Import ZArith List Bool Lia Permutation Sorted.
From DS Require Import RunnerLib SortedView CqDefs.
Import ListNotations.
Local Open Scope Z_scope.

(* ===================== choice monad ===================== *)
(* [leaf m a]: a is the result of m under some outcome of its draws (each outcome within the arity of its draw) *)
Inductive leaf {A} : M A -> A -> Prop :=
| leaf_ret a : leaf (Ret a) a
| leaf_draw n k c a : 0 <= c < n -> leaf (k c) a -> leaf (Draw n k) a.

Lemma leaf_ret_inv {A} (a b : A) : leaf (Ret a) b -> b = a.
Proof. inversion 1; auto. Qed.

Lemma leaf_draw_inv {A} n (k : Z -> M A) b : leaf (Draw n k) b -> exists c, 0 <= c < n /\ leaf (k c) b.
Proof.
  inversion 1; subst.
  match goal with H : existT _ _ _ = existT _ _ _ |- _ => idtac | _ => idtac end.
  eauto.
Qed.

Lemma leaf_bind {A B} (m : M A) (f : A -> M B) b :
  leaf (bind m f) b <-> exists a, leaf m a /\ leaf (f a) b.
Proof.
  split.
  - revert b; induction m as [a|n k IH]; simpl; intros b H.
    + exists a; split; [constructor|assumption].
    + apply leaf_draw_inv in H as (c & Hc & H). apply IH in H as (a & H1 & H2).
      exists a; split; [econstructor; eassumption|assumption].
  - intros (a & H1 & H2). induction H1; simpl; auto. econstructor; eauto.
Qed.

(* every outcome the runner can produce from reported draws is a leaf *)
Lemma replay_leaf {A} (m : M A) : forall cs a r, replay m cs = Some (a, r) -> leaf m a.
Proof.
  induction m as [a0|n k IH]; simpl; intros cs a r H.
  - inversion H; subst; constructor.
  - destruct cs as [|c cs]; [discriminate|].
    destruct ((0 <=? c) && (c <? n)) eqn:E; [|discriminate].
    apply andb_true_iff in E as [E1 E2]. apply Z.leb_le in E1. apply Z.ltb_lt in E2.
    econstructor; [split; eassumption|]. eapply IH; eauto.
Qed.

(* ===================== lists ===================== *)
Notation ssorted := (StronglySorted Z.le).

Definition cnt (p : Z -> bool) (l : list Z) : Z := count_if p l.

Lemma len_nil {A} : len (@nil A) = 0. Proof. reflexivity. Qed.
Lemma len_cons {A} (x : A) l : len (x :: l) = 1 + len l.
Proof. unfold len. simpl length. lia. Qed.
Lemma len_app {A} (a b : list A) : len (a ++ b) = len a + len b.
Proof. unfold len. rewrite app_length. lia. Qed.
Lemma len_nonneg {A} (l : list A) : 0 <= len l. Proof. unfold len; lia. Qed.
Lemma len_zero_nil {A} (l : list A) : len l = 0 -> l = [].
Proof. destruct l; [reflexivity|rewrite len_cons; pose proof (len_nonneg l); lia]. Qed.

Lemma cnt_nil p : cnt p [] = 0. Proof. reflexivity. Qed.
Lemma cnt_cons p x l : cnt p (x :: l) = (if p x then 1 else 0) + cnt p l.
Proof. unfold cnt, count_if. cbn [filter]. destruct (p x); [rewrite len_cons|]; lia. Qed.
Lemma cnt_app p a b : cnt p (a ++ b) = cnt p a + cnt p b.
Proof. induction a as [|x a IH]; [rewrite cnt_nil; simpl; lia|]. simpl app. rewrite !cnt_cons, IH. lia. Qed.
Lemma cnt_perm p a b : Permutation a b -> cnt p a = cnt p b.
Proof. induction 1; rewrite ?cnt_cons; lia. Qed.
Lemma cnt_nonneg p l : 0 <= cnt p l.
Proof. unfold cnt, count_if. apply len_nonneg. Qed.
Lemma cnt_true l : cnt (fun _ => true) l = len l.
Proof. induction l as [|x l IH]; [reflexivity|]. rewrite cnt_cons, len_cons, IH. lia. Qed.
Lemma cnt_le_len p l : cnt p l <= len l.
Proof. induction l as [|x l IH]; [reflexivity|]. rewrite cnt_cons, len_cons. destruct (p x); lia. Qed.
Lemma cnt_compl p l : cnt p l + cnt (fun y => negb (p y)) l = len l.
Proof. induction l as [|x l IH]; [reflexivity|]. rewrite !cnt_cons, len_cons. destruct (p x); cbn [negb]; lia. Qed.

(* insertion sort *)
Lemma insert_perm x : forall l, Permutation (insert x l) (x :: l).
Proof.
  induction l as [|y r IH]; simpl; auto.
  destruct (x <? y); auto. etransitivity; [apply perm_skip, IH|]. apply perm_swap.
Qed.

Lemma isort_perm : forall l, Permutation (isort l) l.
Proof.
  induction l as [|x r IH]; simpl; auto.
  etransitivity; [apply insert_perm|]. now apply perm_skip.
Qed.

Lemma insert_sorted x : forall l, ssorted l -> ssorted (insert x l).
Proof.
  induction l as [|y r IH]; intro H; simpl.
  - constructor; constructor.
  - inversion H; subst. destruct (Z.ltb_spec x y).
    + constructor; auto. constructor; [lia|]. eapply Forall_impl; [|eassumption]. simpl; intros; lia.
    + constructor; auto. eapply Permutation_Forall; [symmetry; apply insert_perm|]. constructor; auto.
Qed.

Lemma isort_sorted : forall l, ssorted (isort l).
Proof. induction l; simpl; [constructor|]. now apply insert_sorted. Qed.

Lemma isort_length l : length (isort l) = length l.
Proof. apply Permutation_length, isort_perm. Qed.

(* merge_two_size_k_buffers *)
Lemma merge2_nil_l b : merge2 [] b = b.
Proof. destruct b; reflexivity. Qed.
Lemma merge2_nil_r a : merge2 a [] = a.
Proof. destruct a; reflexivity. Qed.

Lemma merge2_perm : forall a b, Permutation (merge2 a b) (a ++ b).
Proof.
  induction a as [|x a IHa]; intro b; [rewrite merge2_nil_l; reflexivity|].
  induction b as [|y b IHb]; [simpl; now rewrite app_nil_r|].
  simpl. destruct (x <? y).
  - simpl. apply perm_skip. apply IHa.
  - etransitivity; [apply perm_skip, IHb|]. apply (Permutation_middle (x :: a) b y).
Qed.

Lemma merge2_sorted : forall a b, ssorted a -> ssorted b -> ssorted (merge2 a b).
Proof.
  induction a as [|x a IHa]; intros b Ha Hb; [now rewrite merge2_nil_l|].
  induction b as [|y b IHb]; [simpl; exact Ha|].
  simpl. inversion Ha as [|? ? Ha' Fa]; inversion Hb as [|? ? Hb' Fb]; subst.
  destruct (Z.ltb_spec x y).
  - constructor; [apply IHa; auto|].
    eapply Permutation_Forall; [symmetry; apply merge2_perm|].
    apply Forall_app; split; auto.
    constructor; [lia|]. eapply Forall_impl; [|exact Fb]. simpl; intros; lia.
  - constructor; [apply IHb; auto|].
    change ((fix inner (b0 : list Z) : list Z :=
               match b0 with [] => x :: a | y0 :: b' => if x <? y0 then x :: merge2 a b0 else y0 :: inner b' end) b)
      with (merge2 (x :: a) b).
    eapply Permutation_Forall; [symmetry; apply merge2_perm|].
    apply Forall_app; split; auto.
    constructor; [lia|]. eapply Forall_impl; [|exact Fa]. simpl; intros; lia.
Qed.

Lemma merge2_length a b : length (merge2 a b) = (length a + length b)%nat.
Proof. rewrite (Permutation_length (merge2_perm a b)). apply app_length. Qed.

Lemma merge2_len a b : len (merge2 a b) = len a + len b.
Proof. unfold len. rewrite merge2_length. lia. Qed.

Lemma cnt_merge2 p a b : cnt p (merge2 a b) = cnt p a + cnt p b.
Proof. rewrite (cnt_perm p _ _ (merge2_perm a b)). apply cnt_app. Qed.

(* ===================== every stride-th item ===================== *)
Lemma every_nil s o : every s o [] = [].
Proof. reflexivity. Qed.

Lemma Forall_every (P : Z -> Prop) s : forall l o, Forall P l -> Forall P (every s o l).
Proof.
  induction l as [|x r IH]; intros o H; [constructor|].
  inversion H; subst. destruct o; simpl; auto.
Qed.

Lemma every_sorted s : forall l o, ssorted l -> ssorted (every s o l).
Proof.
  induction l as [|x r IH]; intros o H; [constructor|].
  inversion H; subst. destruct o; simpl; auto.
  constructor; auto. now apply Forall_every.
Qed.

Lemma every_cnt_le p s : forall l o, cnt p (every s o l) <= cnt p l.
Proof.
  induction l as [|x r IH]; intros o; [simpl; lia|].
  rewrite cnt_cons. destruct o; simpl.
  - rewrite cnt_cons. specialize (IH (pred s)). lia.
  - specialize (IH o). destruct (p x); lia.
Qed.

(* length: ceil ((|l| - o) / stride) for o < stride *)
Lemma every_length m : forall l o, (o <= m)%nat ->
  length (every (S m) o l) = ((length l + (m - o)) / S m)%nat.
Proof.
  induction l as [|x r IH]; intros o H.
  - simpl length. rewrite Nat.div_small by lia. reflexivity.
  - destruct o as [|o]; cbn [every pred length].
    + rewrite IH by lia. rewrite Nat.sub_diag, Nat.add_0_r, Nat.sub_0_r.
      replace (S (length r) + m)%nat with (length r + 1 * S m)%nat by lia.
      rewrite Nat.div_add by lia. lia.
    + rewrite IH by lia. f_equal. lia.
Qed.

Lemma every_length_exact stride o k l : (o < stride)%nat -> length l = (stride * k)%nat ->
  length (every stride o l) = k.
Proof.
  intros Ho Hl. destruct stride as [|m]; [lia|].
  rewrite every_length by lia. rewrite Hl.
  replace (S m * k + (m - o))%nat with ((m - o) + k * S m)%nat by lia.
  rewrite Nat.div_add by lia. rewrite Nat.div_small by lia. reflexivity.
Qed.

(* sum over the offsets *)
Fixpoint zsum (n : nat) (g : nat -> Z) : Z :=
  match n with
  | O => 0
  | S n' => zsum n' g + g n'
  end.

Lemma zsum_ext n g h : (forall i, (i < n)%nat -> g i = h i) -> zsum n g = zsum n h.
Proof. induction n as [|n IH]; intro H; simpl; [reflexivity|]. rewrite IH, H by (intros; auto; lia). reflexivity. Qed.

Lemma zsum_shift n g : zsum (S n) g = g O + zsum n (fun i => g (S i)).
Proof. induction n as [|n IH]; [simpl; lia|]. cbn [zsum] in *. rewrite IH. lia. Qed.

Lemma zsum_const n c : zsum n (fun _ => c) = Z.of_nat n * c.
Proof. induction n as [|n IH]; [reflexivity|]. cbn [zsum]. rewrite IH. lia. Qed.

Lemma zsum_add n g h : zsum n (fun i => g i + h i) = zsum n g + zsum n h.
Proof. induction n as [|n IH]; [reflexivity|]. cbn [zsum]. rewrite IH. lia. Qed.

Lemma zsum_scale n c g : zsum n (fun i => c * g i) = c * zsum n g.
Proof. induction n as [|n IH]; [simpl; lia|]. cbn [zsum]. rewrite IH. lia. Qed.

(* the stride lemma: every item is picked by exactly one offset *)
Lemma every_cnt_sum p m : forall l, zsum (S m) (fun o => cnt p (every (S m) o l)) = cnt p l.
Proof.
  induction l as [|x r IH].
  - rewrite (zsum_ext _ _ (fun _ => 0)) by reflexivity. rewrite zsum_const. rewrite cnt_nil. lia.
  - rewrite zsum_shift. cbn [every pred]. rewrite cnt_cons.
    rewrite cnt_cons. rewrite <- IH. cbn [zsum]. lia.
Qed.

(* the pair lemma: the two halves of a run *)
Lemma every2_cnt p l : cnt p (every 2 0 l) + cnt p (every 2 1 l) = cnt p l.
Proof. rewrite <- (every_cnt_sum p 1 l). simpl. lia. Qed.

(* ===================== bits ===================== *)
Lemma pow2_pos n : 0 < 2 ^ Z.of_nat n.
Proof. apply Z.pow_pos_nonneg; lia. Qed.

Lemma pow2_S n : 2 ^ Z.of_nat (S n) = 2 * 2 ^ Z.of_nat n.
Proof. rewrite Nat2Z.inj_succ, Z.pow_succ_r by lia. reflexivity. Qed.

Lemma odd_div2 z : z = 2 * (z / 2) + (if Z.odd z then 1 else 0).
Proof. rewrite (Z.div2_odd z) at 1. rewrite Z.div2_div. destruct (Z.odd z); simpl; lia. Qed.

(* bitlen z is the least L with z < 2^L *)
Lemma bitlen_0 : bitlen 0 = O.
Proof. reflexivity. Qed.

Lemma bitlen_lt z : 0 <= z -> z < 2 ^ Z.of_nat (bitlen z).
Proof.
  intro H. unfold bitlen. destruct (Z.leb_spec z 0); [simpl; lia|].
  rewrite Nat2Z.inj_succ, Z2Nat.id by (apply Z.log2_nonneg). apply Z.log2_spec. lia.
Qed.

Lemma bitlen_ge z : 0 < z -> 2 ^ (Z.of_nat (bitlen z) - 1) <= z.
Proof.
  intro H. unfold bitlen. destruct (Z.leb_spec z 0); [lia|].
  rewrite Nat2Z.inj_succ, Z2Nat.id by (apply Z.log2_nonneg).
  replace (Z.succ (Z.log2 z) - 1) with (Z.log2 z) by lia. apply Z.log2_spec. lia.
Qed.

Lemma bitlen_least z L : 0 <= z -> z < 2 ^ Z.of_nat L -> (bitlen z <= L)%nat.
Proof.
  intros H0 H. destruct (Z.eq_dec z 0) as [->|N]; [rewrite bitlen_0; lia|].
  pose proof (bitlen_ge z ltac:(lia)) as G.
  destruct (Nat.le_gt_cases (bitlen z) L) as [|Gt]; auto. exfalso.
  assert (2 ^ Z.of_nat L <= 2 ^ (Z.of_nat (bitlen z) - 1)) by (apply Z.pow_le_mono_r; lia). lia.
Qed.

Lemma bitlen_mono a b : 0 <= a <= b -> (bitlen a <= bitlen b)%nat.
Proof. intro H. apply bitlen_least; [lia|]. pose proof (bitlen_lt b ltac:(lia)). lia. Qed.

Lemma bitlen_succ z : 0 <= z -> (bitlen (z + 1) <= S (bitlen z))%nat.
Proof.
  intro H. apply bitlen_least; [lia|]. rewrite pow2_S. pose proof (bitlen_lt z H). pose proof (pow2_pos (bitlen z)). lia.
Qed.

(* check_k accepts exactly the powers of two 2^1 .. 2^15 *)
Lemma land_pred_pow2 k : 0 < k -> Z.land k (k - 1) = 0 -> k = 2 ^ Z.log2 k.
Proof.
  intros Hk HL. pose proof (Z.log2_spec k Hk) as [L1 L2].
  destruct (Z.eq_dec k (2 ^ Z.log2 k)) as [E|N]; auto. exfalso.
  assert (P0 : 0 < 2 ^ Z.log2 k) by (apply Z.pow_pos_nonneg; [lia|apply Z.log2_nonneg]).
  assert (Hj : Z.log2 (k - 1) = Z.log2 k).
  { apply Z.log2_unique; [apply Z.log2_nonneg|]. lia. }
  assert (T1 : Z.testbit k (Z.log2 k) = true) by (apply Z.bit_log2; lia).
  assert (T2 : Z.testbit (k - 1) (Z.log2 k) = true) by (rewrite <- Hj; apply Z.bit_log2; lia).
  assert (T : Z.testbit (Z.land k (k - 1)) (Z.log2 k) = true) by (rewrite Z.land_spec, T1, T2; reflexivity).
  rewrite HL, Z.bits_0 in T. discriminate.
Qed.

Definition valid_k (k : Z) : Prop := exists j, 1 <= j <= 15 /\ k = 2 ^ j.

Lemma check_k_valid k : check_k k = true -> valid_k k.
Proof.
  unfold check_k. rewrite !andb_true_iff, !Z.leb_le, Z.eqb_eq. intros [[H1 H2] H3].
  pose proof (land_pred_pow2 k ltac:(lia) H3) as E. exists (Z.log2 k). split; [|exact E].
  pose proof (Z.log2_nonneg k). split.
  - destruct (Z.eq_dec (Z.log2 k) 0) as [Z0|]; [rewrite Z0 in E; simpl in E; lia|lia].
  - destruct (Z_le_gt_dec (Z.log2 k) 15); auto. exfalso.
    assert (2 ^ 16 <= 2 ^ Z.log2 k) by (apply Z.pow_le_mono_r; lia). change (2 ^ 16) with 65536 in *. lia.
Qed.

Lemma valid_k_pos k : valid_k k -> 2 <= k.
Proof.
  intros (j & Hj & ->). change 2 with (2 ^ 1) at 1. apply Z.pow_le_mono_r; lia.
Qed.

(* ===================== levels ===================== *)
Ltac Zify.zify_post_hook ::= Z.div_mod_to_equations.

Lemma div2_succ_odd z : Z.odd z = true -> (z + 1) / 2 = z / 2 + 1.
Proof. intro O. pose proof (odd_div2 z) as E. rewrite O in E. lia. Qed.
Lemma div2_succ_even z : Z.odd z = false -> (z + 1) / 2 = z / 2.
Proof. intro O. pose proof (odd_div2 z) as E. rewrite O in E. lia. Qed.
Lemma odd_succ z : Z.odd (z + 1) = negb (Z.odd z).
Proof. rewrite Z.odd_add. simpl. destruct (Z.odd z); reflexivity. Qed.
Lemma odd_add_even z e : Z.odd (z + 2 * e) = Z.odd z.
Proof. rewrite Z.odd_add, Z.odd_mul. simpl. destruct (Z.odd z); reflexivity. Qed.
Lemma div2_add_even z e : (z + 2 * e) / 2 = z / 2 + e.
Proof. lia. Qed.

(* the levels against the bit pattern (shifted to the first level of the list): bit set -> k sorted items, bit clear -> empty *)
Fixpoint lv_ok (k bp : Z) (lv : list (list Z)) : Prop :=
  match lv with
  | [] => bp = 0
  | l :: r => (if Z.odd bp then len l = k /\ ssorted l else l = []) /\ lv_ok k (bp / 2) r
  end.

Lemma lv_ok_lt k : forall lv bp, 0 <= bp -> lv_ok k bp lv -> bp < 2 ^ Z.of_nat (length lv).
Proof.
  induction lv as [|l r IH]; intros bp H0 H.
  - simpl in *. subst. lia.
  - destruct H as [_ H]. apply IH in H; [|lia]. cbn [length]. rewrite pow2_S.
    pose proof (odd_div2 bp). destruct (Z.odd bp); lia.
Qed.

Lemma lv_ok_zero k : forall lv, lv_ok k 0 lv -> concat lv = [].
Proof.
  induction lv as [|l r IH]; intro H; [reflexivity|].
  destruct H as [H1 H2]. simpl in H1. subst l. simpl. change (0 / 2) with 0 in H2. auto.
Qed.

Lemma lv_ok_app_empty k m : forall lv bp, lv_ok k bp lv -> lv_ok k bp (lv ++ repeat [] m).
Proof.
  induction lv as [|l r IH]; intros bp H.
  - simpl in H. subst bp. simpl. induction m as [|m IHm]; simpl; auto.
  - destruct H as [H1 H2]. simpl. split; auto.
Qed.

(* weight of the levels: level i (from the head, head weight w) counts w * 2^i per item *)
Fixpoint wlv (w : Z) (lv : list (list Z)) : Z :=
  match lv with
  | [] => 0
  | l :: r => w * len l + wlv (2 * w) r
  end.

Lemma wlv_ok k w : forall lv bp, lv_ok k bp lv -> wlv w lv = w * k * bp.
Proof.
  intros lv. revert w. induction lv as [|l r IH]; intros w bp H.
  - simpl in *. subst. lia.
  - destruct H as [H1 H2]. cbn [wlv]. rewrite (IH _ _ H2).
    pose proof (odd_div2 bp) as E. destruct (Z.odd bp).
    + destruct H1 as [-> _]. nia.
    + subst l. rewrite len_nil. nia.
Qed.

(* number of retained items in the levels *)
Lemma popcount_div2 z : 0 <= z -> popcount z = (if Z.odd z then 1 else 0) + popcount (z / 2).
Proof.
  intro H. rewrite <- Z.div2_div. destruct z as [|p|p]; [reflexivity| |lia].
  destruct p; simpl; lia.
Qed.

Lemma lv_ok_retained k : forall lv bp, 0 <= bp -> lv_ok k bp lv -> len (concat lv) = k * popcount bp.
Proof.
  induction lv as [|l r IH]; intros bp H0 H.
  - simpl in H. subst. simpl. rewrite len_nil. lia.
  - destruct H as [H1 H2]. cbn [concat]. rewrite len_app, (IH (bp / 2) ltac:(lia) H2).
    rewrite (popcount_div2 bp H0).
    destruct (Z.odd bp); [destruct H1 as [-> _]|subst l; rewrite len_nil]; lia.
Qed.

Lemma every_len stride o k l : 0 <= o < stride -> 0 <= k -> len l = stride * k ->
  len (every (Z.to_nat stride) (Z.to_nat o) l) = k.
Proof.
  intros Ho Hk Hl. unfold len in *.
  rewrite (every_length_exact (Z.to_nat stride) (Z.to_nat o) (Z.to_nat k)); lia.
Qed.

(* ---------- one carry ---------- *)
Lemma zip_leaf buf c : leaf (zip buf) c -> exists o, 0 <= o < 2 /\ c = every 2 (Z.to_nat o) buf.
Proof.
  unfold zip. intro H. apply leaf_draw_inv in H as (o & Ho & H). apply leaf_ret_inv in H. eauto.
Qed.

Lemma zip_stride_leaf buf stride c : leaf (zip_stride buf stride) c ->
  exists o, 0 <= o < stride /\ c = every (Z.to_nat stride) (Z.to_nat o) buf.
Proof.
  unfold zip_stride. intro H. apply leaf_draw_inv in H as (o & Ho & H). apply leaf_ret_inv in H. eauto.
Qed.

Lemma carry_in_spec k : 0 < k -> forall lv carry bp lv',
  0 <= bp -> lv_ok k bp lv -> bp + 1 < 2 ^ Z.of_nat (length lv) -> len carry = k -> ssorted carry ->
  leaf (carry_in carry bp lv) lv' ->
  lv_ok k (bp + 1) lv' /\ length lv' = length lv /\
  (forall p, cnt p (concat lv') <= cnt p (concat lv) + cnt p carry).
Proof.
  intro Hk. induction lv as [|l r IH]; intros carry bp lv' H0 Hok Hfit Hc Sc L.
  - simpl in Hfit. lia.
  - cbn [carry_in] in L. destruct Hok as [Hl Hr]. cbn [length] in Hfit. rewrite pow2_S in Hfit.
    pose proof (odd_div2 bp) as E.
    destruct (Z.odd bp) eqn:O.
    + destruct Hl as [Hl Sl].
      apply leaf_bind in L as (c' & L1 & L). apply leaf_bind in L as (r' & L2 & L3). apply leaf_ret_inv in L3. subst lv'.
      apply zip_leaf in L1 as (o & Ho & ->).
      set (c' := every 2 (Z.to_nat o) (merge2 l carry)) in *.
      assert (Hc' : len c' = k).
      { apply (every_len 2 o k); [lia|lia|]. rewrite merge2_len. lia. }
      assert (Sc' : ssorted c') by (apply every_sorted, merge2_sorted; assumption).
      destruct (IH c' (bp / 2) r' ltac:(lia) Hr ltac:(lia) Hc' Sc' L2) as (A & B & C).
      split; [|split].
      * cbn [lv_ok]. rewrite odd_succ, O. cbn [negb]. split; [reflexivity|]. rewrite div2_succ_odd by assumption. exact A.
      * cbn [length]. lia.
      * intro p. cbn [concat]. rewrite cnt_app, cnt_nil. specialize (C p).
        pose proof (every_cnt_le p 2 (merge2 l carry) (Z.to_nat o)) as D. fold c' in D. rewrite cnt_merge2 in D.
        rewrite cnt_app. lia.
    + apply leaf_ret_inv in L. subst lv' l. split; [|split].
      * cbn [lv_ok]. rewrite odd_succ, O. cbn [negb]. split; [split; assumption|]. rewrite div2_succ_even by assumption. exact Hr.
      * reflexivity.
      * intro p. cbn [concat]. rewrite !cnt_app, cnt_nil. lia.
Qed.

Lemma carry_at_spec k : 0 < k -> forall start lv carry bp lv',
  0 <= bp -> lv_ok k bp lv -> bp + 2 ^ Z.of_nat start < 2 ^ Z.of_nat (length lv) -> len carry = k -> ssorted carry ->
  leaf (carry_at start carry bp lv) lv' ->
  lv_ok k (bp + 2 ^ Z.of_nat start) lv' /\ length lv' = length lv /\
  (forall p, cnt p (concat lv') <= cnt p (concat lv) + cnt p carry).
Proof.
  intro Hk. induction start as [|st IH]; intros lv carry bp lv' H0 Hok Hfit Hc Sc L.
  - cbn [carry_at] in L. change (2 ^ Z.of_nat 0) with 1 in *. eapply carry_in_spec; eauto.
  - cbn [carry_at] in L. destruct lv as [|l r].
    + simpl in Hfit. pose proof (pow2_pos (S st)). lia.
    + destruct Hok as [Hl Hr]. cbn [length] in Hfit. rewrite !pow2_S in Hfit.
      apply leaf_bind in L as (r' & L1 & L2). apply leaf_ret_inv in L2. subst lv'.
      destruct (IH r carry (bp / 2) r' ltac:(lia) Hr ltac:(lia) Hc Sc L1) as (A & B & C).
      rewrite pow2_S. split; [|split].
      * cbn [lv_ok]. rewrite odd_add_even, div2_add_even. split; assumption.
      * cbn [length]. lia.
      * intro p. cbn [concat]. rewrite !cnt_app. specialize (C p). lia.
Qed.

(* ===================== the sketch invariant ===================== *)
Definition items (s : cq) : list Z := cbb s ++ concat (clv s).

Record Inv (s : cq) : Prop := mkInv {
  i_k : valid_k (ck s);                                     (* k is a power of two in [2, 2^15] *)
  i_bp : 0 <= cbp s;
  i_n : cn s = 2 * ck s * cbp s + len (cbb s);              (* with i_bb: bit_pattern = n / 2k, |base buffer| = n mod 2k *)
  i_bb : len (cbb s) < 2 * ck s;
  i_lv : lv_ok (ck s) (cbp s) (clv s);                      (* level i: k sorted items if bit i is set, else empty *)
  i_len : length (clv s) = bitlen (cbp s);                  (* levels_.size() = 64 - clz(bit_pattern) *)
  i_srt : csorted s = true -> ssorted (cbb s)
}.

Ltac fields := cbn [ck cn cbp cbb clv cmin cmax csorted set_lv] in *.

Lemma Inv_new k : check_k k = true -> Inv (cq_new k).
Proof.
  intro H. apply check_k_valid in H. pose proof (valid_k_pos _ H).
  constructor; unfold cq_new; fields; auto; try reflexivity; try (unfold len; cbn [length Z.of_nat]; lia).
  intros _. constructor.
Qed.

Lemma Inv_div s : Inv s -> cn s / (2 * ck s) = cbp s /\ cn s mod (2 * ck s) = len (cbb s).
Proof.
  intros [K B N L _ _ _]. apply valid_k_pos in K. pose proof (len_nonneg (cbb s)).
  assert (E : cn s = cbp s * (2 * ck s) + len (cbb s)) by lia.
  split.
  - symmetry. apply (Z.div_unique_pos _ _ _ (len (cbb s))); lia.
  - symmetry. apply (Z.mod_unique_pos _ _ (cbp s)); lia.
Qed.

(* weight conservation: base buffer items weigh 1, level i items weigh 2^(i+1) *)
Lemma Inv_weight s : Inv s -> len (cbb s) + wlv 2 (clv s) = cn s.
Proof. intros [K B N L V _ _]. rewrite (wlv_ok _ _ _ _ V). lia. Qed.

Lemma Inv_retained s : Inv s -> retained s = compute_retained_items (ck s) (cn s).
Proof.
  intro I. destruct (Inv_div s I) as [D1 D2]. destruct I as [K B N L V Ln _].
  unfold retained, compute_retained_items. rewrite D1, D2. f_equal.
  apply (lv_ok_retained _ _ _ B V).
Qed.

(* ---------- in_place_propagate_carry ---------- *)
(* merge mode: buf_k (k sorted items) enters at starting_level *)
Lemma propagate_merge_spec s start bufk s' :
  0 < ck s -> 0 <= cbp s -> lv_ok (ck s) (cbp s) (clv s) ->
  cbp s + 2 ^ Z.of_nat start < 2 ^ Z.of_nat (length (clv s)) -> len bufk = ck s -> ssorted bufk ->
  leaf (propagate start bufk [] false s) s' ->
  s' = set_lv s (clv s') (cbp s + 2 ^ Z.of_nat start) /\
  lv_ok (ck s) (cbp s + 2 ^ Z.of_nat start) (clv s') /\ length (clv s') = length (clv s) /\
  (forall p, cnt p (concat (clv s')) <= cnt p (concat (clv s)) + cnt p bufk).
Proof.
  intros Hk H0 Hok Hfit Hc Sc L. unfold propagate in L. cbn [bind] in L.
  apply leaf_bind in L as (lv' & L1 & L2). apply leaf_ret_inv in L2. subst s'. fields.
  destruct (carry_at_spec (ck s) Hk start (clv s) bufk (cbp s) lv' H0 Hok Hfit Hc Sc L1) as (A & B & C).
  auto.
Qed.

(* update mode: buf_2k (2k sorted items) is zipped into the carry that enters at level 0 *)
Lemma propagate_update_spec s buf s' :
  0 < ck s -> 0 <= cbp s -> lv_ok (ck s) (cbp s) (clv s) ->
  cbp s + 1 < 2 ^ Z.of_nat (length (clv s)) -> len buf = 2 * ck s -> ssorted buf ->
  leaf (propagate 0 [] buf true s) s' ->
  s' = set_lv s (clv s') (cbp s + 1) /\
  lv_ok (ck s) (cbp s + 1) (clv s') /\ length (clv s') = length (clv s) /\
  (forall p, cnt p (concat (clv s')) <= cnt p (concat (clv s)) + cnt p buf).
Proof.
  intros Hk H0 Hok Hfit Hc Sc L. unfold propagate in L.
  apply leaf_bind in L as (c & L0 & L). apply zip_leaf in L0 as (o & Ho & ->).
  apply leaf_bind in L as (lv' & L1 & L2). apply leaf_ret_inv in L2. subst s'. fields.
  set (c := every 2 (Z.to_nat o) buf) in *.
  assert (Hc' : len c = ck s) by (apply (every_len 2 o (ck s)); lia).
  assert (Sc' : ssorted c) by (apply every_sorted; assumption).
  change (2 ^ Z.of_nat 0) with 1.
  destruct (carry_at_spec (ck s) Hk 0 (clv s) c (cbp s) lv' H0 Hok Hfit Hc' Sc' L1) as (A & B & C).
  change (2 ^ Z.of_nat 0) with 1 in A.
  repeat split; auto. intro p. specialize (C p). pose proof (every_cnt_le p 2 buf (Z.to_nat o)). fold c in H. lia.
Qed.

(* ---------- update ---------- *)
Lemma bitlen_pos z : 0 < z -> (1 <= bitlen z)%nat.
Proof.
  intro H. pose proof (bitlen_lt z ltac:(lia)) as L. destruct (bitlen z); [simpl in L; lia|lia].
Qed.

Lemma grow_levels_spec s : 0 <= cbp s -> 0 < ck s -> lv_ok (ck s) (cbp s) (clv s) -> length (clv s) = bitlen (cbp s) ->
  cn s / (2 * ck s) = cbp s + 1 ->
  let g := grow_levels s in
  g = set_lv s (clv g) (cbp s) /\ lv_ok (ck s) (cbp s) (clv g) /\ length (clv g) = bitlen (cbp s + 1).
Proof.
  intros H0 Hk Hok Hlen Hn. unfold grow_levels, levels_needed. rewrite Hn.
  pose proof (bitlen_pos (cbp s + 1) ltac:(lia)) as P.
  pose proof (bitlen_succ (cbp s) H0) as Sx. pose proof (bitlen_mono (cbp s) (cbp s + 1) ltac:(lia)) as Mo.
  destruct (Nat.eqb_spec (bitlen (cbp s + 1)) 0); [lia|].
  destruct (Nat.leb_spec (bitlen (cbp s + 1)) (length (clv s))).
  - cbv zeta. split; [destruct s; reflexivity|]. split; [assumption|lia].
  - cbv zeta. fields. split; [reflexivity|]. split.
    + apply (lv_ok_app_empty (ck s) 1). assumption.
    + rewrite app_length. simpl. lia.
Qed.

Lemma grow_levels_concat s : concat (clv (grow_levels s)) = concat (clv s).
Proof.
  unfold grow_levels. destruct (Nat.eqb _ 0); [reflexivity|]. destruct (Nat.leb _ _); [reflexivity|].
  fields. rewrite concat_app. simpl. now rewrite app_nil_r.
Qed.

Definition upd_min (s : cq) (x : Z) : Z := if cn s =? 0 then x else if x <? cmin s then x else cmin s.
Definition upd_max (s : cq) (x : Z) : Z := if cn s =? 0 then x else if cmax s <? x then x else cmax s.

Lemma update_spec s x s' : Inv s -> leaf (update s x) s' ->
  Inv s' /\ ck s' = ck s /\ cn s' = cn s + 1 /\ cmin s' = upd_min s x /\ cmax s' = upd_max s x /\
  (forall p, cnt p (items s') <= cnt p (items s) + (if p x then 1 else 0)).
Proof.
  intros I L. pose proof I as [K B N Lb V Ln Sr]. pose proof (valid_k_pos _ K) as K2.
  unfold update in L. fold (upd_min s x) in L. fold (upd_max s x) in L.
  rewrite len_app, len_cons, len_nil in L.
  destruct (Z.eqb_spec (len (cbb s) + (1 + 0)) (2 * ck s)) as [E|E].
  - (* the base buffer is full *)
    unfold process_full in L. apply leaf_bind in L as (s2 & L1 & L2). apply leaf_ret_inv in L2. subst s'.
    match type of L1 with leaf (propagate _ _ _ _ (grow_levels ?S1)) _ => set (s1 := S1) in * end.
    assert (Hn : cn s1 / (2 * ck s1) = cbp s1 + 1).
    { unfold s1; fields. replace (cn s + 1) with ((cbp s + 1) * (2 * ck s)) by lia. apply Z.div_mul. lia. }
    destruct (grow_levels_spec s1 B ltac:(unfold s1; fields; lia) V Ln Hn) as (G1 & G2 & G3).
    set (g := grow_levels s1) in *.
    assert (Gk : ck g = ck s /\ cbp g = cbp s /\ cbb g = cbb s ++ [x] /\ cn g = cn s + 1 /\ cmin g = upd_min s x /\ cmax g = upd_max s x).
    { rewrite G1. unfold s1. fields. repeat split; reflexivity. }
    destruct Gk as (Gk & Gb & Gbb & Gn & Gmi & Gma).
    unfold s1 in G2, G3. fields.
    assert (Fit : cbp g + 1 < 2 ^ Z.of_nat (length (clv g))).
    { rewrite Gb, G3. apply bitlen_lt. lia. }
    assert (Lb2 : len (isort (cbb g)) = 2 * ck g).
    { unfold len. rewrite isort_length. fold (len (cbb g)). rewrite Gbb, Gk, len_app, len_cons, len_nil. lia. }
    destruct (propagate_update_spec g (isort (cbb g)) s2 ltac:(lia) ltac:(lia) ltac:(rewrite Gk, Gb; exact G2) Fit Lb2 (isort_sorted _) L1)
      as (P1 & P2 & P3 & P4).
    rewrite P1. fields. rewrite Gk, Gb, Gn, Gmi, Gma in *.
    split; [|repeat split; auto].
    + constructor; fields;
        [exact K|lia|rewrite len_nil; lia|rewrite len_nil; lia|exact P2|rewrite P3, G3; reflexivity|intros _; constructor].
    + intro p. unfold items. fields. specialize (P4 p). rewrite (cnt_perm _ _ _ (isort_perm (cbb g))), Gbb in P4.
      rewrite cnt_app, cnt_cons, cnt_nil in P4.
      assert (Cg : cnt p (concat (clv g)) = cnt p (concat (clv s))).
      { unfold g. rewrite grow_levels_concat. reflexivity. }
      rewrite cnt_app, cnt_nil, cnt_app. lia.
  - apply leaf_ret_inv in L. subst s'. fields. split; [|repeat split; auto].
    + constructor; fields; auto; rewrite ?len_app, ?len_cons, ?len_nil; try lia.
      destruct (Z.ltb_spec 1 (len (cbb s) + (1 + 0))); [discriminate|].
      intro Hs. pose proof (len_nonneg (cbb s)). assert (Z0 : len (cbb s) = 0) by lia.
      apply len_zero_nil in Z0. rewrite Z0. simpl. constructor; constructor.
    + intro p. unfold items. fields. rewrite !cnt_app, cnt_cons, cnt_nil. lia.
Qed.

(* ===================== the sketch against the stream it has seen ===================== *)
Definition is_min (m : Z) (log : list Z) : Prop := In m log /\ forall y, In y log -> m <= y.
Definition is_max (m : Z) (log : list Z) : Prop := In m log /\ forall y, In y log -> y <= m.

Record Rel (s : cq) (log : list Z) : Prop := mkRel {
  r_inv : Inv s;
  r_n : cn s = len log;                                           (* n = number of accepted items *)
  r_min : log <> [] -> is_min (cmin s) log;
  r_max : log <> [] -> is_max (cmax s) log;
  r_sub : forall p, cnt p (items s) <= cnt p log                  (* retained multiset within the inputs *)
}.

Lemma Rel_new k : check_k k = true -> Rel (cq_new k) [].
Proof. intro H. constructor; auto using Inv_new; try congruence; try reflexivity. Qed.

Lemma is_min_perm m a b : Permutation a b -> is_min m a -> is_min m b.
Proof.
  intros P [H1 H2]. split; [eapply Permutation_in; eauto|].
  intros y Hy. apply H2. eapply Permutation_in; [symmetry; exact P|exact Hy].
Qed.
Lemma is_max_perm m a b : Permutation a b -> is_max m a -> is_max m b.
Proof.
  intros P [H1 H2]. split; [eapply Permutation_in; eauto|].
  intros y Hy. apply H2. eapply Permutation_in; [symmetry; exact P|exact Hy].
Qed.

Lemma Rel_perm s a b : Permutation a b -> Rel s a -> Rel s b.
Proof.
  intros P [I N Mi Ma Su].
  assert (NE : b <> [] -> a <> []).
  { intros Hb Ha. subst a. apply Permutation_nil in P. contradiction. }
  constructor; auto.
  - rewrite N. unfold len. now rewrite (Permutation_length P).
  - intro Hb. eapply is_min_perm; eauto.
  - intro Hb. eapply is_max_perm; eauto.
  - intro p. rewrite <- (cnt_perm p _ _ P). apply Su.
Qed.

Lemma is_min_app_single m log x : (log <> [] -> is_min m log) ->
  is_min (if len log =? 0 then x else if x <? m then x else m) (log ++ [x]).
Proof.
  intro H. destruct (Z.eqb_spec (len log) 0) as [E|E].
  - apply len_zero_nil in E. subst log. simpl. split; [now left|]. intros y [<-|[]]. lia.
  - assert (NE : log <> []) by (intro; subst; now apply E). destruct (H NE) as [H1 H2].
    destruct (Z.ltb_spec x m); split.
    + apply in_or_app. right. now left.
    + intros y Hy. apply in_app_or in Hy as [Hy|[<-|[]]]; [specialize (H2 y Hy)|]; lia.
    + apply in_or_app. now left.
    + intros y Hy. apply in_app_or in Hy as [Hy|[<-|[]]]; [specialize (H2 y Hy)|]; lia.
Qed.

Lemma is_max_app_single m log x : (log <> [] -> is_max m log) ->
  is_max (if len log =? 0 then x else if m <? x then x else m) (log ++ [x]).
Proof.
  intro H. destruct (Z.eqb_spec (len log) 0) as [E|E].
  - apply len_zero_nil in E. subst log. simpl. split; [now left|]. intros y [<-|[]]. lia.
  - assert (NE : log <> []) by (intro; subst; now apply E). destruct (H NE) as [H1 H2].
    destruct (Z.ltb_spec m x); split.
    + apply in_or_app. right. now left.
    + intros y Hy. apply in_app_or in Hy as [Hy|[<-|[]]]; [specialize (H2 y Hy)|]; lia.
    + apply in_or_app. now left.
    + intros y Hy. apply in_app_or in Hy as [Hy|[<-|[]]]; [specialize (H2 y Hy)|]; lia.
Qed.

Theorem update_Rel s log x s' : Rel s log -> leaf (update s x) s' -> Rel s' (log ++ [x]) /\ ck s' = ck s.
Proof.
  intros [I N Mi Ma Su] L.
  destruct (update_spec s x s' I L) as (I' & K' & N' & Mi' & Ma' & Su').
  split; [|assumption]. constructor; auto.
  - rewrite len_app, len_cons, len_nil. lia.
  - intros _. rewrite Mi'. unfold upd_min. rewrite N. now apply is_min_app_single.
  - intros _. rewrite Ma'. unfold upd_max. rewrite N. now apply is_max_app_single.
  - intro p. specialize (Su' p). specialize (Su p). rewrite cnt_app, cnt_cons, cnt_nil. lia.
Qed.

Theorem updates_Rel : forall xs s log s', Rel s log -> leaf (updates s xs) s' -> Rel s' (log ++ xs) /\ ck s' = ck s.
Proof.
  induction xs as [|x r IH]; intros s log s' R L.
  - apply leaf_ret_inv in L. subst. rewrite app_nil_r. auto.
  - cbn [updates] in L. apply leaf_bind in L as (s1 & L1 & L2).
    destruct (update_Rel _ _ _ _ R L1) as [R1 K1].
    destruct (IH _ _ _ R1 L2) as [R2 K2]. rewrite <- app_assoc in R2. simpl in R2. split; [assumption|congruence].
Qed.

Lemma mul_ge a P : 1 <= a -> 0 < P -> P <= a * P.
Proof. nia. Qed.

(* ---------- merging the levels of a source sketch into a target ---------- *)
Section MergeLevels.
  Variables (ks kt : Z) (lg : nat).
  Variable f : nat -> list Z -> cq -> M cq.
  Hypothesis Hkt : 0 < kt.
  (* what one insertion does: a full source level enters the target lg levels higher *)
  Hypothesis Hf : forall lvl l t t', ck t = kt -> 0 <= cbp t -> lv_ok kt (cbp t) (clv t) ->
    cbp t + 2 ^ Z.of_nat (lvl + lg) < 2 ^ Z.of_nat (length (clv t)) -> len l = ks -> ssorted l ->
    leaf (f lvl l t) t' ->
    t' = set_lv t (clv t') (cbp t + 2 ^ Z.of_nat (lvl + lg)) /\
    lv_ok kt (cbp t + 2 ^ Z.of_nat (lvl + lg)) (clv t') /\ length (clv t') = length (clv t) /\
    (forall p, cnt p (concat (clv t')) <= cnt p (concat (clv t)) + cnt p l).

  Lemma set_lv_id t : set_lv t (clv t) (cbp t) = t.
  Proof. destruct t; reflexivity. Qed.

  Lemma merge_levels_spec : forall src lvl pat t t', 0 <= pat -> lv_ok ks pat src ->
    ck t = kt -> 0 <= cbp t -> lv_ok kt (cbp t) (clv t) ->
    cbp t + pat * 2 ^ Z.of_nat (lvl + lg) < 2 ^ Z.of_nat (length (clv t)) ->
    leaf (merge_levels f lvl pat src t) t' ->
    t' = set_lv t (clv t') (cbp t + pat * 2 ^ Z.of_nat (lvl + lg)) /\
    lv_ok kt (cbp t + pat * 2 ^ Z.of_nat (lvl + lg)) (clv t') /\ length (clv t') = length (clv t) /\
    (forall p, cnt p (concat (clv t')) <= cnt p (concat (clv t)) + cnt p (concat src)).
  Proof.
    induction src as [|l r IH]; intros lvl pat t t' Hp Hs Kt B V Fit L.
    - simpl in Hs. subst pat. apply leaf_ret_inv in L. subst t'.
      replace (cbp t + 0 * 2 ^ Z.of_nat (lvl + lg)) with (cbp t) by lia. rewrite set_lv_id.
      repeat split; auto. intro p. simpl. rewrite cnt_nil. lia.
    - destruct Hs as [Hl Hr]. cbn [merge_levels] in L. apply leaf_bind in L as (t1 & L1 & L2).
      pose proof (odd_div2 pat) as E. pose proof (pow2_pos (lvl + lg)) as PP.
      assert (PS : 2 ^ Z.of_nat (S lvl + lg) = 2 * 2 ^ Z.of_nat (lvl + lg)) by (cbn [Nat.add]; apply pow2_S).
      remember (pat / 2) as q eqn:Eq. clear Eq. remember (2 ^ Z.of_nat (lvl + lg)) as P eqn:EP.
      destruct (Z.odd pat) eqn:O.
      + destruct Hl as [Hl Sl].
        assert (F1 : cbp t + P < 2 ^ Z.of_nat (length (clv t))) by (pose proof (mul_ge pat P ltac:(lia) PP); lia).
        rewrite EP in F1. destruct (Hf lvl l t t1 Kt B V F1 Hl Sl L1) as (A1 & A2 & A3 & A4). rewrite <- EP in *.
        assert (K1 : ck t1 = kt) by (rewrite A1; fields; exact Kt).
        assert (B1 : cbp t1 = cbp t + P) by (rewrite A1; reflexivity).
        destruct (IH (S lvl) q t1 t' ltac:(lia) Hr K1 ltac:(lia) ltac:(rewrite B1; exact A2)
                     ltac:(rewrite B1, A3, PS; nia) L2) as (C1 & C2 & C3 & C4).
        assert (EQ : cbp t1 + q * 2 ^ Z.of_nat (S lvl + lg) = cbp t + pat * P) by (rewrite B1, PS; nia).
        rewrite EQ in *. split; [|split; [|split]]; auto.
        * rewrite C1, A1. reflexivity.
        * lia.
        * intro p. specialize (C4 p). specialize (A4 p). cbn [concat]. rewrite cnt_app. lia.
      + apply leaf_ret_inv in L1. subst t1 l.
        destruct (IH (S lvl) q t t' ltac:(lia) Hr Kt B V ltac:(rewrite PS; nia) L2) as (C1 & C2 & C3 & C4).
        assert (EQ : cbp t + q * 2 ^ Z.of_nat (S lvl + lg) = cbp t + pat * P) by (rewrite PS; nia).
        rewrite EQ in *. repeat split; auto.
  Qed.
End MergeLevels.

Lemma std_Hf kt : 0 < kt -> forall lvl l t t', ck t = kt -> 0 <= cbp t -> lv_ok kt (cbp t) (clv t) ->
    cbp t + 2 ^ Z.of_nat (lvl + 0) < 2 ^ Z.of_nat (length (clv t)) -> len l = kt -> ssorted l ->
    leaf (propagate lvl l [] false t) t' ->
    t' = set_lv t (clv t') (cbp t + 2 ^ Z.of_nat (lvl + 0)) /\
    lv_ok kt (cbp t + 2 ^ Z.of_nat (lvl + 0)) (clv t') /\ length (clv t') = length (clv t) /\
    (forall p, cnt p (concat (clv t')) <= cnt p (concat (clv t)) + cnt p l).
Proof.
  intros Hk lvl l t t' Kt B V Fit Hl Sl L. rewrite Nat.add_0_r in *. subst kt.
  apply propagate_merge_spec; auto.
Qed.

Lemma down_Hf ks kt lg : 0 < kt -> ks = 2 ^ Z.of_nat lg * kt ->
  forall lvl l t t', ck t = kt -> 0 <= cbp t -> lv_ok kt (cbp t) (clv t) ->
    cbp t + 2 ^ Z.of_nat (lvl + lg) < 2 ^ Z.of_nat (length (clv t)) -> len l = ks -> ssorted l ->
    leaf (bind (zip_stride l (2 ^ Z.of_nat lg)) (fun down => propagate (lvl + lg) down [] false t)) t' ->
    t' = set_lv t (clv t') (cbp t + 2 ^ Z.of_nat (lvl + lg)) /\
    lv_ok kt (cbp t + 2 ^ Z.of_nat (lvl + lg)) (clv t') /\ length (clv t') = length (clv t) /\
    (forall p, cnt p (concat (clv t')) <= cnt p (concat (clv t)) + cnt p l).
Proof.
  intros Hk Hks lvl l t t' Kt B V Fit Hl Sl L.
  apply leaf_bind in L as (down & L1 & L2). apply zip_stride_leaf in L1 as (o & Ho & ->).
  pose proof (pow2_pos lg) as PP.
  set (down := every _ _ l) in *.
  assert (Hd : len down = kt) by (apply (every_len (2 ^ Z.of_nat lg) o kt); lia).
  assert (Sd : ssorted down) by (apply every_sorted; assumption).
  subst kt.
  destruct (propagate_merge_spec t (lvl + lg) down t' Hk B V Fit Hd Sd L2) as (A1 & A2 & A3 & A4).
  repeat split; auto. intro p. specialize (A4 p). pose proof (every_cnt_le p (Z.to_nat (2 ^ Z.of_nat lg)) l (Z.to_nat o)) as C.
  fold down in C. lia.
Qed.

Lemma concat_app_empty m : forall lv : list (list Z), concat (lv ++ repeat [] m) = concat lv.
Proof.
  intro lv. rewrite concat_app. assert (E : concat (repeat (@nil Z) m) = []) by (induction m; simpl; auto).
  rewrite E. apply app_nil_r.
Qed.

Lemma In_cnt y l : In y l -> 0 < cnt (Z.eqb y) l.
Proof.
  induction l as [|x r IH]; intros []; rewrite cnt_cons.
  - subst. rewrite Z.eqb_refl. pose proof (cnt_nonneg (Z.eqb y) r). lia.
  - specialize (IH H). destruct (y =? x); lia.
Qed.

Lemma cnt_In y l : 0 < cnt (Z.eqb y) l -> In y l.
Proof.
  induction l as [|x r IH]; [rewrite cnt_nil; lia|]. rewrite cnt_cons.
  destruct (Z.eqb_spec y x); [subst; left; reflexivity|]. intro H. right. apply IH. lia.
Qed.

Lemma sub_In a b : (forall p, cnt p a <= cnt p b) -> forall y, In y a -> In y b.
Proof. intros H y Hy. apply cnt_In. pose proof (In_cnt y a Hy). specialize (H (Z.eqb y)). lia. Qed.

(* the common part of standard_merge and downsampling_merge *)
Lemma merge_with_Rel f tgt src l1 l2 lg t' :
  Rel tgt l1 -> Rel src l2 -> ck src = 2 ^ Z.of_nat lg * ck tgt ->
  (forall lvl l t t', ck t = ck tgt -> 0 <= cbp t -> lv_ok (ck tgt) (cbp t) (clv t) ->
    cbp t + 2 ^ Z.of_nat (lvl + lg) < 2 ^ Z.of_nat (length (clv t)) -> len l = ck src -> ssorted l ->
    leaf (f lvl l t) t' ->
    t' = set_lv t (clv t') (cbp t + 2 ^ Z.of_nat (lvl + lg)) /\
    lv_ok (ck tgt) (cbp t + 2 ^ Z.of_nat (lvl + lg)) (clv t') /\ length (clv t') = length (clv t) /\
    (forall p, cnt p (concat (clv t')) <= cnt p (concat (clv t)) + cnt p l)) ->
  leaf (merge_with f tgt src) t' -> Rel t' (l1 ++ l2) /\ ck t' = ck tgt.
Proof.
  intros Rt Rs Hk Hf L. unfold merge_with in L.
  destruct (Z.eqb_spec (cn src) 0) as [Z0|NZ].
  { apply leaf_ret_inv in L. subst t'. rewrite (r_n _ _ Rs) in Z0. apply len_zero_nil in Z0. subst l2.
    rewrite app_nil_r. auto. }
  apply leaf_bind in L as (t1 & L1 & L). destruct (updates_Rel _ _ _ _ Rt L1) as [R1 K1].
  apply leaf_bind in L as (t3 & L2 & L3). apply leaf_ret_inv in L3.
  pose proof (r_inv _ _ R1) as [Kv1 B1 N1 Lb1 V1 Ln1 Sr1].
  pose proof (r_inv _ _ Rs) as [Kvs Bs Ns Lbs Vs Lns Srs].
  pose proof (valid_k_pos _ Kv1) as K2. pose proof (pow2_pos lg) as PP.
  assert (Kt0 : 0 < ck tgt) by (rewrite <- K1; lia).
  pose proof (len_nonneg (cbb t1)) as NN1. pose proof (len_nonneg (cbb src)) as NNs.
  set (fin := cbp t1 + cbp src * 2 ^ Z.of_nat lg).
  assert (Nt : cn t1 = cn tgt + len (cbb src)).
  { rewrite (r_n _ _ R1), (r_n _ _ Rt), len_app. reflexivity. }
  assert (Hnew : cn src + cn tgt = fin * (2 * ck t1) + len (cbb t1)).
  { unfold fin. rewrite K1 in *. rewrite Ns, Hk. nia. }
  assert (Hdiv : (cn src + cn tgt) / (2 * ck t1) = fin).
  { symmetry. apply (Z.div_unique_pos _ _ _ (len (cbb t1))); [lia|]. rewrite Hnew. ring. }
  assert (Fin0 : 0 <= fin) by (unfold fin; nia).
  unfold levels_needed in L2. rewrite Hdiv in L2.
  match type of L2 with leaf (merge_levels _ _ _ _ ?T2) _ => set (t2 := T2) in * end.
  assert (Len2 : length (clv t2) = bitlen fin).
  { unfold t2, grow_to. fields. rewrite app_length, repeat_length, Ln1.
    pose proof (bitlen_mono (cbp t1) fin ltac:(unfold fin; nia)). lia. }
  assert (V2 : lv_ok (ck tgt) (cbp t2) (clv t2)).
  { unfold t2, grow_to. fields. rewrite <- K1. apply lv_ok_app_empty. exact V1. }
  assert (Fit : cbp t2 + cbp src * 2 ^ Z.of_nat (0 + lg) < 2 ^ Z.of_nat (length (clv t2))).
  { rewrite Len2. unfold t2. fields. cbn [Nat.add]. fold fin. apply bitlen_lt. exact Fin0. }
  destruct (merge_levels_spec (ck src) (ck tgt) lg f Hf (clv src) 0%nat (cbp src) t2 t3 Bs Vs
              ltac:(unfold t2; fields; exact K1) ltac:(unfold t2; fields; exact B1) V2 Fit L2) as (A1 & A2 & A3 & A4).
  cbn [Nat.add] in A1, A2. unfold t2 in A1, A2. fields. fold fin in A1, A2.
  assert (C2 : concat (clv t2) = concat (clv t1)) by (unfold t2, grow_to; fields; apply concat_app_empty).
  assert (NE2 : l2 <> []) by (intro; subst l2; apply NZ; rewrite (r_n _ _ Rs); reflexivity).
  assert (SubIn : forall y, In y (cbb src) -> In y l2).
  { apply sub_In. intro p. pose proof (r_sub _ _ Rs p) as H. unfold items in H. rewrite cnt_app in H.
    pose proof (cnt_nonneg p (concat (clv src))). lia. }
  subst t'. unfold finish_merge. rewrite A1. fields. split; [|exact K1].
  constructor; fields.
  - constructor; fields;
      [exact Kv1|exact Fin0|rewrite Hnew; ring|exact Lb1|rewrite K1; exact A2|rewrite A3; exact Len2|exact Sr1].
  - rewrite len_app, <- (r_n _ _ Rt), <- (r_n _ _ Rs). ring.
  - intros _. destruct (Z.eqb_spec (cn t1) 0) as [E0|E0]; cbn [negb].
    + rewrite (r_n _ _ R1) in E0. apply len_zero_nil in E0. apply app_eq_nil in E0 as [-> _]. simpl.
      apply (r_min _ _ Rs NE2).
    + assert (NE1 : l1 ++ cbb src <> []) by (intro E; apply E0; rewrite (r_n _ _ R1), E; reflexivity).
      destruct (r_min _ _ R1 NE1) as [M1 M2]. destruct (r_min _ _ Rs NE2) as [M3 M4].
      assert (In1 : In (cmin t1) (l1 ++ l2)).
      { apply in_app_or in M1 as [M1|M1]; apply in_or_app; [left|right]; auto. }
      destruct (Z.ltb_spec (cmin src) (cmin t1)); split.
      * apply in_or_app. now right.
      * intros y Hy. apply in_app_or in Hy as [Hy|Hy]; [specialize (M2 y (in_or_app _ _ _ (or_introl Hy)))|specialize (M4 y Hy)]; lia.
      * exact In1.
      * intros y Hy. apply in_app_or in Hy as [Hy|Hy]; [specialize (M2 y (in_or_app _ _ _ (or_introl Hy)))|specialize (M4 y Hy)]; lia.
  - intros _. destruct (Z.eqb_spec (cn t1) 0) as [E0|E0]; cbn [negb].
    + rewrite (r_n _ _ R1) in E0. apply len_zero_nil in E0. apply app_eq_nil in E0 as [-> _]. simpl.
      apply (r_max _ _ Rs NE2).
    + assert (NE1 : l1 ++ cbb src <> []) by (intro E; apply E0; rewrite (r_n _ _ R1), E; reflexivity).
      destruct (r_max _ _ R1 NE1) as [M1 M2]. destruct (r_max _ _ Rs NE2) as [M3 M4].
      assert (In1 : In (cmax t1) (l1 ++ l2)).
      { apply in_app_or in M1 as [M1|M1]; apply in_or_app; [left|right]; auto. }
      destruct (Z.ltb_spec (cmax t1) (cmax src)); split.
      * apply in_or_app. now right.
      * intros y Hy. apply in_app_or in Hy as [Hy|Hy]; [specialize (M2 y (in_or_app _ _ _ (or_introl Hy)))|specialize (M4 y Hy)]; lia.
      * exact In1.
      * intros y Hy. apply in_app_or in Hy as [Hy|Hy]; [specialize (M2 y (in_or_app _ _ _ (or_introl Hy)))|specialize (M4 y Hy)]; lia.
  - intro p. unfold items. fields. specialize (A4 p). rewrite C2 in A4.
    pose proof (r_sub _ _ R1 p) as S1. pose proof (r_sub _ _ Rs p) as S2. unfold items in S1, S2.
    rewrite !cnt_app in *. lia.
Qed.

(* equal counts under every predicate = same multiset *)
Lemma cnt_eq_perm a b : (forall p, cnt p a = cnt p b) -> Permutation a b.
Proof.
  intro H. apply (Permutation_count_occ Z.eq_dec). intro x.
  specialize (H (fun y => Z.eqb x y)).
  assert (G : forall l, cnt (fun y => Z.eqb x y) l = Z.of_nat (count_occ Z.eq_dec l x)).
  { induction l as [|y l IHl]; [reflexivity|]. rewrite cnt_cons, IHl. simpl.
    destruct (Z.eq_dec y x) as [->|N]; [rewrite Z.eqb_refl; lia|].
    destruct (Z.eqb_spec x y); [congruence|lia]. }
  rewrite !G in H. lia.
Qed.

Lemma sub_len_perm a b : (forall p, cnt p a <= cnt p b) -> len a = len b -> Permutation a b.
Proof.
  intros H L. apply cnt_eq_perm. intro p.
  pose proof (H p). pose proof (H (fun y => negb (p y))). pose proof (cnt_compl p a). pose proof (cnt_compl p b). lia.
Qed.

(* a sketch in exact mode holds exactly its inputs, all in the base buffer *)
Lemma exact_bb s log : Rel s log -> cbp s = 0 -> clv s = [] /\ Permutation (cbb s) log.
Proof.
  intros [[K B N Lb V Ln Sr] Nl _ _ Su] Z0. rewrite Z0 in *.
  assert (E : clv s = []) by (apply length_zero_iff_nil; rewrite Ln; reflexivity).
  split; [exact E|]. apply sub_len_perm.
  - intro p. specialize (Su p). unfold items in Su. rewrite E in Su. simpl in Su. now rewrite app_nil_r in Su.
  - lia.
Qed.

Lemma pow2_ratio ka kb : valid_k ka -> valid_k kb -> kb < ka ->
  ka = 2 ^ Z.of_nat (Z.to_nat (Z.log2 (ka / kb))) * kb /\ ka / kb = 2 ^ Z.of_nat (Z.to_nat (Z.log2 (ka / kb))).
Proof.
  intros (a & Ha & ->) (b & Hb & ->) H.
  assert (Lt : b < a) by (apply (Z.pow_lt_mono_r_iff 2); lia).
  assert (E : 2 ^ a = 2 ^ (a - b) * 2 ^ b) by (rewrite <- Z.pow_add_r by lia; f_equal; lia).
  assert (P : 0 < 2 ^ b) by (apply Z.pow_pos_nonneg; lia).
  assert (D : 2 ^ a / 2 ^ b = 2 ^ (a - b)) by (rewrite E; apply Z.div_mul; lia).
  rewrite D, Z.log2_pow2 by lia. rewrite Z2Nat.id by lia. auto.
Qed.

(* merge(other), all cases *)
Theorem merge_Rel s l1 o l2 s' : Rel s l1 -> Rel o l2 -> leaf (merge s o) s' ->
  Rel s' (l1 ++ l2) /\ (ck s' = ck s \/ ck s' = ck o).
Proof.
  intros Rs Ro L. unfold merge in L.
  destruct (Z.eqb_spec (cn o) 0) as [Z0|NZ].
  { apply leaf_ret_inv in L. subst s'. rewrite (r_n _ _ Ro) in Z0. apply len_zero_nil in Z0. subst l2.
    rewrite app_nil_r. auto. }
  unfold is_estimation_mode in L.
  pose proof (i_k _ (r_inv _ _ Rs)) as Ks. pose proof (i_k _ (r_inv _ _ Ro)) as Ko.
  destruct (Z.eqb_spec (cbp o) 0) as [Eo|Eo]; cbn [negb] in L.
  { (* other is exact: its base buffer is streamed in *)
    destruct (updates_Rel _ _ _ _ Rs L) as [R K]. destruct (exact_bb _ _ Ro Eo) as [_ P].
    split; [|auto]. eapply Rel_perm; [|exact R]. now apply Permutation_app_head. }
  destruct (Z.eqb_spec (cbp s) 0) as [Es|Es]; cbn [negb] in L.
  - (* this is exact or empty, other estimating: the result is built on a copy of other *)
    destruct (Z.leb_spec (ck s) (ck o)).
    + destruct (updates_Rel _ _ _ _ Ro L) as [R K]. destruct (exact_bb _ _ Rs Es) as [_ P].
      split; [|auto]. eapply Rel_perm; [|exact R].
      etransitivity; [apply Permutation_app_comm|]. now apply Permutation_app_tail.
    + unfold downsampling_merge in L. destruct (pow2_ratio (ck s) (ck o) Ks Ko ltac:(lia)) as [E1 E2]. set (lg := Z.to_nat (Z.log2 (ck s / ck o))) in *. rewrite E2 in L.
      destruct (merge_with_Rel _ o s l2 l1 _ s' Ro Rs E1 (down_Hf (ck s) (ck o) _ ltac:(apply valid_k_pos in Ko; lia) E1) L) as [R K].
      split; [|auto]. eapply Rel_perm; [apply Permutation_app_comm|exact R].
  - (* both estimating *)
    destruct (Z.eqb_spec (ck s) (ck o)) as [Ek|Ek].
    + unfold standard_merge in L.
      assert (E1 : ck o = 2 ^ Z.of_nat 0 * ck s) by (change (2 ^ Z.of_nat 0) with 1; lia).
      assert (Hf : forall lvl l t t', ck t = ck s -> 0 <= cbp t -> lv_ok (ck s) (cbp t) (clv t) ->
                cbp t + 2 ^ Z.of_nat (lvl + 0) < 2 ^ Z.of_nat (length (clv t)) -> len l = ck o -> ssorted l ->
                leaf (propagate lvl l [] false t) t' ->
                t' = set_lv t (clv t') (cbp t + 2 ^ Z.of_nat (lvl + 0)) /\
                lv_ok (ck s) (cbp t + 2 ^ Z.of_nat (lvl + 0)) (clv t') /\ length (clv t') = length (clv t) /\
                (forall p, cnt p (concat (clv t')) <= cnt p (concat (clv t)) + cnt p l)).
      { rewrite <- Ek. apply std_Hf. apply valid_k_pos in Ks. lia. }
      destruct (merge_with_Rel _ s o l1 l2 0%nat s' Rs Ro E1 Hf L) as [R K]. auto.
    + destruct (Z.ltb_spec (ck o) (ck s)).
      * unfold downsampling_merge in L. destruct (pow2_ratio (ck s) (ck o) Ks Ko ltac:(lia)) as [E1 E2]. set (lg := Z.to_nat (Z.log2 (ck s / ck o))) in *. rewrite E2 in L.
        destruct (merge_with_Rel _ o s l2 l1 _ s' Ro Rs E1 (down_Hf (ck s) (ck o) _ ltac:(apply valid_k_pos in Ko; lia) E1) L) as [R K].
        split; [|auto]. eapply Rel_perm; [apply Permutation_app_comm|exact R].
      * unfold downsampling_merge in L. destruct (pow2_ratio (ck o) (ck s) Ko Ks ltac:(lia)) as [E1 E2]. set (lg := Z.to_nat (Z.log2 (ck o / ck s))) in *. rewrite E2 in L.
        destruct (merge_with_Rel _ s o l1 l2 _ s' Rs Ro E1 (down_Hf (ck o) (ck s) _ ltac:(apply valid_k_pos in Ks; lia) E1) L) as [R K].
        auto.
Qed.

(* ===================== reachable states ===================== *)
(* get_rank / get_quantile / get_CDF / get_PMF / get_sorted_view sort the base buffer in place *)
Lemma sort_bb_Rel s log : Rel s log -> Rel (sort_bb s) log.
Proof.
  intros [I N Mi Ma Su]. unfold sort_bb. destruct (csorted s) eqn:E; [constructor; auto|].
  destruct I as [K B Nn Lb V Ln Sr].
  assert (Ll : len (isort (cbb s)) = len (cbb s)) by (unfold len; now rewrite isort_length).
  constructor; fields; auto.
  - constructor; fields; auto; try lia. intros _. apply isort_sorted.
  - intro p. specialize (Su p). unfold items in *. fields. rewrite cnt_app in *.
    rewrite (cnt_perm _ _ _ (isort_perm (cbb s))). exact Su.
Qed.

(* every state that some sequence of updates and merges (of reachable sketches, any valid k, any mix of k) can produce
   under some outcome of the random choices, together with the list of items it has been given *)
Inductive reach : cq -> list Z -> Prop :=
| reach_new k : check_k k = true -> reach (cq_new k) []
| reach_update s log x s' : reach s log -> leaf (update s x) s' -> reach s' (log ++ [x])
| reach_merge s l1 o l2 s' : reach s l1 -> reach o l2 -> leaf (merge s o) s' -> reach s' (l1 ++ l2)
| reach_sort s log : reach s log -> reach (sort_bb s) log.      (* side effect of a query *)

Theorem reach_Rel s log : reach s log -> Rel s log.
Proof.
  induction 1.
  - now apply Rel_new.
  - eapply update_Rel; eauto.
  - eapply merge_Rel; eauto.
  - now apply sort_bb_Rel.
Qed.

(* ===================== the runner ===================== *)
Lemma run_acc_spec : forall ops s acc, run_acc s ops acc = rev_append acc (run_case step s ops).
Proof.
  induction ops as [|[o e] r IH]; intros s acc; cbn [run_acc run_case]; [reflexivity|].
  destruct (step s o e) as [s' out]. rewrite IH. reflexivity.
Qed.

(* the extracted entry point is the generic case runner of RunnerLib applied to [step] *)
Theorem run_is_run_case ops : run ops = run_case step [] ops.
Proof. unfold run. rewrite run_acc_spec. reflexivity. Qed.
