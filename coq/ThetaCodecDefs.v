(* ThetaCodecDefs.v — executable model of the compact Theta sketch images:
   writers serialize() (serial version 3) and serialize_compressed() (serial version 4: delta coding +
   bit packing with the TRANSLATED block routines and the generic tail loop), the byte-buffer reader
   (compact_theta_sketch_parser::parse + compact_theta_sketch::deserialize(bytes) / wrapped sketch) for
   versions 1-4 and the stream readers deserialize_v1..v4. No proofs here. *)
From Coq Require Import NArith ZArith List Bool Arith.
From DS Require Import Word RunnerLib BitPackLang BitPackSpec.
Import ListNotations.
Local Open Scope N_scope.

Record csk := { k_empty : bool; k_ordered : bool; k_seed_hash : N; k_theta : N; k_entries : list N }.

Definition MAX_THETA : N := 9223372036854775807.
Definition est_mode (s : csk) : bool := (k_theta s <? MAX_THETA) && negb (k_empty s).
Definition nent (s : csk) : N := N.of_nat (length (k_entries s)).

(* flag bits: IS_BIG_ENDIAN 0, IS_READ_ONLY 1, IS_EMPTY 2, IS_COMPACT 3, IS_ORDERED 4 *)
Definition flags_v3 (s : csk) : N :=
  2 + 8 + (if k_empty s then 4 else 0) + (if k_ordered s then 16 else 0).
Definition flags_v4 : N := 2 + 8 + 16.

Definition u16 (x : N) := N_to_le_bytes 2 x.
Definition u32 (x : N) := N_to_le_bytes 4 x.
Definition u64 (x : N) := N_to_le_bytes 8 x.

Definition pre_longs_v3 (s : csk) : N :=
  if est_mode s then 3 else if k_empty s || (nent s =? 1) then 1 else 2.

Definition enc_v3 (s : csk) : list N :=
  let pre := pre_longs_v3 s in
  [pre; 3; 3; 0; 0; flags_v3 s] ++ u16 (k_seed_hash s) ++
  (if 1 <? pre then u32 (nent s) ++ [0; 0; 0; 0] else []) ++
  (if est_mode s then u64 (k_theta s) else []) ++
  flat_map u64 (k_entries s).

(* deltas between consecutive entries (uint64 wrap-around as in the code) *)
Fixpoint deltas (prev : N) (l : list N) : list N :=
  match l with
  | [] => []
  | e :: r => sub64 e prev :: deltas e r
  end.
Fixpoint undeltas (prev : N) (l : list N) : list N :=
  match l with
  | [] => []
  | d :: r => let e := add64 d prev in e :: undeltas e r
  end.

Definition entry_bits (s : csk) : N := N.size (fold_left N.lor (deltas 0 (k_entries s)) 0).
Definition whole_bytes (bits : N) : N := N.shiftr bits 3 + (if 0 <? N.land bits 7 then 1 else 0).
Definition num_entries_bytes (s : csk) : N := whole_bytes (N.size (w32 (nent s))).

(* pack a list of values: blocks of 8 through the translated routines, then the tail loop *)
Fixpoint pack_all (fuel : nat) (b : nat) (vals : list N) : option (list N) :=
  match fuel with
  | O => None
  | S f =>
      match vals with
      | [] => Some []
      | _ =>
          if (8 <=? length vals)%nat then
            match pack_vals b 8 (firstn 8 vals), pack_all f b (skipn 8 vals) with
            | Some x, Some y => Some (x ++ y)
            | _, _ => None
            end
          else pack_vals b (length vals) vals
      end
  end.

Fixpoint unpack_all (fuel : nat) (b : nat) (n : nat) (bytes : list N) : option (list N) :=
  match fuel with
  | O => None
  | S f =>
      if (n =? 0)%nat then Some []
      else if (8 <=? n)%nat then
        if (length bytes <? b)%nat then None else
        match unpack_vals b 8 (firstn b bytes), unpack_all f b (n - 8) (skipn b bytes) with
        | Some x, Some y => Some (x ++ y)
        | _, _ => None
        end
      else
        let nb := nbytes b n in
        if (length bytes <? nb)%nat then None else unpack_vals b n (firstn nb bytes)
  end.

Definition suitable_for_compression (s : csk) : bool :=
  k_ordered s && negb (nent s =? 0) && negb ((nent s =? 1) && negb (est_mode s)).

Definition enc_v4 (s : csk) : option (list N) :=
  let b := entry_bits s in
  let neb := num_entries_bytes s in
  match pack_all (S (length (k_entries s))) (N.to_nat b) (deltas 0 (k_entries s)) with
  | Some packed =>
      Some ([if est_mode s then 2 else 1; 4; 3; b; neb; flags_v4] ++ u16 (k_seed_hash s) ++
            (if est_mode s then u64 (k_theta s) else []) ++
            N_to_le_bytes (N.to_nat neb) (w32 (nent s)) ++ packed)
  | None => None
  end.

Definition serialize_compressed (s : csk) : option (list N) :=
  if suitable_for_compression s then enc_v4 s else Some (enc_v3 s).

(* ---- readers ---- *)
Definition rd (n off : nat) (bytes : list N) : option N :=
  if (off + n <=? length bytes)%nat then Some (le_bytes_to_N (firstn n (skipn off bytes))) else None.

Fixpoint rd_entries (n : nat) (bytes : list N) : option (list N) :=
  match n with
  | O => Some []
  | S n' =>
      match rd 8 0 bytes, rd_entries n' (skipn 8 bytes) with
      | Some e, Some r => Some (e :: r)
      | _, _ => None
      end
  end.

Definition bind {A B} (o : option A) (f : A -> option B) : option B :=
  match o with Some a => f a | None => None end.
Notation "'do' x <- o ; k" := (bind o (fun x => k)) (at level 200, x name, right associativity).

(* the constructor compact_theta_sketch(is_empty, is_ordered, seed_hash, theta, entries) normalises the
   order flag: at most one entry is always ordered *)
Definition mk (e o : bool) (sh th : N) (ents : list N) : csk :=
  {| k_empty := e; k_ordered := o || (length ents <=? 1)%nat; k_seed_hash := sh; k_theta := th; k_entries := ents |}.

(* version 4 readers validate the header: entry bits in 1..63, at most 4 bytes of entry count *)
Definition bad_width (b : N) : bool := (b =? 0) || (63 <? b).
Definition too_many (n unit : N) (avail : nat) : bool := N.of_nat avail <? n * unit.

(* byte-buffer reader: compact_theta_sketch_parser::parse followed by deserialize(bytes)/wrap.
   A read outside the supplied bytes is a rejection in the model (the property demands rejection);
   [expected] is compute_seed_hash(seed). *)
Definition dec_bytes (expected : N) (bytes : list N) : option csk :=
  if (length bytes <? 8)%nat then None else
  do pre <- rd 1 0 bytes; do ver <- rd 1 1 bytes; do typ <- rd 1 2 bytes;
  if negb (typ =? 3) then None else
  if ver =? 4 then
    do sh <- rd 2 6 bytes;
    if negb (sh =? expected) then None else
    let has_theta := 1 <? pre in
    do theta <- (if has_theta then rd 8 8 bytes else Some MAX_THETA);
    do neb <- rd 1 4 bytes;
    if 4 <? neb then None else
    let off := if has_theta then 16%nat else 8%nat in
    do n <- rd (N.to_nat neb) off bytes;
    let n := w32 n in
    do b <- rd 1 3 bytes;
    if bad_width b then None else
    let doff := (off + N.to_nat neb)%nat in
    if N.of_nat (length bytes) <? N.of_nat doff + whole_bytes (b * n) then None else
    do ds <- unpack_all (S (N.to_nat n)) (N.to_nat b) (N.to_nat n) (skipn doff bytes);
    Some (mk false true sh theta (undeltas 0 ds))
  else if ver =? 3 then
    do sh <- rd 2 6 bytes; do fl <- rd 1 5 bytes;
    if N.testbit fl 2 then Some (mk true true sh MAX_THETA []) else
    if negb (sh =? expected) then None else
    let has_theta := 2 <? pre in
    do theta <- (if has_theta then rd 8 16 bytes else Some MAX_THETA);
    if pre =? 1 then
      do e <- rd 8 8 bytes; Some (mk false true sh theta [e])
    else
      (* the parser checks that the preamble (entries_start longs) is present before reading the entry count *)
      let start := if has_theta then 24%nat else 16%nat in
      if (length bytes <? start)%nat then None else
      do n <- rd 4 8 bytes;
      if too_many n 8 (length bytes) then None else
      do ents <- rd_entries (N.to_nat n) (skipn start bytes);
      Some (mk false (N.testbit fl 4) sh theta ents)
  else if ver =? 1 then
    do n <- rd 4 8 bytes; do theta <- rd 8 16 bytes;
    if (n =? 0) && (theta =? MAX_THETA) then Some (mk true true expected theta []) else
    if too_many n 8 (length bytes) then None else
    do ents <- rd_entries (N.to_nat n) (skipn 24 bytes);
    Some (mk false true expected theta ents)
  else if ver =? 2 then
    do sh <- rd 2 6 bytes;
    if negb (sh =? expected) then None else
    if pre =? 1 then Some (mk true true sh MAX_THETA [])
    else if pre =? 2 then
      if (length bytes <? 16)%nat then None else
      do n <- rd 4 8 bytes;
      if n =? 0 then Some (mk true true sh MAX_THETA []) else
      if too_many n 8 (length bytes) then None else
      do ents <- rd_entries (N.to_nat n) (skipn 16 bytes);
      Some (mk false true sh MAX_THETA ents)
    else if pre =? 3 then
      do n <- rd 4 8 bytes; do theta <- rd 8 16 bytes;
      if (n =? 0) && (theta =? MAX_THETA) then Some (mk true true sh theta []) else
      if too_many n 8 (length bytes) then None else
    do ents <- rd_entries (N.to_nat n) (skipn 24 bytes);
      Some (mk false true sh theta ents)
    else None
  else None.

(* stream readers deserialize_v1..v4: returns the sketch and the number of bytes consumed *)
Definition dec_stream (expected : N) (bytes : list N) : option (csk * nat) :=
  do pre <- rd 1 0 bytes; do ver <- rd 1 1 bytes; do typ <- rd 1 2 bytes;
  if negb (typ =? 3) then None else
  if ver =? 4 then
    do b <- rd 1 3 bytes; do neb <- rd 1 4 bytes; do fl <- rd 1 5 bytes; do sh <- rd 2 6 bytes;
    let is_empty := N.testbit fl 2 in
    if negb is_empty && negb (sh =? expected) then None else
    let has_theta := 1 <? pre in
    do theta <- (if has_theta then rd 8 8 bytes else Some MAX_THETA);
    if bad_width b || (4 <? neb) then None else
    let off := if has_theta then 16%nat else 8%nat in
    do n <- rd (N.to_nat neb) off bytes;
    let n := w32 n in
    let doff := (off + N.to_nat neb)%nat in
    if N.of_nat (length bytes) <? N.of_nat doff + whole_bytes (b * n) then None else
    do ds <- unpack_all (S (N.to_nat n)) (N.to_nat b) (N.to_nat n) (skipn doff bytes);
    let used := (N.to_nat b * (N.to_nat n / 8) + (if (N.to_nat n mod 8 =? 0)%nat then 0 else nbytes (N.to_nat b) (N.to_nat n mod 8)))%nat in
    Some (mk is_empty (N.testbit fl 4) sh theta (undeltas 0 ds), (doff + used)%nat)
  else if ver =? 3 then
    do fl <- rd 1 5 bytes; do sh <- rd 2 6 bytes;
    let is_empty := N.testbit fl 2 in
    if negb is_empty && negb (sh =? expected) then None else
    if is_empty then Some (mk true (N.testbit fl 4) sh MAX_THETA [], 8%nat) else
    if pre =? 1 then
      do e <- rd 8 8 bytes; Some (mk false (N.testbit fl 4) sh MAX_THETA [e], 16%nat)
    else
      do n <- rd 4 8 bytes; do unused <- rd 4 12 bytes;
      let has_theta := 2 <? pre in
      do theta <- (if has_theta then rd 8 16 bytes else Some MAX_THETA);
      let start := if has_theta then 24%nat else 16%nat in
      if too_many n 8 (length bytes) then None else
      do ents <- rd_entries (N.to_nat n) (skipn start bytes);
      Some (mk false (N.testbit fl 4) sh theta ents, (start + 8 * N.to_nat n)%nat)
  else if ver =? 1 then
    do n <- rd 4 8 bytes; do theta <- rd 8 16 bytes;
    if (n =? 0) && (theta =? MAX_THETA) then Some (mk true true expected theta [], 24%nat) else
    if too_many n 8 (length bytes) then None else
    do ents <- rd_entries (N.to_nat n) (skipn 24 bytes);
    Some (mk false true expected theta ents, (24 + 8 * N.to_nat n)%nat)
  else if ver =? 2 then
    do sh <- rd 2 6 bytes;
    if negb (sh =? expected) then None else
    if pre =? 1 then Some (mk true true sh MAX_THETA [], 8%nat)
    else if pre =? 2 then
      do n <- rd 4 8 bytes; do unused <- rd 4 12 bytes;
      if n =? 0 then Some (mk true true sh MAX_THETA [], 16%nat) else
      if too_many n 8 (length bytes) then None else
      do ents <- rd_entries (N.to_nat n) (skipn 16 bytes);
      Some (mk false true sh MAX_THETA ents, (16 + 8 * N.to_nat n)%nat)
    else if pre =? 3 then
      do n <- rd 4 8 bytes; do theta <- rd 8 16 bytes;
      if (n =? 0) && (theta =? MAX_THETA) then Some (mk true true sh theta [], 24%nat) else
      if too_many n 8 (length bytes) then None else
      do ents <- rd_entries (N.to_nat n) (skipn 24 bytes);
      Some (mk false true sh theta ents, (24 + 8 * N.to_nat n)%nat)
    else None
  else None.

(* ---- line protocol ----
   op 1 empty ordered seed_hash theta e*    : build a compact sketch with exactly these fields, report
                                              R = [n; bytes of serialize()...]
   op 2 (same args)                         : R = bytes of serialize_compressed()
   op 3 expected_seed_hash byte*            : decode a byte buffer: R = [1; empty; ordered; seed_hash; theta; n; entries...] or [-1]
   op 4 expected_seed_hash byte*            : decode from a stream: same plus bytes consumed *)
Local Open Scope Z_scope.
Definition sk_of_args (args : list Z) : option csk :=
  match args with
  | e :: o :: sh :: th :: ents =>
      Some (mk (negb (e =? 0)) (negb (o =? 0)) (zN sh) (zN th) (map zN ents))
  | _ => None
  end.

Definition show (s : csk) : list Z :=
  [bz (k_empty s); bz (k_ordered s); Nz (k_seed_hash s); Nz (k_theta s); Z.of_nat (length (k_entries s))]
  ++ map Nz (k_entries s).

Definition step (st : unit) (o e : line) : unit * outline :=
  match o with
  | 1 :: args =>
      match sk_of_args args with
      | Some s => (st, (map Nz (enc_v3 s), []))
      | None => (st, (refused, []))
      end
  | 2 :: args =>
      match sk_of_args args with
      | Some s => match serialize_compressed s with
                  | Some b => (st, (map Nz b, []))
                  | None => (st, (refused, []))
                  end
      | None => (st, (refused, []))
      end
  | 3 :: exp :: bytes =>
      match dec_bytes (zN exp) (map zN bytes) with
      | Some s => (st, (1 :: show s, []))
      | None => (st, (refused, []))
      end
  | 4 :: exp :: bytes =>
      match dec_stream (zN exp) (map zN bytes) with
      | Some (s, used) => (st, (1 :: Z.of_nat used :: show s, []))
      | None => (st, (refused, []))
      end
  | _ => (st, ([-2], []))
  end.

Definition run (ops : list opline) : list outline := run_case step tt ops.
