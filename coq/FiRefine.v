(* FiRefine.v — the executable L2 model (reverse-purge hash map + sketch of FiDefs.v, the definitions that are extracted
   and run against the C++) refines the finite-map view: every map operation has the abstract effect on the
   key -> counter function, and the sketch operations (update with any weight >= 0, merge, serialize/deserialize,
   copy) keep the bracket invariant  lb <= true weight <= ub,  ub - lb = offset,  total exact.  ANY hash function. *)
From Coq Require Import ZArith NArith List Bool Lia Arith PeanoNat Permutation.
From DS Require Import Word Murmur3 RunnerLib FiDefs FiProofs FiMapProofs FiDelProofs FiIterProofs.
Import ListNotations.
Local Open Scope Z_scope.

Section Refine.
  Variable Item : Type.
  Variable eqb : Item -> Item -> bool.
  Hypothesis eqb_spec : forall a b, eqb a b = true <-> a = b.
  Variable hash : Item -> N.

  Notation cell := (cell Item).
  Notation table := (table Item).
  Notation rpmap := (rpmap Item).
  Notation sketch := (sketch Item).
  Notation slot := (slot Item).
  Notation set_slot := (set_slot Item).
  Notation ProbeInv := (ProbeInv Item hash).
  Notation has_empty := (has_empty Item).
  Notation active_cells := (active_cells Item).
  Notation abs_ents := (abs_ents Item).
  Notation tget := (tget Item eqb hash).
  Notation a_get := (a_get Item eqb).
  Notation a_add := (a_add Item eqb).
  Notation a_purge := (a_purge Item).
  Notation a_sum := (a_sum Item).
  Notation Pos := (Pos Item).
  Notation keys := (map (@fst Item Z)).
  Notation act t := (length (active_cells t)).

  (* ---------------- lists with distinct keys ---------------- *)
  Lemma a_get_pos_in (m : amap Item) y : Pos m -> In y (keys m) -> 0 < a_get m y.
  Proof.
    induction 1 as [|[k v] t Hk Ht IH]; simpl; intros Hin; [contradiction|].
    destruct (eqb k y) eqn:E; [exact Hk|]. apply IH. destruct Hin as [<-|]; auto.
    rewrite (proj2 (eqb_spec k k) eq_refl) in E. discriminate.
  Qed.

  Lemma a_get_nonneg (m : amap Item) y : Pos m -> 0 <= a_get m y.
  Proof. induction 1 as [|[k v] t Hk Ht IH]; simpl; [lia|]. destruct (eqb k y); simpl in *; lia. Qed.

  Lemma perm_of_get (l l' : amap Item) : NoDup (keys l) -> NoDup (keys l') -> Pos l -> Pos l' ->
    (forall y, a_get l y = a_get l' y) -> Permutation l l'.
  Proof.
    intros N1 N2 P1 P2 H. apply perm_of_cells; auto.
    assert (G : forall a b : amap Item, NoDup (keys a) -> Pos a -> (forall y, a_get a y = a_get b y) ->
                forall k v, In (k, v) a -> In (k, v) b).
    { intros a b Na Pa Hab k v Hin.
      pose proof (a_get_in Item eqb eqb_spec a k v Na Hin) as E.
      assert (Hv : 0 < v). { unfold FiProofs.Pos in Pa. rewrite Forall_forall in Pa. exact (Pa _ Hin). }
      rewrite Hab in E. rewrite <- E. apply a_get_nonzero_in; auto. lia. }
    intros k v. split; apply G; auto.
  Qed.

  Lemma a_get_perm (l l' : amap Item) y : NoDup (keys l) -> Permutation l l' -> a_get l y = a_get l' y.
  Proof.
    intros N1 Hp.
    assert (N2 : NoDup (keys l')) by (eapply Permutation_NoDup; [apply Permutation_map; exact Hp|exact N1]).
    destruct (in_dec (fun a b => match Bool.bool_dec (eqb a b) true with
                                 | left e => left (proj1 (eqb_spec a b) e)
                                 | right ne => right (fun e => ne (proj2 (eqb_spec a b) e)) end) y (keys l)) as [Hin|Hni].
    - apply in_map_iff in Hin. destruct Hin as [[k v] [Ek Hin]]. simpl in Ek. subst k.
      rewrite (a_get_in Item eqb eqb_spec l y v N1 Hin).
      symmetry. apply (a_get_in Item eqb eqb_spec l' y v N2). eapply Permutation_in; eauto.
    - rewrite (a_get_notin Item eqb eqb_spec l y Hni). symmetry. apply (a_get_notin Item eqb eqb_spec).
      intros Hin. apply Hni. eapply Permutation_in; [apply Permutation_sym, Permutation_map; exact Hp|exact Hin].
  Qed.

  Lemma pos_perm (l l' : amap Item) : Permutation l l' -> Pos l -> Pos l'.
  Proof. intros Hp H. unfold FiProofs.Pos in *. eapply Permutation_Forall; eauto. Qed.

  Lemma a_sum_perm (l l' : amap Item) : Permutation l l' -> a_sum l = a_sum l'.
  Proof. induction 1; simpl; lia. Qed.

  (* ---------------- table view ---------------- *)
  Lemma tget_abs (t : table) y : ProbeInv t -> tget t y = a_get (abs_ents t) y.
  Proof.
    intros Pi. destruct (present_or_absent Item eqb eqb_spec t y) as [(q & c & Hc & Ek)|Ha].
    - subst y. rewrite (tget_present Item eqb eqb_spec hash t q c Pi Hc). symmetry.
      apply (a_get_in Item eqb eqb_spec); [now apply (nodup_abs Item hash)|]. apply in_abs. exists q, c. auto.
    - rewrite (tget_absent Item eqb eqb_spec hash t y Ha). symmetry. apply (a_get_notin Item eqb eqb_spec).
      intros Hin. apply in_map_iff in Hin. destruct Hin as [[k v] [Ek Hin]]. simpl in Ek. subst k.
      apply in_abs in Hin. destruct Hin as (q & c & Hc & Ek & _). exact (Ha q c Hc Ek).
  Qed.

  Lemma act_le_length (t : table) : (act t <= length t)%nat.
  Proof. unfold FiDefs.active_cells. induction t as [|[c|] t IH]; simpl; lia. Qed.

  Lemma has_empty_of_count (t : table) : (act t < length t)%nat -> has_empty t.
  Proof.
    unfold FiMapProofs.has_empty, FiDefs.active_cells, FiDefs.slot.
    induction t as [|[c|] t IH]; simpl; intros H; [lia| |].
    - destruct IH as [e [He Hlt]]; [lia|]. exists (S e). split; [exact He|lia].
    - exists O. split; [reflexivity|lia].
  Qed.

  Lemma act_set_none_some (t : table) p c : slot t p = None -> (p < length t)%nat ->
    act (set_slot t p (Some c)) = S (act t).
  Proof.
    unfold FiDefs.active_cells, FiDefs.slot, FiDefs.set_slot. revert p.
    induction t as [|o t IH]; intros p H Hp; destruct p; simpl in *; try lia.
    - subst o. reflexivity.
    - rewrite !app_length. rewrite IH by (auto; lia). lia.
  Qed.

  Lemma slot_repeat_none n q : slot (repeat None n) q = None.
  Proof. unfold FiDefs.slot. revert q. induction n as [|n IH]; intros [|q]; simpl; auto. Qed.

  Lemma ProbeInv_empty n : ProbeInv (repeat None n).
  Proof. constructor; intros; rewrite slot_repeat_none in *; discriminate. Qed.

  Lemma act_repeat_none n : act (repeat None n) = O.
  Proof. unfold FiDefs.active_cells. induction n; simpl; auto. Qed.

  (* ---------------- raw_insert ---------------- *)
  Lemma raw_insert_full (t : table) k v : ProbeInv t -> (act t < length t)%nat -> Pos (abs_ents t) -> 0 < v ->
    let '(t', ins) := raw_insert Item eqb hash t k v in
    ProbeInv t' /\ length t' = length t /\ Pos (abs_ents t') /\
    Permutation (abs_ents t') (a_add (abs_ents t) k v) /\
    act t' = (if ins then S (act t) else act t) /\
    (forall y, tget t' y = tget t y + (if eqb k y then v else 0)).
  Proof.
    intros Pi Hcnt Hpos Hv. pose proof (has_empty_of_count t Hcnt) as He.
    pose proof (raw_insert_spec Item eqb eqb_spec hash t k v Pi He) as Hs.
    pose proof (raw_insert_correct Item eqb eqb_spec hash t k v Pi He) as Hc.
    destruct (raw_insert Item eqb hash t k v) as [t' ins].
    destruct Hc as (Pi' & Hlen & Hget & Hins).
    assert (Hperm0 : forall y, a_get (abs_ents t') y = a_get (a_add (abs_ents t) k v) y).
    { intros y. rewrite <- tget_abs by auto. rewrite Hget, tget_abs by auto. now rewrite (a_get_add Item eqb eqb_spec). }
    assert (Hact : act t' = (if ins then S (act t) else act t)).
    { destruct Hs as [[-> (q & c & Hq & _ & ->)]|[-> (_ & j & Hj & Hnone & _ & ->)]].
      - exact (act_set_some Item t q c _ Hq).
      - apply act_set_none_some; auto. apply pos_lt. lia. }
    (* positivity of the new table: every value is a value of the abstract result *)
    assert (Hpos' : Pos (abs_ents t')).
    { unfold FiProofs.Pos. rewrite Forall_forall. intros [y u] Hin. simpl.
      pose proof (a_get_in Item eqb eqb_spec _ y u (nodup_abs Item hash t' Pi') Hin) as E.
      rewrite Hperm0, (a_get_add Item eqb eqb_spec) in E.
      pose proof (a_get_nonneg (abs_ents t) y Hpos).
      destruct (eqb k y) eqn:Ek.
      - lia.
      - (* y is an old key: its old value is positive *)
        assert (Hy : In y (keys (abs_ents t))).
        { destruct Hs as [[_ (q & c & Hq & Ekq & ->)]|[_ (Habs & j & Hj & Hnone & _ & ->)]].
          - apply in_abs in Hin. destruct Hin as (q' & c' & Hc' & Ek' & _).
            destruct (Nat.eq_dec q q') as [<-|Hne].
            + rewrite (slot_set_eq Item) in Hc' by (apply (slot_lt Item) in Hq; exact Hq). inversion Hc'; subst c'. simpl in Ek'.
              apply in_map_iff. exists (ck _ c, cv _ c). split; [exact Ek'|]. apply in_abs. exists q, c. auto.
            + rewrite (slot_set_neq Item) in Hc' by auto.
              apply in_map_iff. exists (ck _ c', cv _ c'). split; [exact Ek'|]. apply in_abs. exists q', c'. auto.
          - apply in_abs in Hin. destruct Hin as (q' & c' & Hc' & Ek' & _).
            set (p := pos (length t) (home Item hash t k) j) in *.
            destruct (Nat.eq_dec p q') as [<-|Hne].
            + rewrite (slot_set_eq Item) in Hc' by (apply pos_lt; lia). inversion Hc'; subst c'. simpl in Ek'. subst y.
              rewrite (proj2 (eqb_spec k k) eq_refl) in Ek. discriminate.
            + rewrite (slot_set_neq Item) in Hc' by auto.
              apply in_map_iff. exists (ck _ c', cv _ c'). split; [exact Ek'|]. apply in_abs. exists q', c'. auto. }
        pose proof (a_get_pos_in _ y Hpos Hy). lia. }
    split; [exact Pi'|]. split; [exact Hlen|]. split; [exact Hpos'|]. split; [|split; [exact Hact|exact Hget]].
    apply perm_of_get; auto.
    - now apply (nodup_abs Item hash).
    - apply (nodup_add Item eqb eqb_spec). now apply (nodup_abs Item hash).
    - now apply pos_add.
  Qed.

  (* ---------------- inserting a list of cells (resize, and the replay of merge / deserialize) ---------------- *)
  Definition cells_weight (l : list cell) (y : Item) : Z :=
    fold_right (fun c acc => if eqb (ck _ c) y then cv _ c + acc else acc) 0 l.

  Lemma cells_weight_notin (l : list cell) y : (forall c, In c l -> ck _ c <> y) -> cells_weight l y = 0.
  Proof.
    induction l as [|c l IH]; simpl; intros H; auto.
    destruct (eqb (ck _ c) y) eqn:E.
    - apply eqb_spec in E. exfalso. apply (H c); auto.
    - apply IH. intros c' Hc'. apply H. now right.
  Qed.

  Lemma cells_weight_get (l : list cell) y : NoDup (map (ck Item) l) ->
    cells_weight l y = a_get (map (fun c => (ck _ c, cv _ c)) l) y.
  Proof.
    induction l as [|c l IH]; simpl; intros Hnd; auto. inversion Hnd as [|? ? Hni Hnd']; subst.
    destruct (eqb (ck _ c) y) eqn:E; [|now apply IH].
    apply eqb_spec in E. subst y. rewrite cells_weight_notin; [lia|].
    intros c' Hc' Ek. apply Hni. apply in_map_iff. exists c'. auto.
  Qed.

  Lemma cells_weight_perm (l l' : list cell) y : Permutation l l' -> cells_weight l y = cells_weight l' y.
  Proof.
    induction 1; simpl; auto; try lia.
    - now rewrite IHPermutation.
    - destruct (eqb (ck _ x) y), (eqb (ck _ y0) y); lia.
  Qed.

  Lemma cells_weight_table (t : table) y : ProbeInv t -> cells_weight (active_cells t) y = tget t y.
  Proof.
    intros Pi. rewrite tget_abs by auto. unfold FiDefs.abs_ents. apply cells_weight_get.
    rewrite <- (keys_abs Item). now apply (nodup_abs Item hash).
  Qed.

  Definition ins_step (st : table * Z) (o : option cell) : table * Z :=
    match o with
    | None => st
    | Some c => let '(t, n) := st in
                let '(t', i) := raw_insert Item eqb hash t (ck _ c) (cv _ c) in
                (t', if i then n + 1 else n)
    end.

  Lemma ins_fold (l : table) : forall (t : table) n, ProbeInv t -> Pos (abs_ents t) -> n = Z.of_nat (act t) ->
    (act t + act l < length t)%nat -> (forall c, In (Some c) l -> 0 < cv _ c) ->
    let '(t', n') := fold_left ins_step l (t, n) in
    ProbeInv t' /\ length t' = length t /\ Pos (abs_ents t') /\ n' = Z.of_nat (act t') /\
    (forall y, tget t' y = tget t y + cells_weight (active_cells l) y).
  Proof.
    induction l as [|o l IH]; intros t n Pi Hpos Hn Hcnt Hv.
    - cbn [fold_left]. split; [exact Pi|]. split; [reflexivity|]. split; [exact Hpos|]. split; [exact Hn|].
      intros y. unfold FiDefs.active_cells, cells_weight. cbn [flat_map fold_right]. lia.
    - destruct o as [c|].
      + assert (Hcnt1 : (act t < length t)%nat) by (unfold FiDefs.active_cells in *; simpl in Hcnt; lia).
        pose proof (raw_insert_full t (ck _ c) (cv _ c) Pi Hcnt1 Hpos (Hv c (or_introl eq_refl))) as H1.
        cbn [fold_left ins_step].
        destruct (raw_insert Item eqb hash t (ck _ c) (cv _ c)) as [t1 i].
        destruct H1 as (Pi1 & Hlen1 & Hpos1 & _ & Hact1 & Hget1).
        specialize (IH t1 (if i then n + 1 else n) Pi1 Hpos1).
        destruct (fold_left ins_step l (t1, if i then n + 1 else n)) as [t' n'].
        destruct IH as (Pi' & Hlen' & Hpos' & Hn' & Hget').
        * rewrite Hact1. destruct i; lia.
        * rewrite Hlen1, Hact1. unfold FiDefs.active_cells in *. simpl in Hcnt. destruct i; lia.
        * intros c' Hc'. apply Hv. now right.
        * split; [exact Pi'|]. split; [lia|]. split; [exact Hpos'|]. split; [exact Hn'|].
          intros y. rewrite Hget', Hget1. unfold FiDefs.active_cells. simpl. fold (active_cells l).
          destruct (eqb (ck _ c) y); lia.
      + cbn [fold_left ins_step]. specialize (IH t n Pi Hpos Hn).
        destruct (fold_left ins_step l (t, n)) as [t' n'].
        apply IH; [unfold FiDefs.active_cells in *; simpl in Hcnt; exact Hcnt|].
        intros c Hc. apply Hv. now right.
  Qed.

  (* ---------------- well-formed maps ---------------- *)
  Record MapWf (m : rpmap) : Prop := {
    w_pi : ProbeInv (tab _ m);
    w_len : length (tab _ m) = (2 ^ N.to_nat (lgc _ m))%nat;
    w_min : (3 <= lgc _ m)%N;
    w_le : (lgc _ m <= lgm _ m)%N;
    w_nact : nact _ m = Z.of_nat (act (tab _ m));
    w_cap : nact _ m <= capacity Item (tab _ m);
    w_pos : Pos (abs_ents (tab _ m))
  }.

  Lemma pow2_ge8 k : (3 <= k)%nat -> (8 <= 2 ^ k)%nat.
  Proof. intros H. change 8%nat with (2 ^ 3)%nat. apply Nat.pow_le_mono_r; lia. Qed.

  Lemma wf_len8 m : MapWf m -> (8 <= length (tab _ m))%nat.
  Proof. intros W. rewrite (w_len m W). apply pow2_ge8. pose proof (w_min m W). lia. Qed.

  Ltac Zify.zify_post_hook ::= Z.div_mod_to_equations.

  Lemma cap_lt (t : table) : (1 <= length t)%nat -> capacity Item t < Z.of_nat (length t).
  Proof. intros H. unfold capacity. lia. Qed.

  Lemma wf_act_lt m : MapWf m -> (act (tab _ m) < length (tab _ m))%nat.
  Proof.
    intros W. pose proof (wf_len8 m W). pose proof (cap_lt (tab _ m) ltac:(lia)).
    pose proof (w_cap m W). pose proof (w_nact m W). lia.
  Qed.

  Lemma in_firstn {A} (x : A) n l : In x (firstn n l) -> In x l.
  Proof. intros H. rewrite <- (firstn_skipn n l). apply in_or_app. now left. Qed.

  Lemma purge_length_le (m : amap Item) d : (length (a_purge m d) <= length m)%nat.
  Proof.
    unfold FiDefs.a_purge. induction m as [|[k v] m IH]; simpl; [lia|].
    destruct (0 <? v - d); simpl; lia.
  Qed.

  Lemma purge_length_lt (m : amap Item) k d : In (k, d) m -> (length (a_purge m d) < length m)%nat.
  Proof.
    induction m as [|[k' v] m IH]; intros H; [contradiction|].
    pose proof (purge_length_le m d) as Hle.
    unfold FiDefs.a_purge in *. simpl.
    destruct H as [E|H].
    - inversion E. subst. replace (0 <? d - d) with false by (symmetry; apply Z.ltb_ge; lia). lia.
    - specialize (IH H). destruct (0 <? v - d); simpl; lia.
  Qed.

  (* ---------------- purge ---------------- *)
  Definition samples_of (t : table) (n : Z) : list Z := firstn (Z.to_nat (Z.min 1024 n)) (map (cv Item) (active_cells t)).

  Lemma purge_correct (m1 : rpmap) : ProbeInv (tab _ m1) -> Pos (abs_ents (tab _ m1)) ->
    nact _ m1 = Z.of_nat (act (tab _ m1)) -> 1 <= nact _ m1 -> (act (tab _ m1) < length (tab _ m1))%nat ->
    let '(m2, d) := purge Item m1 in
    d = median (samples_of (tab _ m1) (nact _ m1)) /\ 0 < d /\
    ProbeInv (tab _ m2) /\ length (tab _ m2) = length (tab _ m1) /\ Pos (abs_ents (tab _ m2)) /\
    nact _ m2 = Z.of_nat (act (tab _ m2)) /\ nact _ m2 < nact _ m1 /\
    lgc _ m2 = lgc _ m1 /\ lgm _ m2 = lgm _ m1 /\
    Permutation (abs_ents (tab _ m2)) (a_purge (abs_ents (tab _ m1)) d).
  Proof.
    intros Pi Hpos Hn H1 Hlt. unfold purge. fold (samples_of (tab _ m1) (nact _ m1)).
    set (smp := samples_of (tab _ m1) (nact _ m1)). set (d := median smp).
    pose proof (subtract_kpo_correct Item hash (tab _ m1) (nact _ m1) d Pi (has_empty_of_count _ Hlt)) as Hs.
    destruct (subtract_kpo Item (tab _ m1) (nact _ m1) d) as [t2 n2].
    destruct Hs as (Pi2 & Hlen2 & _ & Hperm & Hcnt). simpl.
    assert (Hne : smp <> []).
    { unfold smp, samples_of. intros E. apply (f_equal (@length Z)) in E. rewrite firstn_length, map_length in E.
      simpl in E. lia. }
    pose proof (median_in smp Hne) as Hin. fold d in Hin.
    unfold smp, samples_of in Hin. apply in_firstn in Hin. apply in_map_iff in Hin. destruct Hin as [c [Ec Hc]].
    assert (Hent : In (ck _ c, d) (abs_ents (tab _ m1))).
    { unfold FiDefs.abs_ents. apply in_map_iff. exists c. split; [now rewrite Ec|exact Hc]. }
    assert (Hd : 0 < d).
    { unfold FiProofs.Pos in Hpos. rewrite Forall_forall in Hpos. exact (Hpos _ Hent). }
    assert (Hact2 : (act t2 < act (tab _ m1))%nat).
    { rewrite <- !(abs_length Item). rewrite (Permutation_length Hperm). now apply (purge_length_lt _ (ck _ c)). }
    split; [reflexivity|]. split; [exact Hd|]. split; [exact Pi2|]. split; [exact Hlen2|].
    split; [eapply pos_perm; [apply Permutation_sym; exact Hperm|apply pos_purge]|].
    split; [lia|]. split; [lia|]. split; [reflexivity|]. split; [reflexivity|exact Hperm].
  Qed.

  (* ---------------- resize ---------------- *)
  Lemma resize_correct (m1 : rpmap) : ProbeInv (tab _ m1) -> Pos (abs_ents (tab _ m1)) ->
    (1 <= length (tab _ m1))%nat ->
    let m2 := resize Item eqb hash m1 in
    ProbeInv (tab _ m2) /\ length (tab _ m2) = (2 * length (tab _ m1))%nat /\ Pos (abs_ents (tab _ m2)) /\
    nact _ m2 = Z.of_nat (act (tab _ m2)) /\ lgc _ m2 = (lgc _ m1 + 1)%N /\ lgm _ m2 = lgm _ m1 /\
    Permutation (abs_ents (tab _ m2)) (abs_ents (tab _ m1)).
  Proof.
    intros Pi Hpos Hlen1. unfold resize.
    set (t0 := repeat None (2 * length (tab _ m1)) : table).
    assert (Hl0 : length t0 = (2 * length (tab _ m1))%nat) by apply repeat_length.
    pose proof (ins_fold (tab _ m1) t0 0 (ProbeInv_empty _)) as H.
    change (fold_left _ (tab Item m1) (t0, 0)) with (fold_left ins_step (tab _ m1) (t0, 0)).
    destruct (fold_left ins_step (tab _ m1) (t0, 0)) as [t n].
    destruct H as (Pi' & Hlen' & Hpos' & Hn' & Hget').
    - unfold t0, FiDefs.abs_ents. rewrite (proj1 (length_zero_iff_nil _) (act_repeat_none _)). constructor.
    - unfold t0. now rewrite act_repeat_none.
    - unfold t0 at 1. rewrite act_repeat_none, Hl0. pose proof (act_le_length (tab _ m1)). lia.
    - intros c Hc. unfold FiProofs.Pos in Hpos. rewrite Forall_forall in Hpos.
      apply (Hpos (ck _ c, cv _ c)). unfold FiDefs.abs_ents. apply in_map_iff. exists c. split; auto.
      apply (in_active Item). apply (In_nth _ _ None) in Hc. destruct Hc as [q [_ Hq]]. now exists q.
    - simpl. split; [exact Pi'|]. split; [lia|]. split; [exact Hpos'|]. split; [exact Hn'|].
      split; [reflexivity|]. split; [reflexivity|].
      apply perm_of_get; auto; try (now apply (nodup_abs Item hash)).
      intros y. rewrite <- !tget_abs by auto. rewrite Hget', cells_weight_table by auto.
      rewrite (tget_absent Item eqb eqb_spec hash t0 y); [lia|].
      intros q c Hc. unfold t0 in Hc. rewrite slot_repeat_none in Hc. discriminate.
  Qed.

  (* ---------------- adjust_or_insert ---------------- *)
  Lemma a_purge_perm (l l' : amap Item) d : Permutation l l' -> Permutation (a_purge l d) (a_purge l' d).
  Proof.
    unfold FiDefs.a_purge. induction 1 as [|[k v] l l' H IH|[k v] [k' v'] l|l l' l'' H1 IH1 H2 IH2]; simpl.
    - constructor.
    - destruct (0 <? v - d); [now constructor|exact IH].
    - destruct (0 <? v - d), (0 <? v' - d); try apply Permutation_refl. apply perm_swap.
    - eapply perm_trans; eauto.
  Qed.

  Lemma pow2_succ lg : (2 ^ N.to_nat (lg + 1) = 2 * 2 ^ N.to_nat lg)%nat.
  Proof. rewrite N2Nat.inj_add. change (N.to_nat 1) with 1%nat. rewrite Nat.add_1_r. apply Nat.pow_succ_r'. Qed.

  Lemma capacity_len (t t' : table) : length t' = length t -> capacity Item t' = capacity Item t.
  Proof. intros E. unfold capacity. now rewrite E. Qed.

  Lemma aoi_correct (m : rpmap) k v : MapWf m -> 0 < v ->
    let '(m', d) := adjust_or_insert Item eqb hash m k v in
    MapWf m' /\ 0 <= d /\ lgm _ m' = lgm _ m /\
    (exists purged : bool,
        Permutation (abs_ents (tab _ m'))
                    (if purged then a_purge (a_add (abs_ents (tab _ m)) k v) d else a_add (abs_ents (tab _ m)) k v) /\
        (purged = false -> d = 0) /\
        (purged = true -> 0 < d /\ lgc _ m = lgm _ m /\
            exists t1 : table, Permutation (abs_ents t1) (a_add (abs_ents (tab _ m)) k v) /\
                               d = median (samples_of t1 (Z.of_nat (act t1))) /\
                               capacity Item (tab _ m) < Z.of_nat (act t1))) /\
    (nact _ m + 1 <= capacity Item (tab _ m) ->
       d = 0 /\ length (tab _ m') = length (tab _ m) /\ nact _ m' <= nact _ m + 1).
  Proof.
    intros W Hv. unfold adjust_or_insert.
    pose proof (raw_insert_full (tab _ m) k v (w_pi m W) (wf_act_lt m W) (w_pos m W) Hv) as H1.
    destruct (raw_insert Item eqb hash (tab _ m) k v) as [t i].
    destruct H1 as (Pi1 & Hlen1 & Hpos1 & Hperm1 & Hact1 & _).
    pose proof (wf_len8 m W) as H8. pose proof (w_nact m W) as Hn. pose proof (w_cap m W) as Hc.
    pose proof (capacity_len (tab _ m) t Hlen1) as Hcap1.
    destruct i.
    - (* a new key was inserted *)
      cbn [nact tab lgc lgm]. rewrite Hcap1.
      destruct (Z.ltb_spec (capacity Item (tab _ m)) (nact _ m + 1)) as [Hover|Hfit].
      + destruct (N.ltb_spec (lgc _ m) (lgm _ m)) as [Hgrow|Hfull];
          set (m1 := {| lgc := lgc _ m; lgm := lgm _ m; nact := nact _ m + 1; tab := t |}).
        * (* resize *)
          pose proof (resize_correct m1 Pi1 Hpos1 ltac:(simpl; lia)) as Hr. cbv zeta in Hr.
          set (m2 := resize Item eqb hash m1) in *.
          destruct Hr as (Pi2 & Hlen2 & Hpos2 & Hn2 & Hlgc2 & Hlgm2 & Hperm2). simpl in Hlen2, Hlgc2, Hlgm2, Hperm2.
          assert (Hact2 : act (tab _ m2) = act t).
          { rewrite <- !(abs_length Item). now apply Permutation_length. }
          split; [|split; [lia|split; [exact Hlgm2|split]]].
          -- constructor; auto.
             ++ rewrite Hlen2, Hlgc2, pow2_succ, Hlen1, (w_len m W). reflexivity.
             ++ rewrite Hlgc2. pose proof (w_min m W). lia.
             ++ rewrite Hlgc2, Hlgm2. lia.
             ++ rewrite Hn2, Hact2, Hact1. unfold capacity in *. rewrite Hlen2, Hlen1. lia.
          -- exists false. split; [eapply perm_trans; eauto|]. split; [reflexivity|discriminate].
          -- intros Hfit. lia.
        * (* purge *)
          pose proof (purge_correct m1 Pi1 Hpos1) as Hp. simpl in Hp.
          destruct (purge Item m1) as [m2 d].
          destruct Hp as (Ed & Hd & Pi2 & Hlen2 & Hpos2 & Hn2 & Hlt2 & Hlgc2 & Hlgm2 & Hperm2); try lia.
          { rewrite Hact1, Hlen1. unfold capacity in Hc. lia. }
          split; [|split; [lia|split; [exact Hlgm2|split]]].
          -- constructor; auto.
             ++ rewrite Hlen2, Hlgc2, Hlen1. exact (w_len m W).
             ++ rewrite Hlgc2. exact (w_min m W).
             ++ rewrite Hlgc2, Hlgm2. exact (w_le m W).
             ++ rewrite (capacity_len t (tab _ m2) Hlen2), Hcap1. lia.
          -- exists true. split; [|split; [discriminate|]].
             ++ eapply perm_trans; [exact Hperm2|]. now apply a_purge_perm.
             ++ intros _. split; [exact Hd|]. split; [pose proof (w_le m W); lia|].
                exists t. split; [exact Hperm1|]. split; [rewrite Ed; f_equal; rewrite Hact1; f_equal; lia|].
                rewrite Hact1. lia.
          -- intros Hfit. lia.
      + (* it fits *)
        split; [|split; [lia|split; [reflexivity|split]]].
        * constructor; cbn [nact tab lgc lgm]; auto.
          -- rewrite Hlen1. exact (w_len m W).
          -- exact (w_min m W).
          -- exact (w_le m W).
          -- rewrite Hact1. lia.
          -- rewrite Hcap1. lia.
        * exists false. split; [exact Hperm1|]. split; [reflexivity|discriminate].
        * intros _. cbn [nact tab]. split; [reflexivity|]. split; [exact Hlen1|lia].
    - (* an existing counter was adjusted *)
      split; [|split; [lia|split; [reflexivity|split]]].
      + constructor; cbn [nact tab lgc lgm]; auto.
        * rewrite Hlen1. exact (w_len m W).
        * exact (w_min m W).
        * exact (w_le m W).
        * rewrite Hact1. exact Hn.
        * rewrite Hcap1. exact Hc.
      + exists false. split; [exact Hperm1|]. split; [reflexivity|discriminate].
      + intros _. cbn [nact tab]. split; [reflexivity|]. split; [exact Hlen1|lia].
  Qed.

  (* ---------------- the sketch ---------------- *)
  Notation sk_lb := (sk_lb Item eqb hash).
  Notation sk_ub := (sk_ub Item eqb hash).
  Notation sk_est := (sk_est Item eqb hash).
  Notation sk_update := (sk_update Item eqb hash).
  Notation sk_replay := (sk_replay Item eqb hash).
  Notation sk_merge := (sk_merge Item eqb hash).
  Notation sk_roundtrip := (sk_roundtrip Item eqb hash).

  Lemma sk_lb_tget (s : sketch) x : sk_lb s x = tget (tab _ (sk_map _ s)) x.
  Proof. reflexivity. Qed.

  (* t = true weight of every item, T = true total weight *)
  Record SkInv (s : sketch) (t : Item -> Z) (T : Z) : Prop := {
    k_wf : MapWf (sk_map _ s);
    k_off : 0 <= sk_off _ s;
    k_tot : sk_tot _ s = T;
    k_T : 0 <= T;
    k_zero : T = 0 -> sk_off _ s = 0 /\ nact _ (sk_map _ s) = 0;
    k_br : forall x, sk_lb s x <= t x <= sk_lb s x + sk_off _ s
  }.

  Lemma SkInv_ext s t t' T T' : (forall x, t x = t' x) -> T = T' -> SkInv s t T -> SkInv s t' T'.
  Proof. intros E ET [A B C D F G]. subst T'. constructor; auto. intros x. rewrite <- E. apply G. Qed.

  Lemma lb_nonneg s t T x : SkInv s t T -> 0 <= sk_lb s x.
  Proof.
    intros K. rewrite sk_lb_tget, tget_abs by exact (w_pi _ (k_wf s t T K)).
    apply a_get_nonneg. exact (w_pos _ (k_wf s t T K)).
  Qed.

  Lemma lb_zero_of_nact0 s t T x : SkInv s t T -> nact _ (sk_map _ s) = 0 -> sk_lb s x = 0.
  Proof.
    intros K H0. pose proof (k_wf s t T K) as W. rewrite sk_lb_tget, tget_abs by exact (w_pi _ W).
    rewrite (w_nact _ W) in H0. rewrite <- (abs_length Item) in H0.
    destruct (abs_ents (tab _ (sk_map _ s))); [reflexivity|simpl in H0; lia].
  Qed.

  Lemma SkInv_new lg_max lg_start : (lg_start <= lg_max)%N -> SkInv (sk_new Item lg_max lg_start) (fun _ => 0) 0.
  Proof.
    intros Hle. unfold sk_new.
    set (c := N.max lg_start 3). set (t0 := repeat None (2 ^ N.to_nat c) : table).
    assert (Habs : abs_ents t0 = []).
    { unfold FiDefs.abs_ents, t0. now rewrite (proj1 (length_zero_iff_nil _) (act_repeat_none _)). }
    constructor; cbn [sk_map sk_off sk_tot]; try lia.
    - constructor; cbn [tab lgc lgm nact].
      + apply ProbeInv_empty.
      + apply repeat_length.
      + unfold c. lia.
      + unfold c. lia.
      + fold t0. unfold t0. now rewrite act_repeat_none.
      + unfold capacity. lia.
      + fold t0. rewrite Habs. constructor.
    - intros _. split; reflexivity.
    - intros x. rewrite sk_lb_tget. cbn [sk_map tab]. fold t0.
      rewrite (tget_absent Item eqb eqb_spec hash t0 x); [lia|].
      intros q c0 Hc0. unfold t0 in Hc0. rewrite slot_repeat_none in Hc0. discriminate.
  Qed.

  Lemma SkInv_update s t T k w : SkInv s t T -> 0 <= w ->
    SkInv (sk_update s k w) (fun y => t y + (if eqb k y then w else 0)) (T + w).
  Proof.
    intros K Hw. unfold sk_update. destruct (Z.eqb_spec w 0) as [->|Hw0].
    - eapply SkInv_ext; [| |exact K]; [intros x; destruct (eqb k x); lia|lia].
    - destruct K as [W Hoff Htot HT Hzero Hbr].
      pose proof (aoi_correct (sk_map _ s) k w W ltac:(lia)) as H.
      destruct (adjust_or_insert Item eqb hash (sk_map _ s) k w) as [m' d].
      destruct H as (W' & Hd & _ & (purged & Hperm & Hnp & Hp) & _).
      constructor; cbn [sk_map sk_off sk_tot]; try lia; [exact W'|].
      intros x. rewrite sk_lb_tget. cbn [sk_map].
      + rewrite tget_abs by exact (w_pi _ W').
        pose proof (nodup_abs Item hash _ (w_pi _ W')) as Nd'.
        pose proof (nodup_abs Item hash _ (w_pi _ W)) as Nd.
        rewrite (a_get_perm _ _ x Nd' Hperm).
        specialize (Hbr x). rewrite sk_lb_tget, tget_abs in Hbr by exact (w_pi _ W).
        pose proof (a_get_nonneg (abs_ents (tab _ (sk_map _ s))) x (w_pos _ W)).
        destruct purged.
        * rewrite (a_get_purge Item eqb eqb_spec) by (try lia; apply (nodup_add Item eqb eqb_spec); exact Nd).
          rewrite (a_get_add Item eqb eqb_spec). destruct (eqb k x); lia.
        * rewrite (Hnp eq_refl). rewrite (a_get_add Item eqb eqb_spec). destruct (eqb k x); lia.
  Qed.

  Definition cells_total (l : list cell) : Z := fold_right (fun c acc => cv _ c + acc) 0 l.

  Lemma SkInv_replay (l : list cell) : forall s t T, SkInv s t T -> (forall c, In c l -> 0 < cv _ c) ->
    SkInv (sk_replay s l) (fun y => t y + cells_weight l y) (T + cells_total l).
  Proof.
    unfold FiDefs.sk_replay. induction l as [|c l IH]; intros s t T K Hv; simpl.
    - eapply SkInv_ext; [| |exact K]; [intros; lia|lia].
    - pose proof (SkInv_update s t T (ck _ c) (cv _ c) K ltac:(specialize (Hv c (or_introl eq_refl)); lia)) as K1.
      specialize (IH _ _ _ K1 (fun c' H => Hv c' (or_intror H))).
      eapply SkInv_ext; [| |exact IH]; [|lia].
      intros x. cbv beta. destruct (eqb (ck _ c) x); lia.
  Qed.

  Lemma entries_active (m : rpmap) : MapWf m -> Permutation (entries Item m) (active_cells (tab _ m)).
  Proof. intros W. apply (entries_perm Item m (N.to_nat (lgc _ m))); [exact (w_len m W)|exact (w_nact m W)]. Qed.

  Lemma entries_pos (m : rpmap) c : MapWf m -> In c (entries Item m) -> 0 < cv _ c.
  Proof.
    intros W Hin. apply (Permutation_in _ (entries_active m W)) in Hin.
    pose proof (w_pos m W) as Hp. unfold FiProofs.Pos in Hp. rewrite Forall_forall in Hp.
    apply (Hp (ck _ c, cv _ c)). unfold FiDefs.abs_ents. apply in_map_iff. exists c. auto.
  Qed.

  Lemma entries_weight (m : rpmap) y : MapWf m -> cells_weight (entries Item m) y = tget (tab _ m) y.
  Proof.
    intros W. rewrite (cells_weight_perm _ _ y (entries_active m W)). apply cells_weight_table. exact (w_pi m W).
  Qed.

  Lemma SkInv_merge a ta Ta b tb Tb : SkInv a ta Ta -> SkInv b tb Tb ->
    SkInv (sk_merge a b) (fun y => ta y + tb y) (Ta + Tb).
  Proof.
    intros Ka Kb. unfold FiDefs.sk_merge.
    destruct ((nact _ (sk_map _ b) =? 0) && (sk_tot _ b =? 0)) eqn:Ee.
    - apply andb_true_iff in Ee. destruct Ee as [E1 E2]. apply Z.eqb_eq in E1, E2.
      assert (ETb : Tb = 0) by (rewrite <- (k_tot b tb Tb Kb); exact E2).
      destruct (k_zero b tb Tb Kb ETb) as [Hoffb _].
      eapply SkInv_ext; [| |exact Ka]; [|lia].
      intros x. pose proof (k_br b tb Tb Kb x) as Hb. rewrite (lb_zero_of_nact0 b tb Tb x Kb E1) in Hb. lia.
    - set (a' := sk_replay a (entries Item (sk_map _ b))).
      pose proof (k_wf b tb Tb Kb) as Wb.
      pose proof (SkInv_replay (entries Item (sk_map _ b)) a ta Ta Ka (fun c H => entries_pos _ c Wb H)) as Ka'.
      fold a' in Ka'. destruct Ka' as [W' Hoff' Htot' HT' Hzero' Hbr'].
      constructor; cbn [sk_map sk_off sk_tot].
      + exact W'.
      + pose proof (k_off b tb Tb Kb). lia.
      + rewrite (k_tot a ta Ta Ka), (k_tot b tb Tb Kb). reflexivity.
      + pose proof (k_T a ta Ta Ka). pose proof (k_T b tb Tb Kb). lia.
      + intros E0. exfalso.
        pose proof (k_T a ta Ta Ka). pose proof (k_T b tb Tb Kb).
        assert (ETb : Tb = 0) by lia. destruct (k_zero b tb Tb Kb ETb) as [_ Hn0].
        rewrite Hn0, (k_tot b tb Tb Kb), ETb in Ee. discriminate.
      + intros x. specialize (Hbr' x). cbv beta in Hbr'. rewrite entries_weight in Hbr' by exact Wb.
        pose proof (k_br b tb Tb Kb x) as Hb. rewrite sk_lb_tget in Hb.
        change (sk_lb {| sk_tot := sk_tot _ a + sk_tot _ b; sk_off := sk_off _ a' + sk_off _ b; sk_map := sk_map _ a' |} x)
          with (sk_lb a' x). lia.
  Qed.

  (* no purge and no resize while the counters fit *)
  Lemma replay_fits (l : list cell) : forall s, MapWf (sk_map _ s) -> (forall c, In c l -> 0 < cv _ c) ->
    nact _ (sk_map _ s) + Z.of_nat (length l) <= capacity Item (tab _ (sk_map _ s)) ->
    sk_off _ (sk_replay s l) = sk_off _ s.
  Proof.
    unfold FiDefs.sk_replay. induction l as [|c l IH]; intros s W Hv Hfit; simpl; [reflexivity|].
    assert (Hc : 0 < cv _ c) by (apply Hv; now left).
    unfold FiDefs.sk_update at 2. destruct (Z.eqb_spec (cv _ c) 0) as [E|_]; [lia|].
    pose proof (aoi_correct (sk_map _ s) (ck _ c) (cv _ c) W Hc) as H.
    destruct (adjust_or_insert Item eqb hash (sk_map _ s) (ck _ c) (cv _ c)) as [m' d].
    destruct H as (W' & _ & _ & _ & Hf). simpl length in Hfit.
    destruct Hf as (Hd & Hlen & Hn); [lia|].
    rewrite IH; cbn [sk_map sk_off]; auto.
    - lia.
    - intros c' Hc'. apply Hv. now right.
    - rewrite (capacity_len _ _ Hlen). lia.
  Qed.

  Lemma SkInv_roundtrip s t T : SkInv s t T -> nact _ (sk_map _ s) <> 0 \/ T = 0 ->
    SkInv (sk_roundtrip s) t T.
  Proof.
    intros K Hne. pose proof (k_wf s t T K) as W. unfold FiDefs.sk_roundtrip.
    set (m := sk_map _ s) in *.
    assert (Hnew : SkInv (sk_new Item (lgm _ m) (lgc _ m)) (fun _ => 0) 0) by (apply SkInv_new; exact (w_le m W)).
    destruct (Z.eqb_spec (nact _ m) 0) as [E0|N0].
    - destruct Hne as [Hne|ET]; [contradiction|]. subst T.
      destruct (k_zero s t 0 K eq_refl) as [Hoff _].
      eapply SkInv_ext; [| |exact Hnew]; [|reflexivity].
      intros x. pose proof (k_br s t 0 K x) as Hb. rewrite (lb_zero_of_nact0 s t 0 x K E0) in Hb. cbv beta. lia.
    - set (s0 := sk_new Item (lgm _ m) (lgc _ m)) in *.
      pose proof (SkInv_replay (entries Item m) s0 _ _ Hnew (fun c H => entries_pos _ c W H)) as K1.
      assert (Hoff1 : sk_off _ (sk_replay s0 (entries Item m)) = 0).
      { rewrite replay_fits; [reflexivity|exact (k_wf _ _ _ Hnew)|exact (fun c H => entries_pos _ c W H)|].
        unfold s0, sk_new. cbn [sk_map nact tab].
        rewrite (Permutation_length (entries_active m W)).
        replace (N.max (lgc _ m) 3) with (lgc _ m) by (pose proof (w_min m W); lia).
        rewrite <- (w_nact m W). pose proof (w_cap m W) as Hc. unfold capacity in *.
        rewrite repeat_length, <- (w_len m W). lia. }
      set (s1 := sk_replay s0 (entries Item m)) in *.
      destruct K1 as [W1 _ _ _ _ Hbr1].
      constructor; cbn [sk_map sk_off sk_tot].
      + exact W1.
      + exact (k_off s t T K).
      + exact (k_tot s t T K).
      + exact (k_T s t T K).
      + intros ET. exfalso. destruct (k_zero s t T K ET) as [_ Hn0]. fold m in Hn0. contradiction.
      + intros x. specialize (Hbr1 x). cbv beta in Hbr1. rewrite Hoff1, entries_weight in Hbr1 by exact W.
        pose proof (k_br s t T K x) as Hb. rewrite sk_lb_tget in Hb. fold m in Hb.
        change (sk_lb {| sk_tot := sk_tot _ s; sk_off := sk_off _ s; sk_map := sk_map _ s1 |} x) with (sk_lb s1 x). lia.
  Qed.

  (* ---------------- every history of the executable model ---------------- *)
  Inductive SReach : sketch -> (Item -> Z) -> Z -> Prop :=
  | SR_new lg_max lg_start : (lg_start <= lg_max)%N -> SReach (sk_new Item lg_max lg_start) (fun _ => 0) 0
  | SR_update s t T k w : SReach s t T -> 0 <= w ->
      SReach (sk_update s k w) (fun y => t y + (if eqb k y then w else 0)) (T + w)
  | SR_merge a ta Ta b tb Tb : SReach a ta Ta -> SReach b tb Tb ->
      SReach (sk_merge a b) (fun y => ta y + tb y) (Ta + Tb)
  | SR_roundtrip s t T : SReach s t T -> nact _ (sk_map _ s) <> 0 \/ T = 0 -> SReach (sk_roundtrip s) t T.

  Lemma SReach_SkInv s t T : SReach s t T -> SkInv s t T.
  Proof.
    induction 1.
    - now apply SkInv_new.
    - now apply SkInv_update.
    - now apply SkInv_merge.
    - now apply SkInv_roundtrip.
  Qed.

  Lemma SkInv_getters s t T x : SkInv s t T ->
    sk_lb s x <= t x <= sk_ub s x /\
    sk_lb s x <= sk_est s x <= sk_ub s x /\
    sk_ub s x - sk_lb s x = sk_off _ s /\
    sk_tot _ s = T.
  Proof.
    intros K.
    pose proof (k_br s t T K x) as Hb. pose proof (k_off s t T K) as Ho. pose proof (lb_nonneg s t T x K) as Hl.
    unfold FiDefs.sk_ub, FiDefs.sk_est. fold (sk_lb s x).
    pose proof (k_tot s t T K) as Ht.
    destruct (Z.ltb_spec 0 (sk_lb s x)); repeat split; try lia.
  Qed.

  Theorem sk_bracket s t T x : SReach s t T ->
    sk_lb s x <= t x <= sk_ub s x /\
    sk_lb s x <= sk_est s x <= sk_ub s x /\
    sk_ub s x - sk_lb s x = sk_off _ s /\
    sk_tot _ s = T.
  Proof.
    intros R. pose proof (SReach_SkInv s t T R) as K.
    pose proof (k_br s t T K x) as Hb. pose proof (k_off s t T K) as Ho. pose proof (lb_nonneg s t T x K) as Hl.
    unfold FiDefs.sk_ub, FiDefs.sk_est. fold (sk_lb s x).
    pose proof (k_tot s t T K) as Ht.
    destruct (Z.ltb_spec 0 (sk_lb s x)); repeat split; try lia.
  Qed.

  (* ---------------- get_frequent_items ---------------- *)
  Notation sk_rows := (sk_rows Item).

  Lemma rows_in nfn s thr c t T : SkInv s t T ->
    (In c (sk_rows nfn s thr) <->
     (exists q, slot (tab _ (sk_map _ s)) q = Some c) /\
     (if nfn then thr <? cv _ c + sk_off _ s else thr <? cv _ c) = true).
  Proof.
    intros K. unfold FiDefs.sk_rows. rewrite filter_In.
    pose proof (entries_active _ (k_wf s t T K)) as Hp.
    split; intros [H1 H2]; (split; [|exact H2]).
    - apply (in_active Item). eapply Permutation_in; eauto.
    - apply (in_active Item) in H1. eapply Permutation_in; [apply Permutation_sym|]; eauto.
  Qed.

  Theorem sk_no_false_negatives s t T thr x : SReach s t T -> sk_off _ s <= thr -> thr < t x ->
    exists c, In c (sk_rows true s thr) /\ ck _ c = x /\ cv _ c = sk_lb s x.
  Proof.
    intros R Hthr Hx. pose proof (SReach_SkInv s t T R) as K. pose proof (k_wf s t T K) as W.
    pose proof (k_br s t T K x) as Hb.
    destruct (present_or_absent Item eqb eqb_spec (tab _ (sk_map _ s)) x) as [(q & c & Hc & Ek)|Ha].
    - exists c. pose proof (tget_present Item eqb eqb_spec hash _ q c (w_pi _ W) Hc) as Eg. rewrite Ek in Eg.
      rewrite sk_lb_tget. split; [|auto]. apply (rows_in true s thr c t T K). split; [now exists q|].
      apply Z.ltb_lt. rewrite sk_lb_tget in Hb. lia.
    - rewrite sk_lb_tget, (tget_absent Item eqb eqb_spec hash _ x Ha) in Hb. lia.
  Qed.

  Theorem sk_no_false_positives s t T thr c : SReach s t T -> In c (sk_rows false s thr) ->
    thr < t (ck _ c) /\ cv _ c = sk_lb s (ck _ c).
  Proof.
    intros R Hin. pose proof (SReach_SkInv s t T R) as K. pose proof (k_wf s t T K) as W.
    apply (rows_in false s thr c t T K) in Hin. destruct Hin as [[q Hc] Hf]. apply Z.ltb_lt in Hf.
    pose proof (tget_present Item eqb eqb_spec hash _ q c (w_pi _ W) Hc) as Eg.
    pose proof (k_br s t T K (ck _ c)) as Hb. rewrite sk_lb_tget in *. lia.
  Qed.
End Refine.

(* ---------------- the concrete item type of the executable model ---------------- *)
Lemma item_eqb_spec (a b : item) : item_eqb a b = true <-> a = b.
Proof.
  revert b. induction a as [|x a IH]; intros [|y b]; simpl; split; intros H; try discriminate; auto.
  - apply andb_true_iff in H. destruct H as [H1 H2]. apply Z.eqb_eq in H1. apply IH in H2. congruence.
  - inversion H; subst. apply andb_true_iff. split; [apply Z.eqb_refl|now apply IH].
Qed.

(* ---------------- the order of the rows printed by the model (estimate descending) ---------------- *)
Section SortRel.
  Context {A : Type}.
  Variable leb : A -> A -> bool.
  Variable R : A -> A -> Prop.
  Hypothesis R_trans : forall a b c, R a b -> R b c -> R a c.
  Hypothesis leb_R : forall a b, leb a b = true -> R a b.
  Hypothesis nleb_R : forall a b, leb a b = false -> R b a.

  Lemma ins_sorted_rel x l : Sorted.StronglySorted R l -> Sorted.StronglySorted R (ins leb x l).
  Proof.
    induction l as [|y t IH]; simpl; intros H.
    - constructor; constructor.
    - inversion H as [|? ? Ht Hy]; subst. destruct (leb x y) eqn:E.
      + constructor; auto. constructor; [now apply leb_R|].
        rewrite Forall_forall in *. intros z Hz. eapply R_trans; [apply leb_R; exact E|auto].
      + constructor; auto. rewrite Forall_forall in *. intros z Hz.
        apply (Permutation_in _ (Permutation_sym (ins_perm leb x t))) in Hz.
        destruct Hz as [<-|Hz]; [now apply nleb_R|auto].
  Qed.

  Lemma isort_sorted_rel l : Sorted.StronglySorted R (isort leb l).
  Proof. induction l; simpl; [constructor|now apply ins_sorted_rel]. Qed.
End SortRel.

Theorem rows_by_est_sorted (off : Z) (l : list (cell item)) :
  Sorted.StronglySorted (fun a b => cv _ b + off <= cv _ a + off) (rows_by_est l).
Proof.
  unfold rows_by_est. apply isort_sorted_rel.
  - intros; lia.
  - intros a b H. destruct (Z.ltb_spec (cv _ b) (cv _ a)); [lia|]. destruct (Z.ltb_spec (cv _ a) (cv _ b)); [discriminate|lia].
  - intros a b H. destruct (Z.ltb_spec (cv _ b) (cv _ a)); [discriminate|lia].
Qed.

Lemma rows_by_est_perm (l : list (cell item)) : Permutation l (rows_by_est l).
Proof. apply isort_perm. Qed.
