(* Regression_C07_kll.v — the iterator AS CODED before the repair fixes/07_kll_iterator.patch (the constructor of
   kll_sketch::const_iterator started at level 0 with weight 1 without looking whether level 0 is empty) violates
   "weights sum to n" on a reachable sketch whose level 0 is empty after a merge (finding F2):
   a(k=8) after 37 updates, merged with b(k=8) after 91 updates -> n = 128, 26 retained items, every weight 1.
   The repaired iterator is KllDefs.iterate (theorem C07_kll_iterator_spec). *)
From Coq Require Import ZArith List Bool Lia.
From DS Require Import RunnerLib SortedView KllDefs KllProofs KllView.
Import ListNotations.
Local Open Scope Z_scope.

(* begin() as it was coded: index = levels_[0], level = 0, weight = 1, nothing skipped; operator++ unchanged (iter_go) *)
Definition iterate_as_coded (s : kll) : list (Z * Z) := iter_go (concat (levels s)) (levels s) 0 0%nat 1.

(* feed a stream with explicit coins *)
Fixpoint feed (s : kll) (xs : list Z) (cs : list Z) : option (kll * list Z) :=
  match xs with
  | [] => Some (s, cs)
  | x :: r => match replay (update s x) cs with
              | Some (s', cs') => feed s' r cs'
              | None => None
              end
  end.

Lemma feed_reach : forall xs s log cs s' cs', reach s log -> feed s xs cs = Some (s', cs') -> reach s' (log ++ xs).
Proof.
  induction xs as [|x r IH]; intros s log cs s' cs' R H; simpl in H.
  - inversion H; subst. now rewrite app_nil_r.
  - destruct (replay (update s x) cs) as [[s1 cs1]|] eqn:E; [|discriminate].
    replace (log ++ x :: r) with ((log ++ [x]) ++ r) by (rewrite <- app_assoc; reflexivity).
    eapply IH; [|exact H]. eapply reach_update; [exact R|]. eapply replay_leaf; eauto.
Qed.

Definition zeros (n : nat) : list Z := repeat 0 n.
Definition stream (base : Z) (n : nat) : list Z := map (fun i => base + Z.of_nat i) (seq 0 n).

Definition witness : option kll :=
  match feed (kll_new 8) (stream 0 37) (zeros 64), feed (kll_new 8) (stream 1000 91) (zeros 64) with
  | Some (a, _), Some (b, _) =>
      match replay (merge a b) (zeros 64) with
      | Some (s, _) => Some s
      | None => None
      end
  | _, _ => None
  end.

Lemma witness_reach s : witness = Some s -> reach s (stream 0 37 ++ stream 1000 91).
Proof.
  unfold witness.
  destruct (feed (kll_new 8) (stream 0 37) (zeros 64)) as [[a ca]|] eqn:Ea; [|discriminate].
  destruct (feed (kll_new 8) (stream 1000 91) (zeros 64)) as [[b cb]|] eqn:Eb; [|discriminate].
  destruct (replay (merge a b) (zeros 64)) as [[s' cs']|] eqn:Em; [|discriminate].
  intros [= <-].
  eapply reach_merge.
  - apply (feed_reach _ _ [] _ _ _ (reach_new 8 ltac:(lia)) Ea).
  - apply (feed_reach _ _ [] _ _ _ (reach_new 8 ltac:(lia)) Eb).
  - eapply replay_leaf; eauto.
Qed.

Lemma witness_values : exists s, witness = Some s /\ nn s = 128 /\ num_retained s = 26 /\
  sum_weights (iterate_as_coded s) = 26 /\ hd [1] (levels s) = [] /\ sum_weights (iterate s) = 128.
Proof. vm_compute. eexists. repeat split; reflexivity. Qed.

(* the property "iterating the retained items yields weights that sum to n" fails for the iterator as coded *)
Theorem C07_kll_iterator_as_coded_refuted : exists s log, reach s log /\ sum_weights (iterate_as_coded s) <> nn s.
Proof.
  destruct witness_values as (s & W & N & _ & I & _).
  exists s, (stream 0 37 ++ stream 1000 91). split; [now apply witness_reach|]. rewrite I, N. lia.
Qed.

Print Assumptions C07_kll_iterator_as_coded_refuted.
