(* LedgerFiProofs.v — the effect log of the frequent-items hash map model (LedgerFi.v) is accepted by the ledger, and
   afterwards the ledger holds the keys_/values_/states_ blocks with keys_[i] constructed exactly where states_[i] > 0. *)
From Coq Require Import ZArith NArith List Bool Lia.
From DS Require Import LedgerCore LedgerCoreProofs LedgerFi.
Import ListNotations.
Local Open Scope N_scope.

Definition kblk (size : N) (m : bitmap) : blk := {| b_ty := true; b_size := size; b_map := m |}.
Definition FL (kb vb sb size : N) (m : bitmap) : ledger :=
  [(sb, mkblk false size 0 0); (vb, mkblk false size 0 0); (kb, kblk size m)].
Definition act (sl : list slot) : bitmap := map active sl.

(* ---- single slots of an arbitrary bitmap ---- *)
Lemma set_nth_length {A} i (x : A) l : length (set_nth i x l) = length l.
Proof. revert i; induction l as [|y t IH]; intros [|i]; simpl; auto. Qed.

Lemma nth_set_nth_eq {A} i (x d : A) l : (i < length l)%nat -> nth i (set_nth i x l) d = x.
Proof. revert i; induction l as [|y t IH]; intros [|i] H; simpl in *; try lia; auto. apply IH; lia. Qed.

Lemma nth_set_nth_neq {A} i j (x d : A) l : i <> j -> nth j (set_nth i x l) d = nth j l d.
Proof. revert i j; induction l as [|y t IH]; intros [|i] [|j] H; simpl; auto; try congruence. Qed.

Lemma set_nth_same {A} i (d : A) l : (i < length l)%nat -> set_nth i (nth i l d) l = l.
Proof. revert i; induction l as [|y t IH]; intros [|i] H; simpl in *; try lia; auto. f_equal. apply IH; lia. Qed.

Lemma map_set_nth {A B} (f : A -> B) i x l : map f (set_nth i x l) = set_nth i (f x) (map f l).
Proof. revert i; induction l as [|y t IH]; intros [|i]; simpl; auto. f_equal. apply IH. Qed.

Lemma chk_fill_nat_one v : forall i m, (i < length m)%nat -> nth i m v = negb v ->
  chk_fill_nat v i 1 m = Some (set_nth i v m).
Proof.
  induction i as [|i IH]; intros [|x t] Hl Hn; simpl in *; try lia.
  - subst x. destruct v; reflexivity.
  - rewrite IH by (auto; lia). reflexivity.
Qed.

Lemma chk_fill_one v i m : (N.to_nat i < length m)%nat -> nth (N.to_nat i) m v = negb v ->
  chk_fill v i 1 m = Some (set_nth (N.to_nat i) v m).
Proof. intros. unfold chk_fill. change (N.to_nat 1) with 1%nat. now apply chk_fill_nat_one. Qed.

Lemma skipn_nth_cons {A} (d : A) : forall i l, (i < length l)%nat -> skipn i l = nth i l d :: skipn (S i) l.
Proof. induction i as [|i IH]; intros [|x t] H; simpl in *; try lia; auto. apply IH. lia. Qed.

Lemma all_true_one i m : (N.to_nat i < length m)%nat -> nth (N.to_nat i) m false = true -> all_true i 1 m = true.
Proof.
  intros Hl Hn. unfold all_true. change (N.to_nat 1) with 1%nat.
  rewrite (skipn_nth_cons false) by assumption. rewrite Hn. reflexivity.
Qed.

Lemma act_nth sl i : nth (N.to_nat i) (act sl) false = active (sget sl i).
Proof. unfold act, sget. change false with (active empty_slot). apply map_nth. Qed.

Lemma act_nth_t sl i : (N.to_nat i < length sl)%nat -> nth (N.to_nat i) (act sl) true = active (sget sl i).
Proof. intros H. rewrite <- act_nth. apply nth_indep. unfold act. now rewrite map_length. Qed.

Lemma act_length sl : length (act sl) = length sl.
Proof. apply map_length. Qed.

Lemma act_sset sl i x : act (sset sl i x) = set_nth (N.to_nat i) (active x) (act sl).
Proof. unfold act, sset. apply map_set_nth. Qed.

Lemma act_sset_same sl i x : (N.to_nat i < length sl)%nat -> active x = active (sget sl i) -> act (sset sl i x) = act sl.
Proof.
  intros Hl He. rewrite act_sset, He, <- act_nth. apply set_nth_same. now rewrite act_length.
Qed.

Lemma sset_length sl i x : length (sset sl i x) = length sl.
Proof. apply set_nth_length. Qed.

Lemma sget_sset_eq sl i x : (N.to_nat i < length sl)%nat -> sget (sset sl i x) i = x.
Proof. intros. unfold sget, sset. now apply nth_set_nth_eq. Qed.

Lemma sget_sset_neq sl i j x : i <> j -> sget (sset sl i x) j = sget sl j.
Proof. intros H. unfold sget, sset. apply nth_set_nth_neq. lia. Qed.

(* ---- effects on the keys block of a three-block ledger ---- *)
Section Keys.
  Variables (X : ledger) (kb vb sb size : N).
  Hypothesis Hkv : kb <> vb.
  Hypothesis Hks : kb <> sb.
  Hypothesis Hvs : vb <> sb.

  Lemma fl_lookup m : lookup (FL kb vb sb size m) kb = Some (kblk size m).
  Proof. unfold FL. now led_simpl. Qed.

  Lemma fl_replace m m' : replace (FL kb vb sb size m) kb (setmap (kblk size m) m') = FL kb vb sb size m'.
  Proof. unfold FL. led_simpl. reflexivity. Qed.

  Lemma fl_cons m i : (N.to_nat i < length m)%nat -> nth (N.to_nat i) m true = false ->
    apply X (FL kb vb sb size m) (Cons kb i 1) = Some (FL kb vb sb size (set_nth (N.to_nat i) true m)).
  Proof.
    intros Hl Hn. rewrite (apply_cons X _ kb (kblk size m) i 1 (set_nth (N.to_nat i) true m) (fl_lookup m)).
    - now rewrite fl_replace.
    - simpl b_map. now apply chk_fill_one.
  Qed.

  Lemma fl_dest m i : (N.to_nat i < length m)%nat -> nth (N.to_nat i) m false = true ->
    apply X (FL kb vb sb size m) (Dest kb i 1) = Some (FL kb vb sb size (set_nth (N.to_nat i) false m)).
  Proof.
    intros Hl Hn. rewrite (apply_dest X _ kb (kblk size m) i 1 (set_nth (N.to_nat i) false m) (fl_lookup m)).
    - now rewrite fl_replace.
    - simpl b_map. now apply chk_fill_one.
  Qed.

  Lemma fl_fromx m ob osz om oi i : lookup X ob = Some (kblk osz om) ->
    (N.to_nat oi < length om)%nat -> nth (N.to_nat oi) om false = true ->
    (N.to_nat i < length m)%nat -> nth (N.to_nat i) m true = false ->
    apply X (FL kb vb sb size m) (FromX ob oi kb i 1) = Some (FL kb vb sb size (set_nth (N.to_nat i) true m)).
  Proof.
    intros HX Hol Hon Hl Hn.
    rewrite (apply_fromx X _ ob oi kb i 1 (kblk osz om) (kblk size m) (set_nth (N.to_nat i) true m) HX).
    - now rewrite fl_replace.
    - simpl b_map. now apply all_true_one.
    - apply fl_lookup.
    - simpl b_map. now apply chk_fill_one.
  Qed.

  (* move within the keys block: construct [d] from [p], destroy [p] *)
  Lemma fl_movd m p d : p <> d -> (N.to_nat p < length m)%nat -> (N.to_nat d < length m)%nat ->
    nth (N.to_nat p) m false = true -> nth (N.to_nat d) m true = false ->
    apply X (FL kb vb sb size m) (MovD kb p kb d 1)
    = Some (FL kb vb sb size (set_nth (N.to_nat p) false (set_nth (N.to_nat d) true m))).
  Proof.
    intros Hne Hp Hd Hnp Hnd. cbn [apply]. unfold src_ok. rewrite fl_lookup. cbn [b_map kblk].
    rewrite (all_true_one p m Hp Hnp). unfold upd_map. rewrite fl_lookup. cbn [b_map kblk].
    rewrite (chk_fill_one true d m Hd Hnd).
    change (replace (FL kb vb sb size m) kb _) with (replace (FL kb vb sb size m) kb (setmap (kblk size m) (set_nth (N.to_nat d) true m))).
    rewrite fl_replace. rewrite fl_lookup. cbn [b_map kblk].
    rewrite (chk_fill_one false p (set_nth (N.to_nat d) true m)).
    - change (replace (FL kb vb sb size (set_nth (N.to_nat d) true m)) kb _)
        with (replace (FL kb vb sb size (set_nth (N.to_nat d) true m)) kb
                (setmap (kblk size (set_nth (N.to_nat d) true m)) (set_nth (N.to_nat p) false (set_nth (N.to_nat d) true m)))).
      now rewrite fl_replace.
    - now rewrite set_nth_length.
    - rewrite nth_set_nth_neq by lia. simpl negb. exact Hnp.
  Qed.
End Keys.

(* ---- the map ---- *)
Definition FInv (s : fim) (L : ledger) : Prop :=
  match f_blk s with
  | None => L = []
  | Some (kb, vb, sb) =>
      L = FL kb vb sb (f_size s) (act (f_slots s)) /\ length (f_slots s) = N.to_nat (f_size s) /\
      kb <> vb /\ kb <> sb /\ vb <> sb /\ kb < f_nxt s /\ vb < f_nxt s /\ sb < f_nxt s
  end.

Lemma pow2_pos n : 0 < 2 ^ n.
Proof. apply N.neq_0_lt_0. apply N.pow_nonzero. lia. Qed.

Lemma land_mask_lt x lg : N.land x (2 ^ lg - 1) < 2 ^ lg.
Proof.
  rewrite N.sub_1_r, <- N.ones_equiv, N.land_ones. apply N.mod_lt. apply N.pow_nonzero. lia.
Qed.

Lemma active_in_range sl i : active (sget sl i) = true -> (N.to_nat i < length sl)%nat.
Proof.
  intros H. destruct (Nat.lt_ge_cases (N.to_nat i) (length sl)); auto.
  unfold sget in H. rewrite nth_overflow in H by assumption. discriminate.
Qed.

Lemma probe_spec lg sl key : forall fuel idx drift, idx < 2 ^ lg -> 1 <= drift ->
  match probe fuel sl (2 ^ lg - 1) key idx drift with
  | PFound i => i < 2 ^ lg /\ active (sget sl i) = true
  | PEmpty i d => i < 2 ^ lg /\ active (sget sl i) = false /\ 1 <= d
  | PFail => True
  end.
Proof.
  induction fuel as [|f IH]; intros idx drift Hi Hd; simpl; auto.
  destruct (active (sget sl idx)) eqn:Ha.
  - destruct (Z.eqb (s_key (sget sl idx)) key); [auto|].
    destruct (DRIFT_LIMIT <=? drift + 1); [auto|].
    apply IH; [apply land_mask_lt|lia].
  - auto.
Qed.

Definition same_cfg (s s1 : fim) : Prop :=
  f_lg_cur s1 = f_lg_cur s /\ f_lg_max s1 = f_lg_max s /\ f_blk s1 = f_blk s /\ f_nxt s1 = f_nxt s /\
  length (f_slots s1) = length (f_slots s).

Lemma iaoi_spec s key h v : length (f_slots s) = N.to_nat (f_size s) ->
  match internal_adjust_or_insert s key h v with
  | IAdjusted s1 => same_cfg s s1 /\ act (f_slots s1) = act (f_slots s)
  | IInserted s1 idx => same_cfg s s1 /\ idx < f_size s /\ active (sget (f_slots s) idx) = false /\
                        act (f_slots s1) = set_nth (N.to_nat idx) true (act (f_slots s))
  | IThrow => True
  end.
Proof.
  intros Hl. unfold internal_adjust_or_insert. unfold f_size in *.
  pose proof (probe_spec (f_lg_cur s) (f_slots s) key (N.to_nat (2 ^ f_lg_cur s) + 1) (N.land h (2 ^ f_lg_cur s - 1)) 1
                (land_mask_lt _ _) ltac:(lia)) as HP.
  destruct (probe _ _ _ _ _ _) as [i|i d|]; auto.
  - destruct HP as [Hi Ha]. split.
    + unfold same_cfg, with_slots. simpl. rewrite sset_length. auto.
    + unfold with_slots. simpl. apply act_sset_same; [lia|]. unfold active. simpl. reflexivity.
  - destruct HP as (Hi & Ha & Hd). destruct (f_capacity s <? f_num s); auto. split; [|split; [|split]]; auto.
    + unfold same_cfg, with_slots. simpl. rewrite sset_length. auto.
    + unfold with_slots. simpl. rewrite act_sset. f_equal. unfold active. simpl. apply N.ltb_lt. lia.
Qed.

Section Map.
  Variables (X : ledger) (kb vb sb lg : N).
  Hypothesis Hkv : kb <> vb.
  Hypothesis Hks : kb <> sb.
  Hypothesis Hvs : vb <> sb.
  Let size := 2 ^ lg.
  Let KL (sl : list slot) : ledger := FL kb vb sb size (act sl).

  Lemma delete_loop_ok : forall fuel sl d probe drift acc L0 sl' es,
    length sl = N.to_nat size -> d < size -> probe < size -> active (sget sl d) = false ->
    apply_all X L0 acc = Some (KL sl) ->
    delete_loop fuel kb sl (size - 1) d probe drift acc = (sl', es) ->
    apply_all X L0 es = Some (KL sl') /\ length sl' = length sl.
  Proof.
    induction fuel as [|f IH]; intros sl d probe drift acc L0 sl' es Hl Hd Hp Hda Hacc; simpl.
    - intros E; injection E as <- <-. auto.
    - destruct (active (sget sl probe)) eqn:Hpa.
      2:{ intros E; injection E as <- <-. auto. }
      destruct (N.ltb_spec drift (s_st (sget sl probe))) as [Hlt|Hge].
      + set (p := sget sl probe).
        set (sl1 := sset sl d {| s_st := s_st p - drift; s_key := s_key p; s_hash := s_hash p; s_val := s_val p |}).
        set (sl2 := sset sl1 probe empty_slot).
        assert (Hne : probe <> d) by (intros ->; congruence).
        assert (A1 : length sl2 = N.to_nat size) by (unfold sl2, sl1; now rewrite !sset_length).
        assert (A2 : N.land (probe + 1) (size - 1) < size) by apply land_mask_lt.
        assert (A3 : active (sget sl2 probe) = false).
        { unfold sl2. rewrite sget_sset_eq; [reflexivity|]. unfold sl1. rewrite sset_length. lia. }
        assert (A4 : apply_all X L0 (acc ++ [MovD kb probe kb d 1]) = Some (KL sl2)).
        { rewrite (apply_all_app X L0 acc _ _ Hacc). cbn [apply_all]. unfold KL.
          rewrite (fl_movd X kb vb sb size Hkv Hks Hvs (act sl) probe d Hne).
          - f_equal. f_equal. unfold sl2, sl1. rewrite !act_sset.
            assert (Hact : active {| s_st := s_st p - drift; s_key := s_key p; s_hash := s_hash p; s_val := s_val p |} = true)
              by (unfold active; simpl; apply N.ltb_lt; unfold p; lia).
            rewrite Hact. reflexivity.
          - rewrite act_length. lia.
          - rewrite act_length. lia.
          - rewrite act_nth. exact Hpa.
          - rewrite act_nth_t by lia. exact Hda. }
        intros E. destruct (IH sl2 probe _ 1 _ L0 sl' es A1 Hp A2 A3 A4 E) as [E1 E2].
        split; auto. rewrite E2. unfold sl2, sl1. now rewrite !sset_length.
      + assert (A2 : N.land (probe + 1) (size - 1) < size) by apply land_mask_lt.
        intros E. exact (IH sl d _ _ acc L0 sl' es Hl Hd A2 Hda Hacc E).
  Qed.

  Lemma hash_delete_ok sl d acc L0 sl' es :
    length sl = N.to_nat size -> d < size -> active (sget sl d) = true ->
    apply_all X L0 acc = Some (KL sl) ->
    hash_delete kb sl size d = (sl', es) ->
    apply_all X L0 (acc ++ es) = Some (KL sl') /\ length sl' = length sl.
  Proof.
    intros Hl Hd Ha Hacc. unfold hash_delete. cbv zeta. intros E.
    rewrite (apply_all_app X L0 acc _ _ Hacc).
    assert (H1 : apply_all X (KL sl) [Dest kb d 1] = Some (KL (sset sl d empty_slot))).
    { cbn [apply_all]. unfold KL. rewrite (fl_dest X kb vb sb size Hkv Hks (act sl) d).
      - now rewrite act_sset.
      - rewrite act_length. lia.
      - rewrite act_nth. exact Ha. }
    assert (A1 : length (sset sl d empty_slot) = N.to_nat size) by now rewrite sset_length.
    assert (A2 : N.land (d + 1) (size - 1) < size) by apply land_mask_lt.
    assert (A3 : active (sget (sset sl d empty_slot) d) = false) by (rewrite sget_sset_eq; [reflexivity|lia]).
    destruct (delete_loop_ok _ _ _ _ _ _ (KL sl) sl' es A1 Hd A2 A3 H1 E) as [E1 E2].
    split; auto. rewrite E2. now rewrite sset_length.
  Qed.

  (* the state threaded through the scans of subtract_and_keep_positive_only *)
  Definition PSt (L0 : ledger) (st : list slot * N * list eff) : Prop :=
    let '(sl, num, acc) := st in length sl = N.to_nat size /\ apply_all X L0 acc = Some (KL sl).

  Lemma purge_at_ok L0 amount probe st : probe < size -> PSt L0 st -> PSt L0 (purge_at kb size amount probe st).
  Proof.
    intros Hp. destruct st as [[sl num] acc]. intros [Hl Hacc]. unfold purge_at.
    destruct (active (sget sl probe)) eqn:Ha; [|split; auto].
    destruct (s_val (sget sl probe) <=? amount).
    - destruct (hash_delete kb sl size probe) as [sl' e] eqn:E.
      destruct (hash_delete_ok sl probe acc L0 sl' e Hl Hp Ha Hacc E) as [H1 H2]. split; [lia|exact H1].
    - split; [now rewrite sset_length|]. unfold KL. rewrite act_sset_same; auto. lia.
  Qed.

  Lemma fold_purge_ok L0 amount : forall probes st, Forall (fun p => p < size) probes -> PSt L0 st ->
    PSt L0 (fold_left (fun st i => purge_at kb size amount i st) probes st).
  Proof.
    induction probes as [|p t IH]; intros st HF Hst; simpl; auto.
    inversion HF; subst. apply IH; auto. apply purge_at_ok; auto.
  Qed.

  Lemma down_from_lt cnt lo : lo + N.of_nat cnt <= size -> Forall (fun p => p < size) (down_from cnt lo).
  Proof.
    induction cnt as [|c IH]; intros H; simpl; constructor; [lia|apply IH; lia].
  Qed.

  Lemma first_empty_down_le sl : forall fuel i, first_empty_down fuel sl i <= i.
  Proof.
    induction fuel as [|f IH]; intros i; simpl; [lia|].
    destruct (active (sget sl i)); [|lia]. specialize (IH (i - 1)). lia.
  Qed.

  Lemma subtract_ok L0 sl num amount acc : length sl = N.to_nat size -> apply_all X L0 acc = Some (KL sl) ->
    let '(sl', num', es) := subtract_and_keep kb sl size num amount in
    length sl' = N.to_nat size /\ apply_all X L0 (acc ++ es) = Some (KL sl').
  Proof.
    intros Hl Hacc. unfold subtract_and_keep. cbv zeta.
    set (fp := first_empty_down (N.to_nat size) sl (size - 1)).
    assert (Hfp : fp <= size - 1) by apply first_empty_down_le.
    pose proof (pow2_pos lg) as Hpos. fold size in Hpos.
    assert (H0 : PSt (KL sl) (sl, num, [])) by (split; auto).
    pose proof (fold_purge_ok (KL sl) amount (down_from (N.to_nat fp) 0) _ (down_from_lt (N.to_nat fp) 0 ltac:(lia)) H0) as H1.
    pose proof (fold_purge_ok (KL sl) amount (down_from (N.to_nat (size - fp)) fp) _ (down_from_lt (N.to_nat (size - fp)) fp ltac:(lia)) H1) as H2.
    destruct (fold_left _ (down_from (N.to_nat (size - fp)) fp) _) as [[sl' num'] es]. destruct H2 as [H2 H3].
    split; auto. rewrite (apply_all_app X L0 acc _ _ Hacc). exact H3.
  Qed.
End Map.

(* ---- purge, resize, adjust_or_insert ---- *)
Lemma FInv_intro s kb vb sb : f_blk s = Some (kb, vb, sb) -> length (f_slots s) = N.to_nat (f_size s) ->
  kb <> vb -> kb <> sb -> vb <> sb -> kb < f_nxt s -> vb < f_nxt s -> sb < f_nxt s ->
  FInv s (FL kb vb sb (f_size s) (act (f_slots s))).
Proof. intros Hb. intros. unfold FInv. rewrite Hb. repeat split; auto. Qed.

Lemma purge_ok X s kb vb sb : f_blk s = Some (kb, vb, sb) -> FInv s (FL kb vb sb (f_size s) (act (f_slots s))) ->
  forall s' es, purge s kb = (s', es) ->
  apply_all X (FL kb vb sb (f_size s) (act (f_slots s))) es = Some (FL kb vb sb (f_size s') (act (f_slots s'))) /\
  FInv s' (FL kb vb sb (f_size s') (act (f_slots s'))) /\ f_blk s' = f_blk s /\ f_lg_cur s' = f_lg_cur s /\ f_lg_max s' = f_lg_max s.
Proof.
  intros Hb HI s' es. unfold FInv in HI. rewrite Hb in HI. destruct HI as (_ & Hl & Hkv & Hks & Hvs & Hk & Hv & Hs).
  unfold purge. cbv zeta.
  set (limit := N.min 1024 (f_num s)).
  set (median := nth (N.to_nat (limit / 2)) (sortN (firstn (N.to_nat limit) (map s_val (filter active (f_slots s))))) 0).
  pose proof (subtract_ok X kb vb sb (f_lg_cur s) Hkv Hks Hvs (FL kb vb sb (f_size s) (act (f_slots s))) (f_slots s) (f_num s) median []
               Hl eq_refl) as HS.
  fold (f_size s) in HS.
  destruct (subtract_and_keep kb (f_slots s) (f_size s) (f_num s) median) as [[sl num] e]. destruct HS as [HS1 HS2].
  intros E; injection E as <- <-. simpl app in HS2.
  split.
  - unfold f_size in *. cbn [f_lg_cur f_slots apply_all app].
    rewrite apply_alloc by (unfold FL; led_simpl; reflexivity).
    rewrite (apply_dealloc X _ (f_nxt s) (mkblk false limit 0 0) limit); [|now led_simpl|reflexivity|apply none_true_rng; lia].
    unfold FL. led_simpl. exact HS2.
  - unfold FInv, f_size in *. simpl. rewrite Hb. repeat split; auto; try lia.
Qed.

Lemma act_repeat_empty n : act (repeat empty_slot n) = repeat false n.
Proof. induction n; simpl; auto. unfold act in *. simpl. now rewrite IHn. Qed.

Lemma set_nth_app_len {A} (pre : list A) x y t : set_nth (length pre) y (pre ++ x :: t) = pre ++ y :: t.
Proof. induction pre as [|a p IH]; simpl; auto. now rewrite IH. Qed.

Lemma nth_app_len {A} (pre : list A) x t d : nth (length pre) (pre ++ x :: t) d = x.
Proof. induction pre as [|a p IH]; simpl; auto. Qed.

Lemma none_true_repeat n : none_true (repeat false n) = true.
Proof. induction n; simpl; auto. Qed.

(* the six-block ledger of resize: new triple in front of the old triple *)
Section Resize.
  Variables (X : ledger) (nk nv ns ok ov os : N) (lg : N) (osz : N).
  Hypothesis Hd : NoDup [nk; nv; ns; ok; ov; os].
  Let nsz := 2 ^ lg.
  Let L6 (mn mo : bitmap) : ledger := FL nk nv ns nsz mn ++ FL ok ov os osz mo.

  Lemma nodup6 : nk <> nv /\ nk <> ns /\ nk <> ok /\ nk <> ov /\ nk <> os /\ nv <> ns /\ nv <> ok /\ nv <> ov /\ nv <> os /\
                 ns <> ok /\ ns <> ov /\ ns <> os /\ ok <> ov /\ ok <> os /\ ov <> os.
  Proof.
    repeat match goal with H : NoDup (_ :: _) |- _ => inversion H; clear H; subst end.
    simpl in *. intuition congruence.
  Qed.

  Lemma movd6 mn mo i idx : (N.to_nat i < length mo)%nat -> nth (N.to_nat i) mo false = true ->
    (N.to_nat idx < length mn)%nat -> nth (N.to_nat idx) mn true = false ->
    apply X (L6 mn mo) (MovD ok i nk idx 1) = Some (L6 (set_nth (N.to_nat idx) true mn) (set_nth (N.to_nat i) false mo)).
  Proof.
    intros H1 H2 H3 H4. destruct nodup6 as (? & ? & ? & ? & ? & ? & ? & ? & ? & ? & ? & ? & ? & ? & ?).
    rewrite (apply_movd X _ ok nk (kblk osz mo) (kblk nsz mn) i idx 1 (set_nth (N.to_nat idx) true mn) (set_nth (N.to_nat i) false mo)).
    - unfold L6, FL. simpl app. led_simpl. reflexivity.
    - congruence.
    - unfold L6, FL. simpl app. now led_simpl.
    - unfold L6, FL. simpl app. now led_simpl.
    - simpl b_map. now apply all_true_one.
    - simpl b_map. now apply chk_fill_one.
    - simpl b_map. now apply chk_fill_one.
  Qed.

  Lemma reinsert_ok : forall (old : list slot) (pre : list bool) s acc L0 s' es,
    f_lg_cur s = lg -> f_blk s = Some (nk, nv, ns) -> length (f_slots s) = N.to_nat nsz ->
    (length pre + length old = N.to_nat osz)%nat ->
    apply_all X L0 acc = Some (L6 (act (f_slots s)) (repeat false (length pre) ++ act old)) ->
    reinsert old (N.of_nat (length pre)) ok nk s acc = Some (s', es) ->
    apply_all X L0 es = Some (L6 (act (f_slots s')) (repeat false (N.to_nat osz))) /\
    f_lg_cur s' = lg /\ f_blk s' = Some (nk, nv, ns) /\ length (f_slots s') = N.to_nat nsz /\
    f_lg_max s' = f_lg_max s /\ f_nxt s' = f_nxt s.
  Proof.
    induction old as [|x t IH]; intros pre s acc L0 s' es Hlg Hb Hl Hlen Hacc; simpl.
    - intros E; injection E as <- <-. simpl in Hlen. rewrite app_nil_r in Hacc.
      replace (N.to_nat osz) with (length pre) by lia. repeat split; auto.
    - assert (Hpre : N.of_nat (length pre) + 1 = N.of_nat (length (pre ++ [false]))) by (rewrite app_length; simpl; lia).
      assert (Hrep : forall b, repeat false (length pre) ++ b :: act t = (repeat false (length pre) ++ [b]) ++ act t)
        by (intros; now rewrite <- app_assoc).
      destruct (active x) eqn:Hx.
      + pose proof (iaoi_spec s (s_key x) (s_hash x) (s_val x)) as HS. unfold f_size in HS. rewrite Hlg in HS. specialize (HS Hl).
        destruct (internal_adjust_or_insert s (s_key x) (s_hash x) (s_val x)) as [s1|s1 idx|]; [intros E; discriminate| |intros E; discriminate].
        unfold same_cfg in HS. destruct HS as ((C1 & C2 & C3 & C4 & C5) & Hi & Ha & Hact).
        rewrite Hpre. intros E.
        assert (B1 : (length (pre ++ [false]) + length t = N.to_nat osz)%nat) by (rewrite app_length; simpl in *; lia).
        assert (B2 : apply_all X L0 (acc ++ [MovD ok (N.of_nat (length pre)) nk idx 1])
                     = Some (L6 (act (f_slots s1)) (repeat false (length (pre ++ [false])) ++ act t))).
        { rewrite (apply_all_app X L0 acc _ _ Hacc). cbn [apply_all].
          simpl act. rewrite Hx.
          rewrite (movd6 (act (f_slots s)) _ (N.of_nat (length pre)) idx).
          - f_equal. rewrite Hact. f_equal. rewrite Nat2N.id.
            replace (length pre) with (length (repeat false (length pre))) at 1 by apply repeat_length.
            rewrite set_nth_app_len. rewrite app_length, repeat_app. simpl. now rewrite <- app_assoc.
          - rewrite Nat2N.id, app_length, repeat_length. simpl. lia.
          - rewrite Nat2N.id. replace (length pre) with (length (repeat false (length pre))) at 1 by apply repeat_length.
            apply nth_app_len.
          - rewrite act_length. lia.
          - rewrite act_nth_t by lia. exact Ha. }
        destruct (IH (pre ++ [false]) s1 _ L0 s' es ltac:(congruence) ltac:(congruence) ltac:(congruence) B1 B2 E)
          as (E1 & E2 & E3 & E4 & E5 & E6).
        repeat split; auto; congruence.
      + rewrite Hpre. intros E.
        assert (B1 : (length (pre ++ [false]) + length t = N.to_nat osz)%nat) by (rewrite app_length; simpl in *; lia).
        assert (B2 : apply_all X L0 acc = Some (L6 (act (f_slots s)) (repeat false (length (pre ++ [false])) ++ act t))).
        { simpl act in Hacc. rewrite Hx in Hacc. rewrite app_length, repeat_app. simpl. rewrite <- app_assoc. exact Hacc. }
        exact (IH (pre ++ [false]) s acc L0 s' es Hlg Hb Hl B1 B2 E).
  Qed.
End Resize.

Lemma FInv_ledger s L kb vb sb : FInv s L -> f_blk s = Some (kb, vb, sb) ->
  L = FL kb vb sb (f_size s) (act (f_slots s)) /\ length (f_slots s) = N.to_nat (f_size s) /\
  kb <> vb /\ kb <> sb /\ vb <> sb /\ kb < f_nxt s /\ vb < f_nxt s /\ sb < f_nxt s.
Proof. unfold FInv. intros H Hb. rewrite Hb in H. exact H. Qed.

Lemma resize_ok X s L s' es : FInv s L -> resize s = Some (s', es) ->
  exists L', apply_all X L es = Some L' /\ FInv s' L' /\ f_blk s' <> None /\ f_lg_max s' = f_lg_max s.
Proof.
  intros HI. unfold resize. destruct (f_blk s) as [[[kb vb] sb]|] eqn:Hb; [|discriminate].
  destruct (FInv_ledger s L kb vb sb HI Hb) as (-> & Hl & Hkv & Hks & Hvs & Hk & Hv & Hs).
  cbv zeta. set (lg := f_lg_cur s + 1). set (nk := f_nxt s).
  set (s0 := {| f_lg_cur := lg; f_lg_max := f_lg_max s; f_num := 0; f_slots := repeat empty_slot (N.to_nat (2 ^ lg));
                f_blk := Some (nk, nk + 1, nk + 2); f_nxt := nk + 3 |}).
  destruct (reinsert (f_slots s) 0 kb nk s0 _) as [[s1 e]|] eqn:ER; [|discriminate].
  intros E; injection E as <- <-.
  assert (Hd : NoDup [nk; nk + 1; nk + 2; kb; vb; sb]).
  { repeat constructor; simpl; unfold nk; intuition lia. }
  assert (Hacc : apply_all X (FL kb vb sb (f_size s) (act (f_slots s)))
                   [Alloc true nk (2 ^ lg); Alloc false (nk + 1) (2 ^ lg); Alloc false (nk + 2) (2 ^ lg)]
                 = Some (FL nk (nk + 1) (nk + 2) (2 ^ lg) (act (f_slots s0)) ++ FL kb vb sb (f_size s) (repeat false (length (@nil bool)) ++ act (f_slots s)))).
  { cbn [apply_all]. unfold FL at 1.
    rewrite apply_alloc by (led_simpl; reflexivity).
    rewrite apply_alloc by (unfold nk; led_simpl; reflexivity).
    rewrite apply_alloc by (unfold nk; led_simpl; reflexivity).
    unfold FL, s0. simpl f_slots. rewrite act_repeat_empty. simpl app.
    unfold mkblk, kblk. rewrite rng_empty by lia. reflexivity. }
  destruct (reinsert_ok X nk (nk + 1) (nk + 2) kb vb sb lg (f_size s) Hd (f_slots s) [] s0 _ _ s1 e
              eq_refl eq_refl ltac:(unfold s0; simpl; now rewrite repeat_length) ltac:(simpl; lia) Hacc ER)
    as (E1 & E2 & E3 & E4 & E5 & E6).
  exists (FL nk (nk + 1) (nk + 2) (f_size s1) (act (f_slots s1))). split; [|split; [|split]].
  - rewrite (apply_all_app X _ _ _ _ E1). cbn [apply_all]. unfold f_size. rewrite E2.
    unfold FL. simpl app.
    rewrite (apply_dealloc X _ kb (kblk (2 ^ f_lg_cur s) (repeat false (N.to_nat (2 ^ f_lg_cur s)))) (2 ^ f_lg_cur s));
      [|unfold nk; now led_simpl|reflexivity|apply none_true_repeat].
    unfold nk. led_simpl.
    rewrite (apply_dealloc X _ vb (mkblk false (2 ^ f_lg_cur s) 0 0) (2 ^ f_lg_cur s));
      [|now led_simpl|reflexivity|apply none_true_rng; lia].
    led_simpl.
    rewrite (apply_dealloc X _ sb (mkblk false (2 ^ f_lg_cur s) 0 0) (2 ^ f_lg_cur s));
      [|now led_simpl|reflexivity|apply none_true_rng; lia].
    led_simpl. reflexivity.
  - unfold FInv. rewrite E3. unfold f_size. rewrite E2, E6. unfold s0, nk. simpl. repeat split; auto; lia.
  - congruence.
  - rewrite E5. reflexivity.
Qed.

(* where the new key comes from *)
Definition src_ok_prop (X : ledger) (src : option (N * N)) : Prop :=
  match src with
  | None => True
  | Some (ob, i) => exists osz om, lookup X ob = Some (kblk osz om) /\ (N.to_nat i < length om)%nat /\ nth (N.to_nat i) om false = true
  end.

Lemma adjust_or_insert_ok X s L key h v src : FInv s L -> src_ok_prop X src ->
  match adjust_or_insert s key h v src with
  | FDone s' es => exists L', apply_all X L es = Some L' /\ FInv s' L' /\ f_blk s' <> None /\ f_lg_max s' = f_lg_max s
  | _ => True
  end.
Proof.
  intros HI Hsrc. unfold adjust_or_insert. destruct (f_blk s) as [[[kb vb] sb]|] eqn:Hb; [|exact I].
  destruct (FInv_ledger s L kb vb sb HI Hb) as (-> & Hl & Hkv & Hks & Hvs & Hk & Hv & Hs).
  pose proof (iaoi_spec s key h v Hl) as HS.
  destruct (internal_adjust_or_insert s key h v) as [s1|s1 idx|]; [| |exact I].
  - destruct HS as ((C1 & C2 & C3 & C4 & C5) & Hact).
    exists (FL kb vb sb (f_size s) (act (f_slots s))). split; [reflexivity|]. split; [|split; congruence].
    unfold FInv. rewrite C3, Hb. unfold f_size in *. rewrite C1, C4, Hact. repeat split; auto. congruence.
  - destruct HS as ((C1 & C2 & C3 & C4 & C5) & Hi & Ha & Hact).
    assert (HI1 : FInv s1 (FL kb vb sb (f_size s1) (act (f_slots s1)))).
    { unfold FInv. rewrite C3, Hb. unfold f_size in *. rewrite C1, C4. repeat split; auto. congruence. }
    assert (He1 : apply_all X (FL kb vb sb (f_size s) (act (f_slots s)))
                    (match src with None => [Cons kb idx 1] | Some (ob, i) => [FromX ob i kb idx 1] end)
                  = Some (FL kb vb sb (f_size s1) (act (f_slots s1)))).
    { unfold f_size in *. rewrite C1, Hact. destruct src as [[ob i]|]; cbn [apply_all].
      - destruct Hsrc as (osz & om & HX & Hol & Hon).
        rewrite (fl_fromx X kb vb sb _ Hkv Hks (act (f_slots s)) ob osz om i idx HX Hol Hon); [reflexivity| |].
        + rewrite act_length. lia.
        + rewrite act_nth_t by lia. exact Ha.
      - rewrite (fl_cons X kb vb sb _ Hkv Hks (act (f_slots s)) idx); [reflexivity| |].
        + rewrite act_length. lia.
        + rewrite act_nth_t by lia. exact Ha. }
    destruct (f_capacity s1 <? f_num s1).
    + destruct (f_lg_cur s1 <? f_lg_max s1).
      * destruct (resize s1) as [[s2 e2]|] eqn:ER; [|exact I].
        destruct (resize_ok X s1 _ s2 e2 HI1 ER) as (L' & HL' & HI' & Hnn & Hmx).
        exists L'. split; [|split; [|split]]; auto; [|congruence].
        rewrite (apply_all_app X _ _ _ _ He1). exact HL'.
      * assert (Hb1 : f_blk s1 = Some (kb, vb, sb)) by congruence.
        destruct (purge s1 kb) as [s2 e2] eqn:EP.
        destruct (purge_ok X s1 kb vb sb Hb1 HI1 s2 e2 EP) as (HL' & HI' & Hb' & _ & Hmx).
        destruct (f_capacity s2 <? f_num s2); [exact I|].
        eexists. split; [|split; [|split]]; [|exact HI'| |]; [|congruence|congruence].
        rewrite (apply_all_app X _ _ _ _ He1). exact HL'.
    + eexists. split; [exact He1|]. split; [exact HI1|]. split; congruence.
Qed.

Lemma fim_update_ok X s L key h w : FInv s L ->
  match fim_update s key h w with
  | FDone s' es => exists L', apply_all X L es = Some L' /\ FInv s' L' /\ (f_blk s <> None -> f_blk s' <> None)
  | _ => True
  end.
Proof.
  intros HI. unfold fim_update. destruct (w =? 0).
  - exists L. auto.
  - pose proof (adjust_or_insert_ok X s L key h w None HI I) as H.
    destruct (adjust_or_insert s key h w None); auto.
    destruct H as (L' & H1 & H2 & H3 & _). exists L'. auto.
Qed.

(* merge: every source slot the loop reads is active (model guard) *)
Lemma merge_loop_ok X okb osz osl : lookup X okb = Some (kblk osz (act osl)) ->
  forall idxs s L acc L0 s' es ok ab,
  apply_all X L0 acc = Some L -> FInv s L -> f_blk s <> None ->
  merge_loop idxs osl okb s acc = (s', es, ok, ab) ->
  exists L', apply_all X L0 es = Some L' /\ FInv s' L' /\ f_blk s' <> None.
Proof.
  intros HX. induction idxs as [|i t IH]; intros s L acc L0 s' es ok ab Hacc HI Hnn; simpl.
  - intros E; injection E as <- <- <- <-. exists L. auto.
  - destruct (active (sget osl i)) eqn:Ha; simpl negb; cbv iota.
    2:{ intros E; injection E as <- <- <- <-. exists L. auto. }
    assert (Hsrc : src_ok_prop X (Some (okb, i))).
    { exists osz, (act osl). split; [exact HX|]. split.
      - rewrite act_length. now apply active_in_range.
      - rewrite act_nth. exact Ha. }
    pose proof (adjust_or_insert_ok X s L (s_key (sget osl i)) (s_hash (sget osl i)) (s_val (sget osl i)) (Some (okb, i)) HI Hsrc) as H.
    destruct (adjust_or_insert s _ _ _ _) as [s1 e| |].
    + destruct H as (L1 & H1 & H2 & H3 & _). apply (IH s1 L1); auto.
      rewrite (apply_all_app X L0 acc _ _ Hacc). exact H1.
    + intros E; injection E as <- <- <- <-. exists L. auto.
    + intros E; injection E as <- <- <- <-. exists L. auto.
Qed.

Lemma fim_merge_ok s o L LO s' es ok ab : FInv s L -> FInv o LO -> f_blk s <> None ->
  fim_merge s o = (s', es, ok, ab) -> exists L', apply_all LO L es = Some L' /\ FInv s' L' /\ f_blk s' <> None.
Proof.
  intros HI HO Hnn. unfold fim_merge. destruct (f_num o =? 0). { intros E; injection E as <- <- <- <-. exists L. auto. }
  destruct (f_blk o) as [[[okb ovb] osb]|] eqn:Hob. 2:{ intros E; injection E as <- <- <- <-. exists L. auto. }
  destruct (FInv_ledger o LO okb ovb osb HO Hob) as (-> & Hl & Hkv & Hks & Hvs & _).
  intros E.
  exact (merge_loop_ok (FL okb ovb osb (f_size o) (act (f_slots o))) okb (f_size o) (f_slots o)
           (fl_lookup okb ovb osb (f_size o) Hkv Hks (act (f_slots o))) _ s L [] L s' es ok ab eq_refl HI Hnn E).
Qed.

(* ---- constructor, copy constructor, destructor ---- *)
Lemma new_fim_ok X lg_max lg_start s es : new_fim lg_max lg_start = Some (s, es) ->
  exists L, apply_all X [] es = Some L /\ FInv s L /\ f_blk s <> None.
Proof.
  unfold new_fim. cbv zeta. destruct (lg_max <? lg_start); [discriminate|].
  intros E; injection E as <- <-. set (lg := N.max lg_start LG_MIN).
  eexists. split; [|split].
  - cbn [apply_all]. rewrite apply_alloc by reflexivity.
    rewrite apply_alloc by (led_simpl; reflexivity). rewrite apply_alloc by (led_simpl; reflexivity). reflexivity.
  - unfold FInv, f_size. simpl. rewrite act_repeat_empty, repeat_length.
    unfold FL, mkblk, kblk. rewrite (rng_empty (2 ^ lg) 0) by lia. repeat split; auto; lia.
  - simpl. discriminate.
Qed.

Section CopyDestroy.
  Variables (X : ledger) (kb vb sb size : N).
  Hypothesis Hkv : kb <> vb.
  Hypothesis Hks : kb <> sb.

  Lemma copy_loop_ok okb osz osl : lookup X okb = Some (kblk osz (act osl)) ->
    forall rest pre, osl = pre ++ rest ->
    apply_all X (FL kb vb sb size (act pre ++ repeat false (length rest)))
      (flat_map (fun p => if active (snd p) then [FromX okb (fst p) kb (fst p) 1] else [])
                (combine (map N.of_nat (seq (length pre) (length rest))) rest))
    = Some (FL kb vb sb size (act (pre ++ rest))).
  Proof.
    intros HX. induction rest as [|x t IH]; intros pre Hosl.
    - simpl. now rewrite !app_nil_r.
    - assert (Hnext : apply_all X (FL kb vb sb size (act pre ++ repeat false (length (x :: t))))
                        (if active x then [FromX okb (N.of_nat (length pre)) kb (N.of_nat (length pre)) 1] else [])
                      = Some (FL kb vb sb size (act (pre ++ [x]) ++ repeat false (length t)))).
      { unfold act at 2. rewrite map_app. fold (act pre). simpl map. rewrite <- app_assoc. simpl app.
        destruct (active x) eqn:Hx; cbn [apply_all]; simpl repeat; [|reflexivity].
        rewrite (fl_fromx X kb vb sb size Hkv Hks _ okb osz (act osl) _ _ HX).
        - rewrite Nat2N.id. replace (length pre) with (length (act pre)) at 1 by apply act_length.
          now rewrite set_nth_app_len.
        - rewrite Nat2N.id, act_length, Hosl, app_length. simpl. lia.
        - rewrite Nat2N.id, Hosl. unfold act. rewrite map_app. simpl.
          replace (length pre) with (length (map active pre)) by apply map_length. rewrite nth_app_len. exact Hx.
        - rewrite Nat2N.id, app_length, act_length. simpl. lia.
        - rewrite Nat2N.id. replace (length pre) with (length (act pre)) by apply act_length. apply nth_app_len. }
      simpl length. simpl seq. simpl map. simpl combine. simpl flat_map. simpl fst. simpl snd.
      rewrite (apply_all_app X _ _ _ _ Hnext).
      specialize (IH (pre ++ [x])). rewrite app_length in IH. simpl in IH.
      replace (length pre + 1)%nat with (S (length pre)) in IH by lia.
      rewrite IH by (rewrite <- app_assoc; exact Hosl). now rewrite <- app_assoc.
  Qed.

  Lemma destroy_loop_ok : forall rest n,
    apply_all X (FL kb vb sb size (repeat false n ++ act rest))
      (flat_map (fun p => if active (snd p) then [Dest kb (fst p) 1] else [])
                (combine (map N.of_nat (seq n (length rest))) rest))
    = Some (FL kb vb sb size (repeat false (n + length rest))).
  Proof.
    induction rest as [|x t IH]; intros n.
    - simpl. now rewrite app_nil_r, Nat.add_0_r.
    - assert (Hnext : apply_all X (FL kb vb sb size (repeat false n ++ act (x :: t)))
                        (if active x then [Dest kb (N.of_nat n) 1] else [])
                      = Some (FL kb vb sb size (repeat false (S n) ++ act t))).
      { replace (repeat false (S n)) with (repeat false n ++ [false]) by (rewrite <- repeat_app with (n := n) (m := 1%nat); f_equal; lia).
        rewrite <- app_assoc. simpl app. simpl act.
        destruct (active x) eqn:Hx; cbn [apply_all]; [|reflexivity].
        rewrite (fl_dest X kb vb sb size Hkv Hks _ (N.of_nat n)).
        - rewrite Nat2N.id. replace n with (length (repeat false n)) at 1 by apply repeat_length.
          now rewrite set_nth_app_len.
        - rewrite Nat2N.id, app_length, repeat_length. simpl. lia.
        - rewrite Nat2N.id. replace n with (length (repeat false n)) at 1 by apply repeat_length. apply nth_app_len. }
      simpl length. simpl seq. simpl map. simpl combine. simpl flat_map. simpl fst. simpl snd.
      rewrite (apply_all_app X _ _ _ _ Hnext). rewrite IH. f_equal. f_equal. f_equal. lia.
  Qed.
End CopyDestroy.

Lemma fim_copy_ok s LS s' es : FInv s LS -> fim_copy s = Some (s', es) ->
  exists L', apply_all LS [] es = Some L' /\ FInv s' L' /\ f_blk s' <> None.
Proof.
  intros HI. unfold fim_copy. destruct (f_blk s) as [[[okb ovb] osb]|] eqn:Hb; [|discriminate].
  destruct (FInv_ledger s LS okb ovb osb HI Hb) as (-> & Hl & Hkv & Hks & Hvs & _).
  cbv zeta. intros E; injection E as <- <-.
  set (X := FL okb ovb osb (f_size s) (act (f_slots s))).
  assert (HX : lookup X okb = Some (kblk (f_size s) (act (f_slots s)))) by (apply fl_lookup; auto).
  eexists. split; [|split].
  - cbn [app apply_all]. rewrite apply_alloc by reflexivity.
    rewrite apply_alloc by (led_simpl; reflexivity). rewrite apply_alloc by (led_simpl; reflexivity).
    pose proof (copy_loop_ok X 0 1 2 (f_size s) ltac:(lia) ltac:(lia) okb (f_size s) (f_slots s) HX (f_slots s) [] eq_refl) as HC.
    simpl in HC. unfold FL in HC at 1. unfold kblk in HC at 1.
    unfold mkblk at 3. rewrite rng_empty by lia. unfold repeatN. rewrite <- Hl. exact HC.
  - unfold FInv, f_size in *. simpl. repeat split; auto; lia.
  - simpl. discriminate.
Qed.

Lemma fim_destroy_ok X s L : FInv s L -> apply_all X L (fim_destroy s) = Some [].
Proof.
  intros HI. unfold fim_destroy. destruct (f_blk s) as [[[kb vb] sb]|] eqn:Hb.
  - destruct (FInv_ledger s L kb vb sb HI Hb) as (-> & Hl & Hkv & Hks & Hvs & _).
    pose proof (destroy_loop_ok X kb vb sb (f_size s) Hkv Hks (f_slots s) 0) as HD. simpl in HD.
    rewrite (apply_all_app X _ _ _ _ HD). cbn [apply_all]. unfold FL.
    rewrite (apply_dealloc X _ kb (kblk (f_size s) (repeat false (length (f_slots s)))) (f_size s));
      [|now led_simpl|reflexivity|apply none_true_repeat].
    led_simpl.
    rewrite (apply_dealloc X _ vb (mkblk false (f_size s) 0 0) (f_size s)); [|now led_simpl|reflexivity|apply none_true_rng; lia].
    led_simpl.
    rewrite (apply_dealloc X _ sb (mkblk false (f_size s) 0 0) (f_size s)); [|now led_simpl|reflexivity|apply none_true_rng; lia].
    led_simpl. reflexivity.
  - unfold FInv in HI. rewrite Hb in HI. subst L. reflexivity.
Qed.

Lemma fim_moved_from_ok s : FInv (fim_moved_from s) [].
Proof. unfold FInv. simpl. reflexivity. Qed.

Fixpoint count_active (sl : list slot) : N :=
  match sl with [] => 0 | x :: t => (if active x then 1 else 0) + count_active t end.

Lemma count_true_act sl : count_true (act sl) = count_active sl.
Proof.
  induction sl as [|x t IH]; [reflexivity|]. unfold count_true in *. simpl. destruct (active x); simpl length; lia.
Qed.

(* live keys at rest = active slots; the keys block has 2^lg_cur slots *)
Lemma fim_live s L kb vb sb : FInv s L -> f_blk s = Some (kb, vb, sb) ->
  live_slots L = count_active (f_slots s) /\ item_slots L = f_size s.
Proof.
  intros HI Hb. destruct (FInv_ledger s L kb vb sb HI Hb) as (-> & _). split.
  - unfold live_slots, FL. simpl. rewrite !count_true_rng by lia. rewrite count_true_act. lia.
  - unfold item_slots, FL. simpl. lia.
Qed.
