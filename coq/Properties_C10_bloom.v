(* Properties_C10_bloom.v — Bloom filter image: the documented layout (bloom_filter_impl.hpp:248-269) (C10).
   Statements only; proofs in BloomCodecProofs.v. *)
From Coq Require Import ZArith NArith List Bool Lia.
From DS Require Import Word RunnerLib BloomDefs BloomProofs BloomCodecDefs BloomCodecProofs.
Import ListNotations.
Local Open Scope N_scope.

(* every preamble field sits at the documented offset with the documented value (little endian):
   byte 0 preamble longs (3 empty / 4), byte 1 serial version 1, byte 2 family id 21, byte 3 flags (EMPTY = 4),
   bytes 4-5 num hashes, 6-7 unused 0, 8-15 hash seed, 16-19 bit array length in longs, 20-23 unused 0,
   24-31 num bits set (non-empty only); total length 24 or 32 + 8 * longs *)
Theorem C10_bloom_layout_header : forall s,
  wf s ->
  let d := enc s in
  nth 0 d 0 = (match c_body s with None => 3 | Some _ => 4 end) /\
  nth 1 d 0 = 1 /\ nth 2 d 0 = 21 /\
  nth 3 d 0 = (match c_body s with None => 4 | Some _ => 0 end) /\
  rd d 4 2 = c_nh s /\ nth 6 d 0 = 0 /\ nth 7 d 0 = 0 /\
  rd d 8 8 = c_seed s /\
  rd d 16 4 = c_nl s /\ rd d 20 4 = 0 /\
  match c_body s with None => length d = 24%nat
                 | Some (c, _) => rd d 24 8 = c /\ length d = (32 + 8 * N.to_nat (c_nl s))%nat end.
Proof. exact layout_header. Qed.

(* the bit array starts at byte 32; bit i of the filter is bit (i mod 8) of byte 32 + i / 8 *)
Theorem C10_bloom_layout_bit : forall s c bits i,
  wf s -> c_body s = Some (c, bits) -> i < 64 * c_nl s ->
  N.testbit (nth (32 + N.to_nat (i / 8)) (enc s) 0) (i mod 8) = N.testbit bits i.
Proof. exact layout_bit. Qed.

(* what the readers tolerate: the stream reader accepts every preamble-longs value 1..4 and reads the same layout;
   no reader looks at any flag bit other than EMPTY *)
Theorem C10_bloom_stream_prelongs : forall p q t, 1 <= p <= 4 -> 1 <= q <= 4 -> dec RStream (p :: t) = dec RStream (q :: t).
Proof. exact dec_stream_prelongs. Qed.

Theorem C10_bloom_spare_flag_bits_ignored : forall r a b c f f' t,
  N.land f 4 = N.land f' 4 -> dec r (a :: b :: c :: f :: t) = dec r (a :: b :: c :: f' :: t).
Proof. exact dec_flags. Qed.

(* a reader written only from the documentation recovers the content: dec of ANY accepted image is dec of the canonical
   image of the content it reports *)
Theorem C10_bloom_accepted_is_canonical : forall r d s rest, dec r d = Some (s, rest) -> dec r (enc s ++ rest) = Some (s, rest).
Proof. exact dec_canonical. Qed.

(* reference images, byte for byte (the implementation writes exactly these: checked by the correspondence run) *)
Example C10_bloom_reference_images :
  enc (mkC 3 123 2 (Some (2, N.setbit (N.setbit 0 5) 77))) =
    [4; 1; 21; 0; 3; 0; 0; 0;   123; 0; 0; 0; 0; 0; 0; 0;   2; 0; 0; 0; 0; 0; 0; 0;   2; 0; 0; 0; 0; 0; 0; 0;
     32; 0; 0; 0; 0; 0; 0; 0;   0; 32; 0; 0; 0; 0; 0; 0] /\
  enc (mkC 7 (2 ^ 64 - 1) 1 None) =
    [3; 1; 21; 4; 7; 0; 0; 0;   255; 255; 255; 255; 255; 255; 255; 255;   1; 0; 0; 0; 0; 0; 0; 0] /\
  firstn 8 (skipn 24 (enc (mkC 1 0 1 (Some (DIRTY, 1))))) = repeat 255 8.
Proof. vm_compute. repeat split; reflexivity. Qed.

Print Assumptions C10_bloom_layout_header.
Print Assumptions C10_bloom_layout_bit.
Print Assumptions C10_bloom_stream_prelongs.
Print Assumptions C10_bloom_spare_flag_bits_ignored.
Print Assumptions C10_bloom_accepted_is_canonical.
