(* CpcImageClosed.v — deserialize(serialize s) for a reachable sketch, with no premise left: the per-flavor round trip of
   the compressor (CpcFlavorProofs.flavor_codec_rt) discharges the premise of CpcImageProofs2.sketch_roundtrip. *)
From Coq Require Import NArith ZArith List Bool Arith Lia.
From DS.gen Require Import CpcTablesGen.
From DS Require Import Word Murmur3 RunnerLib CpcDefs CpcCodecTables CpcCodecDefs CpcFlavorDefs.
From DS Require Import CpcTableProofs CpcBits CpcSketchInv CpcProofs CpcUnionProofs CpcCodecProofs CpcFlavorProofs.
From DS Require Import CpcImageDefs CpcImageProofs CpcImageProofs2.
Import ListNotations.
Local Open Scope N_scope.

Theorem serialize_deserialize_closed : forall l s hist kxp hip b,
  SInv l s hist -> 4 <= l <= 26 -> kxp < two64 -> hip < two64 ->
  4 * t_num (table s) <= 3 * 2 ^ (6 + l) -> t_num (table s) <= 2 ^ 26 ->
  enc s kxp hip = Some b ->
  exists t',
    let s' := mkS l (seed s) (merged s) (ncoup s) t' (window s) (woff s) (fic s) in
    let kxp' := if negb (merged s) && negb (ncoup s =? 0) then kxp else kxp_empty l in
    let hip' := if negb (merged s) && negb (ncoup s =? 0) then hip else 0 in
    dec_bytes (seed s) b = Some (s', kxp', hip') /\
    (forall rest, dec_stream (seed s) (b ++ rest) = Some (s', kxp', hip', rest)) /\
    (forall rest, rest <> [] -> dec_bytes (seed s) (b ++ rest) = None) /\
    (forall y, In y (t_items t') <-> In y (t_items (table s))) /\
    SInv l s' hist /\ build_bit_matrix s' = Some (spec_matrix l hist) /\ build_bit_matrix s = Some (spec_matrix l hist).
Proof.
  intros l s hist kxp hip b I Hl Hk Hh Hfit H26 He.
  unfold enc in He. destruct (image_of_sketch s kxp hip) as [i|] eqn:Ei; [|discriminate].
  simpl in He. inversion He; subst b; clear He.
  assert (Hc : exists c, compress_sketch s = Some c).
  { unfold image_of_sketch in Ei. destruct (compress_sketch s) as [c|]; [eauto|discriminate]. }
  destruct Hc as (c & Ec).
  assert (Hfits : table_fits l s) by (intros _; split; auto; lia).
  destruct (flavor_codec_rt l s hist c I Hl Hfits Ec) as (t' & Eu & Ht' & _ & Hset).
  exists t'. cbv zeta.
  destruct (sketch_roundtrip l s hist kxp hip c i t' I Hl Hk Hh Hfit H26 Ec Ei Eu) as (A & B & C).
  destruct (restored_matrix l s hist t' I Ht' Hset) as (D & E & F).
  split; [exact A|]. split; [exact B|]. split; [exact C|]. split; [exact Hset|]. split; [exact D|]. split; [exact E|exact F].
Qed.
