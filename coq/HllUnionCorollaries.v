(* HllUnionCorollaries.v — the specification state [eff] spelled out (coupons offered since the last reset, lg* as a
   minimum), and the consequences of [union_run_ok]: order independence, independence of interleaved estimate /
   get_result calls and of the value category of the inputs, nothing offered is lost, every HLL_8 sketch built from
   coupons is an admissible input. *)
From Coq Require Import ZArith NArith List Bool Lia Permutation.
From DS Require Import Word RunnerLib HllDefs HllProofs HllOpenAddr HllUnionDefs HllUnionBase HllUnionCoupon HllUnionProofs.
Import ListNotations.
Local Open Scope N_scope.

(* ---------- the history since the last reset ---------- *)
Definition since_reset (ops : list hop) : list hop :=
  fold_left (fun acc o => match o with HReset => [] | _ => acc ++ [o] end) ops [].

Definition no_reset (ops : list hop) : Prop := Forall (fun o => o <> HReset) ops.

Lemma since_reset_snoc ops o : since_reset (ops ++ [o]) = match o with HReset => [] | _ => since_reset ops ++ [o] end.
Proof. unfold since_reset. now rewrite fold_left_app. Qed.

Lemma since_reset_no_reset ops : no_reset (since_reset ops).
Proof.
  induction ops as [|o t IH] using rev_ind; [constructor|]. rewrite since_reset_snoc.
  destruct o; try (apply Forall_app; split; [exact IH|constructor; [discriminate|constructor]]). constructor.
Qed.

Lemma eff_snoc lgmax ops o : eff lgmax (ops ++ [o]) = eff_step lgmax (eff lgmax ops) o.
Proof. unfold eff, eff_from. now rewrite fold_left_app. Qed.

Lemma eff_since_reset lgmax ops : eff lgmax ops = eff lgmax (since_reset ops).
Proof.
  induction ops as [|o t IH] using rev_ind; [reflexivity|].
  rewrite since_reset_snoc, eff_snoc. destruct o; try (rewrite eff_snoc, IH; reflexivity). reflexivity.
Qed.

Lemma since_reset_id ops : no_reset ops -> since_reset ops = ops.
Proof.
  induction ops as [|o t IH] using rev_ind; intros H; [reflexivity|]. apply Forall_app in H. destruct H as [Ht Ho].
  rewrite since_reset_snoc, IH by exact Ht. inversion Ho; subst. destruct o; congruence.
Qed.

(* the coupons offered and the lg_k of the non-empty HLL-mode inputs *)
Definition offered1 (o : hop) : list N :=
  match o with
  | HSk _ src Cs => if sk_is_empty src then [] else Cs
  | HCp c => [c]
  | _ => []
  end.
Definition offered (ops : list hop) : list N := flat_map offered1 ops.

Definition hll_lgk1 (o : hop) : list N :=
  match o with
  | HSk _ src _ => if negb (sk_is_empty src) && is_hll src then [sk_lgk src] else []
  | _ => []
  end.
Definition hll_lgks (ops : list hop) : list N := flat_map hll_lgk1 ops.

Definition lg_star (lgmax : N) (ops : list hop) : N := fold_right N.min lgmax (hll_lgks ops).

Lemma eff_step_no_reset lgmax C lg o : o <> HReset ->
  eff_step lgmax (C, lg) o = (C ++ offered1 o, fold_left N.min (hll_lgk1 o) lg).
Proof.
  intros Hr. destruct o as [rv src Cs|c| |ty|]; cbn [eff_step offered1 hll_lgk1 fst snd fold_left]; try now rewrite app_nil_r.
  - destruct (sk_is_empty src); cbn [negb andb fold_left]; [now rewrite app_nil_r|].
    unfold lg_after. destruct (is_hll src); reflexivity.
  - congruence.
Qed.

Lemma eff_from_no_reset lgmax ops : no_reset ops -> forall C lg,
  eff_from lgmax (C, lg) ops = (C ++ offered ops, fold_left N.min (hll_lgks ops) lg).
Proof.
  unfold eff_from, offered, hll_lgks. induction ops as [|o t IH]; intros H C lg; cbn [fold_left flat_map].
  - now rewrite app_nil_r.
  - inversion H; subst. rewrite eff_step_no_reset by assumption. rewrite IH by assumption.
    now rewrite app_assoc, fold_left_app.
Qed.

Lemma fold_min_sym l a : fold_left N.min l a = fold_right N.min a l.
Proof. apply fold_symmetric; intros; lia. Qed.

Theorem eff_spelled lgmax ops :
  eff lgmax ops = (offered (since_reset ops), lg_star lgmax (since_reset ops)).
Proof.
  rewrite eff_since_reset. unfold eff. rewrite eff_from_no_reset by apply since_reset_no_reset.
  cbn [app]. unfold lg_star. now rewrite fold_min_sym.
Qed.

(* lg* is a lower bound of lg_max_k and of the lg_k of every counted input, and it is one of them *)
Lemma lg_star_le lgmax ops : lg_star lgmax ops <= lgmax /\ forall k, In k (hll_lgks ops) -> lg_star lgmax ops <= k.
Proof.
  unfold lg_star. induction (hll_lgks ops) as [|x t IH]; cbn [fold_right].
  - split; [lia|]. intros k [].
  - destruct IH as [H1 H2]. split; [lia|]. intros k [<-|Hk]; [lia|]. specialize (H2 k Hk). lia.
Qed.

Lemma lg_star_attained lgmax ops : lg_star lgmax ops = lgmax \/ In (lg_star lgmax ops) (hll_lgks ops).
Proof.
  unfold lg_star. induction (hll_lgks ops) as [|x t IH]; cbn [fold_right]; [now left|].
  destruct (N.min_spec x (fold_right N.min lgmax t)) as [[_ ->]|[_ ->]].
  - right. now left.
  - destruct IH as [->|H]; [now left|right; now right].
Qed.

(* ---------- the main theorem in its final form ---------- *)
Theorem union_spec lgmax ops : 4 <= lgmax -> lgmax <= 21 -> Forall hop_ok ops ->
  exists u, u_run repaired (u_new lgmax) (map op_of ops) = Some u /\
            result_ok (lg_star lgmax (since_reset ops)) (offered (since_reset ops)) (u_gadget u).
Proof.
  intros H4 H21 Hok. destruct (union_run_ok lgmax ops H4 H21 Hok) as (u & E & _ & Hr).
  exists u. split; [exact E|]. now rewrite eff_spelled in Hr.
Qed.

(* two histories that offer the same SET of coupons and have the same lg* leave results with the same lg_k, registers
   and emptiness *)
Theorem union_determined lgmax ops1 ops2 u1 u2 : 4 <= lgmax -> lgmax <= 21 ->
  Forall hop_ok ops1 -> Forall hop_ok ops2 ->
  u_run repaired (u_new lgmax) (map op_of ops1) = Some u1 ->
  u_run repaired (u_new lgmax) (map op_of ops2) = Some u2 ->
  lg_star lgmax (since_reset ops1) = lg_star lgmax (since_reset ops2) ->
  same_set (offered (since_reset ops1)) (offered (since_reset ops2)) ->
  sk_lgk (u_gadget u1) = sk_lgk (u_gadget u2) /\ sk_regs (u_gadget u1) = sk_regs (u_gadget u2) /\
  sk_is_empty (u_gadget u1) = sk_is_empty (u_gadget u2).
Proof.
  intros H4 H21 Hok1 Hok2 E1 E2 Hlg HS.
  destruct (union_spec lgmax ops1 H4 H21 Hok1) as (u1' & E1' & R1). rewrite E1 in E1'. inversion E1'; subst u1'.
  destruct (union_spec lgmax ops2 H4 H21 Hok2) as (u2' & E2' & R2). rewrite E2 in E2'. inversion E2'; subst u2'.
  destruct R1 as [K1 G1 M1 _], R2 as [K2 G2 M2 _]. split; [congruence|]. split.
  - rewrite G1, G2, Hlg. f_equal. now apply spec_regs_same_set.
  - destruct (sk_is_empty (u_gadget u1)) eqn:A, (sk_is_empty (u_gadget u2)) eqn:B; auto.
    + assert (Hn : offered (since_reset ops1) = []) by now apply M1.
      assert (Hn2 : offered (since_reset ops2) = []) by (apply same_set_nil; rewrite <- Hn; exact HS).
      apply M2 in Hn2. congruence.
    + assert (Hn : offered (since_reset ops2) = []) by now apply M2.
      assert (Hn1 : offered (since_reset ops1) = []) by (apply same_set_nil; rewrite <- Hn; apply same_set_sym; exact HS).
      apply M1 in Hn1. congruence.
Qed.

(* ---------- order independence ---------- *)
Lemma offered_perm ops1 ops2 : Permutation ops1 ops2 -> Permutation (offered ops1) (offered ops2).
Proof.
  unfold offered. induction 1; cbn [flat_map]; auto.
  - now apply Permutation_app_head.
  - rewrite !app_assoc. apply Permutation_app_tail, Permutation_app_comm.
  - eapply Permutation_trans; eauto.
Qed.

Lemma hll_lgks_perm ops1 ops2 : Permutation ops1 ops2 -> Permutation (hll_lgks ops1) (hll_lgks ops2).
Proof.
  unfold hll_lgks. induction 1; cbn [flat_map]; auto.
  - now apply Permutation_app_head.
  - rewrite !app_assoc. apply Permutation_app_tail, Permutation_app_comm.
  - eapply Permutation_trans; eauto.
Qed.

Lemma fold_min_perm a l1 l2 : Permutation l1 l2 -> fold_right N.min a l1 = fold_right N.min a l2.
Proof. induction 1; cbn [fold_right]; lia. Qed.

Lemma perm_same_set (A B : list N) : Permutation A B -> same_set A B.
Proof. intros H c. split; apply Permutation_in; [exact H|now apply Permutation_sym]. Qed.

Theorem union_perm lgmax ops1 ops2 u1 u2 : 4 <= lgmax -> lgmax <= 21 ->
  Forall hop_ok ops1 -> no_reset ops1 -> Permutation ops1 ops2 ->
  u_run repaired (u_new lgmax) (map op_of ops1) = Some u1 ->
  u_run repaired (u_new lgmax) (map op_of ops2) = Some u2 ->
  sk_lgk (u_gadget u1) = sk_lgk (u_gadget u2) /\ sk_regs (u_gadget u1) = sk_regs (u_gadget u2) /\
  sk_is_empty (u_gadget u1) = sk_is_empty (u_gadget u2).
Proof.
  intros H4 H21 Hok Hnr Hp E1 E2.
  assert (Hok2 : Forall hop_ok ops2) by (eapply Permutation_Forall; eauto).
  assert (Hnr2 : no_reset ops2) by (eapply Permutation_Forall; eauto).
  apply (union_determined lgmax ops1 ops2); auto; rewrite !since_reset_id by assumption.
  - unfold lg_star. apply fold_min_perm. now apply hll_lgks_perm.
  - apply perm_same_set. now apply offered_perm.
Qed.

(* ---------- interleaved queries and the value category do not matter ---------- *)
Definition is_query (o : hop) : bool := match o with HEst | HRes _ => true | _ => false end.

(* the same history without its estimate / get_result calls and with every input passed by const& *)
Definition plain1 (o : hop) : list hop :=
  match o with
  | HEst | HRes _ => []
  | HSk _ src Cs => [HSk false src Cs]
  | _ => [o]
  end.
Definition plain (ops : list hop) : list hop := flat_map plain1 ops.

Lemma eff_step_plain lgmax st o : fold_left (eff_step lgmax) (plain1 o) st = eff_step lgmax st o.
Proof. destruct o; reflexivity. Qed.

Lemma eff_plain lgmax ops : eff lgmax (plain ops) = eff lgmax ops.
Proof.
  unfold eff, eff_from, plain. generalize (@nil N, lgmax). induction ops as [|o t IH]; intros st; cbn [flat_map fold_left]; [reflexivity|].
  now rewrite fold_left_app, eff_step_plain, IH.
Qed.

Lemma plain_ok ops : Forall hop_ok ops -> Forall hop_ok (plain ops).
Proof.
  unfold plain. induction 1 as [|o t Ho Ht IH]; cbn [flat_map]; [constructor|]. apply Forall_app. split; [|exact IH].
  destruct o; cbn [plain1]; auto.
Qed.

Theorem union_interleaving lgmax ops1 ops2 u1 u2 : 4 <= lgmax -> lgmax <= 21 ->
  Forall hop_ok ops1 -> Forall hop_ok ops2 -> plain ops1 = plain ops2 ->
  u_run repaired (u_new lgmax) (map op_of ops1) = Some u1 ->
  u_run repaired (u_new lgmax) (map op_of ops2) = Some u2 ->
  sk_lgk (u_gadget u1) = sk_lgk (u_gadget u2) /\ sk_regs (u_gadget u1) = sk_regs (u_gadget u2) /\
  sk_is_empty (u_gadget u1) = sk_is_empty (u_gadget u2).
Proof.
  intros H4 H21 Hok1 Hok2 Hp E1 E2.
  assert (He : eff lgmax ops1 = eff lgmax ops2) by (rewrite <- (eff_plain lgmax ops1), <- (eff_plain lgmax ops2); now rewrite Hp).
  rewrite !eff_spelled in He. inversion He as [[HA HB]].
  apply (union_determined lgmax ops1 ops2); auto. rewrite HA. apply same_set_refl.
Qed.

(* ---------- nothing offered is lost ---------- *)
Theorem nothing_lost lgmax ops : 4 <= lgmax -> lgmax <= 21 -> Forall hop_ok ops ->
  exists u regs, u_run repaired (u_new lgmax) (map op_of ops) = Some u /\ sk_regs (u_gadget u) = Some regs /\
    forall c, In c (offered (since_reset ops)) ->
      c_val c <= getN regs (c_slot (sk_lgk (u_gadget u)) c).
Proof.
  intros H4 H21 Hok. destruct (union_spec lgmax ops H4 H21 Hok) as (u & E & [K G _ _]).
  eexists u, _. split; [exact E|]. split; [exact G|]. intros c Hc. rewrite K.
  rewrite getN_spec_regs by apply c_slot_lt. now apply slot_max_ub.
Qed.

(* ---------- admissible inputs: every HLL_8 sketch built from coupons, in whatever mode it ends up ---------- *)
Lemma ginv_src_ok lgk C g : ginv lgk lgk C g -> src_ok C g.
Proof.
  intros (HC & H4 & _ & H21 & Hok & _ & Hnn). split; [exact HC|].
  destruct g as [l|s|h]; cbn [cmode_ok] in Hok.
  - destruct Hok as [[Hk Ha] _]. split; [reflexivity|exact Ha].
  - destruct Hok as [Hs _]. pose proof (so_lgk _ _ _ Hs) as Hk. now rewrite Hk.
  - destruct Hok as [R8 Hk Hr Hn He]. split; try lia.
    + rewrite (hll_regs_8 _ R8), Hk. now f_equal.
    + intros _. now apply Hnn.
    + intros _. destruct R8 as [_ Hl]. split; [exact Hl|now rewrite Hk].
Qed.

Theorem built8_src_ok lgk cs : 4 <= lgk -> lgk <= 21 -> Forall cok cs ->
  exists i, sk_updates (sk_new lgk T8 false) cs = Some i /\ src_ok cs i.
Proof.
  intros H4 H21 Hcs. pose proof (ginv_new lgk H4 H21) as H0. cbn [u_new u_gadget] in H0.
  destruct cs as [|c t].
  - eexists. split; [reflexivity|]. now apply (ginv_src_ok lgk).
  - destruct (ginv_updates lgk lgk [] _ (c :: t) H0 Hcs) as (g' & E & Hg'); [discriminate|].
    exists g'. split; [|now apply (ginv_src_ok lgk)].
    unfold sk_updates. rewrite <- E. clear E Hg' H0. generalize (sk_new lgk T8 false).
    revert Hcs. generalize (c :: t). induction l as [|x r IH]; intros Hl i; cbn [ofold]; [reflexivity|].
    inversion Hl; subst. rewrite sk_update_impl by now apply cok_nz. destruct (impl_update i x); [|reflexivity]. now apply IH.
Qed.

(* ---------- get_result(HLL_8) after any history ---------- *)
Theorem union_result8 lgmax ops : 4 <= lgmax -> lgmax <= 21 -> Forall hop_ok ops ->
  exists u r, u_run repaired (u_new lgmax) (map op_of ops) = Some u /\ u_result u T8 = Some r /\
    sk_lgk r = lg_star lgmax (since_reset ops) /\
    sk_regs r = Some (spec_regs (lg_star lgmax (since_reset ops)) (offered (since_reset ops))) /\
    (sk_is_empty r = true <-> offered (since_reset ops) = []).
Proof.
  intros H4 H21 Hops.
  destruct (run_ok lgmax ops lgmax [] (u_gadget (u_new lgmax)) (ginv_new lgmax H4 H21) Hops) as (g' & E & Hg').
  change (eff_from lgmax ([], lgmax) ops) with (eff lgmax ops) in Hg'. rewrite eff_spelled in Hg'. cbn [fst snd] in Hg'.
  destruct (result8_ok _ _ _ _ Hg') as (r & Er & Hr).
  eexists _, r. split; [exact E|]. split; [exact Er|exact Hr].
Qed.
