(* Properties_C06.v — estimates and confidence bounds of the distinct-count sketches are consistent.
   Only statements, closed by [exact]; proofs live in BoundsProofs.v, BoundsFloatDiv.v, BoundsExact.v, BoundsTables.v.
   The definitions (sk_lb, bb_lb, hll_lb, cpc_lb, ... instance [fops] = IEEE-754 binary64) are the ones extracted
   and replayed bit for bit against the C++ code by checks/C06.py; [qops] is the exact rational instance.
   (This file does not import Floats, so that Print Assumptions shows the primitive-float names qualified.) *)
From Coq Require Import ZArith List Bool QArith.
From DS Require Import RunnerLib BoundsDefs BoundsProofs BoundsFloatDiv BoundsExact BoundsTables.
From DS.gen Require Import BoundTablesGen.
Import ListNotations.
Local Open Scope Z_scope.

(* ---- Theta / Tuple (binomial_bounds): for ALL binary64 values of theta and of the inner approximations
        (NaN and infinities included), any n, any number of std devs: never estimate < lb, never ub < estimate ---- *)
Theorem C06_binomial_bounds_order : forall n theta inner_lb inner_ub,
  PrimFloat.ltb (bb_est fops n theta) (bb_lb fops n theta inner_lb) = false /\
  PrimFloat.ltb (bb_ub fops n theta inner_ub) (bb_est fops n theta) = false.
Proof. intros; split; [apply f_bb_lb_le_est | apply f_bb_est_le_ub]. Qed.

(* theta_sketch / tuple_sketch get_lower_bound <= get_estimate <= get_upper_bound, estimation mode or not *)
Theorem C06_sketch_bounds_order : forall estmode n theta inner_lb inner_ub,
  (estmode = false -> theta = PrimFloat.one \/ (n = 0 /\ PrimFloat.ltb PrimFloat.zero theta = true)) ->
  PrimFloat.ltb (sk_est fops n theta) (sk_lb fops estmode n theta inner_lb) = false /\
  PrimFloat.ltb (sk_ub fops estmode n theta inner_ub) (sk_est fops n theta) = false.
Proof. exact sketch_order. Qed.

(* the same as lb <= est <= ub with IEEE <= whenever none of the three values is NaN *)
Theorem C06_sketch_bounds_order_leb : forall estmode n theta inner_lb inner_ub,
  (estmode = false -> theta = PrimFloat.one \/ (n = 0 /\ PrimFloat.ltb PrimFloat.zero theta = true)) ->
  fisnan (sk_est fops n theta) = false -> fisnan (sk_lb fops estmode n theta inner_lb) = false ->
  fisnan (sk_ub fops estmode n theta inner_ub) = false ->
  PrimFloat.leb (sk_lb fops estmode n theta inner_lb) (sk_est fops n theta) = true /\
  PrimFloat.leb (sk_est fops n theta) (sk_ub fops estmode n theta inner_ub) = true.
Proof. exact sketch_order_leb. Qed.

(* exact outside estimation mode: theta64 = MAX_THETA => get_theta() = 1.0 and lb = estimate = ub = retained, bit for bit *)
Theorem C06_exact_outside_estimation_mode : forall n m inner_lb inner_ub,
  let theta := theta_frac max_theta in
  theta = PrimFloat.one /\
  sk_est fops n theta = fofZ n /\ sk_lb fops false m theta inner_lb = fofZ m /\ sk_ub fops false m theta inner_ub = fofZ m.
Proof. intros. split; [exact theta_frac_max | apply sketch_exact_theta_max]. Qed.

Theorem C06_not_estimation_mode_cases : forall theta64 empty, theta64 <= max_theta ->
  estimation_mode theta64 empty = false -> theta64 = max_theta \/ empty = true.
Proof. exact estimation_mode_false. Qed.

(* an empty sketch (no retained entries) with any theta > 0 *)
Theorem C06_exact_when_empty : forall theta inner_lb inner_ub, PrimFloat.ltb PrimFloat.zero theta = true ->
  sk_est fops 0 theta = fofZ 0 /\ sk_lb fops false 0 theta inner_lb = fofZ 0 /\ sk_ub fops false 0 theta inner_ub = fofZ 0.
Proof. exact sketch_exact_empty. Qed.

(* x / 1.0 = x for every binary64 x *)
Theorem C06_div_by_one_exact : forall x, PrimFloat.div x PrimFloat.one = x.
Proof. exact fdiv_one. Qed.

(* binomial_bounds special cases, bit-exact: theta = 1 and zero samples *)
Theorem C06_binomial_theta_one : forall n sd pw,
  approx_lb n PrimFloat.one sd pw = Exact 1 (fofZ n) /\ approx_ub n PrimFloat.one sd pw = Exact 1 (fofZ n) /\
  bb_est fops n PrimFloat.one = fofZ n /\ bb_lb fops n PrimFloat.one (fofZ n) = fofZ n /\ bb_ub fops n PrimFloat.one (fofZ n) = fofZ n.
Proof. intros. destruct (approx_theta_one n sd pw), (bb_theta_one n) as (? & ? & ?). auto. Qed.

Theorem C06_binomial_zero_samples : forall theta sd pw, PrimFloat.ltb PrimFloat.zero theta = true ->
  (approx_lb 0 theta sd pw = Exact 1 PrimFloat.zero \/ approx_lb 0 theta sd pw = Exact 2 PrimFloat.zero) /\
  bb_est fops 0 theta = PrimFloat.zero /\ bb_lb fops 0 theta PrimFloat.zero = PrimFloat.zero.
Proof. intros. split; [apply approx_lb_zero_samples | now apply bb_zero_samples]. Qed.

(* branch structure of the inner approximations: table branch (6) and exact-tail branch (7) only in the table's range
   ([pw] = pow(theta, n) resp. pow(theta, n+1), the only libm value of the exact tails) *)
Theorem C06_binomial_branch_structure : forall n theta sd pw, 0 <= n ->
  match approx_lb n theta sd pw with
  | Exact 6 _ => 2 <= n <= 120 | Exact 7 _ => 2 <= n <= 120 | Libm 7 => 2 <= n <= 120 | Libm 3 => n = 1 | Exact 2 _ => n = 0 | Exact 4 _ => 120 < n | _ => True
  end /\
  match approx_ub n theta sd pw with
  | Exact 6 _ => 1 <= n <= 120 | Exact 7 _ => 1 <= n <= 120 | Libm 7 => 1 <= n <= 120 | Libm 2 => n = 0 | Exact 4 _ => 120 < n | _ => True
  end.
Proof. intros. split; [now apply approx_lb_branches | now apply approx_ub_branches]. Qed.

(* ---- clamps of HLL (coupon list / HLL array), CPC and ICON, for ALL binary64 values: the result is never below the
        coupon count / number of non-zero registers ---- *)
Theorem C06_clamps_never_below_count : forall (x r eps : PrimFloat.float) (c : Z),
  PrimFloat.ltb (coupon_est fops x c) (fofZ c) = false /\
  PrimFloat.ltb (coupon_lb fops x r c) (fofZ c) = false /\
  PrimFloat.ltb (coupon_ub fops x r c) (fofZ c) = false /\
  PrimFloat.ltb (hll_lb fops x r c) (fofZ c) = false /\
  (c <> 0 -> PrimFloat.ltb (cpc_lb fops c x eps) (fofZ c) = false) /\
  PrimFloat.ltb (icon_clamp fops x c) (fofZ c) = false.
Proof.
  intros. repeat split; try apply f_cfmax_ge_r; [apply f_cpc_lb_ge_coupons | apply f_icon_clamp_ge_coupons].
Qed.

(* ---- exact rational arithmetic: the relative-error divisions keep the order and widen with the std devs ---- *)
Local Open Scope Q_scope.
Theorem C06_hll_array_order : forall est re_lo re_hi nnz,
  0 < re_lo -> -1 < re_hi -> re_hi < 0 -> inject_Z nnz <= est -> 0 <= est ->
  inject_Z nnz <= hll_lb qops est re_lo nnz /\ hll_lb qops est re_lo nnz <= est /\ est <= hll_ub qops est re_hi.
Proof. exact q_hll_order. Qed.
Theorem C06_hll_array_widen : forall est nnz lo1 lo2 hi1 hi2, 0 <= est -> 0 < lo1 -> lo1 <= lo2 -> -1 < hi2 -> hi2 <= hi1 ->
  hll_lb qops est lo2 nnz <= hll_lb qops est lo1 nnz /\ hll_ub qops est hi1 <= hll_ub qops est hi2.
Proof. intros. split; [now apply q_hll_widen | now apply q_hll_widen_ub]. Qed.
Theorem C06_coupon_list_order : forall cubic r count, (0 <= count)%Z -> 0 <= r -> r < 1 ->
  inject_Z count <= coupon_lb qops cubic r count /\
  coupon_lb qops cubic r count <= coupon_est qops cubic count /\
  coupon_est qops cubic count <= coupon_ub qops cubic r count.
Proof. exact q_coupon_order. Qed.
Theorem C06_coupon_list_widen : forall cubic r1 r2 count, 0 <= cubic -> 0 <= r1 -> r1 <= r2 -> r2 < 1 ->
  coupon_lb qops cubic r2 count <= coupon_lb qops cubic r1 count /\
  coupon_ub qops cubic r1 count <= coupon_ub qops cubic r2 count.
Proof. exact q_coupon_widen. Qed.
Theorem C06_cpc_order : forall c est eps_lo eps_hi, (0 < c)%Z -> inject_Z c <= est -> 0 < eps_lo -> 0 <= eps_hi -> eps_hi < 1 ->
  inject_Z c <= cpc_lb qops c est eps_lo /\ cpc_lb qops c est eps_lo <= est /\ est <= cpc_ub qops c est eps_hi.
Proof. exact q_cpc_order. Qed.
Theorem C06_cpc_empty : forall est eps, cpc_lb qops 0 est eps = 0 /\ cpc_ub qops 0 est eps = 0.
Proof. exact q_cpc_zero. Qed.
Theorem C06_cpc_widen : forall c est e1 e2, 0 <= est -> 0 < e1 -> e1 <= e2 -> e2 < 1 ->
  cpc_lb qops c est e2 <= cpc_lb qops c est e1 /\ cpc_ub qops c est e1 <= cpc_ub qops c est e2.
Proof. exact q_cpc_widen. Qed.
(* widening of the inner approximations passes through the min/max clamps of binomial_bounds *)
Theorem C06_binomial_widen_through_clamps : forall n theta i1 i2 j1 j2, i2 <= i1 -> j1 <= j2 ->
  bb_lb qops n theta i2 <= bb_lb qops n theta i1 /\ bb_ub qops n theta j1 <= bb_ub qops n theta j2.
Proof. exact q_bb_widen. Qed.
Theorem C06_binomial_lb_ge_retained : forall n theta inner, 0 < theta -> theta <= 1 -> (0 <= n)%Z ->
  inject_Z n <= bb_lb qops n theta inner.
Proof. exact q_bb_lb_ge_n. Qed.

(* ---- HIP accumulators (exact arithmetic): every increment k/kxq is >= 1, so HIP >= number of non-zero registers
        (HllArray, for every update sequence of the abstract register array) / number of collected coupons (CPC) ---- *)
Theorem C06_hip_dominates_nonzero_registers : forall k ups,
  inject_Z (count_nonzero (h_regs (hip_run k ups))) <= h_hip (hip_run k ups).
Proof. exact hip_ge_nonzeros. Qed.
Theorem C06_hip_dominates_increment_count : forall k xs acc0, Forall (fun x => 0 < x /\ x <= k) xs ->
  acc0 + inject_Z (Z.of_nat (length xs)) <= fold_left (hip_step qops k) xs acc0.
Proof. exact hip_accum_ge_count. Qed.
Local Close Scope Q_scope.

(* ---- side conditions of the TRANSLATED tables (re-generated from the headers on every run) ---- *)
Theorem C06_table_lengths :
  (length delta_of_num_std_devs, length lb_equiv_table, length ub_equiv_table) = (4, 363, 363)%nat /\
  (length hll_HIP_LB, length hll_HIP_UB, length hll_NON_HIP_LB, length hll_NON_HIP_UB) = (27, 27, 27, 27)%nat /\
  (length cpc_ICON_LOW_SIDE_DATA, length cpc_ICON_HIGH_SIDE_DATA, length cpc_HIP_LOW_SIDE_DATA, length cpc_HIP_HIGH_SIDE_DATA)
     = (33, 33, 33, 33)%nat /\
  Z.of_nat (length icon_coefficients) = (icon_POLYNOMIAL_DEGREE + 1) * (icon_MAX_LOG_K - icon_MIN_LOG_K + 1) /\
  (Z.of_nat (length coupon_xArr), Z.of_nat (length coupon_yArr)) = (coupon_numEntries, coupon_numEntries).
Proof. exact table_lengths. Qed.
Theorem C06_table_indices_in_range :
  (forall n sd, 0 <= n <= 120 -> 1 <= sd <= 3 ->
     0 <= equiv_index n sd < Z.of_nat (length lb_equiv_table) /\ 0 <= equiv_index n sd < Z.of_nat (length ub_equiv_table)) /\
  (forall lgk sd, 4 <= lgk <= 12 -> 1 <= sd <= 3 -> 0 <= (lgk - 4) * 3 + (sd - 1) < 27) /\
  (forall lgk kappa, 4 <= lgk <= 14 -> 1 <= kappa <= 3 -> 0 <= 3 * (lgk - 4) + (kappa - 1) < 33) /\
  (forall lgk, icon_MIN_LOG_K <= lgk <= icon_MAX_LOG_K ->
     0 <= icon_ncoef * (lgk - icon_MIN_LOG_K) /\ icon_ncoef * (lgk - icon_MIN_LOG_K) + icon_ncoef <= Z.of_nat (length icon_coefficients)).
Proof.
  split; [exact equiv_index_in_range | split; [exact hll_index_in_range | split; [exact cpc_index_in_range | exact icon_index_in_range]]].
Qed.
Theorem C06_binomial_tables_ok :
  forallb fpos lb_equiv_table = true /\ forallb fpos ub_equiv_table = true /\
  forallb row_incr (rows3 lb_equiv_table) = true /\ forallb row_incr (rows3 ub_equiv_table) = true /\
  forallb fpos delta_of_num_std_devs = true /\
  sorted_strict (rev delta_of_num_std_devs) = true /\ PrimFloat.leb (fnth delta_of_num_std_devs 0) c_half = true.
Proof. exact binomial_tables_ok. Qed.
Theorem C06_hll_tables_ok :
  forallb fpos hll_HIP_LB = true /\ forallb fpos hll_NON_HIP_LB = true /\
  forallb fneg_unit hll_HIP_UB = true /\ forallb fneg_unit hll_NON_HIP_UB = true /\
  forallb row_incr (rows3 hll_HIP_LB) = true /\ forallb row_incr (rows3 hll_NON_HIP_LB) = true /\
  forallb row_decr (rows3 hll_HIP_UB) = true /\ forallb row_decr (rows3 hll_NON_HIP_UB) = true.
Proof. exact hll_tables_ok. Qed.
(* HllUtil::getRelErr as modelled bit-exactly, every lg_k 4..21: lower side > 0 and increasing in the std devs,
   upper side in (-1,0) and decreasing *)
Theorem C06_hll_rel_err_ok : forall ooo lgk, hll_MIN_LOG_K <= lgk <= hll_MAX_LOG_K -> hll_rel_err_row_ok ooo lgk = true.
Proof. exact hll_rel_err_ok. Qed.
Theorem C06_coupon_tables_ok :
  (fpos coupon_rse = true /\ flt (PrimFloat.mul (fofZ 3) coupon_rse) PrimFloat.one = true) /\
  sorted_strict coupon_xArr = true /\ sorted_strict coupon_yArr = true /\
  forallb (fun p => PrimFloat.leb (fst p) (snd p)) (combine coupon_xArr coupon_yArr) = true.
Proof. split; [exact coupon_rse_ok | exact coupon_tables_ok]. Qed.
(* cpc_confidence eps as modelled bit-exactly, every lg_k 4..26, HIP and ICON: 0 < eps, eps_ub < 1, increasing in kappa *)
Theorem C06_cpc_eps_ok : forall merged lgk, 4 <= lgk <= 26 -> cpc_eps_row_ok merged lgk = true.
Proof. exact cpc_eps_ok. Qed.
Theorem C06_cpc_tables_ok :
  forallb (fun v => (0 <? v) && (v <? 10000))
          (cpc_ICON_LOW_SIDE_DATA ++ cpc_ICON_HIGH_SIDE_DATA ++ cpc_HIP_LOW_SIDE_DATA ++ cpc_HIP_HIGH_SIDE_DATA) = true.
Proof. exact cpc_tables_ok. Qed.

Theorem C06_composite_tables_ok :
  Z.of_nat (length composite_xArrs_bits) = hll_MAX_LOG_K - hll_MIN_LOG_K + 1 /\
  length composite_yStrides = length composite_xArrs_bits /\
  forallb (fun r => (Z.of_nat (length r) =? composite_numXArrValues) && sorted_strict (map FloatBits.bits_to_float r)
                    && fpos (FloatBits.bits_to_float (znth r 0))) composite_xArrs_bits = true /\
  forallb (fun v => 0 <? v) composite_yStrides = true /\ 4 <= composite_numXArrValues.
Proof. exact composite_tables_ok. Qed.

(* the published tables and constants are pinned by a digest over their binary64 bit patterns: extra decimal digits that
   round to the same double are tolerated, a changed entry is not *)
Theorem C06_tables_pinned : all_digests =
  [1631660916400092824; 1336942135380431933; 1334016574715188835; 367845026185637098; 1621689400017352834;
   2238524135473666140; 534981407937136847; 1630260656333221549; 260266529527383061; 193657861660872282;
   1607972753685019361; 1883696197063475363; 1870653436784715027; 1435897921207620034; 2245007942206803064;
   2021821944066709579; 356755886151464469].
Proof. exact tables_pinned. Qed.

(* ---- non-vacuity: concrete evaluations of the extracted definitions ---- *)
(* estimation mode, n = 50, theta = 1/16: lb < est < ub with the model's own inner approximations (table branch 6) *)
Example C06_nonvacuous_binomial :
  let theta := theta_frac 576460752303423488 in
  match approx_lb 50 theta 2 PrimFloat.one, approx_ub 50 theta 2 PrimFloat.one with
  | Exact 6 il, Exact 6 iu =>
      PrimFloat.ltb (sk_lb fops true 50 theta il) (sk_est fops 50 theta) && PrimFloat.ltb (sk_est fops 50 theta) (sk_ub fops true 50 theta iu)
      && PrimFloat.ltb (fofZ 50) (sk_lb fops true 50 theta il) && PrimFloat.eqb (sk_est fops 50 theta) (fofZ 800)
  | _, _ => false
  end = true.
Proof. vm_compute. reflexivity. Qed.
(* the clamp is active: an inner lower "bound" above the estimate is cut down to the estimate, one below n is raised to n *)
Example C06_nonvacuous_clamp :
  PrimFloat.eqb (bb_lb fops 10 c_half (fofZ 1000)) (fofZ 20) && PrimFloat.eqb (bb_lb fops 10 c_half (fofZ 3)) (fofZ 10)
  && PrimFloat.eqb (bb_ub fops 10 c_half (fofZ 3)) (fofZ 20) = true.
Proof. vm_compute. reflexivity. Qed.
(* HLL / CPC in exact arithmetic with real table values: lg_k = 4, 2 std devs *)
Example C06_nonvacuous_hll_cpc :
  (hll_lb qops 100 (502865572 # 1000000000) 16 < 100 /\ 100 < hll_ub qops 100 (- (355574279 # 1000000000)))%Q /\
  (cpc_lb qops 7 100 (2 * (6688 # 10000) / 4) < 100 /\ 100 < cpc_ub qops 7 100 (2 * (5247 # 10000) / 4))%Q /\
  (cpc_lb qops 99 100 (2 * (6688 # 10000) / 4) == 99)%Q.
Proof. vm_compute. repeat split; reflexivity. Qed.
(* HIP on a 4-register array: three raising updates (two distinct slots) and one that does not raise *)
Example C06_nonvacuous_hip :
  let s := hip_run 4 [(0%nat, 1); (2%nat, 3); (0%nat, 1); (0%nat, 5)] in
  count_nonzero (h_regs s) = 2 /\ (2 < h_hip s)%Q.
Proof. vm_compute. split; reflexivity. Qed.
(* the ICON polynomial branch on a concrete input, and the clamp raising a too small result *)
Example C06_nonvacuous_icon :
  match icon_estimate 10 3000 PrimFloat.one with Exact 3 v => PrimFloat.ltb (fofZ 3000) v | _ => false end
  && PrimFloat.eqb (icon_clamp fops (fofZ 5) 9) (fofZ 9) = true.
Proof. vm_compute. reflexivity. Qed.

(* the exact binomial tails (n = 4, theta = 1/2, 2 std devs; pow values 1/16 and 1/32) and the composite HLL estimator
   (lg_k = 8, kxq0 = 100, bitmap estimate 300: the interpolated branch is chosen) *)
Example C06_nonvacuous_exact_tail_composite :
  match approx_lb 4 c_half 2 (PrimFloat.div PrimFloat.one (fofZ 16)), approx_ub 4 c_half 2 (PrimFloat.div PrimFloat.one (fofZ 32)) with
  | Exact 7 a, Exact 7 b => PrimFloat.eqb a (fofZ 3) && PrimFloat.eqb b (fofZ 18)
  | _, _ => false
  end &&
  match hll_composite 8 (fofZ 100) PrimFloat.zero (fofZ 300) with
  | Some v => PrimFloat.ltb (fofZ 430) v && PrimFloat.ltb v (fofZ 431)
  | None => false
  end = true.
Proof. vm_compute. reflexivity. Qed.

Print Assumptions C06_binomial_bounds_order.
Print Assumptions C06_sketch_bounds_order.
Print Assumptions C06_sketch_bounds_order_leb.
Print Assumptions C06_exact_outside_estimation_mode.
Print Assumptions C06_not_estimation_mode_cases.
Print Assumptions C06_exact_when_empty.
Print Assumptions C06_div_by_one_exact.
Print Assumptions C06_binomial_theta_one.
Print Assumptions C06_binomial_zero_samples.
Print Assumptions C06_binomial_branch_structure.
Print Assumptions C06_clamps_never_below_count.
Print Assumptions C06_hll_array_order.
Print Assumptions C06_hll_array_widen.
Print Assumptions C06_coupon_list_order.
Print Assumptions C06_coupon_list_widen.
Print Assumptions C06_cpc_order.
Print Assumptions C06_cpc_empty.
Print Assumptions C06_cpc_widen.
Print Assumptions C06_binomial_widen_through_clamps.
Print Assumptions C06_binomial_lb_ge_retained.
Print Assumptions C06_hip_dominates_nonzero_registers.
Print Assumptions C06_hip_dominates_increment_count.
Print Assumptions C06_table_lengths.
Print Assumptions C06_table_indices_in_range.
Print Assumptions C06_binomial_tables_ok.
Print Assumptions C06_hll_tables_ok.
Print Assumptions C06_hll_rel_err_ok.
Print Assumptions C06_coupon_tables_ok.
Print Assumptions C06_cpc_eps_ok.
Print Assumptions C06_cpc_tables_ok.
Print Assumptions C06_composite_tables_ok.
Print Assumptions C06_tables_pinned.
