(* Properties_C06.v — placeholder while the pipeline is brought up; replaced by the real statements. *)
From Coq Require Import ZArith List Floats.
From DS Require Import BoundsDefs.
Theorem C06_tables_len : length BoundTablesGen.lb_equiv_table = 363%nat.
Proof. vm_compute. reflexivity. Qed.
Print Assumptions C06_tables_len.
