(* BloomProofs.v — lemmas about the Bloom filter model BloomDefs.v: bit-array level, one filter object
   (with the count stored in wrapped memory) under arbitrary operation histories, for an arbitrary index function. *)
From Coq Require Import ZArith NArith List Bool Lia.
From DS Require Import Word XXHash64 RunnerLib BloomDefs.
Import ListNotations.
Local Open Scope N_scope.

(* ------------------------------------------------------------------ *)
(* popcount                                                             *)
(* ------------------------------------------------------------------ *)

Lemma popcount_div2 b : popcount b = popcount (N.div2 b) + (if N.odd b then 1 else 0).
Proof. destruct b as [|[p|p|]]; cbn -[N.add]; lia. Qed.

Lemma popcount_zero b : popcount b = 0 <-> b = 0.
Proof.
  split; [|intros ->; reflexivity].
  destruct b as [|p]; [reflexivity|]. cbn -[N.add]. intros H. exfalso.
  induction p; cbn -[N.add] in H; lia.
Qed.

Lemma popcount_le_pow2 n : forall b, b < 2 ^ n -> popcount b <= n.
Proof.
  induction n as [|n IH] using N.peano_ind; intros b Hb.
  - cbn in Hb. assert (b = 0) by lia. subst. cbn. lia.
  - rewrite popcount_div2.
    assert (Hd : N.div2 b < 2 ^ n).
    { rewrite N.div2_div. apply N.div_lt_upper_bound; [lia|]. rewrite <- N.pow_succ_r'. exact Hb. }
    specialize (IH _ Hd). destruct (N.odd b); lia.
Qed.

Lemma setbit_div2_succ b i : N.div2 (N.setbit b (N.succ i)) = N.setbit (N.div2 b) i.
Proof.
  apply N.bits_inj. intros j.
  rewrite N.div2_spec, N.shiftr_spec' , N.setbit_eqb, N.setbit_eqb, N.div2_spec, N.shiftr_spec'.
  replace (N.succ i =? j + 1) with (i =? j); [reflexivity|].
  destruct (N.eqb_spec i j), (N.eqb_spec (N.succ i) (j + 1)); try reflexivity; lia.
Qed.

Lemma setbit_odd_succ b i : N.odd (N.setbit b (N.succ i)) = N.odd b.
Proof.
  rewrite <- !N.bit0_odd, N.setbit_eqb.
  destruct (N.eqb_spec (N.succ i) 0); [lia|reflexivity].
Qed.

Lemma popcount_setbit i : forall b,
  popcount (N.setbit b i) = popcount b + (if N.testbit b i then 0 else 1).
Proof.
  induction i as [|i IH] using N.peano_ind; intros b.
  - destruct b as [|[p|p|]]; cbn -[N.add]; try lia.
  - rewrite (popcount_div2 (N.setbit b (N.succ i))), setbit_div2_succ, setbit_odd_succ, IH.
    rewrite (popcount_div2 b) at 1.
    replace (N.testbit b (N.succ i)) with (N.testbit (N.div2 b) i).
    + lia.
    + rewrite N.div2_spec, N.shiftr_spec'. f_equal. lia.
Qed.

(* ------------------------------------------------------------------ *)
(* ranges                                                               *)
(* ------------------------------------------------------------------ *)

Definition in_range (b cap : N) : Prop := forall j, cap <= j -> N.testbit b j = false.

Lemma in_range_lt b cap : in_range b cap -> b < 2 ^ cap.
Proof.
  intros H.
  assert (E : b mod 2 ^ cap = b).
  { apply N.bits_inj. intros j. destruct (N.lt_ge_cases j cap).
    - now rewrite N.mod_pow2_bits_low.
    - rewrite N.mod_pow2_bits_high by assumption. symmetry. now apply H. }
  rewrite <- E. apply N.mod_lt. apply N.pow_nonzero. lia.
Qed.

Lemma lt_in_range b cap : b < 2 ^ cap -> in_range b cap.
Proof.
  intros H j Hj. destruct (N.eq_dec b 0) as [->|Hne]; [apply N.bits_0|].
  apply N.bits_above_log2. apply N.log2_lt_pow2; [lia|].
  eapply N.lt_le_trans; [exact H|]. apply N.pow_le_mono_r; lia.
Qed.

Lemma in_range_popcount b cap : in_range b cap -> popcount b <= cap.
Proof. intros H. apply popcount_le_pow2. now apply in_range_lt. Qed.

Lemma in_range_0 cap : in_range 0 cap.
Proof. intros j _. apply N.bits_0. Qed.

Lemma in_range_setbit b cap i : in_range b cap -> i < cap -> in_range (N.setbit b i) cap.
Proof.
  intros H Hi j Hj. rewrite N.setbit_eqb, (H j Hj).
  destruct (N.eqb_spec i j); [lia|reflexivity].
Qed.

Lemma in_range_lor a b cap : in_range a cap -> in_range b cap -> in_range (N.lor a b) cap.
Proof. intros Ha Hb j Hj. now rewrite N.lor_spec, Ha, Hb. Qed.

Lemma in_range_land a b cap : in_range a cap -> in_range (N.land a b) cap.
Proof. intros Ha j Hj. now rewrite N.land_spec, Ha. Qed.

Lemma ones_spec cap j : N.testbit (N.ones cap) j = (j <? cap).
Proof.
  destruct (N.ltb_spec j cap).
  - now apply N.ones_spec_low.
  - now apply N.ones_spec_high.
Qed.

Lemma in_range_invert b cap : in_range b cap -> in_range (N.lxor b (N.ones cap)) cap.
Proof.
  intros Hb j Hj. rewrite N.lxor_spec, Hb, ones_spec by assumption.
  destruct (N.ltb_spec j cap); [lia|reflexivity].
Qed.

(* ------------------------------------------------------------------ *)
(* set_bits / all_set / the query_and_update loop                       *)
(* ------------------------------------------------------------------ *)

Lemma set_bits_testbit l : forall b j,
  N.testbit (set_bits b l) j = N.testbit b j || existsb (N.eqb j) l.
Proof.
  unfold set_bits. induction l as [|i t IH]; intros b j; cbn [fold_left existsb].
  - now rewrite orb_false_r.
  - rewrite IH, N.setbit_eqb, (N.eqb_sym i j).
    destruct (j =? i), (N.testbit b j); reflexivity.
Qed.

Lemma set_bits_mono b l j : N.testbit b j = true -> N.testbit (set_bits b l) j = true.
Proof. intros H. now rewrite set_bits_testbit, H. Qed.

Lemma existsb_eqb_In j l : In j l -> existsb (N.eqb j) l = true.
Proof. intros H. apply existsb_exists. exists j. split; [assumption|apply N.eqb_refl]. Qed.

Lemma all_set_spec b l : all_set b l = true <-> (forall i, In i l -> N.testbit b i = true).
Proof. unfold all_set. apply forallb_forall. Qed.

Lemma all_set_set_bits b l : all_set (set_bits b l) l = true.
Proof.
  apply all_set_spec. intros i Hi. rewrite set_bits_testbit, (existsb_eqb_In _ _ Hi). apply orb_true_r.
Qed.

Lemma all_set_mono b b' l :
  (forall j, N.testbit b j = true -> N.testbit b' j = true) -> all_set b l = true -> all_set b' l = true.
Proof. rewrite !all_set_spec. intros Hm H i Hi. apply Hm, H, Hi. Qed.

Lemma in_range_set_bits cap l : forall b,
  in_range b cap -> (forall i, In i l -> i < cap) -> in_range (set_bits b l) cap.
Proof.
  unfold set_bits. induction l as [|i t IH]; intros b Hb Hl; cbn [fold_left]; [assumption|].
  apply IH.
  - apply in_range_setbit; [assumption|]. apply Hl. now left.
  - intros k Hk. apply Hl. now right.
Qed.

Lemma set_bits_nonzero b l : l <> [] -> set_bits b l <> 0.
Proof.
  intros Hl E. destruct l as [|i t]; [congruence|].
  pose proof (all_set_set_bits b (i :: t)) as H. rewrite E in H.
  rewrite all_set_spec in H. specialize (H i (or_introl eq_refl)). now rewrite N.bits_0 in H.
Qed.

Lemma setbit_same b i : N.testbit b i = true -> N.setbit b i = b.
Proof.
  intros H. apply N.bits_inj. intros j. rewrite N.setbit_eqb.
  destruct (N.eqb_spec i j); [subst; now rewrite H|reflexivity].
Qed.

Lemma w64_idem x : w64 (w64 x) = w64 x.
Proof. rewrite !w64_mod. apply N.mod_mod. discriminate. Qed.

Lemma w64_add_l a b : w64 (w64 a + b) = w64 (a + b).
Proof. rewrite !w64_mod. rewrite N.add_mod_idemp_l; [reflexivity|discriminate]. Qed.

Lemma w64_small x : x < two64 -> w64 x = x.
Proof. intros H. rewrite w64_mod. now apply N.mod_small. Qed.

Lemma mod_succ_cancel a b T : a < T -> b < T -> (a + 1) mod T = (b + 1) mod T -> a = b.
Proof.
  intros Ha Hb E. assert (HT : T <> 0) by lia.
  destruct (N.eq_dec (a + 1) T) as [E1|E1], (N.eq_dec (b + 1) T) as [E2|E2].
  - lia.
  - rewrite E1, (N.mod_same T HT), (N.mod_small (b + 1) T) in E by lia. lia.
  - rewrite E2, (N.mod_same T HT), (N.mod_small (a + 1) T) in E by lia. lia.
  - rewrite (N.mod_small (a + 1) T), (N.mod_small (b + 1) T) in E by lia. lia.
Qed.

(* the loop sets exactly the index bits, reports whether all of them were set before, and adds the number of newly set bits
   to the count (mod 2^64) *)
Lemma qau_loop_spec l : forall bits cnt ex,
  let '(b', c', e') := qau_loop l bits cnt ex in
  b' = set_bits bits l /\ e' = ex && all_set bits l /\
  w64 (c' + popcount bits) = w64 (cnt + popcount b') /\ (l <> [] -> c' < two64).
Proof.
  induction l as [|i t IH]; intros bits cnt ex; cbn [qau_loop].
  - cbn. rewrite andb_true_r. repeat split; congruence.
  - specialize (IH (N.setbit bits i) (w64 (cnt + (if N.testbit bits i then 0 else 1))) (ex && N.testbit bits i)).
    destruct (qau_loop t (N.setbit bits i) (w64 (cnt + (if N.testbit bits i then 0 else 1))) (ex && N.testbit bits i))
      as [[b' c'] e'] eqn:Eq.
    destruct IH as (Hb & He & Hc & Hlt).
    split; [exact Hb|]. split; [|split].
    + rewrite He. cbn [all_set forallb]. fold (all_set bits t). fold (all_set (N.setbit bits i) t).
      destruct (N.testbit bits i) eqn:Ht.
      * rewrite (setbit_same _ _ Ht). now rewrite andb_true_r, andb_true_l.
      * destruct ex; reflexivity.
    + rewrite popcount_setbit in Hc.
      (* c' + (pc + d) == (cnt + d) + pc'  =>  c' + pc == cnt + pc' *)
      rewrite w64_add_l in Hc. rewrite !w64_mod in *.
      set (d := if N.testbit bits i then 0 else 1) in *.
      assert (E : (c' + popcount bits + d) mod two64 = (cnt + popcount b' + d) mod two64).
      { replace (c' + popcount bits + d) with (c' + (popcount bits + d)) by lia.
        replace (cnt + popcount b' + d) with (cnt + d + popcount b') by lia. exact Hc. }
      destruct (N.testbit bits i); subst d; [now rewrite !N.add_0_r in E|].
      (* cancel +1 modulo 2^64 *)
      assert (two64 <> 0) by discriminate.
      set (x := c' + popcount bits) in *. set (y := cnt + popcount b') in *.
      pose proof (N.mod_lt x two64 H). pose proof (N.mod_lt y two64 H).
      rewrite <- (N.add_mod_idemp_l x 1), <- (N.add_mod_idemp_l y 1) in E by assumption.
      now apply (mod_succ_cancel _ _ two64).
    + intros _. destruct t as [|i' t'].
      * cbn [qau_loop] in Eq. injection Eq as _ <- _. apply w64_lt.
      * apply Hlt. discriminate.
Qed.

(* ------------------------------------------------------------------ *)
(* one filter object under arbitrary operation histories                *)
(* ------------------------------------------------------------------ *)

(* The object as the code sees it: the cached fields [s_f], the bit array it addresses [s_bits] (owned, or inside wrapped
   memory) and the count stored at byte 24 of the wrapped memory [s_mcnt] (meaningless for owned filters). *)
Record cst := mkS { s_f : filt; s_bits : N; s_mcnt : N }.

Inductive fop :=
| FUpdate (x : item) | FQau (x : item)
| FUnion (o : N) | FIntersect (o : N) | FInvert | FReset | FBitsUsed.

Definition apply_eff (s : cst) (e : eff) : cst :=
  mkS (x_f e) (x_bits e) (match x_memw e with Some c => c | None => s_mcnt s end).

Section Object.
  Variable fx : bool.                 (* false = the code as it is, true = with the proposed repairs *)
  Variable idx : item -> list N.      (* ANY index function (in the model: the double-hashing indices of ANY hash function) *)

  Definition fstep (s : cst) (op : fop) : cst :=
    match op with
    | FUpdate x => match core_update fx (s_f s) (s_bits s) (idx x) with Some e => apply_eff s e | None => s end
    | FQau x => match core_qau fx (s_f s) (s_bits s) (idx x) with Some (e, _) => apply_eff s e | None => s end
    | FUnion o => match core_union fx (s_f s) (s_bits s) o with Some e => apply_eff s e | None => s end
    | FIntersect o => match core_intersect fx (s_f s) (s_bits s) o with Some e => apply_eff s e | None => s end
    | FInvert => match core_invert fx (s_f s) (s_bits s) with Some e => apply_eff s e | None => s end
    | FReset => match core_reset (s_f s) with Some e => apply_eff s e | None => s end
    | FBitsUsed => mkS (core_bits_used (s_f s) (s_bits s)) (s_bits s) (s_mcnt s)
    end.

  Definition frun (ops : list fop) (s : cst) : cst := fold_left fstep ops s.

  Definition squery (s : cst) (x : item) : bool := core_query (s_f s) (s_bits s) (idx x).

  Definition monotone (op : fop) : Prop :=
    match op with FIntersect _ | FInvert | FReset => False | _ => True end.
  Definition inserts (op : fop) (x : item) : Prop := op = FUpdate x \/ op = FQau x.

  (* ---- what every operation does to the bit array and to the fixed fields ---- *)

  Lemma qau_loop_bits l bits cnt ex : fst (fst (qau_loop l bits cnt ex)) = set_bits bits l.
  Proof. pose proof (qau_loop_spec l bits cnt ex) as H. destruct (qau_loop l bits cnt ex) as [[b c] e]. apply H. Qed.

  Lemma core_qau_bits f bits l e ex :
    core_qau fx f bits l = Some (e, ex) -> x_bits e = set_bits bits l /\ ex = all_set bits l.
  Proof.
    unfold core_qau. destruct (f_ro f); [discriminate|].
    pose proof (qau_loop_spec l bits (f_cnt f) true) as H.
    destruct (qau_loop l bits (f_cnt f) true) as [[b c] e0]. destruct H as (Hb & He & _).
    destruct l as [|i t].
    - intros [= <- <-]. cbn. split; [reflexivity|]. now rewrite He.
    - destruct (fx && f_dirty f); intros [= <- <-]; cbn [x_bits upd_cnt]; (split; [exact Hb|now rewrite He]).
  Qed.

  Definition fixed_fields (f g : filt) : Prop :=
    f_seed g = f_seed f /\ f_nh g = f_nh f /\ f_cap g = f_cap f /\ f_ro g = f_ro f /\ f_mem g = f_mem f.

  Lemma fixed_refl f : fixed_fields f f.
  Proof. repeat split. Qed.

  Lemma fixed_cache f d c : fixed_fields f (f_cache f d c).
  Proof. repeat split. Qed.

  Lemma fstep_fixed s op : fixed_fields (s_f s) (s_f (fstep s op)).
  Proof.
    destruct op; cbn [fstep].
    - unfold core_update. destruct (f_ro (s_f s)); [apply fixed_refl|apply fixed_cache].
    - unfold core_qau. destruct (f_ro (s_f s)); [apply fixed_refl|].
      destruct (qau_loop (idx x) (s_bits s) (f_cnt (s_f s)) true) as [[b c] e].
      destruct (idx x); [apply fixed_refl|]. destruct (fx && f_dirty (s_f s)); [apply fixed_refl|apply fixed_cache].
    - unfold core_union. destruct (fx && f_ro (s_f s)); [apply fixed_refl|apply fixed_cache].
    - unfold core_intersect. destruct (fx && f_ro (s_f s)); [apply fixed_refl|apply fixed_cache].
    - unfold core_invert. destruct (fx && f_ro (s_f s)); [apply fixed_refl|apply fixed_cache].
    - unfold core_reset. destruct (f_ro (s_f s)); [apply fixed_refl|apply fixed_cache].
    - unfold core_bits_used. cbn. destruct (f_dirty (s_f s)); [apply fixed_cache|apply fixed_refl].
  Qed.

  Lemma frun_fixed ops : forall s, fixed_fields (s_f s) (s_f (frun ops s)).
  Proof.
    induction ops as [|op t IH]; intros s; [apply fixed_refl|].
    change (frun (op :: t) s) with (frun t (fstep s op)).
    destruct (fstep_fixed s op) as (A & B & C & D & E), (IH (fstep s op)) as (A' & B' & C' & D' & E').
    unfold fixed_fields. rewrite A', B', C', D', E'. now repeat split.
  Qed.

  Lemma fstep_bits s op :
    s_bits (fstep s op) =
    match op with
    | FUpdate x | FQau x => if f_ro (s_f s) then s_bits s else set_bits (s_bits s) (idx x)
    | FUnion o => if fx && f_ro (s_f s) then s_bits s else N.lor (s_bits s) o
    | FIntersect o => if fx && f_ro (s_f s) then s_bits s else N.land (s_bits s) o
    | FInvert => if fx && f_ro (s_f s) then s_bits s else N.lxor (s_bits s) (N.ones (f_cap (s_f s)))
    | FReset => if f_ro (s_f s) then s_bits s else 0
    | FBitsUsed => s_bits s
    end.
  Proof.
    destruct op; cbn [fstep].
    - unfold core_update. now destruct (f_ro (s_f s)).
    - destruct (core_qau fx (s_f s) (s_bits s) (idx x)) as [[e ex]|] eqn:E.
      + destruct (core_qau_bits _ _ _ _ _ E) as [Hb _]. unfold core_qau in E.
        destruct (f_ro (s_f s)); [discriminate|]. exact Hb.
      + unfold core_qau in E. destruct (f_ro (s_f s)); [reflexivity|].
        destruct (qau_loop (idx x) (s_bits s) (f_cnt (s_f s)) true) as [[b c] e].
        destruct (idx x); [discriminate|]. destruct (fx && f_dirty (s_f s)); discriminate.
    - unfold core_union. now destruct (fx && f_ro (s_f s)).
    - unfold core_intersect. now destruct (fx && f_ro (s_f s)).
    - unfold core_invert. now destruct (fx && f_ro (s_f s)).
    - unfold core_reset. now destruct (f_ro (s_f s)).
    - reflexivity.
  Qed.

  (* ---- no false negatives at the level of the bit array: ANY history, ANY start state, both variants ---- *)

  Lemma fstep_mono s op j :
    monotone op -> N.testbit (s_bits s) j = true -> N.testbit (s_bits (fstep s op)) j = true.
  Proof.
    intros Hm Hj. rewrite fstep_bits. destruct op; cbn in Hm; try contradiction.
    - destruct (f_ro (s_f s)); [assumption|now apply set_bits_mono].
    - destruct (f_ro (s_f s)); [assumption|now apply set_bits_mono].
    - destruct (fx && f_ro (s_f s)); [assumption|]. now rewrite N.lor_spec, Hj.
    - assumption.
  Qed.

  Lemma frun_mono ops : forall s j,
    Forall monotone ops -> N.testbit (s_bits s) j = true -> N.testbit (s_bits (frun ops s)) j = true.
  Proof.
    induction ops as [|op t IH]; intros s j Hf Hj; cbn; [assumption|].
    inversion Hf; subst. apply IH; [assumption|]. now apply fstep_mono.
  Qed.

  Lemma insert_sets s op x :
    inserts op x -> f_ro (s_f s) = false -> all_set (s_bits (fstep s op)) (idx x) = true.
  Proof.
    intros [->| ->] Hro; rewrite fstep_bits, Hro; apply all_set_set_bits.
  Qed.

  Lemma frun_app a b s : frun (a ++ b) s = frun b (frun a s).
  Proof. unfold frun. apply fold_left_app. Qed.

  Theorem nfn_bits s pre ins post x :
    f_ro (s_f s) = false -> inserts ins x -> Forall monotone post ->
    all_set (s_bits (frun (pre ++ ins :: post) s)) (idx x) = true.
  Proof.
    intros Hro Hins Hpost. rewrite frun_app. cbn [frun fold_left]. fold (frun post (fstep (frun pre s) ins)).
    apply all_set_spec. intros i Hi. apply frun_mono; [assumption|].
    assert (Hro' : f_ro (s_f (frun pre s)) = false).
    { destruct (frun_fixed pre s) as (_ & _ & _ & D & _). congruence. }
    pose proof (insert_sets (frun pre s) ins x Hins Hro') as H.
    rewrite all_set_spec in H. now apply H.
  Qed.

  (* query answers "absent" for an item whose bits are all set ONLY through the is_empty short-circuit *)
  Lemma squery_spec s x : squery s x = negb (is_empty (s_f s)) && all_set (s_bits s) (idx x).
  Proof. unfold squery, core_query. now destruct (is_empty (s_f s)). Qed.

  (* ---- the cached count ---- *)
  Variable cap : N.
  Hypothesis cap_lt : cap < two64.
  Hypothesis idx_lt : forall x i, In i (idx x) -> i < cap.

  Definition cache_ok (s : cst) : Prop := f_dirty (s_f s) = true \/ f_cnt (s_f s) = popcount (s_bits s).
  Definition inv (s : cst) : Prop := f_cap (s_f s) = cap /\ in_range (s_bits s) cap /\ cache_ok s.
  Definition op_ok (op : fop) : Prop := match op with FUnion o => in_range o cap | _ => True end.

  (* every query_and_update of the history meets a filter whose dirty flag is clear *)
  Fixpoint qau_clean (s : cst) (ops : list fop) : Prop :=
    match ops with
    | [] => True
    | op :: t => (match op with FQau _ => f_dirty (s_f s) = false | _ => True end) /\ qau_clean (fstep s op) t
    end.

  Lemma popcount_lt_two64 b : in_range b cap -> popcount b < two64.
  Proof. intros H. pose proof (in_range_popcount _ _ H). lia. Qed.

  Lemma qau_cnt_exact l bits cnt b c e :
    (forall i, In i l -> i < cap) -> in_range bits cap -> cnt = popcount bits -> l <> [] ->
    qau_loop l bits cnt true = (b, c, e) -> c = popcount b.
  Proof.
    intros Hl Hr Hc Hne E. pose proof (qau_loop_spec l bits cnt true) as H. rewrite E in H.
    destruct H as (Hb & _ & Hw & Hlt). specialize (Hlt Hne). subst cnt.
    assert (Hrb : in_range b cap) by (subst b; now apply in_range_set_bits).
    pose proof (popcount_lt_two64 _ Hrb) as Hpb.
    rewrite !w64_mod in Hw.
    assert (HT : two64 <> 0) by discriminate.
    (* (c + p) mod T = (p + pb) mod T, c < T, pb < T  =>  c = pb *)
    rewrite (N.add_comm c), <- (N.add_mod_idemp_r (popcount bits) c), <- (N.add_mod_idemp_r (popcount bits) (popcount b)) in Hw
      by assumption.
    rewrite (N.mod_small c), (N.mod_small (popcount b)) in Hw by assumption.
    set (p := popcount bits) in *.
    (* add two64 - p mod T on both sides *)
    assert (Hc : (p + c) mod two64 = (p + popcount b) mod two64 -> c = popcount b).
    { clear Hw. intros Hw.
      pose proof (N.div_mod (p + c) two64 HT) as D1. pose proof (N.div_mod (p + popcount b) two64 HT) as D2.
      pose proof (N.mod_lt (p + c) two64 HT). pose proof (N.mod_lt (p + popcount b) two64 HT).
      rewrite Hw in D1.
      set (q1 := (p + c) / two64) in *. set (q2 := (p + popcount b) / two64) in *.
      set (m := (p + popcount b) mod two64) in *.
      assert (q1 = q2) by nia. nia. }
    now apply Hc.
  Qed.

  Lemma inv_fstep s op :
    inv s -> op_ok op ->
    (fx = true \/ match op with FQau _ => f_dirty (s_f s) = false | _ => True end) ->
    inv (fstep s op).
  Proof.
    intros (Hcap & Hr & Hc) Hop Hsafe.
    split; [|split].
    - destruct (fstep_fixed s op) as (_ & _ & C & _). congruence.
    - rewrite fstep_bits. destruct op.
      + destruct (f_ro (s_f s)); [assumption|]. apply in_range_set_bits; [assumption|apply idx_lt].
      + destruct (f_ro (s_f s)); [assumption|]. apply in_range_set_bits; [assumption|apply idx_lt].
      + destruct (fx && f_ro (s_f s)); [assumption|]. now apply in_range_lor.
      + destruct (fx && f_ro (s_f s)); [assumption|]. now apply in_range_land.
      + destruct (fx && f_ro (s_f s)); [assumption|]. rewrite Hcap. now apply in_range_invert.
      + destruct (f_ro (s_f s)); [assumption|apply in_range_0].
      + assumption.
    - unfold cache_ok in *. destruct op; cbn [fstep].
      + unfold core_update. destruct (f_ro (s_f s)); [exact Hc|]. left. reflexivity.
      + unfold core_qau. destruct (f_ro (s_f s)); [exact Hc|].
        destruct (qau_loop (idx x) (s_bits s) (f_cnt (s_f s)) true) as [[b c] e] eqn:E.
        destruct (idx x) as [|i t] eqn:Ei; [exact Hc|].
        destruct (f_dirty (s_f s)) eqn:Hd.
        * destruct Hsafe as [-> | Hs]; [|discriminate]. cbn [andb apply_eff x_f x_bits]. left. exact Hd.
        * rewrite andb_false_r. cbn [apply_eff upd_cnt x_f x_bits f_cache f_dirty f_cnt]. right.
          destruct Hc as [Hc|Hc]; [discriminate|].
          eapply qau_cnt_exact; [| |exact Hc| |exact E]; try assumption.
          -- rewrite <- Ei. apply idx_lt.
          -- discriminate.
      + unfold core_union. destruct (fx && f_ro (s_f s)); [exact Hc|]. right. reflexivity.
      + unfold core_intersect. destruct (fx && f_ro (s_f s)); [exact Hc|]. right. reflexivity.
      + unfold core_invert. destruct (fx && f_ro (s_f s)); [exact Hc|]. right. reflexivity.
      + unfold core_reset. destruct (f_ro (s_f s)); [exact Hc|]. right. reflexivity.
      + unfold core_bits_used. cbn [s_f s_bits]. destruct (f_dirty (s_f s)) eqn:Hd.
        * right. reflexivity.
        * rewrite Hd. exact Hc.
  Qed.

  Lemma inv_frun ops : forall s,
    inv s -> Forall op_ok ops -> (fx = true \/ qau_clean s ops) -> inv (frun ops s).
  Proof.
    induction ops as [|op t IH]; intros s Hi Hok Hs; cbn; [assumption|].
    inversion Hok; subst. apply IH; [|assumption|].
    - apply inv_fstep; [assumption|assumption|]. destruct Hs as [Hs|[Hs _]]; [now left|now right].
    - destruct Hs as [Hs|[_ Hs]]; [now left|now right].
  Qed.

  (* with a sound cache, the is_empty short-circuit is harmless *)
  Lemma inv_query s x :
    inv s -> idx x <> [] -> all_set (s_bits s) (idx x) = true -> squery s x = true.
  Proof.
    intros (_ & _ & Hc) Hne Hall. rewrite squery_spec, Hall, andb_true_r.
    unfold is_empty. destruct (f_dirty (s_f s)) eqn:Hd; [reflexivity|]. cbn.
    destruct Hc as [Hc|Hc]; [congruence|].
    destruct (N.eqb_spec (f_cnt (s_f s)) 0) as [E|]; [|reflexivity]. exfalso.
    rewrite Hc in E. apply (proj1 (popcount_zero _)) in E.
    destruct (idx x) as [|i t]; [congruence|].
    rewrite all_set_spec in Hall. specialize (Hall i (or_introl eq_refl)). rewrite E, N.bits_0 in Hall. discriminate.
  Qed.

  (* no false negatives of query(): the repaired model for EVERY history; the code as it is for every history in which
     query_and_update never meets a dirty filter *)
  Theorem nfn_query s pre ins post x :
    inv s -> f_ro (s_f s) = false -> idx x <> [] ->
    inserts ins x -> Forall monotone post -> Forall op_ok (pre ++ ins :: post) ->
    (fx = true \/ qau_clean s (pre ++ ins :: post)) ->
    squery (frun (pre ++ ins :: post) s) x = true.
  Proof.
    intros Hi Hro Hne Hins Hpost Hok Hs.
    apply inv_query; [now apply inv_frun|assumption|now apply nfn_bits].
  Qed.

  (* exact count after any history (same side condition) *)
  Theorem bits_used_exact s ops :
    inv s -> Forall op_ok ops -> (fx = true \/ qau_clean s ops) ->
    f_cnt (s_f (fstep (frun ops s) FBitsUsed)) = popcount (s_bits (frun ops s)).
  Proof.
    intros Hi Hok Hs. destruct (inv_frun ops s Hi Hok Hs) as (_ & _ & Hc).
    cbn [fstep s_f]. unfold core_bits_used. destruct (f_dirty (s_f (frun ops s))) eqn:Hd; [reflexivity|].
    destruct Hc as [Hc|Hc]; [congruence|exact Hc].
  Qed.

  (* ---- the count stored in wrapped memory (writable view) ---- *)

  Definition is_wview (s : cst) : Prop := f_mem (s_f s) <> None /\ f_ro (s_f s) = false.
  (* the stored count is the dirty marker or exact; a dirty view has announced it in memory *)
  Definition minv (s : cst) : Prop :=
    (s_mcnt s = DIRTY \/ s_mcnt s = popcount (s_bits s)) /\ (f_dirty (s_f s) = true -> s_mcnt s = DIRTY).

  Lemma memw_wview f c : f_mem f <> None -> f_ro f = false -> memw_of f c = Some c.
  Proof. unfold memw_of. intros Hm ->. destruct (f_mem f); congruence. Qed.

  (* repaired model: every operation keeps the memory image consistent *)
  Lemma minv_fstep_fixed s op :
    fx = true -> is_wview s -> inv s -> op_ok op -> minv s -> minv (fstep s op).
  Proof.
    intros Hfx (Hm & Hro) Hi Hop (Hmc & Hd).
    pose proof (inv_fstep s op Hi Hop (or_introl Hfx)) as (_ & _ & Hc').
    unfold minv. destruct op; cbn [fstep] in *.
    - unfold core_update in *. rewrite Hro, Hfx in *. cbn [apply_eff x_memw x_f x_bits s_mcnt s_f s_bits].
      rewrite (memw_wview _ _ Hm Hro). split; [now left|reflexivity].
    - unfold core_qau in *. rewrite Hro, Hfx in *.
      destruct (qau_loop (idx x) (s_bits s) (f_cnt (s_f s)) true) as [[b c] e] eqn:E.
      destruct (idx x) as [|i t] eqn:Ei; [now split|].
      cbn [andb] in *. destruct (f_dirty (s_f s)) eqn:Hdd.
      + cbn [apply_eff x_memw x_f x_bits s_mcnt s_f s_bits]. rewrite Hdd.
        split; [left; now apply Hd|intros _; now apply Hd].
      + cbn [apply_eff upd_cnt x_memw x_f x_bits s_mcnt s_f s_bits f_cache f_dirty f_cnt] in *.
        rewrite (memw_wview _ _ Hm Hro). destruct Hc' as [Hc'|Hc']; [discriminate|].
        split; [now right|discriminate].
    - unfold core_union in *. rewrite Hro, Hfx in *.
      cbn [andb apply_eff upd_cnt x_memw x_f x_bits s_mcnt s_f s_bits f_cache f_dirty].
      rewrite (memw_wview _ _ Hm Hro). split; [now right|discriminate].
    - unfold core_intersect in *. rewrite Hro, Hfx in *.
      cbn [andb apply_eff upd_cnt x_memw x_f x_bits s_mcnt s_f s_bits f_cache f_dirty].
      rewrite (memw_wview _ _ Hm Hro). split; [now right|discriminate].
    - unfold core_invert in *. rewrite Hro, Hfx in *.
      cbn [andb apply_eff upd_cnt x_memw x_f x_bits s_mcnt s_f s_bits f_cache f_dirty].
      rewrite (memw_wview _ _ Hm Hro). split; [now right|discriminate].
    - unfold core_reset in *. rewrite Hro in *.
      cbn [apply_eff upd_cnt x_memw x_f x_bits s_mcnt s_f s_bits f_cache f_dirty].
      rewrite (memw_wview _ _ Hm Hro). split; [now right|discriminate].
    - cbn [s_mcnt s_bits s_f]. split; [exact Hmc|]. unfold core_bits_used.
      destruct (f_dirty (s_f s)) eqn:Hdd; [discriminate|]. rewrite Hdd. discriminate.
  Qed.

  Lemma is_wview_fstep s op : is_wview s -> is_wview (fstep s op).
  Proof.
    intros (Hm & Hro). destruct (fstep_fixed s op) as (_ & _ & _ & D & E). split; congruence.
  Qed.

  Lemma minv_frun_fixed ops : forall s,
    fx = true -> is_wview s -> inv s -> Forall op_ok ops -> minv s -> minv (frun ops s).
  Proof.
    induction ops as [|op t IH]; intros s Hfx Hw Hi Hok Hm; cbn; [assumption|].
    inversion Hok; subst. apply IH; try assumption.
    - now apply is_wview_fstep.
    - apply inv_fstep; [assumption|assumption|now left].
    - now apply minv_fstep_fixed.
  Qed.

  (* the code as it is: the image stays consistent as long as the view is never written by plain update()
     (query_and_update, set operations, reset and get_bits_used keep the stored count exact) *)
  Definition no_update (op : fop) : Prop := match op with FUpdate _ => False | _ => True end.
  Definition exact (s : cst) : Prop :=
    f_dirty (s_f s) = false /\ f_cnt (s_f s) = popcount (s_bits s) /\ s_mcnt s = popcount (s_bits s).

  Lemma exact_fstep s op :
    is_wview s -> inv s -> op_ok op -> no_update op -> exact s -> exact (fstep s op).
  Proof.
    intros (Hm & Hro) Hi Hop Hnu (Hd & Hc & Hmc).
    assert (Hsafe : fx = true \/ match op with FQau _ => f_dirty (s_f s) = false | _ => True end).
    { right. destruct op; auto. }
    pose proof (inv_fstep s op Hi Hop Hsafe) as (_ & _ & Hc').
    unfold exact. destruct op; cbn [fstep] in *; try contradiction.
    - unfold core_qau in *. rewrite Hro in *.
      destruct (qau_loop (idx x) (s_bits s) (f_cnt (s_f s)) true) as [[b c] e] eqn:E.
      destruct (idx x) as [|i t] eqn:Ei; [now repeat split|].
      rewrite Hd, andb_false_r in *.
      cbn [apply_eff upd_cnt x_memw x_f x_bits s_mcnt s_f s_bits f_cache f_dirty f_cnt] in *.
      rewrite (memw_wview _ _ Hm Hro). destruct Hc' as [Hc'|Hc']; [discriminate|]. now repeat split.
    - unfold core_union in *. rewrite Hro, andb_false_r in *.
      cbn [apply_eff upd_cnt x_memw x_f x_bits s_mcnt s_f s_bits f_cache f_dirty f_cnt].
      rewrite (memw_wview _ _ Hm Hro). now repeat split.
    - unfold core_intersect in *. rewrite Hro, andb_false_r in *.
      cbn [apply_eff upd_cnt x_memw x_f x_bits s_mcnt s_f s_bits f_cache f_dirty f_cnt].
      rewrite (memw_wview _ _ Hm Hro). now repeat split.
    - unfold core_invert in *. rewrite Hro, andb_false_r in *.
      cbn [apply_eff upd_cnt x_memw x_f x_bits s_mcnt s_f s_bits f_cache f_dirty f_cnt].
      rewrite (memw_wview _ _ Hm Hro). now repeat split.
    - unfold core_reset in *. rewrite Hro in *.
      cbn [apply_eff upd_cnt x_memw x_f x_bits s_mcnt s_f s_bits f_cache f_dirty f_cnt].
      rewrite (memw_wview _ _ Hm Hro). now repeat split.
    - unfold core_bits_used. cbn [s_f s_bits s_mcnt]. rewrite Hd. now repeat split.
  Qed.

  Lemma exact_inv_frun ops : forall s,
    is_wview s -> inv s -> Forall op_ok ops -> Forall no_update ops -> exact s ->
    exact (frun ops s) /\ inv (frun ops s).
  Proof.
    induction ops as [|op t IH]; intros s Hw Hi Hok Hnu He; cbn; [now split|].
    inversion Hok; inversion Hnu; subst. apply IH; try assumption.
    - now apply is_wview_fstep.
    - apply inv_fstep; [assumption|assumption|]. right. destruct op; auto. apply He.
    - now apply exact_fstep.
  Qed.

  (* ---- fresh views of the memory: what wrap / writable_wrap / deserialize build from the stored count ---- *)

  Definition wrap_view (s : cst) (ro : bool) : cst :=
    let f := s_f s in let d := N.eqb (s_mcnt s) DIRTY in
    mkS (mkF (f_seed f) (f_nh f) (f_cap f) d ro (if ro && d then popcount (s_bits s) else s_mcnt s) (f_mem f) 0)
        (s_bits s) (s_mcnt s).
  Definition deser_view (s : cst) : cst :=
    let f := s_f s in
    mkS (mkF (f_seed f) (f_nh f) (f_cap f) (N.eqb (s_mcnt s) DIRTY) false (s_mcnt s) None (s_bits s)) (s_bits s) (s_mcnt s).

  Lemma fresh_view_inv s ro :
    inv s -> (s_mcnt s = DIRTY \/ s_mcnt s = popcount (s_bits s)) -> inv (wrap_view s ro) /\ inv (deser_view s).
  Proof.
    intros (Hcap & Hr & _) Hm. unfold inv, cache_ok, wrap_view, deser_view. cbn.
    destruct (N.eqb_spec (s_mcnt s) DIRTY) as [E|E].
    - repeat split; auto.
    - destruct Hm as [Hm|Hm]; [contradiction|]. rewrite andb_false_r. repeat split; auto.
  Qed.
End Object.

(* ------------------------------------------------------------------ *)
(* set algebra, query_and_update, refusals (single operations)          *)
(* ------------------------------------------------------------------ *)

Lemma union_is_or fx f bits o e :
  core_union fx f bits o = Some e ->
  x_bits e = N.lor bits o /\ f_cnt (x_f e) = popcount (N.lor bits o) /\ f_dirty (x_f e) = false /\
  x_memw e = memw_of f (popcount (N.lor bits o)).
Proof. unfold core_union. destruct (fx && f_ro f); [discriminate|]. intros [= <-]. now cbn. Qed.

Lemma intersect_is_and fx f bits o e :
  core_intersect fx f bits o = Some e ->
  x_bits e = N.land bits o /\ f_cnt (x_f e) = popcount (N.land bits o) /\ f_dirty (x_f e) = false /\
  x_memw e = memw_of f (popcount (N.land bits o)).
Proof. unfold core_intersect. destruct (fx && f_ro f); [discriminate|]. intros [= <-]. now cbn. Qed.

(* NOT restricted to the capacity: bits below the capacity are flipped, nothing above it appears *)
Lemma invert_is_not fx f bits e :
  core_invert fx f bits = Some e ->
  (forall j, N.testbit (x_bits e) j = if j <? f_cap f then negb (N.testbit bits j) else N.testbit bits j) /\
  f_cnt (x_f e) = popcount (x_bits e) /\ f_dirty (x_f e) = false /\ x_memw e = memw_of f (popcount (x_bits e)).
Proof.
  unfold core_invert. destruct (fx && f_ro f); [discriminate|]. intros [= <-].
  cbn [x_bits x_f upd_cnt f_cache f_cnt f_dirty x_memw]. repeat split.
  intros j. rewrite N.lxor_spec, ones_spec. destruct (j <? f_cap f); [apply xorb_true_r|apply xorb_false_r].
Qed.

Lemma reset_clears f e : core_reset f = Some e -> x_bits e = 0 /\ f_cnt (x_f e) = 0 /\ f_dirty (x_f e) = false.
Proof. unfold core_reset. destruct (f_ro f); [discriminate|]. intros [= <-]. now cbn. Qed.

(* query_and_update returns exactly whether all index bits were set before the call, and sets them *)
Lemma qau_prior_membership fx f bits l e ex :
  core_qau fx f bits l = Some (e, ex) -> ex = all_set bits l /\ x_bits e = set_bits bits l.
Proof. intros H. destruct (core_qau_bits fx f bits l e ex H). now split. Qed.

Lemma readonly_refusals fx f bits l :
  f_ro f = true -> core_update fx f bits l = None /\ core_qau fx f bits l = None /\ core_reset f = None.
Proof. intros H. unfold core_update, core_qau, core_reset. now rewrite H. Qed.

Lemma readonly_setops_refused_fixed f bits o :
  f_ro f = true ->
  core_union true f bits o = None /\ core_intersect true f bits o = None /\ core_invert true f bits = None.
Proof. intros H. unfold core_union, core_intersect, core_invert. now rewrite H. Qed.

(* ... but not in the code as it is *)
Lemma readonly_setops_not_refused f bits o :
  core_union false f bits o <> None /\ core_intersect false f bits o <> None /\ core_invert false f bits <> None.
Proof. unfold core_union, core_intersect, core_invert. cbn. repeat split; discriminate. Qed.

(* ------------------------------------------------------------------ *)
(* the double-hashing indices of ANY hash function                      *)
(* ------------------------------------------------------------------ *)

Lemma bf_index_lt cap h0 h1 i : cap <> 0 -> bf_index cap h0 h1 i < cap.
Proof. intros H. unfold bf_index. now apply N.mod_lt. Qed.

Lemma bf_indices_lt cap nh h0 h1 i : cap <> 0 -> In i (bf_indices cap nh h0 h1) -> i < cap.
Proof.
  intros H Hi. unfold bf_indices in Hi. apply in_map_iff in Hi. destruct Hi as (k & <- & _). now apply bf_index_lt.
Qed.

Lemma bf_indices_length cap nh h0 h1 : length (bf_indices cap nh h0 h1) = N.to_nat nh.
Proof. unfold bf_indices. now rewrite map_length, seq_length. Qed.

Lemma bf_indices_nonempty cap nh h0 h1 : nh <> 0 -> bf_indices cap nh h0 h1 <> [].
Proof.
  intros H E. apply (f_equal (@length N)) in E. rewrite bf_indices_length in E. cbn in E. lia.
Qed.

Lemma round_cap_spec nbits : nbits + 63 < two64 -> round_cap nbits = 64 * ((nbits + 63) / 64).
Proof.
  intros H. unfold round_cap. rewrite (w64_small _ H).
  change 0xFFFFFFFFFFFFFFC0 with (N.shiftl (N.ones 58) 6).
  apply N.bits_inj. intros j.
  rewrite N.land_spec. replace (64 * ((nbits + 63) / 64)) with (N.shiftl (N.shiftr (nbits + 63) 6) 6).
  2:{ rewrite N.shiftl_mul_pow2, N.shiftr_div_pow2. change (2 ^ 6) with 64. lia. }
  destruct (N.lt_ge_cases j 6).
  - rewrite !N.shiftl_spec_low by assumption. apply andb_false_r.
  - rewrite !N.shiftl_spec_high' by assumption. rewrite N.shiftr_spec', ones_spec.
    replace (j - 6 + 6) with j by lia.
    destruct (N.ltb_spec (j - 6) 58); [apply andb_true_r|].
    rewrite andb_false_r. symmetry. apply N.bits_above_log2.
    destruct (N.eq_dec (nbits + 63) 0) as [E|E]; [lia|].
    apply N.log2_lt_pow2; [lia|]. eapply N.lt_le_trans; [exact H|].
    change two64 with (2 ^ 64). apply N.pow_le_mono_r; lia.
Qed.

Lemma round_cap_props nbits :
  nbits + 63 < two64 -> nbits <= round_cap nbits /\ round_cap nbits < nbits + 64 /\ round_cap nbits mod 64 = 0.
Proof.
  intros H. rewrite (round_cap_spec _ H).
  pose proof (N.div_mod (nbits + 63) 64 ltac:(discriminate)) as D.
  pose proof (N.mod_lt (nbits + 63) 64 ltac:(discriminate)) as L.
  set (q := (nbits + 63) / 64) in *. set (m := (nbits + 63) mod 64) in *.
  split; [lia|]. split; [lia|].
  rewrite N.mul_comm. apply N.mod_mul. discriminate.
Qed.

(* ------------------------------------------------------------------ *)
(* every view of the state (repaired model)                             *)
(* ------------------------------------------------------------------ *)

(* what serialize() stores at byte 24 *)
Definition ser_cnt (f : filt) : N := if f_dirty f then DIRTY else f_cnt f.
(* the (non-empty) serialized image of an object, as an abstract memory: same fixed fields, bit array, stored count *)
Definition ser_img (s : cst) : cst := mkS (s_f s) (s_bits s) (ser_cnt (s_f s)).

Section Views.
  Variable idx : item -> list N.      (* ANY index function *)
  Variable cap : N.
  Hypothesis cap_lt : cap < two64.
  Hypothesis idx_lt : forall x i, In i (idx x) -> i < cap.

  Notation frunT := (frun true idx).
  Notation squeryI := (squery idx).

  (* The views the property text lists.  [s] is the state the history has produced. *)
  Inductive view_of (s : cst) : cst -> Prop :=
  | V_copy s' : s_f s' = s_f s -> s_bits s' = s_bits s -> view_of s s'
      (* the filter itself, its copy / move (same cached fields, same bits) *)
  | V_serdes : view_of s (deser_view (ser_img s))
      (* deserialize (serialize s) *)
  | V_serwrap ro : view_of s (wrap_view (ser_img s) ro)
      (* wrap / writable_wrap of a block holding serialize s *)
  | V_memwrap ro : is_wview s -> minv s -> view_of s (wrap_view s ro)
      (* wrap / writable_wrap of the caller memory the filter lives in, at this time *)
  | V_memdes : is_wview s -> minv s -> view_of s (deser_view s)
      (* deserialize of that memory *)
  | V_union t post : inv cap t -> f_ro (s_f t) = false -> Forall monotone post -> Forall (op_ok cap) post ->
      view_of s (frunT (FUnion (s_bits s) :: post) t)
      (* any compatible filter [t] (same index function and capacity, any state) after union_with(s), and after any
         further monotone history *).

  Lemma ser_img_ok s : inv cap s -> s_mcnt (ser_img s) = DIRTY \/ s_mcnt (ser_img s) = popcount (s_bits (ser_img s)).
  Proof.
    intros (_ & _ & Hc). unfold ser_img, ser_cnt. cbn [s_mcnt s_bits s_f].
    destruct (f_dirty (s_f s)) eqn:Hd; [now left|]. right. destruct Hc as [Hc|Hc]; [congruence|exact Hc].
  Qed.

  Lemma inv_ser_img s : inv cap s -> inv cap (ser_img s).
  Proof. intros H. exact H. Qed.

  Lemma view_query s x v :
    inv cap s -> idx x <> [] -> all_set (s_bits s) (idx x) = true -> view_of s v -> squeryI v x = true.
  Proof.
    intros Hi Hne Hall Hv. destruct Hv as [s' Hf Hb | | ro | ro Hw Hm | Hw Hm | t post Ht Hro Hpost Hok].
    - apply (inv_query idx cap); [|assumption|now rewrite Hb].
      destruct Hi as (A & B & C). unfold inv, cache_ok. rewrite Hf, Hb. now repeat split.
    - apply (inv_query idx cap); [|assumption|exact Hall].
      apply (fresh_view_inv cap (ser_img s) false); [exact Hi|now apply ser_img_ok].
    - apply (inv_query idx cap); [|assumption|exact Hall].
      apply (fresh_view_inv cap (ser_img s) ro); [exact Hi|now apply ser_img_ok].
    - apply (inv_query idx cap); [|assumption|exact Hall].
      apply (fresh_view_inv cap s ro); [exact Hi|apply Hm].
    - apply (inv_query idx cap); [|assumption|exact Hall].
      apply (fresh_view_inv cap s false); [exact Hi|apply Hm].
    - apply (inv_query idx cap); [|assumption|].
      + apply (inv_frun true idx cap cap_lt idx_lt); [assumption| |now left].
        constructor; [|assumption]. cbn [op_ok]. apply Hi.
      + change (frunT (FUnion (s_bits s) :: post) t) with (frunT post (fstep true idx t (FUnion (s_bits s)))).
        apply all_set_spec. intros i Hin. apply frun_mono; [assumption|].
        rewrite fstep_bits. rewrite all_set_spec in Hall.
        rewrite Hro. cbn [andb]. rewrite N.lor_spec, (Hall i Hin). apply orb_true_r.
  Qed.

  (* NO FALSE NEGATIVE IN ANY VIEW.  Start from any sound writable state [s0] (e.g. a freshly built filter), run ANY
     history that contains an insertion of [x] (update or query_and_update) followed only by monotone operations
     (no intersect / invert / reset): every view of the resulting state reports [x]. *)
  Theorem nfn_every_view s0 pre ins post x v :
    inv cap s0 -> f_ro (s_f s0) = false -> idx x <> [] ->
    inserts ins x -> Forall monotone post -> Forall (op_ok cap) (pre ++ ins :: post) ->
    view_of (frunT (pre ++ ins :: post) s0) v -> squeryI v x = true.
  Proof.
    intros Hi Hro Hne Hins Hpost Hok Hv.
    eapply view_query; [| |  |exact Hv]; [|assumption|].
    - apply (inv_frun true idx cap cap_lt idx_lt); [assumption|assumption|now left].
    - now apply nfn_bits.
  Qed.

  (* the memory views are available after every history of a writable view of caller memory *)
  Theorem memory_views_available s0 ops :
    is_wview s0 -> inv cap s0 -> minv s0 -> Forall (op_ok cap) ops ->
    is_wview (frunT ops s0) /\ minv (frunT ops s0).
  Proof.
    intros Hw Hi Hm Hok. split.
    - clear Hi Hm Hok. revert s0 Hw. induction ops as [|op t IH]; intros s0 Hw; [assumption|].
      apply IH. now apply is_wview_fstep.
    - now apply (minv_frun_fixed true idx cap cap_lt idx_lt).
  Qed.
End Views.

(* ------------------------------------------------------------------ *)
(* the double-hashing index function of ANY hash function fits the object-level theorems *)
(* ------------------------------------------------------------------ *)

Lemma indices_fixed H f g x :
  f_seed g = f_seed f -> f_nh g = f_nh f -> f_cap g = f_cap f -> indices_of H g x = indices_of H f x.
Proof. unfold indices_of. now intros -> -> ->. Qed.

Lemma compatible_indices H f g x : compatible f g = true -> indices_of H f x = indices_of H g x.
Proof.
  unfold compatible. intros C. apply andb_prop in C. destruct C as [C C3]. apply andb_prop in C. destruct C as [C1 C2].
  apply N.eqb_eq in C1, C2, C3. symmetry. now apply indices_fixed.
Qed.

Lemma indices_lt H f x i : f_cap f <> 0 -> In i (indices_of H f x) -> i < f_cap f.
Proof. unfold indices_of. intros Hc Hi. eapply bf_indices_lt; eassumption. Qed.

Lemma indices_nonempty H f x : f_nh f <> 0 -> indices_of H f x <> [].
Proof. unfold indices_of. intros Hn. now apply bf_indices_nonempty. Qed.

Theorem nfn_every_view_hash (H : list N -> N -> N) s0 pre ins post x v :
  let idx := indices_of H (s_f s0) in
  let cap := f_cap (s_f s0) in
  cap <> 0 -> cap < two64 -> f_nh (s_f s0) <> 0 ->
  inv cap s0 -> f_ro (s_f s0) = false ->
  inserts ins x -> Forall monotone post -> Forall (op_ok cap) (pre ++ ins :: post) ->
  view_of idx cap (frun true idx (pre ++ ins :: post) s0) v -> squery idx v x = true.
Proof.
  intros idx cap Hc0 Hc Hn Hi Hro Hins Hpost Hok Hv.
  eapply (nfn_every_view idx cap Hc); try eassumption.
  - intros y i. now apply indices_lt.
  - now apply indices_nonempty.
Qed.

(* a freshly constructed filter (owned, or over caller memory after the constructor wrote its image) is a sound start state *)
Lemma fresh_inv seed nh cap mem mcnt :
  inv cap (mkS (mkF seed nh cap false false 0 mem 0) 0 mcnt).
Proof. unfold inv, cache_ok. cbn. split; [reflexivity|]. split; [apply in_range_0|now right]. Qed.

Lemma fresh_minv seed nh cap mem : minv (mkS (mkF seed nh cap false false 0 mem 0) 0 0).
Proof. unfold minv. cbn. split; [now right|discriminate]. Qed.

(* ------------------------------------------------------------------ *)
(* refusals at the level of the protocol step (ANY hash function, both variants where they agree) *)
(* ------------------------------------------------------------------ *)

Lemma wstep_union_incompatible fx H w r r2 fe ge :
  reg_get (w_f w) r = Some fe -> reg_get (w_f w) r2 = Some ge -> compatible (e_f fe) (e_f ge) = false ->
  wstep fx H w (OUnion r r2) = (w, (refused, [bz (f_ro (e_f fe)); 1]%Z)) /\
  wstep fx H w (OIntersect r r2) = (w, (refused, [bz (f_ro (e_f fe)); 1]%Z)).
Proof. intros H1 H2 H3. unfold wstep. rewrite H1, H2, H3. now split. Qed.

Lemma wstep_readonly_write_refused fx H w r fe x :
  reg_get (w_f w) r = Some fe -> f_ro (e_f fe) = true -> x <> [] ->
  wstep fx H w (OUpdate r x) = (w, (refused, [1]%Z)) /\
  wstep fx H w (OQau r x) = (w, (refused, [1; 0; 0; 0]%Z)) /\
  wstep fx H w (OReset r) = (w, (refused, [1; 0]%Z)).
Proof.
  intros H1 H2 Hx. unfold wstep. rewrite H1. unfold core_update, core_qau, core_reset. rewrite H2.
  destruct x; [congruence|]. now repeat split.
Qed.

Lemma wstep_readonly_setop_refused H w r r2 fe ge :
  reg_get (w_f w) r = Some fe -> reg_get (w_f w) r2 = Some ge -> f_ro (e_f fe) = true ->
  compatible (e_f fe) (e_f ge) = true ->
  wstep true H w (OUnion r r2) = (w, (refused, [1; 0]%Z)) /\
  wstep true H w (OIntersect r r2) = (w, (refused, [1; 0]%Z)) /\
  wstep true H w (OInvert r) = (w, (refused, [1; 0]%Z)).
Proof.
  intros H1 H2 H3 H4. unfold wstep. rewrite H1, H2, H4. unfold core_union, core_intersect, core_invert. rewrite H3.
  now repeat split.
Qed.

Lemma new_owned_refusals nbits nh seed :
  nh = 0 \/ nbits = 0 \/ MAX_BITS < nbits -> new_owned nbits nh seed = None.
Proof.
  unfold new_owned, ctor_ok. intros [-> | [-> | Hm]].
  - reflexivity.
  - now rewrite andb_false_r.
  - apply N.leb_gt in Hm. rewrite Hm. now rewrite andb_false_r.
Qed.

(* a writable wrap of an EMPTY image is refused *)
Lemma writable_wrap_empty_refused wide d b :
  (8 <= length d)%nat -> N.land (nth 3 d 0) 4 <> 0 -> wrap_filt wide d b true = None.
Proof.
  intros Hl Hf. unfold wrap_filt, parse.
  destruct (Nat.ltb_spec (length d) 8); [reflexivity|].
  destruct ((nth 0 d 0 <? 3) || (4 <? nth 0 d 0)); [reflexivity|].
  destruct (negb (nth 1 d 0 =? 1)); [reflexivity|].
  destruct (negb (nth 2 d 0 =? 21)); [reflexivity|].
  destruct (Nat.ltb (length d) (N.to_nat (nth 0 d 0) * 8)); [reflexivity|].
  apply N.eqb_neq in Hf. rewrite Hf. reflexivity.
Qed.

(* ------------------------------------------------------------------ *)
(* the serialized image, byte level: deserialize / wrap of serialize    *)
(* ------------------------------------------------------------------ *)

Lemma length_le_bytes n : forall x, length (N_to_le_bytes n x) = n.
Proof. induction n as [|n IH]; intros x; cbn [N_to_le_bytes length]; [reflexivity|now rewrite IH]. Qed.

Lemma w8_testbit x j : N.testbit (w8 x) j = N.testbit x j && (j <? 8).
Proof.
  unfold w8. change 255 with (N.ones 8). rewrite N.land_spec, ones_spec. reflexivity.
Qed.

Lemma le_of_le_testbit n : forall x j,
  N.testbit (le_bytes_to_N (N_to_le_bytes n x)) j = N.testbit x j && (j <? 8 * N.of_nat n).
Proof.
  induction n as [|n IH]; intros x j; cbn [N_to_le_bytes le_bytes_to_N].
  - rewrite N.bits_0. change (8 * N.of_nat 0) with 0. destruct (N.ltb_spec j 0); [lia|now rewrite andb_false_r].
  - rewrite N.lor_spec, w8_testbit, w8_testbit.
    destruct (N.ltb_spec j 8) as [Hj|Hj].
    + rewrite N.shiftl_spec_low by assumption. rewrite orb_false_r, andb_true_r.
      destruct (N.ltb_spec j (8 * N.of_nat (S n))); [now rewrite andb_true_r|lia].
    + rewrite !andb_false_r, orb_false_l. rewrite N.shiftl_spec_high' by assumption. rewrite IH, N.shiftr_spec'.
      replace (j - 8 + 8) with j by lia. f_equal.
      destruct (N.ltb_spec (j - 8) (8 * N.of_nat n)), (N.ltb_spec j (8 * N.of_nat (S n))); try reflexivity; lia.
Qed.

Lemma le_of_le n x : x < 2 ^ (8 * N.of_nat n) -> le_bytes_to_N (N_to_le_bytes n x) = x.
Proof.
  intros H. apply N.bits_inj. intros j. rewrite le_of_le_testbit.
  destruct (N.ltb_spec j (8 * N.of_nat n)); [apply andb_true_r|].
  rewrite andb_false_r. symmetry. now apply (lt_in_range x (8 * N.of_nat n)).
Qed.

Lemma rd_skip a d off n k : length a = k -> (k <= off)%nat -> rd (a ++ d) off n = rd d (off - k) n.
Proof.
  intros <- Hk. unfold rd. rewrite skipn_app. rewrite (skipn_all2 a) by assumption. reflexivity.
Qed.

Lemma rd_head n v post : rd (N_to_le_bytes n v ++ post) 0 n = le_bytes_to_N (N_to_le_bytes n v).
Proof.
  unfold rd. cbn [skipn]. rewrite firstn_app, length_le_bytes, Nat.sub_diag. cbn [firstn].
  rewrite app_nil_r. rewrite firstn_all2; [reflexivity|]. now rewrite length_le_bytes.
Qed.

(* peel the leading segments of known length off an image *)
Ltac peel :=
  repeat match goal with
  | |- context [rd (?a ++ ?d) ?off ?n] =>
      let k := eval cbn [length N_to_le_bytes] in (length a) in
      lazymatch off with
      | O => fail
      | _ => rewrite (rd_skip a d off n k) by (first [reflexivity | apply length_le_bytes | cbn; lia]); cbn [Nat.sub]
      end
  end.

(* a valid configuration: what the public constructors produce (MAX_BITS < 2^35) *)
Definition cfg_ok (f : filt) : Prop :=
  f_nh f < 2 ^ 16 /\ f_seed f < 2 ^ 64 /\ f_cap f mod 64 = 0 /\ f_cap f <> 0 /\ f_cap f < 2 ^ 35.

Lemma cap_shifts cap : cap mod 64 = 0 -> cap < 2 ^ 35 ->
  N.shiftr cap 6 < 2 ^ 32 /\ N.shiftl (N.shiftr cap 6) 6 = cap /\
  N.to_nat (w32 (N.shiftl (N.shiftr cap 6) 3)) = cap_bytes cap /\ round_cap cap = cap /\
  (8 * N.of_nat (cap_bytes cap) = cap).
Proof.
  intros Hm Hc. unfold cap_bytes.
  rewrite !N.shiftr_div_pow2, !N.shiftl_mul_pow2, !w32_mod.
  change (2 ^ 6) with 64. change (2 ^ 3) with 8. change two32 with (2 ^ 32) in *.
  pose proof (N.div_mod cap 64 ltac:(discriminate)) as D. rewrite Hm in D.
  set (k := cap / 64) in *.
  assert (Hk : k < 2 ^ 29). { change (2 ^ 35) with (64 * 2 ^ 29) in Hc. lia. }
  assert (E8 : cap / 8 = k * 8).
  { replace cap with ((k * 8) * 8) by lia. now rewrite N.div_mul. }
  change (2 ^ 29) with 536870912 in Hk. change (2 ^ 32) with 4294967296 in *. change (2 ^ 35) with 34359738368 in *.
  split; [lia|]. split; [lia|]. split; [rewrite N.mod_small by lia; now rewrite E8|].
  split.
  - rewrite round_cap_spec by (change two64 with 18446744073709551616; lia).
    replace (cap + 63) with (k * 64 + 63) by lia. rewrite N.div_add_l by discriminate.
    change (63 / 64) with 0. lia.
  - rewrite E8, N2Nat.id. lia.
Qed.

(* below 2^32 bits the 32-bit computation of the old code gives the same capacity *)
Lemma cap_shift32 cap : cap mod 64 = 0 -> cap < 2 ^ 32 -> w32 (N.shiftl (N.shiftr cap 6) 6) = cap.
Proof.
  intros Hm Hc. assert (Hc' : cap < 2 ^ 35) by (eapply N.lt_trans; [exact Hc|reflexivity]).
  destruct (cap_shifts cap Hm Hc') as (_ & E & _). rewrite E, w32_mod. apply N.mod_small. exact Hc.
Qed.

Definition image (f : filt) (c bits : N) : list N :=
  header (f_seed f) (f_nh f) (f_cap f) false ++ N_to_le_bytes 8 c ++ N_to_le_bytes (cap_bytes (f_cap f)) bits.

Lemma serialize_nonempty f bits : is_empty f = false -> serialize f bits = image f (ser_cnt f) bits.
Proof. intros H. unfold serialize, image, ser_cnt. now rewrite H. Qed.

Lemma image_length f c bits : length (image f c bits) = (32 + cap_bytes (f_cap f))%nat.
Proof.
  unfold image, header. rewrite !app_length, !length_le_bytes. cbn [length]. lia.
Qed.

(* what the parser sees in a block that starts with a standard image (anything may follow) *)
Lemma parse_image f c bits junk ro wrap stream :
  cfg_ok f -> c < 2 ^ 64 -> in_range bits (f_cap f) ->
  parse true (image f c bits ++ junk) ro wrap stream = PFull (f_cap f) (f_nh f) (f_seed f) c (cap_bytes (f_cap f)) /\
  rd (image f c bits ++ junk) 32 (cap_bytes (f_cap f)) = bits.
Proof.
  intros (Hnh & Hseed & Hm & Hc0 & Hc) Hcc Hr.
  destruct (cap_shifts _ Hm Hc) as (Hl & Hw & Hb & Hrc & H8).
  assert (Hlen : length (image f c bits ++ junk) = (32 + cap_bytes (f_cap f) + length junk)%nat)
    by (rewrite app_length, image_length; lia).
  assert (Rnh : rd (image f c bits ++ junk) 4 2 = f_nh f).
  { unfold image, header. rewrite <- !app_assoc. peel. rewrite rd_head. now apply le_of_le. }
  assert (Rseed : rd (image f c bits ++ junk) 8 8 = f_seed f).
  { unfold image, header. rewrite <- !app_assoc. peel. rewrite rd_head. now apply le_of_le. }
  assert (Rnl : rd (image f c bits ++ junk) 16 4 = N.shiftr (f_cap f) 6).
  { unfold image, header. rewrite <- !app_assoc. peel. rewrite rd_head. now apply le_of_le. }
  assert (Rc : rd (image f c bits ++ junk) 24 8 = c).
  { unfold image, header. rewrite <- !app_assoc. peel. rewrite rd_head. now apply le_of_le. }
  assert (Rb : rd (image f c bits ++ junk) 32 (cap_bytes (f_cap f)) = bits).
  { unfold image, header. rewrite <- !app_assoc. peel. rewrite rd_head. apply le_of_le. rewrite H8. now apply in_range_lt. }
  split; [|exact Rb].
  assert (N0 : nth 0 (image f c bits ++ junk) 0 = 4) by reflexivity.
  assert (N1 : nth 1 (image f c bits ++ junk) 0 = 1) by reflexivity.
  assert (N2 : nth 2 (image f c bits ++ junk) 0 = 21) by reflexivity.
  assert (N3 : nth 3 (image f c bits ++ junk) 0 = 0) by reflexivity.
  unfold parse. rewrite N0, N1, N2, N3, Rnh, Rseed, Rnl, Rc, Hw, Hb, Hrc, Hlen.
  set (L := (32 + cap_bytes (f_cap f) + length junk)%nat) in *.
  replace (Nat.ltb L 8) with false by (symmetry; apply Nat.ltb_ge; lia).
  replace ((4 <? (if stream then 1 else 3)) || (4 <? 4)) with false by (now destruct stream).
  change (negb (1 =? 1)) with false. change (negb (21 =? 21)) with false. change (N.land 0 4 =? 0) with true.
  change (N.to_nat 4 * 8)%nat with 32%nat.
  replace (Nat.ltb L 32) with false by (symmetry; apply Nat.ltb_ge; lia).
  replace (Nat.ltb (L - 32) (cap_bytes (f_cap f))) with false by (symmetry; apply Nat.ltb_ge; lia).
  cbn [negb andb]. rewrite !andb_false_r. reflexivity.
Qed.

(* deserialize(serialize f), from a byte block or a stream; anything may follow the image in the block *)
Theorem deser_serialize f bits junk stream :
  cfg_ok f -> in_range bits (f_cap f) -> is_empty f = false -> ser_cnt f < 2 ^ 64 ->
  deser_filt true (serialize f bits ++ junk) stream =
  Some (mkF (f_seed f) (f_nh f) (f_cap f) (N.eqb (ser_cnt f) DIRTY) false (ser_cnt f) None bits).
Proof.
  intros Hc Hr He Hs. rewrite (serialize_nonempty _ _ He).
  destruct (parse_image f (ser_cnt f) bits junk false false stream Hc Hs Hr) as [Hp Hb].
  unfold deser_filt. rewrite Hp, Hb. reflexivity.
Qed.

(* wrap / writable_wrap of a block holding serialize f: a view of block [b] *)
Theorem wrap_serialize f bits junk b writable :
  cfg_ok f -> in_range bits (f_cap f) -> is_empty f = false -> ser_cnt f < 2 ^ 64 ->
  wrap_filt true (serialize f bits ++ junk) b writable =
  Some (mkF (f_seed f) (f_nh f) (f_cap f) (N.eqb (ser_cnt f) DIRTY) (negb writable)
            (if negb writable && N.eqb (ser_cnt f) DIRTY then popcount bits else ser_cnt f) (Some b) 0).
Proof.
  intros Hc Hr He Hs. rewrite (serialize_nonempty _ _ He).
  destruct (parse_image f (ser_cnt f) bits junk (negb writable) true false Hc Hs Hr) as [Hp Hb].
  unfold wrap_filt. rewrite Hp, Hb. reflexivity.
Qed.

(* the abstract views used by nfn_every_view ARE what the byte-level functions build *)
Corollary deser_serialize_is_view s junk stream :
  cfg_ok (s_f s) -> in_range (s_bits s) (f_cap (s_f s)) -> is_empty (s_f s) = false -> ser_cnt (s_f s) < 2 ^ 64 ->
  exists g, deser_filt true (serialize (s_f s) (s_bits s) ++ junk) stream = Some g /\
            mkS g (f_bits g) (ser_cnt (s_f s)) = deser_view (ser_img s).
Proof.
  intros Hc Hr He Hs. eexists. split; [now apply deser_serialize|]. reflexivity.
Qed.

Corollary wrap_serialize_is_view s junk b writable :
  cfg_ok (s_f s) -> in_range (s_bits s) (f_cap (s_f s)) -> is_empty (s_f s) = false -> ser_cnt (s_f s) < 2 ^ 64 ->
  exists g, wrap_filt true (serialize (s_f s) (s_bits s) ++ junk) b writable = Some g /\
            f_mem g = Some b /\
            let v := wrap_view (ser_img s) (negb writable) in
            (f_seed g, f_nh g, f_cap g, f_dirty g, f_ro g, f_cnt g) =
            (f_seed (s_f v), f_nh (s_f v), f_cap (s_f v), f_dirty (s_f v), f_ro (s_f v), f_cnt (s_f v)).
Proof.
  intros Hc Hr He Hs. eexists. split; [now apply wrap_serialize|]. split; reflexivity.
Qed.

(* the empty image (3 preamble longs, EMPTY flag): deserialize and read-only wrap build a fresh filter of the same
   configuration with the public constructor *)
Lemma parse_empty_image f junk ro stream :
  cfg_ok f ->
  parse true (header (f_seed f) (f_nh f) (f_cap f) true ++ junk) ro false stream = PEmpty (f_cap f) (f_nh f) (f_seed f) /\
  parse true (header (f_seed f) (f_nh f) (f_cap f) true ++ junk) true true stream = PEmpty (f_cap f) (f_nh f) (f_seed f).
Proof.
  intros (Hnh & Hseed & Hm & Hc0 & Hc).
  destruct (cap_shifts _ Hm Hc) as (Hl & Hw & Hb & Hrc & H8).
  set (d := header (f_seed f) (f_nh f) (f_cap f) true ++ junk).
  assert (Hlen : length d = (24 + length junk)%nat).
  { unfold d, header. rewrite !app_length, !length_le_bytes. cbn [length]. lia. }
  assert (Rnh : rd d 4 2 = f_nh f).
  { unfold d, header. rewrite <- !app_assoc. peel. rewrite rd_head. now apply le_of_le. }
  assert (Rseed : rd d 8 8 = f_seed f).
  { unfold d, header. rewrite <- !app_assoc. peel. rewrite rd_head. now apply le_of_le. }
  assert (Rnl : rd d 16 4 = N.shiftr (f_cap f) 6).
  { unfold d, header. rewrite <- !app_assoc. peel. rewrite rd_head. now apply le_of_le. }
  assert (N0 : nth 0 d 0 = 3) by reflexivity.
  assert (N1 : nth 1 d 0 = 1) by reflexivity.
  assert (N2 : nth 2 d 0 = 21) by reflexivity.
  assert (N3 : nth 3 d 0 = 4) by reflexivity.
  unfold parse. rewrite N0, N1, N2, N3, Rnh, Rseed, Rnl, Hw, Hlen.
  set (L := (24 + length junk)%nat) in *.
  replace (Nat.ltb L 8) with false by (symmetry; apply Nat.ltb_ge; lia).
  replace ((3 <? (if stream then 1 else 3)) || (4 <? 3)) with false by (now destruct stream).
  change (negb (1 =? 1)) with false. change (negb (21 =? 21)) with false. change (N.land 4 4 =? 0) with false.
  change (N.to_nat 3 * 8)%nat with 24%nat.
  replace (Nat.ltb L 24) with false by (symmetry; apply Nat.ltb_ge; lia).
  cbn [negb andb]. now split.
Qed.

Theorem deser_serialize_empty f bits junk stream :
  cfg_ok f -> f_nh f <> 0 -> f_cap f <= MAX_BITS -> is_empty f = true ->
  deser_filt true (serialize f bits ++ junk) stream = Some (mkF (f_seed f) (f_nh f) (f_cap f) false false 0 None 0) /\
  wrap_filt true (serialize f bits ++ junk) 0%Z false = Some (mkF (f_seed f) (f_nh f) (f_cap f) false false 0 None 0).
Proof.
  intros Hc Hn Hm He. unfold serialize. rewrite He, app_nil_r.
  destruct (parse_empty_image f junk false stream Hc) as [Hp _].
  destruct (parse_empty_image f junk false false Hc) as [_ Hp'].
  destruct Hc as (_ & _ & Hm64 & Hc0 & Hc32).
  destruct (cap_shifts _ Hm64 Hc32) as (_ & _ & _ & Hrc & _).
  assert (Hn' : new_owned (f_cap f) (f_nh f) (f_seed f) = Some (mkF (f_seed f) (f_nh f) (f_cap f) false false 0 None 0)).
  { unfold new_owned, ctor_ok. apply N.eqb_neq in Hn, Hc0. apply N.leb_le in Hm. rewrite Hn, Hc0, Hm, Hrc. reflexivity. }
  unfold deser_filt, wrap_filt. cbn [negb]. rewrite Hp, Hp'. now split.
Qed.

(* ------------------------------------------------------------------ *)
(* no false negative through the BYTES: the history of nfn_every_view, then serialize, then deserialize / wrap of the bytes *)
(* ------------------------------------------------------------------ *)
Theorem nfn_through_bytes (H : list N -> N -> N) s0 pre ins post x junk :
  let idx := indices_of H (s_f s0) in
  let cap := f_cap (s_f s0) in
  cfg_ok (s_f s0) -> f_nh (s_f s0) <> 0 ->
  inv cap s0 -> f_ro (s_f s0) = false ->
  inserts ins x -> Forall monotone post -> Forall (op_ok cap) (pre ++ ins :: post) ->
  let s := frun true idx (pre ++ ins :: post) s0 in
  let img := serialize (s_f s) (s_bits s) ++ junk in
  (forall stream, exists g, deser_filt true img stream = Some g /\ core_query g (f_bits g) (indices_of H g x) = true) /\
  (forall b writable, exists g, wrap_filt true img b writable = Some g /\
                                core_query g (rd img 32 (cap_bytes (f_cap g))) (indices_of H g x) = true).
Proof.
  intros idx cap Hcfg Hn Hi Hro Hins Hpost Hok s img.
  destruct Hcfg as (Hnh & Hseed & Hm & Hc0 & Hc32).
  assert (Hc64 : cap < two64).
  { eapply N.lt_trans; [exact Hc32|]. reflexivity. }
  assert (Hidx : forall y i, In i (idx y) -> i < cap) by (intros y i; now apply indices_lt).
  assert (Hne : idx x <> []) by now apply indices_nonempty.
  assert (Hs : inv cap s) by (apply (inv_frun true idx cap Hc64 Hidx); [assumption|assumption|now left]).
  assert (Hall : all_set (s_bits s) (idx x) = true) by now apply nfn_bits.
  assert (Hq : squery idx s x = true) by now apply (inv_query idx cap).
  destruct (frun_fixed true idx (pre ++ ins :: post) s0) as (F1 & F2 & F3 & F4 & F5). fold s in F1, F2, F3, F4, F5.
  assert (Hcfg' : cfg_ok (s_f s)) by (unfold cfg_ok; rewrite F1, F2, F3; repeat split; assumption).
  assert (Hrng : in_range (s_bits s) (f_cap (s_f s))) by (rewrite F3; apply Hs).
  assert (Hemp : is_empty (s_f s) = false).
  { rewrite squery_spec in Hq. apply andb_prop in Hq. destruct Hq as [Hq _]. now destruct (is_empty (s_f s)). }
  assert (Hsc : ser_cnt (s_f s) < 2 ^ 64).
  { unfold ser_cnt. destruct Hs as (_ & Hr & Hcache). destruct (f_dirty (s_f s)) eqn:Hd; [reflexivity|].
    destruct Hcache as [Hcache|Hcache]; [congruence|]. rewrite Hcache.
    eapply N.le_lt_trans; [apply (in_range_popcount _ _ Hr)|exact Hc64]. }
  assert (Hcount : ser_cnt (s_f s) = DIRTY \/ ser_cnt (s_f s) = popcount (s_bits s)) by (apply (ser_img_ok cap s Hs)).
  assert (Hix : forall g, f_seed g = f_seed (s_f s) -> f_nh g = f_nh (s_f s) -> f_cap g = f_cap (s_f s) ->
                          indices_of H g x = idx x).
  { intros g A B C. unfold idx. apply indices_fixed; congruence. }
  assert (Hnz : forall c d, (c = DIRTY \/ c = popcount (s_bits s)) -> d = N.eqb c DIRTY ->
                            negb d && (c =? 0) = false).
  { intros c d Hcd ->. destruct (N.eqb_spec c DIRTY) as [E|E]; [reflexivity|]. cbn [negb andb].
    destruct Hcd as [Hcd|Hcd]; [contradiction|]. apply N.eqb_neq. rewrite Hcd. intros Z0.
    apply (proj1 (popcount_zero _)) in Z0. rewrite all_set_spec in Hall.
    destruct (idx x) as [|i t]; [congruence|]. specialize (Hall i (or_introl eq_refl)). rewrite Z0, N.bits_0 in Hall.
    discriminate. }
  split.
  - intros stream. eexists. split; [now apply deser_serialize|].
    cbn [f_bits]. rewrite Hix by reflexivity. unfold core_query, is_empty. cbn [f_dirty f_cnt].
    rewrite (Hnz _ _ Hcount eq_refl). exact Hall.
  - intros b writable. eexists. split; [now apply wrap_serialize|].
    cbn [f_cap]. rewrite Hix by reflexivity. unfold img. rewrite (serialize_nonempty _ _ Hemp).
    destruct (parse_image (s_f s) (ser_cnt (s_f s)) (s_bits s) junk false false false Hcfg' Hsc Hrng) as [_ Hb].
    rewrite Hb. unfold core_query, is_empty. cbn [f_dirty f_cnt].
    destruct (N.eqb_spec (ser_cnt (s_f s)) DIRTY) as [E|E].
    + cbn [negb andb]. exact Hall.
    + rewrite andb_false_r. rewrite (Hnz _ false Hcount); [exact Hall|]. symmetry. now apply N.eqb_neq.
Qed.

(* ------------------------------------------------------------------ *)
(* the protocol step refines the object-level step: a writable view of caller memory *)
(* ------------------------------------------------------------------ *)

Lemma reg_get_set_same {A} (rs : list (Z * A)) r v : reg_get (reg_set rs r v) r = Some v.
Proof. unfold reg_set. cbn [reg_get]. now rewrite Z.eqb_refl. Qed.

Lemma wr_mid a m z v : wr (a ++ m ++ z) (length a) (length m) v = a ++ N_to_le_bytes (length m) v ++ z.
Proof.
  unfold wr. rewrite firstn_app, Nat.sub_diag, firstn_all. cbn [firstn]. rewrite app_nil_r.
  f_equal. f_equal. rewrite skipn_app. rewrite (skipn_all2 a) by lia. cbn [app].
  replace (length a + length m - length a)%nat with (length m) by lia.
  rewrite skipn_app, skipn_all, Nat.sub_diag. reflexivity.
Qed.

Lemma image_eq f g c bits :
  f_seed g = f_seed f -> f_nh g = f_nh f -> f_cap g = f_cap f -> image g c bits = image f c bits.
Proof. unfold image. now intros -> -> ->. Qed.

Lemma header_length seed nh cap e : length (header seed nh cap e) = 24%nat.
Proof. unfold header. rewrite !app_length, !length_le_bytes. reflexivity. Qed.

Lemma wr_image_count f c bits junk c1 : wr (image f c bits ++ junk) 24 8 c1 = image f c1 bits ++ junk.
Proof.
  unfold image. rewrite <- !app_assoc.
  rewrite <- (header_length (f_seed f) (f_nh f) (f_cap f) false) at 1.
  rewrite <- (length_le_bytes 8 c) at 2.
  rewrite wr_mid. now rewrite length_le_bytes.
Qed.

Lemma wr_image_bits f c bits junk bits1 :
  wr (image f c bits ++ junk) 32 (cap_bytes (f_cap f)) bits1 = image f c bits1 ++ junk.
Proof.
  unfold image. rewrite <- !app_assoc.
  rewrite (app_assoc (header _ _ _ _) (N_to_le_bytes 8 c)).
  replace 32%nat with (length (header (f_seed f) (f_nh f) (f_cap f) false ++ N_to_le_bytes 8 c))
    by (rewrite app_length, header_length, length_le_bytes; reflexivity).
  rewrite <- (length_le_bytes (cap_bytes (f_cap f)) bits) at 2.
  rewrite wr_mid. rewrite length_le_bytes. now rewrite <- !app_assoc.
Qed.

Lemma rd_image_bits f c bits junk :
  cfg_ok f -> c < 2 ^ 64 -> in_range bits (f_cap f) -> rd (image f c bits ++ junk) 32 (cap_bytes (f_cap f)) = bits.
Proof. intros. now apply (parse_image f c bits junk false false false). Qed.

Lemma rd_image_count f c bits junk :
  cfg_ok f -> c < 2 ^ 64 -> in_range bits (f_cap f) -> rd (image f c bits ++ junk) 24 8 = c.
Proof.
  intros Hc Hcc Hr.
  unfold image, header. rewrite <- !app_assoc. peel. rewrite rd_head. now apply le_of_le.
Qed.

(* register [r] of world [w] is a writable view of block [b]; the block holds the standard image of the object
   [s] = (cached fields, bit array, stored count) followed by [junk] *)
Definition view_at (w : world) (r b : Z) (s : cst) (junk : list N) : Prop :=
  exists fe be,
    reg_get (w_f w) r = Some fe /\ e_f fe = s_f s /\ f_mem (s_f s) = Some b /\
    reg_get (w_b w) b = Some be /\ b_data be = image (s_f s) (s_mcnt s) (s_bits s) ++ junk.

(* the object is in good shape: valid configuration, sound cache, consistent stored count *)
Definition good (s : cst) : Prop :=
  cfg_ok (s_f s) /\ f_ro (s_f s) = false /\ inv (f_cap (s_f s)) s /\ minv s /\ s_mcnt s < 2 ^ 64.

Lemma bits_of_view w r b s junk :
  view_at w r b s junk -> good s -> bits_of w (s_f s) = s_bits s.
Proof.
  intros (fe & be & _ & _ & Hm & Hb & Hd) (Hc & _ & (_ & Hr & _) & _ & Hcc).
  unfold bits_of. rewrite Hm, Hb, Hd. now apply rd_image_bits.
Qed.

(* an effect that keeps the fixed fields *)
Definition eff_ok (s : cst) (e : eff) : Prop :=
  fixed_fields (s_f s) (x_f e) /\ (f_bits (x_f e) = f_bits (s_f s)).

Lemma commit_view w r b s junk e :
  view_at w r b s junk -> eff_ok s e ->
  exists be be1, reg_get (w_b w) b = Some be /\
    commit w e = (x_f e, reg_set (w_b w) b be1) /\
    b_data be1 = image (x_f e) (s_mcnt (apply_eff s e)) (x_bits e) ++ junk /\
    b_epoch be1 = b_epoch be /\ b_gen be1 = b_gen be /\ b_mut be1 = b_mut be.
Proof.
  intros (fe & be & Hr & Hf & Hm & Hb & Hd) ((F1 & F2 & F3 & F4 & F5) & _).
  exists be. unfold commit. rewrite F5, Hm, Hb, F3, Hd.
  eexists. split; [reflexivity|]. split; [reflexivity|]. cbn [b_data b_epoch b_gen b_mut].
  split; [|now repeat split].
  rewrite wr_image_bits. unfold apply_eff. cbn [s_mcnt].
  rewrite (image_eq (s_f s) (x_f e)) by assumption.
  destruct (x_memw e) as [c1|]; [now rewrite wr_image_count|reflexivity].
Qed.

Lemma buf_upd_data bs b be g :
  reg_get bs b = Some be -> (forall x, b_data (g x) = b_data x) ->
  exists be', reg_get (buf_upd bs b g) b = Some be' /\ b_data be' = b_data be.
Proof.
  intros Hb Hg. unfold buf_upd. rewrite Hb. exists (g be). split; [apply reg_get_set_same|apply Hg].
Qed.

Lemma ghost_grow_view bs fe f' b be1 add code hz rc :
  f_mem f' = Some b -> reg_get bs b = Some be1 ->
  exists fe' be', ghost_grow bs fe f' add code hz rc = (fe', snd (ghost_grow bs fe f' add code hz rc)) /\
    e_f fe' = f' /\ reg_get (snd (ghost_grow bs fe f' add code hz rc)) b = Some be' /\ b_data be' = b_data be1.
Proof.
  intros Hm Hb. unfold ghost_grow. rewrite Hm.
  destruct (Z.eqb (e_gen fe) (buf_gen bs b)).
  - destruct (buf_upd_data bs b be1
      (fun be => mkBE (b_data be)
         (b_must be ++ (if (Z.eqb (e_seen fe) (buf_mut bs b) || rc)%bool then add else []))
         (b_epoch be)
         (flag (hmax (b_haz be) hz) code (incons_b be (bits_of (mkW [] bs) f'))) (b_gen be) (buf_mut bs b + 1)%Z) Hb
      (fun _ => eq_refl)) as (be' & G1 & G2).
    eexists. exists be'. cbn [snd fst e_f]. repeat split; assumption.
  - destruct (buf_upd_data bs b be1
      (fun be => mkBE (b_data be) [] (b_epoch be + 1)%Z 0%Z (b_gen be) (buf_mut bs b + 1)%Z) Hb (fun _ => eq_refl))
      as (be' & G1 & G2).
    eexists. exists be'. cbn [snd fst e_f]. repeat split; assumption.
Qed.

Lemma ghost_clear_view bs fe f' b be1 code :
  f_mem f' = Some b -> reg_get bs b = Some be1 ->
  exists fe' be', ghost_clear bs fe f' code = (fe', snd (ghost_clear bs fe f' code)) /\
    e_f fe' = f' /\ reg_get (snd (ghost_clear bs fe f' code)) b = Some be' /\ b_data be' = b_data be1.
Proof.
  intros Hm Hb. unfold ghost_clear. rewrite Hm.
  destruct (buf_upd_data bs b be1
      (fun be => mkBE (b_data be) [] (buf_epoch bs b + 1)%Z
                      (if Z.eqb (e_gen fe) (b_gen be) then flag 0%Z code (incons_b be (bits_of (mkW [] bs) f')) else 0%Z)
                      (b_gen be) (buf_mut bs b + 1)%Z) Hb (fun _ => eq_refl)) as (be' & G1 & G2).
  eexists. exists be'. cbn [snd fst e_f]. repeat split; assumption.
Qed.

(* a successful write through the view: the world afterwards holds the object-level result *)
Lemma fin_grow_view w r b s junk fe e add code hz rc out :
  view_at w r b s junk -> reg_get (w_f w) r = Some fe -> eff_ok s e ->
  view_at (fst (fin_grow w r fe e add code hz rc out)) r b (apply_eff s e) junk /\
  snd (fin_grow w r fe e add code hz rc out) = out.
Proof.
  intros Hv Hr He.
  destruct (commit_view w r b s junk e Hv He) as (be & be1 & Hb & Hc & Hd & _).
  unfold fin_grow. rewrite Hc.
  assert (Hm : f_mem (x_f e) = Some b).
  { destruct Hv as (_ & _ & _ & _ & Hm & _). destruct He as ((_ & _ & _ & _ & F5) & _). congruence. }
  destruct (ghost_grow_view (reg_set (w_b w) b be1) fe (x_f e) b be1 add code hz rc Hm (reg_get_set_same _ _ _))
    as (fe' & be' & G0 & G1 & G2 & G3).
  rewrite G0. cbn [fst snd]. split; [|reflexivity].
  exists fe', be'. cbn [w_f w_b]. split; [apply reg_get_set_same|].
  split; [exact G1|]. split; [exact Hm|]. split; [exact G2|]. rewrite G3, Hd. reflexivity.
Qed.

Lemma fin_clear_view w r b s junk fe e out :
  view_at w r b s junk -> reg_get (w_f w) r = Some fe -> eff_ok s e ->
  view_at (fst (fin_clear w r fe e out)) r b (apply_eff s e) junk /\
  snd (fin_clear w r fe e out) = out.
Proof.
  intros Hv Hr He.
  destruct (commit_view w r b s junk e Hv He) as (be & be1 & Hb & Hc & Hd & _).
  unfold fin_clear. rewrite Hc.
  assert (Hm : f_mem (x_f e) = Some b).
  { destruct Hv as (_ & _ & _ & _ & Hm & _). destruct He as ((_ & _ & _ & _ & F5) & _). congruence. }
  destruct (ghost_clear_view (reg_set (w_b w) b be1) fe (x_f e) b be1 3%Z Hm (reg_get_set_same _ _ _))
    as (fe' & be' & G0 & G1 & G2 & G3).
  rewrite G0. cbn [fst snd]. split; [|reflexivity].
  exists fe', be'. cbn [w_f w_b]. split; [apply reg_get_set_same|].
  split; [exact G1|]. split; [exact Hm|]. split; [exact G2|]. rewrite G3, Hd. reflexivity.
Qed.

(* operations addressed to the view's own register *)
Inductive lop := LUpdate (x : item) | LQau (x : item) | LQuery (x : item) | LInvert | LReset | LBitsUsed.

Definition lop_wop (r : Z) (o : lop) : wop :=
  match o with
  | LUpdate x => OUpdate r x | LQau x => OQau r x | LQuery x => OQuery r x
  | LInvert => OInvert r | LReset => OReset r | LBitsUsed => OBitsUsed r
  end.
Definition lop_fop (o : lop) : list fop :=
  match o with
  | LUpdate x => [FUpdate x] | LQau x => [FQau x] | LQuery _ => []
  | LInvert => [FInvert] | LReset => [FReset] | LBitsUsed => [FBitsUsed]
  end.
(* the public API ignores empty items before anything else *)
Definition lop_ok (o : lop) : Prop := match o with LUpdate x | LQau x | LQuery x => x <> [] | _ => True end.

Lemma good_fstep idx s op :
  (forall x i, In i (idx x) -> i < f_cap (s_f s)) -> good s -> f_mem (s_f s) <> None ->
  match op with FUnion _ | FIntersect _ => False | _ => True end ->
  good (fstep true idx s op).
Proof.
  intros Hidx (Hc & Hro & Hi & Hm & Hcc) Hmem Hop.
  destruct (fstep_fixed true idx s op) as (F1 & F2 & F3 & F4 & F5).
  assert (Hc64 : f_cap (s_f s) < two64).
  { destruct Hc as (_ & _ & _ & _ & Hc). eapply N.lt_trans; [exact Hc|reflexivity]. }
  assert (Hok : op_ok (f_cap (s_f s)) op) by (destruct op; try exact I; contradiction).
  assert (Hi' : inv (f_cap (s_f s)) (fstep true idx s op)).
  { apply (inv_fstep true idx (f_cap (s_f s)) Hc64 Hidx); [assumption|assumption|now left]. }
  assert (Hm' : minv (fstep true idx s op)).
  { apply (minv_fstep_fixed true idx (f_cap (s_f s)) Hc64 Hidx); try assumption; [reflexivity|now split]. }
  assert (Hc' : cfg_ok (s_f (fstep true idx s op))) by (unfold cfg_ok in *; now rewrite F1, F2, F3).
  assert (Hro' : f_ro (s_f (fstep true idx s op)) = false) by congruence.
  assert (Hcc' : s_mcnt (fstep true idx s op) < 2 ^ 64).
  { destruct Hm' as [[E|E] _]; rewrite E; [reflexivity|].
    destruct Hi' as (_ & Hr & _). eapply N.le_lt_trans; [apply (in_range_popcount _ _ Hr)|exact Hc64]. }
  unfold good. rewrite F3. split; [exact Hc'|]. split; [exact Hro'|]. split; [exact Hi'|]. split; [exact Hm'|exact Hcc'].
Qed.

Section Bridge.
  Variable H : list N -> N -> N.

  Lemma wstep_local w r b s junk o :
    view_at w r b s junk -> good s -> lop_ok o ->
    view_at (fst (wstep true H w (lop_wop r o))) r b (frun true (indices_of H (s_f s)) (lop_fop o) s) junk.
  Proof.
    intros Hv Hg Hok.
    pose proof (bits_of_view w r b s junk Hv Hg) as Hbits.
    destruct Hv as (fe & be & Hr & Hf & Hm & Hb & Hd).
    assert (Hv : view_at w r b s junk) by (exists fe, be; repeat split; assumption).
    destruct Hg as (Hc & Hro & Hi & Hmi & Hcc).
    destruct o as [x|x|x| | |]; cbn [lop_wop lop_fop frun fold_left fstep lop_ok] in *; unfold wstep; rewrite Hr, Hf.
    - destruct x as [|x0 xt]; [congruence|]. rewrite Hbits.
      unfold core_update. rewrite Hro.
      apply fin_grow_view; try assumption. split; [apply fixed_cache|reflexivity].
    - destruct x as [|x0 xt]; [congruence|]. rewrite Hbits.
      destruct (core_qau true (s_f s) (s_bits s) (indices_of H (s_f s) (x0 :: xt))) as [[e ex]|] eqn:Eq.
      + apply fin_grow_view; try assumption.
        unfold core_qau in Eq. rewrite Hro in Eq.
        destruct (qau_loop (indices_of H (s_f s) (x0 :: xt)) (s_bits s) (f_cnt (s_f s)) true) as [[b' c'] e'].
        destruct (indices_of H (s_f s) (x0 :: xt)); [injection Eq as <- _; split; [apply fixed_refl|reflexivity]|].
        destruct (true && f_dirty (s_f s)); injection Eq as <- _; (split; [first [apply fixed_refl|apply fixed_cache]|reflexivity]).
      + cbn [fst]. exact Hv.
    - destruct x as [|x0 xt]; [congruence|]. cbn [fst]. exact Hv.
    - rewrite Hbits. unfold core_invert. rewrite Hro. cbn [andb].
      apply fin_clear_view; try assumption. split; [apply fixed_cache|reflexivity].
    - unfold core_reset. rewrite Hro.
      apply fin_clear_view; try assumption. split; [apply fixed_cache|reflexivity].
    - rewrite Hbits. cbn [fst].
      exists (mkFE (core_bits_used (s_f s) (s_bits s)) (e_must fe) (e_epoch fe) (e_haz fe) (e_gen fe)
                   (match f_mem (s_f s) with
                    | Some b0 => if f_dirty (s_f s) then buf_mut (w_b w) b0 else e_seen fe
                    | None => e_seen fe
                    end)), be.
      cbn [w_f w_b e_f s_f s_bits s_mcnt]. split; [apply reg_get_set_same|]. split; [reflexivity|].
      assert (E : forall f bits, f_mem (core_bits_used f bits) = f_mem f /\
                                 image (core_bits_used f bits) = image f).
      { intros f bits. unfold core_bits_used. destruct (f_dirty f); split; reflexivity. }
      destruct (E (s_f s) (s_bits s)) as [E1 E2]. rewrite E1, E2. repeat split; assumption.
  Qed.
End Bridge.

Section Bridge2.
  Variable H : list N -> N -> N.

  Definition wrunL (r : Z) (ops : list lop) (w : world) : world :=
    fold_left (fun w o => fst (wstep true H w (lop_wop r o))) ops w.
  Definition lfops (ops : list lop) : list fop := concat (map lop_fop ops).

  Lemma indices_of_fixed f g :
    f_seed g = f_seed f -> f_nh g = f_nh f -> f_cap g = f_cap f -> indices_of H g = indices_of H f.
  Proof. unfold indices_of. now intros -> -> ->. Qed.

  Lemma lop_fop_plain o : Forall (fun op => match op with FUnion _ | FIntersect _ => False | _ => True end) (lop_fop o).
  Proof. destruct o; repeat constructor. Qed.

  Lemma good_frun_local idx s o :
    (forall x i, In i (idx x) -> i < f_cap (s_f s)) -> good s -> f_mem (s_f s) <> None ->
    good (frun true idx (lop_fop o) s).
  Proof.
    intros Hidx Hg Hm. destruct o; cbn [lop_fop frun fold_left]; try (apply good_fstep; try assumption; exact I).
    exact Hg.
  Qed.

  Lemma wrun_local r b junk ops : forall w s,
    view_at w r b s junk -> good s -> Forall lop_ok ops ->
    view_at (wrunL r ops w) r b (frun true (indices_of H (s_f s)) (lfops ops) s) junk /\
    good (frun true (indices_of H (s_f s)) (lfops ops) s).
  Proof.
    induction ops as [|o t IH]; intros w s Hv Hg Hok; [now split|].
    inversion Hok as [|? ? Ho Ht]; subst.
    unfold wrunL, lfops. cbn [fold_left map concat]. rewrite frun_app.
    fold (wrunL r t (fst (wstep true H w (lop_wop r o)))). fold (lfops t).
    set (idx := indices_of H (s_f s)).
    set (s1 := frun true idx (lop_fop o) s).
    assert (Hm : f_mem (s_f s) <> None) by (destruct Hv as (_ & _ & _ & _ & Hm & _); congruence).
    assert (Hidx : forall x i, In i (idx x) -> i < f_cap (s_f s)).
    { intros x i. apply indices_lt. apply Hg. }
    assert (Hg1 : good s1) by (apply good_frun_local; assumption).
    assert (Hv1 : view_at (fst (wstep true H w (lop_wop r o))) r b s1 junk) by (apply wstep_local; assumption).
    destruct (frun_fixed true idx (lop_fop o) s) as (F1 & F2 & F3 & _). fold s1 in F1, F2, F3.
    assert (E : indices_of H (s_f s1) = idx) by (apply indices_of_fixed; assumption).
    specialize (IH _ s1 Hv1 Hg1 Ht). rewrite E in IH. exact IH.
  Qed.

  (* what wrap / writable_wrap / deserialize build from a block that holds the image of [s] *)
  Lemma wrap_image s junk b writable :
    good s -> f_mem (s_f s) = Some b ->
    wrap_filt true (image (s_f s) (s_mcnt s) (s_bits s) ++ junk) b writable = Some (s_f (wrap_view s (negb writable))).
  Proof.
    intros (Hc & _ & (_ & Hr & _) & _ & Hcc) Hm.
    destruct (parse_image (s_f s) (s_mcnt s) (s_bits s) junk (negb writable) true false Hc Hcc Hr) as [Hp Hb].
    unfold wrap_filt. rewrite Hp, Hb. unfold wrap_view. cbn [s_f]. now rewrite Hm.
  Qed.

  Lemma deser_image s junk stream :
    good s ->
    deser_filt true (image (s_f s) (s_mcnt s) (s_bits s) ++ junk) stream =
    Some (f_setbits (s_f (deser_view s)) (s_bits s)).
  Proof.
    intros (Hc & _ & (_ & Hr & _) & _ & Hcc).
    destruct (parse_image (s_f s) (s_mcnt s) (s_bits s) junk false false stream Hc Hcc Hr) as [Hp Hb].
    unfold deser_filt. rewrite Hp, Hb. reflexivity.
  Qed.

  Definition lmonotone (o : lop) : Prop := match o with LInvert | LReset => False | _ => True end.
  Definition linserts (o : lop) (x : item) : Prop := o = LUpdate x \/ o = LQau x.

  Lemma lfops_app a b : lfops (a ++ b) = lfops a ++ lfops b.
  Proof. unfold lfops. now rewrite map_app, concat_app. Qed.

  Lemma lfops_monotone ops : Forall lmonotone ops -> Forall monotone (lfops ops).
  Proof.
    induction 1 as [|o t Ho _ IH]; [constructor|].
    change (lfops (o :: t)) with (lop_fop o ++ lfops t). apply Forall_app. split; [|exact IH].
    destruct o; cbn in Ho |- *; try contradiction; repeat constructor.
  Qed.

  Lemma lfops_op_ok cap ops : Forall (op_ok cap) (lfops ops).
  Proof.
    induction ops as [|o t IH]; [constructor|].
    change (lfops (o :: t)) with (lop_fop o ++ lfops t). apply Forall_app. split; [|exact IH].
    destruct o; repeat constructor.
  Qed.

  (* PROTOCOL-LEVEL no false negative for a filter in caller memory: register [r] is a writable view of block [b]
     (as built by builder::initialize_by_size, see init_view below); after ANY history of operations through that view with an
     insertion of x and no invert / reset after it, the extracted step function answers 1 to query(x) through the view,
     through a FRESH read-only or writable wrap of the block into any register, and through deserialize of the block *)
  Theorem world_nfn_memory w r b s junk pre ins post x :
    view_at w r b s junk -> good s -> f_nh (s_f s) <> 0 ->
    Forall lop_ok (pre ++ ins :: post) -> linserts ins x -> Forall lmonotone post ->
    let w1 := wrunL r (pre ++ ins :: post) w in
    fst (snd (wstep true H w1 (OQuery r x))) = [1%Z] /\
    (forall r2 writable,
       fst (snd (wstep true H w1 (OWrap r2 b writable))) = ok /\
       fst (snd (wstep true H (fst (wstep true H w1 (OWrap r2 b writable))) (OQuery r2 x))) = [1%Z]) /\
    (forall r2 stream,
       fst (snd (wstep true H w1 (ODeser r2 b stream))) = ok /\
       fst (snd (wstep true H (fst (wstep true H w1 (ODeser r2 b stream))) (OQuery r2 x))) = [1%Z]).
  Proof.
    intros Hv Hg Hn Hok Hins Hpost w1.
    set (idx := indices_of H (s_f s)). set (cap := f_cap (s_f s)).
    destruct (wrun_local r b junk (pre ++ ins :: post) w s Hv Hg Hok) as [Hv1 Hg1].
    fold w1 idx in Hv1, Hg1. rewrite lfops_app in Hv1, Hg1.
    change (lfops (ins :: post)) with (lop_fop ins ++ lfops post) in Hv1, Hg1.
    assert (Hx : x <> []).
    { apply Forall_app in Hok. destruct Hok as [_ Hok]. inversion Hok as [|? ? Ho _]; subst.
      destruct Hins as [-> | ->]; exact Ho. }
    assert (Hfi : exists fi, lop_fop ins = [fi] /\ inserts fi x).
    { destruct Hins as [-> | ->]; eexists; (split; [reflexivity|]); [now left|now right]. }
    destruct Hfi as (fi & Efi & Hfi). rewrite Efi in Hv1, Hg1. cbn [app] in Hv1, Hg1.
    set (s1 := frun true idx (lfops pre ++ fi :: lfops post) s) in *.
    assert (Hc64 : cap < two64).
    { destruct Hg as ((_ & _ & _ & _ & Hc) & _). eapply N.lt_trans; [exact Hc|reflexivity]. }
    assert (Hidx : forall y i, In i (idx y) -> i < cap) by (intros y i; apply indices_lt; apply Hg).
    assert (Hne : idx x <> []) by now apply indices_nonempty.
    assert (Hall : forall v, view_of idx cap s1 v -> squery idx v x = true).
    { intros v Hvw. apply (nfn_every_view idx cap Hc64 Hidx s (lfops pre) fi (lfops post) x v); try assumption.
      - apply Hg.
      - apply Hg.
      - now apply lfops_monotone.
      - rewrite <- (app_nil_l (lfops post)). change (fi :: [] ++ lfops post) with ([fi] ++ lfops post).
        rewrite <- Efi. change (lop_fop ins ++ lfops post) with (lfops (ins :: post)). rewrite <- lfops_app.
        apply lfops_op_ok. }
    destruct (frun_fixed true idx (lfops pre ++ fi :: lfops post) s) as (F1 & F2 & F3 & F4 & F5). fold s1 in F1, F2, F3, F4, F5.
    assert (Eidx : forall g, f_seed g = f_seed (s_f s1) -> f_nh g = f_nh (s_f s1) -> f_cap g = f_cap (s_f s1) ->
                             indices_of H g = idx).
    { intros g A B C. apply indices_of_fixed; congruence. }
    pose proof (bits_of_view w1 r b s1 junk Hv1 Hg1) as Hbits.
    destruct Hv1 as (fe & be & Hr & Hf & Hm & Hb & Hd).
    assert (Hw : is_wview s1) by (split; [congruence|apply Hg1]).
    assert (Hmi : minv s1) by apply Hg1.
    split; [|split].
    - unfold wstep. rewrite Hr. destruct x as [|x0 xt]; [congruence|]. cbn [fst snd].
      rewrite Hf, Hbits, (Eidx (s_f s1)) by reflexivity.
      change (core_query (s_f s1) (s_bits s1) (idx (x0 :: xt))) with (squery idx s1 (x0 :: xt)).
      rewrite (Hall s1); [reflexivity|]. now apply V_copy.
    - intros r2 writable. unfold wstep at 1 3. rewrite Hb, Hd, (wrap_image s1 junk b writable Hg1 Hm).
      assert (Hvw : is_view (s_f (wrap_view s1 (negb writable))) = true).
      { unfold is_view, wrap_view. cbn [s_f f_mem]. now rewrite Hm. }
      rewrite Hvw. cbn [fst snd]. split; [reflexivity|].
      unfold wstep. cbn [w_f w_b]. rewrite reg_get_set_same. destruct x as [|x0 xt]; [congruence|]. cbn [fst snd e_f].
      rewrite (Eidx (s_f (wrap_view s1 (negb writable)))) by reflexivity.
      assert (Eb : bits_of (mkW (reg_set (w_f w1) r2
                      (mkFE (s_f (wrap_view s1 (negb writable))) (b_must be) (b_epoch be) (b_haz be) (b_gen be) (b_mut be)))
                      (w_b w1)) (s_f (wrap_view s1 (negb writable))) = s_bits s1).
      { unfold bits_of. cbn [w_b]. unfold wrap_view at 1 2. cbn [s_f f_mem f_cap]. rewrite Hm, Hb, Hd.
        apply rd_image_bits; apply Hg1. }
      rewrite Eb.
      change (core_query (s_f (wrap_view s1 (negb writable))) (s_bits s1) (idx (x0 :: xt)))
        with (squery idx (wrap_view s1 (negb writable)) (x0 :: xt)).
      rewrite (Hall (wrap_view s1 (negb writable))); [reflexivity|]. now apply V_memwrap.
    - intros r2 stream. unfold wstep at 1 3. rewrite Hb, Hd, (deser_image s1 junk stream Hg1).
      cbn [fst snd]. split; [reflexivity|].
      unfold wstep. cbn [w_f w_b]. rewrite reg_get_set_same. destruct x as [|x0 xt]; [congruence|]. cbn [fst snd e_f].
      rewrite (Eidx (f_setbits (s_f (deser_view s1)) (s_bits s1))) by reflexivity.
      unfold bits_of. cbn [f_setbits f_mem deser_view s_f f_bits].
      change (core_query _ (s_bits s1) (idx (x0 :: xt)))
        with (squery idx (deser_view s1) (x0 :: xt)).
      rewrite (Hall (deser_view s1)); [reflexivity|]. now apply V_memdes.
  Qed.
End Bridge2.

(* builder::initialize_by_size over a block: the constructor's image is the standard image of the fresh object *)
Lemma le_bytes_zero n : N_to_le_bytes n 0 = repeat 0 n.
Proof.
  induction n as [|n IH]; [reflexivity|]. cbn [N_to_le_bytes repeat].
  change (N.shiftr 0 8) with 0. change (w8 0) with 0. now rewrite IH.
Qed.

Lemma init_image_eq seed nh cap mem :
  cap mod 64 = 0 -> init_image seed nh cap = image (mkF seed nh cap false false 0 mem 0) 0 0.
Proof.
  intros Hm. unfold init_image, image. cbn [f_seed f_nh f_cap]. f_equal.
  rewrite !le_bytes_zero, <- repeat_app. f_equal.
  unfold cap_bytes. rewrite !N.shiftr_div_pow2. change (2 ^ 6) with 64. change (2 ^ 3) with 8.
  pose proof (N.div_mod cap 64 ltac:(discriminate)) as D. rewrite Hm in D.
  set (q := cap / 64) in *.
  assert (E : cap / 8 = 8 * q). { replace cap with ((q * 8) * 8) by lia. rewrite N.div_mul by discriminate. lia. }
  rewrite E, N2Nat.inj_mul. change (N.to_nat 8) with 8%nat. lia.
Qed.

Section Bridge3.
  Variable H : list N -> N -> N.

  Lemma init_view w r b be nbits nh seed :
    reg_get (w_b w) b = Some be -> ctor_ok nbits nh = true ->
    size_for (round_cap nbits) <= N.of_nat (length (b_data be)) -> nh < 2 ^ 16 -> seed < 2 ^ 64 ->
    let s0 := mkS (mkF seed nh (round_cap nbits) false false 0 (Some b) 0) 0 0 in
    fst (snd (wstep true H w (OInit r b nbits nh seed))) = ok /\
    view_at (fst (wstep true H w (OInit r b nbits nh seed))) r b s0
            (skipn (length (init_image seed nh (round_cap nbits))) (b_data be)) /\
    good s0 /\ f_nh (s_f s0) <> 0.
  Proof.
    intros Hb Hc Hlen Hnh Hseed s0.
    unfold ctor_ok in Hc. apply andb_prop in Hc. destruct Hc as [Hc Hmax]. apply andb_prop in Hc. destruct Hc as [Hn0 Hb0].
    apply negb_true_iff in Hn0, Hb0. apply N.eqb_neq in Hn0, Hb0. apply N.leb_le in Hmax.
    assert (Hmb : MAX_BITS + 63 < two64) by reflexivity.
    destruct (round_cap_props nbits ltac:(lia)) as (R1 & R2 & R3).
    assert (Hcfg : cfg_ok (s_f s0)).
    { unfold cfg_ok, s0. cbn [s_f f_nh f_seed f_cap]. repeat split; try assumption; [lia|].
      assert (MAX_BITS + 64 < 2 ^ 35) by reflexivity. lia. }
    split; [|split; [|split]].
    - unfold wstep. rewrite Hb. unfold ctor_ok.
      apply N.eqb_neq in Hn0, Hb0. apply N.leb_le in Hmax. rewrite Hn0, Hb0, Hmax. cbn [negb andb].
      apply N.ltb_ge in Hlen. rewrite Hlen. reflexivity.
    - unfold wstep. rewrite Hb. unfold ctor_ok.
      apply N.eqb_neq in Hn0, Hb0. apply N.leb_le in Hmax. rewrite Hn0, Hb0, Hmax. cbn [negb andb].
      apply N.ltb_ge in Hlen. rewrite Hlen. cbn [negb fst].
      eexists. eexists. cbn [w_f w_b]. split; [apply reg_get_set_same|]. split; [reflexivity|]. split; [reflexivity|].
      split; [apply reg_get_set_same|]. cbn [b_data]. unfold overlay.
      rewrite (init_image_eq seed nh (round_cap nbits) (Some b) R3). reflexivity.
    - unfold good. split; [exact Hcfg|]. split; [reflexivity|]. split; [apply fresh_inv|]. split; [apply fresh_minv|reflexivity].
    - exact Hn0.
  Qed.

  (* from the constructor on: initialize_by_size over ANY block that is large enough, then ANY history through the view *)
  Theorem world_nfn_from_init w r b be nbits nh seed pre ins post x :
    reg_get (w_b w) b = Some be -> ctor_ok nbits nh = true ->
    size_for (round_cap nbits) <= N.of_nat (length (b_data be)) -> nh < 2 ^ 16 -> seed < 2 ^ 64 ->
    Forall lop_ok (pre ++ ins :: post) -> linserts ins x -> Forall lmonotone post ->
    let w0 := fst (wstep true H w (OInit r b nbits nh seed)) in
    let w1 := wrunL H r (pre ++ ins :: post) w0 in
    fst (snd (wstep true H w1 (OQuery r x))) = [1%Z] /\
    (forall r2 writable,
       fst (snd (wstep true H w1 (OWrap r2 b writable))) = ok /\
       fst (snd (wstep true H (fst (wstep true H w1 (OWrap r2 b writable))) (OQuery r2 x))) = [1%Z]) /\
    (forall r2 stream,
       fst (snd (wstep true H w1 (ODeser r2 b stream))) = ok /\
       fst (snd (wstep true H (fst (wstep true H w1 (ODeser r2 b stream))) (OQuery r2 x))) = [1%Z]).
  Proof.
    intros Hb Hc Hlen Hnh Hseed Hok Hins Hpost w0 w1.
    destruct (init_view w r b be nbits nh seed Hb Hc Hlen Hnh Hseed) as (_ & Hv & Hg & Hn).
    exact (world_nfn_memory H w0 r b _ _ pre ins post x Hv Hg Hn Hok Hins Hpost).
  Qed.
End Bridge3.

(* ------------------------------------------------------------------ *)
(* the protocol step refines the object-level step: an OWNED filter     *)
(* ------------------------------------------------------------------ *)

(* register [r] holds an owned filter whose cached fields and bit array are those of the object [s] *)
Definition owned_at (w : world) (r : Z) (s : cst) : Prop :=
  exists fe, reg_get (w_f w) r = Some fe /\ e_f fe = f_setbits (s_f s) (s_bits s) /\ f_mem (s_f s) = None.

Definition goodo (s : cst) : Prop :=
  cfg_ok (s_f s) /\ f_ro (s_f s) = false /\ inv (f_cap (s_f s)) s.

Lemma fin_grow_owned w r s fe e0 add code hz rc out :
  f_mem (s_f s) = None -> fixed_fields (s_f s) (x_f e0) ->
  owned_at (fst (fin_grow w r fe (mkE (f_setbits (x_f e0) (s_bits s)) (x_bits e0) (x_memw e0)) add code hz rc out)) r
           (apply_eff s e0) /\
  snd (fin_grow w r fe (mkE (f_setbits (x_f e0) (s_bits s)) (x_bits e0) (x_memw e0)) add code hz rc out) = out.
Proof.
  intros Hm (_ & _ & _ & _ & F5).
  assert (Hm' : f_mem (x_f e0) = None) by congruence.
  unfold fin_grow, commit. cbn [x_f x_bits x_memw]. cbn [f_setbits f_mem]. rewrite Hm'.
  unfold ghost_grow. cbn [f_setbits f_mem]. rewrite Hm'. cbn [fst snd]. split; [|reflexivity].
  eexists. cbn [w_f]. split; [apply reg_get_set_same|]. split; [reflexivity|exact Hm'].
Qed.

Lemma fin_clear_owned w r s fe e0 out :
  f_mem (s_f s) = None -> fixed_fields (s_f s) (x_f e0) ->
  owned_at (fst (fin_clear w r fe (mkE (f_setbits (x_f e0) (s_bits s)) (x_bits e0) (x_memw e0)) out)) r (apply_eff s e0) /\
  snd (fin_clear w r fe (mkE (f_setbits (x_f e0) (s_bits s)) (x_bits e0) (x_memw e0)) out) = out.
Proof.
  intros Hm (_ & _ & _ & _ & F5).
  assert (Hm' : f_mem (x_f e0) = None) by congruence.
  unfold fin_clear, commit. cbn [x_f x_bits x_memw]. cbn [f_setbits f_mem]. rewrite Hm'.
  unfold ghost_clear. cbn [f_setbits f_mem]. rewrite Hm'. cbn [fst snd]. split; [|reflexivity].
  eexists. cbn [w_f]. split; [apply reg_get_set_same|]. split; [reflexivity|exact Hm'].
Qed.

Section BridgeOwned.
  Variable H : list N -> N -> N.

  Lemma indices_setbits f b : indices_of H (f_setbits f b) = indices_of H f.
  Proof. reflexivity. Qed.

  Lemma wstep_local_owned w r s o :
    owned_at w r s -> f_ro (s_f s) = false -> lop_ok o ->
    owned_at (fst (wstep true H w (lop_wop r o))) r (frun true (indices_of H (s_f s)) (lop_fop o) s).
  Proof.
    intros (fe & Hr & Hf & Hm) Hro Hok.
    assert (Hv : owned_at w r s) by (exists fe; repeat split; assumption).
    assert (Hbits : bits_of w (f_setbits (s_f s) (s_bits s)) = s_bits s).
    { unfold bits_of. cbn [f_setbits f_mem]. now rewrite Hm. }
    destruct o as [x|x|x| | |]; cbn [lop_wop lop_fop frun fold_left fstep lop_ok] in *; unfold wstep; rewrite Hr, Hf, ?Hbits.
    - destruct x as [|x0 xt]; [congruence|]. rewrite indices_setbits.
      unfold core_update. cbn [f_setbits f_ro]. rewrite Hro.
      apply (fin_grow_owned w r s fe
               (mkE (f_cache (s_f s) true (f_cnt (s_f s))) (set_bits (s_bits s) (indices_of H (s_f s) (x0 :: xt)))
                    (memw_of (s_f s) DIRTY))); [assumption|apply fixed_cache].
    - destruct x as [|x0 xt]; [congruence|]. rewrite indices_setbits.
      set (l := indices_of H (s_f s) (x0 :: xt)).
      unfold core_qau. cbn [f_setbits f_ro f_cnt f_dirty]. rewrite Hro.
      destruct (qau_loop l (s_bits s) (f_cnt (s_f s)) true) as [[b' c'] e'].
      destruct l as [|i t].
      + apply (fin_grow_owned w r s fe (mkE (s_f s) (s_bits s) None)); [assumption|apply fixed_refl].
      + destruct (true && f_dirty (s_f s)).
        * apply (fin_grow_owned w r s fe (mkE (s_f s) b' None)); [assumption|apply fixed_refl].
        * apply (fin_grow_owned w r s fe (upd_cnt (s_f s) b' c')); [assumption|apply fixed_cache].
    - destruct x as [|x0 xt]; [congruence|]. cbn [fst]. exact Hv.
    - unfold core_invert. cbn [f_setbits f_ro f_cap]. rewrite Hro. cbn [andb].
      apply (fin_clear_owned w r s fe
               (upd_cnt (s_f s) (N.lxor (s_bits s) (N.ones (f_cap (s_f s))))
                        (popcount (N.lxor (s_bits s) (N.ones (f_cap (s_f s))))))); [assumption|apply fixed_cache].
    - unfold core_reset. cbn [f_setbits f_ro]. rewrite Hro.
      apply (fin_clear_owned w r s fe (upd_cnt (s_f s) 0 0)); [assumption|apply fixed_cache].
    - cbn [fst]. eexists. cbn [w_f]. split; [apply reg_get_set_same|]. cbn [e_f s_f s_bits].
      unfold core_bits_used. cbn [f_setbits f_dirty]. destruct (f_dirty (s_f s)); split; try reflexivity; assumption.
  Qed.
End BridgeOwned.

Lemma reg_get_set_other {A} (rs : list (Z * A)) r r2 v : r2 <> r -> reg_get (reg_set rs r v) r2 = reg_get rs r2.
Proof.
  intros Hne. unfold reg_set. cbn [reg_get]. destruct (Z.eqb_spec r r2); [congruence|].
  induction rs as [|[k a] t IH]; [reflexivity|]. cbn [reg_del reg_get].
  destruct (Z.eqb_spec k r).
  - subst k. destruct (Z.eqb_spec r r2); [congruence|exact IH].
  - cbn [reg_get]. destruct (Z.eqb_spec k r2); [reflexivity|exact IH].
Qed.

Section BridgeOwned2.
  Variable H : list N -> N -> N.

  Lemma goodo_frun idx s ops :
    (forall x i, In i (idx x) -> i < f_cap (s_f s)) -> goodo s -> Forall (op_ok (f_cap (s_f s))) ops ->
    goodo (frun true idx ops s).
  Proof.
    intros Hidx (Hc & Hro & Hi) Hok.
    destruct (frun_fixed true idx ops s) as (F1 & F2 & F3 & F4 & F5).
    assert (Hc64 : f_cap (s_f s) < two64).
    { destruct Hc as (_ & _ & _ & _ & Hc). eapply N.lt_trans; [exact Hc|reflexivity]. }
    unfold goodo. rewrite F3. split; [|split].
    - unfold cfg_ok in *. now rewrite F1, F2, F3.
    - congruence.
    - apply (inv_frun true idx (f_cap (s_f s)) Hc64 Hidx); [assumption|assumption|now left].
  Qed.

  Lemma wrun_local_owned r ops : forall w s,
    owned_at w r s -> f_ro (s_f s) = false -> Forall lop_ok ops ->
    owned_at (wrunL H r ops w) r (frun true (indices_of H (s_f s)) (lfops ops) s).
  Proof.
    induction ops as [|o t IH]; intros w s Hv Hro Hok; [exact Hv|].
    inversion Hok as [|? ? Ho Ht]; subst.
    unfold wrunL, lfops. cbn [fold_left map concat]. rewrite frun_app.
    fold (wrunL H r t (fst (wstep true H w (lop_wop r o)))). fold (lfops t).
    set (idx := indices_of H (s_f s)).
    set (s1 := frun true idx (lop_fop o) s).
    assert (Hv1 : owned_at (fst (wstep true H w (lop_wop r o))) r s1) by (apply wstep_local_owned; assumption).
    destruct (frun_fixed true idx (lop_fop o) s) as (F1 & F2 & F3 & F4 & _). fold s1 in F1, F2, F3, F4.
    assert (E : indices_of H (s_f s1) = idx) by (apply indices_of_fixed; assumption).
    specialize (IH _ s1 Hv1 ltac:(congruence) Ht). rewrite E in IH. exact IH.
  Qed.

  (* everything the protocol-level theorems below need about the state after the history *)
  Lemma owned_setup w r s pre ins post x :
    owned_at w r s -> goodo s -> f_nh (s_f s) <> 0 ->
    Forall lop_ok (pre ++ ins :: post) -> linserts ins x -> Forall lmonotone post ->
    let idx := indices_of H (s_f s) in
    let cap := f_cap (s_f s) in
    exists s1, owned_at (wrunL H r (pre ++ ins :: post) w) r s1 /\ goodo s1 /\
               f_seed (s_f s1) = f_seed (s_f s) /\ f_nh (s_f s1) = f_nh (s_f s) /\ f_cap (s_f s1) = cap /\
               x <> [] /\ idx x <> [] /\ (forall y i, In i (idx y) -> i < cap) /\ cap < two64 /\
               all_set (s_bits s1) (idx x) = true /\
               (forall v, view_of idx cap s1 v -> squery idx v x = true).
  Proof.
    intros Hv Hg Hn Hok Hins Hpost idx cap.
    pose proof (wrun_local_owned r (pre ++ ins :: post) w s Hv (proj1 (proj2 Hg)) Hok) as Hv1. fold idx in Hv1.
    rewrite lfops_app in Hv1. change (lfops (ins :: post)) with (lop_fop ins ++ lfops post) in Hv1.
    assert (Hx : x <> []).
    { apply Forall_app in Hok. destruct Hok as [_ Hok]. inversion Hok as [|? ? Ho _]; subst.
      destruct Hins as [-> | ->]; exact Ho. }
    assert (Hfi : exists fi, lop_fop ins = [fi] /\ inserts fi x).
    { destruct Hins as [-> | ->]; eexists; (split; [reflexivity|]); [now left|now right]. }
    destruct Hfi as (fi & Efi & Hfi). rewrite Efi in Hv1. cbn [app] in Hv1.
    assert (Hc64 : cap < two64).
    { destruct Hg as ((_ & _ & _ & _ & Hc) & _). eapply N.lt_trans; [exact Hc|reflexivity]. }
    assert (Hidx : forall y i, In i (idx y) -> i < cap) by (intros y i; apply indices_lt; apply Hg).
    assert (Hne : idx x <> []) by now apply indices_nonempty.
    assert (Hokf : Forall (op_ok cap) (lfops pre ++ fi :: lfops post)).
    { rewrite <- (app_nil_l (lfops post)). change (fi :: [] ++ lfops post) with ([fi] ++ lfops post).
      rewrite <- Efi. change (lop_fop ins ++ lfops post) with (lfops (ins :: post)). rewrite <- lfops_app.
      apply lfops_op_ok. }
    exists (frun true idx (lfops pre ++ fi :: lfops post) s).
    destruct (frun_fixed true idx (lfops pre ++ fi :: lfops post) s) as (F1 & F2 & F3 & _).
    split; [exact Hv1|]. split; [now apply goodo_frun|].
    repeat (split; [assumption|]).
    split.
    - apply nfn_bits; [apply Hg|assumption|now apply lfops_monotone].
    - intros v Hvw. apply (nfn_every_view idx cap Hc64 Hidx s (lfops pre) fi (lfops post) x v); try assumption.
      + apply Hg.
      + apply Hg.
      + now apply lfops_monotone.
  Qed.

  (* the filter itself and its copies / moves *)
  Theorem world_nfn_owned_copy w r s pre ins post x :
    owned_at w r s -> goodo s -> f_nh (s_f s) <> 0 ->
    Forall lop_ok (pre ++ ins :: post) -> linserts ins x -> Forall lmonotone post ->
    let w1 := wrunL H r (pre ++ ins :: post) w in
    fst (snd (wstep true H w1 (OQuery r x))) = [1%Z] /\
    (forall r2 variant, r2 <> r ->
       fst (snd (wstep true H w1 (OCopy r2 r variant))) = ok /\
       fst (snd (wstep true H (fst (wstep true H w1 (OCopy r2 r variant))) (OQuery r2 x))) = [1%Z]).
  Proof.
    intros Hv Hg Hn Hok Hins Hpost w1.
    destruct (owned_setup w r s pre ins post x Hv Hg Hn Hok Hins Hpost)
      as (s1 & (fe & Hr & Hf & Hm) & Hg1 & F1 & F2 & F3 & Hx & Hne & Hidx & Hc64 & Hall & Hviews).
    fold w1 in Hr.
    set (idx := indices_of H (s_f s)) in *.
    assert (Eidx : indices_of H (f_setbits (s_f s1) (s_bits s1)) = idx) by (apply indices_of_fixed; assumption).
    assert (Hq : forall w', reg_get (w_f w') = reg_get (w_f w') -> forall r', reg_get (w_f w') r' = Some fe ->
                 fst (snd (wstep true H w' (OQuery r' x))) = [1%Z]).
    { intros w' _ r' Hr'. unfold wstep. rewrite Hr'. destruct x as [|x0 xt]; [congruence|]. cbn [fst snd].
      rewrite Hf, Eidx. unfold bits_of. cbn [f_setbits f_mem f_bits]. rewrite Hm.
      change (core_query (f_setbits (s_f s1) (s_bits s1)) (s_bits s1) (idx (x0 :: xt)))
        with (squery idx s1 (x0 :: xt)).
      rewrite (Hviews s1); [reflexivity|]. now apply V_copy. }
    split; [now apply Hq|].
    intros r2 variant Hne2. unfold wstep at 1 3. rewrite Hr.
    destruct ((variant =? 2)%Z || (variant =? 3)%Z).
    - destruct (Z.eqb_spec r r2); [congruence|]. cbn [fst snd]. split; [reflexivity|].
      apply Hq; [reflexivity|]. cbn [w_f]. unfold reg_set. cbn [reg_del].
      destruct (Z.eqb_spec r2 r); [congruence|]. cbn [reg_get]. now rewrite Z.eqb_refl.
    - cbn [fst snd]. split; [reflexivity|]. apply Hq; [reflexivity|]. cbn [w_f]. apply reg_get_set_same.
  Qed.
End BridgeOwned2.

Section BridgeOwned3.
  Variable H : list N -> N -> N.

  Lemma query_owned w r s x :
    owned_at w r s -> x <> [] ->
    fst (snd (wstep true H w (OQuery r x))) = [bz (squery (indices_of H (s_f s)) s x)].
  Proof.
    intros (fe & Hr & Hf & Hm) Hx. unfold wstep. rewrite Hr. destruct x as [|x0 xt]; [congruence|]. cbn [fst snd].
    rewrite Hf. unfold bits_of. cbn [f_setbits f_mem f_bits]. rewrite Hm. reflexivity.
  Qed.

  Lemma ser_cnt_bound s : goodo s -> ser_cnt (s_f s) < 2 ^ 64.
  Proof.
    intros (Hc & _ & (_ & Hr & Hcache)). unfold ser_cnt. destruct (f_dirty (s_f s)) eqn:Hd; [reflexivity|].
    destruct Hcache as [Hcache|Hcache]; [congruence|]. rewrite Hcache.
    eapply N.le_lt_trans; [apply (in_range_popcount _ _ Hr)|].
    destruct Hc as (_ & _ & _ & _ & Hc). eapply N.lt_trans; [exact Hc|reflexivity].
  Qed.

  (* serialize into a block, then deserialize (bytes / stream) or wrap (read-only / writable) the block *)
  Theorem world_nfn_owned_serialize w r s pre ins post x b be :
    owned_at w r s -> goodo s -> f_nh (s_f s) <> 0 ->
    Forall lop_ok (pre ++ ins :: post) -> linserts ins x -> Forall lmonotone post ->
    let w1 := wrunL H r (pre ++ ins :: post) w in
    reg_get (w_b w1) b = Some be -> (32 + cap_bytes (f_cap (s_f s)) <= length (b_data be))%nat ->
    let w2 := fst (wstep true H w1 (OSer r b)) in
    fst (snd (wstep true H w1 (OSer r b))) = [nz (32 + cap_bytes (f_cap (s_f s)))] /\
    (forall r2 stream,
       fst (snd (wstep true H w2 (ODeser r2 b stream))) = ok /\
       fst (snd (wstep true H (fst (wstep true H w2 (ODeser r2 b stream))) (OQuery r2 x))) = [1%Z]) /\
    (forall r2 writable,
       fst (snd (wstep true H w2 (OWrap r2 b writable))) = ok /\
       fst (snd (wstep true H (fst (wstep true H w2 (OWrap r2 b writable))) (OQuery r2 x))) = [1%Z]).
  Proof.
    intros Hv Hg Hn Hok Hins Hpost w1 Hb Hlen w2.
    destruct (owned_setup H w r s pre ins post x Hv Hg Hn Hok Hins Hpost)
      as (s1 & (fe & Hr & Hf & Hm) & Hg1 & F1 & F2 & F3 & Hx & Hne & Hidx & Hc64 & Hall & Hviews).
    fold w1 in Hr.
    set (idx := indices_of H (s_f s)) in *. set (cap := f_cap (s_f s)) in *.
    assert (Hq : squery idx s1 x = true) by (apply Hviews; now apply V_copy).
    assert (Hemp : is_empty (s_f s1) = false).
    { rewrite squery_spec in Hq. apply andb_prop in Hq. destruct Hq as [Hq _]. now destruct (is_empty (s_f s1)). }
    pose proof (ser_cnt_bound s1 Hg1) as Hsc.
    destruct Hg1 as (Hc1 & Hro1 & Hi1).
    assert (Hrng : in_range (s_bits s1) (f_cap (s_f s1))) by apply Hi1.
    set (img := image (s_f s1) (ser_cnt (s_f s1)) (s_bits s1)).
    assert (Himg : serialize (f_setbits (s_f s1) (s_bits s1)) (s_bits s1) = img).
    { change (serialize (f_setbits (s_f s1) (s_bits s1)) (s_bits s1)) with (serialize (s_f s1) (s_bits s1)).
      now apply serialize_nonempty. }
    assert (Hil : length img = (32 + cap_bytes cap)%nat) by (unfold img; rewrite image_length, F3; reflexivity).
    assert (Hbo : bits_of w1 (f_setbits (s_f s1) (s_bits s1)) = s_bits s1).
    { unfold bits_of. cbn [f_setbits f_mem f_bits]. now rewrite Hm. }
    set (junk := skipn (length img) (b_data be)).
    assert (Ew2 : w2 = mkW (w_f w1) (reg_set (w_b w1) b
                    (mkBE (img ++ junk) (emust (w_b w1) fe) (b_epoch be + 1)%Z (e_haz fe) (b_gen be + 1)%Z (b_mut be + 1)%Z))
            /\ fst (snd (wstep true H w1 (OSer r b))) = [nz (32 + cap_bytes cap)]).
    { unfold w2, wstep. rewrite Hr, Hb, Hf, Hbo, Himg, Hil.
      destruct (Nat.ltb_spec (length (b_data be)) (32 + cap_bytes cap)) as [Hlt|Hge]; [exfalso; exact (proj1 (Nat.lt_nge _ _) Hlt Hlen)|].
      cbn [fst snd]. split; reflexivity. }
    destruct Ew2 as [Ew2 ER]. split; [exact ER|]. rewrite Ew2.
    assert (Eidx : forall g, f_seed g = f_seed (s_f s1) -> f_nh g = f_nh (s_f s1) -> f_cap g = f_cap (s_f s1) ->
                             indices_of H g = idx).
    { intros g A B C. apply indices_of_fixed; [congruence|congruence|rewrite C; exact F3]. }
    split.
    - intros r2 stream. unfold wstep at 1 3. cbn [w_b w_f]. rewrite reg_get_set_same. cbn [b_data].
      unfold img. rewrite <- (serialize_nonempty _ _ Hemp).
      rewrite (deser_serialize (s_f s1) (s_bits s1) junk stream Hc1 Hrng Hemp Hsc). cbn [fst snd].
      split; [reflexivity|].
      unfold wstep. cbn [w_f w_b]. rewrite reg_get_set_same. destruct x as [|x0 xt]; [congruence|]. cbn [fst snd e_f].
      match goal with |- context [indices_of H ?g] => rewrite (Eidx g eq_refl eq_refl eq_refl) end. unfold bits_of. cbn [f_mem f_bits].
      change (core_query _ (s_bits s1) (idx (x0 :: xt))) with (squery idx (deser_view (ser_img s1)) (x0 :: xt)).
      rewrite (Hviews (deser_view (ser_img s1))); [reflexivity|apply V_serdes].
    - intros r2 writable. unfold wstep at 1 3. cbn [w_b w_f]. rewrite reg_get_set_same. cbn [b_data].
      unfold img. rewrite <- (serialize_nonempty _ _ Hemp).
      rewrite (wrap_serialize (s_f s1) (s_bits s1) junk b writable Hc1 Hrng Hemp Hsc). cbn [is_view f_mem fst snd].
      split; [reflexivity|].
      unfold wstep. cbn [w_f w_b]. rewrite reg_get_set_same. destruct x as [|x0 xt]; [congruence|]. cbn [fst snd e_f].
      match goal with |- context [indices_of H ?g] => rewrite (Eidx g eq_refl eq_refl eq_refl) end. unfold bits_of. cbn [f_mem f_cap w_b]. rewrite reg_get_set_same. cbn [b_data].
      rewrite (serialize_nonempty _ _ Hemp).
      rewrite (rd_image_bits (s_f s1) (ser_cnt (s_f s1)) (s_bits s1) junk Hc1 Hsc Hrng).
      change (core_query _ (s_bits s1) (idx (x0 :: xt)))
        with (squery idx (wrap_view (ser_img s1) (negb writable)) (x0 :: xt)).
      rewrite (Hviews (wrap_view (ser_img s1) (negb writable))); [reflexivity|apply V_serwrap].
  Qed.

  (* union_with into ANY other compatible owned filter (any state [t]) *)
  Theorem world_nfn_owned_union w r s pre ins post x :
    owned_at w r s -> goodo s -> f_nh (s_f s) <> 0 ->
    Forall lop_ok (pre ++ ins :: post) -> linserts ins x -> Forall lmonotone post ->
    let w1 := wrunL H r (pre ++ ins :: post) w in
    forall r3 t, r3 <> r -> owned_at w1 r3 t -> goodo t ->
      f_seed (s_f t) = f_seed (s_f s) -> f_nh (s_f t) = f_nh (s_f s) -> f_cap (s_f t) = f_cap (s_f s) ->
      fst (snd (wstep true H w1 (OUnion r3 r))) = ok /\
      fst (snd (wstep true H (fst (wstep true H w1 (OUnion r3 r))) (OQuery r3 x))) = [1%Z].
  Proof.
    intros Hv Hg Hn Hok Hins Hpost w1 r3 t Hne3 Ht Hgt T1 T2 T3.
    destruct (owned_setup H w r s pre ins post x Hv Hg Hn Hok Hins Hpost)
      as (s1 & (fe & Hr & Hf & Hm) & Hg1 & F1 & F2 & F3 & Hx & Hne & Hidx & Hc64 & Hall & Hviews).
    fold w1 in Hr.
    set (idx := indices_of H (s_f s)) in *. set (cap := f_cap (s_f s)) in *.
    destruct Ht as (fe3 & Hr3 & Hf3 & Hm3).
    destruct Hgt as (Hct & Hrot & Hit).
    set (e0 := upd_cnt (s_f t) (N.lor (s_bits t) (s_bits s1)) (popcount (N.lor (s_bits t) (s_bits s1)))).
    assert (Hstep : owned_at (fst (wstep true H w1 (OUnion r3 r))) r3 (apply_eff t e0) /\
                    snd (wstep true H w1 (OUnion r3 r)) = (ok, [bz (f_ro (e_f fe3)); 0%Z])).
    { unfold wstep. rewrite Hr3, Hr, Hf3, Hf.
      assert (Hcomp : compatible (f_setbits (s_f t) (s_bits t)) (f_setbits (s_f s1) (s_bits s1)) = true).
      { unfold compatible. cbn [f_setbits f_seed f_nh f_cap]. rewrite T1, T2, T3, F1, F2, F3. now rewrite !N.eqb_refl. }
      rewrite Hcomp. unfold bits_of. cbn [f_setbits f_mem f_bits]. rewrite Hm3, Hm.
      unfold core_union. cbn [f_setbits f_ro]. rewrite Hrot. cbn [andb].
      apply (fin_grow_owned w1 r3 t fe3 e0); [assumption|apply fixed_cache]. }
    destruct Hstep as [Hown Hout]. rewrite Hout. cbn [fst snd]. split; [reflexivity|].
    rewrite (query_owned (fst (wstep true H w1 (OUnion r3 r))) r3 (apply_eff t e0) x Hown Hx).
    assert (Eidx : indices_of H (s_f (apply_eff t e0)) = idx) by (apply indices_of_fixed; assumption).
    rewrite Eidx.
    assert (Ev : apply_eff t e0 = frun true idx [FUnion (s_bits s1)] t).
    { cbn [frun fold_left fstep]. unfold core_union. rewrite Hrot. reflexivity. }
    rewrite Ev, (Hviews (frun true idx [FUnion (s_bits s1)] t)); [reflexivity|].
    apply V_union; [|assumption|constructor|constructor]. first [rewrite <- T3 | unfold cap; rewrite <- T3]; exact Hit.
  Qed.
End BridgeOwned3.

(* builder::create_by_size establishes the hypotheses of the three theorems above *)
Lemma new_view (H : list N -> N -> N) w r nbits nh seed :
  ctor_ok nbits nh = true -> nh < 2 ^ 16 -> seed < 2 ^ 64 ->
  let s0 := mkS (mkF seed nh (round_cap nbits) false false 0 None 0) 0 0 in
  fst (snd (wstep true H w (ONew r nbits nh seed))) = ok /\
  owned_at (fst (wstep true H w (ONew r nbits nh seed))) r s0 /\ goodo s0 /\ f_nh (s_f s0) <> 0.
Proof.
  intros Hc Hnh Hseed s0. unfold wstep, new_owned. rewrite Hc. cbn [fst snd].
  unfold ctor_ok in Hc. apply andb_prop in Hc. destruct Hc as [Hc Hmax]. apply andb_prop in Hc. destruct Hc as [Hn0 Hb0].
  apply negb_true_iff in Hn0, Hb0. apply N.eqb_neq in Hn0, Hb0. apply N.leb_le in Hmax.
  assert (Hmb : MAX_BITS + 63 < two64) by reflexivity.
  destruct (round_cap_props nbits ltac:(lia)) as (R1 & R2 & R3).
  split; [reflexivity|]. split; [|split].
  - eexists. cbn [w_f]. split; [apply reg_get_set_same|]. split; reflexivity.
  - unfold goodo, s0. cbn [s_f f_cap f_ro]. split; [|split; [reflexivity|apply fresh_inv]].
    unfold cfg_ok. cbn [f_nh f_seed f_cap]. repeat split; try assumption; [lia|].
    assert (MAX_BITS + 64 < 2 ^ 35) by reflexivity. lia.
  - exact Hn0.
Qed.
