(* BloomProofs.v — lemmas about the Bloom filter model (placeholder, being developed). *)
From Coq Require Import ZArith NArith List Bool Lia.
From DS Require Import Word XXHash64 RunnerLib BloomDefs.
Import ListNotations.
Local Open Scope N_scope.

Lemma core_update_ro f bits idx : f_ro f = true -> core_update f bits idx = None.
Proof. intros H. unfold core_update. now rewrite H. Qed.
