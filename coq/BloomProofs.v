(* BloomProofs.v — lemmas about the Bloom filter model BloomDefs.v: bit-array level, one filter object
   (with the count stored in wrapped memory) under arbitrary operation histories, for an arbitrary index function. *)
From Coq Require Import ZArith NArith List Bool Lia.
From DS Require Import Word XXHash64 RunnerLib BloomDefs.
Import ListNotations.
Local Open Scope N_scope.

(* ------------------------------------------------------------------ *)
(* popcount                                                             *)
(* ------------------------------------------------------------------ *)

Lemma popcount_div2 b : popcount b = popcount (N.div2 b) + (if N.odd b then 1 else 0).
Proof. destruct b as [|[p|p|]]; cbn -[N.add]; lia. Qed.

Lemma popcount_zero b : popcount b = 0 <-> b = 0.
Proof.
  split; [|intros ->; reflexivity].
  destruct b as [|p]; [reflexivity|]. cbn -[N.add]. intros H. exfalso.
  induction p; cbn -[N.add] in H; lia.
Qed.

Lemma popcount_le_pow2 n : forall b, b < 2 ^ n -> popcount b <= n.
Proof.
  induction n as [|n IH] using N.peano_ind; intros b Hb.
  - cbn in Hb. assert (b = 0) by lia. subst. cbn. lia.
  - rewrite popcount_div2.
    assert (Hd : N.div2 b < 2 ^ n).
    { rewrite N.div2_div. apply N.div_lt_upper_bound; [lia|]. rewrite <- N.pow_succ_r'. exact Hb. }
    specialize (IH _ Hd). destruct (N.odd b); lia.
Qed.

Lemma setbit_div2_succ b i : N.div2 (N.setbit b (N.succ i)) = N.setbit (N.div2 b) i.
Proof.
  apply N.bits_inj. intros j.
  rewrite N.div2_spec, N.shiftr_spec' , N.setbit_eqb, N.setbit_eqb, N.div2_spec, N.shiftr_spec'.
  replace (N.succ i =? j + 1) with (i =? j); [reflexivity|].
  destruct (N.eqb_spec i j), (N.eqb_spec (N.succ i) (j + 1)); try reflexivity; lia.
Qed.

Lemma setbit_odd_succ b i : N.odd (N.setbit b (N.succ i)) = N.odd b.
Proof.
  rewrite <- !N.bit0_odd, N.setbit_eqb.
  destruct (N.eqb_spec (N.succ i) 0); [lia|reflexivity].
Qed.

Lemma popcount_setbit i : forall b,
  popcount (N.setbit b i) = popcount b + (if N.testbit b i then 0 else 1).
Proof.
  induction i as [|i IH] using N.peano_ind; intros b.
  - destruct b as [|[p|p|]]; cbn -[N.add]; try lia.
  - rewrite (popcount_div2 (N.setbit b (N.succ i))), setbit_div2_succ, setbit_odd_succ, IH.
    rewrite (popcount_div2 b) at 1.
    replace (N.testbit b (N.succ i)) with (N.testbit (N.div2 b) i).
    + lia.
    + rewrite N.div2_spec, N.shiftr_spec'. f_equal. lia.
Qed.

(* ------------------------------------------------------------------ *)
(* ranges                                                               *)
(* ------------------------------------------------------------------ *)

Definition in_range (b cap : N) : Prop := forall j, cap <= j -> N.testbit b j = false.

Lemma in_range_lt b cap : in_range b cap -> b < 2 ^ cap.
Proof.
  intros H.
  assert (E : b mod 2 ^ cap = b).
  { apply N.bits_inj. intros j. destruct (N.lt_ge_cases j cap).
    - now rewrite N.mod_pow2_bits_low.
    - rewrite N.mod_pow2_bits_high by assumption. symmetry. now apply H. }
  rewrite <- E. apply N.mod_lt. apply N.pow_nonzero. lia.
Qed.

Lemma lt_in_range b cap : b < 2 ^ cap -> in_range b cap.
Proof.
  intros H j Hj. destruct (N.eq_dec b 0) as [->|Hne]; [apply N.bits_0|].
  apply N.bits_above_log2. apply N.log2_lt_pow2; [lia|].
  eapply N.lt_le_trans; [exact H|]. apply N.pow_le_mono_r; lia.
Qed.

Lemma in_range_popcount b cap : in_range b cap -> popcount b <= cap.
Proof. intros H. apply popcount_le_pow2. now apply in_range_lt. Qed.

Lemma in_range_0 cap : in_range 0 cap.
Proof. intros j _. apply N.bits_0. Qed.

Lemma in_range_setbit b cap i : in_range b cap -> i < cap -> in_range (N.setbit b i) cap.
Proof.
  intros H Hi j Hj. rewrite N.setbit_eqb, (H j Hj).
  destruct (N.eqb_spec i j); [lia|reflexivity].
Qed.

Lemma in_range_lor a b cap : in_range a cap -> in_range b cap -> in_range (N.lor a b) cap.
Proof. intros Ha Hb j Hj. now rewrite N.lor_spec, Ha, Hb. Qed.

Lemma in_range_land a b cap : in_range a cap -> in_range (N.land a b) cap.
Proof. intros Ha j Hj. now rewrite N.land_spec, Ha. Qed.

Lemma ones_spec cap j : N.testbit (N.ones cap) j = (j <? cap).
Proof.
  destruct (N.ltb_spec j cap).
  - now apply N.ones_spec_low.
  - now apply N.ones_spec_high.
Qed.

Lemma in_range_invert b cap : in_range b cap -> in_range (N.lxor b (N.ones cap)) cap.
Proof.
  intros Hb j Hj. rewrite N.lxor_spec, Hb, ones_spec by assumption.
  destruct (N.ltb_spec j cap); [lia|reflexivity].
Qed.

(* ------------------------------------------------------------------ *)
(* set_bits / all_set / the query_and_update loop                       *)
(* ------------------------------------------------------------------ *)

Lemma set_bits_testbit l : forall b j,
  N.testbit (set_bits b l) j = N.testbit b j || existsb (N.eqb j) l.
Proof.
  unfold set_bits. induction l as [|i t IH]; intros b j; cbn [fold_left existsb].
  - now rewrite orb_false_r.
  - rewrite IH, N.setbit_eqb, (N.eqb_sym i j).
    destruct (j =? i), (N.testbit b j); reflexivity.
Qed.

Lemma set_bits_mono b l j : N.testbit b j = true -> N.testbit (set_bits b l) j = true.
Proof. intros H. now rewrite set_bits_testbit, H. Qed.

Lemma existsb_eqb_In j l : In j l -> existsb (N.eqb j) l = true.
Proof. intros H. apply existsb_exists. exists j. split; [assumption|apply N.eqb_refl]. Qed.

Lemma all_set_spec b l : all_set b l = true <-> (forall i, In i l -> N.testbit b i = true).
Proof. unfold all_set. apply forallb_forall. Qed.

Lemma all_set_set_bits b l : all_set (set_bits b l) l = true.
Proof.
  apply all_set_spec. intros i Hi. rewrite set_bits_testbit, (existsb_eqb_In _ _ Hi). apply orb_true_r.
Qed.

Lemma all_set_mono b b' l :
  (forall j, N.testbit b j = true -> N.testbit b' j = true) -> all_set b l = true -> all_set b' l = true.
Proof. rewrite !all_set_spec. intros Hm H i Hi. apply Hm, H, Hi. Qed.

Lemma in_range_set_bits cap l : forall b,
  in_range b cap -> (forall i, In i l -> i < cap) -> in_range (set_bits b l) cap.
Proof.
  unfold set_bits. induction l as [|i t IH]; intros b Hb Hl; cbn [fold_left]; [assumption|].
  apply IH.
  - apply in_range_setbit; [assumption|]. apply Hl. now left.
  - intros k Hk. apply Hl. now right.
Qed.

Lemma set_bits_nonzero b l : l <> [] -> set_bits b l <> 0.
Proof.
  intros Hl E. destruct l as [|i t]; [congruence|].
  pose proof (all_set_set_bits b (i :: t)) as H. rewrite E in H.
  rewrite all_set_spec in H. specialize (H i (or_introl eq_refl)). now rewrite N.bits_0 in H.
Qed.

Lemma setbit_same b i : N.testbit b i = true -> N.setbit b i = b.
Proof.
  intros H. apply N.bits_inj. intros j. rewrite N.setbit_eqb.
  destruct (N.eqb_spec i j); [subst; now rewrite H|reflexivity].
Qed.

Lemma w64_idem x : w64 (w64 x) = w64 x.
Proof. rewrite !w64_mod. apply N.mod_mod. discriminate. Qed.

Lemma w64_add_l a b : w64 (w64 a + b) = w64 (a + b).
Proof. rewrite !w64_mod. rewrite N.add_mod_idemp_l; [reflexivity|discriminate]. Qed.

Lemma w64_small x : x < two64 -> w64 x = x.
Proof. intros H. rewrite w64_mod. now apply N.mod_small. Qed.

Lemma mod_succ_cancel a b T : a < T -> b < T -> (a + 1) mod T = (b + 1) mod T -> a = b.
Proof.
  intros Ha Hb E. assert (HT : T <> 0) by lia.
  destruct (N.eq_dec (a + 1) T) as [E1|E1], (N.eq_dec (b + 1) T) as [E2|E2].
  - lia.
  - rewrite E1, (N.mod_same T HT), (N.mod_small (b + 1) T) in E by lia. lia.
  - rewrite E2, (N.mod_same T HT), (N.mod_small (a + 1) T) in E by lia. lia.
  - rewrite (N.mod_small (a + 1) T), (N.mod_small (b + 1) T) in E by lia. lia.
Qed.

(* the loop sets exactly the index bits, reports whether all of them were set before, and adds the number of newly set bits
   to the count (mod 2^64) *)
Lemma qau_loop_spec l : forall bits cnt ex,
  let '(b', c', e') := qau_loop l bits cnt ex in
  b' = set_bits bits l /\ e' = ex && all_set bits l /\
  w64 (c' + popcount bits) = w64 (cnt + popcount b') /\ (l <> [] -> c' < two64).
Proof.
  induction l as [|i t IH]; intros bits cnt ex; cbn [qau_loop].
  - cbn. rewrite andb_true_r. repeat split; congruence.
  - specialize (IH (N.setbit bits i) (w64 (cnt + (if N.testbit bits i then 0 else 1))) (ex && N.testbit bits i)).
    destruct (qau_loop t (N.setbit bits i) (w64 (cnt + (if N.testbit bits i then 0 else 1))) (ex && N.testbit bits i))
      as [[b' c'] e'] eqn:Eq.
    destruct IH as (Hb & He & Hc & Hlt).
    split; [exact Hb|]. split; [|split].
    + rewrite He. cbn [all_set forallb]. fold (all_set bits t). fold (all_set (N.setbit bits i) t).
      destruct (N.testbit bits i) eqn:Ht.
      * rewrite (setbit_same _ _ Ht). now rewrite andb_true_r, andb_true_l.
      * destruct ex; reflexivity.
    + rewrite popcount_setbit in Hc.
      (* c' + (pc + d) == (cnt + d) + pc'  =>  c' + pc == cnt + pc' *)
      rewrite w64_add_l in Hc. rewrite !w64_mod in *.
      set (d := if N.testbit bits i then 0 else 1) in *.
      assert (E : (c' + popcount bits + d) mod two64 = (cnt + popcount b' + d) mod two64).
      { replace (c' + popcount bits + d) with (c' + (popcount bits + d)) by lia.
        replace (cnt + popcount b' + d) with (cnt + d + popcount b') by lia. exact Hc. }
      destruct (N.testbit bits i); subst d; [now rewrite !N.add_0_r in E|].
      (* cancel +1 modulo 2^64 *)
      assert (two64 <> 0) by discriminate.
      set (x := c' + popcount bits) in *. set (y := cnt + popcount b') in *.
      pose proof (N.mod_lt x two64 H). pose proof (N.mod_lt y two64 H).
      rewrite <- (N.add_mod_idemp_l x 1), <- (N.add_mod_idemp_l y 1) in E by assumption.
      now apply (mod_succ_cancel _ _ two64).
    + intros _. destruct t as [|i' t'].
      * cbn [qau_loop] in Eq. injection Eq as _ <- _. apply w64_lt.
      * apply Hlt. discriminate.
Qed.

(* ------------------------------------------------------------------ *)
(* one filter object under arbitrary operation histories                *)
(* ------------------------------------------------------------------ *)

(* The object as the code sees it: the cached fields [s_f], the bit array it addresses [s_bits] (owned, or inside wrapped
   memory) and the count stored at byte 24 of the wrapped memory [s_mcnt] (meaningless for owned filters). *)
Record cst := mkS { s_f : filt; s_bits : N; s_mcnt : N }.

Inductive fop :=
| FUpdate (x : item) | FQau (x : item)
| FUnion (o : N) | FIntersect (o : N) | FInvert | FReset | FBitsUsed.

Definition apply_eff (s : cst) (e : eff) : cst :=
  mkS (x_f e) (x_bits e) (match x_memw e with Some c => c | None => s_mcnt s end).

Section Object.
  Variable fx : bool.                 (* false = the code as it is, true = with the proposed repairs *)
  Variable idx : item -> list N.      (* ANY index function (in the model: the double-hashing indices of ANY hash function) *)

  Definition fstep (s : cst) (op : fop) : cst :=
    match op with
    | FUpdate x => match core_update fx (s_f s) (s_bits s) (idx x) with Some e => apply_eff s e | None => s end
    | FQau x => match core_qau fx (s_f s) (s_bits s) (idx x) with Some (e, _) => apply_eff s e | None => s end
    | FUnion o => match core_union fx (s_f s) (s_bits s) o with Some e => apply_eff s e | None => s end
    | FIntersect o => match core_intersect fx (s_f s) (s_bits s) o with Some e => apply_eff s e | None => s end
    | FInvert => match core_invert fx (s_f s) (s_bits s) with Some e => apply_eff s e | None => s end
    | FReset => match core_reset (s_f s) with Some e => apply_eff s e | None => s end
    | FBitsUsed => mkS (core_bits_used (s_f s) (s_bits s)) (s_bits s) (s_mcnt s)
    end.

  Definition frun (ops : list fop) (s : cst) : cst := fold_left fstep ops s.

  Definition squery (s : cst) (x : item) : bool := core_query (s_f s) (s_bits s) (idx x).

  Definition monotone (op : fop) : Prop :=
    match op with FIntersect _ | FInvert | FReset => False | _ => True end.
  Definition inserts (op : fop) (x : item) : Prop := op = FUpdate x \/ op = FQau x.

  (* ---- what every operation does to the bit array and to the fixed fields ---- *)

  Lemma qau_loop_bits l bits cnt ex : fst (fst (qau_loop l bits cnt ex)) = set_bits bits l.
  Proof. pose proof (qau_loop_spec l bits cnt ex) as H. destruct (qau_loop l bits cnt ex) as [[b c] e]. apply H. Qed.

  Lemma core_qau_bits f bits l e ex :
    core_qau fx f bits l = Some (e, ex) -> x_bits e = set_bits bits l /\ ex = all_set bits l.
  Proof.
    unfold core_qau. destruct (f_ro f); [discriminate|].
    pose proof (qau_loop_spec l bits (f_cnt f) true) as H.
    destruct (qau_loop l bits (f_cnt f) true) as [[b c] e0]. destruct H as (Hb & He & _).
    destruct l as [|i t].
    - intros [= <- <-]. cbn. split; [reflexivity|]. now rewrite He.
    - destruct (fx && f_dirty f); intros [= <- <-]; cbn [x_bits upd_cnt]; (split; [exact Hb|now rewrite He]).
  Qed.

  Definition fixed_fields (f g : filt) : Prop :=
    f_seed g = f_seed f /\ f_nh g = f_nh f /\ f_cap g = f_cap f /\ f_ro g = f_ro f /\ f_mem g = f_mem f.

  Lemma fixed_refl f : fixed_fields f f.
  Proof. repeat split. Qed.

  Lemma fixed_cache f d c : fixed_fields f (f_cache f d c).
  Proof. repeat split. Qed.

  Lemma fstep_fixed s op : fixed_fields (s_f s) (s_f (fstep s op)).
  Proof.
    destruct op; cbn [fstep].
    - unfold core_update. destruct (f_ro (s_f s)); [apply fixed_refl|apply fixed_cache].
    - unfold core_qau. destruct (f_ro (s_f s)); [apply fixed_refl|].
      destruct (qau_loop (idx x) (s_bits s) (f_cnt (s_f s)) true) as [[b c] e].
      destruct (idx x); [apply fixed_refl|]. destruct (fx && f_dirty (s_f s)); [apply fixed_refl|apply fixed_cache].
    - unfold core_union. destruct (fx && f_ro (s_f s)); [apply fixed_refl|apply fixed_cache].
    - unfold core_intersect. destruct (fx && f_ro (s_f s)); [apply fixed_refl|apply fixed_cache].
    - unfold core_invert. destruct (fx && f_ro (s_f s)); [apply fixed_refl|apply fixed_cache].
    - unfold core_reset. destruct (f_ro (s_f s)); [apply fixed_refl|apply fixed_cache].
    - unfold core_bits_used. cbn. destruct (f_dirty (s_f s)); [apply fixed_cache|apply fixed_refl].
  Qed.

  Lemma frun_fixed ops : forall s, fixed_fields (s_f s) (s_f (frun ops s)).
  Proof.
    induction ops as [|op t IH]; intros s; [apply fixed_refl|].
    change (frun (op :: t) s) with (frun t (fstep s op)).
    destruct (fstep_fixed s op) as (A & B & C & D & E), (IH (fstep s op)) as (A' & B' & C' & D' & E').
    unfold fixed_fields. rewrite A', B', C', D', E'. now repeat split.
  Qed.

  Lemma fstep_bits s op :
    s_bits (fstep s op) =
    match op with
    | FUpdate x | FQau x => if f_ro (s_f s) then s_bits s else set_bits (s_bits s) (idx x)
    | FUnion o => if fx && f_ro (s_f s) then s_bits s else N.lor (s_bits s) o
    | FIntersect o => if fx && f_ro (s_f s) then s_bits s else N.land (s_bits s) o
    | FInvert => if fx && f_ro (s_f s) then s_bits s else N.lxor (s_bits s) (N.ones (f_cap (s_f s)))
    | FReset => if f_ro (s_f s) then s_bits s else 0
    | FBitsUsed => s_bits s
    end.
  Proof.
    destruct op; cbn [fstep].
    - unfold core_update. now destruct (f_ro (s_f s)).
    - destruct (core_qau fx (s_f s) (s_bits s) (idx x)) as [[e ex]|] eqn:E.
      + destruct (core_qau_bits _ _ _ _ _ E) as [Hb _]. unfold core_qau in E.
        destruct (f_ro (s_f s)); [discriminate|]. exact Hb.
      + unfold core_qau in E. destruct (f_ro (s_f s)); [reflexivity|].
        destruct (qau_loop (idx x) (s_bits s) (f_cnt (s_f s)) true) as [[b c] e].
        destruct (idx x); [discriminate|]. destruct (fx && f_dirty (s_f s)); discriminate.
    - unfold core_union. now destruct (fx && f_ro (s_f s)).
    - unfold core_intersect. now destruct (fx && f_ro (s_f s)).
    - unfold core_invert. now destruct (fx && f_ro (s_f s)).
    - unfold core_reset. now destruct (f_ro (s_f s)).
    - reflexivity.
  Qed.

  (* ---- no false negatives at the level of the bit array: ANY history, ANY start state, both variants ---- *)

  Lemma fstep_mono s op j :
    monotone op -> N.testbit (s_bits s) j = true -> N.testbit (s_bits (fstep s op)) j = true.
  Proof.
    intros Hm Hj. rewrite fstep_bits. destruct op; cbn in Hm; try contradiction.
    - destruct (f_ro (s_f s)); [assumption|now apply set_bits_mono].
    - destruct (f_ro (s_f s)); [assumption|now apply set_bits_mono].
    - destruct (fx && f_ro (s_f s)); [assumption|]. now rewrite N.lor_spec, Hj.
    - assumption.
  Qed.

  Lemma frun_mono ops : forall s j,
    Forall monotone ops -> N.testbit (s_bits s) j = true -> N.testbit (s_bits (frun ops s)) j = true.
  Proof.
    induction ops as [|op t IH]; intros s j Hf Hj; cbn; [assumption|].
    inversion Hf; subst. apply IH; [assumption|]. now apply fstep_mono.
  Qed.

  Lemma insert_sets s op x :
    inserts op x -> f_ro (s_f s) = false -> all_set (s_bits (fstep s op)) (idx x) = true.
  Proof.
    intros [->| ->] Hro; rewrite fstep_bits, Hro; apply all_set_set_bits.
  Qed.

  Lemma frun_app a b s : frun (a ++ b) s = frun b (frun a s).
  Proof. unfold frun. apply fold_left_app. Qed.

  Theorem nfn_bits s pre ins post x :
    f_ro (s_f s) = false -> inserts ins x -> Forall monotone post ->
    all_set (s_bits (frun (pre ++ ins :: post) s)) (idx x) = true.
  Proof.
    intros Hro Hins Hpost. rewrite frun_app. cbn [frun fold_left]. fold (frun post (fstep (frun pre s) ins)).
    apply all_set_spec. intros i Hi. apply frun_mono; [assumption|].
    assert (Hro' : f_ro (s_f (frun pre s)) = false).
    { destruct (frun_fixed pre s) as (_ & _ & _ & D & _). congruence. }
    pose proof (insert_sets (frun pre s) ins x Hins Hro') as H.
    rewrite all_set_spec in H. now apply H.
  Qed.

  (* query answers "absent" for an item whose bits are all set ONLY through the is_empty short-circuit *)
  Lemma squery_spec s x : squery s x = negb (is_empty (s_f s)) && all_set (s_bits s) (idx x).
  Proof. unfold squery, core_query. now destruct (is_empty (s_f s)). Qed.

  (* ---- the cached count ---- *)
  Variable cap : N.
  Hypothesis cap_lt : cap < two64.
  Hypothesis idx_lt : forall x i, In i (idx x) -> i < cap.

  Definition cache_ok (s : cst) : Prop := f_dirty (s_f s) = true \/ f_cnt (s_f s) = popcount (s_bits s).
  Definition inv (s : cst) : Prop := f_cap (s_f s) = cap /\ in_range (s_bits s) cap /\ cache_ok s.
  Definition op_ok (op : fop) : Prop := match op with FUnion o => in_range o cap | _ => True end.

  (* every query_and_update of the history meets a filter whose dirty flag is clear *)
  Fixpoint qau_clean (s : cst) (ops : list fop) : Prop :=
    match ops with
    | [] => True
    | op :: t => (match op with FQau _ => f_dirty (s_f s) = false | _ => True end) /\ qau_clean (fstep s op) t
    end.

  Lemma popcount_lt_two64 b : in_range b cap -> popcount b < two64.
  Proof. intros H. pose proof (in_range_popcount _ _ H). lia. Qed.

  Lemma qau_cnt_exact l bits cnt b c e :
    (forall i, In i l -> i < cap) -> in_range bits cap -> cnt = popcount bits -> l <> [] ->
    qau_loop l bits cnt true = (b, c, e) -> c = popcount b.
  Proof.
    intros Hl Hr Hc Hne E. pose proof (qau_loop_spec l bits cnt true) as H. rewrite E in H.
    destruct H as (Hb & _ & Hw & Hlt). specialize (Hlt Hne). subst cnt.
    assert (Hrb : in_range b cap) by (subst b; now apply in_range_set_bits).
    pose proof (popcount_lt_two64 _ Hrb) as Hpb.
    rewrite !w64_mod in Hw.
    assert (HT : two64 <> 0) by discriminate.
    (* (c + p) mod T = (p + pb) mod T, c < T, pb < T  =>  c = pb *)
    rewrite (N.add_comm c), <- (N.add_mod_idemp_r (popcount bits) c), <- (N.add_mod_idemp_r (popcount bits) (popcount b)) in Hw
      by assumption.
    rewrite (N.mod_small c), (N.mod_small (popcount b)) in Hw by assumption.
    set (p := popcount bits) in *.
    (* add two64 - p mod T on both sides *)
    assert (Hc : (p + c) mod two64 = (p + popcount b) mod two64 -> c = popcount b).
    { clear Hw. intros Hw.
      pose proof (N.div_mod (p + c) two64 HT) as D1. pose proof (N.div_mod (p + popcount b) two64 HT) as D2.
      pose proof (N.mod_lt (p + c) two64 HT). pose proof (N.mod_lt (p + popcount b) two64 HT).
      rewrite Hw in D1.
      set (q1 := (p + c) / two64) in *. set (q2 := (p + popcount b) / two64) in *.
      set (m := (p + popcount b) mod two64) in *.
      assert (q1 = q2) by nia. nia. }
    now apply Hc.
  Qed.

  Lemma inv_fstep s op :
    inv s -> op_ok op ->
    (fx = true \/ match op with FQau _ => f_dirty (s_f s) = false | _ => True end) ->
    inv (fstep s op).
  Proof.
    intros (Hcap & Hr & Hc) Hop Hsafe.
    split; [|split].
    - destruct (fstep_fixed s op) as (_ & _ & C & _). congruence.
    - rewrite fstep_bits. destruct op.
      + destruct (f_ro (s_f s)); [assumption|]. apply in_range_set_bits; [assumption|apply idx_lt].
      + destruct (f_ro (s_f s)); [assumption|]. apply in_range_set_bits; [assumption|apply idx_lt].
      + destruct (fx && f_ro (s_f s)); [assumption|]. now apply in_range_lor.
      + destruct (fx && f_ro (s_f s)); [assumption|]. now apply in_range_land.
      + destruct (fx && f_ro (s_f s)); [assumption|]. rewrite Hcap. now apply in_range_invert.
      + destruct (f_ro (s_f s)); [assumption|apply in_range_0].
      + assumption.
    - unfold cache_ok in *. destruct op; cbn [fstep].
      + unfold core_update. destruct (f_ro (s_f s)); [exact Hc|]. left. reflexivity.
      + unfold core_qau. destruct (f_ro (s_f s)); [exact Hc|].
        destruct (qau_loop (idx x) (s_bits s) (f_cnt (s_f s)) true) as [[b c] e] eqn:E.
        destruct (idx x) as [|i t] eqn:Ei; [exact Hc|].
        destruct (f_dirty (s_f s)) eqn:Hd.
        * destruct Hsafe as [-> | Hs]; [|discriminate]. cbn [andb apply_eff x_f x_bits]. left. exact Hd.
        * rewrite andb_false_r. cbn [apply_eff upd_cnt x_f x_bits f_cache f_dirty f_cnt]. right.
          destruct Hc as [Hc|Hc]; [discriminate|].
          eapply qau_cnt_exact; [| |exact Hc| |exact E]; try assumption.
          -- rewrite <- Ei. apply idx_lt.
          -- discriminate.
      + unfold core_union. destruct (fx && f_ro (s_f s)); [exact Hc|]. right. reflexivity.
      + unfold core_intersect. destruct (fx && f_ro (s_f s)); [exact Hc|]. right. reflexivity.
      + unfold core_invert. destruct (fx && f_ro (s_f s)); [exact Hc|]. right. reflexivity.
      + unfold core_reset. destruct (f_ro (s_f s)); [exact Hc|]. right. reflexivity.
      + unfold core_bits_used. cbn [s_f s_bits]. destruct (f_dirty (s_f s)) eqn:Hd.
        * right. reflexivity.
        * rewrite Hd. exact Hc.
  Qed.

  Lemma inv_frun ops : forall s,
    inv s -> Forall op_ok ops -> (fx = true \/ qau_clean s ops) -> inv (frun ops s).
  Proof.
    induction ops as [|op t IH]; intros s Hi Hok Hs; cbn; [assumption|].
    inversion Hok; subst. apply IH; [|assumption|].
    - apply inv_fstep; [assumption|assumption|]. destruct Hs as [Hs|[Hs _]]; [now left|now right].
    - destruct Hs as [Hs|[_ Hs]]; [now left|now right].
  Qed.

  (* with a sound cache, the is_empty short-circuit is harmless *)
  Lemma inv_query s x :
    inv s -> idx x <> [] -> all_set (s_bits s) (idx x) = true -> squery s x = true.
  Proof.
    intros (_ & _ & Hc) Hne Hall. rewrite squery_spec, Hall, andb_true_r.
    unfold is_empty. destruct (f_dirty (s_f s)) eqn:Hd; [reflexivity|]. cbn.
    destruct Hc as [Hc|Hc]; [congruence|].
    destruct (N.eqb_spec (f_cnt (s_f s)) 0) as [E|]; [|reflexivity]. exfalso.
    rewrite Hc in E. apply (proj1 (popcount_zero _)) in E.
    destruct (idx x) as [|i t]; [congruence|].
    rewrite all_set_spec in Hall. specialize (Hall i (or_introl eq_refl)). rewrite E, N.bits_0 in Hall. discriminate.
  Qed.

  (* no false negatives of query(): the repaired model for EVERY history; the code as it is for every history in which
     query_and_update never meets a dirty filter *)
  Theorem nfn_query s pre ins post x :
    inv s -> f_ro (s_f s) = false -> idx x <> [] ->
    inserts ins x -> Forall monotone post -> Forall op_ok (pre ++ ins :: post) ->
    (fx = true \/ qau_clean s (pre ++ ins :: post)) ->
    squery (frun (pre ++ ins :: post) s) x = true.
  Proof.
    intros Hi Hro Hne Hins Hpost Hok Hs.
    apply inv_query; [now apply inv_frun|assumption|now apply nfn_bits].
  Qed.

  (* exact count after any history (same side condition) *)
  Theorem bits_used_exact s ops :
    inv s -> Forall op_ok ops -> (fx = true \/ qau_clean s ops) ->
    f_cnt (s_f (fstep (frun ops s) FBitsUsed)) = popcount (s_bits (frun ops s)).
  Proof.
    intros Hi Hok Hs. destruct (inv_frun ops s Hi Hok Hs) as (_ & _ & Hc).
    cbn [fstep s_f]. unfold core_bits_used. destruct (f_dirty (s_f (frun ops s))) eqn:Hd; [reflexivity|].
    destruct Hc as [Hc|Hc]; [congruence|exact Hc].
  Qed.

  (* ---- the count stored in wrapped memory (writable view) ---- *)

  Definition is_wview (s : cst) : Prop := f_mem (s_f s) <> None /\ f_ro (s_f s) = false.
  (* the stored count is the dirty marker or exact; a dirty view has announced it in memory *)
  Definition minv (s : cst) : Prop :=
    (s_mcnt s = DIRTY \/ s_mcnt s = popcount (s_bits s)) /\ (f_dirty (s_f s) = true -> s_mcnt s = DIRTY).

  Lemma memw_wview f c : f_mem f <> None -> f_ro f = false -> memw_of f c = Some c.
  Proof. unfold memw_of. intros Hm ->. destruct (f_mem f); congruence. Qed.

  (* repaired model: every operation keeps the memory image consistent *)
  Lemma minv_fstep_fixed s op :
    fx = true -> is_wview s -> inv s -> op_ok op -> minv s -> minv (fstep s op).
  Proof.
    intros Hfx (Hm & Hro) Hi Hop (Hmc & Hd).
    pose proof (inv_fstep s op Hi Hop (or_introl Hfx)) as (_ & _ & Hc').
    unfold minv. destruct op; cbn [fstep] in *.
    - unfold core_update in *. rewrite Hro, Hfx in *. cbn [apply_eff x_memw x_f x_bits s_mcnt s_f s_bits].
      rewrite (memw_wview _ _ Hm Hro). split; [now left|reflexivity].
    - unfold core_qau in *. rewrite Hro, Hfx in *.
      destruct (qau_loop (idx x) (s_bits s) (f_cnt (s_f s)) true) as [[b c] e] eqn:E.
      destruct (idx x) as [|i t] eqn:Ei; [now split|].
      cbn [andb] in *. destruct (f_dirty (s_f s)) eqn:Hdd.
      + cbn [apply_eff x_memw x_f x_bits s_mcnt s_f s_bits]. rewrite Hdd.
        split; [left; now apply Hd|intros _; now apply Hd].
      + cbn [apply_eff upd_cnt x_memw x_f x_bits s_mcnt s_f s_bits f_cache f_dirty f_cnt] in *.
        rewrite (memw_wview _ _ Hm Hro). destruct Hc' as [Hc'|Hc']; [discriminate|].
        split; [now right|discriminate].
    - unfold core_union in *. rewrite Hro, Hfx in *.
      cbn [andb apply_eff upd_cnt x_memw x_f x_bits s_mcnt s_f s_bits f_cache f_dirty].
      rewrite (memw_wview _ _ Hm Hro). split; [now right|discriminate].
    - unfold core_intersect in *. rewrite Hro, Hfx in *.
      cbn [andb apply_eff upd_cnt x_memw x_f x_bits s_mcnt s_f s_bits f_cache f_dirty].
      rewrite (memw_wview _ _ Hm Hro). split; [now right|discriminate].
    - unfold core_invert in *. rewrite Hro, Hfx in *.
      cbn [andb apply_eff upd_cnt x_memw x_f x_bits s_mcnt s_f s_bits f_cache f_dirty].
      rewrite (memw_wview _ _ Hm Hro). split; [now right|discriminate].
    - unfold core_reset in *. rewrite Hro in *.
      cbn [apply_eff upd_cnt x_memw x_f x_bits s_mcnt s_f s_bits f_cache f_dirty].
      rewrite (memw_wview _ _ Hm Hro). split; [now right|discriminate].
    - cbn [s_mcnt s_bits s_f]. split; [exact Hmc|]. unfold core_bits_used.
      destruct (f_dirty (s_f s)) eqn:Hdd; [discriminate|]. rewrite Hdd. discriminate.
  Qed.

  Lemma is_wview_fstep s op : is_wview s -> is_wview (fstep s op).
  Proof.
    intros (Hm & Hro). destruct (fstep_fixed s op) as (_ & _ & _ & D & E). split; congruence.
  Qed.

  Lemma minv_frun_fixed ops : forall s,
    fx = true -> is_wview s -> inv s -> Forall op_ok ops -> minv s -> minv (frun ops s).
  Proof.
    induction ops as [|op t IH]; intros s Hfx Hw Hi Hok Hm; cbn; [assumption|].
    inversion Hok; subst. apply IH; try assumption.
    - now apply is_wview_fstep.
    - apply inv_fstep; [assumption|assumption|now left].
    - now apply minv_fstep_fixed.
  Qed.

  (* the code as it is: the image stays consistent as long as the view is never written by plain update()
     (query_and_update, set operations, reset and get_bits_used keep the stored count exact) *)
  Definition no_update (op : fop) : Prop := match op with FUpdate _ => False | _ => True end.
  Definition exact (s : cst) : Prop :=
    f_dirty (s_f s) = false /\ f_cnt (s_f s) = popcount (s_bits s) /\ s_mcnt s = popcount (s_bits s).

  Lemma exact_fstep s op :
    is_wview s -> inv s -> op_ok op -> no_update op -> exact s -> exact (fstep s op).
  Proof.
    intros (Hm & Hro) Hi Hop Hnu (Hd & Hc & Hmc).
    assert (Hsafe : fx = true \/ match op with FQau _ => f_dirty (s_f s) = false | _ => True end).
    { right. destruct op; auto. }
    pose proof (inv_fstep s op Hi Hop Hsafe) as (_ & _ & Hc').
    unfold exact. destruct op; cbn [fstep] in *; try contradiction.
    - unfold core_qau in *. rewrite Hro in *.
      destruct (qau_loop (idx x) (s_bits s) (f_cnt (s_f s)) true) as [[b c] e] eqn:E.
      destruct (idx x) as [|i t] eqn:Ei; [now repeat split|].
      rewrite Hd, andb_false_r in *.
      cbn [apply_eff upd_cnt x_memw x_f x_bits s_mcnt s_f s_bits f_cache f_dirty f_cnt] in *.
      rewrite (memw_wview _ _ Hm Hro). destruct Hc' as [Hc'|Hc']; [discriminate|]. now repeat split.
    - unfold core_union in *. rewrite Hro, andb_false_r in *.
      cbn [apply_eff upd_cnt x_memw x_f x_bits s_mcnt s_f s_bits f_cache f_dirty f_cnt].
      rewrite (memw_wview _ _ Hm Hro). now repeat split.
    - unfold core_intersect in *. rewrite Hro, andb_false_r in *.
      cbn [apply_eff upd_cnt x_memw x_f x_bits s_mcnt s_f s_bits f_cache f_dirty f_cnt].
      rewrite (memw_wview _ _ Hm Hro). now repeat split.
    - unfold core_invert in *. rewrite Hro, andb_false_r in *.
      cbn [apply_eff upd_cnt x_memw x_f x_bits s_mcnt s_f s_bits f_cache f_dirty f_cnt].
      rewrite (memw_wview _ _ Hm Hro). now repeat split.
    - unfold core_reset in *. rewrite Hro in *.
      cbn [apply_eff upd_cnt x_memw x_f x_bits s_mcnt s_f s_bits f_cache f_dirty f_cnt].
      rewrite (memw_wview _ _ Hm Hro). now repeat split.
    - unfold core_bits_used. cbn [s_f s_bits s_mcnt]. rewrite Hd. now repeat split.
  Qed.

  Lemma exact_inv_frun ops : forall s,
    is_wview s -> inv s -> Forall op_ok ops -> Forall no_update ops -> exact s ->
    exact (frun ops s) /\ inv (frun ops s).
  Proof.
    induction ops as [|op t IH]; intros s Hw Hi Hok Hnu He; cbn; [now split|].
    inversion Hok; inversion Hnu; subst. apply IH; try assumption.
    - now apply is_wview_fstep.
    - apply inv_fstep; [assumption|assumption|]. right. destruct op; auto. apply He.
    - now apply exact_fstep.
  Qed.

  (* ---- fresh views of the memory: what wrap / writable_wrap / deserialize build from the stored count ---- *)

  Definition wrap_view (s : cst) (ro : bool) : cst :=
    let f := s_f s in let d := N.eqb (s_mcnt s) DIRTY in
    mkS (mkF (f_seed f) (f_nh f) (f_cap f) d ro (if ro && d then popcount (s_bits s) else s_mcnt s) (f_mem f) 0)
        (s_bits s) (s_mcnt s).
  Definition deser_view (s : cst) : cst :=
    let f := s_f s in
    mkS (mkF (f_seed f) (f_nh f) (f_cap f) (N.eqb (s_mcnt s) DIRTY) false (s_mcnt s) None (s_bits s)) (s_bits s) (s_mcnt s).

  Lemma fresh_view_inv s ro :
    inv s -> (s_mcnt s = DIRTY \/ s_mcnt s = popcount (s_bits s)) -> inv (wrap_view s ro) /\ inv (deser_view s).
  Proof.
    intros (Hcap & Hr & _) Hm. unfold inv, cache_ok, wrap_view, deser_view. cbn.
    destruct (N.eqb_spec (s_mcnt s) DIRTY) as [E|E].
    - repeat split; auto.
    - destruct Hm as [Hm|Hm]; [contradiction|]. rewrite andb_false_r. repeat split; auto.
  Qed.
End Object.

(* ------------------------------------------------------------------ *)
(* set algebra, query_and_update, refusals (single operations)          *)
(* ------------------------------------------------------------------ *)

Lemma union_is_or fx f bits o e :
  core_union fx f bits o = Some e ->
  x_bits e = N.lor bits o /\ f_cnt (x_f e) = popcount (N.lor bits o) /\ f_dirty (x_f e) = false /\
  x_memw e = memw_of f (popcount (N.lor bits o)).
Proof. unfold core_union. destruct (fx && f_ro f); [discriminate|]. intros [= <-]. now cbn. Qed.

Lemma intersect_is_and fx f bits o e :
  core_intersect fx f bits o = Some e ->
  x_bits e = N.land bits o /\ f_cnt (x_f e) = popcount (N.land bits o) /\ f_dirty (x_f e) = false /\
  x_memw e = memw_of f (popcount (N.land bits o)).
Proof. unfold core_intersect. destruct (fx && f_ro f); [discriminate|]. intros [= <-]. now cbn. Qed.

(* NOT restricted to the capacity: bits below the capacity are flipped, nothing above it appears *)
Lemma invert_is_not fx f bits e :
  core_invert fx f bits = Some e ->
  (forall j, N.testbit (x_bits e) j = if j <? f_cap f then negb (N.testbit bits j) else N.testbit bits j) /\
  f_cnt (x_f e) = popcount (x_bits e) /\ f_dirty (x_f e) = false /\ x_memw e = memw_of f (popcount (x_bits e)).
Proof.
  unfold core_invert. destruct (fx && f_ro f); [discriminate|]. intros [= <-].
  cbn [x_bits x_f upd_cnt f_cache f_cnt f_dirty x_memw]. repeat split.
  intros j. rewrite N.lxor_spec, ones_spec. destruct (j <? f_cap f); [apply xorb_true_r|apply xorb_false_r].
Qed.

Lemma reset_clears f e : core_reset f = Some e -> x_bits e = 0 /\ f_cnt (x_f e) = 0 /\ f_dirty (x_f e) = false.
Proof. unfold core_reset. destruct (f_ro f); [discriminate|]. intros [= <-]. now cbn. Qed.

(* query_and_update returns exactly whether all index bits were set before the call, and sets them *)
Lemma qau_prior_membership fx f bits l e ex :
  core_qau fx f bits l = Some (e, ex) -> ex = all_set bits l /\ x_bits e = set_bits bits l.
Proof. intros H. destruct (core_qau_bits fx f bits l e ex H). now split. Qed.

Lemma readonly_refusals fx f bits l :
  f_ro f = true -> core_update fx f bits l = None /\ core_qau fx f bits l = None /\ core_reset f = None.
Proof. intros H. unfold core_update, core_qau, core_reset. now rewrite H. Qed.

Lemma readonly_setops_refused_fixed f bits o :
  f_ro f = true ->
  core_union true f bits o = None /\ core_intersect true f bits o = None /\ core_invert true f bits = None.
Proof. intros H. unfold core_union, core_intersect, core_invert. now rewrite H. Qed.

(* ... but not in the code as it is *)
Lemma readonly_setops_not_refused f bits o :
  core_union false f bits o <> None /\ core_intersect false f bits o <> None /\ core_invert false f bits <> None.
Proof. unfold core_union, core_intersect, core_invert. cbn. repeat split; discriminate. Qed.

(* ------------------------------------------------------------------ *)
(* the double-hashing indices of ANY hash function                      *)
(* ------------------------------------------------------------------ *)

Lemma bf_index_lt cap h0 h1 i : cap <> 0 -> bf_index cap h0 h1 i < cap.
Proof. intros H. unfold bf_index. now apply N.mod_lt. Qed.

Lemma bf_indices_lt cap nh h0 h1 i : cap <> 0 -> In i (bf_indices cap nh h0 h1) -> i < cap.
Proof.
  intros H Hi. unfold bf_indices in Hi. apply in_map_iff in Hi. destruct Hi as (k & <- & _). now apply bf_index_lt.
Qed.

Lemma bf_indices_length cap nh h0 h1 : length (bf_indices cap nh h0 h1) = N.to_nat nh.
Proof. unfold bf_indices. now rewrite map_length, seq_length. Qed.

Lemma bf_indices_nonempty cap nh h0 h1 : nh <> 0 -> bf_indices cap nh h0 h1 <> [].
Proof.
  intros H E. apply (f_equal (@length N)) in E. rewrite bf_indices_length in E. cbn in E. lia.
Qed.

Lemma round_cap_spec nbits : nbits + 63 < two64 -> round_cap nbits = 64 * ((nbits + 63) / 64).
Proof.
  intros H. unfold round_cap. rewrite (w64_small _ H).
  change 0xFFFFFFFFFFFFFFC0 with (N.shiftl (N.ones 58) 6).
  apply N.bits_inj. intros j.
  rewrite N.land_spec. replace (64 * ((nbits + 63) / 64)) with (N.shiftl (N.shiftr (nbits + 63) 6) 6).
  2:{ rewrite N.shiftl_mul_pow2, N.shiftr_div_pow2. change (2 ^ 6) with 64. lia. }
  destruct (N.lt_ge_cases j 6).
  - rewrite !N.shiftl_spec_low by assumption. apply andb_false_r.
  - rewrite !N.shiftl_spec_high' by assumption. rewrite N.shiftr_spec', ones_spec.
    replace (j - 6 + 6) with j by lia.
    destruct (N.ltb_spec (j - 6) 58); [apply andb_true_r|].
    rewrite andb_false_r. symmetry. apply N.bits_above_log2.
    destruct (N.eq_dec (nbits + 63) 0) as [E|E]; [lia|].
    apply N.log2_lt_pow2; [lia|]. eapply N.lt_le_trans; [exact H|].
    change two64 with (2 ^ 64). apply N.pow_le_mono_r; lia.
Qed.

Lemma round_cap_props nbits :
  nbits + 63 < two64 -> nbits <= round_cap nbits /\ round_cap nbits < nbits + 64 /\ round_cap nbits mod 64 = 0.
Proof.
  intros H. rewrite (round_cap_spec _ H).
  pose proof (N.div_mod (nbits + 63) 64 ltac:(discriminate)) as D.
  pose proof (N.mod_lt (nbits + 63) 64 ltac:(discriminate)) as L.
  set (q := (nbits + 63) / 64) in *. set (m := (nbits + 63) mod 64) in *.
  split; [lia|]. split; [lia|].
  rewrite N.mul_comm. apply N.mod_mul. discriminate.
Qed.

(* ------------------------------------------------------------------ *)
(* every view of the state (repaired model)                             *)
(* ------------------------------------------------------------------ *)

(* what serialize() stores at byte 24 *)
Definition ser_cnt (f : filt) : N := if f_dirty f then DIRTY else f_cnt f.
(* the (non-empty) serialized image of an object, as an abstract memory: same fixed fields, bit array, stored count *)
Definition ser_img (s : cst) : cst := mkS (s_f s) (s_bits s) (ser_cnt (s_f s)).

Section Views.
  Variable idx : item -> list N.      (* ANY index function *)
  Variable cap : N.
  Hypothesis cap_lt : cap < two64.
  Hypothesis idx_lt : forall x i, In i (idx x) -> i < cap.

  Notation frunT := (frun true idx).
  Notation squeryI := (squery idx).

  (* The views the property text lists.  [s] is the state the history has produced. *)
  Inductive view_of (s : cst) : cst -> Prop :=
  | V_copy s' : s_f s' = s_f s -> s_bits s' = s_bits s -> view_of s s'
      (* the filter itself, its copy / move (same cached fields, same bits) *)
  | V_serdes : view_of s (deser_view (ser_img s))
      (* deserialize (serialize s) *)
  | V_serwrap ro : view_of s (wrap_view (ser_img s) ro)
      (* wrap / writable_wrap of a block holding serialize s *)
  | V_memwrap ro : is_wview s -> minv s -> view_of s (wrap_view s ro)
      (* wrap / writable_wrap of the caller memory the filter lives in, at this time *)
  | V_memdes : is_wview s -> minv s -> view_of s (deser_view s)
      (* deserialize of that memory *)
  | V_union t post : inv cap t -> f_ro (s_f t) = false -> Forall monotone post -> Forall (op_ok cap) post ->
      view_of s (frunT (FUnion (s_bits s) :: post) t)
      (* any compatible filter [t] (same index function and capacity, any state) after union_with(s), and after any
         further monotone history *).

  Lemma ser_img_ok s : inv cap s -> s_mcnt (ser_img s) = DIRTY \/ s_mcnt (ser_img s) = popcount (s_bits (ser_img s)).
  Proof.
    intros (_ & _ & Hc). unfold ser_img, ser_cnt. cbn [s_mcnt s_bits s_f].
    destruct (f_dirty (s_f s)) eqn:Hd; [now left|]. right. destruct Hc as [Hc|Hc]; [congruence|exact Hc].
  Qed.

  Lemma inv_ser_img s : inv cap s -> inv cap (ser_img s).
  Proof. intros H. exact H. Qed.

  Lemma view_query s x v :
    inv cap s -> idx x <> [] -> all_set (s_bits s) (idx x) = true -> view_of s v -> squeryI v x = true.
  Proof.
    intros Hi Hne Hall Hv. destruct Hv as [s' Hf Hb | | ro | ro Hw Hm | Hw Hm | t post Ht Hro Hpost Hok].
    - apply (inv_query idx cap); [|assumption|now rewrite Hb].
      destruct Hi as (A & B & C). unfold inv, cache_ok. rewrite Hf, Hb. now repeat split.
    - apply (inv_query idx cap); [|assumption|exact Hall].
      apply (fresh_view_inv cap (ser_img s) false); [exact Hi|now apply ser_img_ok].
    - apply (inv_query idx cap); [|assumption|exact Hall].
      apply (fresh_view_inv cap (ser_img s) ro); [exact Hi|now apply ser_img_ok].
    - apply (inv_query idx cap); [|assumption|exact Hall].
      apply (fresh_view_inv cap s ro); [exact Hi|apply Hm].
    - apply (inv_query idx cap); [|assumption|exact Hall].
      apply (fresh_view_inv cap s false); [exact Hi|apply Hm].
    - apply (inv_query idx cap); [|assumption|].
      + apply (inv_frun true idx cap cap_lt idx_lt); [assumption| |now left].
        constructor; [|assumption]. cbn [op_ok]. apply Hi.
      + change (frunT (FUnion (s_bits s) :: post) t) with (frunT post (fstep true idx t (FUnion (s_bits s)))).
        apply all_set_spec. intros i Hin. apply frun_mono; [assumption|].
        rewrite fstep_bits. rewrite all_set_spec in Hall.
        rewrite Hro. cbn [andb]. rewrite N.lor_spec, (Hall i Hin). apply orb_true_r.
  Qed.

  (* NO FALSE NEGATIVE IN ANY VIEW.  Start from any sound writable state [s0] (e.g. a freshly built filter), run ANY
     history that contains an insertion of [x] (update or query_and_update) followed only by monotone operations
     (no intersect / invert / reset): every view of the resulting state reports [x]. *)
  Theorem nfn_every_view s0 pre ins post x v :
    inv cap s0 -> f_ro (s_f s0) = false -> idx x <> [] ->
    inserts ins x -> Forall monotone post -> Forall (op_ok cap) (pre ++ ins :: post) ->
    view_of (frunT (pre ++ ins :: post) s0) v -> squeryI v x = true.
  Proof.
    intros Hi Hro Hne Hins Hpost Hok Hv.
    eapply view_query; [| |  |exact Hv]; [|assumption|].
    - apply (inv_frun true idx cap cap_lt idx_lt); [assumption|assumption|now left].
    - now apply nfn_bits.
  Qed.

  (* the memory views are available after every history of a writable view of caller memory *)
  Theorem memory_views_available s0 ops :
    is_wview s0 -> inv cap s0 -> minv s0 -> Forall (op_ok cap) ops ->
    is_wview (frunT ops s0) /\ minv (frunT ops s0).
  Proof.
    intros Hw Hi Hm Hok. split.
    - clear Hi Hm Hok. revert s0 Hw. induction ops as [|op t IH]; intros s0 Hw; [assumption|].
      apply IH. now apply is_wview_fstep.
    - now apply (minv_frun_fixed true idx cap cap_lt idx_lt).
  Qed.
End Views.

(* ------------------------------------------------------------------ *)
(* the double-hashing index function of ANY hash function fits the object-level theorems *)
(* ------------------------------------------------------------------ *)

Lemma indices_fixed H f g x :
  f_seed g = f_seed f -> f_nh g = f_nh f -> f_cap g = f_cap f -> indices_of H g x = indices_of H f x.
Proof. unfold indices_of. now intros -> -> ->. Qed.

Lemma compatible_indices H f g x : compatible f g = true -> indices_of H f x = indices_of H g x.
Proof.
  unfold compatible. intros C. apply andb_prop in C. destruct C as [C C3]. apply andb_prop in C. destruct C as [C1 C2].
  apply N.eqb_eq in C1, C2, C3. symmetry. now apply indices_fixed.
Qed.

Lemma indices_lt H f x i : f_cap f <> 0 -> In i (indices_of H f x) -> i < f_cap f.
Proof. unfold indices_of. intros Hc Hi. eapply bf_indices_lt; eassumption. Qed.

Lemma indices_nonempty H f x : f_nh f <> 0 -> indices_of H f x <> [].
Proof. unfold indices_of. intros Hn. now apply bf_indices_nonempty. Qed.

Theorem nfn_every_view_hash (H : list N -> N -> N) s0 pre ins post x v :
  let idx := indices_of H (s_f s0) in
  let cap := f_cap (s_f s0) in
  cap <> 0 -> cap < two64 -> f_nh (s_f s0) <> 0 ->
  inv cap s0 -> f_ro (s_f s0) = false ->
  inserts ins x -> Forall monotone post -> Forall (op_ok cap) (pre ++ ins :: post) ->
  view_of idx cap (frun true idx (pre ++ ins :: post) s0) v -> squery idx v x = true.
Proof.
  intros idx cap Hc0 Hc Hn Hi Hro Hins Hpost Hok Hv.
  eapply (nfn_every_view idx cap Hc); try eassumption.
  - intros y i. now apply indices_lt.
  - now apply indices_nonempty.
Qed.

(* a freshly constructed filter (owned, or over caller memory after the constructor wrote its image) is a sound start state *)
Lemma fresh_inv seed nh cap mem mcnt :
  inv cap (mkS (mkF seed nh cap false false 0 mem 0) 0 mcnt).
Proof. unfold inv, cache_ok. cbn. split; [reflexivity|]. split; [apply in_range_0|now right]. Qed.

Lemma fresh_minv seed nh cap mem : minv (mkS (mkF seed nh cap false false 0 mem 0) 0 0).
Proof. unfold minv. cbn. split; [now right|discriminate]. Qed.

(* ------------------------------------------------------------------ *)
(* refusals at the level of the protocol step (ANY hash function, both variants where they agree) *)
(* ------------------------------------------------------------------ *)

Lemma wstep_union_incompatible fx H w r r2 fe ge :
  reg_get (w_f w) r = Some fe -> reg_get (w_f w) r2 = Some ge -> compatible (e_f fe) (e_f ge) = false ->
  wstep fx H w (OUnion r r2) = (w, (refused, [bz (f_ro (e_f fe)); 1]%Z)) /\
  wstep fx H w (OIntersect r r2) = (w, (refused, [bz (f_ro (e_f fe)); 1]%Z)).
Proof. intros H1 H2 H3. unfold wstep. rewrite H1, H2, H3. now split. Qed.

Lemma wstep_readonly_write_refused fx H w r fe x :
  reg_get (w_f w) r = Some fe -> f_ro (e_f fe) = true -> x <> [] ->
  wstep fx H w (OUpdate r x) = (w, (refused, [1]%Z)) /\
  wstep fx H w (OQau r x) = (w, (refused, [1; 0; 0; 0]%Z)) /\
  wstep fx H w (OReset r) = (w, (refused, [1; 0]%Z)).
Proof.
  intros H1 H2 Hx. unfold wstep. rewrite H1. unfold core_update, core_qau, core_reset. rewrite H2.
  destruct x; [congruence|]. now repeat split.
Qed.

Lemma wstep_readonly_setop_refused H w r r2 fe ge :
  reg_get (w_f w) r = Some fe -> reg_get (w_f w) r2 = Some ge -> f_ro (e_f fe) = true ->
  compatible (e_f fe) (e_f ge) = true ->
  wstep true H w (OUnion r r2) = (w, (refused, [1; 0]%Z)) /\
  wstep true H w (OIntersect r r2) = (w, (refused, [1; 0]%Z)) /\
  wstep true H w (OInvert r) = (w, (refused, [1; 0]%Z)).
Proof.
  intros H1 H2 H3 H4. unfold wstep. rewrite H1, H2, H4. unfold core_union, core_intersect, core_invert. rewrite H3.
  now repeat split.
Qed.

Lemma new_owned_refusals nbits nh seed :
  nh = 0 \/ nbits = 0 \/ MAX_BITS < nbits -> new_owned nbits nh seed = None.
Proof.
  unfold new_owned, ctor_ok. intros [-> | [-> | Hm]].
  - reflexivity.
  - now rewrite andb_false_r.
  - apply N.leb_gt in Hm. rewrite Hm. now rewrite andb_false_r.
Qed.

(* a writable wrap of an EMPTY image is refused *)
Lemma writable_wrap_empty_refused d b :
  (8 <= length d)%nat -> N.land (nth 3 d 0) 4 <> 0 -> wrap_filt d b true = None.
Proof.
  intros Hl Hf. unfold wrap_filt, parse.
  destruct (Nat.ltb_spec (length d) 8); [reflexivity|].
  destruct ((nth 0 d 0 <? 3) || (4 <? nth 0 d 0)); [reflexivity|].
  destruct (negb (nth 1 d 0 =? 1)); [reflexivity|].
  destruct (negb (nth 2 d 0 =? 21)); [reflexivity|].
  destruct (Nat.ltb (length d) (N.to_nat (nth 0 d 0) * 8)); [reflexivity|].
  apply N.eqb_neq in Hf. rewrite Hf. reflexivity.
Qed.

(* ------------------------------------------------------------------ *)
(* the serialized image, byte level: deserialize / wrap of serialize    *)
(* ------------------------------------------------------------------ *)

Lemma length_le_bytes n : forall x, length (N_to_le_bytes n x) = n.
Proof. induction n as [|n IH]; intros x; cbn [N_to_le_bytes length]; [reflexivity|now rewrite IH]. Qed.

Lemma w8_testbit x j : N.testbit (w8 x) j = N.testbit x j && (j <? 8).
Proof.
  unfold w8. change 255 with (N.ones 8). rewrite N.land_spec, ones_spec. reflexivity.
Qed.

Lemma le_of_le_testbit n : forall x j,
  N.testbit (le_bytes_to_N (N_to_le_bytes n x)) j = N.testbit x j && (j <? 8 * N.of_nat n).
Proof.
  induction n as [|n IH]; intros x j; cbn [N_to_le_bytes le_bytes_to_N].
  - rewrite N.bits_0. change (8 * N.of_nat 0) with 0. destruct (N.ltb_spec j 0); [lia|now rewrite andb_false_r].
  - rewrite N.lor_spec, w8_testbit, w8_testbit.
    destruct (N.ltb_spec j 8) as [Hj|Hj].
    + rewrite N.shiftl_spec_low by assumption. rewrite orb_false_r, andb_true_r.
      destruct (N.ltb_spec j (8 * N.of_nat (S n))); [now rewrite andb_true_r|lia].
    + rewrite !andb_false_r, orb_false_l. rewrite N.shiftl_spec_high' by assumption. rewrite IH, N.shiftr_spec'.
      replace (j - 8 + 8) with j by lia. f_equal.
      destruct (N.ltb_spec (j - 8) (8 * N.of_nat n)), (N.ltb_spec j (8 * N.of_nat (S n))); try reflexivity; lia.
Qed.

Lemma le_of_le n x : x < 2 ^ (8 * N.of_nat n) -> le_bytes_to_N (N_to_le_bytes n x) = x.
Proof.
  intros H. apply N.bits_inj. intros j. rewrite le_of_le_testbit.
  destruct (N.ltb_spec j (8 * N.of_nat n)); [apply andb_true_r|].
  rewrite andb_false_r. symmetry. now apply (lt_in_range x (8 * N.of_nat n)).
Qed.

Lemma rd_skip a d off n k : length a = k -> (k <= off)%nat -> rd (a ++ d) off n = rd d (off - k) n.
Proof.
  intros <- Hk. unfold rd. rewrite skipn_app. rewrite (skipn_all2 a) by assumption. reflexivity.
Qed.

Lemma rd_head n v post : rd (N_to_le_bytes n v ++ post) 0 n = le_bytes_to_N (N_to_le_bytes n v).
Proof.
  unfold rd. cbn [skipn]. rewrite firstn_app, length_le_bytes, Nat.sub_diag. cbn [firstn].
  rewrite app_nil_r. rewrite firstn_all2; [reflexivity|]. now rewrite length_le_bytes.
Qed.

(* peel the leading segments of known length off an image *)
Ltac peel :=
  repeat match goal with
  | |- context [rd (?a ++ ?d) ?off ?n] =>
      let k := eval cbn [length N_to_le_bytes] in (length a) in
      lazymatch off with
      | O => fail
      | _ => rewrite (rd_skip a d off n k) by (first [reflexivity | apply length_le_bytes | cbn; lia]); cbn [Nat.sub]
      end
  end.

(* a valid configuration: what the public constructors produce, below 2^32 bits (the deserializer computes the capacity in
   32 bits: num_longs << 6 on uint32_t) *)
Definition cfg_ok (f : filt) : Prop :=
  f_nh f < 2 ^ 16 /\ f_seed f < 2 ^ 64 /\ f_cap f mod 64 = 0 /\ f_cap f <> 0 /\ f_cap f < 2 ^ 32.

Lemma cap_shifts cap : cap mod 64 = 0 -> cap < 2 ^ 32 ->
  N.shiftr cap 6 < 2 ^ 32 /\ w32 (N.shiftl (N.shiftr cap 6) 6) = cap /\
  N.to_nat (w32 (N.shiftl (N.shiftr cap 6) 3)) = cap_bytes cap /\ round_cap cap = cap /\
  (8 * N.of_nat (cap_bytes cap) = cap).
Proof.
  intros Hm Hc. unfold cap_bytes.
  rewrite !N.shiftr_div_pow2, !N.shiftl_mul_pow2, !w32_mod.
  change (2 ^ 6) with 64. change (2 ^ 3) with 8. change two32 with (2 ^ 32) in *.
  pose proof (N.div_mod cap 64 ltac:(discriminate)) as D. rewrite Hm in D.
  set (k := cap / 64) in *.
  assert (Hk : k < 2 ^ 26). { change (2 ^ 32) with (64 * 2 ^ 26) in Hc. lia. }
  assert (E8 : cap / 8 = k * 8).
  { replace cap with ((k * 8) * 8) by lia. now rewrite N.div_mul. }
  change (2 ^ 26) with 67108864 in Hk. change (2 ^ 32) with 4294967296 in *.
  split; [lia|]. split; [rewrite N.mod_small; lia|]. split; [rewrite N.mod_small by lia; now rewrite E8|].
  split.
  - rewrite round_cap_spec by (change two64 with 18446744073709551616; lia).
    replace (cap + 63) with (k * 64 + 63) by lia. rewrite N.div_add_l by discriminate.
    change (63 / 64) with 0. lia.
  - rewrite E8, N2Nat.id. lia.
Qed.

Definition image (f : filt) (c bits : N) : list N :=
  header (f_seed f) (f_nh f) (f_cap f) false ++ N_to_le_bytes 8 c ++ N_to_le_bytes (cap_bytes (f_cap f)) bits.

Lemma serialize_nonempty f bits : is_empty f = false -> serialize f bits = image f (ser_cnt f) bits.
Proof. intros H. unfold serialize, image, ser_cnt. now rewrite H. Qed.

Lemma image_length f c bits : length (image f c bits) = (32 + cap_bytes (f_cap f))%nat.
Proof.
  unfold image, header. rewrite !app_length, !length_le_bytes. cbn [length]. lia.
Qed.

(* what the parser sees in a block that starts with a standard image (anything may follow) *)
Lemma parse_image f c bits junk ro wrap stream :
  cfg_ok f -> c < 2 ^ 64 -> in_range bits (f_cap f) ->
  parse (image f c bits ++ junk) ro wrap stream = PFull (f_cap f) (f_nh f) (f_seed f) c (cap_bytes (f_cap f)) /\
  rd (image f c bits ++ junk) 32 (cap_bytes (f_cap f)) = bits.
Proof.
  intros (Hnh & Hseed & Hm & Hc0 & Hc) Hcc Hr.
  destruct (cap_shifts _ Hm Hc) as (Hl & Hw & Hb & Hrc & H8).
  assert (Hlen : length (image f c bits ++ junk) = (32 + cap_bytes (f_cap f) + length junk)%nat)
    by (rewrite app_length, image_length; lia).
  assert (Rnh : rd (image f c bits ++ junk) 4 2 = f_nh f).
  { unfold image, header. rewrite <- !app_assoc. peel. rewrite rd_head. now apply le_of_le. }
  assert (Rseed : rd (image f c bits ++ junk) 8 8 = f_seed f).
  { unfold image, header. rewrite <- !app_assoc. peel. rewrite rd_head. now apply le_of_le. }
  assert (Rnl : rd (image f c bits ++ junk) 16 4 = N.shiftr (f_cap f) 6).
  { unfold image, header. rewrite <- !app_assoc. peel. rewrite rd_head. now apply le_of_le. }
  assert (Rc : rd (image f c bits ++ junk) 24 8 = c).
  { unfold image, header. rewrite <- !app_assoc. peel. rewrite rd_head. now apply le_of_le. }
  assert (Rb : rd (image f c bits ++ junk) 32 (cap_bytes (f_cap f)) = bits).
  { unfold image, header. rewrite <- !app_assoc. peel. rewrite rd_head. apply le_of_le. rewrite H8. now apply in_range_lt. }
  split; [|exact Rb].
  assert (N0 : nth 0 (image f c bits ++ junk) 0 = 4) by reflexivity.
  assert (N1 : nth 1 (image f c bits ++ junk) 0 = 1) by reflexivity.
  assert (N2 : nth 2 (image f c bits ++ junk) 0 = 21) by reflexivity.
  assert (N3 : nth 3 (image f c bits ++ junk) 0 = 0) by reflexivity.
  unfold parse. rewrite N0, N1, N2, N3, Rnh, Rseed, Rnl, Rc, Hw, Hb, Hrc, Hlen.
  set (L := (32 + cap_bytes (f_cap f) + length junk)%nat) in *.
  replace (Nat.ltb L 8) with false by (symmetry; apply Nat.ltb_ge; lia).
  replace ((4 <? (if stream then 1 else 3)) || (4 <? 4)) with false by (now destruct stream).
  change (negb (1 =? 1)) with false. change (negb (21 =? 21)) with false. change (N.land 0 4 =? 0) with true.
  change (N.to_nat 4 * 8)%nat with 32%nat.
  replace (Nat.ltb L 32) with false by (symmetry; apply Nat.ltb_ge; lia).
  replace (Nat.ltb (L - 32) (cap_bytes (f_cap f))) with false by (symmetry; apply Nat.ltb_ge; lia).
  cbn [negb andb]. rewrite !andb_false_r. reflexivity.
Qed.

(* deserialize(serialize f), from a byte block or a stream; anything may follow the image in the block *)
Theorem deser_serialize f bits junk stream :
  cfg_ok f -> in_range bits (f_cap f) -> is_empty f = false -> ser_cnt f < 2 ^ 64 ->
  deser_filt (serialize f bits ++ junk) stream =
  Some (mkF (f_seed f) (f_nh f) (f_cap f) (N.eqb (ser_cnt f) DIRTY) false (ser_cnt f) None bits).
Proof.
  intros Hc Hr He Hs. rewrite (serialize_nonempty _ _ He).
  destruct (parse_image f (ser_cnt f) bits junk false false stream Hc Hs Hr) as [Hp Hb].
  unfold deser_filt. rewrite Hp, Hb. reflexivity.
Qed.

(* wrap / writable_wrap of a block holding serialize f: a view of block [b] *)
Theorem wrap_serialize f bits junk b writable :
  cfg_ok f -> in_range bits (f_cap f) -> is_empty f = false -> ser_cnt f < 2 ^ 64 ->
  wrap_filt (serialize f bits ++ junk) b writable =
  Some (mkF (f_seed f) (f_nh f) (f_cap f) (N.eqb (ser_cnt f) DIRTY) (negb writable)
            (if negb writable && N.eqb (ser_cnt f) DIRTY then popcount bits else ser_cnt f) (Some b) 0).
Proof.
  intros Hc Hr He Hs. rewrite (serialize_nonempty _ _ He).
  destruct (parse_image f (ser_cnt f) bits junk (negb writable) true false Hc Hs Hr) as [Hp Hb].
  unfold wrap_filt. rewrite Hp, Hb. reflexivity.
Qed.

(* the abstract views used by nfn_every_view ARE what the byte-level functions build *)
Corollary deser_serialize_is_view s junk stream :
  cfg_ok (s_f s) -> in_range (s_bits s) (f_cap (s_f s)) -> is_empty (s_f s) = false -> ser_cnt (s_f s) < 2 ^ 64 ->
  exists g, deser_filt (serialize (s_f s) (s_bits s) ++ junk) stream = Some g /\
            mkS g (f_bits g) (ser_cnt (s_f s)) = deser_view (ser_img s).
Proof.
  intros Hc Hr He Hs. eexists. split; [now apply deser_serialize|]. reflexivity.
Qed.

Corollary wrap_serialize_is_view s junk b writable :
  cfg_ok (s_f s) -> in_range (s_bits s) (f_cap (s_f s)) -> is_empty (s_f s) = false -> ser_cnt (s_f s) < 2 ^ 64 ->
  exists g, wrap_filt (serialize (s_f s) (s_bits s) ++ junk) b writable = Some g /\
            f_mem g = Some b /\
            let v := wrap_view (ser_img s) (negb writable) in
            (f_seed g, f_nh g, f_cap g, f_dirty g, f_ro g, f_cnt g) =
            (f_seed (s_f v), f_nh (s_f v), f_cap (s_f v), f_dirty (s_f v), f_ro (s_f v), f_cnt (s_f v)).
Proof.
  intros Hc Hr He Hs. eexists. split; [now apply wrap_serialize|]. split; reflexivity.
Qed.

(* the empty image (3 preamble longs, EMPTY flag): deserialize and read-only wrap build a fresh filter of the same
   configuration with the public constructor *)
Lemma parse_empty_image f junk ro stream :
  cfg_ok f ->
  parse (header (f_seed f) (f_nh f) (f_cap f) true ++ junk) ro false stream = PEmpty (f_cap f) (f_nh f) (f_seed f) /\
  parse (header (f_seed f) (f_nh f) (f_cap f) true ++ junk) true true stream = PEmpty (f_cap f) (f_nh f) (f_seed f).
Proof.
  intros (Hnh & Hseed & Hm & Hc0 & Hc).
  destruct (cap_shifts _ Hm Hc) as (Hl & Hw & Hb & Hrc & H8).
  set (d := header (f_seed f) (f_nh f) (f_cap f) true ++ junk).
  assert (Hlen : length d = (24 + length junk)%nat).
  { unfold d, header. rewrite !app_length, !length_le_bytes. cbn [length]. lia. }
  assert (Rnh : rd d 4 2 = f_nh f).
  { unfold d, header. rewrite <- !app_assoc. peel. rewrite rd_head. now apply le_of_le. }
  assert (Rseed : rd d 8 8 = f_seed f).
  { unfold d, header. rewrite <- !app_assoc. peel. rewrite rd_head. now apply le_of_le. }
  assert (Rnl : rd d 16 4 = N.shiftr (f_cap f) 6).
  { unfold d, header. rewrite <- !app_assoc. peel. rewrite rd_head. now apply le_of_le. }
  assert (N0 : nth 0 d 0 = 3) by reflexivity.
  assert (N1 : nth 1 d 0 = 1) by reflexivity.
  assert (N2 : nth 2 d 0 = 21) by reflexivity.
  assert (N3 : nth 3 d 0 = 4) by reflexivity.
  unfold parse. rewrite N0, N1, N2, N3, Rnh, Rseed, Rnl, Hw, Hlen.
  set (L := (24 + length junk)%nat) in *.
  replace (Nat.ltb L 8) with false by (symmetry; apply Nat.ltb_ge; lia).
  replace ((3 <? (if stream then 1 else 3)) || (4 <? 3)) with false by (now destruct stream).
  change (negb (1 =? 1)) with false. change (negb (21 =? 21)) with false. change (N.land 4 4 =? 0) with false.
  change (N.to_nat 3 * 8)%nat with 24%nat.
  replace (Nat.ltb L 24) with false by (symmetry; apply Nat.ltb_ge; lia).
  cbn [negb andb]. now split.
Qed.

Theorem deser_serialize_empty f bits junk stream :
  cfg_ok f -> f_nh f <> 0 -> f_cap f <= MAX_BITS -> is_empty f = true ->
  deser_filt (serialize f bits ++ junk) stream = Some (mkF (f_seed f) (f_nh f) (f_cap f) false false 0 None 0) /\
  wrap_filt (serialize f bits ++ junk) 0%Z false = Some (mkF (f_seed f) (f_nh f) (f_cap f) false false 0 None 0).
Proof.
  intros Hc Hn Hm He. unfold serialize. rewrite He, app_nil_r.
  destruct (parse_empty_image f junk false stream Hc) as [Hp _].
  destruct (parse_empty_image f junk false false Hc) as [_ Hp'].
  destruct Hc as (_ & _ & Hm64 & Hc0 & Hc32).
  destruct (cap_shifts _ Hm64 Hc32) as (_ & _ & _ & Hrc & _).
  assert (Hn' : new_owned (f_cap f) (f_nh f) (f_seed f) = Some (mkF (f_seed f) (f_nh f) (f_cap f) false false 0 None 0)).
  { unfold new_owned, ctor_ok. apply N.eqb_neq in Hn, Hc0. apply N.leb_le in Hm. rewrite Hn, Hc0, Hm, Hrc. reflexivity. }
  unfold deser_filt, wrap_filt. cbn [negb]. rewrite Hp, Hp'. now split.
Qed.

(* ------------------------------------------------------------------ *)
(* no false negative through the BYTES: the history of nfn_every_view, then serialize, then deserialize / wrap of the bytes *)
(* ------------------------------------------------------------------ *)
Theorem nfn_through_bytes (H : list N -> N -> N) s0 pre ins post x junk :
  let idx := indices_of H (s_f s0) in
  let cap := f_cap (s_f s0) in
  cfg_ok (s_f s0) -> f_nh (s_f s0) <> 0 ->
  inv cap s0 -> f_ro (s_f s0) = false ->
  inserts ins x -> Forall monotone post -> Forall (op_ok cap) (pre ++ ins :: post) ->
  let s := frun true idx (pre ++ ins :: post) s0 in
  let img := serialize (s_f s) (s_bits s) ++ junk in
  (forall stream, exists g, deser_filt img stream = Some g /\ core_query g (f_bits g) (indices_of H g x) = true) /\
  (forall b writable, exists g, wrap_filt img b writable = Some g /\
                                core_query g (rd img 32 (cap_bytes (f_cap g))) (indices_of H g x) = true).
Proof.
  intros idx cap Hcfg Hn Hi Hro Hins Hpost Hok s img.
  destruct Hcfg as (Hnh & Hseed & Hm & Hc0 & Hc32).
  assert (Hc64 : cap < two64).
  { eapply N.lt_trans; [exact Hc32|]. reflexivity. }
  assert (Hidx : forall y i, In i (idx y) -> i < cap) by (intros y i; now apply indices_lt).
  assert (Hne : idx x <> []) by now apply indices_nonempty.
  assert (Hs : inv cap s) by (apply (inv_frun true idx cap Hc64 Hidx); [assumption|assumption|now left]).
  assert (Hall : all_set (s_bits s) (idx x) = true) by now apply nfn_bits.
  assert (Hq : squery idx s x = true) by now apply (inv_query idx cap).
  destruct (frun_fixed true idx (pre ++ ins :: post) s0) as (F1 & F2 & F3 & F4 & F5). fold s in F1, F2, F3, F4, F5.
  assert (Hcfg' : cfg_ok (s_f s)) by (unfold cfg_ok; rewrite F1, F2, F3; repeat split; assumption).
  assert (Hrng : in_range (s_bits s) (f_cap (s_f s))) by (rewrite F3; apply Hs).
  assert (Hemp : is_empty (s_f s) = false).
  { rewrite squery_spec in Hq. apply andb_prop in Hq. destruct Hq as [Hq _]. now destruct (is_empty (s_f s)). }
  assert (Hsc : ser_cnt (s_f s) < 2 ^ 64).
  { unfold ser_cnt. destruct Hs as (_ & Hr & Hcache). destruct (f_dirty (s_f s)) eqn:Hd; [reflexivity|].
    destruct Hcache as [Hcache|Hcache]; [congruence|]. rewrite Hcache.
    eapply N.le_lt_trans; [apply (in_range_popcount _ _ Hr)|exact Hc64]. }
  assert (Hcount : ser_cnt (s_f s) = DIRTY \/ ser_cnt (s_f s) = popcount (s_bits s)) by (apply (ser_img_ok cap s Hs)).
  assert (Hix : forall g, f_seed g = f_seed (s_f s) -> f_nh g = f_nh (s_f s) -> f_cap g = f_cap (s_f s) ->
                          indices_of H g x = idx x).
  { intros g A B C. unfold idx. apply indices_fixed; congruence. }
  assert (Hnz : forall c d, (c = DIRTY \/ c = popcount (s_bits s)) -> d = N.eqb c DIRTY ->
                            negb d && (c =? 0) = false).
  { intros c d Hcd ->. destruct (N.eqb_spec c DIRTY) as [E|E]; [reflexivity|]. cbn [negb andb].
    destruct Hcd as [Hcd|Hcd]; [contradiction|]. apply N.eqb_neq. rewrite Hcd. intros Z0.
    apply (proj1 (popcount_zero _)) in Z0. rewrite all_set_spec in Hall.
    destruct (idx x) as [|i t]; [congruence|]. specialize (Hall i (or_introl eq_refl)). rewrite Z0, N.bits_0 in Hall.
    discriminate. }
  split.
  - intros stream. eexists. split; [now apply deser_serialize|].
    cbn [f_bits]. rewrite Hix by reflexivity. unfold core_query, is_empty. cbn [f_dirty f_cnt].
    rewrite (Hnz _ _ Hcount eq_refl). exact Hall.
  - intros b writable. eexists. split; [now apply wrap_serialize|].
    cbn [f_cap]. rewrite Hix by reflexivity. unfold img. rewrite (serialize_nonempty _ _ Hemp).
    destruct (parse_image (s_f s) (ser_cnt (s_f s)) (s_bits s) junk false false false Hcfg' Hsc Hrng) as [_ Hb].
    rewrite Hb. unfold core_query, is_empty. cbn [f_dirty f_cnt].
    destruct (N.eqb_spec (ser_cnt (s_f s)) DIRTY) as [E|E].
    + cbn [negb andb]. exact Hall.
    + rewrite andb_false_r. rewrite (Hnz _ false Hcount); [exact Hall|]. symmetry. now apply N.eqb_neq.
Qed.
