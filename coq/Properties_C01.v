(* Properties_C01.v — the Theta update sketch is an exact hash-threshold sample of the distinct inputs.
   Statements only; proofs live in OpenAddr.v, KSmallest.v, ThetaProofs.v, ThetaRefine.v, ThetaFacts.v.

   Setting of the main section: the concrete model of ThetaDefs.v (open-addressing table with stride probing,
   resize, rebuild, trim, reset, screening) run on an ARBITRARY history [ops] of updates / trims / resets, where
   - the 64-bit hash of every update is arbitrary ([OpUpdate hash64 f]: any hash function, any inputs),
   - std::nth_element is ANY function meeting its postcondition ([sel_ok]),
   - the configuration is arbitrary: lg_k >= 5, any resize factor, any starting theta [th0],
   - the payload type S and the payload updates f are arbitrary (S = unit for the Theta sketch).
   [seen_of ops] is the list of 63-bit hashes (hash64 / 2) offered since the last reset — the L0 specification;
   [sample t seen] = the distinct h in seen with 0 < h < t. *)
From Coq Require Import ZArith NArith List Bool Lia Permutation Sorted.
From DS Require Import Word Murmur3 RunnerLib OpenAddr KSmallest Canon ThetaDefs ThetaProofs ThetaRefine ThetaFacts.
Import ListNotations.
Local Open Scope N_scope.

Section AnyHashAnyNthElement.
  Variable S : Type.
  Variable sel : nat -> list (N * S) -> list (N * S).
  Hypothesis sel_ok : forall k l, (k < length l)%nat -> nth_post fst k l (sel k l).
  Variables lgn r th0 : N.
  Hypothesis lgn_ge : 5 <= lgn.
  Notation run := (run_ops S sel lgn r th0).

  (* the retained keys are exactly the distinct non-zero hashes seen below theta: none missing, none extra,
     none twice; num_entries is their count *)
  Theorem C01_theta_update_refines : forall ops, let s := run ops in
    NoDup (keys S s) /\
    (forall h, In h (keys S s) <-> In h (seen_of ops) /\ 0 < h < theta s) /\
    num s = N.of_nat (length (keys S s)).
  Proof. exact (refines S sel sel_ok lgn r th0 lgn_ge). Qed.

  (* same, against the L0 sample; the sorted retained hashes (what a query prints) are the sorted sample *)
  Theorem C01_retained_is_sample : forall ops, let s := run ops in
    Permutation (keys S s) (sample (theta s) (seen_of ops)) /\
    num s = N.of_nat (length (sample (theta s) (seen_of ops))) /\
    sortN (keys S s) = sortN (sample (theta s) (seen_of ops)).
  Proof. exact (refines_sample S sel sel_ok lgn r th0 lgn_ge). Qed.

  (* theta never increases between resets (internal theta, and the theta reported by get_theta64) *)
  Theorem C01_theta_monotone : forall ops ops2, no_reset S ops2 ->
    theta (run (ops ++ ops2)) <= theta (run ops).
  Proof. exact (theta_monotone S sel sel_ok lgn r th0 lgn_ge). Qed.

  Theorem C01_reported_theta_monotone : forall ops ops2, th0 <= max_theta -> no_reset S ops2 ->
    get_theta64 S (run (ops ++ ops2)) <= get_theta64 S (run ops).
  Proof. exact (reported_theta_monotone S sel sel_ok lgn r th0 lgn_ge). Qed.

  (* theta is the starting value or one of the hashes seen (and never above the starting value) *)
  Theorem C01_theta_is_start_or_hash : forall ops,
    theta (run ops) <= th0 /\ (theta (run ops) = th0 \/ In (theta (run ops)) (seen_of ops)).
  Proof.
    intros ops. split; [apply (theta_le_start S sel sel_ok lgn r th0 lgn_ge)|apply (theta_is_start_or_hash S sel sel_ok lgn r th0 lgn_ge)].
  Qed.

  (* is_empty <-> no update offered since construction/reset; an empty sketch reports MAX_THETA and retains
     nothing; from the first offered update on, the reported theta is the internal one *)
  Theorem C01_empty_and_reported_theta : forall ops, let s := run ops in
    (is_empty s = true <-> seen_of ops = []) /\
    (seen_of ops = [] -> get_theta64 S s = max_theta /\ num s = 0) /\
    (seen_of ops <> [] -> get_theta64 S s = theta s).
  Proof.
    intros ops. split; [apply (empty_iff_nothing_offered S sel sel_ok lgn r th0 lgn_ge)|apply (reported_theta S sel sel_ok lgn r th0 lgn_ge)].
  Qed.

  (* theta is below the starting value only while at least k = 2^lg_k hashes are retained *)
  Theorem C01_theta_lt_start_implies_k : forall ops, theta (run ops) < th0 -> 2 ^ lgn <= num (run ops).
  Proof. exact (theta_lt_start_implies_k S sel sel_ok lgn r th0 lgn_ge). Qed.

  (* while the distinct non-zero hashes below the starting theta fit the nominal size, theta stays at the
     starting value and the count is exact (with p = 1: num_retained = number of distinct inputs' hashes) *)
  Theorem C01_exact_when_fits : forall ops,
    N.of_nat (length (sample th0 (seen_of ops))) <= 2 ^ lgn ->
    theta (run ops) = th0 /\ num (run ops) = N.of_nat (length (sample th0 (seen_of ops))).
  Proof. exact (exact_when_fits S sel sel_ok lgn r th0 lgn_ge). Qed.

  (* trim leaves at most k entries *)
  Theorem C01_trim_le_k : forall ops, num (run (ops ++ [OpTrim])) <= 2 ^ lgn.
  Proof. exact (trim_le_k S sel sel_ok lgn r th0 lgn_ge). Qed.

  (* compact(ordered): same theta, same emptiness, same entries; ordered => flagged ordered and strictly increasing *)
  Theorem C01_compact_same : forall ops ordered, let s := run ops in let c := compact_of S s ordered in
    c_theta c = get_theta64 S s /\ c_empty c = is_empty s /\
    Permutation (c_entries c) (entries S s) /\
    (ordered = true -> c_ordered c = true) /\ cwf S c.
  Proof. exact (compact_same S sel sel_ok lgn r th0 lgn_ge). Qed.

  (* the open-addressing table: a reachable table satisfies the probing invariant with at least one empty slot,
     so find always ends at the key's slot or at an empty slot ("no empty slots" is unreachable) *)
  Theorem C01_find_total : forall ops h, tfind S (lg_cur (run ops)) (slots (run ops)) h <> None.
  Proof. exact (find_total S sel sel_ok lgn r th0 lgn_ge). Qed.

  Theorem C01_table_invariant : forall ops, TInv S lgn r th0 (run ops).
  Proof. intros ops. apply (run_inv S sel sel_ok lgn r th0 lgn_ge). Qed.

  (* rebuild (hence nth_element at k) only runs in the full-size table with more than k entries *)
  Theorem C01_rebuild_precondition : forall ops, let s := run ops in
    (capacity (lg_cur s) lgn < num s + 1 -> lgn < lg_cur s -> lg_cur s = lgn + 1 /\ 2 ^ lgn < num s + 1) /\
    (2 ^ lgn < num s -> lg_cur s = lgn + 1).
  Proof. exact (rebuild_precondition S sel sel_ok lgn r th0 lgn_ge). Qed.

  (* every L2 history is an L1 history (refinement), for the record *)
  Theorem C01_refinement : forall ops, a_reach S lgn r th0 ops (abs S (run ops)).
  Proof. intros ops. apply (run_refines S sel sel_ok lgn r th0 lgn_ge). Qed.
End AnyHashAnyNthElement.

(* compacting a compact sketch (any chain of compactions) keeps theta, emptiness and entries *)
Theorem C01_compact_of_compact_same : forall S (c : compact S) ordered, cwf S c ->
  let c2 := compact_of_compact S c ordered in
  c_theta c2 = c_theta c /\ c_empty c2 = c_empty c /\ Permutation (c_entries c2) (c_entries c) /\
  (ordered = true -> c_ordered c2 = true) /\ cwf S c2.
Proof. exact compact_of_compact_same. Qed.

(* the abstract model alone: whatever the table does and whatever nth_element returns within its postcondition,
   every reachable L1 state is the hash-threshold sample of the hashes seen *)
Theorem C01_L1_satisfies_L0 : forall S lgn r th0 ops a, a_reach S lgn r th0 ops a -> AInv S lgn th0 a (seen_of ops).
Proof. exact a_reach_inv. Qed.

(* generic open addressing (reused by other tables): odd strides probe injectively modulo 2^n *)
Theorem C01_probe_injective : forall lg home stride j1 j2, N.odd stride = true ->
  (j1 < N.to_nat (2 ^ lg))%nat -> (j2 < N.to_nat (2 ^ lg))%nat ->
  probe_idx lg home stride j1 = probe_idx lg home stride j2 -> j1 = j2.
Proof. exact probe_idx_inj. Qed.

(* ---- the executable instance (sort as nth_element, Murmur as hash) is covered ---- *)
Section AnyHashFunction.
  Variable Input : Type.
  Variable hash : Input -> N.                 (* ANY hash function (h1 of MurmurHash3 in the code) *)
  Inductive uop := UUpdate (x : Input) | UTrim | UReset.
  Definition op_of (u : uop) : op unit :=
    match u with UUpdate x => OpUpdate (hash x) unit_upd | UTrim => OpTrim | UReset => OpReset end.
  Fixpoint offered (us : list uop) (acc : list Input) : list Input :=    (* inputs offered since the last reset *)
    match us with
    | [] => acc
    | UUpdate x :: t => offered t (x :: acc)
    | UTrim :: t => offered t acc
    | UReset :: t => offered t []
    end.

  Lemma seen_of_offered_gen us : forall acc,
    fold_left (@seen_step unit) (map op_of us) (map (fun x => hash x / 2) acc) = map (fun x => hash x / 2) (offered us acc).
  Proof.
    induction us as [|u us IH]; intros acc; simpl; auto.
    destruct u; simpl; [apply (IH (x :: acc))|apply IH|apply (IH [])].
  Qed.

  (* the Theta sketch model as run by the check: retained hashes = the distinct non-zero 63-bit hashes of the
     inputs offered since the last reset that are below theta *)
  Theorem C01_exact_sample_of_inputs : forall lgk rfz th0 us, 5 <= lgk ->
    let s := run_ops unit sel_sort lgk rfz th0 (map op_of us) in
    sortN (keys unit s) = sortN (sample (theta s) (map (fun x => hash x / 2) (offered us []))) /\
    num s = N.of_nat (length (sample (theta s) (map (fun x => hash x / 2) (offered us [])))).
  Proof.
    intros lgk rfz th0 us Hk s.
    destruct (refines_sample unit sel_sort (sel_sort_ok unit) lgk rfz th0 Hk (map op_of us)) as (_ & Hn & Hs).
    fold s in Hn, Hs. pose proof (seen_of_offered_gen us []) as E. change (map (fun x => hash x / 2) []) with (@nil N) in E.
    unfold seen_of in Hn, Hs. rewrite E in Hn, Hs. auto.
  Qed.
End AnyHashFunction.

(* the line protocol drives exactly these functions *)
Theorem C01_protocol_update : forall st r seed k kind args bytes e,
  reg_get st r = Some (RU seed k) -> canon_input kind args = Some bytes ->
  fst (step st (2 :: r :: kind :: args)%Z e) =
  reg_set st r (RU seed (step_op unit sel_sort k (OpUpdate (hash64 seed bytes) unit_upd))).
Proof. intros st r seed k kind args bytes e Hr Hc. unfold step. rewrite Hr, Hc. reflexivity. Qed.

Theorem C01_protocol_ignored : forall st r seed k kind args e,
  reg_get st r = Some (RU seed k) -> canon_input kind args = None ->
  fst (step st (2 :: r :: kind :: args)%Z e) = st.
Proof. intros st r seed k kind args e Hr Hc. unfold step. rewrite Hr, Hc. reflexivity. Qed.

(* ---- non-vacuity: a concrete history at lg_k = 5, resize factor X2, p = 0.5 with Murmur hashes that passes
   through resize, rebuild and trim; the hypotheses hold and the conclusions are informative ---- *)
Definition nv_ops (n : nat) : list (op unit) :=
  map (fun i => OpUpdate (hash64 9001 (N_to_le_bytes 8 (N.of_nat i))) unit_upd) (seq 1 n).

Example C01_nonvacuous :
  let s := run_ops unit sel_sort 5 1 (2 ^ 62) (nv_ops 200) in
  let t := run_ops unit sel_sort 5 1 (2 ^ 62) (nv_ops 200 ++ [OpTrim]) in
  (5 <=? 5) = true /\
  start_lg 5 1 = 5 /\ lg_cur s = 6 /\                         (* the table was resized *)
  (theta s <? 2 ^ 62) = true /\ (32 <=? num s) = true /\       (* a rebuild lowered theta; >= k retained *)
  (32 <? num s) = true /\ num t = 32 /\                        (* trim had something to do *)
  (theta t <? theta s) = true /\
  num s = N.of_nat (length (sample (theta s) (seen_of (nv_ops 200)))) /\
  sortN (keys unit s) = sortN (sample (theta s) (seen_of (nv_ops 200))).
Proof. vm_compute. repeat split; reflexivity. Qed.

Print Assumptions C01_theta_update_refines.
Print Assumptions C01_retained_is_sample.
Print Assumptions C01_theta_monotone.
Print Assumptions C01_reported_theta_monotone.
Print Assumptions C01_theta_is_start_or_hash.
Print Assumptions C01_empty_and_reported_theta.
Print Assumptions C01_theta_lt_start_implies_k.
Print Assumptions C01_exact_when_fits.
Print Assumptions C01_trim_le_k.
Print Assumptions C01_compact_same.
Print Assumptions C01_find_total.
Print Assumptions C01_table_invariant.
Print Assumptions C01_rebuild_precondition.
Print Assumptions C01_refinement.
Print Assumptions C01_compact_of_compact_same.
Print Assumptions C01_L1_satisfies_L0.
Print Assumptions C01_probe_injective.
Print Assumptions C01_exact_sample_of_inputs.
Print Assumptions C01_protocol_update.
Print Assumptions C01_protocol_ignored.
