(* HllUnionDefs.v — executable model of hll_union (hll/include/HllUnion-internal.hpp) on top of the hll_sketch model
   HllDefs.v: no proofs here.
   Mirrors: update(const hll_sketch&), update(hll_sketch&&) with its gadget-swap shortcut, union_impl's case analysis on
   (source mode, gadget empty, gadget mode, relative lg_k), copy_or_downsample, Hll8Array::mergeHll (equal-k loop and the
   masked down-sampling loop; the three source decoders are the array iterator's decoders, [hll_regs]),
   Hll8Array::mergeList, HllArray::check_rebuild_kxq_cur_min (deferred: run by the four estimate accessors), get_result
   (copyAs), reset, the raw updates (gadget_.update(datum) = the gadget's coupon_update).
   The gadget keeps cur_min / num_at_cur_min / kxq STALE exactly as the code leaves them after a mergeHll (rebuild flag set).
   Two defects of the shipped code are repaired by /verif/fixes/04_*.patch; the model is parametrised by a [variant] so
   that the shipped behaviour stays available to Regression_hllunion.v:
     v_rebuild   : copy_or_downsample runs check_rebuild_kxq_cur_min after mergeHll (F1: without it the gadget looks empty)
     v_reset_max : reset() recreates the gadget at lg_max_k (F10: the shipped code keeps the reduced lg_k)
   kxq after a rebuild is carried in exact arithmetic (the C++ doubles may round when a register is >= 32); it is not observed. *)
From Coq Require Import ZArith NArith List Bool.
From DS Require Import Word Murmur3 RunnerLib HllDefs.
Import ListNotations.
Local Open Scope N_scope.

Record variant := { v_rebuild : bool; v_reset_max : bool }.
Definition repaired : variant := {| v_rebuild := true; v_reset_max := true |}.
Definition shipped : variant := {| v_rebuild := false; v_reset_max := false |}.

(* ---------- HllArray::check_rebuild_kxq_cur_min ---------- *)
(* cur_min = 64, num = 0; for each v: if v > cur_min skip; if v < cur_min then (v,1) else ++num *)
Definition rebuild_step (st : N * N) (v : N) : N * N :=
  let '(cm, na) := st in
  if cm <? v then (cm, na) else if v <? cm then (v, 1) else (cm, na + 1).

(* kxq0 = k + sum over 0 < v < 32 of (2^-v - 1); kxq1 = sum over v >= 32 of (2^-v - 1): units 2^-31 and 2^-63 *)
Definition kxq0_rebuild (k : N) (rs : list N) : Z :=
  fold_left (fun acc v => if (0 <? v) && (v <? 32) then (acc + inv0 v - 2147483648)%Z else acc) rs
            (Z.of_N k * 2147483648)%Z.
Definition kxq1_rebuild (rs : list N) : Z :=
  fold_left (fun acc v => if 32 <=? v then (acc + inv1 v - 9223372036854775808)%Z else acc) rs 0%Z.

Definition check_rebuild (h : hllarr) : option hllarr :=
  if h_rebuild h then
    match hll_regs h with
    | None => None
    | Some rs =>
        let '(cm, na) := fold_left rebuild_step rs (64, 0) in
        Some {| h_lgk := h_lgk h; h_ty := h_ty h; h_full := h_full h; h_ooo := h_ooo h; h_rebuild := false;
                h_bytes := h_bytes h; h_curmin := cm; h_numat := na;
                h_kxq0 := kxq0_rebuild (2 ^ h_lgk h) rs; h_kxq1 := kxq1_rebuild rs; h_aux := h_aux h |}
    end
  else Some h.

(* ---------- Hll8Array::mergeHll ---------- *)
(* equal k: hllByteArr_[i] = max(hllByteArr_[i], value_i) *)
Fixpoint zipmax (d vs : list N) : list N :=
  match d, vs with
  | x :: d', v :: vs' => N.max x v :: zipmax d' vs'
  | _, _ => d
  end.

(* processValue(slot, mask, v): index = slot & mask; arr[index] = max(arr[index], v) *)
Definition process_value (mask : N) (d : list N) (i v : N) : list N :=
  let j := N.land i mask in setN d j (N.max (getN d j) v).

Fixpoint merge_down (mask : N) (d : list N) (i : N) (vs : list N) : list N :=
  match vs with
  | [] => d
  | v :: t => merge_down mask (process_value mask d i v) (i + 1) t
  end.

(* the destination is the (HLL_8) gadget: its byte array is its register array *)
Definition merge_hll (dst src : hllarr) : option hllarr :=
  match hll_regs src with
  | None => None
  | Some vs =>
      let b := if h_lgk dst =? h_lgk src then zipmax (h_bytes dst) vs
               else merge_down (N.ones (h_lgk dst)) (h_bytes dst) 0 vs in
      Some (h_set_flags (h_set_bytes dst b) (h_ooo dst) true)
  end.

(* Hll8Array::mergeList *)
Definition impl_coupons (i : impl) : list N :=
  match i with
  | IList l => nonzero (l_arr l)
  | ISet s => nonzero (s_arr s)
  | IHll _ => []
  end.

Definition merge_list (d : hllarr) (cs : list N) : hllarr := fold_left hll8_update cs d.

(* ---------- hll_union::copy_or_downsample ---------- *)
Definition copy_or_downsample (v : variant) (src : hllarr) (tgt : N) : option hllarr :=
  if h_lgk src <=? tgt then hll_copy_as T8 src
  else
    match merge_hll (hll_new tgt T8 false) src with
    | None => None
    | Some t =>
        match (if v_rebuild v then check_rebuild t else Some t) with
        | None => None
        | Some t' => Some (h_set_flags t' (h_ooo src) (h_rebuild t'))
        end
    end.

(* leak_free_coupon_update: impl->couponUpdate(coupon) *)
Definition impl_update (i : impl) (c : N) : option impl :=
  match i with
  | IList l => list_update l c
  | ISet s => set_update s c
  | IHll h => match hll_update h c with Some h' => Some (IHll h') | None => None end
  end.

Definition is_hll (i : impl) : bool := match i with IHll _ => true | _ => false end.

(* ---------- hll_union::union_impl(sketch, lg_max_k): the new gadget implementation ---------- *)
Definition union_impl (v : variant) (g src : impl) (lgmax : N) : option impl :=
  match src with
  | IHll hs =>
      if negb (sk_is_empty g) then
        match g with
        | IHll hg =>                                         (* gadget is HLL *)
            let od := if h_lgk hs <? h_lgk hg then copy_or_downsample v hg (h_lgk hs) else Some hg in
            match od with
            | None => None
            | Some d =>
                match merge_hll d hs with
                | Some d' => Some (IHll (h_set_flags d' true (h_rebuild d')))
                | None => None
                end
            end
        | _ =>                                               (* swap: src becomes the target, the gadget's list is merged *)
            match copy_or_downsample v hs lgmax with
            | Some d => Some (IHll (merge_list d (impl_coupons g)))
            | None => None
            end
        end
      else                                                   (* src is HLL, gadget is empty *)
        match copy_or_downsample v hs lgmax with
        | Some d => Some (IHll d)
        | None => None
        end
  | _ =>                                                     (* src is LIST or SET *)
      if sk_is_empty g && (sk_lgk src =? sk_lgk g) then sk_copy_as T8 src
      else ofold impl_update (impl_coupons src) g
  end.

Record ustate := { u_lgmax : N; u_gadget : impl }.

Definition u_new (lgmax : N) : ustate := {| u_lgmax := lgmax; u_gadget := sk_new lgmax T8 false |}.
Definition u_set (u : ustate) (g : impl) : ustate := {| u_lgmax := u_lgmax u; u_gadget := g |}.

(* update(const hll_sketch&) *)
Definition u_update_lv (v : variant) (u : ustate) (src : impl) : option ustate :=
  if sk_is_empty src then Some u
  else match union_impl v (u_gadget u) src (u_lgmax u) with
       | Some g => Some (u_set u g)
       | None => None
       end.

(* update(hll_sketch&&): gadget_ = std::move(sketch) swaps the implementations, then union_impl runs on the swapped-out one *)
Definition u_update_rv (v : variant) (u : ustate) (src : impl) : option ustate :=
  if sk_is_empty src then Some u
  else
    let g := u_gadget u in
    let swap := sk_is_empty g && tgt_eqb (sk_ty src) T8 && (sk_lgk src <=? u_lgmax u)
                && (is_hll src || (sk_lgk src =? u_lgmax u)) in
    let '(g1, s1) := if swap then (src, g) else (g, src) in
    match union_impl v g1 s1 (u_lgmax u) with
    | Some g' => Some (u_set u g')
    | None => None
    end.

(* update(datum) = gadget_.update(datum) = the gadget's coupon_update on the coupon of the hash *)
Definition u_coupon (u : ustate) (c : N) : option ustate :=
  match sk_update (u_gadget u) c with
  | Some g => Some (u_set u g)
  | None => None
  end.

(* get_estimate / get_composite_estimate / get_lower_bound / get_upper_bound: the state change they make *)
Definition u_estimate (u : ustate) : option ustate :=
  match u_gadget u with
  | IHll h => match check_rebuild h with Some h' => Some (u_set u (IHll h')) | None => None end
  | _ => Some u
  end.

(* get_result(type) = hll_sketch(gadget_, type) *)
Definition u_result (u : ustate) (ty : tgt) : option impl := sk_copy_as ty (u_gadget u).

Definition u_reset (v : variant) (u : ustate) : ustate :=
  u_set u (if v_reset_max v then sk_new (u_lgmax u) T8 false else sk_reset (u_gadget u)).

(* ---------- abstract histories (what the theorems quantify over) ---------- *)
Inductive uop :=
| USketch (rvalue : bool) (src : impl)
| UCoupon (c : N)
| UEstimate
| UResult (ty : tgt)          (* a get_result call between updates: no state change *)
| UReset.

Definition u_step (v : variant) (u : ustate) (o : uop) : option ustate :=
  match o with
  | USketch false s => u_update_lv v u s
  | USketch true s => u_update_rv v u s
  | UCoupon c => u_coupon u c
  | UEstimate => u_estimate u
  | UResult ty => Some u        (* get_result is const and copyAs does not touch the gadget: the state is unchanged *)
  | UReset => Some (u_reset v u)
  end.

Definition u_run (v : variant) (u : ustate) (ops : list uop) : option ustate := ofold (u_step v) ops u.

(* ---------- specification side: what a single sketch of lg_k = lg that saw the coupons [log] holds ---------- *)
Definition spec_regs_fold (lg : N) (log : list N) : list N := fold_left (reg_max_upd lg) log (zerosN (2 ^ lg)).

Definition dist_capped (cap : nat) (log : list N) : option (list N) :=
  fold_left (fun acc c => match acc with
                          | None => None
                          | Some d => let d' := ins_sorted c d in
                                      if (cap <? length d')%nat then None else Some d'
                          end) log (Some []).

(* ---------- line protocol ---------- *)
Record skreg := { k_impl : impl; k_log : list N }.
(* n_log: the non-empty coupons offered since the last reset; n_minlg: min of lg_max_k and the lg_k of the non-empty
   HLL-mode inputs since the last reset *)
Record unreg := { n_u : ustate; n_log : list N; n_minlg : N }.
Record st := { sks : list (Z * skreg); uns : list (Z * unreg) }.

Definition observe (i : impl) : line :=
  let head := [Nz (sk_lgk i); Z_of_tgt (sk_ty i);
               match i with IList _ => 0%Z | ISet _ => 1%Z | IHll _ => 2%Z end;
               bz (sk_is_empty i); bz (sk_ooo i)] in
  match i with
  | IList l => head ++ Nz (l_cnt l) :: map Nz (sort_distinct (nonzero (l_arr l)))
  | ISet s => head ++ Nz (s_cnt s) :: map Nz (sort_distinct (nonzero (s_arr s)))
  | IHll h =>
      match hll_regs h with
      | Some rs => head ++ Nz (if h_curmin h =? 0 then h_numat h else 0) :: map Nz rs
      | None => [(-1)%Z]
      end
  end.

Definition spec_line (log : list N) (lgstar : N) : line :=
  let d := dist_capped 400 log in
  [Nz lgstar; Nz (lenN log); match d with Some l => Nz (lenN l) | None => (-1)%Z end]
  ++ map Nz (spec_regs_fold lgstar log)
  ++ match d with Some l => map Nz l | None => [] end.

Definition v_run : variant := repaired.

Local Open Scope Z_scope.

Definition lg_ok (z : Z) : bool := (4 <=? z) && (z <=? 21).

Definition feed_union (x : unreg) (cs : list N) : option unreg :=
  match ofold u_coupon cs (n_u x) with
  | Some u' => Some {| n_u := u'; n_log := n_log x ++ nonzero cs; n_minlg := n_minlg x |}
  | None => None
  end.

Definition step (s : st) (o e : line) : st * outline :=
  match o with
  | 1 :: r :: lgk :: ty :: full :: _ =>                  (* new sketch *)
      match tgt_of_Z ty with
      | Some t =>
          if lg_ok lgk then
            ({| sks := reg_set (sks s) r {| k_impl := sk_new (zN lgk) t (negb (full =? 0)); k_log := [] |}; uns := uns s |},
             (ok, []))
          else (s, (refused, []))
      | None => (s, ([-2], []))
      end
  | 2 :: r :: kind :: args =>                            (* one real item into a sketch: the C03 item path *)
      match reg_get (sks s) r with
      | Some x =>
          if (kind <? 0) || (11 <? kind) then (s, (refused, [])) else
          match item_bytes kind args with
          | None => (s, (ok, []))                        (* empty string: ignored *)
          | Some bs =>
              let cl := [coupon_of_bytes bs] in
              match sk_updates (k_impl x) cl with
              | Some i' => ({| sks := reg_set (sks s) r {| k_impl := i'; k_log := k_log x ++ nonzero cl |}; uns := uns s |}, (ok, []))
              | None => (s, (refused, []))
              end
          end
      | None => (s, (refused, []))
      end
  | 20 :: u :: kind :: args =>                           (* one real item into the union through hll_union::update(kind) *)
      match reg_get (uns s) u with
      | Some x =>
          if (kind <? 0) || (11 <? kind) then (s, (refused, [])) else
          match item_bytes kind args with
          | None => (s, (ok, []))
          | Some bs =>
              match feed_union x [coupon_of_bytes bs] with
              | Some x' => ({| sks := sks s; uns := reg_set (uns s) u x' |}, (ok, []))
              | None => (s, (refused, []))
              end
          end
      | None => (s, (refused, []))
      end
  | 3 :: r :: cs =>                                      (* raw coupons into a sketch *)
      match reg_get (sks s) r with
      | Some x =>
          let cl := map (fun z => w32 (zN z)) cs in
          match sk_updates (k_impl x) cl with
          | Some i' => ({| sks := reg_set (sks s) r {| k_impl := i'; k_log := k_log x ++ nonzero cl |}; uns := uns s |}, (ok, []))
          | None => (s, (refused, []))
          end
      | None => (s, (refused, []))
      end
  | 4 :: r :: start :: count :: stride :: _ =>           (* real int64 items into a sketch *)
      match reg_get (sks s) r with
      | Some x =>
          let cl := batch_items (zn count) (z_to_u64 start) (z_to_u64 stride) in
          match sk_updates (k_impl x) cl with
          | Some i' => ({| sks := reg_set (sks s) r {| k_impl := i'; k_log := k_log x ++ nonzero cl |}; uns := uns s |}, (ok, []))
          | None => (s, (refused, []))
          end
      | None => (s, (refused, []))
      end
  | 6 :: r :: _ =>                                       (* observe a sketch *)
      match reg_get (sks s) r with
      | Some x => (s, (observe (k_impl x), spec_line (k_log x) (sk_lgk (k_impl x))))
      | None => (s, (refused, []))
      end
  | 10 :: u :: lgmax :: _ =>                             (* new union *)
      if lg_ok lgmax then
        ({| sks := sks s; uns := reg_set (uns s) u {| n_u := u_new (zN lgmax); n_log := []; n_minlg := zN lgmax |} |}, (ok, []))
      else (s, (refused, []))
  | 11 :: u :: r :: rv :: _ =>                           (* union.update(sketch), rv <> 0: by rvalue *)
      match reg_get (uns s) u, reg_get (sks s) r with
      | Some x, Some k =>
          match (if rv =? 0 then u_update_lv v_run (n_u x) (k_impl k) else u_update_rv v_run (n_u x) (k_impl k)) with
          | Some u' =>
              let src := k_impl k in
              let counted := negb (sk_is_empty src) in
              let x' := {| n_u := u';
                           n_log := if counted then n_log x ++ k_log k else n_log x;
                           n_minlg := if counted && is_hll src then N.min (n_minlg x) (sk_lgk src) else n_minlg x |} in
              ({| sks := sks s; uns := reg_set (uns s) u x' |}, (ok, []))
          | None => (s, (refused, []))
          end
      | _, _ => (s, (refused, []))
      end
  | 12 :: u :: cs =>                                     (* raw coupons into the union *)
      match reg_get (uns s) u with
      | Some x =>
          match feed_union x (map (fun z => w32 (zN z)) cs) with
          | Some x' => ({| sks := sks s; uns := reg_set (uns s) u x' |}, (ok, []))
          | None => (s, (refused, []))
          end
      | None => (s, (refused, []))
      end
  | 13 :: u :: start :: count :: stride :: _ =>          (* real int64 items into the union *)
      match reg_get (uns s) u with
      | Some x =>
          match feed_union x (batch_items (zn count) (z_to_u64 start) (z_to_u64 stride)) with
          | Some x' => ({| sks := sks s; uns := reg_set (uns s) u x' |}, (ok, []))
          | None => (s, (refused, []))
          end
      | None => (s, (refused, []))
      end
  | 14 :: u :: ty :: _ =>                                (* get_result(ty), observed *)
      match reg_get (uns s) u, tgt_of_Z ty with
      | Some x, Some t =>
          match u_result (n_u x) t with
          | Some i => (s, (observe i, spec_line (n_log x) (n_minlg x)))
          | None => (s, (refused, []))
          end
      | _, _ => (s, (refused, []))
      end
  | 15 :: u :: _ =>                                      (* an estimate accessor *)
      match reg_get (uns s) u with
      | Some x =>
          match u_estimate (n_u x) with
          | Some u' => ({| sks := sks s; uns := reg_set (uns s) u {| n_u := u'; n_log := n_log x; n_minlg := n_minlg x |} |}, (ok, []))
          | None => (s, (refused, []))
          end
      | None => (s, (refused, []))
      end
  | 16 :: u :: _ =>                                      (* reset *)
      match reg_get (uns s) u with
      | Some x =>
          let u' := u_reset v_run (n_u x) in
          ({| sks := sks s; uns := reg_set (uns s) u {| n_u := u'; n_log := []; n_minlg := u_lgmax u' |} |}, (ok, []))
      | None => (s, (refused, []))
      end
  | 17 :: u :: _ =>                                      (* the union's own accessors *)
      match reg_get (uns s) u with
      | Some x =>
          let g := u_gadget (n_u x) in
          (s, ([Nz (sk_lgk g); bz (sk_is_empty g);
                match g with IList _ => 0 | ISet _ => 1 | IHll _ => 2 end; 2],
               [Nz (n_minlg x); Nz (lenN (n_log x))]))
      | None => (s, (refused, []))
      end
  | 18 :: u :: r :: ty :: _ =>                           (* r := u.get_result(ty) *)
      match reg_get (uns s) u, tgt_of_Z ty with
      | Some x, Some t =>
          match u_result (n_u x) t with
          | Some i => ({| sks := reg_set (sks s) r {| k_impl := i; k_log := n_log x |}; uns := uns s |}, (ok, []))
          | None => (s, (refused, []))
          end
      | _, _ => (s, (refused, []))
      end
  | 19 :: u :: _ =>                                      (* all estimator entry points on fresh copies: the union is untouched *)
      match reg_get (uns s) u with
      | Some _ => (s, (ok, []))
      | None => (s, (refused, []))
      end
  | _ => (s, ([-2], []))
  end.

Definition run (ops : list opline) : list outline := run_case step {| sks := []; uns := [] |} ops.
