(* KllDefs.v — executable model of kll/include/kll_sketch_impl.hpp + kll_helper_impl.hpp (no proofs here).
   Items are integers with the usual order (the harness instantiates kll_sketch<int64_t>, kll_sketch<double>
   fed integer values, and a string type under a reversed comparator through an order isomorphism).
   Every coin the code draws (random_utils::random_bit() in randomly_halve_up/down) is a [Flip] node of the
   choice monad [M] (Choice.v); the runner replays the coins the implementation reported.

   levels : list (list Z) — level h is the slice items_[levels_[h] .. levels_[h+1]) in PHYSICAL order
   (level 0 grows downward: an update puts the new item in front). *)
From Coq Require Import ZArith List Bool Lia.
From DS Require Import RunnerLib SortedView.
From DS Require Export Choice.
Import ListNotations.
Local Open Scope Z_scope.

(* ---------- capacities (kll_helper) ---------- *)
Definition len {A} (l : list A) : Z := Z.of_nat (length l).

Definition int_cap_aux_aux (k : Z) (depth : nat) : Z :=
  (((2 * k) * 2 ^ Z.of_nat depth) / 3 ^ Z.of_nat depth + 1) / 2.

Definition int_cap_aux (k : Z) (depth : nat) : Z :=
  if (depth <=? 30)%nat then int_cap_aux_aux k depth
  else let half := Nat.div depth 2 in
       let rest := (depth - half)%nat in
       int_cap_aux_aux (int_cap_aux_aux k half) rest.

(* capacity of the level at [depth] below the top; m = DEFAULT_M = 8 *)
Definition cap_depth (k : Z) (depth : nat) : Z := Z.max 8 (int_cap_aux k depth).

Definition level_capacity (k : Z) (num_levels height : nat) : Z :=
  cap_depth k (num_levels - height - 1).

Fixpoint total_capacity (k : Z) (num_levels : nat) : Z :=
  match num_levels with
  | O => 0
  | S n => total_capacity k n + cap_depth k n
  end.

(* ---------- sorted runs ---------- *)
Fixpoint insert (x : Z) (l : list Z) : list Z :=
  match l with
  | [] => [x]
  | y :: r => if x <? y then x :: l else y :: insert x r
  end.
Fixpoint isort (l : list Z) : list Z :=          (* std::sort on integers: the sorted permutation *)
  match l with
  | [] => []
  | x :: r => insert x (isort r)
  end.

(* items at even / odd positions (0-based) *)
Fixpoint evens (l : list Z) : list Z :=
  match l with
  | [] => []
  | x :: r => x :: match r with [] => [] | _ :: r' => evens r' end
  end.
Definition odds (l : list Z) : list Z := match l with [] => [] | _ :: r => evens r end.

(* randomly_halve_down: offset = coin, keeps positions offset, offset+2, ...
   randomly_halve_up  : keeps positions last-offset, last-offset-2, ... of an even-length run *)
Definition halve_down (c : bool) (l : list Z) : list Z := if c then odds l else evens l.
Definition halve_up (c : bool) (l : list Z) : list Z := if c then evens l else odds l.

(* kll_helper::merge_sorted_arrays(a, b): takes from a iff a < b (ties: b first) *)
Fixpoint merge_sorted (a : list Z) : list Z -> list Z :=
  fix inner (b : list Z) : list Z :=
    match a, b with
    | [], _ => b
    | _, [] => a
    | x :: a', y :: b' => if x <? y then x :: merge_sorted a' b else y :: inner b'
    end.

(* the compaction of one level, as coded twice (compress_while_updating and general_compress):
   odd population: the physically first item stays; the rest is sorted if it is an unsorted level 0;
   level above empty -> halve up, else halve down and merge.  Returns (what stays, new level above). *)
Definition compact_level (sort0 : bool) (raw above : list Z) (c : bool) : list Z * list Z :=
  let odd := Nat.odd (length raw) in
  let leftover := if odd then firstn 1 raw else [] in
  let adj := if odd then tl raw else raw in
  let adj := if sort0 then isort adj else adj in
  let up := match above with
            | [] => halve_up c adj
            | _ => merge_sorted (halve_down c adj) above
            end in
  (leftover, up).

(* ---------- the sketch ---------- *)
Record kll := mkkll {
  kk : Z;                    (* k_ *)
  min_k : Z;                 (* min_k_ *)
  nn : Z;                    (* n_ *)
  cap : Z;                   (* items_size_ *)
  levels : list (list Z);    (* num_levels_ = length levels *)
  l0s : bool;                (* is_level_zero_sorted_ *)
  mn : Z; mx : Z             (* min_item_, max_item_ (meaningful when n > 0) *)
}.

Definition set_levels (s : kll) (lv : list (list Z)) (c : Z) : kll :=
  mkkll (kk s) (min_k s) (nn s) c lv (l0s s) (mn s) (mx s).

Definition kll_new (k : Z) : kll := mkkll k k 0 k [[]] false 0 0.

Definition retained (lv : list (list Z)) : Z := fold_right (fun l a => len l + a) 0 lv.
Definition num_retained (s : kll) : Z := retained (levels s).
Definition free (s : kll) : Z := cap s - num_retained s.            (* levels_[0] *)

(* find_level_to_compact *)
Fixpoint find_level (k : Z) (nl h : nat) (ls : list (list Z)) : option nat :=
  match ls with
  | [] => None                        (* "capacity calculation error" *)
  | l :: r => if level_capacity k nl h <=? len l then Some h else find_level k nl (S h) r
  end.

(* levels h and h+1 replaced by the outcome of compacting level h (a new top level appears when h was the top) *)
Fixpoint compact_at (h : nat) (sort0 c : bool) (lv : list (list Z)) : list (list Z) :=
  match lv with
  | [] => []
  | raw :: rest =>
      match h with
      | O => let '(lo, up) := compact_level sort0 raw (hd [] rest) c in lo :: up :: tl rest
      | S h' => raw :: compact_at h' sort0 c rest
      end
  end.

(* compress_while_updating (called when levels_[0] == 0) *)
Definition compress_upd (s : kll) : M kll :=
  let nl := length (levels s) in
  match find_level (kk s) nl 0 (levels s) with
  | None => Ret s
  | Some h =>
      (* add_empty_top_level_to_completely_full_sketch: the buffer grows by the capacity of the new bottom level *)
      let cp := if (S h =? nl)%nat then cap s + level_capacity (kk s) (S nl) 0 else cap s in
      Flip (fun c => Ret (set_levels s (compact_at h ((h =? 0)%nat && negb (l0s s)) c (levels s)) cp))
  end.

Definition push0 (s : kll) (x : Z) : kll :=       (* n_++; is_level_zero_sorted_ = false; items_[--levels_[0]] = x *)
  mkkll (kk s) (min_k s) (nn s + 1) (cap s)
        (match levels s with [] => [[x]] | l0 :: r => (x :: l0) :: r end) false (mn s) (mx s).

Definition internal_update (s : kll) (x : Z) : M kll :=
  bind (if free s =? 0 then compress_upd s else Ret s) (fun s' => Ret (push0 s' x)).

Definition upd_minmax (s : kll) (lo hi : Z) : kll :=
  if nn s =? 0 then mkkll (kk s) (min_k s) (nn s) (cap s) (levels s) (l0s s) lo hi
  else mkkll (kk s) (min_k s) (nn s) (cap s) (levels s) (l0s s)
             (if lo <? mn s then lo else mn s) (if mx s <? hi then hi else mx s).

Definition update (s : kll) (x : Z) : M kll := internal_update (upd_minmax s x x) x.

(* ---------- merge ---------- *)
Fixpoint add_l0 (s : kll) (items : list Z) : M kll :=
  match items with
  | [] => Ret s
  | x :: r => bind (internal_update s x) (fun s' => add_l0 s' r)
  end.

(* populate_work_arrays: level 0 of this; levels >= 1 pairwise merged (self first, ties: other first) *)
Fixpoint zip_levels (a b : list (list Z)) : list (list Z) :=
  match a, b with
  | [], _ => b
  | _, [] => a
  | x :: a', y :: b' => merge_sorted x y :: zip_levels a' b'
  end.

(* general_compress.  cur = current_level, nl = current_num_levels, cnt = current_item_count,
   tgt = target_item_count, ins = in_levels from cur upwards.  Result: (out levels from cur upwards, final_capacity). *)
Definition cons_fst {A B} (a : A) (r : list A * B) : list A * B := (a :: fst r, snd r).

Fixpoint gc (fuel : nat) (k : Z) (s0 : bool) (cur nl : nat) (cnt tgt : Z)
         (ins : list (list Z)) : M (list (list Z) * Z) :=
  match fuel with
  | O => Ret (ins, tgt)
  | S f =>
    match ins with
    | [] => Ret ([], tgt)
    | raw :: rest =>
      if (cnt <? tgt) || (len raw <? level_capacity k nl cur) then
        (* move level over as is *)
        if (S cur =? nl)%nat then Ret (raw :: rest, tgt)
        else bind (gc f k s0 (S cur) nl cnt tgt rest) (fun r => Ret (cons_fst raw r))
      else
        Flip (fun c =>
          let lu := compact_level ((cur =? 0)%nat && negb s0) raw (hd [] rest) c in
          let cnt' := cnt - len raw / 2 in
          let top := (S cur =? nl)%nat in
          let nl' := if top then S nl else nl in
          let tgt' := if top then tgt + level_capacity k (S nl) 0 else tgt in
          bind (gc f k s0 (S cur) nl' cnt' tgt' (snd lu :: tl rest)) (fun r => Ret (cons_fst (fst lu) r)))
    end
  end.

Definition merge_higher (s o : kll) : M kll :=
  let prov := Nat.max (length (levels s)) (length (levels o)) in
  let work := hd [] (levels s) :: zip_levels (tl (levels s)) (tl (levels o)) in
  let cnt := retained work in
  bind (gc (length work + Z.to_nat cnt + 2) (kk s) (l0s s) 0 prov cnt (total_capacity (kk s) prov) work)
       (fun r => Ret (set_levels s (fst r) (snd r))).

Definition merge (s o : kll) : M kll :=
  if nn o =? 0 then Ret s else
  let s1 := upd_minmax s (mn o) (mx o) in
  let final_n := nn s + nn o in
  bind (add_l0 s1 (hd [] (levels o))) (fun s2 =>
  bind (if (2 <=? length (levels o))%nat then merge_higher s2 o else Ret s2) (fun s3 =>
  Ret (mkkll (kk s3) (if (2 <=? length (levels o))%nat then Z.min (min_k s3) (min_k o) else min_k s3)
             final_n (cap s3) (levels s3) (l0s s3) (mn s3) (mx s3)))).

(* ---------- iterator (kll_sketch::const_iterator, with the repair fixes/07_kll_iterator.patch) ---------- *)
(* b i = levels_[i] - levels_[0] *)
Definition bound (lv : list (list Z)) (i : nat) : Z := retained (firstn i lv).

(* while (level < num_levels && levels[level] == levels[level + 1]) { ++level; weight *= 2; } *)
Fixpoint iter_while (fuel : nat) (lv : list (list Z)) (level : nat) (w : Z) : nat * Z :=
  match fuel with
  | O => (level, w)
  | S f =>
      if (level <? length lv)%nat && (bound lv level =? bound lv (S level)) then iter_while f lv (S level) (2 * w)
      else (level, w)
  end.

(* operator++ at the end of a level: do { ++level; weight *= 2; } while (level < num_levels && levels[level] == levels[level + 1]);
   i.e. one unconditional step, then the while loop *)
Definition iter_skip (fuel : nat) (lv : list (list Z)) (level : nat) (w : Z) : nat * Z :=
  iter_while fuel lv (S level) (2 * w).

Fixpoint iter_go (flat : list Z) (lv : list (list Z)) (index : Z) (level : nat) (w : Z) : list (Z * Z) :=
  match flat with
  | [] => []
  | x :: r =>
      let index' := index + 1 in
      let '(level', w') := if index' =? bound lv (S level) then iter_skip (S (length lv)) lv level w else (level, w) in
      (x, w) :: iter_go r lv index' level' w'
  end.

(* begin(): index = levels_[0], level = 0, weight = 1; the (repaired) constructor then goes to the first non-empty level.
   The constructor AS CODED before the repair (no loop) is Regression_C07_kll.iterate_as_coded. *)
Definition iterate (s : kll) : list (Z * Z) :=
  let '(level, w) := iter_while (S (length (levels s))) (levels s) 0%nat 1 in
  iter_go (concat (levels s)) (levels s) 0 level w.

(* what a correct iterator yields: every item of level h with weight 2^h *)
Fixpoint iter_spec (w : Z) (lv : list (list Z)) : list (Z * Z) :=
  match lv with
  | [] => []
  | l :: r => map (fun x => (x, w)) l ++ iter_spec (2 * w) r
  end.

(* ---------- sorted view ---------- *)
Definition sort_level_zero (s : kll) : kll :=
  if l0s s then s else
  mkkll (kk s) (min_k s) (nn s) (cap s)
        (match levels s with [] => [] | l0 :: r => isort l0 :: r end) true (mn s) (mx s).

Fixpoint add_levels (es : list (entry Z)) (w : Z) (lv : list (list Z)) : list (entry Z) :=
  match lv with
  | [] => es
  | l :: r => add_levels (sv_add Z Z.ltb es l w) (2 * w) r
  end.

(* get_sorted_view() of an already level-zero-sorted sketch *)
Definition sorted_view (s : kll) : view Z := sv_finish Z (add_levels [] 1 (levels s)).

(* ---------- line protocol ---------- *)
Record reg := mkreg { r_kind : Z; r_sk : kll; r_log : list Z }.   (* r_log: ghost, every accepted item (newest first) *)

(* merge sort, used only for the ground-truth order statistics of the S lines *)
Fixpoint msort (fuel : nat) (l : list Z) : list Z :=
  match fuel with
  | O => isort l
  | S f => match l with
           | [] | [_] => l
           | _ => merge_sorted (msort f (evens l)) (msort f (odds l))
           end
  end.

Definition st := list (Z * reg).

Fixpoint sort_pairs_ins (p : Z * Z) (l : list (Z * Z)) : list (Z * Z) :=
  match l with
  | [] => [p]
  | q :: r => if (fst p <? fst q) || ((fst p =? fst q) && (snd p <=? snd q)) then p :: l else q :: sort_pairs_ins p r
  end.
Fixpoint sort_pairs (l : list (Z * Z)) : list (Z * Z) :=
  match l with [] => [] | p :: r => sort_pairs_ins p (sort_pairs r) end.

Definition flat_pairs (l : list (Z * Z)) : list Z := flat_map (fun p => [fst p; snd p]) l.

Definition count_if (p : Z -> bool) (l : list Z) : Z := len (filter p l).
Definition lmin (l : list Z) : Z := match l with [] => 0 | x :: r => fold_left Z.min r x end.
Definition lmax (l : list Z) : Z := match l with [] => 0 | x :: r => fold_left Z.max r x end.

Definition with_sk (s : st) (r : Z) (g : reg) (sk : kll) : st := reg_set s r (mkreg (r_kind g) sk (r_log g)).

(* the operations of the script *)
Inductive kop : Type :=
| ONew (r kind k : Z)            (* 1: new sketch *)
| OUpd (r v : Z)                 (* 2: update *)
| ONan (r : Z)                   (* 3: update with NaN (double sketches): ignored *)
| OMrg (r r2 mode : Z)           (* 4: merge r2 into r; mode 1: rvalue, r2 is dropped *)
| OObs (r : Z)                   (* 5: observe *)
| ORank (r x : Z)                (* 6: rank numerators: inclusive, exclusive *)
| OQuant (r j t : Z)             (* 7: quantiles at rank j / 2^t: inclusive, exclusive *)
| OCdf (r : Z) (splits : list Z) (* 8: CDF numerators inclusive ++ exclusive *)
| OCdfNan (r : Z)                (* 9: CDF with a NaN split point (double sketches): refused *)
| OView (r : Z)                  (* 10: sorted view listing, ties collapsed *)
| OCopy (r r2 : Z)               (* 13: r := copy of r2 *)
| OHarness                       (* 97, 98, 99: coin source of the harness *)
| OBad.

Definition parse (o : line) : kop :=
  match o with
  | 1 :: r :: kind :: k :: _ => ONew r kind k
  | 2 :: r :: v :: _ => OUpd r v
  | 3 :: r :: _ => ONan r
  | 4 :: r :: r2 :: mode :: _ => OMrg r r2 mode
  | 5 :: r :: _ => OObs r
  | 6 :: r :: x :: _ => ORank r x
  | 7 :: r :: j :: t :: _ => OQuant r j t
  | 8 :: r :: splits => OCdf r splits
  | 9 :: r :: _ => OCdfNan r
  | 10 :: r :: _ => OView r
  | 13 :: r :: r2 :: _ => OCopy r r2
  | 97 :: _ => OHarness
  | 98 :: _ => OHarness
  | 99 :: _ => OHarness
  | _ => OBad
  end.

(* every operation that draws no coin *)
Definition pstep (s : st) (o : kop) : st * outline :=
  match o with
  | ONew r kind k =>
      if (8 <=? k) && (k <=? 65535) then (reg_set s r (mkreg kind (kll_new k) []), (ok, []))
      else (s, (refused, []))
  | ONan r =>
      match reg_get s r with
      | Some g => (s, (ok, []))
      | None => (s, (refused, []))
      end
  | OObs r =>
      match reg_get s r with
      | Some g =>
          let sk := r_sk g in
          let it := sort_pairs (iterate sk) in
          let hdr := [nn sk; num_retained sk; bz (nn sk =? 0); bz (2 <=? length (levels sk))%nat; min_k sk] in
          let mm := if nn sk =? 0 then [] else [mn sk; mx sk] in
          (s, (hdr ++ mm ++ [len it] ++ flat_pairs it,
               [len (r_log g); lmin (r_log g); lmax (r_log g); cap sk;
                total_capacity (kk sk) (length (levels sk))]))
      | None => (s, (refused, []))
      end
  | ORank r x =>
      match reg_get s r with
      | Some g =>
          if nn (r_sk g) =? 0 then (s, (refused, [])) else
          let sk := sort_level_zero (r_sk g) in
          let v := sorted_view sk in
          (with_sk s r g sk,
           ([rank_num Z Z.ltb v x true; rank_num Z Z.ltb v x false; bz (2 <=? length (levels sk))%nat],
            [count_if (fun y => y <=? x) (r_log g); count_if (fun y => y <? x) (r_log g); len (r_log g)]))
      | None => (s, (refused, []))
      end
  | OQuant r j t =>
      match reg_get s r with
      | Some g =>
          if (nn (r_sk g) =? 0) || (j <? 0) || (2 ^ t <? j) then (s, (refused, [])) else
          let sk := sort_level_zero (r_sk g) in
          let v := sorted_view sk in
          let n := v_total v in
          match quantile_w Z v (weight_of_rank j t n true) true, quantile_w Z v (weight_of_rank j t n false) false with
          | Some a, Some b =>
              let sl := msort 64 (r_log g) in
              let nl := len sl in
              let wi := weight_of_rank j t nl true in
              let we := weight_of_rank j t nl false in
              (with_sk s r g sk,
               ([a; b; bz (2 <=? length (levels sk))%nat],
                [nth (Z.to_nat (Z.max 0 (wi - 1))) sl 0; nth (Z.to_nat (Z.min we (nl - 1))) sl 0]))
          | _, _ => (s, (refused, []))
          end
      | None => (s, (refused, []))
      end
  | OCdf r splits =>
      match reg_get s r with
      | Some g =>
          if nn (r_sk g) =? 0 then (s, (refused, [])) else
          let sk := sort_level_zero (r_sk g) in
          let v := sorted_view sk in
          match cdf_num Z Z.ltb v splits true, cdf_num Z Z.ltb v splits false with
          | Some a, Some b => (with_sk s r g sk, (a ++ b, []))
          | _, _ => (with_sk s r g sk, (refused, []))
          end
      | None => (s, (refused, []))
      end
  | OCdfNan r =>
      match reg_get s r with
      | Some g =>
          if nn (r_sk g) =? 0 then (s, (refused, [])) else
          (with_sk s r g (sort_level_zero (r_sk g)), (refused, []))
      | None => (s, (refused, []))
      end
  | OView r =>
      match reg_get s r with
      | Some g =>
          let sk := sort_level_zero (r_sk g) in
          let v := sorted_view sk in
          (with_sk s r g sk, (v_total v :: flat_pairs (groups Z Z.ltb (v_entries v)), []))
      | None => (s, (refused, []))
      end
  | OCopy r r2 =>
      match reg_get s r2 with
      | Some g2 => (reg_set s r g2, (ok, []))
      | None => (s, (refused, []))
      end
  | OHarness => (s, (ok, []))
  | _ => (s, ([-2], []))
  end.

(* one operation as a tree over the coins it draws (update and merge; everything else is a leaf) *)
Definition mstep_op (s : st) (o : kop) : M (st * outline) :=
  match o with
  | OUpd r v =>
      match reg_get s r with
      | Some g => bind (update (r_sk g) v)
                    (fun sk => Ret (reg_set s r (mkreg (r_kind g) sk (v :: r_log g)), (ok, [])))
      | None => Ret (s, (refused, []))
      end
  | OMrg r r2 mode =>
      match reg_get s r, reg_get s r2 with
      | Some g, Some g2 =>
          if (r =? r2) || negb (r_kind g =? r_kind g2) then Ret (s, (refused, [])) else
          bind (merge (r_sk g) (r_sk g2))
            (fun sk => let s' := reg_set s r (mkreg (r_kind g) sk (r_log g2 ++ r_log g)) in
                       Ret ((if mode =? 1 then reg_del s' r2 else s'), (ok, [])))
      | _, _ => Ret (s, (refused, []))
      end
  | _ => Ret (pstep s o)
  end.

Definition mstep (s : st) (o : line) : M (st * outline) := mstep_op s (parse o).

(* the runner replays the coins the implementation reported for this operation; all of them must be consumed *)
Definition step (s : st) (o e : line) : st * outline :=
  match replay (mstep s o) e with
  | Some (r, []) => r
  | _ => (s, ([-3], []))
  end.

Definition run (ops : list opline) : list outline := run_case step [] ops.

(* a whole script as ONE tree over all the coins it draws (the register file after the last operation at the leaves) *)
Definition mstep_st (s : st) (o : line) : M st := bind (mstep s o) (fun so => Ret (fst so)).
Fixpoint mrun_from (m : M st) (ops : list line) : M st :=
  match ops with
  | [] => m
  | o :: r => mrun_from (bind m (fun s => mstep_st s o)) r
  end.
Definition mrun (ops : list line) : M st := mrun_from (Ret []) ops.
