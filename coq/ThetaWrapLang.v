(* ThetaWrapLang.v — generic transfer facts for the straight-line language of BitPackLang.v:
   re-running a per-value unpack program (a) on a byte array of which the original one was a window
   (all byte indices shifted by k) and (b) on a different value array that agrees only at slot i. *)
From Coq Require Import NArith List Bool Lia Arith.
From DS Require Import BitPackLang BitPackProofs BitPackSpec.
Import ListNotations.
Local Open Scope N_scope.

(* shift all byte indices by k *)
Fixpoint shift_e (k : nat) (e : bexp) : bexp :=
  match e with
  | Val i => Val i
  | Byte j => Byte (k + j)
  | Shl e n => Shl (shift_e k e) n
  | Shr e n => Shr (shift_e k e) n
  | And e m => And (shift_e k e) m
  | Cast t e => Cast t (shift_e k e)
  end.
Definition shift_s (k : nat) (st : stmt) : stmt :=
  match st with
  | SetByte j e => SetByte (k + j) (shift_e k e)
  | OrByte j e => OrByte (k + j) (shift_e k e)
  | SetVal i e => SetVal i (shift_e k e)
  | OrVal i e => OrVal i (shift_e k e)
  end.

(* expressions / statements that mention no value slot other than i and write no byte *)
Fixpoint vals_only (i : nat) (e : bexp) : Prop :=
  match e with
  | Val i' => i' = i
  | Byte _ => True
  | Shl e _ | Shr e _ | And e _ | Cast _ e => vals_only i e
  end.
Definition uses_only (i : nat) (st : stmt) : Prop :=
  match st with
  | SetVal i' e | OrVal i' e => i' = i /\ vals_only i e
  | SetByte _ _ | OrByte _ _ => False
  end.

(* ---- 1 ---- *)
Lemma exec_app : forall p q s,
  exec s (p ++ q) = match exec s p with Some s' => exec s' q | None => None end.
Proof.
  induction p as [|st p IH]; intros q s; cbn [app exec]; [reflexivity|].
  destruct (exec1 s st) as [s'|]; [apply IH|reflexivity].
Qed.

(* ---- 2 ---- *)
Lemma type_of_shift : forall k e, type_of (shift_e k e) = type_of e.
Proof.
  intros k e; induction e; cbn [shift_e type_of]; try rewrite IHe; reflexivity.
Qed.

(* ---- 3 ---- *)
Lemma set_some : forall A (l : list (option A)) i v,
  (i < length l)%nat -> exists l', set l i v = Some l'.
Proof.
  intros A l; induction l as [|x t IH]; intros i v H; cbn [length] in H; [lia|].
  destruct i as [|i']; cbn [set]; [eexists; reflexivity|].
  destruct (IH i' v ltac:(lia)) as [t' Ht]. rewrite Ht. eexists; reflexivity.
Qed.

Lemma set_spec : forall A (l l' : list (option A)) i v,
  set l i v = Some l' ->
  (i < length l)%nat /\ length l' = length l /\ get l' i = Some v /\
  (forall m, m <> i -> get l' m = get l m).
Proof.
  intros A l; induction l as [|x t IH]; intros l' i v H; cbn [set] in H; [discriminate|].
  destruct i as [|i'].
  - injection H as <-. cbn [length]. repeat split; [lia|].
    intros m Hm. destruct m as [|m']; [congruence|reflexivity].
  - destruct (set t i' v) as [t'|] eqn:E; [|discriminate]. injection H as <-.
    destruct (IH _ _ _ E) as (H1 & H2 & H3 & H4).
    cbn [length]. repeat split; [lia|lia|exact H3|].
    intros m Hm. destruct m as [|m']; [reflexivity|].
    unfold get in *. cbn [nth]. apply H4. congruence.
Qed.

(* ---- 4 ---- *)
Lemma eval_transfer : forall i e v1 W v2 L k x,
  vals_only i e ->
  (forall j y, get W j = Some y -> get L (k + j) = Some y) ->
  get v2 i = get v1 i ->
  eval (v1, W) e = Some x -> eval (v2, L) (shift_e k e) = Some x.
Proof.
  intros i e v1 W v2 L k x Hv HW Hg; revert x Hv.
  induction e as [i'|j|e IH n|e IH n|e IH m|t e IH]; intros x Hv H;
    cbn [vals_only] in Hv; cbn [shift_e eval fst snd] in *.
  - subst i'. congruence.
  - apply HW, H.
  - destruct (eval (v1, W) e) as [v|] eqn:E; [|discriminate].
    rewrite (IH v Hv eq_refl), type_of_shift. exact H.
  - destruct (eval (v1, W) e) as [v|] eqn:E; [|discriminate].
    rewrite (IH v Hv eq_refl), type_of_shift. exact H.
  - destruct (eval (v1, W) e) as [v|] eqn:E; [|discriminate].
    rewrite (IH v Hv eq_refl). exact H.
  - destruct (eval (v1, W) e) as [v|] eqn:E; [|discriminate].
    rewrite (IH v Hv eq_refl). exact H.
Qed.

(* ---- 5 ---- *)
Lemma exec_transfer : forall i p, Forall (uses_only i) p ->
  forall v1 W v1' W', exec (v1, W) p = Some (v1', W') ->
  forall v2 L k,
    (forall j y, get W j = Some y -> get L (k + j) = Some y) ->
    get v2 i = get v1 i -> (i < length v2)%nat ->
    W' = W /\ (forall m, m <> i -> get v1' m = get v1 m) /\
    exists v2', exec (v2, L) (map (shift_s k) p) = Some (v2', L) /\ get v2' i = get v1' i /\
                (forall m, m <> i -> get v2' m = get v2 m) /\ length v2' = length v2.
Proof.
  intros i p Hp; induction Hp as [|st p Hst Hp IH];
    intros v1 W v1' W' Hex v2 L k HW Hg Hlen.
  - cbn [exec] in Hex. injection Hex as <- <-. split; [reflexivity|]. split; [reflexivity|].
    exists v2. cbn [map exec]. repeat split; assumption.
  - cbn [exec] in Hex. destruct (exec1 (v1, W) st) as [[u1 Wu]|] eqn:E1; [|discriminate].
    (* one step on both sides *)
    assert (Hstep : Wu = W /\ (forall m, m <> i -> get u1 m = get v1 m) /\
              exists u2, exec1 (v2, L) (shift_s k st) = Some (u2, L) /\ get u2 i = get u1 i /\
                (forall m, m <> i -> get u2 m = get v2 m) /\ length u2 = length v2).
    { destruct st as [j e|j e|i' e|i' e]; cbn [uses_only] in Hst; try contradiction;
        destruct Hst as [-> Hv]; cbn [exec1 shift_s fst snd] in *.
      - destruct (eval (v1, W) e) as [x|] eqn:Ee; [|discriminate].
        destruct (set v1 i _) as [b|] eqn:Es; [|discriminate]. injection E1 as <- <-.
        destruct (set_spec _ _ _ _ _ Es) as (_ & _ & Hb1 & Hb2).
        split; [reflexivity|]. split; [exact Hb2|].
        rewrite (eval_transfer i e v1 W v2 L k x Hv HW Hg Ee).
        destruct (set_some _ v2 i (x mod 2 ^ N.of_nat (width U64)) Hlen) as [b2 Es2].
        rewrite Es2. destruct (set_spec _ _ _ _ _ Es2) as (_ & Hl & Hc1 & Hc2).
        exists b2. repeat split; [congruence|exact Hc2|exact Hl].
      - destruct (get v1 i) as [old|] eqn:Eo; [|discriminate].
        destruct (eval (v1, W) e) as [x|] eqn:Ee; [|discriminate].
        destruct (set v1 i _) as [b|] eqn:Es; [|discriminate]. injection E1 as <- <-.
        destruct (set_spec _ _ _ _ _ Es) as (_ & _ & Hb1 & Hb2).
        split; [reflexivity|]. split; [exact Hb2|].
        rewrite Hg.
        rewrite (eval_transfer i e v1 W v2 L k x Hv HW (eq_trans Hg (eq_sym Eo)) Ee).
        destruct (set_some _ v2 i (N.lor old x mod 2 ^ N.of_nat (width U64)) Hlen) as [b2 Es2].
        rewrite Es2. destruct (set_spec _ _ _ _ _ Es2) as (_ & Hl & Hc1 & Hc2).
        exists b2. repeat split; [congruence|exact Hc2|exact Hl]. }
    destruct Hstep as (-> & Hu1 & u2 & Hx2 & Hgu & Hu2 & Hlu).
    destruct (IH _ _ _ _ Hex u2 L k HW Hgu ltac:(lia)) as (HW' & Hr1 & v2' & Hx & Hgi & Hr2 & Hl2).
    split; [exact HW'|]. split.
    { intros m Hm. rewrite (Hr1 m Hm). apply Hu1, Hm. }
    exists v2'. cbn [map exec]. rewrite Hx2. split; [exact Hx|]. split; [exact Hgi|]. split.
    { intros m Hm. rewrite (Hr2 m Hm). apply Hu2, Hm. }
    congruence.
Qed.

(* ---- 6 ---- *)
Lemma unroll_full_shift : forall f i bits k j,
  unroll_unpack_full f i bits (k + j) =
  let '(p, j', o) := unroll_unpack_full f i bits j in (map (shift_s k) p, (k + j')%nat, o).
Proof.
  induction f as [|f IH]; intros i bits k j; cbn [unroll_unpack_full]; [reflexivity|].
  destruct (8 <=? bits)%nat.
  - specialize (IH i (bits - 8)%nat k (S j)).
    rewrite Nat.add_succ_r in IH. rewrite IH.
    destruct (unroll_unpack_full f i (bits - 8) (S j)) as [[r j'] o].
    reflexivity.
  - destruct (0 <? bits)%nat; reflexivity.
Qed.

Lemma unroll1_shift : forall i bits k j o,
  unroll_unpack1 i bits (k + j) o =
  let '(p, j', o') := unroll_unpack1 i bits j o in (map (shift_s k) p, (k + j')%nat, o').
Proof.
  intros i bits k j o. unfold unroll_unpack1.
  set (avail := (8 - o)%nat). set (chunk := Nat.min avail bits).
  assert (Hj : (if (avail =? chunk)%nat then S (k + j) else (k + j)%nat) =
               (k + (if (avail =? chunk)%nat then S j else j))%nat).
  { destruct (avail =? chunk)%nat; [apply eq_sym, Nat.add_succ_r|reflexivity]. }
  rewrite Hj. set (j1 := if (avail =? chunk)%nat then S j else j).
  destruct ((8 <=? bits - chunk)%nat || (0 <? bits - chunk)%nat).
  - rewrite unroll_full_shift.
    destruct (unroll_unpack_full 40 i (bits - chunk) j1) as [[r j'] o'].
    reflexivity.
  - reflexivity.
Qed.

Lemma unroll_full_uses : forall f i bits j,
  Forall (uses_only i) (fst (fst (unroll_unpack_full f i bits j))).
Proof.
  induction f as [|f IH]; intros i bits j; cbn [unroll_unpack_full]; [constructor|].
  destruct (8 <=? bits)%nat.
  - specialize (IH i (bits - 8)%nat (S j)).
    destruct (unroll_unpack_full f i (bits - 8) (S j)) as [[r j'] o].
    cbn [fst] in *. repeat constructor; assumption.
  - destruct (0 <? bits)%nat; cbn [fst]; repeat constructor.
Qed.

Lemma unroll1_uses : forall i bits j o,
  Forall (uses_only i) (fst (fst (unroll_unpack1 i bits j o))).
Proof.
  intros i bits j o. unfold unroll_unpack1.
  set (avail := (8 - o)%nat). set (chunk := Nat.min avail bits).
  set (j1 := if (avail =? chunk)%nat then S j else j).
  destruct ((8 <=? bits - chunk)%nat || (0 <? bits - chunk)%nat).
  - pose proof (unroll_full_uses 40 i (bits - chunk)%nat j1) as H.
    destruct (unroll_unpack_full 40 i (bits - chunk) j1) as [[r j'] o'].
    cbn [fst] in *. constructor; [|exact H]. cbn [uses_only vals_only]. auto.
  - cbn [fst]. constructor; [|constructor]. cbn [uses_only vals_only]. auto.
Qed.

(* ---- 7 ---- *)
Lemma get_map_some : forall (l : list N) j y,
  get (map Some l) j = Some y <-> nth_error l j = Some y.
Proof.
  unfold get. induction l as [|x l IH]; intros j y; destruct j; cbn [map nth nth_error];
    try (split; discriminate); [reflexivity|apply IH].
Qed.

Lemma nth_error_firstn_some : forall A (l : list A) n j y,
  nth_error (firstn n l) j = Some y -> nth_error l j = Some y.
Proof.
  intros A l; induction l as [|x l IH]; intros n j y H.
  - rewrite firstn_nil in H. exact H.
  - destruct n; [destruct j; discriminate|]. cbn [firstn] in H.
    destruct j; cbn [nth_error] in *; [exact H|eapply IH, H].
Qed.

Lemma nth_error_skipn_add : forall A (l : list A) k j,
  nth_error (skipn k l) j = nth_error l (k + j).
Proof.
  intros A l; induction l as [|x l IH]; intros k j.
  - rewrite skipn_nil. destruct j, k; reflexivity.
  - destruct k; [reflexivity|]. cbn [skipn Nat.add nth_error]. apply IH.
Qed.

Lemma window_get : forall (l : list N) n k j y,
  get (map Some (firstn n (skipn k l))) j = Some y -> get (map Some l) (k + j) = Some y.
Proof.
  intros l n k j y H. apply get_map_some in H. apply get_map_some.
  apply nth_error_firstn_some in H. rewrite nth_error_skipn_add in H. exact H.
Qed.

(* ---- 8 ---- *)
Lemma get_repeat_none : forall A n i, get (repeat (@None A) n) i = None.
Proof.
  intros A n; induction n as [|n IH]; intros i; unfold get in *; destruct i; cbn [repeat nth];
    try reflexivity. apply IH.
Qed.
