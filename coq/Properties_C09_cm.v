(* Properties_C09_cm.v — the count-min sketch image round-trips through both readers and the advertised size is the
   image size. Only statements; proofs live in CodecCmProofs.v. The model is CodecCmDefs.v (extracted and compared
   with count_min_sketch::serialize / deserialize of the C++ on every run). [wf] describes every sketch the C++ can
   build (uint8 hashes, 3 <= uint32 buckets, fewer than 2^30 cells, 16-bit seed hash, 64-bit patterns, a full
   table, an all-zero table when the total weight is 0). *)
From Coq Require Import NArith List Bool Lia Arith.
From DS Require Import Word ThetaCodecDefs CodecCmDefs CodecCmProofs.
Import ListNotations.
Local Open Scope N_scope.

(* bytes reader: the image followed by anything decodes to the very same sketch *)
Theorem C09_cm_roundtrip_bytes : forall s, wf s -> forall rest,
  dec_bytes (c_seed_hash s) (enc s ++ rest) = Some s.
Proof. exact cm_roundtrip_bytes. Qed.

(* stream reader: the same sketch, and exactly the image is consumed *)
Theorem C09_cm_roundtrip_stream : forall s, wf s -> forall rest,
  dec_stream (c_seed_hash s) (enc s ++ rest) = Some (s, length (enc s)).
Proof. exact cm_roundtrip_stream. Qed.

(* get_serialized_size_bytes() is the length of the image *)
Theorem C09_cm_size : forall s, wf s -> N.of_nat (length (enc s)) = serialized_size s.
Proof. exact cm_size. Qed.

(* non-vacuity *)
Definition C09_ex : cm := {| c_nh := 2; c_nb := 3; c_seed_hash := 37836; c_total := 5; c_cells := [1; 0; 4; 2; 3; 0] |}.
Definition C09_ex0 : cm := {| c_nh := 2; c_nb := 3; c_seed_hash := 37836; c_total := 0; c_cells := [0; 0; 0; 0; 0; 0] |}.
Example C09_ex_wf : wf C09_ex /\ wf C09_ex0.
Proof.
  unfold wf. cbn [C09_ex C09_ex0 c_nh c_nb c_seed_hash c_total c_cells].
  repeat split; try reflexivity; try discriminate; repeat (apply Forall_cons; [reflexivity|]); apply Forall_nil.
Qed.
Example C09_ex_image :
  enc C09_ex = [2; 1; 18; 0; 0; 0; 0; 0;   3; 0; 0; 0;  2;  204; 147;  0;
                5; 0; 0; 0; 0; 0; 0; 0;    1; 0; 0; 0; 0; 0; 0; 0;    0; 0; 0; 0; 0; 0; 0; 0;
                4; 0; 0; 0; 0; 0; 0; 0;    2; 0; 0; 0; 0; 0; 0; 0;    3; 0; 0; 0; 0; 0; 0; 0;
                0; 0; 0; 0; 0; 0; 0; 0] /\
  serialized_size C09_ex = 72 /\
  dec_bytes 37836 (enc C09_ex) = Some C09_ex /\
  dec_bytes 37836 (enc C09_ex ++ [165; 165; 165]) = Some C09_ex /\
  dec_stream 37836 (enc C09_ex ++ [165; 165; 165]) = Some (C09_ex, 72%nat) /\
  dec_bytes 37835 (enc C09_ex) = None.
Proof. vm_compute. repeat split. Qed.
(* the empty sketch: 16 bytes, flag bit 0 set *)
Example C09_ex0_image :
  enc C09_ex0 = [2; 1; 18; 1; 0; 0; 0; 0;   3; 0; 0; 0;  2;  204; 147;  0] /\
  serialized_size C09_ex0 = 16 /\
  dec_bytes 37836 (enc C09_ex0) = Some C09_ex0 /\ dec_stream 37836 (enc C09_ex0) = Some (C09_ex0, 16%nat).
Proof. vm_compute. repeat split. Qed.

Print Assumptions C09_cm_roundtrip_bytes.
Print Assumptions C09_cm_roundtrip_stream.
Print Assumptions C09_cm_size.
