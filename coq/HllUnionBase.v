(* HllUnionBase.v — register algebra used by the union proofs:
   folding a register array to a smaller lg_k (mergeHll's masked loop) and merging two arrays slot by slot compute the
   per-slot max of the concatenated coupon lists ([downsample_merge_spec], [zipmax_spec]); HLL_8 arrays under coupon
   updates; check_rebuild_kxq_cur_min never reports "empty" for an array with a non-zero register. *)
From Coq Require Import ZArith NArith List Bool Lia.
From DS Require Import Word RunnerLib HllDefs HllProofs HllUnionDefs.
Import ListNotations.
Local Open Scope N_scope.

(* a coupon as produced by HllUtil::coupon: 32 bits, value field >= 1 *)
Definition cok (c : N) : Prop := c < 4294967296 /\ 0 < c_val c.

Lemma cok_valid c : cok c -> cvalid c.
Proof. intros [H _]. exact H. Qed.

Lemma cok_nz c : cok c -> c <> 0.
Proof. intros [_ H] ->. unfold c_val in H. rewrite N.shiftr_0_l in H. lia. Qed.

(* ---------- bits ---------- *)
Lemma land_ones_ones x s d : d <= s -> N.land (N.land x (N.ones s)) (N.ones d) = N.land x (N.ones d).
Proof.
  intros H. apply N.bits_inj. intros t. rewrite !N.land_spec, !ones_testbit.
  destruct (N.ltb_spec t d), (N.ltb_spec t s); try lia; now rewrite ?andb_true_r, ?andb_false_r.
Qed.

Lemma c_slot_fold d s c : d <= s -> N.land (c_slot s c) (N.ones d) = c_slot d c.
Proof. intros H. unfold c_slot. now apply land_ones_ones. Qed.

Lemma mask26_ones : mask26 = N.ones 26.
Proof. reflexivity. Qed.

Lemma pair_val i v : c_val (pair_sv i v) = v.
Proof.
  unfold c_val, pair_sv. rewrite N.shiftr_lor, N.shiftr_shiftl_l by lia. rewrite N.sub_diag, N.shiftl_0_r.
  replace (N.shiftr (N.land i mask26) 26) with 0; [apply N.lor_0_r|].
  symmetry. apply N.bits_inj. intros t. rewrite N.shiftr_spec', N.land_spec, mask26_ones, ones_testbit, N.bits_0.
  destruct (N.ltb_spec (t + 26) 26); [lia|]. apply andb_false_r.
Qed.

Lemma pair_low26 i v : c_low26 (pair_sv i v) = N.land i mask26.
Proof.
  unfold c_low26, pair_sv. apply N.bits_inj. intros t.
  rewrite !N.land_spec, N.lor_spec, N.land_spec, mask26_ones, ones_testbit.
  destruct (N.ltb_spec t 26) as [Ht|Ht]; [|now rewrite !andb_false_r].
  rewrite N.shiftl_spec_low by exact Ht. now rewrite andb_true_r.
Qed.

Lemma pair_slot lgk i v : lgk <= 26 -> c_slot lgk (pair_sv i v) = N.land i (N.ones lgk).
Proof.
  intros H. unfold c_slot. rewrite pair_low26, mask26_ones. now apply land_ones_ones.
Qed.

Lemma land_ones_small x n : x < 2 ^ n -> N.land x (N.ones n) = x.
Proof. intros H. rewrite N.land_ones. now apply N.mod_small. Qed.

(* ---------- arrays ---------- *)
Lemma setN_getN_same l i : setN l i (getN l i) = l.
Proof.
  destruct (N.lt_ge_cases i (lenN l)) as [H|H]; [|now apply setN_overflow].
  apply list_ext_getN; [apply setN_length|].
  intros j _. rewrite getN_setN by exact H. destruct (N.eqb_spec i j) as [->|]; reflexivity.
Qed.

Lemma take_pad_exact k l : length l = k -> take_pad k l = l.
Proof.
  intros <-. unfold take_pad. rewrite firstn_app, Nat.sub_diag, firstn_all. cbn [firstn]. apply app_nil_r.
Qed.

Lemma slot_max_app lgk A B s : slot_max lgk (A ++ B) s = N.max (slot_max lgk A s) (slot_max lgk B s).
Proof.
  induction A as [|a t IH]; cbn [app].
  - rewrite slot_max_nil. lia.
  - rewrite !slot_max_cons, IH. destruct (c_slot lgk a =? s); lia.
Qed.

Lemma spec_regs_app_comm lgk A B : spec_regs lgk (A ++ B) = spec_regs lgk (B ++ A).
Proof. apply spec_regs_same_set. intros c. rewrite !in_app_iff. tauto. Qed.

(* ---------- mergeHll, equal k ---------- *)
Lemma zipmax_length d vs : length (zipmax d vs) = length d.
Proof. revert vs. induction d as [|x t IH]; intros [|v vs]; cbn [zipmax length]; auto. Qed.

Lemma getN_zipmax d vs j : length d = length vs -> getN (zipmax d vs) j = N.max (getN d j) (getN vs j).
Proof.
  unfold getN. generalize (N.to_nat j) as n. revert vs.
  induction d as [|x t IH]; intros [|v vs] n H; cbn [length] in H; try discriminate.
  - destruct n; reflexivity.
  - cbn [zipmax]. destruct n as [|n]; cbn [nth]; [reflexivity|]. apply IH. lia.
Qed.

Theorem zipmax_spec lgk A B : zipmax (spec_regs lgk A) (spec_regs lgk B) = spec_regs lgk (A ++ B).
Proof.
  assert (HL : forall C, length (spec_regs lgk C) = N.to_nat (2 ^ lgk)).
  { intros C. pose proof (spec_regs_length lgk C) as H. unfold lenN in H. lia. }
  apply list_ext_getN.
  - now rewrite zipmax_length, !HL.
  - intros j Hj. unfold lenN in Hj. rewrite zipmax_length, HL in Hj.
    rewrite getN_zipmax by now rewrite !HL.
    rewrite !getN_spec_regs by lia. now rewrite slot_max_app.
Qed.

(* ---------- mergeHll, down-sampling: the masked loop is a fold of "max into the slot" over (index, value) coupons ---------- *)
Fixpoint pairs_from (i : N) (vs : list N) : list N :=
  match vs with
  | [] => []
  | v :: t => pair_sv i v :: pairs_from (i + 1) t
  end.

Lemma process_value_reg lg d i v : lg <= 26 -> lenN d = 2 ^ lg ->
  process_value (N.ones lg) d i v = reg_max_upd lg d (pair_sv i v).
Proof.
  intros Hlg Hl. unfold process_value, reg_max_upd. rewrite pair_slot, pair_val by exact Hlg.
  set (j := N.land i (N.ones lg)).
  destruct (N.ltb_spec (getN d j) v) as [H|H].
  - now rewrite N.max_r by lia.
  - rewrite N.max_l by lia. apply setN_getN_same.
Qed.

Lemma merge_down_fold lg : lg <= 26 -> forall vs d i, lenN d = 2 ^ lg ->
  merge_down (N.ones lg) d i vs = fold_left (reg_max_upd lg) (pairs_from i vs) d.
Proof.
  intros Hlg. induction vs as [|v t IH]; intros d i Hl; cbn [merge_down pairs_from fold_left]; [reflexivity|].
  rewrite process_value_reg by assumption. apply IH. now rewrite reg_max_upd_length.
Qed.

Lemma in_pairs_from vs : forall i p, In p (pairs_from i vs) <->
  exists t, t < lenN vs /\ p = pair_sv (i + t) (getN vs t).
Proof.
  induction vs as [|v r IH]; intros i p; cbn [pairs_from In].
  - split; [contradiction|]. intros (t & Ht & _). unfold lenN in Ht. simpl in Ht. lia.
  - rewrite IH. split.
    + intros [<-|(t & Ht & ->)].
      * exists 0. split; [unfold lenN; simpl; lia|]. now rewrite N.add_0_r.
      * exists (t + 1). split; [unfold lenN in *; simpl; lia|].
        unfold getN. replace (N.to_nat (t + 1)) with (S (N.to_nat t)) by lia. cbn [nth]. f_equal. lia.
    + intros (t & Ht & ->). destruct (N.eq_dec t 0) as [->|Hne].
      * left. now rewrite N.add_0_r.
      * right. exists (t - 1). split; [unfold lenN in *; simpl in Ht; lia|].
        unfold getN. replace (N.to_nat t) with (S (N.to_nat (t - 1))) by lia. cbn [nth]. f_equal. lia.
Qed.

(* the per-slot max at lg of the (index, value) coupons of the registers at s >= lg is the per-slot max at lg of the coupons *)
Lemma slot_max_pairs lg s C j : lg <= s -> s <= 26 ->
  slot_max lg (pairs_from 0 (spec_regs s C)) j = slot_max lg C j.
Proof.
  intros Hls Hs.
  assert (Hlen := spec_regs_length s C).
  apply N.le_antisymm.
  - destruct (slot_max_attained lg (pairs_from 0 (spec_regs s C)) j) as [->|(p & Hp & Hps & Hpv)]; [lia|].
    rewrite <- Hpv. apply in_pairs_from in Hp. destruct Hp as (t & Ht & ->). rewrite N.add_0_l in *.
    rewrite pair_val. rewrite pair_slot in Hps by lia. rewrite Hlen in Ht. rewrite getN_spec_regs by exact Ht.
    destruct (slot_max_attained s C t) as [->|(c & Hc & Hcs & Hcv)]; [lia|].
    rewrite <- Hcv. apply slot_max_ub; [exact Hc|]. rewrite <- (c_slot_fold lg s c Hls), Hcs. exact Hps.
  - destruct (slot_max_attained lg C j) as [->|(c & Hc & Hcs & Hcv)]; [lia|].
    rewrite <- Hcv. pose proof (c_slot_lt s c) as Ht.
    apply N.le_trans with (slot_max s C (c_slot s c)); [now apply slot_max_ub|].
    rewrite <- (getN_spec_regs s C (c_slot s c) Ht), <- (pair_val (c_slot s c) (getN (spec_regs s C) (c_slot s c))).
    apply slot_max_ub.
    + apply in_pairs_from. exists (c_slot s c). split; [now rewrite Hlen|]. now rewrite N.add_0_l.
    + rewrite pair_slot by lia. rewrite c_slot_fold by exact Hls. exact Hcs.
Qed.

(* DESIGN downsample_spec, in the form mergeHll uses it: folding the registers of C2 at s into registers of C1 at lg <= s *)
Theorem downsample_merge_spec lg s C1 C2 : lg <= s -> s <= 26 ->
  merge_down (N.ones lg) (spec_regs lg C1) 0 (spec_regs s C2) = spec_regs lg (C1 ++ C2).
Proof.
  intros Hls Hs. rewrite merge_down_fold by (try apply spec_regs_length; lia).
  assert (HL : forall C, length (spec_regs lg C) = N.to_nat (2 ^ lg)).
  { intros C. pose proof (spec_regs_length lg C) as H. unfold lenN in H. lia. }
  apply list_ext_getN.
  - pose proof (fold_reg_max_length lg (pairs_from 0 (spec_regs s C2)) (spec_regs lg C1)) as H.
    unfold lenN in H. rewrite !HL in *. lia.
  - intros j Hj. rewrite fold_reg_max_length, spec_regs_length in Hj.
    rewrite getN_fold_reg_max by apply spec_regs_length.
    rewrite !getN_spec_regs by exact Hj. rewrite slot_max_pairs by assumption. now rewrite slot_max_app.
Qed.

Corollary downsample_spec lg s C : lg <= s -> s <= 26 ->
  merge_down (N.ones lg) (zerosN (2 ^ lg)) 0 (spec_regs s C) = spec_regs lg C.
Proof.
  intros H1 H2. pose proof (fold_reg_max_spec lg []) as E. cbn [fold_left] in E. rewrite E.
  now rewrite downsample_merge_spec.
Qed.

(* ---------- HLL_8 arrays ---------- *)
Definition regs8 (h : hllarr) : Prop := h_ty h = T8 /\ lenN (h_bytes h) = 2 ^ h_lgk h.

Lemma hll_regs_8 h : regs8 h -> hll_regs h = Some (h_bytes h).
Proof.
  intros [Ht Hl]. unfold hll_regs. rewrite Ht. f_equal. apply take_pad_exact. unfold lenN in Hl. lia.
Qed.

Ltac hs := cbn [h_lgk h_ty h_full h_ooo h_rebuild h_bytes h_curmin h_numat h_kxq0 h_kxq1 h_aux
                 h_with_data h_set_bytes h_set_numat h_set_aux h_set_flags kxq_upd] in *.

(* everything but the registers, num_at_cur_min and kxq is untouched by an HLL_8 coupon update *)
Lemma hll8_update_facts h c : lenN (h_bytes h) = 2 ^ h_lgk h ->
  h_bytes (hll8_update h c) = reg_max_upd (h_lgk h) (h_bytes h) c /\
  h_lgk (hll8_update h c) = h_lgk h /\ h_ty (hll8_update h c) = h_ty h /\ h_full (hll8_update h c) = h_full h /\
  h_ooo (hll8_update h c) = h_ooo h /\ h_rebuild (hll8_update h c) = h_rebuild h /\
  h_curmin (hll8_update h c) = h_curmin h /\ h_numat (hll8_update h c) <= h_numat h.
Proof.
  intros Hl. unfold hll8_update, reg_max_upd.
  destruct (getN (h_bytes h) (c_slot (h_lgk h) c) <? c_val c); hs; repeat split; try reflexivity; try lia.
  destruct (getN (h_bytes h) (c_slot (h_lgk h) c) =? 0); lia.
Qed.

Lemma merge_list_facts cs : forall h, lenN (h_bytes h) = 2 ^ h_lgk h ->
  h_bytes (merge_list h cs) = fold_left (reg_max_upd (h_lgk h)) cs (h_bytes h) /\
  h_lgk (merge_list h cs) = h_lgk h /\ h_ty (merge_list h cs) = h_ty h /\ h_full (merge_list h cs) = h_full h /\
  h_ooo (merge_list h cs) = h_ooo h /\ h_rebuild (merge_list h cs) = h_rebuild h /\
  h_curmin (merge_list h cs) = h_curmin h /\ h_numat (merge_list h cs) <= h_numat h.
Proof.
  unfold merge_list. induction cs as [|c t IH]; intros h Hl; cbn [fold_left].
  - repeat split; try reflexivity.
  - destruct (hll8_update_facts h c Hl) as (Eb & Ek & Et & Ef & Eo & Er & Ec & En).
    destruct (IH (hll8_update h c)) as (Eb' & Ek' & Et' & Ef' & Eo' & Er' & Ec' & En').
    { rewrite Eb, Ek. now rewrite reg_max_upd_length. }
    rewrite Eb', Ek', Et', Ef', Eo', Er', Ec', Eb, Ek. repeat split; auto. lia.
Qed.

(* registers that hold the per-slot max of C, after more coupons *)
Lemma fold_spec_regs lgk C cs : fold_left (reg_max_upd lgk) cs (spec_regs lgk C) = spec_regs lgk (C ++ cs).
Proof. rewrite <- !fold_reg_max_spec. now rewrite fold_left_app. Qed.

(* ---------- check_rebuild_kxq_cur_min ---------- *)
Lemma filter_len_le {A} (f : A -> bool) l : (length (filter f l) <= length l)%nat.
Proof. induction l as [|y t IH]; cbn [filter length]; [lia|]. destruct (f y); cbn [length]; lia. Qed.

Lemma count_zero_lt rs x : In x rs -> x <> 0 -> count_eq 0 rs < lenN rs.
Proof.
  unfold count_eq, lenN. induction rs as [|y t IH]; intros Hin Hx; [contradiction|].
  cbn [filter length]. destruct Hin as [->|Hin].
  - destruct (N.eqb_spec 0 x); [congruence|].
    pose proof (filter_len_le (N.eqb 0) t). lia.
  - specialize (IH Hin Hx). destruct (0 =? y); cbn [length]; lia.
Qed.

Lemma rebuild_fold_zero rs : forall c0 n0 c n, fold_left rebuild_step rs (c0, n0) = (c, n) -> c = 0 ->
  n <= (if c0 =? 0 then n0 else 0) + count_eq 0 rs.
Proof.
  induction rs as [|x t IH]; intros c0 n0 c n H Hc; cbn [fold_left] in H.
  - inversion H; subst. rewrite N.eqb_refl. unfold count_eq, lenN. simpl. lia.
  - unfold rebuild_step at 2 in H.
    assert (Hcnt : count_eq 0 (x :: t) = (if 0 =? x then 1 else 0) + count_eq 0 t).
    { unfold count_eq, lenN. cbn [filter]. destruct (0 =? x); cbn [length]; lia. }
    rewrite Hcnt. destruct (N.ltb_spec c0 x) as [H1|H1].
    + specialize (IH _ _ _ _ H Hc). destruct (N.eqb_spec 0 x); lia.
    + destruct (N.ltb_spec x c0) as [H2|H2].
      * specialize (IH _ _ _ _ H Hc). destruct (N.eqb_spec c0 0); [lia|].
        destruct (N.eqb_spec x 0), (N.eqb_spec 0 x); lia.
      * assert (x = c0) by lia. subst x. specialize (IH _ _ _ _ H Hc).
        destruct (N.eqb_spec c0 0), (N.eqb_spec 0 c0); lia.
Qed.

Lemma rebuild_fold_le rs : forall c0 n0 c n, fold_left rebuild_step rs (c0, n0) = (c, n) -> n <= n0 + lenN rs.
Proof.
  induction rs as [|x t IH]; intros c0 n0 c n H; cbn [fold_left] in H.
  - inversion H; subst. lia.
  - unfold rebuild_step at 2 in H. assert (Hl : lenN (x :: t) = 1 + lenN t) by (unfold lenN; cbn [length]; lia).
    rewrite Hl. destruct (c0 <? x); [|destruct (x <? c0)]; specialize (IH _ _ _ _ H); lia.
Qed.

(* after a rebuild of an HLL_8 array: same registers and configuration, flag cleared, num_at_cur_min <= k, and the
   emptiness test (cur_min == 0 && num_at_cur_min == k) is false as soon as one register is non-zero *)
Lemma check_rebuild_facts h : regs8 h -> h_numat h <= 2 ^ h_lgk h ->
  exists h', check_rebuild h = Some h' /\
    h_bytes h' = h_bytes h /\ h_lgk h' = h_lgk h /\ h_ty h' = h_ty h /\ h_full h' = h_full h /\ h_ooo h' = h_ooo h /\
    h_numat h' <= 2 ^ h_lgk h /\
    (h_rebuild h = true -> h_rebuild h' = false) /\ (h_rebuild h = false -> h' = h) /\
    (h_rebuild h = true -> (exists x, In x (h_bytes h) /\ x <> 0) -> h_curmin h' <> 0 \/ h_numat h' < 2 ^ h_lgk h).
Proof.
  intros H8 Hna. unfold check_rebuild. destruct (h_rebuild h) eqn:Er.
  - rewrite (hll_regs_8 h H8).
    destruct (fold_left rebuild_step (h_bytes h) (64, 0)) as [cm na] eqn:Ef.
    eexists. split; [reflexivity|]. hs. destruct H8 as [_ Hl].
    pose proof (rebuild_fold_le _ _ _ _ _ Ef) as Hle. rewrite Hl in Hle.
    repeat split; auto; try lia; try discriminate.
    intros _ (x & Hx & Hnz). destruct (N.eq_dec cm 0) as [->|Hc]; [right|now left].
    pose proof (rebuild_fold_zero _ _ _ _ _ Ef eq_refl) as Hz. cbn in Hz.
    pose proof (count_zero_lt _ _ Hx Hnz) as Hlt. lia.
  - exists h. repeat split; auto; try discriminate.
Qed.
