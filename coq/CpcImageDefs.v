(* CpcImageDefs.v — executable model of the serialized image of cpc_sketch (cpc/include/cpc_sketch_impl.hpp:
   serialize(std::ostream&), serialize(header_size_bytes), deserialize(std::istream&, seed), deserialize(bytes, size, seed),
   get_preamble_ints; flags / SERIAL_VERSION / FAMILY of cpc_sketch.hpp).  No proofs (CpcImageProofs.v).

   Layout (little endian):
     byte 0 preamble_ints | 1 serial_version = 1 | 2 family = 16 | 3 lg_k | 4 first_interesting_column |
     5 flags: bit 0 IS_BIG_ENDIAN (never set), bit 1 IS_COMPRESSED (always set by the writer, never read), bit 2 HAS_HIP,
              bit 3 HAS_TABLE, bit 4 HAS_WINDOW | 6..7 seed hash
     unless the sketch is empty:  u32 num_coupons
       if table && window: u32 table_num_entries, then [f64 kxp, f64 hip_est_accum if HAS_HIP]
       if table:  u32 table_data_words      if window: u32 window_data_words
       if HAS_HIP && !(table && window): f64 kxp, f64 hip_est_accum
       window words (u32 each), then table words (u32 each).
   The doubles kxp / hip_est_accum are carried as their 64-bit patterns (they are not modelled: the harness reports them).

   The readers are modelled AS REPAIRED by fixes/11_cpc_reader_count_bounds.patch (the three counts are validated —
   [counts_ok] — before any vector is sized from them; the bytes reader checks the remaining size before it resizes; the
   stream reader tests the stream state before it sizes anything), fixes/11_cpc_uncompress_overread.patch (the bit
   readers of the low-level decoders refuse to read past the compressed words: this is what CpcCodecDefs.v models
   already), fixes/11_cpc_hybrid_row_range.patch and fixes/11_cpc_sliding_col_range.patch (a decoded pair that does not
   fit the window / the column permutation is refused: [pairs_in_range]).  The unrepaired behaviour is kept in
   Regression_cpccodec.v.

   A short read ([rdn] / [rd_words] returning None) is: bytes reader — ensure_minimum_memory / check_memory_size throwing;
   stream reader — the stream going bad, which the reader notices at its next is.good() test and throws. *)
From Coq Require Import ZArith NArith List Bool.
From DS.gen Require Import CpcTablesGen.
From DS Require Import Word Murmur3 RunnerLib CpcDefs CpcCodecTables CpcCodecDefs CpcFlavorDefs.
Import ListNotations.
Local Open Scope N_scope.

(** * fields *)
Definition u16 (x : N) : list N := N_to_le_bytes 2 x.
Definition u32 (x : N) : list N := N_to_le_bytes 4 x.
Definition u64 (x : N) : list N := N_to_le_bytes 8 x.
Definition lenN {A} (l : list A) : N := N.of_nat (length l).

(* one little-endian field of k bytes and the bytes after it; None = fewer than k bytes left *)
Definition rdn (k : nat) (l : list N) : option (N * list N) :=
  if (length l <? k)%nat then None else Some (le_bytes_to_N (firstn k l), skipn k l).

Fixpoint words_of (n : nat) (l : list N) : list N :=
  match n with
  | O => []
  | S n' => le_bytes_to_N (firstn 4 l) :: words_of n' (skipn 4 l)
  end.

(* cnt 32-bit words: the size test is made BEFORE anything is sized from cnt (repaired order in the bytes reader:
   check_memory_size(ptr - base + cnt * 4, size), then resize(cnt), then the copy) *)
Definition rd_words (cnt : N) (l : list N) : option (list N * list N) :=
  if lenN l <? 4 * cnt then None
  else Some (words_of (N.to_nat cnt) l, skipn (4 * N.to_nat cnt) l).

(** * the image *)
Record image := mkI {
  i_pre : N; i_ser : N; i_fam : N; i_lgk : N; i_fic : N; i_flags : N; i_sh : N;
  i_nc : N;             (* num_coupons *)
  i_tne : N;            (* table_num_entries as the reader leaves it in compressed_state *)
  i_kxp : N; i_hip : N; (* 64-bit patterns *)
  i_win : list N;       (* window_data, 32-bit words *)
  i_tab : list N }.     (* table_data, 32-bit words *)

(* enum flags { IS_BIG_ENDIAN, IS_COMPRESSED, HAS_HIP, HAS_TABLE, HAS_WINDOW } *)
Definition has_hip (fl : N) : bool := N.testbit fl 2.
Definition has_table (fl : N) : bool := N.testbit fl 3.
Definition has_window (fl : N) : bool := N.testbit fl 4.
Definition flags_byte (hh ht hw : bool) : N :=
  2 + (if hh then 4 else 0) + (if ht then 8 else 0) + (if hw then 16 else 0).

Definition SERIAL_VERSION : N := 1.
Definition FAMILY : N := 16.

(* get_preamble_ints(num_coupons, has_hip, has_table, has_window) *)
Definition preamble_ints (nc : N) (hh ht hw : bool) : N :=
  2 + (if nc =? 0 then 0
       else 1 + (if hh then 4 else 0) + (if ht then 1 + (if hw then 1 else 0) else 0) + (if hw then 1 else 0)).

(* bit pattern of std::ldexp(1.0, lg_k): what both readers put into kxp when the image carries no HIP registers *)
Definition kxp_empty (l : N) : N := N.shiftl (1023 + l) 52.

Definition hip_bytes (i : image) : list N := u64 (i_kxp i) ++ u64 (i_hip i).

(* serialize(): the writer tests !is_empty() (num_coupons != 0), the flags come from the compressed state.
   [opt b l] is a part written under condition b; the two HIP decision points of the code are the two [hip_bytes] *)
Definition opt (b : bool) (l : list N) : list N := if b then l else [].

Definition enc_body (i : image) : list N :=
  let hh := has_hip (i_flags i) in let ht := has_table (i_flags i) in let hw := has_window (i_flags i) in
  u32 (i_nc i) ++
  opt (ht && hw) (u32 (i_tne i)) ++ opt (ht && hw && hh) (hip_bytes i) ++
  opt ht (u32 (lenN (i_tab i))) ++ opt hw (u32 (lenN (i_win i))) ++
  opt (hh && negb (ht && hw)) (hip_bytes i) ++
  opt hw (flat_map u32 (i_win i)) ++ opt ht (flat_map u32 (i_tab i)).

Definition enc_header8 (i : image) : list N :=
  [i_pre i; i_ser i; i_fam i; i_lgk i; i_fic i; i_flags i] ++ u16 (i_sh i).

Definition enc_image (i : image) : list N :=
  enc_header8 i ++ (if i_nc i =? 0 then [] else enc_body i).

(* has_table = compressed.table_data.size() > 0: compress_surprising_values sizes the buffer (at least one word) whenever it
   is called, i.e. always for SPARSE / HYBRID and for PINNED / SLIDING iff the surprising-value table is not empty;
   has_window = compressed.window_data.size() > 0: PINNED / SLIDING *)
Definition sketch_has_table (s : sketch) : bool :=
  let fl := determine_flavor (lgk s) (ncoup s) in
  (fl =? FL_SPARSE) || (fl =? FL_HYBRID) ||
  (((fl =? FL_PINNED) || (fl =? FL_SLIDING)) && match t_items (table s) with [] => false | _ => true end).
Definition sketch_has_window (s : sketch) : bool :=
  let fl := determine_flavor (lgk s) (ncoup s) in (fl =? FL_PINNED) || (fl =? FL_SLIDING).

Definition image_of_sketch (s : sketch) (kxp hip : N) : option image :=
  do c <- compress_sketch s;
  let hh := negb (merged s) in let ht := sketch_has_table s in let hw := sketch_has_window s in
  let carried := hh && negb (ncoup s =? 0) in
  Some (mkI (preamble_ints (ncoup s) hh ht hw) SERIAL_VERSION FAMILY (lgk s) (fic s) (flags_byte hh ht hw)
            (compute_seed_hash (seed s)) (ncoup s)
            (if ncoup s =? 0 then 0 else if hw then c_num_entries c else ncoup s)
            (if carried then kxp else kxp_empty (lgk s)) (if carried then hip else 0)
            (c_window c) (c_table c)).

Definition enc (s : sketch) (kxp hip : N) : option (list N) := option_map enc_image (image_of_sketch s kxp hip).

(* serialize(header_size_bytes) *)
Definition enc_header (h : N) (s : sketch) (kxp hip : N) : option (list N) :=
  option_map (fun b => repeat 0 (N.to_nat h) ++ b) (enc s kxp hip).

(* the size computed by serialize(header_size_bytes) before it writes, minus the header *)
Definition image_size (i : image) : N := 4 * (i_pre i + lenN (i_tab i) + lenN (i_win i)).

(** * REPAIRED: validation of the counts read from an image (cpc_compressor::check_compressed_sizes)
    num_coupons <= 64 k (the bit matrix has k rows of 64 columns); table_num_entries <= 3/4 * 64 k (the load limit of a
    u32_table at its largest size 2^(6+lg_k): beyond it make_from_pairs would need more slots than there are values);
    window words <= safe_length_for_compressed_window_buf(k); table words <= safe_length_for_compressed_pair_buf(k, n, b)
    with b the Golomb parameter the decoder will use (0 when there are no entries); and, the other way round, a window
    takes at least one bit per byte (k <= 32 * window words) and a pair at least two bits (entries <= 16 * table words),
    so that everything the readers build from the counts is bounded by the data they were given.  Every image the
    writer produces satisfies them (CpcImageProofs2.image_of_sketch_wf). *)
Definition table_words_bound (l tne : N) : option N :=
  let k := w32 (N.shiftl 1 l) in
  do nbb <- (if tne =? 0 then Some 0 else surprising_values_base_bits tne l);
  Some (safe_length_for_compressed_pair_buf k tne nbb).

Definition counts_ok (l nc tne tw ww : N) : bool :=
  let k := 2 ^ l in
  (nc <=? 64 * k) && (4 * tne <=? 192 * k) && (ww <=? safe_length_for_compressed_window_buf k) &&
  match table_words_bound l tne with Some b => tw <=? b | None => false end &&
  ((ww =? 0) || (k <=? 32 * ww)) && (tne <=? 16 * tw).

(** * the two readers up to the point where both hold the same compressed_state *)

Definition rd_hip (r : list N) : option (N * N * list N) :=
  do (kxp, r1) <- rdn 8 r; do (hip, r2) <- rdn 8 r1; Some (kxp, hip, r2).

(* everything after the 8 fixed bytes; shared by both readers: the bytes reader guards each field with
   check_memory_size(ptr - base + sizeof(field), size), the stream reader reads and tests the stream afterwards *)
Definition parse_body (pre ser fam lgk fic fl sh : N) (r0 : list N) : option (image * list N) :=
  let hh := has_hip fl in let ht := has_table fl in let hw := has_window fl in
  if negb (ht || hw) then Some (mkI pre ser fam lgk fic fl sh 0 0 (kxp_empty lgk) 0 [] [], r0) else
  do (nc, r1) <- rdn 4 r0;
  do (tne0, r2) <- (if ht && hw then rdn 4 r1 else Some (0, r1));
  do (kh1, r3) <- (if ht && hw && hh then rd_hip r2 else Some (kxp_empty lgk, 0, r2));
  do (tw, r4) <- (if ht then rdn 4 r3 else Some (0, r3));
  do (ww, r5) <- (if hw then rdn 4 r4 else Some (0, r4));
  do (kh2, r6) <- (if hh && negb (ht && hw) then rd_hip r5 else Some (kh1, r5));
  let tne := if hw then tne0 else nc in                       (* if (!has_window) table_num_entries = num_coupons *)
  if negb (counts_ok lgk nc tne tw ww) then None else         (* REPAIRED: before the resize() calls *)
  do (win, r7) <- rd_words ww r6;
  do (tab, r8) <- rd_words tw r7;
  Some (mkI pre ser fam lgk fic fl sh nc tne (fst kh2) (snd kh2) win tab, r8).

Definition parse_header (bytes : list N) : option (N * N * N * N * N * N * N * list N) :=
  do (pre, r1) <- rdn 1 bytes; do (ser, r2) <- rdn 1 r1; do (fam, r3) <- rdn 1 r2; do (lgk, r4) <- rdn 1 r3;
  do (fic, r5) <- rdn 1 r4; do (fl, r6) <- rdn 1 r5; do (sh, r7) <- rdn 2 r6;
  Some (pre, ser, fam, lgk, fic, fl, sh, r7).

(* deserialize(std::istream&): the image and the unread rest of the stream *)
Definition dec_image_stream (bytes : list N) : option (image * list N) :=
  do (pre, ser, fam, lgk, fic, fl, sh, r) <- parse_header bytes;      (* 7 reads, then if (!is.good()) throw *)
  if negb (lgk_ok lgk) then None else                                  (* check_lg_k *)
  parse_body pre ser fam lgk fic fl sh r.

(* deserialize(const void* bytes, size_t size): ensure_minimum_memory(size, 8) is the header not being short;
   ensure_minimum_memory(size, preamble_ints << 2); the final "deserialized size mismatch" rejects trailing bytes *)
Definition dec_image_bytes (bytes : list N) : option image :=
  do (pre, ser, fam, lgk, fic, fl, sh, r) <- parse_header bytes;
  if negb (lgk_ok lgk) then None else
  if lenN bytes <? 4 * pre then None else
  do (i, rest) <- parse_body pre ser fam lgk fic fl sh r;
  match rest with [] => Some i | _ => None end.

(** * the shared tail: the four header checks, uncompress, the constructor *)

Definition image_checks (seed : N) (i : image) : bool :=
  let fl := i_flags i in
  (i_pre i =? preamble_ints (i_nc i) (has_hip fl) (has_table fl) (has_window fl)) &&
  (i_ser i =? SERIAL_VERSION) && (i_fam i =? FAMILY) && (i_sh i =? compute_seed_hash seed).

Definition cstate_of_image (i : image) : cstate :=
  {| c_num_entries := i_tne i; c_table := i_tab i; c_window := i_win i |}.

(* REPAIRED: uncompress_hybrid_flavor refuses a pair of the window columns (col < 8) whose row is not below k before it
   writes target.window[row]; uncompress_sliding_flavor refuses a column >= 56 before it indexes the 56-entry
   permutation.  (The model functions of CpcFlavorDefs.v ignore such a row / read the default 0.) *)
Definition pairs_in_range (c : cstate) (l nc : N) : bool :=
  let fl := determine_flavor l nc in
  if fl =? FL_HYBRID then
    match uncompress_surprising_values (c_table c) (c_num_entries c) l with
    | Some pairs => forallb (fun p => (8 <=? N.land p 63) || (N.shiftr p 6 <? 2 ^ l)) pairs
    | None => true
    end
  else if (fl =? FL_SLIDING) && negb (c_num_entries c =? 0) then
    match uncompress_surprising_values (c_table c) (c_num_entries c) l with
    | Some pairs => forallb (fun p => N.land p 63 <? 56) pairs
    | None => true
    end
  else true.

Definition uncompress_checked (c : cstate) (l nc : N) : option (u32t * list N) :=
  if pairs_in_range c l nc then uncompress_sketch c l nc else None.

(* the sketch the private constructor builds, with the bit patterns of kxp and hip_est_accum *)
Definition sketch_of_image (seed : N) (i : image) : option (sketch * N * N) :=
  if negb (image_checks seed i) then None else
  do (t, w) <- uncompress_checked (cstate_of_image i) (i_lgk i) (i_nc i);
  Some (mkS (i_lgk i) seed (negb (has_hip (i_flags i))) (i_nc i) t w
            (determine_correct_offset (i_lgk i) (i_nc i)) (i_fic i), i_kxp i, i_hip i).

Definition dec_bytes (seed : N) (bytes : list N) : option (sketch * N * N) :=
  do i <- dec_image_bytes bytes; sketch_of_image seed i.

Definition dec_stream (seed : N) (bytes : list N) : option (sketch * N * N * list N) :=
  do (i, rest) <- dec_image_stream bytes;
  do (s, kxp, hip) <- sketch_of_image seed i;
  Some (s, kxp, hip, rest).
