(* CpcFlavorDefs.v — cpc_compressor::compress / uncompress per flavor (cpc_compressor_impl.hpp lines 144-366) on top of the
   low-level codecs of CpcCodecDefs.v and the translated tables; the sketch state after deserialize(serialize s). No proofs. *)
From Coq Require Import ZArith NArith List Bool.
From DS.gen Require Import CpcTablesGen.
From DS Require Import Word Murmur3 RunnerLib CpcDefs CpcCodecTables CpcCodecDefs.
Import ListNotations.
Local Open Scope N_scope.

(* tricky_get_pairs_from_window: the pairs of the window bits (HYBRID flavor, offset 0) *)
Fixpoint window_pairs (win : list N) (row : N) : list N :=
  match win with
  | [] => []
  | b :: r =>
    map (fun c => N.lor (N.shiftl row 6) c) (filter (fun c => N.testbit b c) [0;1;2;3;4;5;6;7]) ++ window_pairs r (row + 1)
  end.

Record cstate := { c_num_entries : N; c_table : list N; c_window : list N }.

Definition compress_sketch (s : sketch) : option cstate :=
  let fl := determine_flavor (lgk s) (ncoup s) in
  let items := t_items (table s) in
  if fl =? FL_EMPTY then Some {| c_num_entries := 0; c_table := []; c_window := [] |}
  else if fl =? FL_SPARSE then
    match window s with _ :: _ => None | [] =>
    let pairs := sortN items in
    do w <- compress_surprising_values pairs (lgk s);
    Some {| c_num_entries := N.of_nat (length pairs); c_table := w; c_window := [] |} end
  else if fl =? FL_HYBRID then
    match window s with [] => None | _ =>
    if negb (woff s =? 0) then None else
    let pairs := sortN (items ++ window_pairs (window s) 0) in
    if negb (N.of_nat (length pairs) =? ncoup s) then None else
    do w <- compress_surprising_values pairs (lgk s);
    Some {| c_num_entries := N.of_nat (length pairs); c_table := w; c_window := [] |} end
  else if fl =? FL_PINNED then
    let ww := compress_sliding_window (window s) (lgk s) (ncoup s) in
    match items with
    | [] => Some {| c_num_entries := 0; c_table := []; c_window := ww |}
    | _ =>
      if existsb (fun p => N.land p 63 <? 8) items then None else
      let pairs := sortN (map (fun p => p - 8) items) in
      do w <- compress_surprising_values pairs (lgk s);
      Some {| c_num_entries := N.of_nat (length pairs); c_table := w; c_window := ww |}
    end
  else
    let ww := compress_sliding_window (window s) (lgk s) (ncoup s) in
    match items with
    | [] => Some {| c_num_entries := 0; c_table := []; c_window := ww |}
    | _ =>
      let phase := determine_pseudo_phase (lgk s) (ncoup s) in
      if 16 <=? phase then None else
      if 56 <? woff s then None else
      let perm := nth (N.to_nat phase) column_permutations_for_encoding [] in
      let tr := fun p => let row := N.shiftr p 6 in
                         let col := N.land (N.land p 63 + 56 - woff s) 63 in
                         N.lor (N.shiftl row 6) (nth (N.to_nat col) perm 0) in
      if existsb (fun p => 56 <=? N.land (N.land p 63 + 56 - woff s) 63) items then None else
      let pairs := sortN (map tr items) in
      do w <- compress_surprising_values pairs (lgk s);
      Some {| c_num_entries := N.of_nat (length pairs); c_table := w; c_window := ww |}
    end.


(* uncompress_hybrid_flavor: pairs with col < 8 go back into the (zeroed) window, the others are the table *)
Fixpoint split_hybrid (pairs : list N) (win : list N) (acc : list N) : option (list N * list N) :=
  match pairs with
  | [] => Some (win, rev acc)
  | p :: r =>
    if p =? EMPTY then None else
    let col := N.land p 63 in
    if col <? 8 then split_hybrid r (updN win (N.shiftr p 6) (fun b => N.lor b (N.shiftl 1 col))) acc
    else split_hybrid r win (p :: acc)
  end.

Definition empty_table (l : N) : u32t := t_new 2 (6 + l).

(* cpc_compressor::uncompress(source, target, lg_k, num_coupons) -> (table, window) *)
Definition uncompress_sketch (c : cstate) (l nc : N) : option (u32t * list N) :=
  let fl := determine_flavor l nc in
  if fl =? FL_EMPTY then Some (empty_table l, [])
  else if fl =? FL_SPARSE then
    match c_window c with _ :: _ => None | [] =>
    match c_table c with [] => None | _ =>
    do pairs <- uncompress_surprising_values (c_table c) (c_num_entries c) l;
    do t <- make_from_pairs pairs l; Some (t, []) end end
  else if fl =? FL_HYBRID then
    match c_window c with _ :: _ => None | [] =>
    match c_table c with [] => None | _ =>
    do pairs <- uncompress_surprising_values (c_table c) (c_num_entries c) l;
    do (win, tp) <- split_hybrid pairs (repeat 0 (N.to_nat (2 ^ l))) [];
    do t <- make_from_pairs tp l; Some (t, win) end end
  else if fl =? FL_PINNED then
    match c_window c with [] => None | _ =>
    do win <- uncompress_sliding_window (c_window c) l nc;
    if c_num_entries c =? 0 then Some (empty_table l, win) else
    match c_table c with [] => None | _ =>
    do pairs <- uncompress_surprising_values (c_table c) (c_num_entries c) l;
    if existsb (fun p => 56 <=? N.land p 63) pairs then None else
    do t <- make_from_pairs (map (fun p => p + 8) pairs) l; Some (t, win) end end
  else
    match c_window c with [] => None | _ =>
    do win <- uncompress_sliding_window (c_window c) l nc;
    if c_num_entries c =? 0 then Some (empty_table l, win) else
    match c_table c with [] => None | _ =>
    do pairs <- uncompress_surprising_values (c_table c) (c_num_entries c) l;
    let phase := determine_pseudo_phase l nc in
    if 16 <=? phase then None else
    let perm := nth (N.to_nat phase) column_permutations_for_decoding [] in
    let off := determine_correct_offset l nc in
    if 56 <? off then None else
    let tr := fun p => let row := N.shiftr p 6 in
                       let col := nth (N.to_nat (N.land p 63)) perm 0 in
                       N.lor (N.shiftl row 6) (N.land (col + (off + 8)) 63) in
    do t <- make_from_pairs (map tr pairs) l; Some (t, win) end end.

(* the sketch after deserialize(serialize s): same scalar fields, table and window through the codec, offset recomputed *)
Definition codec_roundtrip (s : sketch) : option sketch :=
  do c <- compress_sketch s;
  do (t, w) <- uncompress_sketch c (lgk s) (ncoup s);
  Some (mkS (lgk s) (seed s) (merged s) (ncoup s) t w (determine_correct_offset (lgk s) (ncoup s)) (fic s)).
