(* VarOptTheorems.v — theorems about whole histories of the exact-arithmetic (Q) instance of the VarOpt model:
   induction over the list of updates, for every sequence of random draws. *)
From Coq Require Import ZArith List Bool QArith Lia Lra Psatz Permutation.
From DS Require Import RunnerLib VarOptDefs VarOptProofs.
Import ListNotations.

(* ---- the Q instance, named (these are the functions the statements of Properties_C16.v are about) ---- *)
Section QInst.
  Variable Item : Type.
  Variable ditem : Item.
  Variable cu : Z -> Q.                (* ANY decoding of the raw unit_double draws *)

  Definition Qupdate := update Item ditem Q 0 1 (-(1)) Qplus Qmult Qdiv Qltb Qle_bool Qeq_bool inject_Z Qbad cu.
  Definition Qupdate_st := update_st Item ditem Q 0 1 (-(1)) Qplus Qmult Qdiv Qltb Qle_bool Qeq_bool inject_Z Qbad cu.
  Definition Qfeed := feed Item ditem Q 0 1 (-(1)) Qplus Qmult Qdiv Qltb Qle_bool Qeq_bool inject_Z Qbad cu.
  Definition Qtau := get_tau Item Q Qdiv inject_Z.
  Definition Qsamples := get_samples Item Q Qdiv inject_Z.
  Definition Qestimate := estimate_subset_sum Item Q 0 1 Qplus Qmult Qdiv Qltb inject_Z.
  Definition Qempty := vo_empty Item Q 0.

  Notation vo := (vo Item Q).
  Notation slot := (slot Item Q).
  Notation sumw := (sumw Item).
  Notation pairs_of := (pairs_of Item).
  Notation Rest := (Rest Item ditem).
  Notation Est := (Est Item ditem).
  Notation Warm := (Warm Item).
  Notation provR := (provR Item).
  Notation hp := (hp Item ditem Q 0 Qle).

  (* the updates the specification counts: positive weight (negative are refused, zero ignored) *)
  Definition accepted (xs : list (Item * Q)) : list (Item * Q) := filter (fun p => Qltb 0 (snd p)) xs.
  Definition wsum (l : list (Item * Q)) : Q := fold_right (fun p a => snd p + a) 0 l.

  Lemma wsum_app l l' : wsum (l ++ l') == wsum l + wsum l'.
  Proof. induction l; simpl; lra. Qed.
  Lemma wsum_perm l l' : Permutation l l' -> wsum l == wsum l'.
  Proof. induction 1; simpl; lra. Qed.
  Lemma wsum_pairs H : wsum (pairs_of H) == sumw H.
  Proof. induction H; simpl; [reflexivity|]. rewrite IHlist. reflexivity. Qed.

  (* ---- one public update ---- *)
  Lemma Qeq_bool_false_neq a b : Qeq_bool a b = false -> ~ a == b.
  Proof. intros H E. apply Qeq_bool_iff in E. congruence. Qed.

  Lemma update_cases (s : vo) x w c inp :
    Rest s -> provR s inp ->
    (w < 0 /\ Qupdate s x w false c = URefused Item Q) \/
    (w == 0 /\ Qupdate s x w false c = UIgnored Item Q) \/
    (0 < w /\ exists s' c', Qupdate s x w false c = UOk Item Q s' c' /\
       Rest s' /\ provR s' (inp ++ [(x, w)]) /\
       sumw (vH s') + vtot s' == sumw (vH s) + vtot s + w /\
       vn s' = (vn s + 1)%Z /\ vk s' = vk s /\ vgad s' = vgad s /\
       (Est s -> Est s' /\ vtot s * qn (rr s') <= vtot s' * qn (rr s))).
  Proof.
    intros HR HP. unfold Qupdate, update.
    destruct (Qbad w) eqn:Eb.
    - left. split; [|reflexivity]. unfold Qbad in Eb. now apply Qltb_true in Eb.
    - unfold Qbad in Eb. apply Qltb_false in Eb.
      destruct (Qeq_bool w 0) eqn:E0.
      + right; left. split; [now apply Qeq_bool_iff|reflexivity].
      + right; right. apply Qeq_bool_false_neq in E0.
        assert (Hw : 0 < w) by (destruct (Qlt_le_dec 0 w) as [L|L]; [exact L|exfalso; apply E0; lra]).
        split; [exact Hw|].
        destruct (update_body_spec Item ditem cu s x w false c inp HR HP Hw) as (s' & c' & E & H').
        exists s', c'. rewrite E. split; [reflexivity|]. destruct H' as (A1 & A2 & A3 & A4 & A5 & A6 & A7 & _).
        repeat (split; [assumption|]). exact A7.
  Qed.

  Lemma accepted_snoc xs x w : accepted (xs ++ [(x, w)]) = accepted xs ++ (if Qltb 0 w then [(x, w)] else []).
  Proof. unfold accepted. rewrite filter_app. simpl. destruct (Qltb 0 w); reflexivity. Qed.

  (* ---- a whole stream ---- *)
  Definition tau_le (s s' : vo) : Prop := vtot s * qn (rr s') <= vtot s' * qn (rr s).

  Lemma tau_le_trans (a b c : vo) : (1 <= rr b)%nat -> 0 < vtot b \/ True ->
    tau_le a b -> tau_le b c -> tau_le a c.
  Proof.
    unfold tau_le. intros Hb _ H1 H2.
    pose proof (qn_pos (rr b) ltac:(lia)) as Pb.
    pose proof (qn_nonneg (rr a)). pose proof (qn_nonneg (rr c)).
    assert (A1 : vtot a * qn (rr b) * qn (rr c) <= vtot b * qn (rr a) * qn (rr c)) by (apply Qmult_le_compat_r; assumption).
    assert (A2 : vtot b * qn (rr c) * qn (rr a) <= vtot c * qn (rr b) * qn (rr a)) by (apply Qmult_le_compat_r; assumption).
    assert (A3 : (vtot a * qn (rr c)) * qn (rr b) <= (vtot c * qn (rr a)) * qn (rr b)) by lra.
    apply Qmult_le_r in A3; assumption.
  Qed.

  Lemma feed_cons s x w t c : Qfeed s ((x, w) :: t) c = let '(s', c') := Qupdate_st s x w c in Qfeed s' t c'.
  Proof. reflexivity. Qed.

  Lemma feed_inv : forall xs (s : vo) c inp,
    Rest s -> provR s inp ->
    let s' := fst (Qfeed s xs c) in
    Rest s' /\ provR s' (inp ++ accepted xs) /\
    sumw (vH s') + vtot s' == sumw (vH s) + vtot s + wsum (accepted xs) /\
    vn s' = (vn s + Z.of_nat (length (accepted xs)))%Z /\ vk s' = vk s /\ vgad s' = vgad s /\
    (Est s -> Est s' /\ tau_le s s').
  Proof.
    induction xs as [|[x w] t IH]; intros s c inp HR HP.
    - cbv zeta. change (fst (Qfeed s [] c)) with s. cbn [accepted filter wsum fold_right length]. rewrite app_nil_r.
      split; [exact HR|]. split; [exact HP|]. split; [lra|]. split; [lia|]. split; [reflexivity|]. split; [reflexivity|].
      intros HE. split; [exact HE|unfold tau_le; lra].
    - cbv zeta. rewrite feed_cons. unfold Qupdate_st, update_st. fold (Qupdate s x w false c).
      destruct (update_cases s x w c inp HR HP) as [[Hw E]|[[Hw E]|(Hw & s1 & c1 & E & HR1 & HP1 & Hsum1 & En1 & Ek1 & Eg1 & Hest1)]]; rewrite E.
      + assert (Ea : accepted ((x, w) :: t) = accepted t).
        { unfold accepted. cbn [filter snd]. rewrite Qltb_ge by lra. reflexivity. }
        rewrite Ea. apply IH; assumption.
      + assert (Ea : accepted ((x, w) :: t) = accepted t).
        { unfold accepted. cbn [filter snd]. rewrite Qltb_ge by lra. reflexivity. }
        rewrite Ea. apply IH; assumption.
      + assert (Ea : accepted ((x, w) :: t) = (x, w) :: accepted t).
        { unfold accepted. cbn [filter snd]. rewrite Qltb_lt by exact Hw. reflexivity. }
        rewrite Ea.
        destruct (IH s1 c1 (inp ++ [(x, w)]) HR1 HP1) as (HR' & HP' & Hsum' & En' & Ek' & Eg' & Hest').
        set (s' := fst (Qfeed s1 t c1)) in *.
        split; [exact HR'|]. split; [rewrite <- app_assoc in HP'; exact HP'|].
        split; [change (wsum ((x, w) :: accepted t)) with (w + wsum (accepted t)); rewrite Hsum', Hsum1; lra|].
        split; [rewrite En', En1; cbn [length]; lia|].
        split; [congruence|]. split; [congruence|].
        intros HE. destruct (Hest1 HE) as [HE1 T1]. destruct (Hest' HE1) as [HE' T'].
        split; [exact HE'|].
        destruct HE1 as (Hr1 & _).
        eapply tau_le_trans; [exact Hr1|now right|exact T1|exact T'].
  Qed.

  Lemma feed_single (s : vo) x w c : Qfeed s [(x, w)] c = Qupdate_st s x w c.
  Proof. rewrite feed_cons. destruct (Qupdate_st s x w c); reflexivity. Qed.

  Lemma feed_app : forall xs ys (s : vo) c,
    Qfeed s (xs ++ ys) c = let '(s1, c1) := Qfeed s xs c in Qfeed s1 ys c1.
  Proof.
    induction xs as [|[x w] t IH]; intros ys s c; [reflexivity|].
    cbn [app]. rewrite !feed_cons. destruct (Qupdate_st s x w c) as [s1 c1]. apply IH.
  Qed.

  (* ---- the empty sketch ---- *)
  Lemma empty_Rest k g : (1 <= k)%nat -> Rest (Qempty k g).
  Proof.
    intros Hk. unfold VarOptProofs.Rest, Qempty, vo_empty. cbn [vM vmb vH vk].
    split; [reflexivity|]. split; [reflexivity|]. split; [constructor|]. split; [exact Hk|].
    left. unfold VarOptProofs.Warm, hh. cbn [vR vH vk vn vtot length]. split; [reflexivity|]. split; [lia|]. split; [reflexivity|]. lra.
  Qed.
  Lemma empty_provR k g : provR (Qempty k g) [].
  Proof. apply provR_warm; [reflexivity|constructor]. Qed.

  (* ---- the invariant of a sketch at rest whose accepted input is A ---- *)
  Definition Inv (k : nat) (S : vo) (A : list (Item * Q)) : Prop :=
    Rest S /\ provR S A /\ sumw (vH S) + vtot S == wsum A /\ vn S = Z.of_nat (length A) /\ vk S = k.

  Lemma empty_Inv k g : (1 <= k)%nat -> Inv k (Qempty k g) [].
  Proof.
    intros Hk. split; [now apply empty_Rest|]. split; [apply empty_provR|].
    split; [cbn; lra|]. split; reflexivity.
  Qed.

  Lemma feed_Inv k xs (S : vo) c A : Inv k S A -> Inv k (fst (Qfeed S xs c)) (A ++ accepted xs).
  Proof.
    intros (HR & HP & Hsum & En & Ek).
    destruct (feed_inv xs S c A HR HP) as (HR' & HP' & Hsum' & En' & Ek' & _).
    split; [exact HR'|]. split; [exact HP'|]. split; [rewrite Hsum', Hsum, wsum_app; lra|].
    split; [rewrite En', En, app_length; lia|congruence].
  Qed.

  Section Facts.
    Variable k : nat.
    Variable S : vo.
    Variable A : list (Item * Q).
    Hypothesis HI : Inv k S A.

    (* h + r = min(n, k), m = 0 at rest, n = number of accepted updates *)
    Lemma inv_counts :
      vM S = [] /\ mm S = 0%nat /\ vn S = Z.of_nat (length A) /\
      (hh S + rr S = Nat.min (length A) k)%nat /\ get_num_samples Item Q S = Nat.min (length A) k.
    Proof.
      destruct HI as ((HM & Hmb & _ & _ & Hmode) & _ & _ & En & Ek).
      split; [exact HM|]. split; [unfold mm; rewrite HM, Hmb; reflexivity|]. split; [exact En|].
      assert (Hc : (hh S + rr S = Nat.min (length A) k)%nat).
      { destruct Hmode as [(HR0 & Hh & Hn & _)|(Hr & Hhr & _ & _ & _ & Hn)].
        - unfold rr. rewrite HR0. cbn [length]. rewrite Ek in Hh. lia.
        - rewrite Ek in *. lia. }
      split; [exact Hc|]. unfold get_num_samples. rewrite Hc, Ek. lia.
    Qed.

    (* sum of the H weights + total_wt_r = sum of the input weights *)
    Lemma inv_weight : sumw (vH S) + vtot S == wsum A.
    Proof. apply HI. Qed.

    (* warm-up: the sketch holds exactly the input *)
    Lemma inv_exact_mode : (length A <= k)%nat -> vR S = [] /\ Permutation A (pairs_of (vH S)).
    Proof.
      intros Hle. destruct HI as ((_ & _ & _ & _ & Hmode) & (_ & HP2) & _ & En & Ek).
      assert (HR0 : vR S = []).
      { destruct Hmode as [(HR0 & _)|(_ & _ & _ & _ & _ & Hn)]; [exact HR0|]. rewrite Ek in Hn. lia. }
      split; [exact HR0|now apply HP2].
    Qed.

    (* estimation mode: where every input went.  LR = the inputs whose items are the R samples, LD = the dropped ones *)
    Lemma inv_provenance :
      exists LR LD, Permutation A (pairs_of (vH S) ++ LR ++ LD) /\ map fst LR = vR S /\
        (forall p, In p (LR ++ LD) -> (1 <= rr S)%nat /\ snd p <= Qtau S).
    Proof.
      destruct HI as ((_ & _ & _ & _ & Hmode) & ((LR & LD & P & EF & Hb) & HP2) & _).
      destruct Hmode as [(HR0 & _)|(Hr & _)].
      - exists [], []. split; [|split; [now rewrite HR0|intros p []]].
        cbn [app]. rewrite app_nil_r. now apply HP2.
      - exists LR, LD. cbn [app] in P. split; [exact P|]. split; [exact EF|].
        intros p Hp. split; [exact Hr|]. unfold Qtau, get_tau, ofN. fold (qn (rr S)).
        apply Qle_shift_div_l; [apply qn_pos; lia|]. now apply Hb.
    Qed.

    (* every input heavier than tau sits in H with its exact weight (all inputs while r = 0) *)
    Lemma inv_heavy_kept : forall x w, In (x, w) A -> (rr S = 0%nat \/ Qtau S < w) -> In (x, w) (pairs_of (vH S)).
    Proof.
      intros x w Hin Hheavy. destruct inv_provenance as (LR & LD & P & EF & Hb).
      eapply Permutation_in in Hin; [|exact P]. apply in_app_or in Hin. destruct Hin as [Hin|Hin]; [exact Hin|].
      exfalso. destruct (Hb _ Hin) as [Hr L]. cbn [snd] in L. destruct Hheavy as [E|Hlt]; [lia|lra].
    Qed.

    (* samples come from the input: H samples are input pairs, R samples are input items no heavier than tau *)
    Lemma inv_samples_from_input :
      (forall p, In p (pairs_of (vH S)) -> In p A) /\
      (forall x, In x (vR S) -> exists w, In (x, w) A /\ w <= Qtau S).
    Proof.
      destruct inv_provenance as (LR & LD & P & EF & Hb). split.
      - intros p Hp. eapply Permutation_in; [apply Permutation_sym, P|]. apply in_or_app. now left.
      - intros x Hx. rewrite <- EF in Hx. apply in_map_iff in Hx. destruct Hx as ([x' w] & <- & Hin).
        exists w. cbn [fst]. split.
        + eapply Permutation_in; [apply Permutation_sym, P|]. apply in_or_app. right. apply in_or_app. now left.
        + apply (Hb (x', w)). apply in_or_app. now left.
    Qed.

    (* estimation mode: H is a min-heap and no H item is lighter than tau *)
    Lemma inv_heap : (1 <= rr S)%nat -> hp (vH S) /\ forall y, In y (vH S) -> Qtau S <= s_wt y.
    Proof.
      intros Hr. destruct HI as ((_ & _ & _ & _ & Hmode) & _).
      destruct Hmode as [(HR0 & _)|(_ & _ & _ & Hhp & HH & _)]; [unfold rr in Hr; rewrite HR0 in Hr; cbn in Hr; lia|].
      split; [exact Hhp|]. intros y Hy. unfold Qtau, get_tau, ofN. fold (qn (rr S)).
      apply Qle_shift_div_r; [apply qn_pos; lia|]. now apply HH.
    Qed.

    (* the next update never throws in exact arithmetic, whatever the draws *)
    Lemma inv_update_total : forall x w c,
      match Qupdate S x w false c with
      | UThrew _ _ _ => False
      | URefused _ _ => w < 0
      | UIgnored _ _ => w == 0
      | UOk _ _ _ _ => 0 < w
      end.
    Proof.
      intros x w c. destruct HI as (HR & HP & _).
      destruct (update_cases S x w c A HR HP) as [[Hw E]|[[Hw E]|(Hw & s1 & c1 & E & _)]]; rewrite E; assumption.
    Qed.
  End Facts.

  (* ---- estimate_subset_sum ---- *)
  Lemma fold_sum (l : list slot) z : fold_left (fun a x => a + s_wt x) l z == z + sumw l.
  Proof.
    revert z; induction l as [|y t IH]; intros z; unfold VarOptProofs.sumw; cbn [fold_left fold_right]; [lra|].
    fold (sumw t). rewrite IH. lra.
  Qed.

  Definition psum (p : Item -> bool) (l : list slot) : Q := fold_right (fun (x : slot) a => if p (s_item x) then s_wt x + a else a) 0 l.
  Lemma fold_psum (p : Item -> bool) (l : list slot) z :
    fold_left (fun (a : Q) (x : slot) => if p (s_item x) then a + s_wt x else a) l z == z + psum p l.
  Proof.
    revert z; induction l as [|y t IH]; intros z; unfold psum; cbn [fold_left fold_right]; [lra|].
    fold (psum p t). rewrite IH. destruct (p (s_item y)); lra.
  Qed.
  Lemma psum_bounds p l : VarOptProofs.wpos Item l -> 0 <= psum p l <= sumw l.
  Proof.
    induction 1 as [|y t Hy Ht IH]; unfold psum, VarOptProofs.sumw; cbn [fold_right]; [lra|].
    fold (psum p t) (sumw t). destruct (p (s_item y)); lra.
  Qed.
  Lemma psum_true l : psum (fun _ => true) l == sumw l.
  Proof.
    induction l as [|y t IH]; unfold psum, VarOptProofs.sumw; cbn [fold_right]; [reflexivity|].
    fold (psum (fun _ => true) t) (sumw t). lra.
  Qed.

  Lemma filter_length_le {B} (p : B -> bool) l : (length (filter p l) <= length l)%nat.
  Proof. induction l; cbn; [lia|]. destruct (p a); cbn; lia. Qed.
  Lemma filter_true {B} (l : list B) : filter (fun _ => true) l = l.
  Proof. induction l; cbn; congruence. Qed.

  (* for every predicate: the call returns (no exception), 0 <= estimate <= total; the estimate is the exact weight of the
     matching H items plus tau times the number of matching R items *)
  Lemma inv_estimate k (S : vo) A p : Inv k S A ->
    exists est tot cnt, Qestimate S p = Some (est, tot, cnt) /\
      est == psum p (vH S) + (if (rr S =? 0)%nat then 0 else Qtau S * qn (length (filter p (vR S)))) /\
      0 <= est /\ est <= wsum A /\
      ((1 <= rr S)%nat \/ (forall x, p x = true) -> tot == wsum A).
  Proof.
    intros (HR & _ & Hsum & En & Ek).
    destruct HR as (_ & _ & HposH & _ & Hmode).
    unfold Qestimate, estimate_subset_sum.
    destruct (Z.eqb_spec (vn S) 0) as [E0|E0].
    - (* nothing accepted yet *)
      assert (EA : A = []) by (destruct A; [reflexivity|cbn in En; lia]).
      assert (EH : vH S = []).
      { destruct Hmode as [(_ & _ & Hn & _)|(_ & _ & _ & _ & _ & Hn)]; [|lia].
        unfold hh in Hn. destruct (vH S); [reflexivity|cbn in Hn; lia]. }
      assert (ER : rr S = 0%nat).
      { destruct Hmode as [(HR0 & _)|(_ & _ & _ & _ & _ & Hn)]; [unfold rr; now rewrite HR0|lia]. }
      exists 0, 0, O. rewrite EA, EH, ER. change (wsum []) with 0. change (psum p []) with 0. change (0 =? 0)%nat with true. cbv iota.
      split; [reflexivity|]. split; [lra|]. split; [lra|]. split; [lra|]. intros _. lra.
    - pose proof (psum_bounds p _ HposH) as [B0 B1].
      destruct (Nat.eqb_spec (rr S) 0) as [Er|Er].
      + eexists _, _, O. split; [reflexivity|].
        assert (Et : vtot S == 0).
        { destruct Hmode as [(_ & _ & _ & Ht)|(Hr & _)]; [exact Ht|lia]. }
        rewrite fold_psum. split; [lra|]. split; [lra|]. split; [lra|].
        intros [Hr|Hp]; [lia|]. rewrite <- Hsum, Et.
        assert (psum p (vH S) == sumw (vH S)).
        { clear -Hp. induction (vH S) as [|y t IH]; unfold psum, VarOptProofs.sumw; cbn [fold_right]; [reflexivity|].
          fold (psum p t) (sumw t). rewrite Hp, IH. reflexivity. }
        lra.
      + destruct Hmode as [(HR0 & _)|(Hr & Hhr & Htot & _ & _ & Hn)]; [unfold rr in Er; rewrite HR0 in Er; cbn in Er; lia|].
        (* the sampling-rate check passes: 0 < r / (n - h) <= 1 *)
        unfold ofN. fold (qn (rr S)).
        assert (Hq : 0 < qn (rr S)) by (apply qn_pos; lia).
        assert (Hd : qn (rr S) <= inject_Z (vn S - Z.of_nat (hh S))).
        { unfold qn. rewrite <- Zle_Qle. lia. }
        assert (Hrate : (Qltb (qn (rr S) / inject_Z (vn S - Z.of_nat (hh S))) 0 ||
                         Qltb 1 (qn (rr S) / inject_Z (vn S - Z.of_nat (hh S))))%bool = false).
        { apply orb_false_iff. split; apply Qltb_ge.
          - apply Qle_shift_div_l; lra.
          - apply Qle_shift_div_r; lra. }
        rewrite Hrate.
        eexists _, _, _. split; [reflexivity|].
        rewrite fold_psum, fold_sum.
        set (cnt := length (filter p (vR S))). fold (qn cnt).
        assert (Hcnt : qn cnt <= qn (rr S)).
        { unfold qn. rewrite <- Zle_Qle. apply inj_le. apply filter_length_le. }
        pose proof (qn_nonneg cnt) as Hc0.
        assert (Efrac : vtot S * (1 * qn cnt / qn (rr S)) == Qtau S * qn cnt).
        { unfold Qtau, get_tau, ofN. fold (qn (rr S)). field. lra. }
        assert (Hfr : 0 <= vtot S * (1 * qn cnt / qn (rr S)) <= vtot S).
        { assert (0 <= 1 * qn cnt / qn (rr S) <= 1).
          { split; [apply Qle_shift_div_l; lra|apply Qle_shift_div_r; lra]. }
          split; nra. }
        split; [rewrite Efrac; lra|]. split; [lra|]. split; [lra|]. intros _. lra.
  Qed.

  (* the always-true predicate: estimate = total input weight *)
  Lemma inv_estimate_total k (S : vo) A : Inv k S A ->
    exists est tot cnt, Qestimate S (fun _ => true) = Some (est, tot, cnt) /\ est == wsum A /\ tot == wsum A.
  Proof.
    intros HI. destruct (inv_estimate k S A (fun _ => true) HI) as (est & tot & cnt & E & Eest & _ & _ & Htot).
    exists est, tot, cnt. split; [exact E|]. split; [|apply Htot; now right].
    destruct HI as (HR & _ & Hsum & _).
    rewrite Eest, psum_true, filter_true. destruct (Nat.eqb_spec (rr S) 0) as [Er|Er].
    - destruct HR as (_ & _ & _ & _ & [(_ & _ & _ & Ht)|(Hr & _)]); [|lia]. lra.
    - fold (rr S). unfold Qtau, get_tau, ofN. fold (qn (rr S)).
      assert (0 < qn (rr S)) by (apply qn_pos; lia).
      assert (E1 : vtot S / qn (rr S) * qn (rr S) == vtot S) by (field; lra). lra.
  Qed.

  (* ---- serialize + deserialize (the repaired deserialize: m_ = 0) ---- *)
  Definition Qserde := serde_roundtrip Item Q 0 Qltb.

  Lemma serde_spec (s : vo) inp : Rest s -> provR s inp ->
    exists s', Qserde s = Some s' /\ Rest s' /\ provR s' inp /\
      vH s' = vH s /\ vR s' = vR s /\ vtot s' == vtot s /\ vn s' = vn s /\ vk s' = vk s /\ vgad s' = vgad s /\
      (Est s -> Est s').
  Proof.
    intros (HM & Hmb & HposH & Hk & Hmode) HP. unfold Qserde, serde_roundtrip, serde_roundtrip_gen.
    destruct Hmode as [(HR0 & Hh & Hn & Ht)|HE].
    - (* exact mode *)
      assert (Hr : rr s = 0%nat) by (unfold rr; now rewrite HR0).
      assert (HnoE : forall s0 : vo, vR s0 = [] -> Est s0 -> False).
      { intros s0 E (Hr0 & _). unfold rr in Hr0. rewrite E in Hr0. cbn in Hr0. lia. }
      rewrite Hr. change (0 =? 0)%nat with true. rewrite andb_true_r.
      destruct (Nat.eqb_spec (hh s) 0) as [Eh|Eh].
      + assert (EH : vH s = []) by (unfold hh in Eh; destruct (vH s); [reflexivity|cbn in Eh; lia]).
        eexists. split; [reflexivity|]. unfold vo_empty. cbn [vH vR vtot vn vk vgad vM vmb].
        split.
        { unfold VarOptProofs.Rest. cbn [vM vmb vH vk]. split; [reflexivity|]. split; [reflexivity|]. split; [constructor|].
          split; [exact Hk|]. left. unfold VarOptProofs.Warm, hh. cbn [vR vH vk vn vtot length].
          split; [reflexivity|]. split; [lia|]. split; [reflexivity|]. lra. }
        split.
        { destruct HP as [_ HP2]. apply provR_warm; [reflexivity|]. cbn [vH]. rewrite <- EH. now apply HP2. }
        split; [now rewrite EH|]. split; [now rewrite HR0|]. split; [lra|]. split; [rewrite Hn, Eh; reflexivity|].
        split; [reflexivity|]. split; [reflexivity|]. intros HE. exfalso. now apply (HnoE s).
      + replace (vn s <=? Z.of_nat (vk s))%Z with true by (symmetry; apply Z.leb_le; lia).
        change (0 <? 0)%nat with false. replace (vn s =? Z.of_nat (hh s))%Z with true by (symmetry; now apply Z.eqb_eq).
        cbn [orb negb]. eexists. split; [reflexivity|]. cbn [vH vR vtot vn vk vgad vM vmb].
        split.
        { unfold VarOptProofs.Rest. cbn [vM vmb vH vk]. split; [reflexivity|]. split; [reflexivity|]. split; [exact HposH|].
          split; [exact Hk|]. left. unfold VarOptProofs.Warm, hh. cbn [vR vH vk vn vtot]. unfold hh in Hh, Hn.
          split; [reflexivity|]. split; [exact Hh|]. split; [exact Hn|]. lra. }
        split.
        { destruct HP as [_ HP2]. apply provR_warm; [reflexivity|]. cbn [vH]. now apply HP2. }
        split; [reflexivity|]. split; [now rewrite HR0|]. split; [lra|]. split; [reflexivity|].
        split; [reflexivity|]. split; [reflexivity|]. intros HE. exfalso. now apply (HnoE s).
    - (* estimation mode *)
      destruct HE as (Hr & Hhr & Htot & Hhp & HH & Hn).
      destruct (Nat.eqb_spec (rr s) 0) as [E0|E0]; [lia|]. rewrite andb_false_r.
      replace (vn s <=? Z.of_nat (vk s))%Z with false by (symmetry; apply Z.leb_gt; lia).
      replace (hh s + rr s =? vk s)%nat with true by (symmetry; now apply Nat.eqb_eq).
      rewrite (Qltb_lt _ _ Htot). cbn [orb negb].
      eexists. split; [reflexivity|]. cbn [vH vR vtot vn vk vgad vM vmb].
      assert (HE' : Est (mkvo Item Q (vk s) (vn s) (vH s) [] 0 (vR s) (vtot s) (vgad s)
                              (if vgad s then length (filter s_mark (vH s)) else 0%nat))).
      { unfold VarOptProofs.Est, hh, rr. cbn [vR vH vk vn vtot]. unfold hh, rr in *. repeat split; assumption. }
      split.
      { unfold VarOptProofs.Rest. cbn [vM vmb vH vk]. split; [reflexivity|]. split; [reflexivity|]. split; [exact HposH|].
        split; [exact Hk|]. right. exact HE'. }
      split.
      { destruct HP as [HP1 HP2]. split; [exact HP1|]. cbn [vR vH]. exact HP2. }
      split; [reflexivity|]. split; [reflexivity|]. split; [lra|]. split; [reflexivity|].
      split; [reflexivity|]. split; [reflexivity|]. intros _. exact HE'.
  Qed.

  (* ---- histories: updates, serialize/deserialize round trips and resets in any order ---- *)
  Inductive hop := Upd (x : Item) (w : Q) | RoundTrip | Reset.

  Definition hstep (s : vo) (o : hop) (c : chs) : vo * chs :=
    match o with
    | Upd x w => Qupdate_st s x w c
    | RoundTrip => (match Qserde s with Some s' => s' | None => s end, c)
    | Reset => (reset Item Q 0 s, c)
    end.
  Fixpoint hrun (s : vo) (ops : list hop) (c : chs) : vo * chs :=
    match ops with
    | [] => (s, c)
    | o :: t => let '(s', c') := hstep s o c in hrun s' t c'
    end.
  (* the input the specification counts: accepted updates since the last reset *)
  Fixpoint hlog (acc : list (Item * Q)) (ops : list hop) : list (Item * Q) :=
    match ops with
    | [] => acc
    | Upd x w :: t => hlog (if Qltb 0 w then acc ++ [(x, w)] else acc) t
    | RoundTrip :: t => hlog acc t
    | Reset :: t => hlog [] t
    end.

  Lemma hstep_Inv k (S : vo) A o c : Inv k S A -> Inv k (fst (hstep S o c)) (hlog A [o]).
  Proof.
    intros HI. destruct o as [x w| |]; cbn [hstep hlog].
    - rewrite <- feed_single.
      replace (if Qltb 0 w then A ++ [(x, w)] else A) with (A ++ accepted [(x, w)]).
      + now apply feed_Inv.
      + unfold accepted. cbn [filter snd]. destruct (Qltb 0 w); [reflexivity|apply app_nil_r].
    - destruct HI as (HR & HP & Hsum & En & Ek).
      destruct (serde_spec S A HR HP) as (s' & E & HR' & HP' & EH & ER & Et & En' & Ek' & _).
      rewrite E. cbn [fst]. split; [exact HR'|]. split; [exact HP'|]. split; [rewrite EH, Et; exact Hsum|].
      split; congruence.
    - destruct HI as (HR & _ & _ & _ & Ek). cbn [fst]. unfold reset. rewrite Ek.
      apply empty_Inv. destruct HR as (_ & _ & _ & Hk & _). now rewrite <- Ek.
  Qed.

  Lemma hlog_cons A o t : hlog A (o :: t) = hlog (hlog A [o]) t.
  Proof. destruct o; reflexivity. Qed.

  Lemma hrun_Inv k : forall ops (S : vo) A c, Inv k S A -> Inv k (fst (hrun S ops c)) (hlog A ops).
  Proof.
    induction ops as [|o t IH]; intros S A c HI; [exact HI|].
    cbn [hrun]. pose proof (hstep_Inv k S A o c HI) as H1.
    destruct (hstep S o c) as [s1 c1]. cbn [fst] in H1. rewrite hlog_cons. now apply IH.
  Qed.

  (* every history from the empty sketch *)
  Lemma history_Inv k gadget ops c : (1 <= k)%nat ->
    Inv k (fst (hrun (Qempty k gadget) ops c)) (hlog [] ops).
  Proof. intros Hk. apply hrun_Inv. now apply empty_Inv. Qed.

  Lemma hrun_app : forall ops ops' (s : vo) c,
    hrun s (ops ++ ops') c = let '(s1, c1) := hrun s ops c in hrun s1 ops' c1.
  Proof.
    induction ops as [|o t IH]; intros ops' s c; [reflexivity|].
    cbn [app hrun]. destruct (hstep s o c) as [s1 c1]. apply IH.
  Qed.

  (* tau never decreases along a history without reset *)
  Definition no_reset (ops : list hop) : Prop := Forall (fun o => o <> Reset) ops.

  Lemma hrun_tau : forall ops (S : vo) A c, Rest S -> provR S A -> Est S -> no_reset ops ->
    Est (fst (hrun S ops c)) /\ tau_le S (fst (hrun S ops c)).
  Proof.
    induction ops as [|o t IH]; intros S A c HR HP HE Hnr.
    - cbn. split; [exact HE|unfold tau_le; lra].
    - inversion Hnr as [|? ? Ho Ht]; subst. cbn [hrun].
      assert (H1 : exists A1, Rest (fst (hstep S o c)) /\ provR (fst (hstep S o c)) A1 /\ Est (fst (hstep S o c)) /\
                              tau_le S (fst (hstep S o c))).
      { destruct o as [x w| |]; [| |congruence]; cbn [hstep].
        - rewrite <- feed_single.
          destruct (feed_inv [(x, w)] S c A HR HP) as (HR' & HP' & _ & _ & _ & _ & Hest).
          destruct (Hest HE) as [HE' T]. eexists. split; [exact HR'|]. split; [exact HP'|]. split; [exact HE'|exact T].
        - destruct (serde_spec S A HR HP) as (s' & E & HR' & HP' & EH & ER & Et & _ & _ & _ & HE').
          rewrite E. cbn [fst]. exists A. split; [exact HR'|]. split; [exact HP'|]. split; [now apply HE'|].
          unfold tau_le, rr. rewrite ER, Et. lra. }
      destruct H1 as (A1 & HR1 & HP1 & HE1 & T1).
      destruct (hstep S o c) as [s1 c1]. cbn [fst] in *.
      destruct (IH s1 A1 c1 HR1 HP1 HE1 Ht) as [HE2 T2]. split; [exact HE2|].
      destruct HE1 as (Hr1 & _). eapply tau_le_trans; [exact Hr1|now right|exact T1|exact T2].
  Qed.

  Lemma history_tau_monotone k gadget ops ops' c : (1 <= k)%nat -> no_reset ops' ->
    let S1 := fst (hrun (Qempty k gadget) ops c) in
    let S2 := fst (hrun (Qempty k gadget) (ops ++ ops') c) in
    (1 <= rr S1)%nat -> (1 <= rr S2)%nat /\ Qtau S1 <= Qtau S2.
  Proof.
    intros Hk Hnr S1 S2 Hr1. subst S2. rewrite hrun_app.
    destruct (history_Inv k gadget ops c Hk) as (HR1 & HP1 & _). fold S1 in HR1, HP1.
    destruct (hrun (Qempty k gadget) ops c) as [s1 c1] eqn:E1. cbn [fst] in S1. subst S1.
    assert (HE1 : Est s1).
    { destruct HR1 as (_ & _ & _ & _ & [(HR0 & _)|HE]); [unfold rr in Hr1; rewrite HR0 in Hr1; cbn in Hr1; lia|exact HE]. }
    destruct (hrun_tau ops' s1 _ c1 HR1 HP1 HE1 Hnr) as [HE2 T]. set (s2 := fst (hrun s1 ops' c1)) in *.
    destruct HE2 as (Hr2 & _). split; [exact Hr2|].
    unfold Qtau, get_tau, ofN. fold (qn (rr s1)) (qn (rr s2)).
    pose proof (qn_pos (rr s1) ltac:(lia)). pose proof (qn_pos (rr s2) ltac:(lia)).
    apply Qle_shift_div_l; [assumption|].
    unfold tau_le in T.
    assert (E : vtot s1 / qn (rr s1) * qn (rr s2) == vtot s1 * qn (rr s2) / qn (rr s1)) by (field; lra).
    rewrite E. apply Qle_shift_div_r; assumption.
  Qed.

  (* a serialize/deserialize round trip always succeeds on a reachable sketch and returns the same samples *)
  Lemma history_roundtrip k gadget ops c : (1 <= k)%nat ->
    let S := fst (hrun (Qempty k gadget) ops c) in
    exists S', Qserde S = Some S' /\ vH S' = vH S /\ vR S' = vR S /\ vtot S' == vtot S /\
               vn S' = vn S /\ vk S' = vk S /\ vM S' = [] /\ mm S' = 0%nat.
  Proof.
    intros Hk S. destruct (history_Inv k gadget ops c Hk) as (HR & HP & _). fold S in HR, HP.
    destruct (serde_spec S _ HR HP) as (s' & E & (HM & Hmb & _) & _ & EH & ER & Et & En & Ek & _).
    exists s'. repeat (split; [assumption|]). unfold mm. rewrite HM, Hmb. reflexivity.
  Qed.
End QInst.
