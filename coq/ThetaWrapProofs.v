(* ThetaWrapProofs.v — the lazy iterator of wrapped_compact_theta_sketch (ThetaWrapDefs.v) yields exactly what the eager
   decoder of the codec model (ThetaCodecDefs.dec_bytes) returns, for EVERY image the eager decoder accepts (serial
   versions 1-4), and therefore gives back the sketch for every image written by serialize() / serialize_compressed().
   Compressed images: a block of 8 is the same BitPackSpec.unpack_vals b 8 on both sides; the bit-by-bit tail is the same
   sequence of hand-unrolled unpack_bits programs, run one call at a time at (ptr_, offset_) by the iterator and as one
   concatenated program on a window of the image by the eager decoder — related by ThetaWrapLang.exec_transfer
   ([tail_run]); inside a block operator++ only moves the index ([walk]); the switch block -> tail and the accumulation of
   the deltas across blocks are followed by induction on the eager decoder's recursion ([run_from]).
   Every read of the model fails outside the image, so the theorems also say that no read past the image is needed. *)
From Coq Require Import NArith ZArith List Bool Arith Lia.
From DS Require Import Word Murmur3 RunnerLib BitPackLang BitPackProofs BitPackSpec ThetaCodecDefs ThetaCodecProofs ThetaCodecProofs2 ThetaWrapDefs.
From DS Require Import ThetaWrapLang ThetaWrapParse.
Import ListNotations.
Local Open Scope N_scope.

(* ---- small facts ---- *)
Lemma last_cons {A} (l : list A) : forall a d, last (a :: l) d = last l a.
Proof. induction l as [|x t IH]; intros a d; [reflexivity|]. change (last (a :: x :: t) d) with (last (x :: t) d). rewrite !IH. reflexivity. Qed.

Lemma undeltas_app a : forall p b, undeltas p (a ++ b) = undeltas p a ++ undeltas (last (undeltas p a) p) b.
Proof.
  induction a as [|d r IH]; intros p b; [reflexivity|]. cbn [app undeltas]. rewrite last_cons. f_equal. apply IH.
Qed.

Lemma set_buf_length l : forall i v, length (set_buf l i v) = length l.
Proof. induction l as [|x t IH]; intros [|i] v; simpl; auto. Qed.

Lemma nth_set_buf_eq l : forall i v, (i < length l)%nat -> nth i (set_buf l i v) 0 = v.
Proof. induction l as [|x t IH]; intros [|i] v H; simpl in *; try lia; auto. apply IH. lia. Qed.

Lemma all_some_get {A} (l : list (option A)) : forall r, all_some l = Some r ->
  length r = length l /\ forall m d, (m < length l)%nat -> get l m = Some (nth m r d).
Proof.
  induction l as [|[x|] t IH]; intros r H; simpl in H; try discriminate.
  - inversion H; subst. split; auto. intros m d Hm. simpl in Hm. lia.
  - destruct (all_some t) as [r'|] eqn:E; [|discriminate]. inversion H; subst. destruct (IH r' eq_refl) as [Hl Hg].
    split; [simpl; lia|]. intros [|m] d Hm; [reflexivity|]. simpl in Hm. unfold get in *. simpl. apply Hg. lia.
Qed.

(* programs for later values leave earlier slots alone *)
Lemma unroll_from_untouched b : forall r i j o s s', (i + r <= length (fst s))%nat ->
  exec s (unroll_unpack_from r i b j o) = Some s' ->
  snd s' = snd s /\ forall m, (m < i)%nat -> get (fst s') m = get (fst s) m.
Proof.
  induction r as [|r IH]; intros i j o s s' Hlen H.
  - simpl in H. inversion H; subst. auto.
  - cbn [unroll_unpack_from] in H. destruct (unroll_unpack1 i b j o) as [[st j'] o'] eqn:E.
    rewrite exec_app in H. destruct (exec s st) as [s1|] eqn:E1; [|discriminate].
    destruct s as [v W]. destruct s1 as [v1 W1]. cbn [fst snd] in *.
    pose proof (unroll1_uses i b j o) as Hu. rewrite E in Hu. cbn [fst] in Hu.
    destruct (exec_transfer i st Hu v W v1 W1 E1 v W 0%nat) as (HW & Hun & _); auto; [lia|].
    destruct (exec_lengths _ _ _ E1) as [Hl1 _]. cbn [fst] in Hl1.
    destruct (IH (S i) j' o' (v1, W1) s') as [Hb Hg]; [cbn [fst]; lia|exact H|].
    cbn [fst snd] in *. subst W1. split; [exact Hb|]. intros m Hm. rewrite Hg by lia. apply Hun. lia.
Qed.

Lemma skipn_nth_cons {A} (l : list A) : forall t d, (t < length l)%nat -> skipn t l = nth t l d :: skipn (S t) l.
Proof. induction l as [|x r IH]; intros [|t] d H; simpl in *; try lia; auto. apply IH. lia. Qed.

Lemma slot_of idx0 t it : (idx0 mod 8 = 0)%nat -> (t < 8)%nat -> it_index it = N.of_nat (idx0 + t) -> slot it = t.
Proof.
  intros H0 Ht Hi. unfold slot. rewrite Hi. change 8 with (N.of_nat 8). rewrite <- Nat2N.inj_mod, Nat2N.id.
  pose proof (Nat.div_mod idx0 8 ltac:(lia)) as Hd. rewrite H0 in Hd.
  symmetry. apply Nat.mod_unique with (q := (idx0 / 8)%nat); lia.
Qed.

Section Lazy.
  Variable v : view.
  Variable bytes : list N.
  Hypothesis Hc : compressed v = true.
  Variable n : nat.
  Hypothesis Hn : v_num v = N.of_nat n.
  Hypothesis Hn32 : N.of_nat n < two32.
  Notation b := (vb v).

  Lemma iter_loop_unfold f it : iter_loop (S f) v bytes it =
    if it_at_end v it then Some [] else
    match it_deref v bytes it with
    | None => None
    | Some e => match it_next v bytes it with
                | None => None
                | Some it' => match iter_loop f v bytes it' with Some r => Some (e :: r) | None => None end
                end
    end.
  Proof. reflexivity. Qed.

  Lemma index_succ k : (k < n)%nat -> w32 (N.of_nat k + 1) = N.of_nat (S k).
  Proof. intros H. rewrite w32_small by lia. lia. Qed.

  (* the bit-by-bit tail: c < 8 values decoded one unpack_bits call at a time, against the eager run of the same
     unrolled programs on the window W = firstn _ (skipn P0 bytes) *)
  Lemma tail_run W P0 c ds stF idx0 :
    (c <= 8)%nat -> length ds = c -> all_some (fst stF) = Some ds ->
    (forall j y, get (map Some W) j = Some y -> get (map Some bytes) (P0 + j) = Some y) ->
    (idx0 mod 8 = 0)%nat -> (idx0 + c = n)%nat ->
    forall r t j o vals prev buf,
      (t + r = c)%nat -> (1 <= r)%nat ->
      exec (vals, map Some W) (unroll_unpack_from r t b j o) = Some stF ->
      length vals = c -> (forall m, (t <= m)%nat -> get vals m = None) -> length buf = 8%nat ->
      exists it', unpack1 b bytes (mk_iter (P0 + j) (N.of_nat (idx0 + t)) prev false o buf) = Some it' /\
                  iter_loop (S r) v bytes it' = Some (undeltas prev (skipn t ds)).
  Proof.
    intros Hc8 Hlds Hall Hwin Hmod Hidx. destruct (all_some_get _ _ Hall) as [HlF HgF]. 
    induction r as [|r IH]; intros t j o vals prev buf Htr Hr Hex Hlv Hnone Hlb; [lia|].
    cbn [unroll_unpack_from] in Hex. destruct (unroll_unpack1 t b j o) as [[st j'] o'] eqn:E.
    rewrite exec_app in Hex. destruct (exec (vals, map Some W) st) as [[v1 W1]|] eqn:E1; [|discriminate].
    pose proof (unroll1_uses t b j o) as Hu. rewrite E in Hu. cbn [fst] in Hu.
    assert (Ht8 : (t < 8)%nat) by lia.
    destruct (exec_transfer t st Hu vals (map Some W) v1 W1 E1 (repeat None 8) (map Some bytes) P0 Hwin)
      as (HW & Hun & v2' & Hex2 & Hget2 & _ & Hlen2).
    { rewrite get_repeat_none. symmetry. apply Hnone. lia. }
    { rewrite repeat_length. exact Ht8. }
    subst W1. destruct (exec_lengths _ _ _ E1) as [Hl1 _]. cbn [fst] in Hl1.
    (* the value decoded for slot t is the t-th delta of the eager run *)
    assert (Hd : get v1 t = Some (nth t ds 0)).
    { destruct (unroll_from_untouched b r (S t) j' o' (v1, map Some W) stF) as [_ Hg]; [cbn [fst]; lia|exact Hex|].
      cbn [fst] in Hg. rewrite <- (Hg t) by lia. apply HgF. lia. }
    set (d := nth t ds 0) in *. set (e := add64 d prev).
    set (it := mk_iter (P0 + j) (N.of_nat (idx0 + t)) prev false o buf).
    assert (Hslot : slot it = t) by (apply (slot_of idx0 t); auto).
    assert (Hun1 : unpack1 b bytes it = Some (mk_iter (P0 + j') (N.of_nat (idx0 + t)) e false o' (set_buf buf t e))).
    { unfold unpack1. rewrite Hslot. cbn [it it_ptr it_off it_prev it_index it_block it_buf].
      pose proof (unroll1_shift t b P0 j o) as Hs. rewrite E in Hs. rewrite Hs. rewrite Hex2. cbn [fst].
      rewrite Hget2, Hd. reflexivity. }
    eexists. split; [exact Hun1|].
    set (it' := mk_iter (P0 + j') (N.of_nat (idx0 + t)) e false o' (set_buf buf t e)).
    assert (Hslot' : slot it' = t) by (apply (slot_of idx0 t); auto).
    assert (Hend : it_at_end v it' = false).
    { unfold it_at_end. rewrite Hc. cbn [negb it' it_index]. rewrite Hn. apply N.eqb_neq. lia. }
    assert (Hder : it_deref v bytes it' = Some e).
    { unfold it_deref. rewrite Hc. cbn [negb]. rewrite Hslot'. cbn [it' it_buf]. rewrite nth_set_buf_eq by lia. reflexivity. }
    rewrite iter_loop_unfold, Hend, Hder.
    unfold it_next. rewrite Hc. cbn [negb it' it_ptr it_index it_prev it_block it_off it_buf].
    rewrite index_succ by lia. rewrite Hn.
    destruct r as [|r'].
    - (* last value *)
      assert (Hlt : (N.of_nat (S (idx0 + t)) <? N.of_nat n) = false) by (apply N.ltb_ge; lia).
      rewrite Hlt. rewrite iter_loop_unfold. unfold it_at_end. rewrite Hc. cbn [negb it_index]. rewrite Hn.
      replace (N.of_nat (S (idx0 + t)) =? N.of_nat n) with true by (symmetry; apply N.eqb_eq; lia).
      rewrite (skipn_nth_cons ds t 0) by lia. fold d. rewrite skipn_all2 by lia. reflexivity.
    - assert (Hlt : (N.of_nat (S (idx0 + t)) <? N.of_nat n) = true) by (apply N.ltb_lt; lia).
      rewrite Hlt.
      destruct (IH (S t) j' o' v1 e (set_buf buf t e)) as (it'' & Hu'' & Hloop''); try lia; auto.
      { intros m Hm. rewrite Hun by lia. apply Hnone. lia. }
      { rewrite set_buf_length. exact Hlb. }
      replace (S (idx0 + t)) with (idx0 + S t)%nat by lia. rewrite Hu''. rewrite Hloop''. rewrite (skipn_nth_cons ds t 0) by lia. reflexivity.
  Qed.

  Lemma of_nat_mod8 k : N.of_nat k mod 8 = N.of_nat (k mod 8).
  Proof. change 8 with (N.of_nat 8). now rewrite Nat2N.inj_mod. Qed.

  Lemma match_id {A} (o : option (list A)) : match o with Some r => Some ([] ++ r) | None => None end = o.
  Proof. destruct o; reflexivity. Qed.

  (* inside a decoded block: operator++ only advances the index, operator* reads the buffer *)
  Lemma walk m : forall j f ptr idx0 prev off buf,
    (idx0 mod 8 = 0)%nat -> (j + m <= 7)%nat -> (idx0 + 8 <= n)%nat -> length buf = 8%nat ->
    iter_loop (m + f) v bytes (mk_iter ptr (N.of_nat (idx0 + j)) prev true off buf) =
    match iter_loop f v bytes (mk_iter ptr (N.of_nat (idx0 + j + m)) prev true off buf) with
    | Some r => Some (firstn m (skipn j buf) ++ r)
    | None => None
    end.
  Proof.
    induction m as [|m IH]; intros j f ptr idx0 prev off buf Hmod Hjm Hn8 Hlb.
    - cbn [Nat.add firstn]. rewrite Nat.add_0_r. now rewrite match_id.
    - change (S m + f)%nat with (S (m + f)). rewrite iter_loop_unfold.
      set (it := mk_iter ptr (N.of_nat (idx0 + j)) prev true off buf).
      assert (Hslot : slot it = j) by (apply (slot_of idx0 j); auto; lia).
      unfold it_at_end, it_deref, it_next. rewrite Hc. cbn [negb]. rewrite Hslot.
      cbn [it it_ptr it_index it_prev it_block it_off it_buf]. rewrite Hn.
      replace (N.of_nat (idx0 + j) =? N.of_nat n) with false by (symmetry; apply N.eqb_neq; lia).
      rewrite index_succ by lia.
      replace (N.of_nat (S (idx0 + j)) <? N.of_nat n) with true by (symmetry; apply N.ltb_lt; lia).
      rewrite of_nat_mod8.
      assert (Hm8 : (S (idx0 + j) mod 8 = S j)%nat).
      { pose proof (Nat.div_mod idx0 8 ltac:(lia)) as Hd. rewrite Hmod in Hd.
        symmetry. apply Nat.mod_unique with (q := (idx0 / 8)%nat); lia. }
      rewrite Hm8. change (N.of_nat (S j) =? 0) with false. cbv iota.
      replace (S (idx0 + j)) with (idx0 + S j)%nat by lia.
      rewrite (IH (S j)) by (auto; lia).
      replace (idx0 + S j + m)%nat with (idx0 + j + S m)%nat by lia.
      destruct (iter_loop f v bytes _) as [r|]; [|reflexivity].
      rewrite (skipn_nth_cons buf j 0) by lia. reflexivity.
  Qed.

  Lemma skipn_add {A} (l : list A) : forall a c, skipn c (skipn a l) = skipn (a + c) l.
  Proof. induction l as [|x r IH]; intros [|a] c; simpl; auto. now destruct c. Qed.

  Lemma firstn7_nth7 (l : list N) : length l = 8%nat -> firstn 7 l ++ [nth 7 l 0] = l.
  Proof. do 9 (destruct l as [|? l]; simpl; try discriminate); intros; reflexivity. Qed.

  Lemma firstn7_nth7_app (l Y : list N) : length l = 8%nat -> firstn 7 l ++ nth 7 l 0 :: Y = l ++ Y.
  Proof. do 9 (destruct l as [|? l]; simpl; try discriminate); intros; reflexivity. Qed.

  Hypothesis Hb : (1 <= b)%nat.

  (* from the entry into a block (unpack8) or into the tail (unpack1 with block mode off) to the end *)
  Lemma run_from : forall fuel r p prev idx0 buf ds,
    (idx0 mod 8 = 0)%nat -> (idx0 + r = n)%nat -> (1 <= r)%nat -> (r < fuel)%nat -> length buf = 8%nat ->
    unpack_all fuel b r (skipn p bytes) = Some ds ->
    exists it', (if (8 <=? r)%nat then unpack8 b bytes (mk_iter p (N.of_nat idx0) prev true 0 buf)
                 else unpack1 b bytes (mk_iter p (N.of_nat idx0) prev false 0 buf)) = Some it' /\
                iter_loop (S r) v bytes it' = Some (undeltas prev ds).
  Proof.
    induction fuel as [|f IH]; intros r p prev idx0 buf ds Hmod Hidx Hr Hfuel Hlb Hun; [lia|].
    cbn [unpack_all] in Hun. destruct (Nat.eqb_spec r 0); [lia|].
    destruct (Nat.leb_spec 8 r) as [H8|H8].
    - (* a block *)
      destruct (Nat.ltb_spec (length (skipn p bytes)) b) as [Hsh|Hsh]; [discriminate|].
      destruct (unpack_vals b 8 (firstn b (skipn p bytes))) as [x|] eqn:Ex; [|discriminate].
      destruct (unpack_all f b (r - 8) (skipn b (skipn p bytes))) as [y|] eqn:Ey; [|discriminate].
      inversion Hun; subst ds. clear Hun.
      rewrite skipn_length in Hsh.
      unfold unpack8. cbn [it_ptr it_prev it_index it_block it_off it_buf].
      destruct (Nat.ltb_spec (length bytes) (p + b)) as [Hc2|_]; [lia|]. rewrite Ex.
      set (buf' := undeltas prev x). set (prev' := last buf' prev).
      assert (Hlb' : length buf' = 8%nat) by (unfold buf'; rewrite undeltas_length; eapply unpack_vals_length; eauto).
      eexists. split; [reflexivity|].
      replace (S r) with (7 + S (r - 7))%nat by lia.
      pose proof (walk 7 0 (S (r - 7)) (p + b)%nat idx0 prev' 0%nat buf' Hmod ltac:(lia) ltac:(lia) Hlb') as Hw.
      rewrite Nat.add_0_r in Hw. rewrite Hw. clear Hw. cbn [skipn].
      rewrite iter_loop_unfold.
      set (it7 := mk_iter (p + b) (N.of_nat (idx0 + 7)) prev' true 0 buf').
      assert (Hslot : slot it7 = 7%nat) by (apply (slot_of idx0 7); auto; lia).
      unfold it_at_end, it_deref, it_next. rewrite Hc. cbn [negb]. rewrite Hslot.
      cbn [it7 it_ptr it_index it_prev it_block it_off it_buf]. rewrite Hn.
      replace (N.of_nat (idx0 + 7) =? N.of_nat n) with false by (symmetry; apply N.eqb_neq; lia).
      rewrite index_succ by lia. replace (S (idx0 + 7)) with (idx0 + 8)%nat by lia.
      rewrite undeltas_app. fold buf'. fold prev'.
      destruct (Nat.eq_dec r 8) as [->|Hr8].
      + (* the last block *)
        replace (N.of_nat (idx0 + 8) <? N.of_nat n) with false by (symmetry; apply N.ltb_ge; lia).
        replace (8 - 7)%nat with 1%nat by lia. rewrite iter_loop_unfold. unfold it_at_end. rewrite Hc. cbn [negb it_index].
        rewrite Hn. replace (N.of_nat (idx0 + 8) =? N.of_nat n) with true by (symmetry; apply N.eqb_eq; lia).
        destruct f as [|f']; [lia|]. cbn [unpack_all] in Ey. replace (8 - 8)%nat with 0%nat in Ey by lia.
        cbn [Nat.eqb] in Ey. inversion Ey; subst y. cbn [undeltas]. rewrite app_nil_r.
        now rewrite (firstn7_nth7 buf' Hlb').
      + replace (N.of_nat (idx0 + 8) <? N.of_nat n) with true by (symmetry; apply N.ltb_lt; lia).
        rewrite of_nat_mod8.
        assert (Hm8 : ((idx0 + 8) mod 8 = 0)%nat).
        { pose proof (Nat.div_mod idx0 8 ltac:(lia)) as Hd. rewrite Hmod in Hd.
          symmetry. apply Nat.mod_unique with (q := (idx0 / 8 + 1)%nat); lia. }
        rewrite Hm8. change (N.of_nat 0 =? 0) with true. cbv iota.
        replace (N.of_nat n - N.of_nat (idx0 + 8)) with (N.of_nat (r - 8)) by lia.
        rewrite skipn_add in Ey.
        destruct (IH (r - 8)%nat (p + b)%nat prev' (idx0 + 8)%nat buf' y) as (it' & Hent & Hloop); auto; try lia.
        assert (Hcmp : (8 <=? N.of_nat (r - 8)) = (8 <=? r - 8)%nat).
        { destruct (Nat.leb_spec 8 (r - 8)); [apply N.leb_le; lia|apply N.leb_gt; lia]. }
        rewrite Hcmp. destruct (8 <=? r - 8)%nat; rewrite Hent; replace (r - 7)%nat with (S (r - 8)) by lia; rewrite Hloop;
          f_equal; apply firstn7_nth7_app; exact Hlb'.
    - (* the tail *)
      set (nb := nbytes b r) in *.
      destruct (Nat.ltb_spec (length (skipn p bytes)) nb) as [Hsh|Hsh]; [discriminate|].
      unfold unpack_vals in Hun. unfold unpack_prog_c in Hun.
      destruct (Nat.eqb_spec r 8); [lia|]. unfold unroll_unpack in Hun.
      destruct (exec (repeat None r, map Some (firstn nb (skipn p bytes))) (unroll_unpack_from r 0 b 0 0)) as [stF|] eqn:Eex; [|discriminate].
      pose proof (all_some_length _ _ Hun) as Hlds. destruct (exec_lengths _ _ _ Eex) as [HlF _]. cbn [fst] in HlF.
      rewrite repeat_length in HlF.
      destruct (tail_run (firstn nb (skipn p bytes)) p r ds stF idx0 ltac:(lia) ltac:(lia) Hun
                  (window_get bytes nb p) Hmod Hidx r 0%nat 0%nat 0%nat (repeat None r) prev buf)
        as (it' & Hu1 & Hloop); auto; try lia.
      { now rewrite repeat_length. }
      { intros m _. apply get_repeat_none. }
      rewrite !Nat.add_0_r in Hu1. exists it'. split; [exact Hu1|exact Hloop].
  Qed.

  (* the lazy iteration of a compressed view = the eager decoder's entries *)
  Theorem iterate_compressed ds :
    unpack_all (S n) b n (skipn (v_start v) bytes) = Some ds -> iterate v bytes = Some (undeltas 0 ds).
  Proof.
    intros Hun. unfold iterate, it_begin. rewrite Hc. cbn [negb]. rewrite Hn.
    destruct n as [|n'] eqn:En.
    - cbn [unpack_all Nat.eqb] in Hun. inversion Hun; subst ds.
      change (0 <? N.of_nat 0) with false. cbv iota. change (N.to_nat (N.of_nat 0)) with 0%nat.
      rewrite iter_loop_unfold. unfold it_at_end. rewrite Hc. cbn [negb it_index]. rewrite Hn. reflexivity.
    - rewrite <- En in *. replace (0 <? N.of_nat n) with true by (symmetry; apply N.ltb_lt; lia).
      cbn [it_block]. rewrite Nat2N.id.
      destruct (run_from (S n) n (v_start v) 0 0%nat (repeat 0 8) ds) as (it' & Hent & Hloop); auto; try lia.
      assert (Hcmp : (8 <=? N.of_nat n) = (8 <=? n)%nat).
      { destruct (Nat.leb_spec 8 n); [apply N.leb_le; lia|apply N.leb_gt; lia]. }
      rewrite Hcmp. change (N.of_nat 0) with 0 in Hent.
      destruct (8 <=? n)%nat; rewrite Hent; exact Hloop.
  Qed.
End Lazy.

(* ---- a compressed view has a 32-bit entry count ---- *)
Lemma parse_compressed_num e bytes v : parse e bytes = Some v -> v_bits v <> 64 -> v_num v < two32.
Proof.
  unfold parse. cbv zeta. intros H Hb.
  repeat match type of H with
         | (if ?c then _ else _) = Some _ => destruct c eqn:?; try discriminate H
         | bind ?o _ = Some _ => destruct o eqn:?; cbn [bind] in H; try discriminate H
         end;
    injection H as <-; cbn [v_bits v_num] in *; try congruence.
  rewrite w32_mod. apply N.mod_lt. discriminate.
Qed.

(* ==== the wrapped view agrees with the eager decoder on every image the eager decoder accepts ==== *)
Theorem wrap_eq_eager_gen : forall e bytes s,
  dec_bytes e bytes = Some s ->
  exists v, parse e bytes = Some v /\ iterate v bytes = Some (k_entries s) /\
    v_empty v = k_empty s /\ v_seed_hash v = k_seed_hash s /\ v_theta v = k_theta s /\
    N.to_nat (v_num v) = length (k_entries s) /\
    k_ordered s = (v_ordered v || (length (k_entries s) <=? 1)%nat).
Proof.
  intros e bytes s H.
  destruct (parse_of_dec_all e bytes s H) as (v & Hp & He & Hsh & Hth & Hord & Hent & Hnum & Hbits & Hbound).
  exists v. split; [exact Hp|]. split; [|repeat split; assumption].
  unfold eager_entries in Hent. destruct Hbits as [H64|[Hb He']].
  - rewrite H64 in Hent, Hbound. change (64 =? 64) with true in Hent, Hbound. cbv iota in Hent, Hbound.
    apply iterate_uncompressed; auto.
  - destruct (N.eqb_spec (v_bits v) 64) as [E|E]; [lia|].
    destruct (unpack_all _ _ _ _) as [ds|] eqn:Eu; [|discriminate]. injection Hent as <-.
    apply (iterate_compressed v bytes) with (n := N.to_nat (v_num v)).
    + unfold compressed. apply N.eqb_neq in E. now rewrite E.
    + now rewrite N2Nat.id.
    + rewrite N2Nat.id. eapply parse_compressed_num; eauto.
    + unfold vb. lia.
    + exact Eu.
Qed.

Theorem wrap_all_eq_eager : forall e bytes s,
  dec_bytes e bytes = Some s ->
  exists w, wrap_all e bytes = Some w /\ k_entries w = k_entries s /\ k_empty w = k_empty s /\
            k_seed_hash w = k_seed_hash s /\ k_theta w = k_theta s /\
            k_ordered s = (k_ordered w || (length (k_entries s) <=? 1)%nat).
Proof.
  intros e bytes s H. destruct (wrap_eq_eager_gen e bytes s H) as (v & Hp & Hit & He & Hsh & Hth & _ & Hord).
  unfold wrap_all. rewrite Hp, Hit. eexists. split; [reflexivity|]. unfold view_sketch.
  cbn [k_entries k_empty k_seed_hash k_theta k_ordered]. repeat split; assumption.
Qed.

(* ---- the order flag of the view: true, or bit 4 of the flags byte as stored ---- *)
Lemma parse_ordered_cases e bytes v : parse e bytes = Some v ->
  v_ordered v = true \/ exists fl, rd 1 5 bytes = Some fl /\ v_ordered v = N.testbit fl 4.
Proof.
  unfold parse. cbv zeta. intros H.
  repeat match type of H with
         | (if ?c then _ else _) = Some _ => destruct c eqn:?; try discriminate H
         | bind ?o _ = Some _ => destruct o eqn:?; cbn [bind] in H; try discriminate H
         end;
    injection H as <-; cbn [v_ordered]; auto.
  right. eexists. split; reflexivity.
Qed.

Lemma parse_v4_ordered e bytes v : parse e bytes = Some v -> rd 1 1 bytes = Some 4 -> v_ordered v = true.
Proof.
  unfold parse. cbv zeta. intros H H4. rewrite H4 in H.
  repeat match type of H with
         | (if ?c then _ else _) = Some _ => destruct c eqn:?; try discriminate H
         | bind ?o _ = Some _ => destruct o eqn:?; cbn [bind] in H; try discriminate H
         end;
    injection H as <-; cbn [v_ordered]; auto; discriminate.
Qed.

Lemma csk_ext (a b : csk) : k_empty a = k_empty b -> k_ordered a = k_ordered b -> k_seed_hash a = k_seed_hash b ->
  k_theta a = k_theta b -> k_entries a = k_entries b -> a = b.
Proof. destruct a, b; cbn; intros; subst; reflexivity. Qed.

(* ==== round trip through the wrapped view ==== *)

(* serial version 3 (serialize()): wrapping the image — whatever follows it in memory — and iterating gives back the
   sketch: entries in the stored order, theta, emptiness, seed hash, and the order flag *)
Theorem wrap_v3_roundtrip s : wf s -> forall rest, wrap_all (k_seed_hash s) (enc_v3 s ++ rest) = Some s.
Proof.
  intros Hwf rest. pose proof Hwf as (Hsh & Hth & Hents & Hn & Hemp & Hord).
  pose proof (v3_roundtrip_bytes s Hwf rest) as Hdec.
  destruct (v3_header s rest Hsh) as (Hpre & Hver & Htyp & Hfl & Hseed & Hlen8).
  destruct (k_empty s) eqn:Eem.
  - (* empty: the parser returns on the flag *)
    destruct (Hemp eq_refl) as [Hnil Hmax].
    unfold wrap_all, parse. cbv zeta.
    destruct (Nat.ltb_spec (length (enc_v3 s ++ rest)) 8) as [Hc|_]; [lia|].
    rewrite Hpre, Hver, Htyp. cbn [bind]. change (3 =? 3) with true. change (3 =? 4) with false. cbn [negb].
    rewrite Hseed, Hfl. cbn [bind]. rewrite flags_bit2, Eem.
    unfold iterate, it_begin, compressed. cbn [v_bits v_num v_start]. change (64 =? 64) with true. cbn [negb].
    change (N.to_nat 0) with 0%nat. cbn [iter_loop]. unfold it_at_end, compressed. cbn [v_bits v_num v_start it_ptr].
    change (64 =? 64) with true. cbn [negb]. change (N.to_nat 0) with 0%nat. cbn [Nat.add Nat.mul Nat.eqb].
    f_equal. apply csk_ext; cbn; auto. rewrite Hord; auto. rewrite Hnil. simpl. lia.
  - destruct (wrap_eq_eager_gen _ _ _ Hdec) as (v & Hp & Hit & He & Hs & Ht & Hnum & Ho).
    unfold wrap_all. rewrite Hp, Hit. f_equal. apply csk_ext; cbn; auto.
    destruct (parse_ordered_cases _ _ _ Hp) as [Ht1|(fl & Hfl' & Ht2)].
    + rewrite Ht1 in *. now rewrite Ho.
    + rewrite Hfl in Hfl'. injection Hfl' as <-. rewrite Ht2. apply flags_bit4.
Qed.

(* serial version 4 (the compressed image): the lazy block / tail decoding gives back the sketch *)
Theorem wrap_v4_roundtrip s : wf4 s -> suitable_for_compression s = true ->
  exists img, enc_v4 s = Some img /\ forall rest, wrap_all (k_seed_hash s) (img ++ rest) = Some s.
Proof.
  intros Hwf4 Hs. destruct (suitable_facts s Hs) as (Ho & Hn0 & Hne).
  destruct (enc_v4_image s Hwf4 Hs) as [packed [Himg _]].
  destruct (v4_roundtrip s Hwf4 Hs) as [img [He [_ Hr]]]. rewrite Himg in He. injection He as <-.
  exists (v4_head s ++ packed). split; [exact Himg|]. intros rest.
  destruct (Hr rest) as [Hdec0 _].
  assert (Hdec : dec_bytes (k_seed_hash s) ((v4_head s ++ packed) ++ rest) = Some s) by exact Hdec0.
  destruct (wrap_eq_eager_gen (k_seed_hash s) ((v4_head s ++ packed) ++ rest) s Hdec) as (v & Hp & Hit & Hem & Hsh & Ht & Hnum & Hord).
  unfold wrap_all. rewrite Hp, Hit. f_equal. apply csk_ext; cbn; auto.
  rewrite Ho. apply (parse_v4_ordered _ _ _ Hp).
  rewrite <- app_assoc. destruct (v4_header s (packed ++ rest) Hwf4 Hne) as (_ & H4 & _). exact H4.
Qed.

(* serialize_compressed() of any well-formed sketch (version 4 when suitable, else version 3) *)
Theorem wrap_serialize_compressed_roundtrip s : wf s -> (suitable_for_compression s = true -> wf4 s) ->
  exists img, serialize_compressed s = Some img /\ forall rest, wrap_all (k_seed_hash s) (img ++ rest) = Some s.
Proof.
  intros Hwf H4. unfold serialize_compressed. destruct (suitable_for_compression s) eqn:Hs.
  - apply wrap_v4_roundtrip; auto.
  - exists (enc_v3 s). split; [reflexivity|]. now apply wrap_v3_roundtrip.
Qed.

(* ==== the iterator stays inside the image ====
   Every memory read of the model goes through [rd] / [get] / an explicit length test and fails outside [bytes]; the round-trip
   theorems are stated with an ARBITRARY continuation [rest] of the memory and give the same result for all of them, in
   particular for rest = []: no read at or beyond length img is ever needed.  Explicitly, for the image alone: *)
Corollary wrap_v3_in_bounds s : wf s -> wrap_all (k_seed_hash s) (enc_v3 s) = Some s.
Proof. intros H. rewrite <- (app_nil_r (enc_v3 s)). now apply wrap_v3_roundtrip. Qed.

Corollary wrap_v4_in_bounds s : wf4 s -> suitable_for_compression s = true ->
  exists img, enc_v4 s = Some img /\ wrap_all (k_seed_hash s) img = Some s.
Proof.
  intros H1 H2. destruct (wrap_v4_roundtrip s H1 H2) as [img [He Hr]]. exists img. split; auto.
  rewrite <- (app_nil_r img). apply Hr.
Qed.
