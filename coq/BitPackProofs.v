(* BitPackProofs.v — soundness of the symbolic semantics of BitPackLang w.r.t. the concrete one. *)
From Coq Require Import NArith List Bool Lia Arith.
From DS Require Import BitPackLang.
Import ListNotations.
Local Open Scope N_scope.

Section Sound.
  Variable rho : src -> bool.
  Notation dw := (dw rho).
  Notation bitv := (bitv rho).

  Lemma b2n_lt2 b : N.b2n b < 2.
  Proof. destruct b; simpl; lia. Qed.

  Lemma mod_double a p b : p <> 0 -> b < 2 -> (b + 2 * a) mod (2 * p) = b + 2 * (a mod p).
  Proof.
    intros Hp Hb. symmetry. apply N.mod_unique with (q := a / p).
    - pose proof (N.mod_lt a p Hp). lia.
    - pose proof (N.div_mod a p Hp). lia.
  Qed.

  Lemma div_double a p b : p <> 0 -> b < 2 -> (b + 2 * a) / (2 * p) = a / p.
  Proof.
    intros Hp Hb. symmetry. apply N.div_unique with (r := b + 2 * (a mod p)).
    - pose proof (N.mod_lt a p Hp). lia.
    - pose proof (N.div_mod a p Hp). lia.
  Qed.

  Lemma dw_shl n w : dw (repeat None n ++ w) = dw w * 2 ^ N.of_nat n.
  Proof.
    induction n as [|n IH]; [simpl; lia|].
    rewrite Nat2N.inj_succ, N.pow_succ_r'. cbn [repeat app dw BitPackLang.bitv N.b2n]. rewrite IH. lia.
  Qed.

  Lemma dw_firstn k w : dw (firstn k w) = dw w mod 2 ^ N.of_nat k.
  Proof.
    revert w; induction k as [|k IH]; intros w.
    - simpl. now rewrite N.mod_1_r.
    - destruct w as [|b r].
      + cbn [firstn dw]. symmetry. apply N.mod_0_l. apply N.pow_nonzero; lia.
      + rewrite Nat2N.inj_succ, N.pow_succ_r'. cbn [firstn dw]. rewrite IH.
        rewrite mod_double; auto using b2n_lt2. apply N.pow_nonzero; lia.
  Qed.

  Lemma dw_skipn n w : dw (skipn n w) = dw w / 2 ^ N.of_nat n.
  Proof.
    revert w; induction n as [|n IH]; intros w.
    - simpl. now rewrite N.div_1_r.
    - destruct w as [|b r].
      + cbn [skipn dw]. symmetry. apply N.div_0_l. apply N.pow_nonzero; lia.
      + rewrite Nat2N.inj_succ, N.pow_succ_r'. cbn [skipn dw]. rewrite IH.
        rewrite div_double; auto using b2n_lt2. apply N.pow_nonzero; lia.
  Qed.

  Lemma bcons_bit0 b a : N.testbit (N.b2n b + 2 * a) 0 = b.
  Proof. rewrite N.add_comm. apply N.testbit_0_r. Qed.

  Lemma bcons_bitS b a k : N.testbit (N.b2n b + 2 * a) (N.succ k) = N.testbit a k.
  Proof. rewrite N.add_comm. apply N.testbit_succ_r. Qed.

  Lemma bits_cons_inj x y :
    N.testbit x 0 = N.testbit y 0 -> (forall k, N.testbit x (N.succ k) = N.testbit y (N.succ k)) -> x = y.
  Proof.
    intros H0 HS. apply N.bits_inj. intros k.
    destruct (N.zero_or_succ k) as [->|[m ->]]; auto.
  Qed.

  Lemma dw_smask w m : dw (smask w m) = N.land (dw w) m.
  Proof.
    revert m; induction w as [|b r IH]; intros m; [reflexivity|].
    cbn [smask dw]. rewrite IH. apply bits_cons_inj.
    - rewrite bcons_bit0, N.land_spec, bcons_bit0, N.bit0_odd.
      destruct (N.odd m); [now rewrite andb_true_r|]. now rewrite andb_false_r.
    - intros k. rewrite bcons_bitS, !N.land_spec, bcons_bitS, N.div2_div, N.div2_bits. reflexivity.
  Qed.

  Lemma src_eqb_eq a b : src_eqb a b = true -> a = b.
  Proof.
    destruct a, b; simpl; try discriminate; intros H; apply andb_prop in H; destruct H as [H1 H2];
      apply Nat.eqb_eq in H1; apply Nat.eqb_eq in H2; congruence.
  Qed.

  Lemma dw_sor a b r : sor a b = Some r -> dw r = N.lor (dw a) (dw b).
  Proof.
    revert b r; induction a as [|x ra IH]; intros b r H.
    - simpl in H. inversion H; subst. reflexivity.
    - destruct b as [|y rb].
      + simpl in H. inversion H; subst. now rewrite N.lor_0_r.
      + cbn [sor] in H. destruct (sor ra rb) as [r'|] eqn:Hr; [|discriminate].
        specialize (IH _ _ Hr).
        assert (Hgen : forall z, r = z :: r' -> bitv z = bitv x || bitv y -> dw r = N.lor (dw (x :: ra)) (dw (y :: rb))).
        { intros z -> Hz. cbn [dw]. rewrite IH, Hz. apply bits_cons_inj.
          - now rewrite N.lor_spec, !bcons_bit0.
          - intros k. now rewrite N.lor_spec, !bcons_bitS, N.lor_spec. }
        destruct x as [sx|], y as [sy|].
        * destruct (src_eqb sx sy) eqn:He; [|discriminate]. inversion H; subst.
          apply src_eqb_eq in He; subst. eapply Hgen; [reflexivity|]. now rewrite orb_diag.
        * inversion H; subst. eapply Hgen; [reflexivity|]. simpl. now rewrite orb_false_r.
        * inversion H; subst. eapply Hgen; [reflexivity|]. reflexivity.
        * inversion H; subst. eapply Hgen; [reflexivity|]. reflexivity.
  Qed.

  Lemma dw_all_none w : forallb is_none w = true -> dw w = 0.
  Proof.
    induction w as [|b r IH]; [reflexivity|]. simpl. intros H. apply andb_prop in H. destruct H as [Hb Hr].
    rewrite (IH Hr). destruct b; [discriminate|reflexivity].
  Qed.

  Lemma dw_lt_pow w : dw w < 2 ^ N.of_nat (length w).
  Proof.
    induction w as [|b r IH]; [simpl; lia|].
    cbn [length dw]. rewrite Nat2N.inj_succ, N.pow_succ_r'. pose proof (b2n_lt2 (bitv b)). lia.
  Qed.

  Lemma dw_split n w : dw w = dw (firstn n w) + 2 ^ N.of_nat n * dw (skipn n w).
  Proof.
    rewrite dw_firstn, dw_skipn. pose proof (N.div_mod (dw w) (2 ^ N.of_nat n)).
    assert (2 ^ N.of_nat n <> 0) by (apply N.pow_nonzero; lia). lia.
  Qed.

  Lemma dw_tail_none n w : forallb is_none (skipn n w) = true -> dw w < 2 ^ N.of_nat n.
  Proof.
    intros H. rewrite (dw_split n w), (dw_all_none _ H), N.mul_0_r, N.add_0_r, dw_firstn.
    apply N.mod_lt. apply N.pow_nonzero; lia.
  Qed.

  (* ---- state lemmas ---- *)
  Lemma get_map {A B} (f : A -> B) (l : list (option A)) i :
    get (map (option_map f) l) i = option_map f (get l i).
  Proof. unfold get. revert i; induction l as [|x t IH]; intros [|i]; simpl; auto. Qed.

  Lemma set_map {A B} (f : A -> B) (l : list (option A)) i v :
    set (map (option_map f) l) i (f v) = option_map (map (option_map f)) (set l i v).
  Proof.
    revert i; induction l as [|x t IH]; intros [|i]; simpl; auto.
    rewrite IH. destruct (set t i v); reflexivity.
  Qed.

  Notation dstate := (dstate rho).
  Notation dopt := (dopt rho).

  Lemma some_inj {A} (a b : A) : Some a = Some b -> a = b.
  Proof. congruence. Qed.
  Ltac some_inv H := apply some_inj in H; subst.

  Theorem seval_sound s e w : seval s e = Some w -> eval (dstate s) e = Some (dw w).
  Proof.
    revert w; induction e as [i|j|e IH n|e IH n|e IH m|t e IH]; intros w H; cbn [seval eval] in *.
    - unfold dstate; cbn [fst]. unfold dopt. rewrite get_map, H. reflexivity.
    - unfold dstate; cbn [snd]. unfold dopt. rewrite get_map, H. reflexivity.
    - destruct (seval s e) as [w0|]; [|discriminate]. rewrite (IH _ eq_refl).
      destruct (promote (type_of e)); [discriminate| |].
      + destruct (n <? 32)%nat eqn:Hn; [|discriminate]. cbn [andb] in *.
        destruct (forallb is_none (skipn i32bits (repeat None n ++ w0))) eqn:Hf; [|discriminate].
        some_inv H. apply dw_tail_none in Hf. rewrite dw_shl in *.
        fold two31 in Hf. apply N.ltb_lt in Hf. now rewrite Hf.
      + destruct (n <? 64)%nat; [|discriminate]. some_inv H.
        now rewrite dw_firstn, dw_shl.
    - destruct (seval s e) as [w0|]; [|discriminate]. rewrite (IH _ eq_refl).
      destruct (n <? width (promote (type_of e)))%nat; [|discriminate]. some_inv H.
      now rewrite dw_skipn.
    - destruct (seval s e) as [w0|]; [|discriminate]. rewrite (IH _ eq_refl).
      destruct (m <? two31); [|discriminate]. some_inv H. now rewrite dw_smask.
    - destruct (seval s e) as [w0|]; [|discriminate]. rewrite (IH _ eq_refl).
      destruct t; [|discriminate|]; some_inv H; now rewrite dw_firstn.
  Qed.

  Theorem sexec1_sound s st s' : sexec1 s st = Some s' -> exec1 (dstate s) st = Some (dstate s').
  Proof.
    destruct st as [j e|j e|i e|i e]; cbn [sexec1 exec1]; intros H.
    - destruct (seval s e) as [w|] eqn:He; [|discriminate]. rewrite (seval_sound _ _ _ He).
      destruct (set (snd s) j (firstn (width U8) w)) as [b|] eqn:Hs; [|discriminate]. some_inv H.
      unfold dstate at 1; cbn [fst snd]. rewrite <- dw_firstn.
      unfold dopt. rewrite set_map, Hs. reflexivity.
    - unfold dstate at 1; cbn [fst snd]. unfold dopt at 1. rewrite get_map.
      destruct (get (snd s) j) as [old|]; [|discriminate]. cbn [option_map].
      destruct (seval s e) as [w|] eqn:He; [|discriminate]. rewrite (seval_sound _ _ _ He).
      destruct (sor old w) as [o|] eqn:Ho; [|discriminate].
      destruct (set (snd s) j (firstn (width U8) o)) as [b|] eqn:Hs; [|discriminate]. some_inv H.
      rewrite <- (dw_sor _ _ _ Ho). rewrite <- dw_firstn.
      unfold dstate; cbn [fst snd]. unfold dopt. rewrite set_map, Hs. reflexivity.
    - destruct (seval s e) as [w|] eqn:He; [|discriminate]. rewrite (seval_sound _ _ _ He).
      destruct (set (fst s) i (firstn (width U64) w)) as [b|] eqn:Hs; [|discriminate]. some_inv H.
      unfold dstate at 1; cbn [fst snd]. rewrite <- dw_firstn.
      unfold dopt. rewrite set_map, Hs. reflexivity.
    - unfold dstate at 1; cbn [fst snd]. unfold dopt at 1. rewrite get_map.
      destruct (get (fst s) i) as [old|]; [|discriminate]. cbn [option_map].
      destruct (seval s e) as [w|] eqn:He; [|discriminate]. rewrite (seval_sound _ _ _ He).
      destruct (sor old w) as [o|] eqn:Ho; [|discriminate].
      destruct (set (fst s) i (firstn (width U64) o)) as [b|] eqn:Hs; [|discriminate]. some_inv H.
      rewrite <- (dw_sor _ _ _ Ho). rewrite <- dw_firstn.
      unfold dstate; cbn [fst snd]. unfold dopt. rewrite set_map, Hs. reflexivity.
  Qed.

  Theorem sexec_sound p s s' : sexec s p = Some s' -> exec (dstate s) p = Some (dstate s').
  Proof.
    revert s; induction p as [|st r IH]; intros s H; cbn [sexec exec] in *.
    - now inversion H.
    - destruct (sexec1 s st) as [s1|] eqn:H1; [|discriminate].
      rewrite (sexec1_sound _ _ _ H1). now apply IH.
  Qed.

  (* bit-level reading of a denoted word *)
  Lemma testbit_dw w k : N.testbit (dw w) (N.of_nat k) = bitv (nth k w None).
  Proof.
    revert k; induction w as [|b r IH]; intros k.
    - cbn [dw]. rewrite N.bits_0. now destruct k.
    - destruct k as [|k].
      + simpl N.of_nat. cbn [dw nth]. apply bcons_bit0.
      + rewrite Nat2N.inj_succ. cbn [dw nth]. rewrite bcons_bitS. apply IH.
  Qed.
End Sound.
