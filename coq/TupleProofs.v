(* TupleProofs.v — the summary attached to every retained key is the update policy folded over the values offered
   with that key, in arrival order.
   Part A: at the abstract level L1 of ThetaProofs.v (any resolution of the internal choices: where an entry lands,
           what nth_element does within its postcondition), for ANY payload functions: the payload of a retained key
           is the composition of the payload functions offered with that key since the last reset ([pinv_step],
           [a_reach_pay]).
   Part B: transported to the concrete table model through ThetaRefine.run_refines ([run_pay]).
   Part C: the tuple instance ([tup_f]: create()+update() on first sight, update() on repeat): the composition is
           fold_left upd values create ([summary_is_fold]). *)
From Coq Require Import ZArith NArith List Bool Lia Permutation Sorted Arith.
From DS Require Import Word RunnerLib OpenAddr KSmallest Canon ThetaDefs ThetaProofs ThetaRefine ThetaFacts TupleDefs.
Import ListNotations.
Local Open Scope N_scope.

Section Pay.
  Variable S : Type.
  Variables lgn r th0 : N.

  (* the payload a key must carry after a history: the payload functions offered with it, composed in arrival order;
     None = never offered since the last reset *)
  Definition pay_step (h : N) (cur : option S) (o : op S) : option S :=
    match o with
    | OpUpdate h64 f => if h64 / 2 =? h then Some (f cur) else cur
    | OpTrim => cur
    | OpReset => None
    end.
  Definition pay_of (h : N) (ops : list (op S)) : option S := fold_left (pay_step h) ops None.

  Lemma pay_of_snoc h ops o : pay_of h (ops ++ [o]) = pay_step h (pay_of h ops) o.
  Proof. unfold pay_of. now rewrite fold_left_app. Qed.

  Lemma pay_of_not_seen h ops : ~ In h (seen_of ops) -> pay_of h ops = None.
  Proof.
    induction ops as [|o ops IH] using rev_ind; intros Hn; [reflexivity|].
    rewrite pay_of_snoc. rewrite seen_of_snoc in Hn. destruct o as [h64 f| |]; simpl in *.
    - destruct (N.eqb_spec (h64 / 2) h) as [E|E]; [exfalso; apply Hn; auto|]. apply IH. intros H. apply Hn. auto.
    - apply IH, Hn.
    - reflexivity.
  Qed.

  Definition PInv (a : astate S) (ops : list (op S)) : Prop :=
    forall h v, In (h, v) (a_ents a) -> pay_of h ops = Some v.

  Lemma rebuild_rel_incl ents theta' ents' : rebuild_rel S lgn ents theta' ents' -> incl ents' ents.
  Proof.
    intros (pre & p & post & Hperm & _ & _ & _ & _ & Hents') e He.
    eapply Permutation_in; [exact Hperm|]. apply in_or_app. left. eapply Permutation_in; [exact Hents'|exact He].
  Qed.

  Lemma pinv_insert (a : astate S) ops h64 f ents' :
    AInv S lgn th0 a (seen_of ops) -> PInv a ops -> 0 < h64 / 2 < a_theta a -> ~ In (h64 / 2) (akeys a) ->
    Permutation ents' ((h64 / 2, f None) :: a_ents a) ->
    forall h v, In (h, v) ents' -> pay_of h (ops ++ [OpUpdate h64 f]) = Some v.
  Proof.
    intros Hinv HP Hrange Hnin Hperm h v Hin. rewrite pay_of_snoc. simpl.
    eapply Permutation_in in Hin; [|exact Hperm]. destruct Hin as [E|Hin].
    - inversion E; subst h v. rewrite N.eqb_refl. rewrite pay_of_not_seen; [reflexivity|].
      intros Hs. apply Hnin. apply (ai_set S lgn th0 _ _ Hinv). auto.
    - destruct (N.eqb_spec (h64 / 2) h) as [E|E].
      + exfalso. apply Hnin. subst h. unfold akeys. change (h64 / 2) with (fst (h64 / 2, v)). now apply in_map.
      + now apply HP.
  Qed.

  (* one step of L1 keeps "payload = composition of the functions offered" *)
  Theorem pinv_step a o a' ops :
    AInv S lgn th0 a (seen_of ops) -> PInv a ops -> a_step S lgn r th0 a o a' -> PInv a' (ops ++ [o]).
  Proof.
    intros Hinv HP Hstep.
    destruct Hstep as [a h64 f h Hh Hscr | a h64 f h ents' Hh Hrange Hin Hperm
                      | a h64 f h ents' Hh Hrange Hnin Hperm Hcap | a h64 f h ents' Hh Hrange Hnin Hperm Hcap Hlg
                      | a h64 f h ents1 theta' ents' Hh Hrange Hnin Hperm Hcap Hlg Hkn Hrb
                      | a Hle | a theta' ents' Hkn Hrb | a]; intros k v Hkv; cbn [a_ents] in Hkv.
    - (* screened: the key offered is not a retained one *)
      rewrite pay_of_snoc. simpl. subst h. destruct (N.eqb_spec (h64 / 2) k) as [E|E]; [|now apply HP].
      exfalso. assert (Hk : In k (akeys a)) by (unfold akeys; change k with (fst (k, v)); now apply in_map).
      apply (ai_set S lgn th0 _ _ Hinv) in Hk. lia.
    - (* present: updated in place *)
      rewrite pay_of_snoc. simpl. subst h.
      eapply Permutation_in in Hkv; [|exact Hperm]. apply in_map_iff in Hkv. destruct Hkv as ([k0 v0] & E & Hin0).
      unfold upd_payload in E. simpl in E. destruct (N.eqb_spec k0 (h64 / 2)) as [E0|E0].
      + inversion E; subst k v. rewrite N.eqb_refl. subst k0. now rewrite (HP _ _ Hin0).
      + inversion E; subst k0 v0. destruct (N.eqb_spec (h64 / 2) k) as [E1|E1]; [congruence|]. now apply HP.
    - subst h. eapply pinv_insert; eauto.
    - subst h. eapply pinv_insert; eauto.
    - subst h. eapply pinv_insert; eauto. eapply rebuild_rel_incl; eauto.
    - rewrite pay_of_snoc. simpl. now apply HP.
    - rewrite pay_of_snoc. simpl. apply HP. eapply rebuild_rel_incl; eauto.
    - contradiction.
  Qed.

  Theorem a_reach_pay ops a : a_reach S lgn r th0 ops a -> PInv a ops.
  Proof.
    induction 1 as [|ops o a a' Hr IH Hst].
    - intros h v [].
    - eapply pinv_step; eauto. eapply a_reach_inv; eauto.
  Qed.
End Pay.

Arguments pay_step {S}. Arguments pay_of {S}.

(* ---- Part B: the concrete table model ---- *)
Section RunPay.
  Variable S : Type.
  Variable sel : nat -> list (N * S) -> list (N * S).
  Hypothesis sel_ok : forall k l, (k < length l)%nat -> nth_post fst k l (sel k l).
  Variables lgn r th0 : N.
  Hypothesis lgn_ge : 5 <= lgn.

  Theorem run_pay ops h v : In (h, v) (entries S (run_ops S sel lgn r th0 ops)) -> pay_of h ops = Some v.
  Proof.
    intros Hin. destruct (run_refines S sel sel_ok lgn r th0 lgn_ge ops) as [Hr _].
    exact (a_reach_pay S lgn r th0 ops _ Hr h v Hin).
  Qed.
End RunPay.

(* ---- Part C: the tuple update policy ---- *)
Section TuplePolicy.
  Variables S U : Type.
  Variable create : S.
  Variable upd : S -> U -> S.
  Notation top := (top U).
  Notation op_of_top := (op_of_top S U create upd).
  Notation fold_policy := (fold_policy S U create upd).

  Definition opt_of (acc : list U) : option S :=
    match acc with [] => None | _ => Some (fold_policy acc) end.

  Lemma tup_f_opt u acc : Some (tup_f S U create upd u (opt_of acc)) = opt_of (acc ++ [u]).
  Proof.
    unfold tup_f, opt_of, TupleDefs.fold_policy. destruct acc as [|a acc]; [reflexivity|].
    change ((a :: acc) ++ [u]) with (a :: (acc ++ [u])). cbn [fold_left app]. now rewrite fold_left_app.
  Qed.

  Lemma pay_offered h (ts : list top) : forall acc,
    fold_left (pay_step h) (map op_of_top ts) (opt_of acc) = opt_of (offered_with U h ts acc).
  Proof.
    induction ts as [|t ts IH]; intros acc; [reflexivity|].
    destruct t as [h64 u| |]; cbn [map fold_left offered_with TupleDefs.op_of_top tup_op pay_step].
    - destruct (N.eqb_spec (h64 / 2) h) as [E|E]; [|apply IH]. rewrite tup_f_opt. apply IH.
    - apply IH.
    - apply (IH []).
  Qed.

  Lemma pay_of_tuple h ts : pay_of h (map op_of_top ts) = opt_of (offered_with U h ts []).
  Proof. exact (pay_offered h ts []). Qed.

  Variable sel : nat -> list (N * S) -> list (N * S).
  Hypothesis sel_ok : forall k l, (k < length l)%nat -> nth_post fst k l (sel k l).
  Variables lgn r th0 : N.
  Hypothesis lgn_ge : 5 <= lgn.

  (* every retained key was offered, and its summary is the update policy folded over the values offered with it,
     in arrival order, starting from create() — whatever resize, rebuild and trim did in between *)
  Theorem summary_is_fold (ts : list top) h v :
    In (h, v) (entries S (run_ops S sel lgn r th0 (map op_of_top ts))) ->
    offered_with U h ts [] <> [] /\ v = fold_policy (offered_with U h ts []).
  Proof.
    intros Hin. apply (run_pay S sel sel_ok lgn r th0 lgn_ge) in Hin. rewrite pay_of_tuple in Hin.
    unfold opt_of in Hin. destruct (offered_with U h ts []) as [|u us]; [discriminate|].
    split; [discriminate|]. now inversion Hin.
  Qed.
End TuplePolicy.
