(* CpcBits.v — bit-level and list-level lemmas used by the CPC proofs. *)
From Coq Require Import ZArith NArith List Bool Lia.
From DS Require Import Word RunnerLib CpcDefs.
Import ListNotations.
Local Open Scope N_scope.

(** ** lists indexed by N *)
Lemma nthN_updN_eq l i f d : (N.to_nat i < length l)%nat -> nthN (updN l i f) i d = f (nthN l i d).
Proof. intros H. unfold nthN, updN. now apply nth_upd_nth_eq. Qed.

Lemma nthN_updN_neq l i j f d : i <> j -> nthN (updN l i f) j d = nthN l j d.
Proof. intros H. unfold nthN, updN. apply nth_upd_nth_neq. intros E. apply H. now apply N2Nat.inj. Qed.

Lemma nthN_updN_oob l i f : (length l <= N.to_nat i)%nat -> updN l i f = l.
Proof.
  unfold updN. generalize (N.to_nat i). intros n. revert n.
  induction l as [|x t IH]; intros [|n] H; simpl in *; auto; try lia. f_equal. apply IH. lia.
Qed.

Lemma updN_length l i f : length (updN l i f) = length l.
Proof. unfold updN. apply upd_nth_length. Qed.

Lemma setN_length l i v : length (setN l i v) = length l.
Proof. unfold setN. apply upd_nth_length. Qed.

Lemma nthN_setN_eq l i v d : (N.to_nat i < length l)%nat -> nthN (setN l i v) i d = v.
Proof. intros H. unfold nthN, setN. now rewrite nth_upd_nth_eq. Qed.

Lemma nthN_setN_neq l i j v d : i <> j -> nthN (setN l i v) j d = nthN l j d.
Proof. intros H. unfold nthN, setN. apply nth_upd_nth_neq. intros E. apply H. now apply N2Nat.inj. Qed.

Lemma nthN_repeat x n i d : (N.to_nat i < n)%nat -> nthN (repeat x n) i d = x.
Proof.
  unfold nthN. generalize (N.to_nat i). intros j. revert j.
  induction n as [|n IH]; intros [|j] H; simpl; auto; try lia. apply IH. lia.
Qed.

Lemma nthN_oob l i d : (length l <= N.to_nat i)%nat -> nthN l i d = d.
Proof. intros H. unfold nthN. now apply nth_overflow. Qed.

Lemma nthN_cons_succ x l i d : nthN (x :: l) (i + 1) d = nthN l i d.
Proof. unfold nthN. replace (N.to_nat (i + 1)) with (S (N.to_nat i)) by lia. reflexivity. Qed.

Lemma nthN_cons_0 x l d : nthN (x :: l) 0 d = x.
Proof. reflexivity. Qed.

(** ** membership *)
Lemma mem_In x l : mem x l = true <-> In x l.
Proof.
  unfold mem. rewrite existsb_exists. split.
  - intros (y & Hy & E). apply N.eqb_eq in E. now subst.
  - intros H. exists x. split; auto. apply N.eqb_refl.
Qed.

Lemma mem_false x l : mem x l = false <-> ~ In x l.
Proof.
  rewrite <- mem_In. destruct (mem x l); split; intros H.
  - discriminate.
  - exfalso. apply H. reflexivity.
  - intros E. discriminate.
  - reflexivity.
Qed.

Lemma mem_cons x y l : mem x (y :: l) = (x =? y) || mem x l.
Proof. reflexivity. Qed.

Lemma mem_ext x l l' : (forall y, In y l <-> In y l') -> mem x l = mem x l'.
Proof.
  intros H. destruct (mem x l) eqn:E.
  - symmetry. apply mem_In. apply H. now apply mem_In.
  - symmetry. apply mem_false. intros Hin. apply H in Hin. apply mem_In in Hin. congruence.
Qed.

(** ** row/column pairs *)
Definition rcp (r c : N) : N := N.lor (N.shiftl r 6) c.

Lemma col_bits_high c j : c < 64 -> 6 <= j -> N.testbit c j = false.
Proof.
  intros H Hj. destruct (N.eq_dec c 0) as [->|Hc]; [apply N.bits_0|].
  apply N.bits_above_log2. assert (N.log2 c < 6) by (apply N.log2_lt_pow2; [lia|exact H]). lia.
Qed.

Lemma rcp_col r c : c < 64 -> N.land (rcp r c) 63 = c.
Proof.
  intros H. unfold rcp. change 63 with (N.ones 6). rewrite N.land_ones.
  apply N.bits_inj. intros j. destruct (N.ltb_spec j 6).
  - rewrite N.mod_pow2_bits_low by auto. rewrite N.lor_spec, N.shiftl_spec_low by auto. reflexivity.
  - rewrite N.mod_pow2_bits_high by auto. symmetry. now apply col_bits_high.
Qed.

Lemma rcp_row r c : c < 64 -> N.shiftr (rcp r c) 6 = r.
Proof.
  intros H. unfold rcp. apply N.bits_inj. intros j.
  rewrite N.shiftr_spec', N.lor_spec, N.shiftl_spec_high' by lia.
  rewrite (col_bits_high c (j + 6)) by (auto; lia). rewrite orb_false_r. f_equal. lia.
Qed.

Lemma rcp_decode v : v = rcp (N.shiftr v 6) (N.land v 63).
Proof.
  unfold rcp. apply N.bits_inj. intros j. rewrite N.lor_spec.
  change 63 with (N.ones 6). rewrite N.land_ones.
  destruct (N.ltb_spec j 6).
  - rewrite N.shiftl_spec_low, N.mod_pow2_bits_low by auto. reflexivity.
  - rewrite N.shiftl_spec_high' by auto. rewrite N.shiftr_spec', N.mod_pow2_bits_high by auto.
    rewrite orb_false_r. f_equal. lia.
Qed.

Lemma land63_lt v : N.land v 63 < 64.
Proof. change 63 with (N.ones 6). rewrite N.land_ones. apply N.mod_lt. discriminate. Qed.

Lemma rcp_inj r c r' c' : c < 64 -> c' < 64 -> rcp r c = rcp r' c' -> r = r' /\ c = c'.
Proof.
  intros H H' E. split.
  - rewrite <- (rcp_row r c H), <- (rcp_row r' c' H'). now rewrite E.
  - rewrite <- (rcp_col r c H), <- (rcp_col r' c' H'). now rewrite E.
Qed.

Lemma rcp_eq_iff v r c : c < 64 -> (v = rcp r c <-> N.shiftr v 6 = r /\ N.land v 63 = c).
Proof.
  intros H. split.
  - intros ->. split; [apply rcp_row|apply rcp_col]; auto.
  - intros [<- <-]. apply rcp_decode.
Qed.

Lemma lt_pow2_bits x n : x < 2 ^ n -> forall j, n <= j -> N.testbit x j = false.
Proof.
  intros H j Hj. destruct (N.eq_dec x 0) as [->|Hx]; [apply N.bits_0|].
  apply N.bits_above_log2. apply N.lt_le_trans with n; [|exact Hj].
  apply N.log2_lt_pow2; [lia|exact H].
Qed.

Lemma bits_lt_pow2 x n : (forall j, n <= j -> N.testbit x j = false) -> x < 2 ^ n.
Proof.
  intros H. destruct (N.eq_dec x 0) as [->|Hx]; [apply N.neq_0_lt_0, N.pow_nonzero; lia|].
  destruct (N.lt_ge_cases x (2 ^ n)) as [|Hge]; auto. exfalso.
  assert (Hl : n <= N.log2 x) by (rewrite <- (N.log2_pow2 n) by apply N.le_0_l; apply N.log2_le_mono; exact Hge).
  pose proof (N.bit_log2 x Hx) as Hb. rewrite H in Hb by auto. discriminate.
Qed.

Lemma rcp_lt r c l : r < 2 ^ l -> c < 64 -> rcp r c < 2 ^ (6 + l).
Proof.
  intros Hr Hc. unfold rcp. apply bits_lt_pow2. intros j Hj.
  rewrite N.lor_spec, N.shiftl_spec_high' by lia.
  rewrite (lt_pow2_bits r l Hr) by lia. rewrite (col_bits_high c j) by (auto; lia). reflexivity.
Qed.

Lemma row_lt v l : v < 2 ^ (6 + l) -> N.shiftr v 6 < 2 ^ l.
Proof.
  intros H. rewrite N.shiftr_div_pow2. apply N.div_lt_upper_bound; [discriminate|].
  rewrite <- N.pow_add_r. exact H.
Qed.

(** ** single bits *)
Lemma bit1_spec c j : N.testbit (N.shiftl 1 c) j = (c =? j).
Proof. rewrite N.shiftl_1_l. apply N.pow2_bits_eqb. Qed.

Lemma lor_bit_same w j : N.lor w (N.shiftl 1 j) = w <-> N.testbit w j = true.
Proof.
  split.
  - intros E. rewrite <- E. rewrite N.lor_spec, bit1_spec, N.eqb_refl. apply orb_true_r.
  - intros H. apply N.bits_inj. intros i. rewrite N.lor_spec, bit1_spec.
    destruct (N.eqb_spec j i); [subst; rewrite H; reflexivity|apply orb_false_r].
Qed.

Definition is_byte (w : N) : Prop := forall j, 8 <= j -> N.testbit w j = false.

Lemma is_byte_0 : is_byte 0.
Proof. intros j _. apply N.bits_0. Qed.

Lemma is_byte_lor_bit w j : is_byte w -> j < 8 -> is_byte (N.lor w (N.shiftl 1 j)).
Proof.
  intros H Hj i Hi. rewrite N.lor_spec, bit1_spec, H by auto. destruct (N.eqb_spec j i); [lia|reflexivity].
Qed.

Lemma is_byte_land255 w : is_byte (N.land w 255).
Proof.
  intros j Hj. rewrite N.land_spec. change 255 with (N.ones 8). rewrite N.ones_spec_high by auto. apply andb_false_r.
Qed.

(** ** ctz64 *)
Lemma ctz_pos_bit p : N.testbit (Npos p) (ctz_pos p) = true.
Proof.
  induction p as [p IH|p IH|]; cbn [ctz_pos]; try reflexivity.
  change (N.pos p~0) with (2 * N.pos p). rewrite N.add_1_l, N.testbit_even_succ by apply N.le_0_l. exact IH.
Qed.

Lemma ctz_pos_below p j : j < ctz_pos p -> N.testbit (Npos p) j = false.
Proof.
  revert j. induction p as [p IH|p IH|]; cbn [ctz_pos]; intros j Hj; try lia.
  change (N.pos p~0) with (2 * N.pos p).
  destruct (N.eq_dec j 0) as [->|Hj0]; [apply N.testbit_even_0|].
  replace j with (N.succ (N.pred j)) by lia. rewrite N.testbit_even_succ by apply N.le_0_l. apply IH. lia.
Qed.

Lemma w64_id x : x < two64 -> w64 x = x.
Proof. intros H. rewrite w64_mod. apply N.mod_small. exact H. Qed.

Lemma lt64_bits x : x < two64 -> forall j, 64 <= j -> N.testbit x j = false.
Proof. intros H. apply lt_pow2_bits. exact H. Qed.

Lemma bits_lt64 x : (forall j, 64 <= j -> N.testbit x j = false) -> x < two64.
Proof. intros H. change two64 with (2 ^ 64). now apply bits_lt_pow2. Qed.

Lemma ctz64_bit x : x < two64 -> x <> 0 -> N.testbit x (ctz64 x) = true /\ ctz64 x < 64.
Proof.
  intros Hlt Hne. unfold ctz64. rewrite w64_id by auto. destruct x as [|p]; [congruence|].
  split; [apply ctz_pos_bit|].
  destruct (N.lt_ge_cases (ctz_pos p) 64) as [|Hge]; auto. exfalso.
  pose proof (ctz_pos_bit p) as Hb. rewrite (lt64_bits _ Hlt) in Hb by auto. discriminate.
Qed.

Lemma ctz64_below x j : x < two64 -> j < ctz64 x -> N.testbit x j = false.
Proof.
  intros Hlt Hj. unfold ctz64 in Hj. rewrite w64_id in Hj by auto. destruct x as [|p]; [apply N.bits_0|].
  now apply ctz_pos_below.
Qed.

(** ** popcount *)
Lemma popcount_div2 w : popcount w = (if N.odd w then 1 else 0) + popcount (N.div2 w).
Proof. destruct w as [|[p|p|]]; simpl; try reflexivity. Qed.

Lemma popcount_setbit c : forall w, N.testbit w c = false -> popcount (N.lor w (N.shiftl 1 c)) = popcount w + 1.
Proof.
  induction c as [|c IH] using N.peano_ind; intros w H.
  - rewrite N.shiftl_0_r. rewrite (popcount_div2 (N.lor w 1)), (popcount_div2 w).
    rewrite N.bit0_odd in H. rewrite H.
    assert (Ho : N.odd (N.lor w 1) = true) by (rewrite <- N.bit0_odd, N.lor_spec; simpl; apply orb_true_r).
    rewrite Ho. rewrite !N.div2_spec, N.shiftr_lor. simpl (N.shiftr 1 1). rewrite N.lor_0_r. lia.
  - rewrite (popcount_div2 (N.lor w _)), (popcount_div2 w).
    assert (Ho : N.odd (N.lor w (N.shiftl 1 (N.succ c))) = N.odd w).
    { rewrite <- !N.bit0_odd, N.lor_spec, bit1_spec. destruct (N.eqb_spec (N.succ c) 0); [lia|apply orb_false_r]. }
    rewrite Ho. rewrite !N.div2_spec, N.shiftr_lor.
    rewrite N.shiftr_shiftl_l by lia. replace (N.succ c - 1) with c by lia.
    rewrite IH; [lia|]. rewrite <- N.div2_spec. rewrite <- N.testbit_succ_r_div2 by apply N.le_0_l. exact H.
Qed.

Lemma sum_popcount_updN m i f :
  (N.to_nat i < length m)%nat ->
  sum_popcount (updN m i f) + popcount (nthN m i 0) = sum_popcount m + popcount (f (nthN m i 0)).
Proof.
  unfold updN, nthN. generalize (N.to_nat i). intros n. revert n.
  induction m as [|x t IH]; intros [|n] H; simpl in *; try lia.
  specialize (IH n). assert (Hn : (n < length t)%nat) by lia. specialize (IH Hn). lia.
Qed.
