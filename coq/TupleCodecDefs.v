(* TupleCodecDefs.v — executable model of the Tuple sketch images (no proofs here).
   compact_tuple_sketch<S> with the default serde of a fixed-size arithmetic summary (tuple_sketch_impl.hpp serialize /
   deserialize, bytes and stream), little endian:
     byte 0 preamble longs (3 estimation mode | 1 empty or single entry | 2) | 1 serial version 3 (reader also: legacy 1)
     2 family 9 | 3 sketch type 1 (reader also: legacy 5) | 4 unused | 5 flags (bit 1 read-only, 2 empty, 3 compact, 4 ordered)
     6..7 seed hash | [8..11 number of entries | 12..15 unused]  if preamble longs > 1 | [theta u64] if estimation mode
     then per entry: key u64, summary (sw bytes: 8 for int64_t / double, 4 for float), interleaved.
   compact_array_tuple_sketch<array<double>> (array_tuple_sketch_impl.hpp), ArrayOfDoublesCompactSketch layout:
     byte 0 preamble longs 1 (not read) | 1 serial version 1 | 2 family 9 | 3 sketch type 3
     4 flags (bit 2 empty, 3 has entries, 4 ordered) | 5 number of values | 6..7 seed hash | 8..15 theta
     if entries: 16..19 number of entries | 20..23 unused | all keys (u64 each) | all value rows (num_values doubles each).
   The readers are sequential parsers: every field is read only if enough bytes remain (as the repaired byte readers
   check, and as the stream readers find out from the stream state); a count is compared with the remaining length
   before anything is built from it.  One parser [dec] serves both paths: the byte reader ignores what follows the
   image, the stream reader stops after it ([used] = bytes consumed).  Doubles travel as 64-bit patterns. *)
From Coq Require Import NArith ZArith List Bool Arith.
From DS Require Import Word Murmur3 RunnerLib OpenAddr KSmallest Canon ThetaDefs TupleDefs.
Import ListNotations.
Local Open Scope N_scope.

Definition MAXT : N := 9223372036854775807.
Definition u16 (x : N) := N_to_le_bytes 2 x.
Definition u32 (x : N) := N_to_le_bytes 4 x.
Definition u64 (x : N) := N_to_le_bytes 8 x.

(* ---- sequential parsers over a byte list ---- *)
Definition parser (A : Type) : Type := list N -> option (A * list N).
Definition pret {A} (a : A) : parser A := fun l => Some (a, l).
Definition pfail {A} : parser A := fun _ => None.
Definition pbind {A B} (p : parser A) (f : A -> parser B) : parser B :=
  fun l => match p l with Some (a, r) => f a r | None => None end.
Notation "x <- p ;; k" := (pbind p (fun x => k)) (at level 61, p at next level, right associativity).
(* k bytes, little endian *)
Definition rdn (k : nat) : parser N :=
  fun l => if (length l <? k)%nat then None else Some (le_bytes_to_N (firstn k l), skipn k l).
Fixpoint prep {A} (n : nat) (p : parser A) : parser (list A) :=
  match n with
  | O => pret []
  | S m => a <- p ;; r <- prep m p ;; pret (a :: r)
  end.
(* n items of [unit] bytes each must still be there (ensure_minimum_memory before anything is sized by n) *)
Definition enough (n sz : N) : parser unit :=
  fun l => if N.of_nat (length l) <? n * sz then None else Some (tt, l).

(* ---- compact_tuple_sketch ---- *)
Record tsk := { t_empty : bool; t_ordered : bool; t_sh : N; t_theta : N; t_ents : list (N * N) }.

(* the constructor: at most one entry is always ordered *)
Definition mk_t (e o : bool) (sh th : N) (ents : list (N * N)) : tsk :=
  {| t_empty := e; t_ordered := o || (length ents <=? 1)%nat; t_sh := sh; t_theta := th; t_ents := ents |}.

Definition t_est (s : tsk) : bool := (t_theta s <? MAXT) && negb (t_empty s).
Definition t_n (s : tsk) : N := N.of_nat (length (t_ents s)).
Definition t_pre (s : tsk) : N := if t_est s then 3 else if t_empty s || (t_n s =? 1) then 1 else 2.
Definition t_flags (s : tsk) : N := 2 + 8 + (if t_empty s then 4 else 0) + (if t_ordered s then 16 else 0).

Definition enc_entry (sw : nat) (e : N * N) : list N := u64 (fst e) ++ N_to_le_bytes sw (snd e).

Definition enc_t (sw : nat) (s : tsk) : list N :=
  [t_pre s; 3; 9; 1; 0; t_flags s] ++ u16 (t_sh s) ++
  (if 1 <? t_pre s then u32 (t_n s) ++ [0; 0; 0; 0] else []) ++
  (if t_est s then u64 (t_theta s) else []) ++
  flat_map (enc_entry sw) (t_ents s).

(* header_size_bytes + 8 * preamble_longs + 8 * n + summaries *)
Definition size_t (sw : nat) (s : tsk) : N := 8 * t_pre s + (8 + N.of_nat sw) * t_n s.

Definition dec_entry (sw : nat) : parser (N * N) := k <- rdn 8 ;; v <- rdn sw ;; pret (k, v).

(* the fields, in reading order; the seed hash is compared afterwards ([dec_t]): the readers compare it right after the
   first 8 bytes and only when the empty flag is not set — same verdict, since a rejection is a rejection *)
Definition dec_t_core (sw : nat) : parser tsk :=
  pl <- rdn 1 ;; ver <- rdn 1 ;; fam <- rdn 1 ;; typ <- rdn 1 ;; unused <- rdn 1 ;; fl <- rdn 1 ;; sh <- rdn 2 ;;
  if negb ((ver =? 3) || (ver =? 1)) then pfail else
  if negb (fam =? 9) then pfail else
  if negb ((typ =? 1) || (typ =? 5)) then pfail else
  if N.testbit fl 2 then pret (mk_t true (N.testbit fl 4) sh MAXT []) else
  if pl =? 1 then
    e <- dec_entry sw ;; pret (mk_t false (N.testbit fl 4) sh MAXT [e])
  else
    n <- rdn 4 ;; unused32 <- rdn 4 ;;
    th <- (if 2 <? pl then rdn 8 else pret MAXT) ;;
    ok <- enough n 8 ;;
    ents <- prep (N.to_nat n) (dec_entry sw) ;;
    pret (mk_t false (N.testbit fl 4) sh th ents).

Definition guard {A} (ok : A -> bool) (p : parser A) : parser A :=
  fun l => match p l with Some (a, r) => if ok a then Some (a, r) else None | None => None end.

Definition dec_t (sw : nat) (expected : N) : parser tsk :=
  guard (fun s => t_empty s || (t_sh s =? expected)) (dec_t_core sw).

(* ---- compact_array_tuple_sketch<array<double>> ---- *)
Record ask := { a_empty : bool; a_ordered : bool; a_sh : N; a_theta : N; a_nv : N; a_ents : list (N * list N) }.

Definition mk_a (e o : bool) (sh th nv : N) (ents : list (N * list N)) : ask :=
  {| a_empty := e; a_ordered := o || (length ents <=? 1)%nat; a_sh := sh; a_theta := th; a_nv := nv; a_ents := ents |}.

Definition a_n (s : ask) : N := N.of_nat (length (a_ents s)).
Definition a_flags (s : ask) : N :=
  (if a_empty s then 4 else 0) + (if 0 <? a_n s then 8 else 0) + (if a_ordered s then 16 else 0).

Definition enc_a (s : ask) : list N :=
  [1; 1; 9; 3; a_flags s; a_nv s] ++ u16 (a_sh s) ++ u64 (a_theta s) ++
  (if 0 <? a_n s then
     u32 (a_n s) ++ [0; 0; 0; 0] ++ flat_map (fun e => u64 (fst e)) (a_ents s) ++
     flat_map (fun e => flat_map u64 (snd e)) (a_ents s)
   else []).

Definition size_a (s : ask) : N := 16 + (if 0 <? a_n s then 8 else 0) + (8 + 8 * a_nv s) * a_n s.

(* returns the sketch and the HAS_ENTRIES flag (the seed hash is compared only when it is set) *)
Definition dec_a_core : parser (ask * bool) :=
  unused <- rdn 1 ;; ver <- rdn 1 ;; fam <- rdn 1 ;; typ <- rdn 1 ;; fl <- rdn 1 ;; nv <- rdn 1 ;; sh <- rdn 2 ;;
  if negb (ver =? 1) then pfail else
  if negb (fam =? 9) then pfail else
  if negb (typ =? 3) then pfail else
  th <- rdn 8 ;;
  if N.testbit fl 3 then
    n <- rdn 4 ;; unused32 <- rdn 4 ;;
    ok <- enough n (8 + 8 * nv) ;;
    keys <- prep (N.to_nat n) (rdn 8) ;;
    rows <- prep (N.to_nat n) (prep (N.to_nat nv) (rdn 8)) ;;
    pret (mk_a (N.testbit fl 2) (N.testbit fl 4) sh th nv (combine keys rows), true)
  else pret (mk_a (N.testbit fl 2) (N.testbit fl 4) sh th nv [], false).

Definition dec_a (expected : N) : parser ask :=
  fun l => match guard (fun x => negb (snd x) || (a_sh (fst x) =? expected)) dec_a_core l with
           | Some (x, r) => Some (fst x, r)
           | None => None
           end.

(* both paths *)
Definition dec_bytes {A} (p : parser A) (bytes : list N) : option A := option_map fst (p bytes).
Definition dec_stream {A} (p : parser A) (bytes : list N) : option (A * nat) :=
  match p bytes with Some (s, r) => Some (s, (length bytes - length r)%nat) | None => None end.

(* ---- the sketches of the C13 model as images ---- *)
Local Open Scope Z_scope.

(* bit pattern of the double holding the integer z, |z| < 2^53 *)
Definition dbits_of_Z (z : Z) : N :=
  if z =? 0 then 0%N else
  let a := Z.to_N (Z.abs z) in
  let e := N.log2 a in
  ((if (z <? 0)%Z then 2 ^ 63 else 0) + (1023 + e) * 2 ^ 52 + (a - 2 ^ e) * 2 ^ (52 - e))%N.

(* pol = -1: compact_tuple_sketch<int64_t>; pol = n > 0: compact_array_of_doubles_sketch with n values *)
Definition tsk_of_compact (sh : N) (c : compact sm) : tsk :=
  {| t_empty := c_empty c; t_ordered := c_ordered c; t_sh := sh; t_theta := c_theta c;
     t_ents := map (fun e => (fst e, z_to_u64 (hd 0 (snd e)))) (c_entries c) |}.
Definition ask_of_compact (pol : Z) (sh : N) (c : compact sm) : ask :=
  {| a_empty := c_empty c; a_ordered := c_ordered c; a_sh := sh; a_theta := c_theta c; a_nv := zN pol;
     a_ents := map (fun e => (fst e, map dbits_of_Z (snd e))) (c_entries c) |}.

Definition image_of_reg (g : reg) : option (list N) :=
  match g with
  | RC pol sh c => if pol =? -1 then Some (enc_t 8 (tsk_of_compact sh c))
                   else if 0 <? pol then Some (enc_a (ask_of_compact pol sh c)) else None
  | _ => None
  end.

(* ---- line protocol: the C13 protocol of TupleDefs.step plus
   op 30 kind empty ordered seed_hash theta (key summary)*   build a compact_tuple_sketch with exactly these fields
                                                             (kind 0 int64_t, 1 double, 2 float): R = image bytes
   op 31 kind expected byte*   decode through the bytes path (kind 3 = array of doubles): R = 1, fields | -1
   op 32 kind expected byte*   decode through the stream path: R = 1, bytes consumed, fields | -1
   op 33 kind expected byte*   decode (bytes path) and serialize again: R = image bytes | -1
   op 34 r                     image of the compact sketch in register r (int64_t or array-of-doubles flavour)
   op 35 r path                deserialize (path 0 bytes, 1 stream; DEFAULT_SEED) the image of register r: R as op 31 / 32 *)
Definition sw_of (kind : Z) : nat := if kind =? 2 then 4%nat else 8%nat.

Fixpoint pairs (l : list Z) : list (N * N) :=
  match l with
  | k :: v :: r => (zN k, zN v) :: pairs r
  | _ => []
  end.

(* what the public API shows: get_num_retained() is the stored count; the iterator skips entries whose key is 0
   (never present in a valid image; a corrupted image that is accepted may hold one) *)
Definition show_t (s : tsk) : line :=
  [bz (t_empty s); bz (t_ordered s); Nz (t_sh s); Nz (t_theta s); nz (length (t_ents s))] ++
  flat_map (fun e => if (fst e =? 0)%N then [] else [Nz (fst e); Nz (snd e)]) (t_ents s).
Definition show_a (s : ask) : line :=
  [bz (a_empty s); bz (a_ordered s); Nz (a_sh s); Nz (a_theta s); Nz (a_nv s); nz (length (a_ents s))] ++
  flat_map (fun e => if (fst e =? 0)%N then [] else Nz (fst e) :: map Nz (snd e)) (a_ents s).

Definition step (s : st) (o e : line) : st * outline :=
  match o with
  | 30 :: kind :: em :: od :: sh :: th :: ents =>
      if (kind <? 0) || (2 <? kind) then (s, (refused, [])) else
      (s, (map Nz (enc_t (sw_of kind) (mk_t (negb (em =? 0)) (negb (od =? 0)) (zN sh) (zN th) (pairs ents))), []))
  | 31 :: kind :: exp :: bytes =>
      if kind =? 3 then
        match dec_bytes (dec_a (zN exp)) (map zN bytes) with
        | Some a => (s, (1 :: show_a a, []))
        | None => (s, (refused, []))
        end
      else
        match dec_bytes (dec_t (sw_of kind) (zN exp)) (map zN bytes) with
        | Some t => (s, (1 :: show_t t, []))
        | None => (s, (refused, []))
        end
  | 32 :: kind :: exp :: bytes =>
      if kind =? 3 then
        match dec_stream (dec_a (zN exp)) (map zN bytes) with
        | Some (a, used) => (s, (1 :: nz used :: show_a a, []))
        | None => (s, (refused, []))
        end
      else
        match dec_stream (dec_t (sw_of kind) (zN exp)) (map zN bytes) with
        | Some (t, used) => (s, (1 :: nz used :: show_t t, []))
        | None => (s, (refused, []))
        end
  | 33 :: kind :: exp :: bytes =>
      if kind =? 3 then
        match dec_bytes (dec_a (zN exp)) (map zN bytes) with
        | Some a => (s, (map Nz (enc_a a), []))
        | None => (s, (refused, []))
        end
      else
        match dec_bytes (dec_t (sw_of kind) (zN exp)) (map zN bytes) with
        | Some t => (s, (map Nz (enc_t (sw_of kind) t), []))
        | None => (s, (refused, []))
        end
  | 34 :: r :: _ =>
      match reg_get s r with
      | Some g => match image_of_reg g with
                  | Some img => (s, (map Nz img, []))
                  | None => (s, (refused, []))
                  end
      | None => (s, (refused, []))
      end
  | 35 :: r :: path :: _ =>
      match reg_get s r with
      | Some (RC pol sh c) =>
          let exp := compute_seed_hash 9001 in
          if pol =? -1 then
            let img := enc_t 8 (tsk_of_compact sh c) in
            if path =? 0 then
              match dec_bytes (dec_t 8 exp) img with Some t => (s, (1 :: show_t t, [])) | None => (s, (refused, [])) end
            else
              match dec_stream (dec_t 8 exp) img with Some (t, used) => (s, (1 :: nz used :: show_t t, [])) | None => (s, (refused, [])) end
          else if 0 <? pol then
            let img := enc_a (ask_of_compact pol sh c) in
            if path =? 0 then
              match dec_bytes (dec_a exp) img with Some a => (s, (1 :: show_a a, [])) | None => (s, (refused, [])) end
            else
              match dec_stream (dec_a exp) img with Some (a, used) => (s, (1 :: nz used :: show_a a, [])) | None => (s, (refused, [])) end
          else (s, (refused, []))
      | _ => (s, (refused, []))
      end
  | _ => TupleDefs.step s o e
  end.

Definition run (ops : list opline) : list outline := run_case step [] ops.
