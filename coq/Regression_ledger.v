(* Regression_ledger.v — C19, known finding var_opt_union_result_item_lifetime as theorems about the SHIPPED discipline.
   var_opt_union::get_result copies the gadget (the copy constructor skips the gap slot and clears filled_data_) and calls
   var_opt_sketch::decrease_k_by_1 on the copy until no marked item is left in H.  decrease_k_by_1, as coded (LedgerVo.vo_decrease_k):
     (a) in the branch h > 0, r > 0 it std::swap()s the last R item with the gap slot — which after the copy is raw memory;
     (b) it shrinks k without destroying the slot that falls out of the array, and transition_from_warmup() reached from it
         leaves filled_data_ = false although the gap now holds an object: the destructor then destroys too few items.
   Below: the sketch lifecycle WITHOUT decrease_k_by_1 is accepted and balanced for every history (the positive statement the
   shipped code does satisfy), and two histories WITH it that the ledger judge rejects (witnesses by computation). *)
From Coq Require Import ZArith NArith List Bool Lia.
From DS Require Import LedgerCore LedgerCoreProofs LedgerVo LedgerVoProofs.
Import ListNotations.
Local Open Scope N_scope.

Inductive vop :=
| VUpd (env : list N)        (* update(item, w > 0); env = (h_, r_) afterwards *)
| VCopy                      (* continue with a copy (copy constructor) of the current sketch; the original is set aside *)
| VReset
| VDec (env : list N).       (* decrease_k_by_1() *)

Inductive vres := VOk_ (s : vo) (L : ledger) | VRefused | VRejected.

Definition vstep (s : vo) (L : ledger) (o : vop) : vres :=
  match o with
  | VUpd env => match vo_update s env with
                | None => VRefused
                | Some (s', es) => match apply_all [] L es with Some L' => VOk_ s' L' | None => VRejected end
                end
  | VCopy => match vo_copy s with
             | None => VRefused
             | Some (s', es) => match apply_all L [] es with Some L' => VOk_ s' L' | None => VRejected end
             end
  | VReset => match vo_reset s with
              | None => VRefused
              | Some (s', es) => match apply_all [] L es with Some L' => VOk_ s' L' | None => VRejected end
              end
  | VDec env => match vo_decrease_k s env with
                | None => VRefused
                | Some (s', es) => match apply_all [] L es with Some L' => VOk_ s' L' | None => VRejected end
                end
  end.

Fixpoint vrun (s : vo) (L : ledger) (ops : list vop) : vres :=
  match ops with
  | [] => VOk_ s L
  | o :: t => match vstep s L o with VOk_ s' L' => vrun s' L' t | r => r end
  end.

(* the discipline: no effect of the history is rejected, and the destructor (as coded) then leaves nothing behind *)
Definition lifecycle_ok (k rf : N) (ops : list vop) : Prop :=
  let '(s0, e0) := new_vo k rf in
  match apply_all [] [] e0 with
  | None => False
  | Some L0 => match vrun s0 L0 ops with
               | VRejected => False
               | VRefused => True                                   (* an exception escaped: nothing is claimed *)
               | VOk_ s L => apply_all [] L (vo_destroy s) = Some []
               end
  end.

Definition no_dec (o : vop) : bool := match o with VDec _ => false | _ => true end.

Lemma vrun_inv : forall ops s L, forallb no_dec ops = true -> VInv s L ->
  match vrun s L ops with VOk_ s' L' => VInv s' L' | VRefused => True | VRejected => False end.
Proof.
  induction ops as [|o t IH]; intros s L Hn HI; simpl; auto.
  simpl in Hn. apply andb_prop in Hn. destruct Hn as [Ho Ht].
  destruct o as [env| | |env]; try discriminate; simpl.
  - destruct (vo_update s env) as [[s' es]|] eqn:E; auto.
    destruct (vo_update_ok [] s L env s' es HI E) as (L' & A & B & _). rewrite A. now apply IH.
  - destruct (vo_copy s) as [[s' es]|] eqn:E; auto.
    destruct (vo_copy_ok s L s' es HI E) as (L' & A & B & _). rewrite A. now apply IH.
  - destruct (vo_reset s) as [[s' es]|] eqn:E; auto.
    destruct (vo_reset_ok [] s L s' es HI E) as (L' & A & B & _). rewrite A. now apply IH.
Qed.

(* what the shipped sketch code DOES satisfy: every history without decrease_k_by_1 *)
Theorem var_opt_sketch_lifecycle_ok : forall k rf ops, forallb no_dec ops = true -> lifecycle_ok k rf ops.
Proof.
  intros k rf ops Hn. unfold lifecycle_ok. destruct (new_vo k rf) as [s0 e0] eqn:E.
  destruct (new_vo_ok [] k rf s0 e0 E) as (L0 & A & HI). rewrite A.
  pose proof (vrun_inv ops s0 L0 Hn HI) as H. destruct (vrun s0 L0 ops) as [s L| |]; auto.
  now apply vo_destroy_ok.
Qed.

(* (a) the union(32) replay of the finding: the gadget samples (k = 32: 33 updates, then h = r = 16), get_result copies it and
       calls decrease_k_by_1: the swap touches the gap slot of the copy, which was never constructed *)
Definition replay_union32 : list vop :=
  repeat (VUpd []) 32 ++ [VUpd [16; 16]; VCopy; VDec [15; 16]].

Theorem decrease_k_discipline_refuted_raw_gap : exists k rf ops, ~ lifecycle_ok k rf ops.
Proof. exists 32, 0, replay_union32. vm_compute. auto. Qed.

Example replay_union32_is_rejected_at_decrease_k :
  let '(s0, e0) := new_vo 32 0 in
  match apply_all [] [] e0 with
  | Some L0 => (match vrun s0 L0 (repeat (VUpd []) 32 ++ [VUpd [16; 16]; VCopy]) with VOk_ _ _ => true | _ => false end) = true /\
               vrun s0 L0 replay_union32 = VRejected
  | None => False
  end.
Proof. vm_compute. auto. Qed.

(* (b) the leak: a pseudo-exact gadget (k = 4, four items, not sampling) is copied; the first decrease_k_by_1 goes through
       transition_from_warmup() (gap constructed, filled_data_ still false), the second one swaps and shrinks k: every effect is
       accepted, but the destructor, trusting filled_data_ and k, destroys 3 of the 4 constructed items and releases data_ *)
Definition replay_leak : list vop := repeat (VUpd []) 4 ++ [VCopy; VDec [2; 1]; VDec [1; 1]].

Theorem decrease_k_discipline_refuted_leak : exists k rf ops,
  (let '(s0, e0) := new_vo k rf in
   match apply_all [] [] e0 with
   | Some L0 => match vrun s0 L0 ops with
                | VOk_ s L => live_slots L = 4 /\ apply_all [] L (vo_destroy s) = None     (* accepted so far; the destructor is rejected *)
                | _ => False
                end
   | None => False
   end) /\ ~ lifecycle_ok k rf ops.
Proof. exists 4, 0, replay_leak. vm_compute. split; [split; reflexivity|discriminate]. Qed.

Print Assumptions var_opt_sketch_lifecycle_ok.
Print Assumptions decrease_k_discipline_refuted_raw_gap.
Print Assumptions decrease_k_discipline_refuted_leak.
