(* VarOptDefs.v — executable model of sampling/include/var_opt_sketch_impl.hpp and var_opt_union_impl.hpp
   (update, merge_items, resolve_tau, get_result with its three coercers, decrease_k_by_1, the round trips).
   No proofs here.

   Representation.  The C++ object keeps three parallel arrays data_/weights_/marks_ of k+1 slots that
   are split, left to right, into the regions H (binary min-heap on weight, slots [0,h)), M (transient,
   slots [h,h+m)) and R (slots [h+m,h+m+r)); when m = 0 and r > 0 slot h is an unused gap.  The model
   keeps the three regions as three lists in slot order:
     vH : (item, weight, mark) in heap-array order      -- h_ = length vH
     vM : (item, weight, mark) in slot order            -- m_ = length vM + vmb
     vR : items in slot order                           -- r_ = length vR
   The gap, the -1.0 sentinels in weights_ and the marks of R slots are never read by the code and are not
   represented.  [vmb] is a phantom M count: before fixes/16_deserialize_m.patch deserialize() constructed an
   estimation-mode sketch with m_ = 1 although no slot belongs to M; the repaired code (and the model) pass 0, the old
   value is kept as [deser_m_old] for coq/Regression_varopt.v.
   Every function below is the C++ function of the same name; a C++ `throw std::logic_error` is [None].
   Random choices (next_int, next_double_exclude_zero) are consumed, in order, from a list of raw tokens.

   The model is written once over an abstract number type and instantiated with binary64 (PrimFloat; this
   instance is extracted and replayed bit for bit against the C++) and with Q (exact arithmetic; the
   theorems of VarOptProofs.v are about this instance). *)
From Coq Require Import ZArith NArith List Bool QArith Floats Lia.
From DS Require Import RunnerLib FloatBits.
Import ListNotations.

(* ---- choice source: raw tokens, consumed in order; underflow is recorded, not an error ---- *)
Record chs := mkchs { c_rest : list Z; c_under : bool }.

Definition draw_index (r : nat) (c : chs) : nat * chs :=
  match c_rest c with
  | [] => (O, mkchs [] true)
  | z :: t => (Z.to_nat (Z.modulo z (Z.of_nat r)), mkchs t (c_under c))
  end.

Section WithNum.
  Variable Item : Type.
  Variable ditem : Item.
  Variable num : Type.
  Variables (zero one m1 : num).                       (* 0.0, 1.0, -1.0 *)
  Variables (add sub mul div : num -> num -> num).
  Variables (ltb leb eqb : num -> num -> bool).
  Variable ofZ : Z -> num.                             (* integer -> double conversion *)
  Variable bad_wt : num -> bool.                       (* weight < 0 || isnan || isinf *)
  Variable cu : Z -> num.                              (* raw unit_double token -> number *)
  Variable eps10 : num.                                (* 1e-10 *)

  Definition ofN (n : nat) : num := ofZ (Z.of_nat n).

  (* next_double_exclude_zero: draw until non-zero *)
  Fixpoint draw_unit_from (l : list Z) (under : bool) : num * chs :=
    match l with
    | [] => (one, mkchs [] true)
    | z :: t => let u := cu z in if eqb u zero then draw_unit_from t under else (u, mkchs t under)
    end.
  Definition draw_unit (c : chs) : num * chs := draw_unit_from (c_rest c) (c_under c).

  Record slot := mkslot { s_item : Item; s_wt : num; s_mark : bool }.
  Definition dslot : slot := mkslot ditem zero false.

  Record vo := mkvo {
    vk : nat;              (* k_ *)
    vn : Z;                (* n_ *)
    vH : list slot;
    vM : list slot;
    vmb : nat;             (* phantom part of m_ *)
    vR : list Item;
    vtot : num;            (* total_wt_r_ *)
    vgad : bool;           (* marks_ != nullptr *)
    vmarks : nat           (* num_marks_in_h_ *)
  }.

  Definition hh (s : vo) : nat := length (vH s).
  Definition mm (s : vo) : nat := length (vM s) + vmb s.
  Definition rr (s : vo) : nat := length (vR s).

  Definition set_k (s : vo) (k : nat) : vo := mkvo k (vn s) (vH s) (vM s) (vmb s) (vR s) (vtot s) (vgad s) (vmarks s).
  Definition set_n (s : vo) (n : Z) : vo := mkvo (vk s) n (vH s) (vM s) (vmb s) (vR s) (vtot s) (vgad s) (vmarks s).
  Definition set_H (s : vo) (H : list slot) : vo := mkvo (vk s) (vn s) H (vM s) (vmb s) (vR s) (vtot s) (vgad s) (vmarks s).
  Definition set_M (s : vo) (M : list slot) : vo := mkvo (vk s) (vn s) (vH s) M (vmb s) (vR s) (vtot s) (vgad s) (vmarks s).
  Definition set_R (s : vo) (R : list Item) : vo := mkvo (vk s) (vn s) (vH s) (vM s) (vmb s) R (vtot s) (vgad s) (vmarks s).
  Definition set_tot (s : vo) (t : num) : vo := mkvo (vk s) (vn s) (vH s) (vM s) (vmb s) (vR s) t (vgad s) (vmarks s).
  Definition set_marks (s : vo) (c : nat) : vo := mkvo (vk s) (vn s) (vH s) (vM s) (vmb s) (vR s) (vtot s) (vgad s) c.

  Definition vo_empty (k : nat) (gadget : bool) : vo := mkvo k 0%Z [] [] 0 [] zero gadget 0.

  (* ---- the heap, as coded ---- *)
  Definition swap {A} (d : A) (l : list A) (i j : nat) : list A :=
    let a := nth i l d in let b := nth j l d in
    upd_nth j (fun _ => a) (upd_nth i (fun _ => b) l).

  Definition wtat (H : list slot) (i : nat) : num := s_wt (nth i H dslot).

  (* restore_towards_leaves *)
  Fixpoint sift_down (fuel : nat) (H : list slot) (sl : nat) : list slot :=
    match fuel with
    | O => H
    | S f =>
        let last := (length H - 1)%nat in
        let child := (2 * sl + 1)%nat in
        if (child <=? last)%nat then
          let child2 := (child + 1)%nat in
          let c := if (child2 <=? last)%nat && ltb (wtat H child2) (wtat H child) then child2 else child in
          if leb (wtat H sl) (wtat H c) then H
          else sift_down f (swap dslot H sl c) c
        else H
    end.

  (* restore_towards_root *)
  Fixpoint sift_up (fuel : nat) (H : list slot) (sl : nat) : list slot :=
    match fuel with
    | O => H
    | S f =>
        match sl with
        | O => H
        | _ => let p := ((sl + 1) / 2 - 1)%nat in
               if ltb (wtat H sl) (wtat H p) then sift_up f (swap dslot H sl p) p else H
        end
    end.

  (* convert_to_heap: for j = last_non_leaf downto 0: restore_towards_leaves(j) *)
  Fixpoint heapify_from (j : nat) (H : list slot) : list slot :=
    match j with
    | O => sift_down (length H) H 0
    | S j' => heapify_from j' (sift_down (length H) H (S j'))
    end.
  Definition convert_to_heap (H : list slot) : list slot :=
    if (length H <? 2)%nat then H else heapify_from (length H / 2 - 1) H.

  Definition is_marked (s : vo) (x : slot) : bool := vgad s && s_mark x.

  (* push *)
  Definition push (s : vo) (x : Item) (w : num) (mark : bool) : vo :=
    let H1 := vH s ++ [mkslot x w mark] in
    let s1 := set_H s (sift_up (length H1) H1 (hh s)) in
    if vgad s && mark then set_marks s1 (S (vmarks s)) else s1.

  (* pop_min_to_m_region *)
  Definition pop_min (s : vo) : option vo :=
    if (hh s =? 0)%nat || negb (hh s + mm s + rr s =? vk s + 1)%nat then None else
    match vH s with
    | [] => None
    | root :: _ =>
        let H' := if (hh s =? 1)%nat then []
                  else let H1 := removelast (swap dslot (vH s) 0 (hh s - 1)) in sift_down (length H1) H1 0 in
        let s1 := set_M (set_H s H') (root :: vM s) in
        Some (if is_marked s root then set_marks s1 (pred (vmarks s)) else s1)
    end.

  (* the while loop of grow_candidate_set *)
  Fixpoint grow_loop (fuel : nat) (s : vo) (wc : num) (nc : nat) : option (vo * num * nat) :=
    match fuel with
    | O => Some (s, wc, nc)
    | S f =>
        match vH s with
        | [] => Some (s, wc, nc)
        | root :: _ =>
            let next_wt := s_wt root in
            let next_tot := add wc next_wt in
            if ltb (mul next_wt (ofN nc)) next_tot then
              match pop_min s with
              | None => None
              | Some s' => grow_loop f s' next_tot (S nc)
              end
            else Some (s, wc, nc)
        end
    end.

  (* slots of candidates are given relative to the leftmost candidate slot h_ *)
  Definition pick_random_slot_in_r (s : vo) (c : chs) : option (nat * chs) :=
    if (rr s =? 0)%nat then None
    else if (rr s =? 1)%nat then Some (mm s, c)
    else let '(j, c') := draw_index (rr s) c in Some ((mm s + j)%nat, c').

  Fixpoint cw_loop (ms : list slot) (i : nat) (left right wc ntk : num) : nat :=
    match ms with
    | [] => i
    | x :: t =>
        let left' := add left (mul ntk (s_wt x)) in
        let right' := add right wc in
        if ltb left' right' then i else cw_loop t (S i) left' right' wc ntk
    end.

  Definition choose_weighted_delete_slot (s : vo) (wc : num) (nc : nat) (c : chs) : option (nat * chs) :=
    if (mm s <? 1)%nat then None else
    let '(u, c') := draw_unit c in
    Some (cw_loop (vM s) 0 zero (mul (mul m1 wc) u) wc (ofN (nc - 1)), c').

  Definition choose_delete_slot (s : vo) (wc : num) (nc : nat) (c : chs) : option (nat * chs) :=
    if (rr s =? 0)%nat then None
    else if (mm s =? 0)%nat then pick_random_slot_in_r s c
    else if (mm s =? 1)%nat then
      let wt_m := wtat (vM s) 0 in
      let '(u, c') := draw_unit c in
      if ltb (mul wc u) (mul (ofN (nc - 1)) wt_m) then pick_random_slot_in_r s c' else Some (O, c')
    else
      match choose_weighted_delete_slot s wc nc c with
      | None => None
      | Some (d, c') => if (d =? mm s)%nat then pick_random_slot_in_r s c' else Some (d, c')
      end.

  Definition downsample_candidate_set (s : vo) (wc : num) (nc : nat) (c : chs) : option (vo * chs) :=
    if (nc <? 2)%nat || negb (hh s + nc =? vk s + 1)%nat then None else
    match choose_delete_slot s wc nc c with
    | None => None
    | Some (d, c') =>
        if (vk s - hh s <? d)%nat then None else
        match map s_item (vM s) ++ vR s with
        | [] => None
        | (c0 :: _) as cands =>
            (* data_[delete_slot] = data_[leftmost_cand_slot]; the leftmost slot becomes the gap *)
            let R' := tl (upd_nth d (fun _ => c0) cands) in
            Some (mkvo (vk s) (vn s) (vH s) [] 0 R' wc (vgad s) (vmarks s), c')
        end
    end.

  Definition grow_candidate_set (s : vo) (wc : num) (nc : nat) (c : chs) : option (vo * chs) :=
    if negb (hh s + mm s + rr s =? vk s + 1)%nat || (nc <? 1)%nat || negb (nc =? mm s + rr s)%nat || (2 <=? mm s)%nat
    then None else
    match grow_loop (hh s) s wc nc with
    | None => None
    | Some (s', wc', nc') => downsample_candidate_set s' wc' nc' c
    end.

  Definition transition_from_warmup (s : vo) (c : chs) : option (vo * chs) :=
    let s0 := set_H s (convert_to_heap (vH s)) in
    match pop_min s0 with
    | None => None
    | Some s1 =>
      match pop_min s1 with
      | None => None
      | Some s2 =>
        (* --m_; ++r_: the rightmost of the two M slots becomes the only R slot *)
        match vM s2, vR s2 with
        | [a; b], [] =>
            if negb (hh s2 =? vk s2 - 1)%nat || negb (vmb s2 =? 0)%nat then None else
            let s3 := set_tot (set_R (set_M s2 [a]) [s_item b]) (s_wt b) in
            grow_candidate_set s3 (add (s_wt a) (s_wt b)) 2 c
        | _, _ => None
        end
      end
    end.

  Definition update_warmup_phase (s : vo) (x : Item) (w : num) (mark : bool) (c : chs) : option (vo * chs) :=
    if (0 <? rr s)%nat || negb (mm s =? 0)%nat || (vk s <? hh s)%nat then None else
    let s1 := set_marks (set_H s (vH s ++ [mkslot x w mark])) (vmarks s + (if mark then 1 else 0)) in
    if (vk s1 <? hh s1)%nat then transition_from_warmup s1 c else Some (s1, c).

  Definition update_light (s : vo) (x : Item) (w : num) (mark : bool) (c : chs) : option (vo * chs) :=
    if (rr s =? 0)%nat || negb (rr s + hh s =? vk s)%nat then None else
    let s1 := set_M s (mkslot x w mark :: vM s) in
    grow_candidate_set s1 (add (vtot s) w) (rr s + 1) c.

  Definition update_heavy_general (s : vo) (x : Item) (w : num) (mark : bool) (c : chs) : option (vo * chs) :=
    if (rr s <? 2)%nat || negb (mm s =? 0)%nat || negb (rr s + hh s =? vk s)%nat then None else
    let s1 := push s x w mark in
    grow_candidate_set s1 (vtot s1) (rr s1) c.

  Definition update_heavy_r_eq1 (s : vo) (x : Item) (w : num) (mark : bool) (c : chs) : option (vo * chs) :=
    if negb (rr s =? 1)%nat || negb (mm s =? 0)%nat || negb (rr s + hh s =? vk s)%nat then None else
    match pop_min (push s x w mark) with
    | None => None
    | Some s2 =>
        match vM s2 with
        | [] => None
        | a :: _ => grow_candidate_set s2 (add (s_wt a) (vtot s2)) 2 c
        end
    end.

  Definition get_tau (s : vo) : num := div (vtot s) (ofN (rr s)).   (* only used when r_ > 0 *)
  Definition peek_min (s : vo) : num := wtat (vH s) 0.

  (* update(item, weight, mark) after the argument checks and ++n_ ; None = logic_error *)
  Definition update_body (s0 : vo) (x : Item) (w : num) (mark : bool) (c : chs) : option (vo * chs) :=
    let s := set_n s0 (vn s0 + 1)%Z in
    if (rr s =? 0)%nat then update_warmup_phase s x w mark c
    else
      if negb (hh s =? 0)%nat && ltb (peek_min s) (get_tau s) then None else
      let hypothetical_tau := div (add w (vtot s)) (ofN (rr s)) in
      let condition1 := (hh s =? 0)%nat || leb w (peek_min s) in
      let condition2 := ltb w hypothetical_tau in
      if condition1 && condition2 then update_light s x w mark c
      else if (rr s =? 1)%nat then update_heavy_r_eq1 s x w mark c
      else update_heavy_general s x w mark c.

  (* the internal update as called from decrease_k_by_1: any exception is None *)
  Definition update_inner (s : vo) (x : Item) (w : num) (mark : bool) (c : chs) : option (vo * chs) :=
    if bad_wt w then None
    else if eqb w zero then Some (s, c)
    else update_body s x w mark c.

  (* public update: result kinds *)
  Inductive ures := URefused | UIgnored | UOk (s : vo) (c : chs) | UThrew (s : vo).
  Definition update (s : vo) (x : Item) (w : num) (mark : bool) (c : chs) : ures :=
    if bad_wt w then URefused
    else if eqb w zero then UIgnored
    else match update_body s x w mark c with
         | Some (s', c') => UOk s' c'
         | None => UThrew (set_n s (vn s + 1)%Z)      (* ++n_ happened before the throw *)
         end.
  (* the state after update, whatever happened *)
  Definition update_st (s : vo) (x : Item) (w : num) (c : chs) : vo * chs :=
    match update s x w false c with
    | URefused | UIgnored => (s, c)
    | UOk s' c' => (s', c')
    | UThrew s' => (s', c)
    end.

  Definition decrease_k_by_1 (s : vo) (c : chs) : option (vo * chs) :=
    if (vk s <=? 1)%nat then None
    else if (hh s =? 0)%nat && (rr s =? 0)%nat then Some (set_k s (vk s - 1), c)
    else if (0 <? hh s)%nat && (rr s =? 0)%nat then
      let s1 := set_k s (vk s - 1) in
      if (vk s1 <? hh s1)%nat then transition_from_warmup s1 c else Some (s1, c)
    else if (0 <? hh s)%nat && (0 <? rr s)%nat then
      if negb (hh s + 1 + rr s - 1 =? vk s)%nat then None else
      let R' := last (vR s) ditem :: removelast (vR s) in     (* rightmost R slot moved into the gap *)
      let pulled := last (vH s) dslot in
      let marks' := if s_mark pulled then pred (vmarks s) else vmarks s in
      let s1 := mkvo (vk s - 1) (vn s - 1)%Z (removelast (vH s)) (vM s) (vmb s) R' (vtot s) (vgad s) marks' in
      update_inner s1 (s_item pulled) (s_wt pulled) (s_mark pulled) c
    else
      if (rr s <? 2)%nat then None else
      let '(j, c') := draw_index (rr s) c in
      Some (set_k (set_R s (removelast (swap ditem (vR s) j (rr s - 1)))) (vk s - 1), c').

  (* const_iterator: H items with their own weight, R items with tau *)
  Definition get_samples (s : vo) : list (Item * num) :=
    map (fun x => (s_item x, s_wt x)) (vH s) ++ map (fun i => (i, get_tau s)) (vR s).

  Definition get_num_samples (s : vo) : nat := Nat.min (hh s + rr s) (vk s).

  (* estimate_subset_sum: (estimate, total_sketch_weight, r_true_count); bounds go through libm and are not modelled *)
  Definition estimate_subset_sum (s : vo) (p : Item -> bool) : option (num * num * nat) :=
    if (vn s =? 0)%Z then Some (zero, zero, O) else
    let total_wt_h := fold_left (fun a x => add a (s_wt x)) (vH s) zero in
    let h_true_wt := fold_left (fun a x => if p (s_item x) then add a (s_wt x) else a) (vH s) zero in
    if (rr s =? 0)%nat then Some (h_true_wt, h_true_wt, O) else
    let rate := div (ofN (rr s)) (ofZ (vn s - Z.of_nat (hh s))) in
    if ltb rate zero || ltb one rate then None else
    let cnt := length (filter p (vR s)) in
    Some (add h_true_wt (mul (vtot s) (div (mul one (ofN cnt)) (ofN (rr s)))), add total_wt_h (vtot s), cnt).

  Definition reset (s : vo) : vo := vo_empty (vk s) (vgad s).

  (* serialize followed by deserialize.  [dm r] is the value deserialize() passes for m_: 0 since the repair
     fixes/16_deserialize_m.patch; the unrepaired code passed [deser_m_old r] (see Regression_varopt.v). *)
  Definition deser_m_old (r : nat) : nat := if (0 <? r)%nat then 1 else 0.
  Definition serde_roundtrip_gen (dm : nat -> nat) (s : vo) : option vo :=
    if (hh s =? 0)%nat && (rr s =? 0)%nat then Some (vo_empty (vk s) (vgad s)) else
    let marks := if vgad s then length (filter s_mark (vH s)) else O in
    if (vn s <=? Z.of_nat (vk s))%Z then
      (if (0 <? rr s)%nat || negb (vn s =? Z.of_nat (hh s))%Z then None
       else Some (mkvo (vk s) (vn s) (vH s) [] 0 [] zero (vgad s) marks))
    else
      (if (rr s =? 0)%nat || negb (hh s + rr s =? vk s)%nat || negb (ltb zero (vtot s)) then None
       else Some (mkvo (vk s) (vn s) (vH s) [] (dm (rr s)) (vR s) (vtot s) (vgad s) marks)).
  Definition serde_roundtrip : vo -> option vo := serde_roundtrip_gen (fun _ => O).

  (* a stream of updates from the empty sketch (what the theorems are about) *)
  Fixpoint feed (s : vo) (xs : list (Item * num)) (c : chs) : vo * chs :=
    match xs with
    | [] => (s, c)
    | (x, w) :: t => let '(s', c') := update_st s x w c in feed s' t c'
    end.

  (* ================= var_opt_union (var_opt_union_impl.hpp) ================= *)
  Record vu := mkvu {
    un : Z;                (* n_ *)
    uotn : num;            (* outer_tau_numer_ *)
    uotd : nat;            (* outer_tau_denom_ *)
    umaxk : nat;           (* max_k_ *)
    ugad : vo              (* gadget_ *)
  }.
  Definition vu_empty (max_k : nat) : vu := mkvu 0%Z zero O max_k (vo_empty max_k true).

  (* the weight-correcting R iterator: tau for every R item but the last, which gets total_wt_r - (sum so far) *)
  Fixpoint r_samples (R : list Item) (tau tot cum : num) : list (Item * num * bool) :=
    match R with
    | [] => []
    | x :: t => match t with
                | [] => [(x, sub tot cum, true)]
                | _ => (x, tau, true) :: r_samples t tau tot (add cum tau)
                end
    end.
  Definition union_samples (sk : vo) : list (Item * num * bool) :=
    map (fun x => (s_item x, s_wt x, false)) (vH sk) ++ r_samples (vR sk) (get_tau sk) (vtot sk) zero.

  (* gadget_.update(item, weight, mark) for every sample; an exception leaves the gadget as it is at that point *)
  Fixpoint upd_all (g : vo) (l : list (Item * num * bool)) (c : chs) : vo * chs * bool :=
    match l with
    | [] => (g, c, true)
    | (x, w, mk) :: t =>
        match update g x w mk c with
        | URefused => (g, c, false)
        | UIgnored => upd_all g t c
        | UOk g' c' => upd_all g' t c'
        | UThrew g' => (g', c, false)
        end
    end.

  Definition merge_items (u : vu) (sk : vo) (c : chs) : vu * chs * bool :=
    if (vn sk =? 0)%Z then (u, c, true) else
    let '(g, c', okb) := upd_all (ugad u) (union_samples sk) c in
    (mkvu (un u + vn sk)%Z (uotn u) (uotd u) (umaxk u) g, c', okb).

  Definition get_outer_tau (u : vu) : num := if (uotd u =? 0)%nat then zero else div (uotn u) (ofN (uotd u)).

  Definition resolve_tau (u : vu) (sk : vo) : vu :=
    if (0 <? rr sk)%nat then
      let sketch_tau := get_tau sk in
      let outer_tau := get_outer_tau u in
      if (uotd u =? 0)%nat then mkvu (un u) (vtot sk) (rr sk) (umaxk u) (ugad u)
      else if ltb outer_tau sketch_tau then mkvu (un u) (vtot sk) (rr sk) (umaxk u) (ugad u)
      else if eqb sketch_tau outer_tau then mkvu (un u) (add (uotn u) (vtot sk)) (uotd u + rr sk) (umaxk u) (ugad u)
      else u
    else u.

  (* update(sk) = merge_items; resolve_tau.  The boolean is false when merge_items threw. *)
  Definition union_update (u : vu) (sk : vo) (c : chs) : vu * chs * bool :=
    let '(u1, c', okb) := merge_items u sk c in
    if okb then (resolve_tau u1 sk, c', true) else (u1, c', false).

  Definition union_reset (u : vu) : vu := mkvu 0%Z zero O (umaxk u) (reset (ugad u)).

  (* var_opt_union serialize followed by deserialize: an empty union (n_ = 0) is written as max_k only; otherwise
     n_, outer tau numerator / denominator and the serialized gadget *)
  Definition union_serde (u : vu) : option vu :=
    if (un u =? 0)%Z then Some (vu_empty (umaxk u))
    else match serde_roundtrip (ugad u) with
         | None => None
         | Some g => Some (mkvu (un u) (uotn u) (uotd u) (umaxk u) g)
         end.

  (* var_opt_sketch(other, as_sketch, adjusted_n) *)
  Definition copy_as (g : vo) (as_sketch : bool) (n : Z) : vo :=
    mkvo (vk g) n (vH g) (vM g) (vmb g) (vR g) (vtot g) (if as_sketch then false else vgad g) (vmarks g).

  (* there_exist_unmarked_h_items_lighter_than_target; [None] is a NaN target: every comparison is false *)
  Definition exists_unmarked_lighter (g : vo) (target : option num) : bool :=
    match target with
    | None => false
    | Some t => existsb (fun x => ltb (s_wt x) t && negb (s_mark x)) (vH g)
    end.
  (* the target passed by detect_and_handle_subcase_of_pseudo_exact: get_outer_tau() since the repair
     fixes/16_union_pseudo_exact_tau.patch; the unrepaired code passed gadget_.get_tau(), NaN when r_ = 0 *)
  Definition a4_target (u : vu) : option num := Some (get_outer_tau u).
  Definition a4_target_old (u : vu) : option num :=
    if (rr (ugad u) =? 0)%nat then None else Some (get_tau (ugad u)).

  (* mark_moving_gadget_coercer(sk): marked H items go to R (filled from the back), unmarked stay in H in array
     order and are then re-heapified (convert_to_heap, since the repair fixes/16_union_pseudo_exact_heap.patch;
     [heapify = false] is the unrepaired code, kept for Regression_varopt.v) *)
  Definition mark_moving_gen (heapify : bool) (u : vu) (sk : vo) : option vo :=
    let g := ugad u in
    let marked := filter s_mark (vH g) in
    let unmarked := filter (fun x => negb (s_mark x)) (vH g) in
    let transferred := fold_left (fun a x => add a (s_wt x)) marked zero in
    let d := sub transferred (uotn u) in
    if ltb eps10 d || ltb d (mul m1 eps10) then None else
    let H0 := map (fun x => mkslot (s_item x) (s_wt x) false) unmarked in
    Some (mkvo (hh g + rr g) (un u) (if heapify then convert_to_heap H0 else H0) (vM sk) (vmb sk)
               (rev (vR g ++ map s_item marked)) (add (vtot g) transferred) false 0).
  Definition mark_moving : vu -> vo -> option vo := mark_moving_gen true.

  Fixpoint dec_loop (fuel : nat) (s : vo) (c : chs) : option (vo * chs) :=
    if (vmarks s =? 0)%nat then Some (s, c) else
    match fuel with
    | O => None
    | S f => match decrease_k_by_1 s c with
             | None => None
             | Some (s', c') => dec_loop f s' c'
             end
    end.

  Definition strip_marks (s : vo) : vo := mkvo (vk s) (vn s) (vH s) (vM s) (vmb s) (vR s) (vtot s) false 0.

  (* migrate_marked_items_by_decreasing_k *)
  Definition migrate (g0 : vo) (c : chs) : option (vo * chs) :=
    if (vmarks g0 =? 0)%nat then None
    else if negb (rr g0 =? 0)%nat && negb (hh g0 + rr g0 =? vk g0)%nat then None
    else
      let g1 := if (rr g0 =? 0)%nat && (hh g0 <? vk g0)%nat then set_k g0 (hh g0) else g0 in
      match decrease_k_by_1 g1 c with
      | None => None
      | Some (g2, c2) =>
          if (0 <? rr g2)%nat && eqb (get_tau g2) zero then None      (* get_tau() == 0.0; NaN when r_ = 0 *)
          else match dec_loop (vk g2) g2 c2 with
               | None => None
               | Some (g3, c3) => Some (strip_marks g3, c3)
               end
      end.

  Definition get_result_gen2 (heapify : bool) (a4 : vu -> option num) (u : vu) (c : chs) : option (vo * chs) :=
    let g := ugad u in
    if (vmarks g =? 0)%nat then Some (copy_as g true (un u), c)
    else
      let gcopy := copy_as g false (un u) in
      if (rr g =? 0)%nat && (0 <? vmarks g)%nat && (vmarks g =? uotd u)%nat && negb (exists_unmarked_lighter g (a4 u))
      then match mark_moving_gen heapify u gcopy with
           | None => None
           | Some r => Some (r, c)
           end
      else migrate gcopy c.
  Definition get_result_gen : (vu -> option num) -> vu -> chs -> option (vo * chs) := get_result_gen2 true.
  Definition get_result : vu -> chs -> option (vo * chs) := get_result_gen a4_target.
End WithNum.

Arguments mkslot {Item num}.
Arguments s_item {Item num}.
Arguments s_wt {Item num}.
Arguments s_mark {Item num}.
Arguments vk {Item num}.
Arguments vn {Item num}.
Arguments vH {Item num}.
Arguments vM {Item num}.
Arguments vmb {Item num}.
Arguments vR {Item num}.
Arguments vtot {Item num}.
Arguments vgad {Item num}.
Arguments vmarks {Item num}.
Arguments hh {Item num}.
Arguments mm {Item num}.
Arguments rr {Item num}.
Arguments un {Item num}.
Arguments uotn {Item num}.
Arguments uotd {Item num}.
Arguments umaxk {Item num}.
Arguments ugad {Item num}.

(* ================= exact-arithmetic instance (Q) ================= *)
Definition Qltb (a b : Q) : bool := negb (Qle_bool b a).
Definition Qbad (w : Q) : bool := Qltb w 0.

(* ================= binary64 instance and the line protocol ================= *)
Local Open Scope Z_scope.

Definition f_ofZ (z : Z) : PrimFloat.float := PrimFloat.of_uint63 (Uint63.of_Z z).
Definition f_bad (w : PrimFloat.float) : bool :=
  PrimFloat.ltb w PrimFloat.zero || PrimFloat.is_nan w || PrimFloat.is_infinity w.
Definition f_m1 : PrimFloat.float := PrimFloat.opp PrimFloat.one.
Definition f_eps10 : PrimFloat.float := bits_to_float 4457293557087583675.   (* 0x3DDB7CDFD9D7BDBB = 1e-10 *)

Notation fl := PrimFloat.float.
Definition fvo := vo Z fl.
Definition fvu := vu Z fl.

(* the common argument prefix of the functions that reach update *)
Notation FA f := (f Z 0 fl PrimFloat.zero PrimFloat.one f_m1 PrimFloat.add PrimFloat.sub PrimFloat.mul PrimFloat.div
                    PrimFloat.ltb PrimFloat.leb PrimFloat.eqb f_ofZ f_bad bits_to_float) (only parsing).

Definition F_update := update Z 0 fl PrimFloat.zero PrimFloat.one f_m1 PrimFloat.add PrimFloat.mul PrimFloat.div
                              PrimFloat.ltb PrimFloat.leb PrimFloat.eqb f_ofZ f_bad bits_to_float.
Definition F_samples := get_samples Z fl PrimFloat.div f_ofZ.
Definition F_estimate := estimate_subset_sum Z fl PrimFloat.zero PrimFloat.one PrimFloat.add PrimFloat.mul PrimFloat.div
                              PrimFloat.ltb f_ofZ.
Definition F_serde := serde_roundtrip Z fl PrimFloat.zero PrimFloat.ltb.
Definition F_empty := vo_empty Z fl PrimFloat.zero.
Definition F_uempty := vu_empty Z fl PrimFloat.zero.
Definition F_uupdate : fvu -> fvo -> chs -> fvu * chs * bool := FA union_update.
Definition F_uresult : fvu -> chs -> option (fvo * chs) := FA get_result f_eps10.
Definition F_ureset := union_reset Z fl PrimFloat.zero.
Definition F_userde := union_serde Z fl PrimFloat.zero PrimFloat.ltb.

(* sorting of the sample list by (item, weight bits) *)
Definition pair_leb (a b : Z * Z) : bool :=
  (fst a <? fst b) || ((fst a =? fst b) && (snd a <=? snd b)).
Fixpoint ins_sorted (x : Z * Z) (l : list (Z * Z)) : list (Z * Z) :=
  match l with
  | [] => [x]
  | y :: t => if pair_leb x y then x :: l else y :: ins_sorted x t
  end.
Definition sort_pairs (l : list (Z * Z)) : list (Z * Z) := fold_right ins_sorted [] l.
Definition flat_pairs (l : list (Z * Z)) : list Z := flat_map (fun p => [fst p; snd p]) l.

(* exact value of a finite non-negative double, scaled by 2^1074 (an integer) *)
Definition scaled_of_bits (b : Z) : Z :=
  let ex := Z.land (Z.shiftr b 52) 2047 in
  let mant := Z.land b 4503599627370495 in
  if ex =? 0 then mant else Z.shiftl (mant + 4503599627370496) (ex - 1).

(* ghost log: accepted (item, weight bits) of every update that the specification counts, most recent first
   (the oracle reads it as a multiset) *)
Record full := mkfull0 { f_sk : fvo; f_log : list (Z * Z); f_tot : Z }.     (* f_tot: running scaled total of f_log *)
(* a union and the concatenated logs of the sketches it was given *)
Record ufull := mkufull0 { u_un : fvu; u_log : list (Z * Z); u_tot : Z }.

Definition log_n (l : list (Z * Z)) : Z := Z.of_nat (length l).
Definition log_total (l : list (Z * Z)) : Z := fold_left (fun a p => a + scaled_of_bits (snd p)) l 0.   (* = f_tot; not run *)
Definition mkfull (v : fvo) (l : list (Z * Z)) (t : Z) : full := mkfull0 v l t.
Definition mkufull (v : fvu) (l : list (Z * Z)) (t : Z) : ufull := mkufull0 v l t.

Definition max_k : Z := 2147483646.

Definition pred_of (id arg : Z) : Z -> bool :=
  match id with
  | 0 => fun _ => true
  | 1 => fun _ => false
  | 2 => Z.even
  | 3 => fun x => x <? arg
  | _ => fun x => arg <=? x
  end.

Record st := mkst { sregs : list (Z * full); uregs : list (Z * ufull) }.
Definition getr (s : st) (r : Z) : option full := reg_get (sregs s) r.
Definition setr (s : st) (r : Z) (f : full) : st := mkst (reg_set (sregs s) r f) (uregs s).
Definition getu (s : st) (r : Z) : option ufull := reg_get (uregs s) r.
Definition setu (s : st) (r : Z) (u : ufull) : st := mkst (sregs s) (reg_set (uregs s) r u).

Definition chs0 (e : line) : chs := mkchs e false.
Definition chs_ok (c : chs) : bool := negb (c_under c) && match c_rest c with [] => true | _ => false end.
Definition bad_env : line := [-3].

Definition dump_sketch (v : fvo) : line :=
  let smp := sort_pairs (map (fun p => (fst p, float_to_bits (snd p))) (F_samples v)) in
  vn v :: nz (vk v) :: nz (get_num_samples Z fl v) :: nz (hh v) :: nz (rr v)
       :: (if (rr v =? 0)%nat then 0 else float_to_bits (vtot v)) :: flat_pairs smp.

Definition step (s : st) (o e : line) : st * outline :=
  match o with
  | 99 :: _ => (s, (ok, []))
  | 98 :: _ => (s, (ok, []))
  | 1 :: r :: k :: _ =>                                   (* new sketch r with k (resize factor not modelled) *)
      if (k <=? 0) || (max_k <? k) then (s, (refused, []))
      else (setr s r (mkfull (F_empty (zn k) false) [] 0), (ok, []))
  | 2 :: r :: x :: wb :: _ =>                             (* update r item weight-bits *)
      match getr s r with
      | None => (s, (refused, []))
      | Some f =>
          match F_update (f_sk f) x (bits_to_float wb) false (chs0 e) with
          | URefused _ _ => (s, (refused, []))
          | UIgnored _ _ => if chs_ok (chs0 e) then (s, (ok, [])) else (s, (bad_env, []))
          | UOk _ _ s' c' =>
              if chs_ok c' then (setr s r (mkfull s' ((x, wb) :: f_log f) (f_tot f + scaled_of_bits wb)), (ok, []))
              else (s, (bad_env, []))
          | UThrew _ _ s' => (setr s r (mkfull s' ((x, wb) :: f_log f) (f_tot f + scaled_of_bits wb)), (refused, []))
          end
      end
  | 3 :: r :: _ =>                                        (* dump: n k num_samples h r total_wt_r samples ; S: n total log *)
      match getr s r with
      | None => (s, (refused, []))
      | Some f =>
          (s, (dump_sketch (f_sk f), log_n (f_log f) :: f_tot f :: flat_pairs (f_log f)))
      end
  | 4 :: r :: pid :: arg :: _ =>                          (* estimate_subset_sum: estimate, total_sketch_weight *)
      match getr s r with
      | None => (s, (refused, []))
      | Some f =>
          match F_estimate (f_sk f) (pred_of pid arg) with
          | None => (s, (refused, []))
          | Some (est, tot, _) =>
              (s, ([float_to_bits est; float_to_bits tot], [0; f_tot f]))
          end
      end
  | 5 :: r :: r2 :: _ =>                                  (* serialize r, deserialize into r2 *)
      match getr s r with
      | None => (s, (refused, []))
      | Some f =>
          match F_serde (f_sk f) with
          | None => (s, (refused, []))
          | Some v => (setr s r2 (if (hh v =? 0)%nat && (rr v =? 0)%nat then mkfull v [] 0 else mkfull v (f_log f) (f_tot f)), (ok, []))
          end
      end
  | 6 :: r :: _ =>                                        (* reset *)
      match getr s r with
      | None => (s, (refused, []))
      | Some f => (setr s r (mkfull (reset Z fl PrimFloat.zero (f_sk f)) [] 0), (ok, []))
      end
  | 7 :: r :: r2 :: _ =>                                  (* copy r into r2 *)
      match getr s r with
      | None => (s, (refused, []))
      | Some f => (setr s r2 f, (ok, []))
      end
  | 10 :: u :: k :: _ =>                                  (* new union u with max_k *)
      if (k <=? 0) || (max_k <? k) then (s, (refused, []))
      else (setu s u (mkufull (F_uempty (zn k)) [] 0), (ok, []))
  | 11 :: u :: r :: _ | 16 :: u :: r :: _ =>              (* union u . update(sketch r); 16: update(std::move(copy of r)) *)
      match getu s u, getr s r with
      | Some uf, Some f =>
          let '(u', c', okb) := F_uupdate (u_un uf) (f_sk f) (chs0 e) in
          if okb then
            if chs_ok c' then (setu s u (mkufull u' (f_log f ++ u_log uf) (u_tot uf + f_tot f)), (ok, []))
            else (s, (bad_env, []))
          else (setu s u (mkufull u' (f_log f ++ u_log uf) (u_tot uf + f_tot f)), (refused, []))
      | _, _ => (s, (refused, []))
      end
  | 12 :: u :: r2 :: _ =>                                 (* get_result of u into register r2 *)
      match getu s u with
      | None => (s, (refused, []))
      | Some uf =>
          match F_uresult (u_un uf) (chs0 e) with
          | None => (s, (refused, []))
          | Some (v, c') =>
              if chs_ok c' then (setr s r2 (mkfull v (u_log uf) (u_tot uf)), (ok, []))
              else (s, (bad_env, []))
          end
      end
  | 17 :: u :: u2 :: _ =>                                 (* copy union u into u2 (the means of copying is the harness's business) *)
      match getu s u with
      | None => (s, (refused, []))
      | Some uf => (setu s u2 uf, (ok, []))
      end
  | 20 :: u :: r :: _ =>                                  (* as 11 without ghost log (feedback cases: the log would double every round) *)
      match getu s u, getr s r with
      | Some uf, Some f =>
          let '(u', c', okb) := F_uupdate (u_un uf) (f_sk f) (chs0 e) in
          if okb then
            if chs_ok c' then (setu s u (mkufull u' [] 0), (ok, [])) else (s, (bad_env, []))
          else (setu s u (mkufull u' [] 0), (refused, []))
      | _, _ => (s, (refused, []))
      end
  | 21 :: u :: r2 :: _ =>                                 (* as 12 without ghost log *)
      match getu s u with
      | None => (s, (refused, []))
      | Some uf =>
          match F_uresult (u_un uf) (chs0 e) with
          | None => (s, (refused, []))
          | Some (v, c') =>
              if chs_ok c' then (setr s r2 (mkfull v [] 0), (ok, [])) else (s, (bad_env, []))
          end
      end
  | 13 :: u :: _ =>                                       (* union reset *)
      match getu s u with
      | None => (s, (refused, []))
      | Some uf => (setu s u (mkufull (F_ureset (u_un uf)) [] 0), (ok, []))
      end
  | 15 :: u :: u2 :: _ =>                                 (* union u: serialize, deserialize into union u2 *)
      match getu s u with
      | None => (s, (refused, []))
      | Some uf =>
          match F_userde (u_un uf) with
          | None => (s, (refused, []))
          | Some v => (setu s u2 (if (un v =? 0)%Z then mkufull v [] 0 else mkufull v (u_log uf) (u_tot uf)), (ok, []))
          end
      end
  | 14 :: u :: _ =>                                       (* union dump: n numer denom max_k marks gadget-dump ; S: n total *)
      match getu s u with
      | None => (s, (refused, []))
      | Some uf =>
          let v := u_un uf in
          (s, (un v :: float_to_bits (uotn v) :: nz (uotd v) :: nz (umaxk v) :: nz (vmarks (ugad v)) :: dump_sketch (ugad v),
               [log_n (u_log uf); u_tot uf]))
      end
  | _ => (s, ([-2], []))
  end.

Definition run (ops : list opline) : list outline := run_case step (mkst [] []) ops.
