(* Properties_C09_theta.v — serialization round trip, Theta family: bit packing and the compact sketch codec.
   Only statements; proofs live in BitPackProofs.v / BitPackSpec.v / ThetaCodecProofs.v. *)
From Coq Require Import NArith List Bool Lia Arith.
From DS Require Import Word BitPackLang BitPackProofs BitPackSpec.
Import ListNotations.
Local Open Scope N_scope.

(* The symbolic evaluator is sound for every program of the language and every valuation of the input bits. *)
Theorem C09_symbolic_execution_sound : forall rho p s s',
  sexec s p = Some s' -> exec (dstate rho s) p = Some (dstate rho s').
Proof. exact sexec_sound. Qed.

(* Every translated block routine (c = 8) and the generic tail loop (c < 8), for every width 1..63 and ALL
   inputs below 2^b: runs without undefined behaviour (no signed overflow, no read of an unwritten byte, no write
   outside the nbytes b c bytes) and produces exactly the documented big-endian bit stream. *)
Theorem C09_pack_layout : forall b c vals,
  (1 <= b <= 63)%nat -> (1 <= c <= 8)%nat -> length vals = c -> Forall (fun v => v < 2 ^ N.of_nat b) vals ->
  exists bytes, pack_vals b c vals = Some bytes /\ length bytes = nbytes b c /\
    Forall (fun x => x < 2 ^ N.of_nat 8) bytes /\
    forall j k, (j < nbytes b c)%nat -> (k < 8)%nat ->
      N.testbit (nth j bytes 0) (N.of_nat k) =
      if (8 * j + (7 - k) <? c * b)%nat
      then N.testbit (nth ((8 * j + (7 - k)) / b) vals 0) (N.of_nat (b - 1 - (8 * j + (7 - k)) mod b))
      else false.
Proof. exact pack_vals_layout. Qed.

Theorem C09_unpack_layout : forall b c bytes,
  (1 <= b <= 63)%nat -> (1 <= c <= 8)%nat -> length bytes = nbytes b c -> Forall (fun v => v < 2 ^ N.of_nat 8) bytes ->
  exists vals, unpack_vals b c bytes = Some vals /\ length vals = c /\
    forall i k, (i < c)%nat ->
      N.testbit (nth i vals 0) (N.of_nat k) =
      if (k <? b)%nat then N.testbit (nth ((i * b + (b - 1 - k)) / 8) bytes 0)
                                     (N.of_nat (7 - (i * b + (b - 1 - k)) mod 8))
      else false.
Proof. exact unpack_vals_layout. Qed.

(* unpack (pack vals) = vals *)
Theorem C09_unpack_pack : forall b c vals bytes,
  (1 <= b <= 63)%nat -> (1 <= c <= 8)%nat -> length vals = c -> Forall (fun v => v < 2 ^ N.of_nat b) vals ->
  pack_vals b c vals = Some bytes -> unpack_vals b c bytes = Some vals.
Proof. exact unpack_pack_vals. Qed.

(* non-vacuity: a concrete block *)
Example C09_block_example :
  pack_vals 3 8 [1; 2; 3; 4; 5; 6; 7; 0] = Some [41; 203; 184] /\
  unpack_vals 3 8 [41; 203; 184] = Some [1; 2; 3; 4; 5; 6; 7; 0].
Proof. vm_compute. split; reflexivity. Qed.

Print Assumptions C09_symbolic_execution_sound.
Print Assumptions C09_pack_layout.
Print Assumptions C09_unpack_layout.
Print Assumptions C09_unpack_pack.
