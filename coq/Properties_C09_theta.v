(* Properties_C09_theta.v — serialization round trip, Theta family: bit packing and the compact sketch codec.
   Only statements; proofs live in BitPackProofs.v / BitPackSpec.v / ThetaCodecProofs.v. *)
From Coq Require Import NArith List Bool Lia Arith.
From DS Require Import Word BitPackLang BitPackProofs BitPackSpec.
Import ListNotations.
Local Open Scope N_scope.

(* The symbolic evaluator is sound for every program of the language and every valuation of the input bits. *)
Theorem C09_symbolic_execution_sound : forall rho p s s',
  sexec s p = Some s' -> exec (dstate rho s) p = Some (dstate rho s').
Proof. exact sexec_sound. Qed.

(* Every translated block routine (c = 8) and the generic tail loop (c < 8), for every width 1..63 and ALL
   inputs below 2^b: runs without undefined behaviour (no signed overflow, no read of an unwritten byte, no write
   outside the nbytes b c bytes) and produces exactly the documented big-endian bit stream. *)
Theorem C09_pack_layout : forall b c vals,
  (1 <= b <= 63)%nat -> (1 <= c <= 8)%nat -> length vals = c -> Forall (fun v => v < 2 ^ N.of_nat b) vals ->
  exists bytes, pack_vals b c vals = Some bytes /\ length bytes = nbytes b c /\
    Forall (fun x => x < 2 ^ N.of_nat 8) bytes /\
    forall j k, (j < nbytes b c)%nat -> (k < 8)%nat ->
      N.testbit (nth j bytes 0) (N.of_nat k) =
      if (8 * j + (7 - k) <? c * b)%nat
      then N.testbit (nth ((8 * j + (7 - k)) / b) vals 0) (N.of_nat (b - 1 - (8 * j + (7 - k)) mod b))
      else false.
Proof. exact pack_vals_layout. Qed.

Theorem C09_unpack_layout : forall b c bytes,
  (1 <= b <= 63)%nat -> (1 <= c <= 8)%nat -> length bytes = nbytes b c -> Forall (fun v => v < 2 ^ N.of_nat 8) bytes ->
  exists vals, unpack_vals b c bytes = Some vals /\ length vals = c /\
    forall i k, (i < c)%nat ->
      N.testbit (nth i vals 0) (N.of_nat k) =
      if (k <? b)%nat then N.testbit (nth ((i * b + (b - 1 - k)) / 8) bytes 0)
                                     (N.of_nat (7 - (i * b + (b - 1 - k)) mod 8))
      else false.
Proof. exact unpack_vals_layout. Qed.

(* unpack (pack vals) = vals *)
Theorem C09_unpack_pack : forall b c vals bytes,
  (1 <= b <= 63)%nat -> (1 <= c <= 8)%nat -> length vals = c -> Forall (fun v => v < 2 ^ N.of_nat b) vals ->
  pack_vals b c vals = Some bytes -> unpack_vals b c bytes = Some vals.
Proof. exact unpack_pack_vals. Qed.

(* non-vacuity: a concrete block *)
Example C09_block_example :
  pack_vals 3 8 [1; 2; 3; 4; 5; 6; 7; 0] = Some [41; 203; 184] /\
  unpack_vals 3 8 [41; 203; 184] = Some [1; 2; 3; 4; 5; 6; 7; 0].
Proof. vm_compute. split; reflexivity. Qed.

Print Assumptions C09_symbolic_execution_sound.
Print Assumptions C09_pack_layout.
Print Assumptions C09_unpack_layout.
Print Assumptions C09_unpack_pack.

(* ======== the compact sketch codec (ThetaCodecDefs.v: the model that is extracted and compared with the C++) ======== *)
From DS Require Import ThetaCodecDefs ThetaCodecProofs ThetaCodecProofs2.

(* serial version 3: both readers restore exactly the sketch that was written, for every well-formed sketch,
   whatever follows the image; the stream reader consumes exactly the image. *)
Theorem C09_theta_v3_roundtrip : forall s, wf s -> forall rest,
  dec_bytes (k_seed_hash s) (enc_v3 s ++ rest) = Some s /\
  dec_stream (k_seed_hash s) (enc_v3 s ++ rest) = Some (s, length (enc_v3 s)).
Proof. exact (fun s H rest => conj (v3_roundtrip_bytes s H rest) (v3_roundtrip_stream s H rest)). Qed.

(* serial version 4 (delta coding + bit packing through the translated routines) *)
Theorem C09_theta_v4_roundtrip : forall s, wf4 s -> suitable_for_compression s = true ->
  exists img, enc_v4 s = Some img /\
    length img = (v4_doff s + packed_len (N.to_nat (entry_bits s)) (length (k_entries s)))%nat /\
    forall rest, dec_bytes (k_seed_hash s) (img ++ rest) = Some s /\
                 dec_stream (k_seed_hash s) (img ++ rest) = Some (s, length img).
Proof. exact v4_roundtrip. Qed.

Theorem C09_theta_serialize_compressed_roundtrip : forall s, wf s -> (suitable_for_compression s = true -> wf4 s) ->
  exists img, serialize_compressed s = Some img /\
    forall rest, dec_bytes (k_seed_hash s) (img ++ rest) = Some s /\
                 dec_stream (k_seed_hash s) (img ++ rest) = Some (s, length img).
Proof. exact serialize_compressed_roundtrip. Qed.

(* advertised sizes *)
Theorem C09_theta_v3_size : forall s,
  length (enc_v3 s) = (8 * N.to_nat (pre_longs_v3 s) + 8 * length (k_entries s))%nat.
Proof. exact enc_v3_length. Qed.

Theorem C09_theta_v4_size : forall s img, wf4 s -> suitable_for_compression s = true -> enc_v4 s = Some img ->
  N.of_nat (length img) =
    (if est_mode s then 16 else 8) + num_entries_bytes s + whole_bytes (entry_bits s * nent s).
Proof. exact v4_image_size. Qed.

(* non-vacuity: an estimation-mode sketch with three entries *)
Definition C09_ex : csk := mk false true 37836 4611686018427387904 [1000; 70000; 4000000000000].
Example C09_ex_wf4 : wf4 C09_ex /\ suitable_for_compression C09_ex = true.
Proof.
  unfold wf4, wf. cbn [C09_ex mk k_seed_hash k_theta k_entries k_empty k_ordered incr].
  repeat split; try reflexivity; try discriminate; repeat (apply Forall_cons; [reflexivity|]); apply Forall_nil.
Qed.
Example C09_ex_images :
  enc_v3 C09_ex = [3; 3; 3; 0; 0; 26; 204; 147; 3; 0; 0; 0; 0; 0; 0; 0; 0; 0; 0; 0; 0; 0; 0; 64;
                   232; 3; 0; 0; 0; 0; 0; 0; 112; 17; 1; 0; 0; 0; 0; 0; 0; 64; 148; 82; 163; 3; 0; 0] /\
  dec_bytes 37836 (enc_v3 C09_ex ++ [7; 7]) = Some C09_ex /\
  dec_stream 37836 (enc_v3 C09_ex ++ [7; 7]) = Some (C09_ex, 48%nat) /\
  match enc_v4 C09_ex with
  | Some img => length img = 33%nat /\ nth 3 img 0 = 42 /\
     dec_bytes 37836 (img ++ [7]) = Some C09_ex /\ dec_stream 37836 (img ++ [7]) = Some (C09_ex, 33%nat)
  | None => False
  end.
Proof. vm_compute. repeat split. Qed.

Print Assumptions C09_theta_v3_roundtrip.
Print Assumptions C09_theta_v4_roundtrip.
Print Assumptions C09_theta_serialize_compressed_roundtrip.
Print Assumptions C09_theta_v3_size.
Print Assumptions C09_theta_v4_size.
