(* VarOptUnion.v — theorems about var_opt_union in the exact-arithmetic (Q) instance of the model:
   update(sketch) never throws and adds the sketch's n and total weight to the union; get_result (all three coercers),
   whenever it returns, yields a sketch with the union's n, the union's total weight and k <= max_k. *)
From Coq Require Import ZArith List Bool QArith Lia Lra Psatz Permutation.
From DS Require Import RunnerLib VarOptDefs VarOptProofs VarOptTheorems.
Import ListNotations.

Definition Qeps10 : Q := 1 # 10000000000.

Section QU.
  Variable Item : Type.
  Variable ditem : Item.
  Variable cu : Z -> Q.

  Notation vo := (vo Item Q).
  Notation vu := (vu Item Q).
  Notation slot := (slot Item Q).
  Notation sumw := (sumw Item).
  Notation wsum := (wsum Item).
  Notation wpos := (wpos Item).
  Notation pairs_of := (pairs_of Item).
  Notation Rest := (Rest Item ditem).
  Notation Est := (Est Item ditem).
  Notation Warm := (Warm Item).
  Notation provR := (provR Item).
  Notation prov := (prov Item).
  Notation hp := (hp Item ditem Q 0 Qle).
  Notation Inv := (Inv Item ditem).
  Notation Qupdate := (Qupdate Item ditem cu).
  Notation Qtau := (Qtau Item).

  Definition Qupd_all := upd_all Item ditem Q 0 1 (-(1)) Qplus Qmult Qdiv Qltb Qle_bool Qeq_bool inject_Z Qbad cu.
  Definition Qunion_samples := union_samples Item Q 0 Qplus Qminus Qdiv inject_Z.
  Definition Qmerge_items := merge_items Item ditem Q 0 1 (-(1)) Qplus Qminus Qmult Qdiv Qltb Qle_bool Qeq_bool inject_Z Qbad cu.
  Definition Qresolve_tau := resolve_tau Item Q 0 Qplus Qdiv Qltb Qeq_bool inject_Z.
  Definition Qunion_update := union_update Item ditem Q 0 1 (-(1)) Qplus Qminus Qmult Qdiv Qltb Qle_bool Qeq_bool inject_Z Qbad cu.
  Definition Qdecrease_k := decrease_k_by_1 Item ditem Q 0 1 (-(1)) Qplus Qmult Qdiv Qltb Qle_bool Qeq_bool inject_Z Qbad cu.
  Definition Qdec_loop := dec_loop Item ditem Q 0 1 (-(1)) Qplus Qmult Qdiv Qltb Qle_bool Qeq_bool inject_Z Qbad cu.
  Definition Qmigrate := migrate Item ditem Q 0 1 (-(1)) Qplus Qmult Qdiv Qltb Qle_bool Qeq_bool inject_Z Qbad cu.
  Definition Qmark_moving := mark_moving Item ditem Q 0 (-(1)) Qplus Qminus Qmult Qltb Qle_bool Qeps10.
  Definition Qresult_gen2 := get_result_gen2 Item ditem Q 0 1 (-(1)) Qplus Qminus Qmult Qdiv Qltb Qle_bool Qeq_bool inject_Z Qbad cu Qeps10.
  Definition Qresult_gen := get_result_gen Item ditem Q 0 1 (-(1)) Qplus Qminus Qmult Qdiv Qltb Qle_bool Qeq_bool inject_Z Qbad cu Qeps10.
  Definition Qresult := get_result Item ditem Q 0 1 (-(1)) Qplus Qminus Qmult Qdiv Qltb Qle_bool Qeq_bool inject_Z Qbad cu Qeps10.
  Definition Quempty := vu_empty Item Q 0.

  (* ---------------- the samples handed to the gadget ---------------- *)
  Definition swsum (l : list (Item * Q * bool)) : Q := fold_right (fun p a => snd (fst p) + a) 0 l.
  Definition spos (l : list (Item * Q * bool)) : Prop := Forall (fun p => 0 < snd (fst p)) l.

  Lemma swsum_cons p t : swsum (p :: t) = snd (fst p) + swsum t.
  Proof. reflexivity. Qed.
  Lemma swsum_nil : swsum [] = 0.
  Proof. reflexivity. Qed.
  Lemma swsum_app l l' : swsum (l ++ l') == swsum l + swsum l'.
  Proof.
    induction l as [|a t IH]; cbn [app]; [rewrite swsum_nil; lra|]. rewrite !swsum_cons, IH. lra.
  Qed.

  Lemma r_samples_spec : forall (R : list Item) tau tot cum,
    0 < tau -> tot - cum == tau * qn (length R) ->
    spos (r_samples Item Q Qplus Qminus R tau tot cum) /\
    swsum (r_samples Item Q Qplus Qminus R tau tot cum) == tot - cum /\
    length (r_samples Item Q Qplus Qminus R tau tot cum) = length R.
  Proof.
    induction R as [|x t IH]; intros tau tot cum Ht E.
    - cbn [r_samples length] in *. change (qn 0) with 0 in E. split; [constructor|]. split; [rewrite swsum_nil; lra|reflexivity].
    - destruct t as [|y t'].
      + cbn [r_samples length] in *. change (qn 1) with 1 in E. split; [constructor; [cbn [fst snd]; lra|constructor]|].
        split; [rewrite swsum_cons, swsum_nil; cbn [fst snd]; lra|reflexivity].
      + change (r_samples Item Q Qplus Qminus (x :: y :: t') tau tot cum)
          with ((x, tau, true) :: r_samples Item Q Qplus Qminus (y :: t') tau tot (cum + tau)).
        assert (E' : tot - (cum + tau) == tau * qn (length (y :: t'))).
        { change (length (x :: y :: t')) with (S (length (y :: t'))) in E. rewrite qn_S in E. lra. }
        destruct (IH tau tot (cum + tau) Ht E') as (P & Sm & L).
        split; [constructor; [cbn [fst snd]; exact Ht|exact P]|].
        split; [rewrite swsum_cons, Sm; cbn [fst snd]; lra|].
        cbn [length]. now rewrite L.
  Qed.

  Lemma union_samples_spec (S : vo) k A : Inv k S A ->
    spos (Qunion_samples S) /\ swsum (Qunion_samples S) == wsum A /\
    (Z.of_nat (length (Qunion_samples S)) <= vn S)%Z.
  Proof.
    intros HI. pose proof (inv_counts Item ditem k S A HI) as (_ & _ & En & Hc & _).
    destruct HI as ((_ & _ & HposH & _ & Hmode) & _ & Hsum & _ & Ek).
    unfold Qunion_samples, union_samples.
    assert (HH : spos (map (fun x : slot => (s_item x, s_wt x, false)) (vH S)) /\
                 swsum (map (fun x : slot => (s_item x, s_wt x, false)) (vH S)) == sumw (vH S)).
    { clear -HposH. induction HposH as [|y t Hy Ht IH]; [split; [constructor|reflexivity]|].
      destruct IH as [P E]. split; [constructor; [exact Hy|exact P]|].
      cbn [map]. rewrite swsum_cons, E. cbn [fst snd]. reflexivity. }
    destruct HH as [PH SH].
    destruct Hmode as [(HR0 & _ & _ & Ht)|(Hr & _ & Htot & _)].
    - rewrite HR0. cbn [r_samples]. rewrite app_nil_r. split; [exact PH|]. split; [rewrite SH, <- Hsum; lra|].
      rewrite map_length. unfold rr, hh in *. rewrite HR0 in Hc. cbn in Hc. lia.
    - assert (Hq : 0 < qn (rr S)) by (apply qn_pos; lia).
      assert (Htau : 0 < get_tau Item Q Qdiv inject_Z S).
      { unfold get_tau, ofN. fold (qn (rr S)). apply Qlt_shift_div_l; lra. }
      assert (E : vtot S - 0 == get_tau Item Q Qdiv inject_Z S * qn (length (vR S))).
      { unfold get_tau, ofN. fold (rr S) (qn (rr S)). field. lra. }
      destruct (r_samples_spec (vR S) _ (vtot S) 0 Htau E) as (PR & SR & LR).
      split; [apply Forall_app; split; assumption|].
      split; [rewrite swsum_app, SH, SR, <- Hsum; lra|].
      rewrite app_length, map_length, LR. unfold rr, hh in *. lia.
  Qed.

  Lemma r_samples_items : forall (R : list Item) tau tot cum,
    map (fun p => fst (fst p)) (r_samples Item Q Qplus Qminus R tau tot cum) = R.
  Proof.
    induction R as [|x t IH]; intros tau tot cum; [reflexivity|].
    destruct t as [|y t']; [reflexivity|].
    change (r_samples Item Q Qplus Qminus (x :: y :: t') tau tot cum)
      with ((x, tau, true) :: r_samples Item Q Qplus Qminus (y :: t') tau tot (cum + tau)).
    cbn [map fst]. now rewrite IH.
  Qed.

  (* ---------------- a state at rest always has a (trivial) provenance ---------------- *)
  (* the items of the samples, H then R *)
  Definition sitems (s : vo) : list Item := map s_item (vH s) ++ vR s.

  Lemma provR_items (s : vo) inp : provR s inp -> incl (sitems s) (map fst inp).
  Proof.
    intros ((LR & LD & P & EF & _) & _) x Hx. unfold sitems in Hx.
    apply (Permutation_in x (Permutation_sym (Permutation_map fst P))).
    rewrite !map_app, map_fst_pairs, EF. cbn [VarOptProofs.pairs_of map app].
    apply in_app_or in Hx. apply in_or_app. destruct Hx as [Hx|Hx]; [now left|right; apply in_or_app; now left].
  Qed.

  Lemma provR_trivial (s : vo) : Rest s -> exists inp, provR s inp /\ map fst inp = sitems s.
  Proof.
    intros (_ & _ & _ & _ & [(HR0 & _)|(Hr & _ & Htot & _)]).
    - exists (pairs_of (vH s)). split; [apply provR_warm; [exact HR0|reflexivity]|].
      unfold sitems. rewrite HR0, app_nil_r. apply map_fst_pairs.
    - exists (pairs_of (vH s) ++ map (fun i => (i, vtot s / qn (rr s))) (vR s)). split; [|unfold sitems; rewrite map_app, map_fst_pairs, map_map; cbn [fst]; now rewrite map_id]. split.
      + exists (map (fun i => (i, vtot s / qn (rr s))) (vR s)), []. split; [|split].
        * cbn [VarOptProofs.pairs_of map app]. rewrite app_nil_r. reflexivity.
        * rewrite map_map. cbn [fst]. apply map_id.
        * intros p Hp. rewrite app_nil_r in Hp. apply in_map_iff in Hp. destruct Hp as (i & <- & _). cbn [snd].
          assert (0 < qn (rr s)) by (apply qn_pos; lia).
          assert (E : vtot s / qn (rr s) * qn (rr s) == vtot s) by (field; lra). lra.
      + intros E. exfalso. unfold rr in Hr. rewrite E in Hr. cbn in Hr. lia.
  Qed.

  (* ---------------- gadget updates ---------------- *)
  (* what the union proofs need of a gadget at rest *)
  Definition GInv (g : vo) (gk : nat) (W : Q) : Prop :=
    Rest g /\ vk g = gk /\ sumw (vH g) + vtot g == W.

  Lemma upd_all_spec : forall l (g : vo) c gk W, GInv g gk W -> spos l ->
    exists g' c', Qupd_all g l c = (g', c', true) /\ GInv g' gk (W + swsum l) /\
      vn g' = (vn g + Z.of_nat (length l))%Z /\ vgad g' = vgad g /\
      incl (sitems g') (sitems g ++ map (fun p => fst (fst p)) l).
  Proof.
    induction l as [|[[x w] mk] t IH]; intros g c gk W (HR & Ek & Hsum) Hpos.
    - exists g, c. split; [reflexivity|]. split; [split; [exact HR|split; [exact Ek|rewrite swsum_nil; lra]]|]. split; [cbn [length]; lia|].
      split; [reflexivity|]. cbn [map]. rewrite app_nil_r. apply incl_refl.
    - apply Forall_cons_iff in Hpos. destruct Hpos as [Hw Ht]. cbn [fst snd] in Hw.
      destruct (provR_trivial g HR) as (inp & HP & Einp).
      assert (HU : exists s1 c1, update Item ditem Q 0 1 (-(1)) Qplus Qmult Qdiv Qltb Qle_bool Qeq_bool inject_Z Qbad cu g x w mk c
                                 = UOk Item Q s1 c1 /\ Rest s1 /\
                                 sumw (vH s1) + vtot s1 == sumw (vH g) + vtot g + w /\
                                 vn s1 = (vn g + 1)%Z /\ vk s1 = vk g /\ vgad s1 = vgad g /\
                                 incl (sitems s1) (sitems g ++ [x])).
      { unfold update, Qbad. rewrite (Qltb_ge w 0) by lra.
        destruct (Qeq_bool w 0) eqn:E0; [apply Qeq_bool_iff in E0; lra|].
        destruct (update_body_spec Item ditem cu g x w mk c inp HR HP Hw) as (s1 & c1 & E & HR1 & HP1 & Hs1 & En1 & Ek1 & Eg1 & _).
        exists s1, c1. rewrite E. split; [reflexivity|]. repeat (split; [assumption|]).
        pose proof (provR_items s1 _ HP1) as Hi. rewrite map_app, Einp in Hi. exact Hi. }
      destruct HU as (s1 & c1 & EU & HR1 & Hs1 & En1 & Ek1 & Eg1 & Hi1).
      destruct (IH s1 c1 gk (W + w) ltac:(split; [exact HR1|split; [congruence|rewrite Hs1, Hsum; lra]]) Ht)
        as (g' & c' & E' & (HR' & Ek' & Hs') & En' & Eg' & Hi').
      exists g', c'. split.
      + unfold Qupd_all in *. cbn [upd_all]. rewrite EU. exact E'.
      + split; [split; [exact HR'|split; [exact Ek'|]]|].
        * rewrite Hs', swsum_cons. cbn [fst snd]. lra.
        * split; [rewrite En', En1; cbn [length]; lia|]. split; [congruence|].
          intros y Hy. apply Hi' in Hy. cbn [map fst]. apply in_app_or in Hy. destruct Hy as [Hy|Hy].
          -- apply Hi1 in Hy. apply in_app_or in Hy. apply in_or_app. destruct Hy as [Hy|[<-|[]]]; [now left|right; now left].
          -- apply in_or_app. right. now right.
  Qed.

  (* ---------------- the union ---------------- *)
  (* n = sum of the n of the sketches given so far, W = sum of their input weights *)
  Definition UInv (u : vu) (n : Z) (W : Q) : Prop :=
    GInv (ugad u) (umaxk u) W /\ vgad (ugad u) = true /\ un u = n /\ (vn (ugad u) <= un u)%Z.

  Lemma uempty_UInv max_k : (1 <= max_k)%nat -> UInv (Quempty max_k) 0 0.
  Proof.
    intros Hk. unfold UInv, GInv, Quempty, vu_empty. cbn [ugad umaxk un].
    split; [split; [apply (empty_Rest Item ditem max_k true Hk)|split; [reflexivity|cbn; lra]]|].
    split; [reflexivity|]. split; [reflexivity|]. cbn. lia.
  Qed.

  Lemma resolve_tau_fields (u : vu) (S : vo) :
    ugad (Qresolve_tau u S) = ugad u /\ un (Qresolve_tau u S) = un u /\ umaxk (Qresolve_tau u S) = umaxk u.
  Proof.
    unfold Qresolve_tau, resolve_tau.
    destruct (0 <? rr S)%nat; [|repeat split].
    destruct (uotd u =? 0)%nat; [repeat split|].
    destruct (Qltb _ _); [repeat split|]. destruct (Qeq_bool _ _); repeat split.
  Qed.

  (* update(sketch) never throws; the union's n grows by the sketch's n, its weight by the sketch's input weight *)
  Lemma union_update_spec (u : vu) n W (S : vo) k A c :
    UInv u n W -> Inv k S A ->
    exists u' c', Qunion_update u S c = (u', c', true) /\
      UInv u' (n + Z.of_nat (length A)) (W + wsum A) /\ umaxk u' = umaxk u /\
      incl (sitems (ugad u')) (sitems (ugad u) ++ sitems S).
  Proof.
    intros (HG & Hgad & En & Hgn) HI.
    assert (Eit : map (fun p => fst (fst p)) (Qunion_samples S) = sitems S).
    { unfold Qunion_samples, union_samples, sitems. rewrite map_app, map_map, r_samples_items. reflexivity. }
    destruct (union_samples_spec S k A HI) as (Hpos & Hsw & Hlen).
    pose proof (inv_counts Item ditem k S A HI) as (_ & _ & EnS & _).
    unfold Qunion_update, union_update, merge_items.
    destruct (Z.eqb_spec (vn S) 0) as [E0|E0].
    - assert (EA : A = []) by (destruct A; [reflexivity|cbn in EnS; lia]).
      subst A. fold (Qresolve_tau u S). destruct (resolve_tau_fields u S) as (Eg & Enn & Ek).
      eexists _, c. split; [reflexivity|]. cbn [length wsum fold_right].
      split; [|split; [exact Ek|rewrite Eg; apply incl_appl, incl_refl]]. unfold UInv. rewrite Eg, Enn, Ek.
      split; [destruct HG as (HR & Ekk & Hs); split; [exact HR|split; [exact Ekk|rewrite Hs; lra]]|].
      split; [exact Hgad|]. split; [lia|exact Hgn].
    - destruct (upd_all_spec (Qunion_samples S) (ugad u) c (umaxk u) W HG Hpos) as (g' & c' & E & HG' & Eng & Egad & Hit).
      unfold Qupd_all, Qunion_samples in E. rewrite E.
      match goal with |- context [resolve_tau _ _ _ _ _ _ _ _ ?uu S] => set (u1 := uu) end.
      fold (Qresolve_tau u1 S). destruct (resolve_tau_fields u1 S) as (Eg & Enn & Ek).
      eexists _, c'. split; [reflexivity|].
      split; [|split; [rewrite Ek; reflexivity|rewrite Eg; subst u1; cbn [ugad]; rewrite <- Eit; exact Hit]].
      unfold UInv. rewrite Eg, Enn, Ek. subst u1. cbn [ugad un umaxk].
      split; [destruct HG' as (HR & Ekk & Hs); split; [exact HR|split; [exact Ekk|rewrite Hs, Hsw; lra]]|].
      split; [congruence|]. split; [lia|]. lia.
  Qed.

  (* ---------------- decrease_k_by_1 ---------------- *)
  (* a (copy of a) gadget: at rest, but n is the union's n, so only n >= h is known in exact mode *)
  Definition G (s : vo) : Prop :=
    vM s = [] /\ vmb s = 0%nat /\ wpos (vH s) /\
    ((vR s = [] /\ vtot s == 0 /\ (hh s <= vk s)%nat /\ (Z.of_nat (hh s) <= vn s)%Z) \/ Est s).

  Lemma G_samples_le_k (s : vo) : G s -> (hh s + rr s <= vk s)%nat.
  Proof.
    intros (_ & _ & _ & [(HR0 & _ & Hh & _)|(_ & Hhr & _)]); [unfold rr; rewrite HR0; cbn; lia|lia].
  Qed.

  Lemma Rest_Est_G (s : vo) : Rest s -> Est s -> G s.
  Proof. intros (HM & Hmb & Hpos & _) HE. split; [exact HM|]. split; [exact Hmb|]. split; [exact Hpos|]. now right. Qed.

  Lemma hp_removelast (H : list slot) : hp H -> hp (removelast H).
  Proof.
    unfold VarOptProofs.hp, hp_from, wtat. intros Hh i j Hi Hj Hc.
    rewrite removelast_length in Hj.
    assert (i < j)%nat by (destruct Hc; lia).
    rewrite !nth_removelast by lia. apply Hh; [lia|lia|exact Hc].
  Qed.

  Lemma in_removelast {B} (l : list B) y : In y (removelast l) -> In y l.
  Proof.
    destruct l as [|a t] using rev_ind; [intros []|]. rewrite removelast_last. intros Hy. apply in_or_app. now left.
  Qed.

  Lemma sumw_removelast (H : list slot) d : H <> [] -> sumw H == sumw (removelast H) + s_wt (last H d).
  Proof.
    intros Hne. rewrite (app_removelast_last d Hne) at 1. rewrite sumw_app.
    unfold VarOptProofs.sumw at 2. cbn [fold_right]. lra.
  Qed.

  Lemma sitems_fields (s s' : vo) : vH s' = vH s -> vR s' = vR s -> sitems s' = sitems s.
  Proof. unfold sitems. now intros -> ->. Qed.

  Lemma dec_spec (s : vo) c s' c' : G s -> Qdecrease_k s c = Some (s', c') ->
    G s' /\ vn s' = vn s /\ sumw (vH s') + vtot s' == sumw (vH s) + vtot s /\
    vk s' = (vk s - 1)%nat /\ (2 <= vk s)%nat /\ vgad s' = vgad s /\ incl (sitems s') (sitems s).
  Proof.
    intros (HM & Hmb & Hpos & Hmode) E. unfold Qdecrease_k, decrease_k_by_1 in E.
    destruct (Nat.leb_spec (vk s) 1) as [|Hk2]; [discriminate|].
    destruct (Nat.eqb_spec (hh s) 0) as [Eh|Eh]; destruct (Nat.eqb_spec (rr s) 0) as [Er|Er]; cbn [andb] in E.
    - (* empty *)
      injection E as <- <-. unfold set_k; cbn [vk vn vH vM vmb vR vtot vgad].
      split; [|split; [reflexivity|split; [lra|split; [reflexivity|split; [lia|split; [reflexivity|apply incl_refl]]]]]].
      split; [exact HM|]. split; [exact Hmb|]. split; [exact Hpos|]. left.
      destruct Hmode as [(HR0 & Ht & _ & Hn)|(Hr & _)]; [|lia].
      unfold hh in *. cbn [vH vk vn]. repeat split; try assumption; lia.
    - (* pure reservoir *)
      replace (0 <? hh s)%nat with false in E by (symmetry; apply Nat.ltb_ge; lia). cbn [andb] in E.
      destruct Hmode as [(HR0 & _)|HE]; [unfold rr in Er; rewrite HR0 in Er; cbn in Er; lia|].
      destruct HE as (Hr & Hhr & Htot & Hhp & HH & Hn).
      destruct (Nat.ltb_spec (rr s) 2) as [|Hr2]; [discriminate|].
      pose proof (draw_index_lt (rr s) c ltac:(lia)) as Hj.
      destruct (draw_index (rr s) c) as [j cj]. cbn [fst] in Hj. injection E as <- <-.
      unfold set_k, set_R; cbn [vk vn vH vM vmb vR vtot vgad].
      split; [|split; [reflexivity|split; [lra|split; [reflexivity|split; [lia|split; [reflexivity|]]]]]].
      + split; [exact HM|]. split; [exact Hmb|]. split; [exact Hpos|]. right.
        assert (EH : vH s = []) by (unfold hh in Eh; destruct (vH s); [reflexivity|cbn in Eh; lia]).
        unfold VarOptProofs.Est, hh, rr. cbn [vk vn vH vR vtot].
        rewrite removelast_length, swap_length. unfold hh, rr in *. rewrite EH in *. cbn [length] in *.
        split; [lia|]. split; [lia|]. split; [exact Htot|]. split; [exact Hhp|]. split; [intros y []|lia].
      + unfold sitems. cbn [vH vR]. apply incl_app; [apply incl_appl, incl_refl|]. apply incl_appr.
        intros y Hy. apply in_removelast in Hy.
        eapply Permutation_in; [apply Permutation_sym, (swap_perm ditem (vR s) j (rr s - 1)); unfold rr in *; lia|exact Hy].
    - (* exact mode with data *)
      replace (0 <? hh s)%nat with true in E by (symmetry; apply Nat.ltb_lt; lia). cbn [andb] in E.
      destruct Hmode as [(HR0 & Ht & Hh & Hn)|(Hr & _)]; [|lia].
      set (s1 := set_k Item Q s (vk s - 1)) in *.
      destruct (Nat.ltb_spec (vk s1) (hh s1)) as [Hlt|Hge].
      + change (vk s1) with (vk s - 1)%nat in Hlt. change (hh s1) with (hh s) in Hlt.
        destruct (transition_spec Item ditem cu s1 c (pairs_of (vH s1)) HM Hmb HR0
                    ltac:(change (vk s1) with (vk s - 1)%nat; lia)
                    ltac:(change (vk s1) with (vk s - 1)%nat; change (hh s1) with (hh s); lia) Hpos
                    ltac:(change (vk s1) with (vk s - 1)%nat; change (vn s1) with (vn s); lia)
                    (Permutation_refl _))
          as (s2 & c2 & E2 & HR2 & HE2 & HP2 & Hsum2 & Ek2 & En2 & Eg2 & _).
        rewrite E2 in E. injection E as <- <-.
        split; [now apply Rest_Est_G|]. split; [exact En2|].
        split; [rewrite Hsum2; change (vH s1) with (vH s); lra|]. split; [exact Ek2|]. split; [lia|]. split; [exact Eg2|].
        pose proof (provR_items s2 _ HP2) as Hi. rewrite map_fst_pairs in Hi. change (vH s1) with (vH s) in Hi.
        intros y Hy. apply Hi in Hy. unfold sitems. apply in_or_app. now left.
      + injection E as <- <-. change (vk s1) with (vk s - 1)%nat in *. change (hh s1) with (hh s) in Hge.
        split; [|split; [reflexivity|split; [reflexivity|split; [reflexivity|split; [lia|split; [reflexivity|apply incl_refl]]]]]].
        split; [exact HM|]. split; [exact Hmb|]. split; [exact Hpos|]. left.
        repeat split; try assumption; try (change (hh s1) with (hh s); change (vk s1) with (vk s - 1)%nat; lia).
    - (* estimation mode with heavy items: pull the last H item and re-insert it with k - 1 *)
      replace (0 <? hh s)%nat with true in E by (symmetry; apply Nat.ltb_lt; lia).
      replace (0 <? rr s)%nat with true in E by (symmetry; apply Nat.ltb_lt; lia). cbn [andb] in E.
      destruct Hmode as [(HR0 & _)|HE]; [unfold rr in Er; rewrite HR0 in Er; cbn in Er; lia|].
      destruct HE as (Hr & Hhr & Htot & Hhp & HH & Hn).
      destruct (hh s + 1 + rr s - 1 =? vk s)%nat; [|discriminate]. cbn [negb] in E.
      assert (HneH : vH s <> []) by (unfold hh in Eh; destruct (vH s); [cbn in Eh; lia|congruence]).
      assert (HneR : vR s <> []) by (unfold rr in Er; destruct (vR s); [cbn in Er; lia|congruence]).
      set (pulled := last (vH s) (dslot Item ditem Q 0)) in *.
      set (s1 := mkvo Item Q (vk s - 1) (vn s - 1) (removelast (vH s)) (vM s) (vmb s)
                      (last (vR s) ditem :: removelast (vR s)) (vtot s) (vgad s)
                      (if s_mark pulled then Nat.pred (vmarks s) else vmarks s)) in *.
      assert (Hpin : In pulled (vH s)).
      { subst pulled. rewrite (app_removelast_last (dslot Item ditem Q 0) HneH) at 2. apply in_or_app. right. now left. }
      assert (Hpw : 0 < s_wt pulled).
      { unfold VarOptProofs.wpos in Hpos. rewrite Forall_forall in Hpos. now apply Hpos. }
      assert (Hpos1 : wpos (removelast (vH s))).
      { unfold VarOptProofs.wpos in *. rewrite Forall_forall in *. intros y Hy. apply Hpos. now apply in_removelast. }
      assert (Hrr1 : rr s1 = rr s).
      { unfold rr. subst s1. cbn [vR length]. rewrite removelast_length. unfold rr in Er. lia. }
      assert (Hhh1 : hh s1 = (hh s - 1)%nat).
      { unfold hh. subst s1. cbn [vH]. rewrite removelast_length. lia. }
      assert (HE1 : Est s1).
      { unfold VarOptProofs.Est. rewrite Hrr1, Hhh1. change (vk s1) with (vk s - 1)%nat. change (vn s1) with (vn s - 1)%Z.
        change (vtot s1) with (vtot s). change (vH s1) with (removelast (vH s)).
        split; [lia|]. split; [lia|]. split; [exact Htot|]. split; [now apply hp_removelast|].
        split; [intros y Hy; apply HH; now apply in_removelast|lia]. }
      assert (HR1 : Rest s1).
      { split; [exact HM|]. split; [exact Hmb|]. split; [exact Hpos1|]. split; [change (vk s1) with (vk s - 1)%nat; lia|]. now right. }
      destruct (provR_trivial s1 HR1) as (inp & HP1 & Einp).
      unfold update_inner, Qbad in E. rewrite (Qltb_ge (s_wt pulled) 0) in E by lra.
      destruct (Qeq_bool (s_wt pulled) 0) eqn:E0; [apply Qeq_bool_iff in E0; lra|].
      destruct (update_body_spec Item ditem cu s1 (s_item pulled) (s_wt pulled) (s_mark pulled) c inp HR1 HP1 Hpw)
        as (s2 & c2 & E2 & HR2 & HP2 & Hsum2 & En2 & Ek2 & Eg2 & Hest2 & _).
      rewrite E2 in E. injection E as <- <-.
      destruct (Hest2 HE1) as [HE2 _].
      split; [now apply Rest_Est_G|]. split; [rewrite En2; change (vn s1) with (vn s - 1)%Z; lia|].
      split; [|split; [exact Ek2|split; [lia|split; [exact Eg2|]]]].
      + rewrite Hsum2. change (vH s1) with (removelast (vH s)). change (vtot s1) with (vtot s).
        rewrite (sumw_removelast (vH s) (dslot Item ditem Q 0) HneH). fold pulled. lra.
      + pose proof (provR_items s2 _ HP2) as Hi. rewrite map_app, Einp in Hi. cbn [map fst] in Hi.
        intros y Hy. apply Hi in Hy. unfold sitems in *. subst s1. cbn [vH vR] in Hy.
        apply in_app_or in Hy. destruct Hy as [Hy|[<-|[]]].
        * apply in_app_or in Hy. apply in_or_app. destruct Hy as [Hy|Hy].
          -- left. apply in_map_iff in Hy. destruct Hy as (z & <- & Hz). apply in_map. now apply in_removelast.
          -- right. destruct Hy as [<-|Hy]; [|now apply in_removelast].
             rewrite (app_removelast_last ditem HneR) at 2. apply in_or_app. right. now left.
        * apply in_or_app. left. now apply in_map.
  Qed.

  Lemma dec_loop_spec : forall fuel (s : vo) c s' c', G s -> Qdec_loop fuel s c = Some (s', c') ->
    G s' /\ vn s' = vn s /\ sumw (vH s') + vtot s' == sumw (vH s) + vtot s /\ (vk s' <= vk s)%nat /\
    incl (sitems s') (sitems s).
  Proof.
    induction fuel as [|f IH]; intros s c s' c' HG E; unfold Qdec_loop in E; cbn [dec_loop] in E.
    - destruct (vmarks s =? 0)%nat; [|discriminate]. injection E as <- <-. split; [exact HG|]. split; [reflexivity|]. split; [lra|]. split; [lia|apply incl_refl].
    - destruct (vmarks s =? 0)%nat; [injection E as <- <-; split; [exact HG|]; split; [reflexivity|]; split; [lra|]; split; [lia|apply incl_refl]|].
      fold Qdecrease_k in E. destruct (Qdecrease_k s c) as [[s1 c1]|] eqn:E1; [|discriminate].
      destruct (dec_spec s c s1 c1 HG E1) as (HG1 & En1 & Hs1 & Ek1 & _ & _ & Hi1).
      destruct (IH s1 c1 s' c' HG1 E) as (HG' & En' & Hs' & Ek' & Hi').
      split; [exact HG'|]. split; [congruence|]. split; [rewrite Hs', Hs1; lra|]. split; [lia|].
      eapply incl_tran; [exact Hi'|exact Hi1].
  Qed.

  Lemma migrate_spec (g0 : vo) c res c' : G g0 -> Qmigrate g0 c = Some (res, c') ->
    G res /\ vn res = vn g0 /\ sumw (vH res) + vtot res == sumw (vH g0) + vtot g0 /\ (vk res < vk g0)%nat /\ vgad res = false /\
    incl (sitems res) (sitems g0).
  Proof.
    intros HG E. unfold Qmigrate, migrate in E.
    destruct (vmarks g0 =? 0)%nat; [discriminate|].
    destruct (negb (rr g0 =? 0)%nat && negb (hh g0 + rr g0 =? vk g0)%nat)%bool; [discriminate|].
    set (g1 := if ((rr g0 =? 0)%nat && (hh g0 <? vk g0)%nat)%bool then set_k Item Q g0 (hh g0) else g0) in *.
    assert (Eit1 : sitems g1 = sitems g0).
    { subst g1. destruct ((rr g0 =? 0)%nat && (hh g0 <? vk g0)%nat)%bool; reflexivity. }
    assert (HG1 : G g1 /\ vn g1 = vn g0 /\ vH g1 = vH g0 /\ vtot g1 = vtot g0 /\ (vk g1 <= vk g0)%nat).
    { subst g1. destruct (Nat.eqb_spec (rr g0) 0) as [Er|Er]; cbn [andb];
        [|split; [exact HG|]; split; [reflexivity|]; split; [reflexivity|]; split; [reflexivity|lia]].
      destruct (Nat.ltb_spec (hh g0) (vk g0)) as [Hlt|Hge];
        [|split; [exact HG|]; split; [reflexivity|]; split; [reflexivity|]; split; [reflexivity|lia]].
      destruct HG as (HM & Hmb & Hpos & Hmode). unfold set_k.
      split; [|cbn [vn vH vtot vk]; split; [reflexivity|]; split; [reflexivity|]; split; [reflexivity|lia]].
      split; [exact HM|]. split; [exact Hmb|]. split; [exact Hpos|]. left.
      destruct Hmode as [(HR0 & Ht & Hh & Hn)|(Hr & _)]; [|lia].
      unfold hh. cbn [vR vtot vH vk vn]. unfold hh in Hn. repeat split; try assumption; lia. }
    destruct HG1 as (HG1 & En1 & EH1 & Et1 & Ek1).
    fold Qdecrease_k in E. destruct (Qdecrease_k g1 c) as [[g2 c2]|] eqn:E2; [|discriminate].
    destruct (dec_spec g1 c g2 c2 HG1 E2) as (HG2 & En2 & Hs2 & Ek2 & Hk2 & _ & Hi2).
    destruct ((0 <? rr g2)%nat && Qeq_bool (get_tau Item Q Qdiv inject_Z g2) 0)%bool; [discriminate|].
    fold Qdec_loop in E. destruct (Qdec_loop (vk g2) g2 c2) as [[g3 c3]|] eqn:E3; [|discriminate].
    injection E as <- <-.
    destruct (dec_loop_spec (vk g2) g2 c2 g3 c3 HG2 E3) as (HG3 & En3 & Hs3 & Ek3 & Hi3).
    unfold strip_marks. cbn [vn vH vtot vk vgad].
    split; [exact HG3|]. split; [congruence|]. split; [rewrite Hs3, Hs2, EH1, Et1; lra|]. split; [lia|]. split; [reflexivity|].
    change (sitems (mkvo Item Q (vk g3) (vn g3) (vH g3) (vM g3) (vmb g3) (vR g3) (vtot g3) false 0)) with (sitems g3).
    rewrite <- Eit1. eapply incl_tran; [exact Hi3|exact Hi2].
  Qed.

  (* ---------------- get_result ---------------- *)
  Lemma filter_partition_length {B} (f : B -> bool) l :
    (length (filter f l) + length (filter (fun x => negb (f x)) l) = length l)%nat.
  Proof. induction l as [|a t IH]; cbn; [reflexivity|]. destruct (f a); cbn; lia. Qed.

  Lemma sumw_filter_partition (f : slot -> bool) l :
    sumw (filter f l) + sumw (filter (fun x => negb (f x)) l) == sumw l.
  Proof.
    induction l as [|a t IH]; [unfold VarOptProofs.sumw; cbn; lra|].
    cbn [filter]. destruct (f a); cbn [negb]; unfold VarOptProofs.sumw in *; cbn [fold_right]; lra.
  Qed.

  Lemma sumw_map_unmark l : sumw (map (fun x : slot => mkslot (s_item x) (s_wt x) false) l) == sumw l.
  Proof. induction l as [|a t IH]; [reflexivity|]. cbn [map]. unfold VarOptProofs.sumw in *. cbn [fold_right s_wt]. lra. Qed.

  Lemma wpos_filter (f : slot -> bool) l : wpos l -> wpos (filter f l).
  Proof. unfold VarOptProofs.wpos. rewrite !Forall_forall. intros H y Hy. apply filter_In in Hy. now apply H. Qed.

  (* whichever coercer is used (and whichever target the pseudo-exact test compares with): if get_result returns,
     the result has the union's n, the union's total weight, k <= max_k, at most k samples, and is at rest *)
  Lemma get_result_spec a4 (u : vu) n W c res c' :
    UInv u n W -> Qresult_gen a4 u c = Some (res, c') ->
    vn res = n /\ sumw (vH res) + vtot res == W /\ (vk res <= umaxk u)%nat /\ (hh res + rr res <= vk res)%nat /\
    vM res = [] /\ mm res = 0%nat /\ wpos (vH res) /\ vgad res = false /\ incl (sitems res) (sitems (ugad u)).
  Proof.
    intros ((HR & Ek & Hsum) & Hgad & En & Hgn) E. unfold Qresult_gen, get_result_gen, get_result_gen2 in E.
    set (g := ugad u) in *.
    pose proof HR as (HM & Hmb & Hpos & Hk1 & Hmode).
    assert (HGc : forall b, G (copy_as Item Q g b (un u))).
    { intros b. unfold copy_as. split; [exact HM|]. split; [exact Hmb|]. split; [exact Hpos|].
      destruct Hmode as [(HR0 & Hh & Hn & Ht)|(Hr & Hhr & Htot & Hhp & HH & Hn)].
      - left. unfold hh in *. cbn [vR vtot vH vk vn]. repeat split; try assumption. lia.
      - right. unfold VarOptProofs.Est, hh, rr in *. cbn [vR vtot vH vk vn]. repeat split; try assumption. lia. }
    destruct (vmarks g =? 0)%nat.
    - (* simple_gadget_coercer *)
      injection E as <- <-. pose proof (G_samples_le_k _ (HGc true)) as Hle.
      unfold copy_as in *. unfold hh, rr, mm in *. cbn [vn vH vtot vk vR vM vmb vgad] in *.
      split; [exact En|]. split; [exact Hsum|]. split; [lia|]. split; [exact Hle|]. split; [exact HM|].
      split; [rewrite HM, Hmb; reflexivity|]. split; [exact Hpos|]. split; [reflexivity|apply incl_refl].
    - destruct ((rr g =? 0)%nat && (0 <? vmarks g)%nat && (vmarks g =? uotd u)%nat &&
                negb (exists_unmarked_lighter Item Q Qltb g (a4 u)))%bool.
      + (* mark_moving_gadget_coercer *)
        unfold mark_moving_gen in E. fold g in E.
        destruct (Qltb Qeps10 _ || Qltb _ (- (1) * Qeps10))%bool; [discriminate|]. injection E as <- <-.
        set (H0 := map (fun x : slot => mkslot (s_item x) (s_wt x) false) (filter (fun x : slot => negb (s_mark x)) (vH g))).
        pose proof (Hconv_perm Item ditem H0) as PH.
        unfold hh, rr, mm. cbn [vn vH vtot vk vR vM vmb vgad copy_as].
        pose proof (filter_partition_length (@s_mark Item Q) (vH g)) as PL.
        pose proof (sumw_filter_partition (@s_mark Item Q) (vH g)) as PS.
        pose proof (G_samples_le_k _ (HGc true)) as Hle. unfold copy_as, hh, rr in Hle. cbn [vH vR vk] in Hle.
        split; [exact En|].
        split; [rewrite <- (sumw_perm Item _ _ PH); subst H0; rewrite sumw_map_unmark, (fold_sum Item (filter (@s_mark Item Q) (vH g)) 0); rewrite <- Hsum; lra|].
        split; [unfold hh, rr; lia|].
        split; [rewrite <- (Permutation_length PH); subst H0; rewrite map_length, rev_length, app_length, map_length; unfold hh, rr; lia|].
        split; [exact HM|]. split; [rewrite HM, Hmb; reflexivity|].
        assert (HposH0 : wpos H0).
        { subst H0. unfold VarOptProofs.wpos. rewrite Forall_forall. intros y Hy. apply in_map_iff in Hy. destruct Hy as (x & <- & Hx).
          cbn [s_wt]. apply filter_In in Hx. unfold VarOptProofs.wpos in Hpos. rewrite Forall_forall in Hpos. now apply Hpos. }
        split; [exact (wpos_perm Item _ _ PH HposH0)|split; [reflexivity|]].
        unfold sitems. cbn [vH vR]. intros y Hy. apply in_app_or in Hy. apply in_or_app. destruct Hy as [Hy|Hy].
        * left. apply in_map_iff in Hy. destruct Hy as (z & <- & Hz).
          apply (Permutation_in z (Permutation_sym PH)) in Hz. subst H0. apply in_map_iff in Hz. destruct Hz as (x & <- & Hx).
          cbn [s_item]. apply filter_In in Hx. apply in_map. now apply Hx.
        * apply in_rev in Hy. apply in_app_or in Hy. destruct Hy as [Hy|Hy]; [now right|left].
          apply in_map_iff in Hy. destruct Hy as (x & <- & Hx). apply filter_In in Hx. apply in_map. now apply Hx.
      + (* migrate_marked_items_by_decreasing_k *)
        fold Qmigrate in E.
        destruct (migrate_spec _ c res c' (HGc false) E) as (HGr & Enr & Hsr & Ekr & Egr & Hir).
        unfold copy_as in Enr, Hsr, Ekr. cbn [vn vH vtot vk] in Enr, Hsr, Ekr.
        pose proof (G_samples_le_k _ HGr) as Hle. destruct HGr as (HMr & Hmbr & Hposr & _).
        split; [congruence|]. split; [rewrite Hsr; exact Hsum|]. split; [lia|]. split; [exact Hle|].
        split; [exact HMr|]. split; [unfold mm; rewrite HMr, Hmbr; reflexivity|]. split; [exact Hposr|]. split; [exact Egr|exact Hir].
  Qed.

  (* ---------------- a union fed a list of sketches ---------------- *)
  Fixpoint ufeed (u : vu) (sks : list vo) (c : chs) : vu * chs * bool :=
    match sks with
    | [] => (u, c, true)
    | sk :: t => let '(u', c', okb) := Qunion_update u sk c in
                if okb then ufeed u' t c' else (u', c', false)
    end.

  Definition total_n (ins : list (vo * list (Item * Q))) : Z :=
    fold_right (fun p a => (Z.of_nat (length (snd p)) + a)%Z) 0%Z ins.
  Definition total_w (ins : list (vo * list (Item * Q))) : Q :=
    fold_right (fun p a => wsum (snd p) + a) 0 ins.
  (* every input sketch is a sketch at rest with its input (what [history_Inv] establishes for every history) *)
  Definition valid_inputs (ins : list (vo * list (Item * Q))) : Prop :=
    Forall (fun p => exists k, Inv k (fst p) (snd p)) ins.

  Lemma ufeed_spec : forall ins (u : vu) n W c, UInv u n W -> valid_inputs ins ->
    exists u' c', ufeed u (map fst ins) c = (u', c', true) /\
      UInv u' (n + total_n ins) (W + total_w ins) /\ umaxk u' = umaxk u.
  Proof.
    induction ins as [|[sk A] t IH]; intros u n W c HU Hv.
    - exists u, c. split; [reflexivity|]. cbn [total_n total_w fold_right]. split; [|reflexivity].
      destruct HU as ((HR & Ek & Hs) & H2 & H3 & H4). split; [split; [exact HR|split; [exact Ek|rewrite Hs; lra]]|].
      split; [exact H2|]. split; [lia|exact H4].
    - apply Forall_cons_iff in Hv. destruct Hv as [(k & HI) Hv]. cbn [fst snd] in HI.
      destruct (union_update_spec u n W sk k A c HU HI) as (u1 & c1 & E1 & HU1 & Ek1 & _).
      destruct (IH u1 _ _ c1 HU1 Hv) as (u' & c' & E' & HU' & Ek').
      exists u', c'. cbn [map fst ufeed]. rewrite E1. split; [exact E'|]. split; [|congruence].
      change (total_w ((sk, A) :: t)) with (wsum A + total_w t).
      change (total_n ((sk, A) :: t)) with (Z.of_nat (length A) + total_n t)%Z.
      destruct HU' as ((HR & Ek & Hs) & H2 & H3 & H4). split; [split; [exact HR|split; [exact Ek|rewrite Hs; lra]]|].
      split; [exact H2|]. split; [rewrite H3; lia|exact H4].
  Qed.

  (* the union of any sketches: never throws while merging, n and total weight are conserved, and whatever get_result
     returns has exactly that n and that weight, k <= max_k and at most k samples *)
  Lemma union_conserves max_k ins c c2 : (1 <= max_k)%nat -> valid_inputs ins ->
    exists u c1, ufeed (Quempty max_k) (map fst ins) c = (u, c1, true) /\
      un u = total_n ins /\ umaxk u = max_k /\
      sumw (vH (ugad u)) + vtot (ugad u) == total_w ins /\
      forall a4 res c3, Qresult_gen a4 u c2 = Some (res, c3) ->
        vn res = total_n ins /\ sumw (vH res) + vtot res == total_w ins /\
        (vk res <= max_k)%nat /\ (hh res + rr res <= vk res)%nat /\ vM res = [] /\ mm res = 0%nat.
  Proof.
    intros Hk Hv. destruct (ufeed_spec ins (Quempty max_k) 0 0 c (uempty_UInv max_k Hk) Hv) as (u & c1 & E & HU & Ek).
    exists u, c1. split; [exact E|].
    assert (HU' : UInv u (total_n ins) (total_w ins)).
    { destruct HU as ((HR & Ekk & Hs) & H2 & H3 & H4). split; [split; [exact HR|split; [exact Ekk|rewrite Hs; lra]]|].
      split; [exact H2|]. split; [rewrite H3; lia|exact H4]. }
    destruct HU' as ((HR & Ekk & Hs) & H2 & H3 & H4).
    split; [exact H3|]. split; [exact Ek|]. split; [exact Hs|].
    intros a4 res c3 Er.
    destruct (get_result_spec a4 u _ _ c2 res c3 (conj (conj HR (conj Ekk Hs)) (conj H2 (conj H3 H4))) Er)
      as (A1 & A2 & A3 & A4 & A5 & A6 & _).
    change (umaxk (Quempty max_k)) with max_k in Ek. rewrite Ek in A3.
    repeat (split; [assumption|]). assumption.
  Qed.

  (* ---------------- union serialize + deserialize ---------------- *)
  Definition Quserde := union_serde Item Q 0 Qltb.

  Lemma union_serde_spec (u : vu) n W : UInv u n W ->
    exists u', Quserde u = Some u' /\ UInv u' n W /\ umaxk u' = umaxk u /\ un u' = un u /\
               incl (sitems (ugad u')) (sitems (ugad u)).
  Proof.
    intros ((HR & Ek & Hsum) & Hgad & En & Hgn). unfold Quserde, union_serde.
    pose proof HR as (HM & Hmb & Hpos & Hk1 & Hmode).
    destruct (Z.eqb_spec (un u) 0) as [E0|E0].
    - exists (vu_empty Item Q 0 (umaxk u)). split; [reflexivity|].
      assert (HW : W == 0).
      { destruct Hmode as [(HR0 & Hh & Hn & Ht)|(_ & _ & _ & _ & _ & Hn)]; [|lia].
        assert (EH : vH (ugad u) = []) by (unfold hh in Hn; destruct (vH (ugad u)); [reflexivity|cbn in Hn; lia]).
        rewrite <- Hsum, EH, Ht. unfold VarOptProofs.sumw. cbn. lra. }
      split; [|split; [reflexivity|split; [unfold vu_empty; cbn [un]; now rewrite E0|intros y []]]].
      destruct (uempty_UInv (umaxk u) ltac:(rewrite <- Ek; exact Hk1)) as ((HR' & Ek' & Hs') & H2 & H3 & H4).
      split; [split; [exact HR'|split; [exact Ek'|rewrite Hs', HW; lra]]|].
      split; [exact H2|]. split; [rewrite <- En, E0; exact H3|exact H4].
    - destruct (provR_trivial _ HR) as (inp & HP & _).
      destruct (serde_spec Item ditem (ugad u) inp HR HP) as (g' & E & HR' & _ & EH & ER & Et & Eng & Ekg & Egg & _).
      unfold Qserde in E. rewrite E. eexists. split; [reflexivity|]. cbn [ugad umaxk un].
      split; [|split; [reflexivity|split; [reflexivity|unfold sitems; rewrite EH, ER; apply incl_refl]]]. unfold UInv, GInv. cbn [ugad umaxk un].
      split; [split; [exact HR'|split; [congruence|rewrite EH, Et; exact Hsum]]|].
      split; [congruence|]. split; [exact En|rewrite Eng; exact Hgn].
  Qed.

  (* ---------------- union histories: update(sketch), serialize/deserialize, reset in any order ---------------- *)
  Inductive uop := UUpdate (sk : vo) (A : list (Item * Q)) | URoundTrip | UReset.
  (* every sketch handed to the union is a sketch at rest with input A *)
  Definition valid_uops (ops : list uop) : Prop :=
    Forall (fun o => match o with UUpdate sk A => exists k, Inv k sk A | _ => True end) ops.

  Definition ustep (u : vu) (o : uop) (c : chs) : vu * chs * bool :=
    match o with
    | UUpdate sk _ => Qunion_update u sk c
    | URoundTrip => match Quserde u with Some u' => (u', c, true) | None => (u, c, false) end
    | UReset => (union_reset Item Q 0 u, c, true)
    end.
  Fixpoint urun (u : vu) (ops : list uop) (c : chs) : vu * chs * bool :=
    match ops with
    | [] => (u, c, true)
    | o :: t => let '(u', c', okb) := ustep u o c in if okb then urun u' t c' else (u', c', false)
    end.
  (* n and total input weight of the sketches given since the last reset *)
  Fixpoint ulog (acc : Z * Q) (ops : list uop) : Z * Q :=
    match ops with
    | [] => acc
    | UUpdate _ A :: t => ulog ((fst acc + Z.of_nat (length A))%Z, snd acc + wsum A) t
    | URoundTrip :: t => ulog acc t
    | UReset :: t => ulog (0%Z, 0) t
    end.

  Lemma UInv_Qeq (u : vu) n W W' : W == W' -> UInv u n W -> UInv u n W'.
  Proof. intros E ((HR & Ek & Hs) & H2). split; [split; [exact HR|split; [exact Ek|rewrite Hs; exact E]]|exact H2]. Qed.

  Lemma urun_spec : forall ops (u : vu) n W c, UInv u n W -> valid_uops ops ->
    exists u' c', urun u ops c = (u', c', true) /\
      UInv u' (fst (ulog (n, W) ops)) (snd (ulog (n, W) ops)) /\ umaxk u' = umaxk u.
  Proof.
    induction ops as [|o t IH]; intros u n W c HU Hv.
    - exists u, c. split; [reflexivity|]. split; [exact HU|reflexivity].
    - apply Forall_cons_iff in Hv. destruct Hv as [Ho Hv]. cbn [urun ulog]. destruct o as [sk A| |]; cbn [ustep fst snd].
      + destruct Ho as (k & HI).
        destruct (union_update_spec u n W sk k A c HU HI) as (u1 & c1 & E1 & HU1 & Ek1 & _). rewrite E1.
        destruct (IH u1 _ _ c1 HU1 Hv) as (u' & c' & E' & HU' & Ek'). exists u', c'.
        split; [exact E'|]. split; [exact HU'|congruence].
      + destruct (union_serde_spec u n W HU) as (u1 & E1 & HU1 & Ek1 & _ & _). rewrite E1.
        destruct (IH u1 _ _ c HU1 Hv) as (u' & c' & E' & HU' & Ek'). exists u', c'.
        split; [exact E'|]. split; [exact HU'|congruence].
      + assert (HU1 : UInv (union_reset Item Q 0 u) 0 0).
        { destruct HU as ((HR & Ek & _) & Hgad & _). destruct HR as (_ & _ & _ & Hk1 & _).
          unfold union_reset, reset. rewrite Hgad, Ek. apply uempty_UInv. now rewrite <- Ek. }
        destruct (IH _ _ _ c HU1 Hv) as (u' & c' & E' & HU' & Ek'). exists u', c'.
        split; [exact E'|]. split; [exact HU'|]. rewrite Ek'. reflexivity.
  Qed.

  (* every union history from the empty union: nothing throws; n and total weight of the sketches given since the last
     reset are conserved; whatever get_result returns has that n, that weight, k <= max_k, at most k samples *)
  Lemma union_history max_k ops c c2 : (1 <= max_k)%nat -> valid_uops ops ->
    let n := fst (ulog (0%Z, 0) ops) in let W := snd (ulog (0%Z, 0) ops) in
    exists u c1, urun (Quempty max_k) ops c = (u, c1, true) /\
      un u = n /\ umaxk u = max_k /\ sumw (vH (ugad u)) + vtot (ugad u) == W /\
      forall a4 res c3, Qresult_gen a4 u c2 = Some (res, c3) ->
        vn res = n /\ sumw (vH res) + vtot res == W /\
        (vk res <= max_k)%nat /\ (hh res + rr res <= vk res)%nat /\ vM res = [] /\ mm res = 0%nat.
  Proof.
    intros Hk Hv n W. destruct (urun_spec ops (Quempty max_k) 0 0 c (uempty_UInv max_k Hk) Hv) as (u & c1 & E & HU & Ek).
    fold n W in HU. exists u, c1. split; [exact E|].
    pose proof HU as ((HR & Ekk & Hs) & H2 & H3 & H4).
    split; [exact H3|]. split; [exact Ek|]. split; [exact Hs|].
    intros a4 res c3 Er.
    destruct (get_result_spec a4 u _ _ c2 res c3 HU Er) as (A1 & A2 & A3 & A4 & A5 & A6 & _).
    change (umaxk (Quempty max_k)) with max_k in Ek. rewrite Ek in A3.
    repeat (split; [assumption|]). assumption.
  Qed.

  (* the accepted updates of the sketches given since the last reset *)
  Fixpoint uinputs (acc : list (Item * Q)) (ops : list uop) : list (Item * Q) :=
    match ops with
    | [] => acc
    | UUpdate _ A :: t => uinputs (acc ++ A) t
    | URoundTrip :: t => uinputs acc t
    | UReset :: t => uinputs [] t
    end.

  Lemma inv_items k (S : vo) A : Inv k S A -> incl (sitems S) (map fst A).
  Proof. intros (_ & HP & _). now apply provR_items. Qed.

  Lemma urun_items : forall ops (u : vu) n W c acc, UInv u n W -> valid_uops ops ->
    incl (sitems (ugad u)) (map fst acc) ->
    incl (sitems (ugad (fst (fst (urun u ops c))))) (map fst (uinputs acc ops)).
  Proof.
    induction ops as [|o t IH]; intros u n W c acc HU Hv Hi; [exact Hi|].
    apply Forall_cons_iff in Hv. destruct Hv as [Ho Hv]. cbn [urun uinputs]. destruct o as [sk A| |]; cbn [ustep].
    - destruct Ho as (k & HI).
      destruct (union_update_spec u n W sk k A c HU HI) as (u1 & c1 & E1 & HU1 & _ & Hi1). rewrite E1.
      apply (IH u1 _ _ c1 (acc ++ A) HU1 Hv).
      intros y Hy. apply Hi1 in Hy. rewrite map_app. apply in_app_or in Hy. apply in_or_app.
      destruct Hy as [Hy|Hy]; [left; now apply Hi|right; now apply (inv_items k sk A HI)].
    - destruct (union_serde_spec u n W HU) as (u1 & E1 & HU1 & _ & _ & Hi1). rewrite E1.
      apply (IH u1 _ _ c acc HU1 Hv). eapply incl_tran; [exact Hi1|exact Hi].
    - assert (HU1 : UInv (union_reset Item Q 0 u) 0 0).
      { destruct HU as ((HR & Ek & _) & Hgad & _). destruct HR as (_ & _ & _ & Hk1 & _).
        unfold union_reset, reset. rewrite Hgad, Ek. apply uempty_UInv. now rewrite <- Ek. }
      apply (IH _ _ _ c [] HU1 Hv). intros y [].
  Qed.

  (* samples of a union result come from the inputs of the sketches given to the union (since the last reset) *)
  Lemma union_history_items max_k ops c c2 a4 res c3 : (1 <= max_k)%nat -> valid_uops ops ->
    Qresult_gen a4 (fst (fst (urun (Quempty max_k) ops c))) c2 = Some (res, c3) ->
    forall x, In x (sitems res) -> exists w, In (x, w) (uinputs [] ops).
  Proof.
    intros Hk Hv Er x Hx.
    destruct (urun_spec ops (Quempty max_k) 0 0 c (uempty_UInv max_k Hk) Hv) as (u & c1 & E & HU & _).
    rewrite E in Er. cbn [fst] in Er.
    destruct (get_result_spec a4 u _ _ c2 res c3 HU Er) as (_ & _ & _ & _ & _ & _ & _ & _ & Hi).
    pose proof (urun_items ops (Quempty max_k) 0 0 c [] (uempty_UInv max_k Hk) Hv ltac:(intros y [])) as Hg.
    rewrite E in Hg. cbn [fst] in Hg.
    apply Hi, Hg in Hx. apply in_map_iff in Hx. destruct Hx as ([x' w] & <- & Hin). now exists w.
  Qed.

  (* ---------------- resolve_tau: the outer tau is the largest tau of the estimation-mode sketches seen ---------------- *)
  Definition Qouter_tau := get_outer_tau Item Q 0 Qdiv inject_Z.
  Definition otau_ok (u : vu) : Prop := uotd u = 0%nat \/ (0 < uotn u /\ (1 <= uotd u)%nat).

  Lemma Qdiv_le_cross a b c d : 0 < b -> 0 < d -> (a / b <= c / d <-> a * d <= c * b).
  Proof.
    intros Hb Hd. split; intros H.
    - apply (Qmult_le_r _ _ (b * d)) in H; [|nra].
      assert (E1 : a / b * (b * d) == a * d) by (field; lra).
      assert (E2 : c / d * (b * d) == c * b) by (field; lra). lra.
    - apply (Qmult_le_r _ _ (b * d)); [nra|].
      assert (E1 : a / b * (b * d) == a * d) by (field; lra).
      assert (E2 : c / d * (b * d) == c * b) by (field; lra). lra.
  Qed.

  Lemma resolve_tau_spec (u : vu) (sk : vo) : otau_ok u -> Est sk ->
    let u' := Qresolve_tau u sk in
    otau_ok u' /\ (1 <= uotd u')%nat /\
    Qtau sk <= Qouter_tau u' /\ Qouter_tau u <= Qouter_tau u' /\
    (Qouter_tau u' == Qtau sk \/ Qouter_tau u' == Qouter_tau u).
  Proof.
    intros Hok (Hr & _ & Htot & _) u'. subst u'. unfold Qresolve_tau, resolve_tau.
    replace (0 <? rr sk)%nat with true by (symmetry; apply Nat.ltb_lt; lia).
    assert (Hqr : 0 < qn (rr sk)) by (apply qn_pos; lia).
    assert (Htau : 0 < Qtau sk).
    { unfold Qtau, get_tau, ofN. fold (qn (rr sk)). apply Qlt_shift_div_l; lra. }
    assert (Hset : forall u1 : vu, uotn u1 = vtot sk -> uotd u1 = rr sk ->
              otau_ok u1 /\ (1 <= uotd u1)%nat /\ Qouter_tau u1 == Qtau sk).
    { intros u1 E1 E2. split; [right; rewrite E1, E2; split; [exact Htot|lia]|]. split; [lia|].
      unfold Qouter_tau, get_outer_tau, Qtau, get_tau, ofN. rewrite E1, E2.
      destruct (Nat.eqb_spec (rr sk) 0); [lia|reflexivity]. }
    destruct (Nat.eqb_spec (uotd u) 0) as [Ed|Ed].
    - destruct (Hset (mkvu Item Q (un u) (vtot sk) (rr sk) (umaxk u) (ugad u)) eq_refl eq_refl) as (A1 & A2 & A3).
      split; [exact A1|]. split; [exact A2|]. split; [rewrite A3; lra|]. split; [|now left].
      rewrite A3. unfold Qouter_tau, get_outer_tau. rewrite Ed. cbn [Nat.eqb]. lra.
    - destruct Hok as [E0|(Hn & Hd)]; [congruence|].
      assert (Hqd : 0 < qn (uotd u)) by (apply qn_pos; lia).
      assert (Eo : Qouter_tau u == uotn u / qn (uotd u)).
      { unfold Qouter_tau, get_outer_tau, ofN. destruct (Nat.eqb_spec (uotd u) 0); [congruence|reflexivity]. }
      fold (Qouter_tau u). fold (Qtau sk).
      destruct (Qltb (Qouter_tau u) (Qtau sk)) eqn:Elt.
      + apply Qltb_true in Elt.
        destruct (Hset (mkvu Item Q (un u) (vtot sk) (rr sk) (umaxk u) (ugad u)) eq_refl eq_refl) as (A1 & A2 & A3).
        split; [exact A1|]. split; [exact A2|]. split; [rewrite A3; lra|]. split; [rewrite A3; lra|now left].
      + apply Qltb_false in Elt. destruct (Qeq_bool (Qtau sk) (Qouter_tau u)) eqn:Eeq.
        * apply Qeq_bool_iff in Eeq.
          set (u1 := mkvu Item Q (un u) (uotn u + vtot sk) (uotd u + rr sk) (umaxk u) (ugad u)).
          assert (E1 : Qouter_tau u1 == Qouter_tau u).
          { unfold Qouter_tau at 1. unfold get_outer_tau, ofN. subst u1. cbn [uotd uotn].
            destruct (Nat.eqb_spec (uotd u + rr sk) 0); [lia|].
            fold (qn (uotd u + rr sk)).
            assert (Eq : qn (uotd u + rr sk) == qn (uotd u) + qn (rr sk)).
            { unfold qn. rewrite Nat2Z.inj_add, inject_Z_plus. reflexivity. }
            rewrite Eo. rewrite Eo in Eeq. unfold Qtau, get_tau, ofN in Eeq. fold (qn (rr sk)) in Eeq.
            assert (Ecross : vtot sk * qn (uotd u) == uotn u * qn (rr sk)).
            { apply (Qmult_inj_r _ _ (qn (rr sk) * qn (uotd u))) in Eeq; [|nra].
              assert (F1 : vtot sk / qn (rr sk) * (qn (rr sk) * qn (uotd u)) == vtot sk * qn (uotd u)) by (field; lra).
              assert (F2 : uotn u / qn (uotd u) * (qn (rr sk) * qn (uotd u)) == uotn u * qn (rr sk)) by (field; lra).
              lra. }
            rewrite Eq. apply (Qmult_inj_r _ _ ((qn (uotd u) + qn (rr sk)) * qn (uotd u))); [nra|].
            assert (F1 : (uotn u + vtot sk) / (qn (uotd u) + qn (rr sk)) * ((qn (uotd u) + qn (rr sk)) * qn (uotd u))
                         == (uotn u + vtot sk) * qn (uotd u)) by (field; lra).
            assert (F2 : uotn u / qn (uotd u) * ((qn (uotd u) + qn (rr sk)) * qn (uotd u))
                         == uotn u * (qn (uotd u) + qn (rr sk))) by (field; lra).
            rewrite F1, F2. nra. }
          split; [right; subst u1; cbn [uotn uotd]; split; [lra|lia]|]. split; [subst u1; cbn [uotd]; lia|].
          split; [rewrite E1; lra|]. split; [rewrite E1; lra|now right].
        * split; [right; split; [exact Hn|exact Hd]|]. split; [exact Hd|]. split; [exact Elt|]. split; [lra|now right].
  Qed.

  Lemma resolve_tau_warm (u : vu) (sk : vo) : rr sk = 0%nat -> Qresolve_tau u sk = u.
  Proof. intros E. unfold Qresolve_tau, resolve_tau. now rewrite E. Qed.
End QU.
