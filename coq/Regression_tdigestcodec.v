(* Regression_tdigestcodec.v — the reference-format readers of tdigest AS FOUND (before fixes/11_tdigest_compat_stream_state.patch and
   fixes/11_tdigest_compat_casts.patch), kept as variant definitions with `_refuted` theorems (TDigestCodecDefs.v models the repaired
   readers).
   1. deserialize_compat(std::istream&) never tested the stream state: a read past the end of the stream left the destination
      indeterminate and the reader went on.  Modelled by a reader that pads the missing bytes with an arbitrary byte g.
   2. k and the centroid weights were converted with static_cast from double / float: undefined behaviour for values the integer
      type cannot represent.  Modelled by what x86-64 gcc does for static_cast<uint16_t>(double): cvttsd2si to int32 (the
      "integer indefinite" 0x80000000 when out of range or NaN), then truncation to 16 bits. *)
From Coq Require Import NArith List Bool Arith.
From DS Require Import Word TDigestCodecDefs.
Import ListNotations.
Local Open Scope N_scope.

(* ---- 1. stream reader without stream-state tests ---- *)
Definition take_pad (g : N) (n : nat) (l : list N) : list N * list N := (firstn n (l ++ repeat g n), skipn n l).
Definition rd_be_pad (g : N) (n : nat) (l : list N) : N * list N :=
  let '(a, r) := take_pad g n l in (le_bytes_to_N (rev a), r).

Fixpoint rd_compat_f_old (g : N) (n : nat) (l : list N) : option (list (N * N) * list N) :=
  match n with
  | O => Some ([], l)
  | S n' => let '(wf, l1) := rd_be_pad g 4 l in let '(mf, l2) := rd_be_pad g 4 l1 in
            do w <- f64_to_N two64 (f32_to_f64 wf);
            do (t, l3) <- rd_compat_f_old g n' l2; Some ((f32_to_f64 mf, w) :: t, l3)
  end.

(* COMPAT_FLOAT through the stream reader as found; [c] = the bytes after the three zero bytes *)
Definition dec_compat_float_old_stream (g : N) (c : list N) : option (tdc * list N) :=
  let '(t, l0) := rd_be_pad g 1 c in
  if negb (t =? 2) then None else
  let '(mn, l1) := rd_be_pad g 8 l0 in let '(mx, l2) := rd_be_pad g 8 l1 in let '(kf, l3) := rd_be_pad g 4 l2 in
  let '(unused, l4) := rd_be_pad g 4 l3 in let '(nc, l5) := rd_be_pad g 2 l4 in
  do (cs, l6) <- rd_compat_f_old g (N.to_nat nc) l5;
  do k <- f64_to_N two16 (f32_to_f64 kf);
  do s <- mk k false mn mx cs []; Some (s, l6).

(* the reference image of the correspondence runs: min 1.0, max 3.0, k 100, two centroids; 46 bytes *)
Definition ref_float_image : list N :=
  [0;0;0;2; 63;240;0;0;0;0;0;0; 64;8;0;0;0;0;0;0; 66;200;0;0; 7;7;7;7; 0;2; 63;128;0;0; 63;128;0;0; 64;0;0;0; 64;32;0;0].

Theorem compat_stream_prefix_accepted_refuted :
  exists (g : N) (n : nat) s r, (n < length ref_float_image)%nat /\
    dec (firstn n ref_float_image) = None /\                               (* the repaired readers reject the prefix *)
    dec ref_float_image <> None /\
    dec_compat_float_old_stream g (skipn 3 (firstn n ref_float_image)) = Some (s, r) /\
    length (c_cents s) = 2%nat.                                            (* the old one built a digest from bytes it never read *)
Proof.
  exists 0, 30%nat. eexists. eexists. split; [apply Nat.ltb_lt; reflexivity|]. split; [vm_compute; reflexivity|].
  split; [vm_compute; discriminate|]. split; [vm_compute; reflexivity|]. reflexivity.
Qed.

(* ---- 2. static_cast<uint16_t>(double) on x86-64 ---- *)
Definition cast_u16_x86 (b : N) : N :=
  let e := N.land (N.shiftr b 52) 2047 in
  let m := N.land b 4503599627370495 in
  let mag := if e <? 1023 then 0
             else let sig := m + 4503599627370496 in
                  if 1075 <=? e then N.shiftl sig (e - 1075) else N.shiftr sig (1075 - e) in
  let i32 := if (e =? 2047) || (2147483648 <=? mag) then 2147483648            (* integer indefinite *)
             else if N.testbit b 63 then (4294967296 - mag) mod 4294967296 else mag in
  N.land i32 65535.

Theorem compat_cast_refuted :
  exists kd, f64_to_N two16 kd = None /\       (* -5.0 is not a uint16: the repaired readers reject the image (C11_td_compat_bad_k) *)
             cast_u16_x86 kd = 65531 /\         (* as found: k = 65531, which passes the constructor's k >= 10 *)
             cast_u16_x86 4636737291354636288 = 100.   (* sanity: 100.0 -> 100 *)
Proof. exists 13840687554816434176. vm_compute. repeat split; reflexivity. Qed.

Print Assumptions compat_stream_prefix_accepted_refuted.
Print Assumptions compat_cast_refuted.
