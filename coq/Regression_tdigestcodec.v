(* Regression_tdigestcodec.v - statements are added below as the proofs land *)
From DS Require Import TDigestCodecDefs.
