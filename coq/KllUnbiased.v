(* KllUnbiased.v — C08 for the KLL sketch (model KllDefs.v): the rank estimator summed over ALL outcomes of the
   internal coin flips is 2^m times the true rank, and the number m of flips is a function of the history only.
   Part 1: the control flow (which level is compacted, how many coins are drawn) depends only on the SHAPE of a
           sketch (k, items_size_, n, level sizes), and every operation maps equal shapes to equal shapes under all
           coins  ->  the coin tree of every operation is uniform.
   Part 2: every compaction has zero mean (halve_pair)  ->  the sum of the estimator over the outcomes of an
           operation is 2^depth times the affine combination exact arithmetic predicts.
   Part 3: register files and whole scripts (KllUnbiasedRun.v). *)
From Coq Require Import ZArith List Bool Lia Permutation Sorted.
From DS Require Import RunnerLib SortedView KllDefs KllProofs KllSpace KllView.
Import ListNotations.
Local Open Scope Z_scope.

(* ===================== shapes ===================== *)
Definition lens (lv : list (list Z)) : list nat := map (@length Z) lv.
Definition shape (s : kll) : Z * Z * Z * list nat := (kk s, cap s, nn s, lens (levels s)).
Definition sh (a b : kll) : Prop := shape a = shape b.

Lemma sh_inv a b : sh a b -> kk a = kk b /\ cap a = cap b /\ nn a = nn b /\ lens (levels a) = lens (levels b).
Proof. unfold sh, shape. intro H. inversion H. auto. Qed.

Lemma sh_intro a b : kk a = kk b -> cap a = cap b -> nn a = nn b -> lens (levels a) = lens (levels b) -> sh a b.
Proof. unfold sh, shape. congruence. Qed.

Lemma sh_refl a : sh a a. Proof. reflexivity. Qed.

Lemma lens_length a b : lens a = lens b -> length a = length b.
Proof. intro H. apply (f_equal (@length _)) in H. unfold lens in H. now rewrite !map_length in H. Qed.

Lemma lens_cons_inv x a y b : lens (x :: a) = lens (y :: b) -> length x = length y /\ lens a = lens b.
Proof. unfold lens. simpl. intro H. inversion H. auto. Qed.

Lemma lens_cons x a y b : length x = length y -> lens a = lens b -> lens (x :: a) = lens (y :: b).
Proof. unfold lens. simpl. congruence. Qed.

Lemma lens_nil_inv a : lens a = lens [] -> a = [].
Proof. destruct a; [reflexivity|discriminate]. Qed.

Lemma len_length {A B} (a : list A) (b : list B) : length a = length b -> len a = len b.
Proof. unfold len. congruence. Qed.

Lemma retained_lens : forall a b, lens a = lens b -> retained a = retained b.
Proof.
  induction a as [|x a IH]; intros [|y b] H; try discriminate; [reflexivity|].
  apply lens_cons_inv in H as [H1 H2]. rewrite !retained_cons, (IH b H2), (len_length x y H1). reflexivity.
Qed.

Lemma lens_hd a b : lens a = lens b -> length (hd [] a) = length (hd [] b).
Proof. destruct a, b; intro H; try discriminate; [reflexivity|]. now apply lens_cons_inv in H. Qed.

Lemma lens_tl a b : lens a = lens b -> lens (tl a) = lens (tl b).
Proof. destruct a, b; intro H; try discriminate; [reflexivity|]. now apply lens_cons_inv in H. Qed.

Lemma find_level_lens k nl : forall a b h, lens a = lens b -> find_level k nl h a = find_level k nl h b.
Proof.
  induction a as [|x a IH]; intros [|y b] h H; try discriminate; [reflexivity|].
  apply lens_cons_inv in H as [H1 H2]. simpl. rewrite (len_length x y H1), (IH b (S h) H2). reflexivity.
Qed.

(* the sizes after a compaction depend on the sizes before, not on the coin, the contents or the sort flag *)
Lemma compact_level_lens so1 so2 raw1 raw2 ab1 ab2 c1 c2 : length raw1 = length raw2 -> length ab1 = length ab2 ->
  length (fst (compact_level so1 raw1 ab1 c1)) = length (fst (compact_level so2 raw2 ab2 c2)) /\
  length (snd (compact_level so1 raw1 ab1 c1)) = length (snd (compact_level so2 raw2 ab2 c2)).
Proof.
  intros H1 H2. pose proof (compact_lengths so1 raw1 ab1 c1) as A. pose proof (compact_lengths so2 raw2 ab2 c2) as B.
  destruct (compact_level so1 raw1 ab1 c1) as [lo1 up1]. destruct (compact_level so2 raw2 ab2 c2) as [lo2 up2].
  cbn [fst snd]. destruct A as [A1 A2]. destruct B as [B1 B2]. rewrite A1, A2, B1, B2, H1, H2. auto.
Qed.

Lemma compact_at_lens so1 so2 c1 c2 : forall h a b, lens a = lens b ->
  lens (compact_at h so1 c1 a) = lens (compact_at h so2 c2 b).
Proof.
  induction h as [|h IH]; intros [|x a] [|y b] H; try discriminate; rewrite ?compact_at_nil; try reflexivity.
  - apply lens_cons_inv in H as [H1 H2]. rewrite !compact_at_0.
    destruct (compact_level_lens so1 so2 x y (hd [] a) (hd [] b) c1 c2 H1 (lens_hd _ _ H2)) as [A B].
    apply lens_cons; [exact A|]. apply lens_cons; [exact B|]. now apply lens_tl.
  - apply lens_cons_inv in H as [H1 H2]. rewrite !compact_at_S. apply lens_cons; auto.
Qed.

(* ===================== update ===================== *)
Lemma compress_upd_sim s1 s2 : sh s1 s2 -> msim sh (compress_upd s1) (compress_upd s2).
Proof.
  intro H. apply sh_inv in H as (Ek & Ec & En & El). unfold compress_upd.
  rewrite Ek, (lens_length _ _ El), (find_level_lens _ _ _ _ 0%nat El), Ec.
  destruct (find_level (kk s2) (length (levels s2)) 0 (levels s2)) as [h|].
  - constructor. intros c c'. constructor. apply sh_intro; unfold set_levels; cbn [kk cap nn levels]; auto.
    now apply compact_at_lens.
  - constructor. now apply sh_intro.
Qed.

Lemma push0_sh s1 s2 x y : sh s1 s2 -> sh (push0 s1 x) (push0 s2 y).
Proof.
  intro H. apply sh_inv in H as (Ek & Ec & En & El). apply sh_intro; unfold push0; cbn [kk cap nn levels]; auto; try lia.
  destruct (levels s1) as [|a r], (levels s2) as [|b r']; try discriminate; [reflexivity|].
  apply lens_cons_inv in El as [H1 H2]. apply lens_cons; simpl; auto.
Qed.

Lemma free_sh s1 s2 : sh s1 s2 -> free s1 = free s2.
Proof. intro H. apply sh_inv in H as (Ek & Ec & En & El). unfold free, num_retained. now rewrite Ec, (retained_lens _ _ El). Qed.

Lemma internal_update_sim s1 s2 x y : sh s1 s2 -> msim sh (internal_update s1 x) (internal_update s2 y).
Proof.
  intro H. unfold internal_update. rewrite (free_sh _ _ H).
  eapply msim_bind with (R := sh).
  - destruct (free s2 =? 0); [now apply compress_upd_sim|now constructor].
  - intros a b Hab. constructor. now apply push0_sh.
Qed.

Lemma upd_minmax_sh s lo hi : sh (upd_minmax s lo hi) s.
Proof. destruct (levels_upd_minmax s lo hi) as (E1 & E2 & E3 & E4 & E5 & E6). apply sh_intro; congruence. Qed.

Lemma sh_trans a b c : sh a b -> sh b c -> sh a c.
Proof. unfold sh. congruence. Qed.
Lemma sh_sym a b : sh a b -> sh b a.
Proof. unfold sh. congruence. Qed.

Lemma update_sim s1 s2 x y : sh s1 s2 -> msim sh (update s1 x) (update s2 y).
Proof.
  intro H. unfold update. apply internal_update_sim.
  eapply sh_trans; [apply upd_minmax_sh|]. eapply sh_trans; [exact H|]. apply sh_sym, upd_minmax_sh.
Qed.

(* ===================== merge ===================== *)
Lemma add_l0_sim : forall i1 i2 s1 s2, length i1 = length i2 -> sh s1 s2 -> msim sh (add_l0 s1 i1) (add_l0 s2 i2).
Proof.
  induction i1 as [|x r IH]; intros [|y r'] s1 s2 L H; try discriminate; simpl.
  - now constructor.
  - eapply msim_bind; [apply internal_update_sim; exact H|]. intros a b Hab. apply IH; auto.
Qed.

Lemma zip_levels_lens : forall a1 b1 a2 b2, lens a1 = lens a2 -> lens b1 = lens b2 ->
  lens (zip_levels a1 b1) = lens (zip_levels a2 b2).
Proof.
  induction a1 as [|x a1 IH]; intros b1 [|y a2] b2 Ha Hb; try discriminate.
  - destruct b1, b2; auto.
  - destruct b1 as [|u b1], b2 as [|v b2]; try discriminate; cbn [zip_levels]; auto.
    apply lens_cons_inv in Ha as [H1 H2]. apply lens_cons_inv in Hb as [H3 H4].
    apply lens_cons; [rewrite !merge_sorted_length; congruence|]. now apply IH.
Qed.

Definition gsim (r1 r2 : list (list Z) * Z) : Prop := lens (fst r1) = lens (fst r2) /\ snd r1 = snd r2.

Lemma gc_sim k s01 s02 : forall fuel cur nl cn tgt i1 i2, lens i1 = lens i2 ->
  msim gsim (gc fuel k s01 cur nl cn tgt i1) (gc fuel k s02 cur nl cn tgt i2).
Proof.
  induction fuel as [|f IH]; intros cur nl cn tgt i1 i2 H; cbn [gc].
  { constructor. split; auto. }
  destruct i1 as [|raw1 rest1], i2 as [|raw2 rest2]; try discriminate.
  { constructor. split; auto. }
  apply lens_cons_inv in H as [H1 H2]. rewrite (len_length raw1 raw2 H1).
  destruct ((cn <? tgt) || (len raw2 <? level_capacity k nl cur)).
  - destruct (S cur =? nl)%nat.
    + constructor. split; cbn [fst snd]; auto. now apply lens_cons.
    + eapply msim_bind; [apply IH; exact H2|]. intros a b [A B]. constructor. unfold cons_fst, gsim. cbn [fst snd].
      split; auto. now apply lens_cons.
  - constructor. intros c c'.
    destruct (compact_level_lens ((cur =? 0)%nat && negb s01) ((cur =? 0)%nat && negb s02) raw1 raw2
                (hd [] rest1) (hd [] rest2) c c' H1 (lens_hd _ _ H2)) as [A B].
    eapply msim_bind.
    + apply IH. apply lens_cons; [exact B|now apply lens_tl].
    + intros a b [P Q]. constructor. unfold cons_fst, gsim. cbn [fst snd]. split; auto. now apply lens_cons.
Qed.

Lemma merge_higher_sim s1 s2 o1 o2 : sh s1 s2 -> sh o1 o2 -> msim sh (merge_higher s1 o1) (merge_higher s2 o2).
Proof.
  intros H Ho. apply sh_inv in H as (Ek & Ec & En & El). apply sh_inv in Ho as (Eko & Eco & Eno & Elo).
  unfold merge_higher.
  assert (W : lens (hd [] (levels s1) :: zip_levels (tl (levels s1)) (tl (levels o1))) =
              lens (hd [] (levels s2) :: zip_levels (tl (levels s2)) (tl (levels o2)))).
  { apply lens_cons; [now apply lens_hd|]. apply zip_levels_lens; now apply lens_tl. }
  rewrite (lens_length _ _ El), (lens_length _ _ Elo), (lens_length _ _ W), (retained_lens _ _ W), Ek.
  eapply msim_bind; [apply gc_sim; exact W|].
  intros a b [P Q]. constructor. apply sh_intro; unfold set_levels; cbn [kk cap nn levels]; auto.
Qed.

Lemma merge_sim s1 s2 o1 o2 : sh s1 s2 -> sh o1 o2 -> msim sh (merge s1 o1) (merge s2 o2).
Proof.
  intros H Ho. pose proof H as H'. pose proof Ho as Ho'.
  apply sh_inv in H' as (Ek & Ec & En & El). apply sh_inv in Ho' as (Eko & Eco & Eno & Elo).
  unfold merge. rewrite Eno. destruct (nn o2 =? 0); [now constructor|].
  eapply msim_bind with (R := sh).
  - apply add_l0_sim; [now apply lens_hd|].
    eapply sh_trans; [apply upd_minmax_sh|]. eapply sh_trans; [exact H|]. apply sh_sym, upd_minmax_sh.
  - intros a b Hab. rewrite (lens_length _ _ Elo).
    eapply msim_bind with (R := sh).
    + destruct (2 <=? length (levels o2))%nat; [now apply merge_higher_sim|now constructor].
    + intros a' b' Hab'. constructor. apply sh_inv in Hab' as (A1 & A2 & A3 & A4).
      apply sh_intro; cbn [kk cap nn levels]; auto. congruence.
Qed.

(* every operation on a sketch is a uniform tree: the number of coins it draws does not depend on their outcomes,
   nor on the items (only on the shapes) *)
Lemma update_uniform s x : uniform (update s x).
Proof. apply (msim_uniform_l sh _ (update s x)), update_sim, sh_refl. Qed.
Lemma merge_uniform s o : uniform (merge s o).
Proof. apply (msim_uniform_l sh _ (merge s o)), merge_sim; apply sh_refl. Qed.

(* ===================== sums over the outcomes ===================== *)
Definition b2z (b : bool) : Z := if b then 1 else 0.
Definition Rp (p : Z -> bool) (s : kll) : Z := Rlv p 1 (levels s).

Lemma compress_upd_sum p s : msum (Rp p) (compress_upd s) = pow2 (dep (compress_upd s)) * Rp p s.
Proof.
  unfold compress_upd. destruct (find_level (kk s) (length (levels s)) 0 (levels s)) as [h|] eqn:E.
  - apply find_level_some in E as [Hh _]. cbn [msum dep]. unfold Rp, set_levels. cbn [levels].
    rewrite compact_at_pair by (simpl in Hh; lia). rewrite pow2_S, pow2_0. lia.
  - cbn [msum dep]. rewrite pow2_0. lia.
Qed.

Lemma Rp_push0 p s x : Rp p (push0 s x) = Rp p s + b2z (p x).
Proof.
  unfold Rp, push0. cbn [levels]. destruct (levels s) as [|l0 r]; cbn [Rlv]; rewrite ?cnt_cons, ?cnt_nil; unfold b2z; destruct (p x); lia.
Qed.

Lemma compress_upd_uniform s : uniform (compress_upd s).
Proof. apply (msim_uniform_l sh _ (compress_upd s)), compress_upd_sim, sh_refl. Qed.

Lemma internal_update_sum p s x :
  msum (Rp p) (internal_update s x) = pow2 (dep (internal_update s x)) * (Rp p s + b2z (p x)).
Proof.
  unfold internal_update. set (m0 := if free s =? 0 then compress_upd s else Ret s).
  assert (U : uniform m0) by (unfold m0; destruct (free s =? 0); [apply compress_upd_uniform|exact I]).
  assert (S0 : msum (Rp p) m0 = pow2 (dep m0) * Rp p s).
  { unfold m0. destruct (free s =? 0); [apply compress_upd_sum|cbn [msum dep]; rewrite pow2_0; lia]. }
  rewrite msum_bind, dep_bind. cbn [dep msum]. rewrite Nat.add_0_r.
  rewrite (msum_ext_leaf _ (fun a => Rp p a + b2z (p x))) by (intros; apply Rp_push0).
  rewrite msum_add_const, S0 by assumption. lia.
Qed.

Lemma Rp_upd_minmax p s lo hi : Rp p (upd_minmax s lo hi) = Rp p s.
Proof. unfold Rp. destruct (levels_upd_minmax s lo hi) as (E1 & _). now rewrite E1. Qed.

Lemma update_sum p s x : msum (Rp p) (update s x) = pow2 (dep (update s x)) * (Rp p s + b2z (p x)).
Proof. unfold update. rewrite internal_update_sum, Rp_upd_minmax. reflexivity. Qed.

Lemma add_l0_sum p : forall items s,
  msum (Rp p) (add_l0 s items) = pow2 (dep (add_l0 s items)) * (Rp p s + cnt p items).
Proof.
  induction items as [|x r IH]; intro s; cbn [add_l0].
  - cbn [msum dep]. rewrite cnt_nil, pow2_0. lia.
  - pose proof (internal_update_sim s s x x (sh_refl s)) as SIM.
    destruct (msum_bind_scaled (Rp p) (fun s' => add_l0 s' r) (fun s' => Rp p s' + cnt p r) (internal_update s x)
                (dep (add_l0 (first (internal_update s x)) r))) as [D S].
    { intros a L. split.
      - apply (msim_dep sh). apply add_l0_sim; [reflexivity|]. eapply msim_leaf; [exact SIM|exact L|apply first_leaf].
      - rewrite IH. f_equal. f_equal. apply (msim_dep sh). apply add_l0_sim; [reflexivity|].
        eapply msim_leaf; [exact SIM|exact L|apply first_leaf]. }
    rewrite S, D, msum_add_const, internal_update_sum by (eapply msim_uniform_l; exact SIM).
    rewrite pow2_add, cnt_cons. unfold b2z. destruct (p x); lia.
Qed.

(* general_compress: the estimator of the levels it returns, summed over its coins *)
Lemma gc_uniform k s0 fuel cur nl cn tgt ins : uniform (gc fuel k s0 cur nl cn tgt ins).
Proof. apply (msim_uniform_l gsim _ (gc fuel k s0 cur nl cn tgt ins)), gc_sim. reflexivity. Qed.

Lemma Rlv_hd_tl p w rest : Rlv p w rest = w * cnt p (hd [] rest) + Rlv p (2 * w) (tl rest).
Proof. destruct rest; cbn [Rlv hd tl]; rewrite ?cnt_nil; lia. Qed.

Lemma gc_sum p k s0 : forall fuel cur nl cn tgt ins w,
  msum (fun r => Rlv p w (fst r)) (gc fuel k s0 cur nl cn tgt ins) =
  pow2 (dep (gc fuel k s0 cur nl cn tgt ins)) * Rlv p w ins.
Proof.
  induction fuel as [|f IH]; intros cur nl cn tgt ins w; cbn [gc].
  { cbn [msum dep fst]. rewrite pow2_0. lia. }
  destruct ins as [|raw rest].
  { cbn [msum dep fst]. rewrite pow2_0. lia. }
  destruct ((cn <? tgt) || (len raw <? level_capacity k nl cur)).
  - destruct (S cur =? nl)%nat.
    + cbn [msum dep fst]. rewrite pow2_0. lia.
    + rewrite msum_bind, dep_bind. cbn [msum dep]. rewrite Nat.add_0_r. unfold cons_fst. cbn [fst Rlv].
      rewrite msum_plus, msum_const, IH by apply gc_uniform. ring.
  - cbn [msum dep]. rewrite !msum_bind, dep_bind. cbn [msum dep]. rewrite Nat.add_0_r. unfold cons_fst. cbn [fst Rlv].
    set (so := ((cur =? 0)%nat && negb s0)).
    pose proof (halve_pair p so raw (hd [] rest)) as HP.
    destruct (compact_level_lens so so raw raw (hd [] rest) (hd [] rest) true false eq_refl eq_refl) as [_ LB].
    destruct (compact_level so raw (hd [] rest) false) as [lo0 up0].
    destruct (compact_level so raw (hd [] rest) true) as [lo1 up1]. cbn [fst snd] in *.
    set (nl' := if (S cur =? nl)%nat then S nl else nl).
    set (tgt' := if (S cur =? nl)%nat then tgt + level_capacity k (S nl) 0 else tgt).
    assert (D : dep (gc f k s0 (S cur) nl' (cn - len raw / 2) tgt' (up1 :: tl rest)) =
                dep (gc f k s0 (S cur) nl' (cn - len raw / 2) tgt' (up0 :: tl rest))).
    { apply (msim_dep gsim), gc_sim. apply lens_cons; auto. }
    rewrite !msum_plus, !msum_const, !IH, D by apply gc_uniform. cbn [Rlv].
    rewrite (Rlv_hd_tl p (2 * w) rest), pow2_S.
    set (P := pow2 (dep (gc f k s0 (S cur) nl' (cn - len raw / 2) tgt' (up0 :: tl rest)))).
    set (T := Rlv p (2 * (2 * w)) (tl rest)).
    assert (X : P * w * ((cnt p lo0 + 2 * cnt p up0) + (cnt p lo1 + 2 * cnt p up1)) =
                P * w * (2 * (cnt p raw + 2 * cnt p (hd [] rest)))) by (now rewrite HP).
    ring_simplify. ring_simplify in X. lia.
Qed.

(* ---------- merge ---------- *)
Lemma merge_higher_sum p s o :
  msum (Rp p) (merge_higher s o) = pow2 (dep (merge_higher s o)) * (Rp p s + Rlv p 2 (tl (levels o))).
Proof.
  unfold merge_higher. rewrite msum_bind, dep_bind. cbn [msum dep]. rewrite Nat.add_0_r.
  unfold Rp, set_levels. cbn [levels fst]. rewrite gc_sum. f_equal.
  cbn [Rlv]. rewrite zip_levels_Rlv, (Rlv_hd_tl p 1 (levels s)). change (2 * 1) with 2. lia.
Qed.

Definition merge_tail (o : kll) (fn : Z) (s2 : kll) : M kll :=
  bind (if (2 <=? length (levels o))%nat then merge_higher s2 o else Ret s2) (fun s3 =>
  Ret (mkkll (kk s3) (if (2 <=? length (levels o))%nat then Z.min (min_k s3) (min_k o) else min_k s3)
             fn (cap s3) (levels s3) (l0s s3) (mn s3) (mx s3))).

Lemma merge_unfold s o : merge s o =
  if nn o =? 0 then Ret s else
  bind (add_l0 (upd_minmax s (mn o) (mx o)) (hd [] (levels o))) (merge_tail o (nn s + nn o)).
Proof. reflexivity. Qed.

Lemma merge_tail_sim o fn a b : sh a b -> msim sh (merge_tail o fn a) (merge_tail o fn b).
Proof.
  intro H. unfold merge_tail. eapply msim_bind with (R := sh).
  - destruct (2 <=? length (levels o))%nat; [apply merge_higher_sim; [exact H|apply sh_refl]|now constructor].
  - intros a' b' Hab'. constructor. apply sh_inv in Hab' as (A1 & A2 & A3 & A4).
    apply sh_intro; cbn [kk cap nn levels]; auto.
Qed.

Lemma merge_tail_sum p o fn s2 :
  msum (Rp p) (merge_tail o fn s2) = pow2 (dep (merge_tail o fn s2)) * (Rp p s2 + Rlv p 2 (tl (levels o))).
Proof.
  unfold merge_tail. rewrite msum_bind, dep_bind. cbn [msum dep]. rewrite Nat.add_0_r.
  change (fun a : kll => Rp p (mkkll (kk a) (if (2 <=? length (levels o))%nat then Z.min (min_k a) (min_k o) else min_k a)
                                 fn (cap a) (levels a) (l0s a) (mn a) (mx a))) with (Rp p).
  destruct (levels o) as [|o0 [|o1 ro]] eqn:E; cbn [length Nat.leb tl].
  - cbn [msum dep Rlv]. rewrite pow2_0. lia.
  - cbn [msum dep Rlv]. rewrite pow2_0. lia.
  - rewrite merge_higher_sum, E. reflexivity.
Qed.

Lemma Rlv_bounds p : forall lv w, 0 <= w -> 0 <= Rlv p w lv <= wsum w lv.
Proof.
  unfold wsum. induction lv as [|l r IH]; intros w Hw; cbn [Rlv]; [lia|].
  specialize (IH (2 * w) ltac:(lia)). rewrite cnt_true.
  pose proof (cnt_nonneg p l). pose proof (cnt_le_len p l). nia.
Qed.

(* merging o into s: the estimators add up (the weight invariant of o is needed when o is empty: n = 0 means no item) *)
Lemma merge_sum p s o : wsum 1 (levels o) = nn o ->
  msum (Rp p) (merge s o) = pow2 (dep (merge s o)) * (Rp p s + Rp p o).
Proof.
  intro W. rewrite merge_unfold. destruct (Z.eqb_spec (nn o) 0) as [Z0|Z0].
  - cbn [msum dep]. rewrite pow2_0. pose proof (Rlv_bounds p (levels o) 1 ltac:(lia)). unfold Rp. lia.
  - set (s1 := upd_minmax s (mn o) (mx o)). set (items := hd [] (levels o)). set (fn := nn s + nn o).
    pose proof (add_l0_sim items items s1 s1 eq_refl (sh_refl s1)) as SIM.
    destruct (msum_bind_scaled (Rp p) (merge_tail o fn) (fun s2 => Rp p s2 + Rlv p 2 (tl (levels o))) (add_l0 s1 items)
                (dep (merge_tail o fn (first (add_l0 s1 items))))) as [D S].
    { intros a L.
      assert (E : dep (merge_tail o fn a) = dep (merge_tail o fn (first (add_l0 s1 items)))).
      { apply (msim_dep sh), merge_tail_sim. eapply msim_leaf; [exact SIM|exact L|apply first_leaf]. }
      split; [exact E|]. rewrite merge_tail_sum, E. reflexivity. }
    rewrite S, D, msum_add_const, add_l0_sum by (eapply msim_uniform_l; exact SIM).
    rewrite pow2_add. assert (E1 : Rp p s1 = Rp p s) by apply Rp_upd_minmax. rewrite E1.
    assert (E2 : Rp p o = cnt p items + Rlv p 2 (tl (levels o))).
    { unfold Rp. rewrite (Rlv_hd_tl p 1 (levels o)). change (2 * 1) with 2. fold items. lia. }
    rewrite E2. ring.
Qed.
