(* ThetaCodecProofs2.v — the compact Theta codec: well-formed sketches, version-3 image layout, round trips,
   sizes (continues ThetaCodecProofs.v). *)
From Coq Require Import NArith ZArith List Bool Arith Lia.
From DS Require Import Word RunnerLib BitPackLang BitPackProofs BitPackSpec ThetaCodecDefs ThetaCodecProofs.
Import ListNotations.
Local Open Scope N_scope.


(* ---------- little-endian words ---------- *)
Lemma N_to_le_bytes_length k : forall x, length (N_to_le_bytes k x) = k.
Proof. induction k as [|k IH]; intros x; cbn [N_to_le_bytes length]; [reflexivity|now rewrite IH]. Qed.

Lemma w8_mod x : w8 x = x mod 256.
Proof. unfold w8. change 255 with (N.ones 8). now rewrite N.land_ones. Qed.

Lemma w8_w8 x : w8 (w8 x) = w8 x.
Proof. unfold w8. rewrite <- N.land_assoc. reflexivity. Qed.

Lemma lor_low_high x : N.lor (w8 x) (N.shiftl (N.shiftr x 8) 8) = x.
Proof.
  unfold w8. change 255 with (N.ones 8). apply N.bits_inj. intros n.
  rewrite N.lor_spec, N.land_spec.
  destruct (N.lt_ge_cases n 8) as [H|H].
  - rewrite N.shiftl_spec_low by assumption. rewrite N.ones_spec_low by assumption.
    now rewrite andb_true_r, orb_false_r.
  - rewrite N.shiftl_spec_high' by assumption. rewrite N.shiftr_spec'.
    rewrite N.ones_spec_high by assumption. rewrite andb_false_r. cbn [orb].
    f_equal. lia.
Qed.

Lemma le_bytes_roundtrip k : forall x, x < 2 ^ (8 * N.of_nat k) -> le_bytes_to_N (N_to_le_bytes k x) = x.
Proof.
  induction k as [|k IH]; intros x Hx.
  - cbn in Hx. cbn [N_to_le_bytes le_bytes_to_N]. lia.
  - cbn [N_to_le_bytes le_bytes_to_N]. rewrite w8_w8. rewrite IH.
    + apply lor_low_high.
    + rewrite N.shiftr_div_pow2. apply N.div_lt_upper_bound; [discriminate|].
      rewrite <- N.pow_add_r. replace (8 + 8 * N.of_nat k) with (8 * N.of_nat (S k)) by lia. exact Hx.
Qed.

Lemma u16_rt x : x < 65536 -> le_bytes_to_N (u16 x) = x.
Proof. intros. apply le_bytes_roundtrip. exact H. Qed.
Lemma u32_rt x : x < two32 -> le_bytes_to_N (u32 x) = x.
Proof. intros. apply le_bytes_roundtrip. exact H. Qed.
Lemma u64_rt x : x < two64 -> le_bytes_to_N (u64 x) = x.
Proof. intros. apply le_bytes_roundtrip. exact H. Qed.

(* ---------- rd ---------- *)
Lemma rd_app n off (a b c : list N) : length a = off -> length b = n ->
  rd n off (a ++ b ++ c) = Some (le_bytes_to_N b).
Proof.
  intros Ha Hb. unfold rd. rewrite !app_length.
  destruct (Nat.leb_spec (off + n) (length a + (length b + length c))) as [_|H]; [|lia].
  rewrite skipn_app_exact by assumption. now rewrite firstn_app_exact by assumption.
Qed.

Lemma rd_short n off (l : list N) : (length l < off + n)%nat -> rd n off l = None.
Proof. intros H. unfold rd. destruct (Nat.leb_spec (off + n) (length l)); [lia|reflexivity]. Qed.

Lemma rd_some_len n off l v : rd n off l = Some v -> (off + n <= length l)%nat.
Proof. unfold rd. destruct (Nat.leb_spec (off + n) (length l)); [auto|discriminate]. Qed.

Lemma rd_firstn n off m l : (off + n <= m)%nat -> (m <= length l)%nat -> rd n off (firstn m l) = rd n off l.
Proof.
  intros H1 H2. unfold rd. rewrite firstn_length, Nat.min_l by assumption.
  destruct (Nat.leb_spec (off + n) m); [|lia].
  destruct (Nat.leb_spec (off + n) (length l)); [|lia].
  f_equal. f_equal. rewrite <- (firstn_skipn m l) at 2.
  rewrite skipn_app. rewrite firstn_app.
  replace (n - length (skipn off (firstn m l)))%nat with 0%nat.
  2:{ rewrite skipn_length, firstn_length, Nat.min_l by assumption. lia. }
  cbn [firstn]. now rewrite app_nil_r.
Qed.

(* ---------- rd_entries ---------- *)
Lemma rd_entries_flat ents : Forall (fun e => e < two64) ents -> forall rest,
  rd_entries (length ents) (flat_map u64 ents ++ rest) = Some ents.
Proof.
  induction 1 as [|e r He Hr IH]; intros rest; [reflexivity|].
  cbn [length flat_map rd_entries]. rewrite <- app_assoc.
  rewrite (rd_app 8 0 [] (u64 e) _ eq_refl (N_to_le_bytes_length _ _) : rd 8 0 (u64 e ++ _) = _).
  rewrite u64_rt by assumption.
  rewrite skipn_app_exact by apply N_to_le_bytes_length. now rewrite IH.
Qed.

Lemma rd_entries_some n : forall l ents, rd_entries n l = Some ents -> length ents = n /\ (8 * n <= length l)%nat.
Proof.
  induction n as [|n IH]; intros l ents H; cbn [rd_entries] in H.
  - injection H as <-. split; [reflexivity|lia].
  - destruct (rd 8 0 l) eqn:E1; [|discriminate]. destruct (rd_entries n (skipn 8 l)) eqn:E2; [|discriminate].
    injection H as <-. apply IH in E2. apply rd_some_len in E1. rewrite skipn_length in E2. cbn [length]. lia.
Qed.

Lemma rd_entries_short n l : (length l < 8 * n)%nat -> rd_entries n l = None.
Proof.
  intros H. destruct (rd_entries n l) eqn:E; [|reflexivity]. apply rd_entries_some in E. lia.
Qed.

Lemma flat_u64_length ents : length (flat_map u64 ents) = (8 * length ents)%nat.
Proof. induction ents as [|e r IH]; [reflexivity|]. cbn [flat_map]. rewrite app_length, IH. unfold u64. rewrite N_to_le_bytes_length. cbn [length]. lia. Qed.


Definition wf (s : csk) : Prop :=
  k_seed_hash s < 65536 /\
  k_theta s <= MAX_THETA /\
  Forall (fun e => e < two64) (k_entries s) /\
  nent s < two32 /\
  (k_empty s = true -> k_entries s = [] /\ k_theta s = MAX_THETA) /\
  ((length (k_entries s) <= 1)%nat -> k_ordered s = true).

Lemma rd_at n off v (a b c l : list N) :
  l = a ++ b ++ c -> length a = off -> length b = n -> le_bytes_to_N b = v -> rd n off l = Some v.
Proof. intros -> Ha Hb <-. now apply rd_app. Qed.

Lemma le1 x : x < 256 -> le_bytes_to_N [x] = x.
Proof.
  intros H. cbn [le_bytes_to_N]. rewrite N.shiftl_0_l, N.lor_0_r, w8_mod. now apply N.mod_small.
Qed.

Lemma pre_longs_cases s : pre_longs_v3 s = 1 \/ pre_longs_v3 s = 2 \/ pre_longs_v3 s = 3.
Proof. unfold pre_longs_v3. destruct (est_mode s), (k_empty s || (nent s =? 1)); auto. Qed.

Lemma pre_longs_lt s : pre_longs_v3 s < 256.
Proof. destruct (pre_longs_cases s) as [-> | [-> | ->]]; reflexivity. Qed.

Lemma flags_v3_lt s : flags_v3 s < 256.
Proof. unfold flags_v3. destruct (k_empty s), (k_ordered s); reflexivity. Qed.

(* the first eight bytes of a version-3 image *)
Lemma v3_header s rest : k_seed_hash s < 65536 ->
  let img := enc_v3 s ++ rest in
  rd 1 0 img = Some (pre_longs_v3 s) /\ rd 1 1 img = Some 3 /\ rd 1 2 img = Some 3 /\
  rd 1 5 img = Some (flags_v3 s) /\ rd 2 6 img = Some (k_seed_hash s) /\ (8 <= length img)%nat.
Proof.
  intros Hsh img. subst img. unfold enc_v3.
  set (tl := (if 1 <? pre_longs_v3 s then _ else _) ++ _).
  cbn [app]. rewrite <- app_assoc.
  refine (conj _ (conj _ (conj _ (conj _ (conj _ _))))).
  - eapply (rd_at 1 0 _ [] [_]); try reflexivity. apply le1, pre_longs_lt.
  - eapply (rd_at 1 1 _ [_] [_]); reflexivity.
  - eapply (rd_at 1 2 _ [_;_] [_]); reflexivity.
  - eapply (rd_at 1 5 _ [_;_;_;_;_] [_]); try reflexivity. apply le1, flags_v3_lt.
  - eapply (rd_at 2 6 _ [_;_;_;_;_;_] (u16 _)); try reflexivity. now apply u16_rt.
  - cbn [length]. rewrite app_length. unfold u16. rewrite N_to_le_bytes_length. lia.
Qed.

(* ---------- the version-3 branch of the readers, given the header fields ---------- *)
Definition dec_bytes_v3_body (expected : N) (bytes : list N) (pre fl sh : N) : option csk :=
    if N.testbit fl 2 then Some (mk true true sh MAX_THETA []) else
    if negb (sh =? expected) then None else
    let has_theta := 2 <? pre in
    do theta <- (if has_theta then rd 8 16 bytes else Some MAX_THETA);
    if pre =? 1 then
      do e <- rd 8 8 bytes; Some (mk false true sh theta [e])
    else
      let start := if has_theta then 24%nat else 16%nat in
      if (length bytes <? start)%nat then None else
      do n <- rd 4 8 bytes;
      if too_many n 8 (length bytes) then None else
      do ents <- rd_entries (N.to_nat n) (skipn start bytes);
      Some (mk false (N.testbit fl 4) sh theta ents).

Lemma dec_bytes_v3_eq e bytes pre fl sh :
  rd 1 0 bytes = Some pre -> rd 1 1 bytes = Some 3 -> rd 1 2 bytes = Some 3 ->
  rd 1 5 bytes = Some fl -> rd 2 6 bytes = Some sh -> (8 <= length bytes)%nat ->
  dec_bytes e bytes = dec_bytes_v3_body e bytes pre fl sh.
Proof.
  intros H0 H1 H2 H5 H6 Hl. unfold dec_bytes.
  destruct (Nat.ltb_spec (length bytes) 8); [lia|].
  rewrite H0, H1, H2. cbn [bind]. change (negb (3 =? 3)) with false. cbv iota.
  change (3 =? 4) with false. cbv iota. change (3 =? 3) with true. cbv iota.
  rewrite H6, H5. reflexivity.
Qed.

Definition dec_stream_v3_body (expected : N) (bytes : list N) (pre fl sh : N) : option (csk * nat) :=
    let is_empty := N.testbit fl 2 in
    if negb is_empty && negb (sh =? expected) then None else
    if is_empty then Some (mk true (N.testbit fl 4) sh MAX_THETA [], 8%nat) else
    if pre =? 1 then
      do e <- rd 8 8 bytes; Some (mk false (N.testbit fl 4) sh MAX_THETA [e], 16%nat)
    else
      do n <- rd 4 8 bytes; do unused <- rd 4 12 bytes;
      let has_theta := 2 <? pre in
      do theta <- (if has_theta then rd 8 16 bytes else Some MAX_THETA);
      let start := if has_theta then 24%nat else 16%nat in
      if too_many n 8 (length bytes) then None else
      do ents <- rd_entries (N.to_nat n) (skipn start bytes);
      Some (mk false (N.testbit fl 4) sh theta ents, (start + 8 * N.to_nat n)%nat).

Lemma dec_stream_v3_eq e bytes pre fl sh :
  rd 1 0 bytes = Some pre -> rd 1 1 bytes = Some 3 -> rd 1 2 bytes = Some 3 ->
  rd 1 5 bytes = Some fl -> rd 2 6 bytes = Some sh ->
  dec_stream e bytes = dec_stream_v3_body e bytes pre fl sh.
Proof.
  intros H0 H1 H2 H5 H6. unfold dec_stream.
  rewrite H0, H1, H2. cbn [bind]. change (negb (3 =? 3)) with false. cbv iota.
  change (3 =? 4) with false. cbv iota. change (3 =? 3) with true. cbv iota.
  rewrite H6, H5. reflexivity.
Qed.

Lemma rd_at2 n off v (a1 a2 b c l : list N) :
  l = a1 ++ a2 ++ b ++ c -> (length a1 + length a2)%nat = off -> length b = n -> le_bytes_to_N b = v -> rd n off l = Some v.
Proof. intros -> Ha Hb Hv. rewrite app_assoc. eapply rd_at; eauto. now rewrite app_length. Qed.
Lemma rd_at3 n off v (a1 a2 a3 b c l : list N) :
  l = a1 ++ a2 ++ a3 ++ b ++ c -> (length a1 + length a2 + length a3)%nat = off -> length b = n -> le_bytes_to_N b = v -> rd n off l = Some v.
Proof. intros -> Ha Hb Hv. rewrite app_assoc. eapply rd_at2; eauto. rewrite app_length. lia. Qed.
Lemma rd_at4 n off v (a1 a2 a3 a4 b c l : list N) :
  l = a1 ++ a2 ++ a3 ++ a4 ++ b ++ c -> (length a1 + length a2 + length a3 + length a4)%nat = off -> length b = n -> le_bytes_to_N b = v -> rd n off l = Some v.
Proof. intros -> Ha Hb Hv. rewrite app_assoc. eapply rd_at3; eauto. rewrite app_length. lia. Qed.

Lemma skipn_app2 {A} n (a1 a2 r : list A) : (length a1 + length a2)%nat = n -> skipn n (a1 ++ a2 ++ r) = r.
Proof. intros H. rewrite app_assoc. apply skipn_app_exact. now rewrite app_length. Qed.
Lemma skipn_app3 {A} n (a1 a2 a3 r : list A) : (length a1 + length a2 + length a3)%nat = n -> skipn n (a1 ++ a2 ++ a3 ++ r) = r.
Proof. intros H. rewrite app_assoc. apply skipn_app2. rewrite app_length. lia. Qed.
Lemma skipn_app4 {A} n (a1 a2 a3 a4 r : list A) : (length a1 + length a2 + length a3 + length a4)%nat = n -> skipn n (a1 ++ a2 ++ a3 ++ a4 ++ r) = r.
Proof. intros H. rewrite app_assoc. apply skipn_app3. rewrite app_length. lia. Qed.

Lemma wf_theta64 s : wf s -> k_theta s < two64.
Proof. intros (_ & H & _). unfold MAX_THETA, two64 in *. lia. Qed.

Lemma est_not_empty s : est_mode s = true -> k_empty s = false.
Proof. unfold est_mode. destruct (k_empty s); [rewrite andb_false_r; discriminate|reflexivity]. Qed.

Lemma not_est_theta s : wf s -> est_mode s = false -> k_theta s = MAX_THETA.
Proof.
  intros (_ & Hth & _ & _ & He & _) H. unfold est_mode in H.
  destruct (k_empty s) eqn:E; [now apply He|].
  rewrite andb_true_r in H. apply N.ltb_ge in H. lia.
Qed.

(* the four shapes of a version-3 image *)
Inductive v3_shape (s : csk) (rest : list N) : Prop :=
| shape_empty : k_empty s = true -> k_entries s = [] -> pre_longs_v3 s = 1 -> N.testbit (flags_v3 s) 2 = true ->
    length (enc_v3 s) = 8%nat -> v3_shape s rest
| shape_single e : k_empty s = false -> est_mode s = false -> k_entries s = [e] -> pre_longs_v3 s = 1 ->
    N.testbit (flags_v3 s) 2 = false ->
    rd 8 8 (enc_v3 s ++ rest) = Some e -> length (enc_v3 s) = 16%nat -> v3_shape s rest
| shape_exact : k_empty s = false -> est_mode s = false -> pre_longs_v3 s = 2 -> nent s <> 1 ->
    N.testbit (flags_v3 s) 2 = false ->
    rd 4 8 (enc_v3 s ++ rest) = Some (nent s) -> rd 4 12 (enc_v3 s ++ rest) = Some 0 ->
    skipn 16 (enc_v3 s ++ rest) = flat_map u64 (k_entries s) ++ rest ->
    length (enc_v3 s) = (16 + 8 * length (k_entries s))%nat -> v3_shape s rest
| shape_est : k_empty s = false -> est_mode s = true -> pre_longs_v3 s = 3 ->
    N.testbit (flags_v3 s) 2 = false ->
    rd 4 8 (enc_v3 s ++ rest) = Some (nent s) -> rd 4 12 (enc_v3 s ++ rest) = Some 0 ->
    rd 8 16 (enc_v3 s ++ rest) = Some (k_theta s) ->
    skipn 24 (enc_v3 s ++ rest) = flat_map u64 (k_entries s) ++ rest ->
    length (enc_v3 s) = (24 + 8 * length (k_entries s))%nat -> v3_shape s rest.

Lemma flags_bit2 s : N.testbit (flags_v3 s) 2 = k_empty s.
Proof. unfold flags_v3. destruct (k_empty s), (k_ordered s); reflexivity. Qed.
Lemma flags_bit4 s : N.testbit (flags_v3 s) 4 = k_ordered s.
Proof. unfold flags_v3. destruct (k_empty s), (k_ordered s); reflexivity. Qed.

Lemma nent_eq1 s : nent s = 1 -> exists e, k_entries s = [e].
Proof. unfold nent. destruct (k_entries s) as [|e [|e' r]]; cbn [length]; intros H; try lia. now exists e. Qed.

Lemma v3_shapes s rest : wf s -> v3_shape s rest.
Proof.
  intros Hwf. pose proof Hwf as (Hsh & Hth & Hents & Hn & Hemp & Hord).
  destruct (k_empty s) eqn:Eem.
  - destruct (Hemp eq_refl) as [He Ht].
    assert (Hest : est_mode s = false) by (unfold est_mode; rewrite Eem; apply andb_false_r).
    assert (Hpre : pre_longs_v3 s = 1) by (unfold pre_longs_v3; now rewrite Hest, Eem).
    apply shape_empty; auto.
    + now rewrite flags_bit2.
    + unfold enc_v3. rewrite Hpre, Hest, He. reflexivity.
  - destruct (est_mode s) eqn:Hest.
    + assert (Hpre : pre_longs_v3 s = 3) by (unfold pre_longs_v3; now rewrite Hest).
      apply shape_est; auto.
      * now rewrite flags_bit2.
      * unfold enc_v3. rewrite Hpre, Hest. change (1 <? 3) with true. cbv iota. rewrite <- !app_assoc.
        eapply (rd_at2 4 8 _ _ (u16 _) (u32 _)); try reflexivity. now apply u32_rt.
      * unfold enc_v3. rewrite Hpre, Hest. change (1 <? 3) with true. cbv iota. rewrite <- !app_assoc.
        eapply (rd_at3 4 12 _ _ (u16 _) (u32 _) [0;0;0;0]); reflexivity.
      * unfold enc_v3. rewrite Hpre, Hest. change (1 <? 3) with true. cbv iota. rewrite <- !app_assoc.
        eapply (rd_at4 8 16 _ _ (u16 _) (u32 _) [0;0;0;0] (u64 _)); try reflexivity. apply u64_rt. now apply wf_theta64.
      * unfold enc_v3. rewrite Hpre, Hest. change (1 <? 3) with true. cbv iota. rewrite <- !app_assoc.
        rewrite (app_assoc (u32 _) [0;0;0;0]).
        apply (skipn_app4 24 _ (u16 _) (u32 _ ++ [0;0;0;0]) (u64 _)). reflexivity.
      * unfold enc_v3. rewrite Hpre, Hest. change (1 <? 3) with true. cbv iota.
        rewrite !app_length, flat_u64_length. reflexivity.
    + destruct (nent s =? 1) eqn:E1.
      * apply N.eqb_eq in E1. destruct (nent_eq1 s E1) as [e He].
        assert (Hpre : pre_longs_v3 s = 1) by (unfold pre_longs_v3; rewrite Hest, Eem, E1; reflexivity).
        apply (shape_single s rest e); auto.
        -- now rewrite flags_bit2.
        -- unfold enc_v3. rewrite Hpre, Hest, He. change (1 <? 1) with false. cbv iota.
           cbn [flat_map app]. rewrite <- !app_assoc.
           eapply (rd_at2 8 8 _ [_;_;_;_;_;_] (u16 _) (u64 _)); try reflexivity. apply u64_rt.
           rewrite He in Hents. now inversion Hents.
        -- unfold enc_v3. rewrite Hpre, Hest, He. reflexivity.
      * assert (Hpre : pre_longs_v3 s = 2) by (unfold pre_longs_v3; rewrite Hest, Eem, E1; reflexivity).
        apply N.eqb_neq in E1.
        apply shape_exact; auto.
        -- now rewrite flags_bit2.
        -- unfold enc_v3. rewrite Hpre, Hest. change (1 <? 2) with true. cbv iota. rewrite <- !app_assoc.
           eapply (rd_at2 4 8 _ _ (u16 _) (u32 _)); try reflexivity. now apply u32_rt.
        -- unfold enc_v3. rewrite Hpre, Hest. change (1 <? 2) with true. cbv iota. rewrite <- !app_assoc.
           eapply (rd_at3 4 12 _ _ (u16 _) (u32 _) [0;0;0;0]); reflexivity.
        -- unfold enc_v3. rewrite Hpre, Hest. change (1 <? 2) with true. cbv iota. rewrite <- !app_assoc.
           rewrite (app_assoc (u32 _) [0;0;0;0]).
           apply (skipn_app3 16 _ (u16 _) (u32 _ ++ [0;0;0;0])). reflexivity.
        -- unfold enc_v3. rewrite Hpre, Hest. change (1 <? 2) with true. cbv iota.
           rewrite !app_length, flat_u64_length. reflexivity.
Qed.

Lemma csk_eta s : {| k_empty := k_empty s; k_ordered := k_ordered s; k_seed_hash := k_seed_hash s;
                     k_theta := k_theta s; k_entries := k_entries s |} = s.
Proof. destruct s; reflexivity. Qed.

Lemma mk_eq s e o sh th ents :
  e = k_empty s -> sh = k_seed_hash s -> th = k_theta s -> ents = k_entries s ->
  (o || (length ents <=? 1)%nat) = k_ordered s -> mk e o sh th ents = s.
Proof. intros -> -> -> -> H. unfold mk. rewrite H. apply csk_eta. Qed.

Lemma nent_to_nat s : N.to_nat (nent s) = length (k_entries s).
Proof. unfold nent. apply Nnat.Nat2N.id. Qed.



Lemma ord_norm s : wf s -> (k_ordered s || (length (k_entries s) <=? 1)%nat) = k_ordered s.
Proof.
  intros (_ & _ & _ & _ & _ & Hord).
  destruct (k_ordered s) eqn:Eo; [reflexivity|]. cbn [orb].
  destruct (Nat.leb_spec (length (k_entries s)) 1) as [Hle|]; [|reflexivity]. discriminate (Hord Hle).
Qed.

Lemma too_many_img s rest k : length (enc_v3 s) = (k + 8 * length (k_entries s))%nat ->
  too_many (nent s) 8 (length (enc_v3 s ++ rest)) = false.
Proof. intros Hlen. unfold too_many. apply N.ltb_ge. rewrite app_length, Hlen. unfold nent. lia. Qed.

Lemma len_guard_img s rest k m : length (enc_v3 s) = (k + m)%nat -> (length (enc_v3 s ++ rest) <? k)%nat = false.
Proof. intros Hlen. apply Nat.ltb_ge. rewrite app_length, Hlen. lia. Qed.

Theorem v3_roundtrip_bytes s : wf s -> forall rest, dec_bytes (k_seed_hash s) (enc_v3 s ++ rest) = Some s.
Proof.
  intros Hwf rest. pose proof Hwf as (Hsh & Hth & Hents & Hn & Hemp & Hord).
  destruct (v3_header s rest Hsh) as (H0 & H1 & H2 & H5 & H6 & Hl).
  rewrite (dec_bytes_v3_eq _ _ _ _ _ H0 H1 H2 H5 H6 Hl). unfold dec_bytes_v3_body.
  destruct (v3_shapes s rest Hwf) as [Hem He Hpre Hb2 Hlen | e Hem Hest He Hpre Hb2 Hr Hlen
    | Hem Hest Hpre Hn1 Hb2 Hr Hr' Hsk Hlen | Hem Hest Hpre Hb2 Hr Hr' Hrt Hsk Hlen]; rewrite Hb2.
  - f_equal. destruct (Hemp Hem) as [_ Ht]. apply mk_eq; [symmetry; assumption|reflexivity|symmetry; assumption|symmetry; assumption|].
    symmetry. apply Hord. rewrite He. cbn [length]. lia.
  - rewrite N.eqb_refl. cbn [negb]. rewrite Hpre. change (2 <? 1) with false. cbv iota. cbn [bind].
    change (1 =? 1) with true. cbv iota. rewrite Hr. cbn [bind]. f_equal.
    apply mk_eq; [symmetry; assumption|reflexivity| |symmetry; assumption|].
    + symmetry. apply not_est_theta; assumption. + symmetry. apply Hord. rewrite He. cbn [length]. lia.
  - rewrite N.eqb_refl. cbn [negb]. rewrite Hpre. change (2 <? 2) with false. cbv iota. cbn [bind].
    change (2 =? 1) with false. cbv iota. rewrite (len_guard_img s rest 16 _ Hlen), Hr. cbn [bind].
    rewrite (too_many_img s rest 16 Hlen), Hsk, nent_to_nat, rd_entries_flat by assumption. cbn [bind]. f_equal.
    apply mk_eq; [symmetry; assumption|reflexivity| |reflexivity|].
    + symmetry. apply not_est_theta; assumption.
    + rewrite flags_bit4. apply ord_norm; assumption.
  - rewrite N.eqb_refl. cbn [negb]. rewrite Hpre. change (2 <? 3) with true. cbv iota. rewrite Hrt. cbn [bind].
    change (3 =? 1) with false. cbv iota. rewrite (len_guard_img s rest 24 _ Hlen), Hr. cbn [bind].
    rewrite (too_many_img s rest 24 Hlen), Hsk, nent_to_nat, rd_entries_flat by assumption. cbn [bind]. f_equal.
    apply mk_eq; [symmetry; assumption|reflexivity|reflexivity|reflexivity|].
    rewrite flags_bit4. apply ord_norm; assumption.
Qed.

Theorem v3_roundtrip_stream s : wf s -> forall rest,
  dec_stream (k_seed_hash s) (enc_v3 s ++ rest) = Some (s, length (enc_v3 s)).
Proof.
  intros Hwf rest. pose proof Hwf as (Hsh & Hth & Hents & Hn & Hemp & Hord).
  destruct (v3_header s rest Hsh) as (H0 & H1 & H2 & H5 & H6 & Hl).
  rewrite (dec_stream_v3_eq _ _ _ _ _ H0 H1 H2 H5 H6). unfold dec_stream_v3_body.
  rewrite N.eqb_refl. cbn [negb]. rewrite andb_false_r.
  destruct (v3_shapes s rest Hwf) as [Hem He Hpre Hb2 Hlen | e Hem Hest He Hpre Hb2 Hr Hlen
    | Hem Hest Hpre Hn1 Hb2 Hr Hr' Hsk Hlen | Hem Hest Hpre Hb2 Hr Hr' Hrt Hsk Hlen]; rewrite Hb2.
  - rewrite Hlen. f_equal. f_equal. destruct (Hemp Hem) as [_ Ht].
    apply mk_eq; [symmetry; assumption|reflexivity|symmetry; assumption|symmetry; assumption|].
    cbn [length Nat.leb]. rewrite orb_true_r. symmetry. apply Hord. rewrite He. cbn [length]. lia.
  - rewrite Hpre. change (1 =? 1) with true. cbv iota. rewrite Hr. cbn [bind]. rewrite Hlen. f_equal. f_equal.
    apply mk_eq; [symmetry; assumption|reflexivity| |symmetry; assumption|].
    + symmetry. apply not_est_theta; assumption.
    + cbn [length Nat.leb]. rewrite orb_true_r. symmetry. apply Hord. rewrite He. cbn [length]. lia.
  - rewrite Hpre. change (2 =? 1) with false. cbv iota. rewrite Hr, Hr'. cbn [bind].
    change (2 <? 2) with false. cbv iota. cbn [bind].
    rewrite (too_many_img s rest 16 Hlen), Hsk, nent_to_nat, rd_entries_flat by assumption. cbn [bind].
    rewrite Hlen. f_equal. f_equal.
    apply mk_eq; [symmetry; assumption|reflexivity| |reflexivity|].
    + symmetry. apply not_est_theta; assumption.
    + rewrite flags_bit4. apply ord_norm; assumption.
  - rewrite Hpre. change (3 =? 1) with false. cbv iota. rewrite Hr, Hr'. cbn [bind].
    change (2 <? 3) with true. cbv iota. rewrite Hrt. cbn [bind].
    rewrite (too_many_img s rest 24 Hlen), Hsk, nent_to_nat, rd_entries_flat by assumption. cbn [bind].
    rewrite Hlen. f_equal. f_equal.
    apply mk_eq; [symmetry; assumption|reflexivity|reflexivity|reflexivity|].
    rewrite flags_bit4. apply ord_norm; assumption.
Qed.

Theorem enc_v3_length s :
  length (enc_v3 s) = (8 * N.to_nat (pre_longs_v3 s) + 8 * length (k_entries s))%nat.
Proof.
  unfold enc_v3, pre_longs_v3.
  destruct (est_mode s); [|destruct (k_empty s || (nent s =? 1))];
    rewrite !app_length, flat_u64_length; reflexivity.
Qed.


(* ---------- sizes of the packed area ---------- *)
Lemma whole_bytes_div x : whole_bytes x = (x + 7) / 8.
Proof.
  unfold whole_bytes. rewrite N.shiftr_div_pow2. change 7 with (N.ones 3) at 1. rewrite N.land_ones.
  change (2 ^ 3) with 8. destruct (N.ltb_spec 0 (x mod 8)).
  - pose proof (N.div_mod x 8 ltac:(discriminate)). pose proof (N.mod_lt x 8 ltac:(discriminate)).
    apply N.div_unique with (r := x mod 8 - 1); lia.
  - pose proof (N.div_mod x 8 ltac:(discriminate)).
    apply N.le_0_r in H. rewrite H in H0. rewrite N.add_0_r. apply N.div_unique with (r := 7); lia.
Qed.

Lemma whole_bytes_nat m : whole_bytes (N.of_nat m) = N.of_nat ((m + 7) / 8).
Proof. rewrite whole_bytes_div. rewrite Nnat.Nat2N.inj_div, Nnat.Nat2N.inj_add. reflexivity. Qed.

Definition packed_len (b n : nat) : nat :=
  (b * (n / 8) + (if (n mod 8 =? 0)%nat then 0 else nbytes b (n mod 8)))%nat.

Lemma packed_len_ceil b n : packed_len b n = ((b * n + 7) / 8)%nat.
Proof.
  unfold packed_len, nbytes.
  pose proof (Nat.div_mod n 8 ltac:(discriminate)) as Hn.
  pose proof (Nat.mod_upper_bound n 8 ltac:(discriminate)) as Hr.
  set (q := (n / 8)%nat) in *. set (r := (n mod 8)%nat) in *.
  replace (b * n + 7)%nat with ((b * r + 7) + (b * q) * 8)%nat by (rewrite Hn; ring).
  rewrite Nat.div_add by discriminate.
  destruct (Nat.eqb_spec r 0) as [->|Hr0].
  - rewrite Nat.mul_0_r. cbn [Nat.add]. change (7 / 8)%nat with 0%nat. lia.
  - replace (r * b)%nat with (b * r)%nat by ring. lia.
Qed.

Lemma pack_all_length b : (1 <= b <= 63)%nat ->
  forall fuel vals bytes, Forall (fun v => v < 2 ^ N.of_nat b) vals ->
  pack_all fuel b vals = Some bytes -> length bytes = packed_len b (length vals).
Proof.
  intros Hb. induction fuel as [|f IH]; intros vals bytes Hv H; [discriminate|].
  cbn [pack_all] in H. destruct vals as [|v0 vr].
  - injection H as <-. rewrite packed_len_ceil. cbn [length]. rewrite Nat.mul_0_r. reflexivity.
  - remember (v0 :: vr) as vals eqn:Ev.
    destruct (Nat.leb_spec 8 (length vals)) as [H8|H8].
    + assert (Hl8 : length (firstn 8 vals) = 8%nat) by (rewrite firstn_length; lia).
      destruct (pack_vals_layout b 8 (firstn 8 vals) Hb ltac:(lia) Hl8 (Forall_firstn _ _ _ Hv))
        as [x [Hx [Hxl _]]]. rewrite nbytes_8 in Hxl. rewrite Hx in H.
      destruct (pack_all f b (skipn 8 vals)) as [y|] eqn:Hy; [|discriminate].
      injection H as <-. apply IH in Hy; [|now apply Forall_skipn].
      rewrite app_length, Hxl, Hy, !packed_len_ceil, skipn_length.
      replace (b * length vals + 7)%nat with ((b * (length vals - 8) + 7) + b * 8)%nat by nia.
      rewrite Nat.div_add by discriminate. lia.
    + assert (Hc : (1 <= length vals <= 8)%nat) by (rewrite Ev in *; cbn [length] in *; lia).
      destruct (pack_vals_layout b (length vals) vals Hb Hc eq_refl Hv) as [x [Hx [Hxl _]]].
      rewrite Hx in H. injection H as <-. rewrite Hxl, packed_len_ceil. unfold nbytes. f_equal. f_equal. ring.
Qed.

(* ---------- version 4: additional requirements on the entries (hashes below theta <= 2^63 - 1, sorted) ---------- *)
Fixpoint incr (prev : N) (l : list N) : Prop :=
  match l with
  | [] => True
  | e :: r => prev < e /\ incr e r
  end.

Definition two63 : N := 9223372036854775808.

Definition wf4 (s : csk) : Prop :=
  wf s /\ incr 0 (k_entries s) /\ Forall (fun e => e < two63) (k_entries s).

Lemma sub64_small e p : p <= e -> e < two64 -> sub64 e p = e - p.
Proof.
  intros Hp He. unfold sub64. rewrite !w64_mod. rewrite (N.mod_small p) by lia.
  replace (e + two64 - p) with ((e - p) + 1 * two64) by lia.
  rewrite N.mod_add by apply two64_pos. apply N.mod_small. lia.
Qed.

Lemma deltas_bounds l : forall p, p < two63 -> incr p l -> Forall (fun e => e < two63) l ->
  Forall (fun d => 0 < d < two63) (deltas p l).
Proof.
  induction l as [|e r IH]; intros p Hp Hi Hl; cbn [deltas]; [constructor|].
  destruct Hi as [Hpe Hi]. apply Forall_cons_iff in Hl. destruct Hl as [He Hr].
  constructor; [|now apply IH].
  rewrite sub64_small; unfold two63, two64 in *; lia.
Qed.

Lemma lor_lt_pow2 a b n : a < 2 ^ n -> b < 2 ^ n -> N.lor a b < 2 ^ n.
Proof.
  intros Ha Hb.
  destruct (N.eq_dec a 0) as [->|Ha0]; [now rewrite N.lor_0_l|].
  destruct (N.eq_dec b 0) as [->|Hb0]; [now rewrite N.lor_0_r|].
  assert (N.lor a b <> 0) by (intros H; apply N.lor_eq_0_iff in H; tauto).
  apply N.log2_lt_pow2; [lia|]. rewrite N.log2_lor.
  apply N.log2_lt_pow2 in Ha; [|lia]. apply N.log2_lt_pow2 in Hb; [|lia]. lia.
Qed.

Lemma fold_lor_lt n l : forall acc, acc < 2 ^ n -> Forall (fun d => d < 2 ^ n) l -> fold_left N.lor l acc < 2 ^ n.
Proof.
  induction l as [|d r IH]; intros acc Ha Hl; cbn [fold_left]; [assumption|].
  apply Forall_cons_iff in Hl. destruct Hl as [Hd Hr]. apply IH; [|assumption]. now apply lor_lt_pow2.
Qed.

Lemma size_le_of_lt x n : x < 2 ^ n -> N.size x <= n.
Proof.
  intros H. destruct (N.eq_dec x 0) as [->|Hx]; [cbn; lia|].
  rewrite N.size_log2 by assumption. apply N.log2_lt_pow2 in H; lia.
Qed.

Lemma size_pos x : x <> 0 -> 1 <= N.size x.
Proof. intros H. rewrite N.size_log2 by assumption. lia. Qed.

Lemma entry_bits_range s : wf4 s -> k_entries s <> [] -> 1 <= entry_bits s <= 63.
Proof.
  intros (Hwf & Hi & Hl) Hne. unfold entry_bits.
  pose proof (deltas_bounds (k_entries s) 0 ltac:(reflexivity) Hi Hl) as Hd.
  split.
  - destruct (k_entries s) as [|e r]; [congruence|]. cbn [deltas] in *.
    apply Forall_cons_iff in Hd. destruct Hd as [Hd _].
    etransitivity; [|apply size_in_fold_lor; left; reflexivity]. apply size_pos. lia.
  - apply size_le_of_lt. apply fold_lor_lt; [reflexivity|].
    eapply Forall_impl; [|exact Hd]. cbn beta. intros a Ha. exact (proj2 Ha).
Qed.

(* ---------- the entry count field ---------- *)
Lemma w32_small x : x < two32 -> w32 x = x.
Proof. intros H. rewrite w32_mod. now apply N.mod_small. Qed.

Lemma whole_bytes_ge x : x <= 8 * whole_bytes x.
Proof.
  rewrite whole_bytes_div. pose proof (N.div_mod (x + 7) 8 ltac:(discriminate)).
  pose proof (N.mod_lt (x + 7) 8 ltac:(discriminate)). lia.
Qed.

Lemma whole_bytes_mono x y : x <= y -> whole_bytes x <= whole_bytes y.
Proof. intros H. rewrite !whole_bytes_div. apply N.div_le_mono; [discriminate|lia]. Qed.

Lemma neb_range s : nent s < two32 -> nent s <> 0 -> 1 <= num_entries_bytes s <= 4 /\ w32 (nent s) < 2 ^ (8 * num_entries_bytes s).
Proof.
  intros Hn Hn0. unfold num_entries_bytes. rewrite w32_small by assumption.
  repeat split.
  - pose proof (size_pos _ Hn0). pose proof (whole_bytes_mono 1 _ H). exact H0.
  - change 4 with (whole_bytes 32). apply whole_bytes_mono. apply size_le_of_lt. exact Hn.
  - eapply N.lt_le_trans; [apply N.size_gt|]. apply N.pow_le_mono_r; [discriminate|]. apply whole_bytes_ge.
Qed.


Definition dec_bytes_v4_body (expected : N) (bytes : list N) (pre b neb sh : N) : option csk :=
    if negb (sh =? expected) then None else
    let has_theta := 1 <? pre in
    do theta <- (if has_theta then rd 8 8 bytes else Some MAX_THETA);
    if 4 <? neb then None else
    let off := if has_theta then 16%nat else 8%nat in
    do n <- rd (N.to_nat neb) off bytes;
    let n := w32 n in
    if bad_width b then None else
    let doff := (off + N.to_nat neb)%nat in
    if N.of_nat (length bytes) <? N.of_nat doff + whole_bytes (b * n) then None else
    do ds <- unpack_all (S (N.to_nat n)) (N.to_nat b) (N.to_nat n) (skipn doff bytes);
    Some (mk false true sh theta (undeltas 0 ds)).

Lemma dec_bytes_v4_eq e bytes pre b neb sh :
  rd 1 0 bytes = Some pre -> rd 1 1 bytes = Some 4 -> rd 1 2 bytes = Some 3 ->
  rd 1 3 bytes = Some b -> rd 1 4 bytes = Some neb -> rd 2 6 bytes = Some sh -> (8 <= length bytes)%nat ->
  dec_bytes e bytes = dec_bytes_v4_body e bytes pre b neb sh.
Proof.
  intros H0 H1 H2 H3 H4 H6 Hl. unfold dec_bytes.
  destruct (Nat.ltb_spec (length bytes) 8); [lia|].
  rewrite H0, H1, H2. cbn [bind]. change (negb (3 =? 3)) with false. cbv iota.
  change (4 =? 4) with true. cbv iota.
  rewrite H6, H4, H3. reflexivity.
Qed.

Definition dec_stream_v4_body (expected : N) (bytes : list N) (pre b neb fl sh : N) : option (csk * nat) :=
    let is_empty := N.testbit fl 2 in
    if negb is_empty && negb (sh =? expected) then None else
    let has_theta := 1 <? pre in
    do theta <- (if has_theta then rd 8 8 bytes else Some MAX_THETA);
    if bad_width b || (4 <? neb) then None else
    let off := if has_theta then 16%nat else 8%nat in
    do n <- rd (N.to_nat neb) off bytes;
    let n := w32 n in
    let doff := (off + N.to_nat neb)%nat in
    if N.of_nat (length bytes) <? N.of_nat doff + whole_bytes (b * n) then None else
    do ds <- unpack_all (S (N.to_nat n)) (N.to_nat b) (N.to_nat n) (skipn doff bytes);
    let used := packed_len (N.to_nat b) (N.to_nat n) in
    Some (mk is_empty (N.testbit fl 4) sh theta (undeltas 0 ds), (doff + used)%nat).

Lemma dec_stream_v4_eq e bytes pre b neb fl sh :
  rd 1 0 bytes = Some pre -> rd 1 1 bytes = Some 4 -> rd 1 2 bytes = Some 3 ->
  rd 1 3 bytes = Some b -> rd 1 4 bytes = Some neb -> rd 1 5 bytes = Some fl -> rd 2 6 bytes = Some sh ->
  dec_stream e bytes = dec_stream_v4_body e bytes pre b neb fl sh.
Proof.
  intros H0 H1 H2 H3 H4 H5 H6. unfold dec_stream.
  rewrite H0, H1, H2. cbn [bind]. change (negb (3 =? 3)) with false. cbv iota.
  change (4 =? 4) with true. cbv iota.
  rewrite H6, H5, H4, H3. reflexivity.
Qed.

(* ---------- the version-4 image ---------- *)
Definition v4_pre (s : csk) : N := if est_mode s then 2 else 1.
Definition v4_head (s : csk) : list N :=
  [v4_pre s; 4; 3; entry_bits s; num_entries_bytes s; flags_v4] ++ u16 (k_seed_hash s) ++
  (if est_mode s then u64 (k_theta s) else []) ++
  N_to_le_bytes (N.to_nat (num_entries_bytes s)) (w32 (nent s)).

Definition v4_doff (s : csk) : nat := ((if est_mode s then 16 else 8) + N.to_nat (num_entries_bytes s))%nat.

Lemma v4_head_length s : length (v4_head s) = v4_doff s.
Proof.
  unfold v4_head, v4_doff. destruct (est_mode s); rewrite !app_length, ?N_to_le_bytes_length; reflexivity.
Qed.

Lemma suitable_facts s : suitable_for_compression s = true ->
  k_ordered s = true /\ nent s <> 0 /\ k_entries s <> [].
Proof.
  unfold suitable_for_compression. intros H.
  apply andb_prop in H. destruct H as [H _]. apply andb_prop in H. destruct H as [Ho Hn].
  split; [assumption|]. apply negb_true_iff, N.eqb_neq in Hn. split; [assumption|].
  intros E. apply Hn. unfold nent. now rewrite E.
Qed.

Lemma enc_v4_image s : wf4 s -> suitable_for_compression s = true ->
  exists packed, enc_v4 s = Some (v4_head s ++ packed) /\
    length packed = packed_len (N.to_nat (entry_bits s)) (length (k_entries s)) /\
    forall rest, unpack_all (S (length (k_entries s))) (N.to_nat (entry_bits s)) (length (k_entries s)) (packed ++ rest)
                 = Some (deltas 0 (k_entries s)).
Proof.
  intros Hwf4 Hs. destruct (suitable_facts s Hs) as (Ho & Hn0 & Hne).
  pose proof (entry_bits_range s Hwf4 Hne) as Hb.
  assert (Hb' : (1 <= N.to_nat (entry_bits s) <= 63)%nat) by lia.
  assert (Hfit : Forall (fun v => v < 2 ^ N.of_nat (N.to_nat (entry_bits s))) (deltas 0 (k_entries s))).
  { rewrite Nnat.N2Nat.id. apply deltas_fit. }
  destruct (pack_unpack_all _ Hb' (S (length (k_entries s))) (deltas 0 (k_entries s))
              ltac:(rewrite deltas_length; lia) Hfit) as [packed [Hp Hu]].
  exists packed. split; [|split].
  - unfold enc_v4. rewrite Hp. unfold v4_head, v4_pre. rewrite <- !app_assoc. reflexivity.
  - rewrite (pack_all_length _ Hb' _ _ _ Hfit Hp). now rewrite deltas_length.
  - intros rest. specialize (Hu rest (S (length (k_entries s)))). rewrite deltas_length in Hu. apply Hu. lia.
Qed.

Lemma v4_header s tl : wf4 s -> k_entries s <> [] ->
  let img := v4_head s ++ tl in
  rd 1 0 img = Some (v4_pre s) /\ rd 1 1 img = Some 4 /\ rd 1 2 img = Some 3 /\
  rd 1 3 img = Some (entry_bits s) /\ rd 1 4 img = Some (num_entries_bytes s) /\
  rd 1 5 img = Some flags_v4 /\ rd 2 6 img = Some (k_seed_hash s) /\ (8 <= length img)%nat /\
  (est_mode s = true -> rd 8 8 img = Some (k_theta s)) /\
  rd (N.to_nat (num_entries_bytes s)) (if est_mode s then 16 else 8) img = Some (nent s) /\
  skipn (v4_doff s) img = tl.
Proof.
  intros Hwf4 Hne img. pose proof Hwf4 as (Hwf & Hi & Hl).
  pose proof Hwf as (Hsh & Hth & Hents & Hn & Hemp & Hord).
  pose proof (entry_bits_range s Hwf4 Hne) as Hb.
  assert (Hn0 : nent s <> 0) by (unfold nent; destruct (k_entries s); [congruence|cbn [length]; lia]).
  destruct (neb_range s Hn Hn0) as [Hneb Hcnt].
  subst img. unfold v4_head.
  set (T := if est_mode s then _ else _).
  set (C := N_to_le_bytes _ _).
  cbn [app]. rewrite <- !app_assoc.
  refine (conj _ (conj _ (conj _ (conj _ (conj _ (conj _ (conj _ (conj _ (conj _ (conj _ _)))))))))).
  - eapply (rd_at 1 0 _ [] [_]); try reflexivity. apply le1. unfold v4_pre. now destruct (est_mode s).
  - eapply (rd_at 1 1 _ [_] [_]); reflexivity.
  - eapply (rd_at 1 2 _ [_;_] [_]); reflexivity.
  - eapply (rd_at 1 3 _ [_;_;_] [_]); try reflexivity. apply le1. lia.
  - eapply (rd_at 1 4 _ [_;_;_;_] [_]); try reflexivity. apply le1. lia.
  - eapply (rd_at 1 5 _ [_;_;_;_;_] [_]); reflexivity.
  - eapply (rd_at 2 6 _ [_;_;_;_;_;_] (u16 _)); try reflexivity. now apply u16_rt.
  - cbn [length]. rewrite app_length. unfold u16. rewrite N_to_le_bytes_length. lia.
  - intros Hest. subst T. rewrite Hest.
    eapply (rd_at2 8 8 _ [_;_;_;_;_;_] (u16 _) (u64 _)); try reflexivity. apply u64_rt. now apply wf_theta64.
  - subst T. destruct (est_mode s).
    + eapply (rd_at3 _ 16 _ [_;_;_;_;_;_] (u16 _) (u64 _) C); try reflexivity.
      * apply N_to_le_bytes_length.
      * subst C. rewrite le_bytes_roundtrip; [now apply w32_small|]. now rewrite Nnat.N2Nat.id.
    + eapply (rd_at3 _ 8 _ [_;_;_;_;_;_] (u16 _) [] C); try reflexivity.
      * apply N_to_le_bytes_length.
      * subst C. rewrite le_bytes_roundtrip; [now apply w32_small|]. now rewrite Nnat.N2Nat.id.
  - unfold v4_doff. subst T. destruct (est_mode s).
    + apply (skipn_app4 _ [_;_;_;_;_;_] (u16 _) (u64 _) C). subst C. rewrite N_to_le_bytes_length. reflexivity.
    + apply (skipn_app4 _ [_;_;_;_;_;_] (u16 _) [] C). subst C. rewrite N_to_le_bytes_length. reflexivity.
Qed.

Lemma whole_bytes_packed b n : whole_bytes (b * N.of_nat n) = N.of_nat (packed_len (N.to_nat b) n).
Proof. rewrite packed_len_ceil, <- whole_bytes_nat. f_equal. lia. Qed.

Lemma v4_not_empty s : wf s -> k_entries s <> [] -> k_empty s = false.
Proof. intros (_ & _ & _ & _ & He & _) Hne. destruct (k_empty s); [|reflexivity]. destruct (He eq_refl). contradiction. Qed.

Lemma wf4_entries64 s : wf4 s -> Forall (fun e => e < two64) (k_entries s).
Proof. intros (Hwf & _). apply Hwf. Qed.

Theorem v4_roundtrip s : wf4 s -> suitable_for_compression s = true ->
  exists img, enc_v4 s = Some img /\
    length img = (v4_doff s + packed_len (N.to_nat (entry_bits s)) (length (k_entries s)))%nat /\
    forall rest, dec_bytes (k_seed_hash s) (img ++ rest) = Some s /\
                 dec_stream (k_seed_hash s) (img ++ rest) = Some (s, length img).
Proof.
  intros Hwf4 Hs. destruct (suitable_facts s Hs) as (Ho & Hn0 & Hne).
  destruct (enc_v4_image s Hwf4 Hs) as [packed [Himg [Hplen Hun]]].
  exists (v4_head s ++ packed). split; [exact Himg|].
  assert (Hlen : length (v4_head s ++ packed) = (v4_doff s + packed_len (N.to_nat (entry_bits s)) (length (k_entries s)))%nat)
    by (rewrite app_length, v4_head_length, Hplen; reflexivity).
  split; [exact Hlen|]. intros rest. rewrite Hlen, <- app_assoc.
  destruct (v4_header s (packed ++ rest) Hwf4 Hne) as (H0 & H1 & H2 & H3 & H4 & H5 & H6 & Hl & Hth & Hcnt & Hsk).
  pose proof Hwf4 as (Hwf & Hi & Hl63).
  pose proof Hwf as (Hsh & Hthle & Hents & Hn & Hemp & Hord).
  pose proof (entry_bits_range s Hwf4 Hne) as Hb.
  destruct (neb_range s Hn Hn0) as [Hneb _].
  assert (Hbw : bad_width (entry_bits s) = false).
  { unfold bad_width. apply orb_false_intro; [apply N.eqb_neq; lia|apply N.ltb_ge; lia]. }
  assert (Hneb4 : (4 <? num_entries_bytes s) = false) by (apply N.ltb_ge; lia).
  assert (Hguard : (N.of_nat (length (v4_head s ++ packed ++ rest)) <?
                    N.of_nat (v4_doff s) + whole_bytes (entry_bits s * nent s)) = false).
  { apply N.ltb_ge. unfold nent. rewrite whole_bytes_packed, !app_length, v4_head_length, Hplen. lia. }
  assert (Htheta : (if 1 <? v4_pre s then rd 8 8 (v4_head s ++ packed ++ rest) else Some MAX_THETA) = Some (k_theta s)).
  { unfold v4_pre. destruct (est_mode s) eqn:Hest; [now apply Hth|]. cbn. f_equal. symmetry. now apply not_est_theta. }
  assert (Hoff : (if 1 <? v4_pre s then 16%nat else 8%nat) = (if est_mode s then 16%nat else 8%nat))
    by (unfold v4_pre; now destruct (est_mode s)).
  assert (Hmk : mk false true (k_seed_hash s) (k_theta s) (k_entries s) = s).
  { apply mk_eq; try reflexivity.
    - symmetry. apply v4_not_empty; assumption.
    - rewrite Ho. reflexivity. }
  split.
  - rewrite (dec_bytes_v4_eq _ _ _ _ _ _ H0 H1 H2 H3 H4 H6 Hl). unfold dec_bytes_v4_body.
    rewrite N.eqb_refl. cbn [negb]. rewrite Htheta. cbn [bind]. rewrite Hneb4, Hoff, Hcnt. cbn [bind].
    rewrite (w32_small _ Hn), Hbw. fold (v4_doff s). rewrite Hguard, Hsk, nent_to_nat, Hun. cbn [bind].
    rewrite undeltas_deltas; [|reflexivity|assumption]. f_equal. apply Hmk.
  - rewrite (dec_stream_v4_eq _ _ _ _ _ _ _ H0 H1 H2 H3 H4 H5 H6). unfold dec_stream_v4_body.
    rewrite N.eqb_refl. cbn [negb]. rewrite andb_false_r. rewrite Htheta. cbn [bind].
    rewrite Hbw, Hneb4. cbn [orb]. rewrite Hoff, Hcnt. cbn [bind].
    rewrite (w32_small _ Hn). fold (v4_doff s). rewrite Hguard, Hsk, nent_to_nat, Hun. cbn [bind].
    rewrite undeltas_deltas; [|reflexivity|assumption]. f_equal. f_equal.
    change (N.testbit flags_v4 2) with false. change (N.testbit flags_v4 4) with true. apply Hmk.
Qed.

Theorem v4_image_size s img : wf4 s -> suitable_for_compression s = true -> enc_v4 s = Some img ->
  N.of_nat (length img) =
    (if est_mode s then 16 else 8) + num_entries_bytes s + whole_bytes (entry_bits s * nent s).
Proof.
  intros Hwf4 Hs He. destruct (v4_roundtrip s Hwf4 Hs) as [img' [He' [Hlen _]]].
  rewrite He in He'. injection He' as <-. rewrite Hlen. unfold nent. rewrite whole_bytes_packed.
  unfold v4_doff. destruct (est_mode s); lia.
Qed.

(* serialize_compressed(): whichever version it chooses, both readers restore the sketch *)
Theorem serialize_compressed_roundtrip s : wf s -> (suitable_for_compression s = true -> wf4 s) ->
  exists img, serialize_compressed s = Some img /\
    forall rest, dec_bytes (k_seed_hash s) (img ++ rest) = Some s /\
                 dec_stream (k_seed_hash s) (img ++ rest) = Some (s, length img).
Proof.
  intros Hwf H4. unfold serialize_compressed. destruct (suitable_for_compression s) eqn:Hs.
  - destruct (v4_roundtrip s (H4 eq_refl) Hs) as [img [He [_ Hr]]]. exists img. split; assumption.
  - exists (enc_v3 s). split; [reflexivity|]. intros rest.
    split; [apply v3_roundtrip_bytes|apply v3_roundtrip_stream]; assumption.
Qed.


(* ---------- the unpacking routines return exactly the requested number of values ---------- *)
Lemma set_length {A} (l : list (option A)) : forall i v l', set l i v = Some l' -> length l' = length l.
Proof.
  induction l as [|x t IH]; intros i v l' H; cbn [set] in H; [discriminate|].
  destruct i as [|i].
  - injection H as <-. reflexivity.
  - destruct (set t i v) as [t'|] eqn:E; [|discriminate]. injection H as <-. cbn [length]. f_equal. eapply IH; eauto.
Qed.

Lemma exec1_lengths s st s' : exec1 s st = Some s' ->
  length (fst s') = length (fst s) /\ length (snd s') = length (snd s).
Proof.
  destruct st as [j e|j e|i e|i e]; cbn [exec1]; intros H.
  - destruct (eval s e); [|discriminate]. destruct (set (snd s) j _) eqn:E; [|discriminate].
    injection H as <-. cbn [fst snd]. split; [reflexivity|]. eapply set_length; eauto.
  - destruct (get (snd s) j); [|discriminate]. destruct (eval s e); [|discriminate].
    destruct (set (snd s) j _) eqn:E; [|discriminate].
    injection H as <-. cbn [fst snd]. split; [reflexivity|]. eapply set_length; eauto.
  - destruct (eval s e); [|discriminate]. destruct (set (fst s) i _) eqn:E; [|discriminate].
    injection H as <-. cbn [fst snd]. split; [|reflexivity]. eapply set_length; eauto.
  - destruct (get (fst s) i); [|discriminate]. destruct (eval s e); [|discriminate].
    destruct (set (fst s) i _) eqn:E; [|discriminate].
    injection H as <-. cbn [fst snd]. split; [|reflexivity]. eapply set_length; eauto.
Qed.

Lemma exec_lengths p : forall s s', exec s p = Some s' ->
  length (fst s') = length (fst s) /\ length (snd s') = length (snd s).
Proof.
  induction p as [|st r IH]; intros s s' H; cbn [exec] in H.
  - injection H as <-. split; reflexivity.
  - destruct (exec1 s st) as [s1|] eqn:E; [|discriminate].
    apply exec1_lengths in E. apply IH in H. destruct E, H. split; congruence.
Qed.

Lemma all_some_length {A} (l : list (option A)) : forall r, all_some l = Some r -> length r = length l.
Proof.
  induction l as [|x t IH]; intros r H; cbn [all_some] in H.
  - injection H as <-. reflexivity.
  - destruct x; [|discriminate]. destruct (all_some t) eqn:E; [|discriminate].
    injection H as <-. cbn [length]. f_equal. now apply IH.
Qed.

Lemma unpack_vals_length b c bytes vals : unpack_vals b c bytes = Some vals -> length vals = c.
Proof.
  unfold unpack_vals. intros H. destruct (exec _ _) as [st|] eqn:E; [|discriminate].
  apply exec_lengths in E. apply all_some_length in H. cbn [fst] in E. destruct E as [E _].
  rewrite H, E. apply repeat_length.
Qed.

Lemma unpack_all_length b : forall fuel n bytes ds, unpack_all fuel b n bytes = Some ds -> length ds = n.
Proof.
  induction fuel as [|f IH]; intros n bytes ds H; cbn [unpack_all] in H; [discriminate|].
  destruct (Nat.eqb_spec n 0) as [->|Hn0]; [injection H as <-; reflexivity|].
  destruct (Nat.leb_spec 8 n).
  - destruct (length bytes <? b)%nat; [discriminate|].
    destruct (unpack_vals b 8 _) as [x|] eqn:Ex; [|discriminate].
    destruct (unpack_all f b (n - 8) _) as [y|] eqn:Ey; [|discriminate].
    injection H as <-. apply unpack_vals_length in Ex. apply IH in Ey. rewrite app_length. lia.
  - destruct (length bytes <? nbytes b n)%nat; [discriminate|]. now apply unpack_vals_length in H.
Qed.

Lemma undeltas_length l : forall p, length (undeltas p l) = length l.
Proof. induction l as [|d r IH]; intros p; cbn [undeltas length]; [reflexivity|]. now rewrite IH. Qed.

Lemma v4_guard_bound (len doff : nat) (b n : N) :
  (N.of_nat len <? N.of_nat doff + whole_bytes (b * n)) = false -> bad_width b = false ->
  (N.to_nat n <= 8 * len)%nat /\ (doff + packed_len (N.to_nat b) (N.to_nat n) <= len)%nat.
Proof.
  intros Hg Hb. apply N.ltb_ge in Hg. unfold bad_width in Hb. apply orb_false_elim in Hb. destruct Hb as [Hb0 _].
  apply N.eqb_neq in Hb0.
  pose proof (whole_bytes_ge (b * n)).
  assert (n <= b * n) by nia.
  split; [lia|].
  assert (whole_bytes (b * n) = N.of_nat (packed_len (N.to_nat b) (N.to_nat n))).
  { rewrite <- whole_bytes_packed. now rewrite Nnat.N2Nat.id. }
  lia.
Qed.


Ltac brk H := repeat match type of H with
  | context[match ?x with _ => _ end] => destruct x eqn:?; try discriminate H
  end.

Ltac rd_facts := repeat match goal with
  | H : rd ?n ?off ?l = Some _ |- _ => apply rd_some_len in H
  | H : rd_entries ?n ?l = Some _ |- _ => apply rd_entries_some in H; rewrite ?skipn_length in H
  | H : unpack_all _ _ _ _ = Some _ |- _ => apply unpack_all_length in H
  | H : (_ <? _)%nat = false |- _ => apply Nat.ltb_ge in H
  end.

Theorem dec_bytes_bounded e bytes s : dec_bytes e bytes = Some s ->
  (length (k_entries s) <= 8 * length bytes)%nat.
Proof.
  unfold dec_bytes, bind. intros H. brk H.
  all: injection H as <-; cbn [mk k_entries].
  all: rewrite ?undeltas_length.
  all: try match goal with
    | Hg : (N.of_nat (length _) <? _ + whole_bytes _) = false, Hb : bad_width _ = false |- _ =>
        destruct (v4_guard_bound _ _ _ _ Hg Hb) as [? _]
    end.
  all: rd_facts; cbn [length]; lia.
Qed.

Lemma k_entries_mk e o sh th ents : k_entries (mk e o sh th ents) = ents.
Proof. reflexivity. Qed.

Lemma some_pair_inv {A B} (a c : A) (b d : B) : Some (a, b) = Some (c, d) -> a = c /\ b = d.
Proof. intros H. injection H as -> ->. split; reflexivity. Qed.

Ltac len_norm := repeat match goal with
  | |- context[length (?x :: ?l)] => change (length (x :: l)) with (S (length l))
  | |- context[@length N nil] => change (@length N nil) with 0%nat
  end.

Theorem dec_stream_bounded e bytes s used : dec_stream e bytes = Some (s, used) ->
  (length (k_entries s) <= 8 * length bytes)%nat /\ (used <= length bytes)%nat.
Proof.
  unfold dec_stream, bind. intros H.
  brk H.
  all: apply some_pair_inv in H; destruct H as [Hs Hu]; subst s used; rewrite k_entries_mk.
  all: rewrite ?undeltas_length.
  all: try match goal with
    | Hb : bad_width _ || _ = false |- _ => apply orb_false_elim in Hb; destruct Hb as [Hb _]
    end.
  all: try match goal with
    | Hg : (N.of_nat (length _) <? _ + whole_bytes _) = false, Hb : bad_width _ = false |- _ =>
        destruct (v4_guard_bound _ _ _ _ Hg Hb) as [? ?]
    end.
  all: try match goal with
    | Hm : (_ mod 8 =? 0)%nat = _ |- _ => unfold packed_len in *; rewrite Hm in *
    end.
  all: rd_facts; len_norm; lia.
Qed.


(* ---------- strict prefixes of an image ---------- *)
Lemma rd_prefix k off n l v : rd k off (firstn n l) = Some v -> rd k off l = Some v /\ (off + k <= n)%nat.
Proof.
  intros H. pose proof (rd_some_len _ _ _ _ H) as Hl. rewrite firstn_length in Hl.
  split; [|lia]. destruct (Nat.le_ge_cases n (length l)) as [Hn|Hn].
  - rewrite rd_firstn in H by lia. exact H.
  - rewrite firstn_all2 in H by lia. exact H.
Qed.

Lemma dec_stream_min_len e l r : dec_stream e l = Some r -> (8 <= length l)%nat.
Proof.
  unfold dec_stream, bind. intros H. brk H. all: rd_facts; lia.
Qed.

Lemma some_inj' {A} (a b : A) : Some a = Some b -> a = b.
Proof. intros H. injection H as ->. reflexivity. Qed.

(* turn successful reads from a prefix into the known field values of the full image *)
Ltac prefix_facts := repeat match goal with
  | H : rd ?k ?off (firstn ?n ?l) = Some ?v |- _ =>
      let H1 := fresh "Hrd" in let H2 := fresh "Hle" in
      apply rd_prefix in H; destruct H as [H1 H2]
  end.

Ltac known_field Hk := match type of Hk with
  | rd ?k ?off ?l = Some _ =>
      repeat match goal with
      | Hy : rd k off l = Some ?w |- _ => is_var w; rewrite Hk in Hy; apply some_inj' in Hy; subst w
      end
  end.

Theorem v3_prefix_stream s e n : wf s -> (n < length (enc_v3 s))%nat ->
  dec_stream e (firstn n (enc_v3 s)) = None.
Proof.
  intros Hwf Hn. destruct (dec_stream e (firstn n (enc_v3 s))) as [r|] eqn:H; [exfalso|reflexivity].
  pose proof (dec_stream_min_len _ _ _ H) as H8. rewrite firstn_length in H8.
  pose proof Hwf as (Hsh & _).
  destruct (v3_header s [] Hsh) as (H0 & H1 & H2 & H5 & H6 & Hl). rewrite app_nil_r in *.
  rewrite (dec_stream_v3_eq e _ (pre_longs_v3 s) (flags_v3 s) (k_seed_hash s)) in H
    by (rewrite rd_firstn by lia; assumption).
  unfold dec_stream_v3_body in H.
  destruct (v3_shapes s [] Hwf) as [Hem He Hpre Hb2 Hlen | e0 Hem Hest He Hpre Hb2 Hr Hlen
    | Hem Hest Hpre Hn1 Hb2 Hr Hr' Hsk Hlen | Hem Hest Hpre Hb2 Hr Hr' Hrt Hsk Hlen];
    rewrite ?app_nil_r in *; [|rewrite Hb2 in H; rewrite Hpre in H ..].
  - lia.
  - change (1 =? 1) with true in H. cbv iota in H. unfold bind in H. brk H. prefix_facts. lia.
  - change (2 =? 1) with false in H. change (2 <? 2) with false in H. cbv iota in H. unfold bind in H.
    brk H. prefix_facts. known_field Hr.
    rd_facts. rewrite ?firstn_length, ?nent_to_nat in *. lia.
  - change (3 =? 1) with false in H. change (2 <? 3) with true in H. cbv iota in H. unfold bind in H.
    brk H. prefix_facts. known_field Hr.
    rd_facts. rewrite ?firstn_length, ?nent_to_nat in *. lia.
Qed.

(* The byte-buffer reader rejects every strict prefix (the parser checks that the whole preamble is present
   before it reads the entry count, so even the unused padding bytes 12..15 must be there). *)
Theorem v3_prefix_bytes s e n : wf s -> (n < length (enc_v3 s))%nat ->
  dec_bytes e (firstn n (enc_v3 s)) = None.
Proof.
  intros Hwf Hn.
  destruct (Nat.lt_ge_cases n 8) as [H8|H8].
  { unfold dec_bytes. rewrite firstn_length.
    destruct (Nat.ltb_spec (Nat.min n (length (enc_v3 s))) 8); [reflexivity|lia]. }
  pose proof Hwf as (Hsh & _).
  destruct (v3_header s [] Hsh) as (H0 & H1 & H2 & H5 & H6 & Hl). rewrite app_nil_r in *.
  rewrite (dec_bytes_v3_eq e _ (pre_longs_v3 s) (flags_v3 s) (k_seed_hash s))
    by (rewrite ?rd_firstn by lia; try assumption; rewrite firstn_length; lia).
  unfold dec_bytes_v3_body.
  destruct (v3_shapes s [] Hwf) as [Hem He Hpre Hb2 Hlen | e0 Hem Hest He Hpre Hb2 Hr Hlen
    | Hem Hest Hpre Hn1 Hb2 Hr Hr' Hsk Hlen | Hem Hest Hpre Hb2 Hr Hr' Hrt Hsk Hlen];
    rewrite ?app_nil_r in *; [lia|rewrite Hb2; rewrite Hpre ..].
  - change (1 =? 1) with true. change (2 <? 1) with false. cbv iota. unfold bind.
    rewrite (rd_short 8 8) by (rewrite firstn_length; lia). destruct (negb _); reflexivity.
  - change (2 =? 1) with false. change (2 <? 2) with false. cbv iota. unfold bind.
    destruct (negb _); [reflexivity|].
    destruct (Nat.ltb_spec (length (firstn n (enc_v3 s))) 16) as [|Hge]; [reflexivity|].
    rewrite firstn_length in Hge.
    destruct (rd 4 8 (firstn n (enc_v3 s))) as [n0|] eqn:E48; [|reflexivity].
    apply rd_prefix in E48. destruct E48 as [E48 _]. rewrite Hr in E48. apply some_inj' in E48. subst n0.
    destruct (too_many _ _ _); [reflexivity|].
    rewrite rd_entries_short; [reflexivity|].
    rewrite skipn_length, firstn_length, nent_to_nat. lia.
  - change (3 =? 1) with false. change (2 <? 3) with true. cbv iota. unfold bind.
    destruct (negb _); [reflexivity|].
    destruct (rd 8 16 (firstn n (enc_v3 s))) as [t0|] eqn:E816; [|reflexivity].
    destruct (Nat.ltb_spec (length (firstn n (enc_v3 s))) 24) as [|Hge]; [reflexivity|].
    destruct (rd 4 8 (firstn n (enc_v3 s))) as [n0|] eqn:E48; [|reflexivity].
    apply rd_prefix in E48. destruct E48 as [E48 _]. rewrite Hr in E48. apply some_inj' in E48. subst n0.
    apply rd_prefix in E816. destruct E816 as [_ E816].
    destruct (too_many _ _ _); [reflexivity|].
    rewrite rd_entries_short; [reflexivity|].
    rewrite skipn_length, firstn_length, nent_to_nat. lia.
Qed.

Theorem v4_prefix s e n img : wf4 s -> suitable_for_compression s = true -> enc_v4 s = Some img ->
  (n < length img)%nat ->
  dec_bytes e (firstn n img) = None /\ dec_stream e (firstn n img) = None.
Proof.
  intros Hwf4 Hs Himg Hn. destruct (suitable_facts s Hs) as (Ho & Hn0 & Hne).
  destruct (enc_v4_image s Hwf4 Hs) as [packed [Himg' [Hplen _]]].
  rewrite Himg in Himg'. apply some_inj' in Himg'. subst img.
  assert (Hlen : length (v4_head s ++ packed) = (v4_doff s + packed_len (N.to_nat (entry_bits s)) (length (k_entries s)))%nat)
    by (rewrite app_length, v4_head_length, Hplen; reflexivity).
  destruct (v4_header s packed Hwf4 Hne) as (H0 & H1 & H2 & H3 & H4 & H5 & H6 & Hl & Hth & Hcnt & Hsk).
  set (img := v4_head s ++ packed) in *.
  pose proof Hwf4 as (Hwf & _). pose proof Hwf as (_ & _ & _ & Hnn & _).
  assert (Hwb : whole_bytes (entry_bits s * nent s) = N.of_nat (packed_len (N.to_nat (entry_bits s)) (length (k_entries s))))
    by (unfold nent; apply whole_bytes_packed).
  destruct (Nat.lt_ge_cases n 8) as [H8|H8].
  { split.
    - unfold dec_bytes. rewrite firstn_length.
      destruct (Nat.ltb_spec (Nat.min n (length img)) 8); [reflexivity|lia].
    - destruct (dec_stream e (firstn n img)) eqn:H; [|reflexivity].
      apply dec_stream_min_len in H. rewrite firstn_length in H. lia. }
  split.
  - destruct (dec_bytes e (firstn n img)) as [r|] eqn:H; [exfalso|reflexivity].
    rewrite (dec_bytes_v4_eq e _ (v4_pre s) (entry_bits s) (num_entries_bytes s) (k_seed_hash s)) in H
      by (rewrite ?rd_firstn by lia; try assumption; rewrite firstn_length; lia).
    unfold dec_bytes_v4_body, v4_pre, v4_doff in *.
    destruct (est_mode s) eqn:Hest.
    + change (1 <? 2) with true in H. cbv iota in H. unfold bind in H. brk H. prefix_facts.
      known_field Hcnt. rewrite (w32_small _ Hnn), Hwb, firstn_length in *. match goal with Hg : (_ <? _ + N.of_nat (packed_len _ _)) = false |- _ => apply N.ltb_ge in Hg end. lia.
    + change (1 <? 1) with false in H. cbv iota in H. unfold bind in H. brk H. prefix_facts.
      known_field Hcnt. rewrite (w32_small _ Hnn), Hwb, firstn_length in *. match goal with Hg : (_ <? _ + N.of_nat (packed_len _ _)) = false |- _ => apply N.ltb_ge in Hg end. lia.
  - destruct (dec_stream e (firstn n img)) as [r|] eqn:H; [exfalso|reflexivity].
    rewrite (dec_stream_v4_eq e _ (v4_pre s) (entry_bits s) (num_entries_bytes s) flags_v4 (k_seed_hash s)) in H
      by (rewrite ?rd_firstn by lia; assumption).
    unfold dec_stream_v4_body, v4_pre, v4_doff in *.
    destruct (est_mode s) eqn:Hest.
    + change (1 <? 2) with true in H. cbv iota in H. unfold bind in H. brk H. prefix_facts.
      known_field Hcnt. rewrite (w32_small _ Hnn), Hwb, firstn_length in *. match goal with Hg : (_ <? _ + N.of_nat (packed_len _ _)) = false |- _ => apply N.ltb_ge in Hg end. lia.
    + change (1 <? 1) with false in H. cbv iota in H. unfold bind in H. brk H. prefix_facts.
      known_field Hcnt. rewrite (w32_small _ Hnn), Hwb, firstn_length in *. match goal with Hg : (_ <? _ + N.of_nat (packed_len _ _)) = false |- _ => apply N.ltb_ge in Hg end. lia.
Qed.
