(* FiCodecProofs.v — proofs about the frequent-items sketch image (FiCodecDefs.v: fi_enc = FiDefs.sk_serialize, fi_dec for
   both readers): round trip with trailing bytes and bytes consumed, observational equality of the restored sketch,
   image size, field offsets, rejection of every strict prefix, bounds on what is accepted from arbitrary bytes. *)
From Coq Require Import ZArith NArith List Bool Lia Arith PeanoNat Permutation.
From DS Require Import Word Murmur3 RunnerLib FiDefs FiProofs FiMapProofs FiDelProofs FiIterProofs FiRefine FiSerProofs FiCodecDefs.
Import ListNotations.
Local Open Scope Z_scope.

(* ---------------- split_at / de_weights / de_items ---------------- *)
Lemma split_at_none n (l : list Z) : (length l < n)%nat -> split_at n l = None.
Proof. intros H. unfold split_at. replace (n <=? length l)%nat with false by (symmetry; apply Nat.leb_gt; lia). reflexivity. Qed.

Lemma split_at_some n (l a b : list Z) : split_at n l = Some (a, b) ->
  l = a ++ b /\ length a = n /\ (length l = n + length b)%nat.
Proof.
  unfold split_at. destruct (Nat.leb_spec n (length l)); [|discriminate]. intros E. inversion E; subst.
  split; [symmetry; apply firstn_skipn|]. rewrite firstn_length, skipn_length. lia.
Qed.

Lemma de_items_g_eq kind n : forall l, de_items_g kind n l = de_items kind n l.
Proof.
  induction n as [|n IH]; intros l; [reflexivity|]. cbn [de_items_g de_items].
  destruct (kind =? 2).
  - destruct (split_at 4 l) as [[lb r]|]; [|reflexivity].
    destruct (Z.ltb_spec (Z.of_nat (length r)) (le_dec lb)) as [Hlt|Hge].
    + rewrite split_at_none by lia. reflexivity.
    + destruct (split_at (Z.to_nat (le_dec lb)) r) as [[x r2]|]; [|reflexivity]. now rewrite IH.
  - destruct (split_at 8 l) as [[b r]|]; [|reflexivity]. now rewrite IH.
Qed.

Lemma de_weights_len n : forall l ws r, de_weights n l = Some (ws, r) ->
  length ws = n /\ (length l = 8 * n + length r)%nat.
Proof.
  induction n as [|n IH]; intros l ws r H; cbn [de_weights] in H.
  - inversion H; subst. split; [reflexivity|lia].
  - destruct (split_at 8 l) as [[b r1]|] eqn:E; [|discriminate].
    destruct (de_weights n r1) as [[ws1 r2]|] eqn:E2; [|discriminate]. inversion H; subst.
    destruct (split_at_some _ _ _ _ E) as (_ & _ & L1). destruct (IH _ _ _ E2) as [L2 L3].
    split; [simpl; lia|lia].
Qed.

Lemma de_items_len kind n : forall l xs r, de_items kind n l = Some (xs, r) ->
  length xs = n /\ (length r <= length l)%nat.
Proof.
  induction n as [|n IH]; intros l xs r H; cbn [de_items] in H.
  - inversion H; subst. split; [reflexivity|lia].
  - destruct (kind =? 2).
    + destruct (split_at 4 l) as [[lb r1]|] eqn:E; [|discriminate].
      destruct (split_at (Z.to_nat (le_dec lb)) r1) as [[x r2]|] eqn:E1; [|discriminate].
      destruct (de_items kind n r2) as [[xs1 r3]|] eqn:E2; [|discriminate]. inversion H; subst.
      destruct (split_at_some _ _ _ _ E) as (_ & _ & L1). destruct (split_at_some _ _ _ _ E1) as (_ & _ & L2).
      destruct (IH _ _ _ E2) as [L3 L4]. split; [simpl; lia|lia].
    + destruct (split_at 8 l) as [[b r1]|] eqn:E; [|discriminate].
      destruct (de_items kind n r1) as [[xs1 r3]|] eqn:E2; [|discriminate]. inversion H; subst.
      destruct (split_at_some _ _ _ _ E) as (_ & _ & L1). destruct (IH _ _ _ E2) as [L3 L4].
      split; [simpl; lia|lia].
Qed.

(* a strict prefix of the weights block does not hold n weights *)
Lemma de_weights_short n : forall l, (length l < 8 * n)%nat -> de_weights n l = None.
Proof.
  induction n as [|n IH]; intros l H; [lia|]. cbn [de_weights].
  destruct (split_at 8 l) as [[b r]|] eqn:E; [|reflexivity].
  destruct (split_at_some _ _ _ _ E) as (_ & _ & L1). rewrite IH by lia. reflexivity.
Qed.

Lemma ser_item_length kind x : item_ok kind x -> Z.of_nat (length (ser_item kind x)) = item_size kind x.
Proof.
  unfold item_ok, ser_item, item_size. destruct (kind =? 2).
  - intros _. rewrite app_length, le_enc_length. unfold nz. lia.
  - intros [v [-> _]]. now rewrite le_enc_length.
Qed.

(* a strict prefix of the items block does not hold all the items *)
Lemma de_items_prefix kind (xs : list item) : Forall (item_ok kind) xs ->
  forall j, (j < length (flat_map (ser_item kind) xs))%nat ->
  de_items kind (length xs) (firstn j (flat_map (ser_item kind) xs)) = None.
Proof.
  induction 1 as [|x xs Hx Hxs IH]; intros j Hj; [simpl in Hj; lia|].
  cbn [length flat_map de_items] in *. rewrite app_length in Hj.
  set (E := flat_map (ser_item kind) xs) in *.
  destruct (le_lt_dec (length (ser_item kind x)) j) as [Hge|Hlt].
  - (* the first item is complete *)
    rewrite firstn_app. rewrite firstn_all2 by lia.
    pose proof (de_items_spec kind [x] (firstn (j - length (ser_item kind x)) E) (Forall_cons _ Hx (Forall_nil _))) as H1.
    cbn [length flat_map de_items] in H1. rewrite app_nil_r in H1.
    specialize (IH (j - length (ser_item kind x))%nat ltac:(lia)).
    destruct (kind =? 2).
    + destruct (split_at 4 (ser_item kind x ++ firstn (j - length (ser_item kind x)) E)) as [[lb r]|]; [|reflexivity].
      destruct (split_at (Z.to_nat (le_dec lb)) r) as [[y r2]|]; [|reflexivity].
      inversion H1; subst. now rewrite IH.
    + destruct (split_at 8 (ser_item kind x ++ firstn (j - length (ser_item kind x)) E)) as [[b r]|]; [|reflexivity].
      inversion H1; subst. now rewrite IH.
  - (* the cut falls inside the first item *)
    rewrite firstn_app. replace (j - length (ser_item kind x))%nat with O by lia. rewrite firstn_O, app_nil_r.
    unfold item_ok, ser_item in *. destruct (kind =? 2) eqn:Ek.
    + rewrite app_length, le_enc_length in Hlt.
      destruct (le_lt_dec 4 j) as [H4|H4].
      * rewrite firstn_app, le_enc_length. rewrite firstn_all2 by (rewrite le_enc_length; lia).
        rewrite (split_at_app _ _ 4 (le_enc_length 4 _)).
        unfold nz. rewrite le_dec_enc by (change (256 ^ Z.of_nat 4) with (2 ^ 32); lia).
        rewrite Nat2Z.id. rewrite split_at_none; [reflexivity|]. rewrite firstn_length. lia.
      * rewrite split_at_none; [reflexivity|]. rewrite firstn_length. lia.
    + destruct Hx as [v [-> Hv]]. rewrite le_enc_length in Hlt.
      rewrite split_at_none; [reflexivity|]. rewrite firstn_length. lia.
Qed.

(* ---------------- header ---------------- *)
Lemma fi_dec_short kind bs : (length bs < 8)%nat -> fi_dec kind bs = None.
Proof.
  intros H. unfold fi_dec.
  destruct bs as [|? [|? [|? [|? [|? [|? [|? [|? ?]]]]]]]]; simpl in H; try reflexivity; lia.
Qed.

(* ---------------- values fit their fields; W = int64_t of the string sketch: below 2^63 ---------------- *)
Record SerOk2 (kind : Z) (s : sk) : Prop := {
  s2_ok : SerOk kind s;
  s2_tot : kind = 2 -> sk_tot _ s < 2 ^ 63;
  s2_off : kind = 2 -> sk_off _ s < 2 ^ 63;
  s2_cv : kind = 2 -> Forall (fun c => cv _ c < 2 ^ 63) (entries item (sk_map _ s))
}.

Lemma sgn64_id kind v : 0 <= v -> (kind = 2 -> v < 2 ^ 63) -> sgn64 kind v = v.
Proof.
  intros H0 H. unfold sgn64. destruct (Z.eqb_spec kind 2) as [E|]; [|reflexivity]. simpl.
  change 9223372036854775808 with (2 ^ 63). specialize (H E).
  replace (2 ^ 63 <=? v) with false by (symmetry; apply Z.leb_gt; lia). reflexivity.
Qed.

Lemma existsb_neg_false (l : list Z) : Forall (fun w => 0 <= w) l -> existsb (fun w => w <? 0) l = false.
Proof. induction 1; simpl; auto. replace (x <? 0) with false by (symmetry; apply Z.ltb_ge; lia). auto. Qed.

(* ---------------- C09: round trip, with anything after the image, through either reader ---------------- *)
Theorem fi_dec_enc kind (s : sk) rest : SerOk2 kind s ->
  fi_dec kind (fi_enc kind s ++ rest) =
  Some (sk_roundtrip item item_eqb (fi_hash kind) s, length (fi_enc kind s)).
Proof.
  intros [[Ht Ho Hn Hl [Hg1 Hg2] Hcv Hck] H2t H2o H2c]. unfold fi_enc, sk_serialize, sk_roundtrip.
  set (m := sk_map _ s) in *.
  assert (Elg : (Nz (lgc _ m) <=? Nz (lgm _ m)) = true) by (unfold Nz; apply Z.leb_le; lia).
  assert (Elc : (3 <=? Nz (lgc _ m)) = true) by (unfold Nz; apply Z.leb_le; lia).
  assert (Em : zN (Nz (lgm _ m)) = lgm _ m) by (unfold zN, Nz; apply N2Z.id).
  assert (Ec : zN (Nz (lgc _ m)) = lgc _ m) by (unfold zN, Nz; apply N2Z.id).
  destruct (nact _ m =? 0) eqn:E0.
  - cbn [app fi_dec]. change (Z.land 5 5 =? 0) with false. cbn [negb]. unfold hdr_ok.
    rewrite Elg, Elc. cbn [Z.eqb negb andb Pos.eqb]. now rewrite Em, Ec.
  - set (es := entries item m) in *.
    cbn [app fi_dec]. change (Z.land 0 5 =? 0) with true. cbn [negb]. unfold hdr_ok.
    rewrite Elg, Elc. cbn [Z.eqb negb andb Pos.eqb]. unfold fi_dec_body.
    rewrite <- !app_assoc.
    rewrite (split_at_app _ _ 4 (le_enc_length 4 _)).
    cbn [app]. rewrite split_at_cons4. rewrite <- !app_assoc.
    rewrite (split_at_app _ _ 8 (le_enc_length 8 _)).
    rewrite (split_at_app _ _ 8 (le_enc_length 8 _)).
    rewrite le_dec_enc by (change (256 ^ Z.of_nat 4) with (2 ^ 32); lia).
    replace (flat_map (fun c => le_enc 8 (cv _ c)) es) with (flat_map (le_enc 8) (map (cv item) es))
      by (rewrite flat_map_map; reflexivity).
    replace (flat_map (fun c => ser_item kind (ck _ c)) es) with (flat_map (ser_item kind) (map (ck item) es))
      by (rewrite flat_map_map; reflexivity).
    assert (Hwl : length (flat_map (le_enc 8) (map (cv item) es)) = (8 * length es)%nat).
    { clear. induction es as [|c es IH]; cbn [flat_map map length]; [reflexivity|]. rewrite app_length, le_enc_length, IH. lia. }
    replace (Z.of_nat (length (flat_map (le_enc 8) (map (cv item) es) ++ flat_map (ser_item kind) (map (ck item) es) ++ rest)) <?
             8 * nact _ m) with false
      by (symmetry; apply Z.ltb_ge; rewrite app_length, Hwl, Hl; lia).
    rewrite Hl, Nat2Z.id.
    rewrite <- (map_length (cv item) es) at 1.
    rewrite de_weights_spec by (rewrite Forall_map; exact Hcv).
    rewrite de_items_g_eq. rewrite <- (map_length (ck item) es) at 1.
    rewrite de_items_spec by (rewrite Forall_map; exact Hck).
    assert (Hsg : map (sgn64 kind) (map (cv item) es) = map (cv item) es).
    { rewrite map_map. apply map_ext_in. intros c Hc. rewrite Forall_forall in Hcv. apply sgn64_id; [apply (Hcv c Hc)|].
      intros Ek. specialize (H2c Ek). rewrite Forall_forall in H2c. exact (H2c c Hc). }
    rewrite Hsg. rewrite existsb_neg_false by (rewrite Forall_map; eapply Forall_impl; [|exact Hcv]; intros c Hc; simpl in Hc; lia).
    rewrite replay_combine, Em, Ec.
    rewrite !le_dec_enc by (change (256 ^ Z.of_nat 8) with (2 ^ 64); lia).
    rewrite !sgn64_id by (try lia; auto).
    f_equal. f_equal. repeat (rewrite app_length || cbn [length]). lia.
Qed.

(* ---------------- the restored sketch is observationally the original ---------------- *)
Section Obs.
  Variable kind : Z.
  Notation hash := (fi_hash kind).
  Notation MapWf := (MapWf item hash).
  Notation abs_ents := (abs_ents item).

  Definition not_purged_empty (s : sk) : Prop :=
    nact _ (sk_map _ s) <> 0 \/ (sk_tot _ s = 0 /\ sk_off _ s = 0).

  Theorem roundtrip_obs (s : sk) : MapWf (sk_map _ s) -> not_purged_empty s ->
    let s' := sk_roundtrip item item_eqb hash s in
    MapWf (sk_map _ s') /\
    lgm _ (sk_map _ s') = lgm _ (sk_map _ s) /\ length (tab _ (sk_map _ s')) = length (tab _ (sk_map _ s)) /\
    sk_tot _ s' = sk_tot _ s /\ sk_off _ s' = sk_off _ s /\ nact _ (sk_map _ s') = nact _ (sk_map _ s) /\
    Permutation (abs_ents (tab _ (sk_map _ s'))) (abs_ents (tab _ (sk_map _ s))) /\
    (forall x, sk_lb item item_eqb hash s' x = sk_lb item item_eqb hash s x).
  Proof.
    intros W Hne. unfold sk_roundtrip. set (m := sk_map _ s) in *.
    pose proof (w_le _ _ m W) as Hlgle. pose proof (w_min _ _ m W) as Hmin.
    pose proof (SkInv_new item item_eqb item_eqb_spec hash (lgm _ m) (lgc _ m) Hlgle) as Knew.
    destruct (Z.eqb_spec (nact _ m) 0) as [E0|N0].
    - (* no counter: the empty form; total and offset are zero *)
      destruct Hne as [Hne|[Ht Ho]]; [contradiction|].
      pose proof (k_wf _ _ _ _ _ _ Knew) as W0.
      assert (Hlen0 : length (tab _ (sk_map _ (sk_new item (lgm _ m) (lgc _ m)))) = length (tab _ m)).
      { unfold sk_new. cbn [sk_map tab]. rewrite repeat_length, (w_len _ _ m W). f_equal. lia. }
      assert (Ea : abs_ents (tab _ m) = []).
      { pose proof (w_nact _ _ m W) as Hn. rewrite E0, <- (abs_length item) in Hn. destruct (abs_ents (tab _ m)); [reflexivity|simpl in Hn; lia]. }
      assert (Ea0 : abs_ents (tab _ (sk_map _ (sk_new item (lgm _ m) (lgc _ m)))) = []).
      { pose proof (w_nact _ _ _ W0) as Hn.
        change (nact item (sk_map item (sk_new item (lgm item m) (lgc item m)))) with 0 in Hn.
        rewrite <- (abs_length item) in Hn.
        destruct (abs_ents (tab item (sk_map item (sk_new item (lgm item m) (lgc item m))))); [reflexivity|simpl in Hn; lia]. }
      split; [exact W0|]. split; [unfold sk_new; cbn [sk_map lgm]; lia|]. split; [exact Hlen0|].
      split; [simpl; lia|]. split; [simpl; lia|]. split; [simpl; lia|]. split; [rewrite Ea, Ea0; constructor|].
      intros x. rewrite !(sk_lb_tget item item_eqb hash), !(tget_abs item item_eqb item_eqb_spec hash) by (first [exact (w_pi _ _ _ W0)|exact (w_pi _ _ _ W)]).
      fold m. now rewrite Ea, Ea0.
    - set (s0 := sk_new item (lgm _ m) (lgc _ m)) in *.
      pose proof (SkInv_replay item item_eqb item_eqb_spec hash (entries item m) s0 _ _ Knew
                    (fun c H => entries_pos item hash _ c W H)) as K1.
      assert (Hfit : nact _ (sk_map _ s0) + Z.of_nat (length (entries item m)) <= capacity item (tab _ (sk_map _ s0))).
      { unfold s0, sk_new. cbn [sk_map nact tab].
        rewrite (Permutation_length (entries_active item hash m W)).
        replace (N.max (lgc _ m) 3) with (lgc _ m) by lia.
        rewrite <- (w_nact _ _ m W). pose proof (w_cap _ _ m W) as Hc. unfold capacity in *.
        rewrite repeat_length, <- (w_len _ _ m W). lia. }
      assert (Hoff1 : sk_off _ (sk_replay item item_eqb hash s0 (entries item m)) = 0).
      { rewrite (replay_fits item item_eqb item_eqb_spec hash); [reflexivity|exact (k_wf _ _ _ _ _ _ Knew)
                                                                 |exact (fun c H => entries_pos item hash _ c W H)|exact Hfit]. }
      set (s1 := sk_replay item item_eqb hash s0 (entries item m)) in *.
      destruct K1 as [W1 _ _ _ _ Hbr1].
      assert (Hget : forall y, tget item item_eqb hash (tab _ (sk_map _ s1)) y = tget item item_eqb hash (tab _ m) y).
      { intros y. specialize (Hbr1 y). cbv beta in Hbr1.
        rewrite Hoff1, (entries_weight item item_eqb item_eqb_spec hash) in Hbr1 by exact W.
        rewrite (sk_lb_tget item item_eqb hash) in Hbr1. lia. }
      assert (Hsame : Permutation (abs_ents (tab _ (sk_map _ s1))) (abs_ents (tab _ m))).
      { apply (perm_of_get item item_eqb item_eqb_spec).
        - apply (nodup_abs item hash). exact (w_pi _ _ _ W1).
        - apply (nodup_abs item hash). exact (w_pi _ _ _ W).
        - exact (w_pos _ _ _ W1).
        - exact (w_pos _ _ _ W).
        - intros y. rewrite <- !(tget_abs item item_eqb item_eqb_spec hash) by (first [exact (w_pi _ _ _ W1)|exact (w_pi _ _ _ W)]).
          apply Hget. }
      assert (Hnact : nact _ (sk_map _ s1) = nact _ m).
      { rewrite (w_nact _ _ _ W1), (w_nact _ _ _ W), <- !(abs_length item). now rewrite (Permutation_length Hsame). }
      (* the table keeps its size: no resize while the counters fit *)
      assert (Hlen : length (tab _ (sk_map _ s1)) = length (tab _ m) /\ lgm _ (sk_map _ s1) = lgm _ m).
      { assert (G : forall l s, MapWf (sk_map _ s) -> (forall c, In c l -> 0 < cv _ c) ->
                      nact _ (sk_map _ s) + Z.of_nat (length l) <= capacity item (tab _ (sk_map _ s)) ->
                      length (tab _ (sk_map _ (sk_replay item item_eqb hash s l))) = length (tab _ (sk_map _ s)) /\
                      lgm _ (sk_map _ (sk_replay item item_eqb hash s l)) = lgm _ (sk_map _ s)).
        { unfold sk_replay. induction l as [|c l IH]; intros s2 W2 Hv Hf; simpl; [split; reflexivity|].
          assert (Hc : 0 < cv _ c) by (apply Hv; now left).
          unfold sk_update at 2 4. destruct (Z.eqb_spec (cv _ c) 0) as [E|_]; [lia|].
          pose proof (aoi_correct item item_eqb item_eqb_spec hash (sk_map _ s2) (ck _ c) (cv _ c) W2 Hc) as H.
          destruct (adjust_or_insert item item_eqb hash (sk_map _ s2) (ck _ c) (cv _ c)) as [m' d].
          destruct H as (W' & _ & Hlgm & _ & Hf'). simpl length in Hf.
          destruct Hf' as (Hd & Hl' & Hn'); [lia|].
          destruct (IH {| sk_tot := sk_tot _ s2 + cv _ c; sk_off := sk_off _ s2 + d; sk_map := m' |}) as [A B]; cbn [sk_map]; auto.
          - intros c' Hc'. apply Hv. now right.
          - rewrite (capacity_len item _ _ Hl'). lia.
          - cbn [sk_map] in A, B. split; congruence. }
        destruct (G (entries item m) s0 (k_wf _ _ _ _ _ _ Knew) (fun c H => entries_pos item hash _ c W H) Hfit) as [A B].
        fold s1 in A, B. split.
        - rewrite A. unfold s0, sk_new. cbn [sk_map tab]. rewrite repeat_length, (w_len _ _ m W). f_equal. lia.
        - rewrite B. unfold s0, sk_new. cbn [sk_map lgm]. lia. }
      cbn [sk_map sk_tot sk_off].
      split; [exact W1|]. split; [apply Hlen|]. split; [apply Hlen|]. split; [reflexivity|]. split; [reflexivity|].
      split; [exact Hnact|]. split; [exact Hsame|].
      intros x. rewrite !(sk_lb_tget item item_eqb hash). cbn [sk_map]. apply Hget.
  Qed.
End Obs.

(* ---------------- image size = get_serialized_size_bytes ---------------- *)
Theorem fi_enc_size kind (s : sk) : SerOk kind s -> Z.of_nat (length (fi_enc kind s)) = fi_size kind s.
Proof.
  intros [_ _ _ Hl _ _ Hck]. unfold fi_enc, sk_serialize, fi_size. set (m := sk_map _ s) in *.
  destruct (nact _ m =? 0); [reflexivity|].
  rewrite Hl. repeat (rewrite app_length || rewrite le_enc_length || cbn [app length]).
  set (es := entries item m) in *.
  assert (A : length (flat_map (fun c => le_enc 8 (cv _ c)) es) = (8 * length es)%nat).
  { clear. induction es as [|c es IH]; cbn [flat_map map length]; [reflexivity|]. rewrite app_length, le_enc_length, IH. lia. }
  assert (B : Z.of_nat (length (flat_map (fun c => ser_item kind (ck _ c)) es)) =
              fold_right (fun c acc => item_size kind (ck _ c) + acc) 0 es).
  { clear - Hck. induction Hck as [|c es Hc Hes IH]; simpl; [reflexivity|].
    rewrite app_length, Nat2Z.inj_add, IH, (ser_item_length kind _ Hc). reflexivity. }
  rewrite A. lia.
Qed.

(* ---------------- C11: every strict prefix is rejected ---------------- *)
Theorem fi_prefix_rejected kind (s : sk) : SerOk kind s ->
  forall n, (n < length (fi_enc kind s))%nat -> fi_dec kind (firstn n (fi_enc kind s)) = None.
Proof.
  intros [Ht Ho Hn Hl [Hg1 Hg2] Hcv Hck] n Hlt. unfold fi_enc, sk_serialize in *. set (m := sk_map _ s) in *.
  destruct (le_lt_dec 8 n) as [H8|H8]; [|apply fi_dec_short; rewrite firstn_length; lia].
  destruct (nact _ m =? 0) eqn:E0; [simpl in Hlt; lia|].
  set (es := entries item m) in *.
  assert (Elg : (Nz (lgc _ m) <=? Nz (lgm _ m)) = true) by (unfold Nz; apply Z.leb_le; lia).
  assert (Elc : (3 <=? Nz (lgc _ m)) = true) by (unfold Nz; apply Z.leb_le; lia).
  set (body := le_enc 4 (nact _ m) ++ [0; 0; 0; 0] ++ le_enc 8 (sk_tot _ s) ++ le_enc 8 (sk_off _ s) ++
               flat_map (fun c => le_enc 8 (cv _ c)) es ++ flat_map (fun c => ser_item kind (ck _ c)) es) in *.
  change ([4; 1; 10; Nz (lgm _ m); Nz (lgc _ m); 0; 0; 0] ++ body) with
         (4 :: 1 :: 10 :: Nz (lgm _ m) :: Nz (lgc _ m) :: 0 :: 0 :: 0 :: body) in *.
  do 8 (destruct n as [|n]; [lia|]). cbn [firstn fi_dec]. cbn [length] in Hlt.
  change (Z.land 0 5 =? 0) with true. cbn [negb]. unfold hdr_ok. rewrite Elg, Elc. cbn [Z.eqb negb andb Pos.eqb].
  assert (Hn' : (n < length body)%nat) by lia. clear Hlt H8.
  unfold fi_dec_body.
  set (W := flat_map (fun c => le_enc 8 (cv _ c)) es) in *.
  set (I := flat_map (fun c => ser_item kind (ck _ c)) es) in *.
  assert (HW : length W = (8 * length es)%nat).
  { unfold W. clear. induction es as [|c es IH]; cbn [flat_map map length]; [reflexivity|]. rewrite app_length, le_enc_length, IH. lia. }
  assert (Hbody : length body = (24 + length W + length I)%nat).
  { unfold body. rewrite !app_length, !le_enc_length. cbn [length]. lia. }
  destruct (le_lt_dec 24 n) as [H24|H24].
  - (* the 24 bytes of counts are complete *)
    assert (Ef : firstn n body = le_enc 4 (nact _ m) ++ [0; 0; 0; 0] ++ le_enc 8 (sk_tot _ s) ++ le_enc 8 (sk_off _ s) ++
                                 firstn (n - 24) (W ++ I)).
    { unfold body. rewrite firstn_app, le_enc_length. rewrite firstn_all2 by (rewrite le_enc_length; lia). f_equal.
      rewrite firstn_app. cbn [length]. rewrite (firstn_all2 [0; 0; 0; 0]) by (simpl; lia). f_equal.
      rewrite firstn_app, le_enc_length. rewrite firstn_all2 by (rewrite le_enc_length; lia). f_equal.
      rewrite firstn_app, le_enc_length. rewrite firstn_all2 by (rewrite le_enc_length; lia). f_equal.
      f_equal. lia. }
    rewrite Ef.
    rewrite (split_at_app _ _ 4 (le_enc_length 4 _)). cbn [app]. rewrite split_at_cons4.
    rewrite (split_at_app _ _ 8 (le_enc_length 8 _)).
    rewrite (split_at_app _ _ 8 (le_enc_length 8 _)).
    rewrite le_dec_enc by (change (256 ^ Z.of_nat 4) with (2 ^ 32); lia).
    destruct (Z.ltb_spec (Z.of_nat (length (firstn (n - 24) (W ++ I)))) (8 * nact _ m)) as [Hs|Hs]; [reflexivity|].
    rewrite firstn_length, app_length in Hs. rewrite Hl in Hs.
    rewrite Hl, Nat2Z.id.
    rewrite firstn_app. rewrite firstn_all2 by lia.
    replace W with (flat_map (le_enc 8) (map (cv item) es)) by (rewrite flat_map_map; reflexivity).
    rewrite <- (map_length (cv item) es) at 1.
    rewrite de_weights_spec by (rewrite Forall_map; exact Hcv).
    rewrite de_items_g_eq.
    replace (length (flat_map (le_enc 8) (map (cv item) es))) with (length W) by (unfold W; now rewrite flat_map_map).
    replace I with (flat_map (ser_item kind) (map (ck item) es)) by (rewrite flat_map_map; reflexivity).
    rewrite <- (map_length (ck item) es) at 1.
    rewrite de_items_prefix; [reflexivity|rewrite Forall_map; exact Hck|].
    replace (flat_map (ser_item kind) (map (ck item) es)) with I by (unfold I; now rewrite flat_map_map). lia.
  - (* the cut falls inside the counts *)
    destruct (split_at 4 (firstn n body)) as [[nb r1]|] eqn:E1; [|reflexivity].
    destruct (split_at_some _ _ _ _ E1) as (_ & _ & L1).
    destruct (split_at 4 r1) as [[z r2]|] eqn:E2; [|reflexivity].
    destruct (split_at_some _ _ _ _ E2) as (_ & _ & L2).
    destruct (split_at 8 r2) as [[tb r3]|] eqn:E3; [|reflexivity].
    destruct (split_at_some _ _ _ _ E3) as (_ & _ & L3).
    destruct (split_at 8 r3) as [[ob r4]|] eqn:E4; [|reflexivity].
    destruct (split_at_some _ _ _ _ E4) as (_ & _ & L4).
    rewrite firstn_length in L1. lia.
Qed.

(* ---------------- C11: ARBITRARY bytes ---------------- *)
(* what is accepted was inside the supplied bytes: the bytes consumed and — for a non-empty image — the counts block and
   the declared number n of counters with their 8n weight bytes *)
Lemma fi_dec_body_bounded kind s0 total rest (s : sk) used : fi_dec_body kind s0 total rest = Some (s, used) ->
  (8 + length rest = total)%nat ->
  (32 <= used <= total)%nat /\ 32 + 8 * le_dec (firstn 4 rest) <= Z.of_nat used.
Proof.
  unfold fi_dec_body. intros H Ht.
  destruct (split_at 4 rest) as [[nb r1]|] eqn:E1; [|discriminate].
  destruct (split_at 4 r1) as [[z r2]|] eqn:E2; [|discriminate].
  destruct (split_at 8 r2) as [[tb r3]|] eqn:E3; [|discriminate].
  destruct (split_at 8 r3) as [[ob r4]|] eqn:E4; [|discriminate].
  destruct (Z.ltb_spec (Z.of_nat (length r4)) (8 * le_dec nb)) as [|Hge]; [discriminate|].
  destruct (de_weights (Z.to_nat (le_dec nb)) r4) as [[ws r5]|] eqn:E5; [|discriminate].
  rewrite de_items_g_eq in H.
  destruct (de_items kind (Z.to_nat (le_dec nb)) r5) as [[xs r6]|] eqn:E6; [|discriminate].
  destruct (existsb _ _); [discriminate|]. inversion H; subst used. clear H.
  destruct (split_at_some _ _ _ _ E1) as (R1 & N1 & L1). destruct (split_at_some _ _ _ _ E2) as (_ & _ & L2).
  destruct (split_at_some _ _ _ _ E3) as (_ & _ & L3). destruct (split_at_some _ _ _ _ E4) as (_ & _ & L4).
  destruct (de_weights_len _ _ _ _ E5) as [L5 L6]. destruct (de_items_len _ _ _ _ _ E6) as [L7 L8].
  assert (Enb : firstn 4 rest = nb) by (rewrite R1, firstn_app, N1, Nat.sub_diag, firstn_O, app_nil_r; rewrite <- N1; apply firstn_all).
  rewrite Enb. split; lia.
Qed.

Theorem fi_dec_content_bounded kind bs (s : sk) used : fi_dec kind bs = Some (s, used) ->
  (used <= length bs)%nat /\
  (Z.land (nth 5 bs 0) 5 = 0 ->
     (32 <= used)%nat /\ 32 + 8 * le_dec (firstn 4 (skipn 8 bs)) <= Z.of_nat used).
Proof.
  unfold fi_dec. destruct bs as [|pl [|sv [|fam [|lgmax [|lgcur [|flags [|u6 [|u7 rest]]]]]]]]; try discriminate.
  destruct (negb (hdr_ok pl sv fam lgmax lgcur (negb (Z.land flags 5 =? 0)))); [discriminate|].
  set (total := length (pl :: sv :: fam :: lgmax :: lgcur :: flags :: u6 :: u7 :: rest)).
  assert (Et : (8 + length rest = total)%nat) by reflexivity. clearbody total.
  cbn [nth skipn]. destruct (Z.eqb_spec (Z.land flags 5) 0) as [Ef|Ef]; cbn [negb].
  - intros H. destruct (fi_dec_body_bounded _ _ _ _ _ _ H Et) as [A B]. split; [lia|]. intros _. split; [lia|exact B].
  - intros E. inversion E; subst. split; [lia|]. intros H. contradiction.
Qed.

(* the hash table of an accepted image is sized by the lg_cur byte alone (by design: a sketch that grew keeps its table):
   8 bytes make both readers build 2^lg_cur slots *)
Theorem fi_table_sized_by_lg_cur kind lgmax lgcur rest : 3 <= lgcur <= lgmax ->
  fi_dec kind ([1; 1; 10; lgmax; lgcur; 5; 0; 0] ++ rest) = Some (sk_new item (zN lgmax) (zN lgcur), 8%nat) /\
  length (tab _ (sk_map _ (sk_new item (zN lgmax) (zN lgcur)))) = (2 ^ Z.to_nat lgcur)%nat.
Proof.
  intros H. split.
  - cbn [app fi_dec]. change (Z.land 5 5 =? 0) with false. cbn [negb]. unfold hdr_ok.
    replace (lgcur <=? lgmax) with true by (symmetry; apply Z.leb_le; lia).
    replace (3 <=? lgcur) with true by (symmetry; apply Z.leb_le; lia). reflexivity.
  - unfold sk_new. cbn [sk_map tab]. rewrite repeat_length. f_equal. unfold zN. lia.
Qed.

(* ---------------- C10: the fields sit at the documented offsets ---------------- *)
Lemma skipn_add {A} a b (l : list A) : skipn (a + b) l = skipn b (skipn a l).
Proof. revert l. induction a as [|a IH]; intros l; [reflexivity|]. destruct l; [now rewrite !skipn_nil|]. apply IH. Qed.

Lemma skipn_app_len {A} (a b : list A) n : length a = n -> skipn n (a ++ b) = b.
Proof. intros <-. induction a; simpl; auto. Qed.

Lemma weights_block (es : list (cell item)) i d : (i < length es)%nat ->
  firstn 8 (skipn (8 * i) (flat_map (fun c => le_enc 8 (cv _ c)) es)) = le_enc 8 (cv _ (nth i es d)).
Proof.
  revert i. induction es as [|c es IH]; intros i Hi; [simpl in Hi; lia|].
  cbn [flat_map]. destruct i as [|i].
  - replace (8 * 0)%nat with O by lia. cbn [skipn nth]. rewrite firstn_app, le_enc_length, Nat.sub_diag, firstn_O, app_nil_r.
    apply firstn_all2. rewrite le_enc_length. lia.
  - replace (8 * S i)%nat with (8 + 8 * i)%nat by lia. rewrite skipn_add.
    replace (skipn 8 (le_enc 8 (cv _ c) ++ flat_map (fun c0 => le_enc 8 (cv _ c0)) es))
      with (flat_map (fun c0 => le_enc 8 (cv _ c0)) es).
    + cbn [nth]. apply IH. simpl in Hi. lia.
    + symmetry. apply skipn_app_len, le_enc_length.
Qed.

Theorem fi_layout_empty kind (s : sk) : nact _ (sk_map _ s) = 0 ->
  fi_enc kind s = [1; 1; 10; Nz (lgm _ (sk_map _ s)); Nz (lgc _ (sk_map _ s)); 5; 0; 0].
Proof. intros H. unfold fi_enc, sk_serialize. rewrite H. reflexivity. Qed.

Theorem fi_layout_nonempty kind (s : sk) : nact _ (sk_map _ s) <> 0 ->
  let img := fi_enc kind s in let es := entries item (sk_map _ s) in
  firstn 8 img = [4; 1; 10; Nz (lgm _ (sk_map _ s)); Nz (lgc _ (sk_map _ s)); 0; 0; 0] /\
  firstn 4 (skipn 8 img) = le_enc 4 (nact _ (sk_map _ s)) /\
  firstn 4 (skipn 12 img) = [0; 0; 0; 0] /\
  firstn 8 (skipn 16 img) = le_enc 8 (sk_tot _ s) /\
  firstn 8 (skipn 24 img) = le_enc 8 (sk_off _ s) /\
  skipn 32 img = flat_map (fun c => le_enc 8 (cv _ c)) es ++ flat_map (fun c => ser_item kind (ck _ c)) es /\
  (forall i d, (i < length es)%nat -> firstn 8 (skipn (32 + 8 * i) img) = le_enc 8 (cv _ (nth i es d))) /\
  skipn (32 + 8 * length es) img = flat_map (fun c => ser_item kind (ck _ c)) es.
Proof.
  intros H img es. unfold img, fi_enc, sk_serialize. fold es.
  destruct (Z.eqb_spec (nact _ (sk_map _ s)) 0) as [E|_]; [contradiction|].
  set (W := flat_map (fun c => le_enc 8 (cv _ c)) es). set (I := flat_map (fun c => ser_item kind (ck _ c)) es).
  assert (HW : length W = (8 * length es)%nat).
  { unfold W. clear. induction es as [|c es IH]; cbn [flat_map map length]; [reflexivity|]. rewrite app_length, le_enc_length, IH. lia. }
  assert (S32 : skipn 32 ([4; 1; 10; Nz (lgm _ (sk_map _ s)); Nz (lgc _ (sk_map _ s)); 0; 0; 0] ++ le_enc 4 (nact _ (sk_map _ s)) ++
                          [0; 0; 0; 0] ++ le_enc 8 (sk_tot _ s) ++ le_enc 8 (sk_off _ s) ++ W ++ I) = W ++ I) by reflexivity.
  repeat split; try reflexivity.
  - intros i d Hi. rewrite skipn_add, S32. rewrite skipn_app, firstn_app.
    pose proof (weights_block es i d Hi) as Hw. fold W in Hw. rewrite Hw. rewrite skipn_length, HW.
    replace (8 - (8 * length es - 8 * i))%nat with O by lia. now rewrite firstn_O, app_nil_r.
  - rewrite skipn_add, S32. apply skipn_app_len. exact HW.
Qed.

(* ---------------- C09: the restored sketch re-serializes to the same image, up to the order of the counters ---------------- *)
Theorem fi_reserialize kind (s : sk) : MapWf item (fi_hash kind) (sk_map _ s) -> not_purged_empty s ->
  let s' := sk_roundtrip item item_eqb (fi_hash kind) s in
  firstn 32 (fi_enc kind s') = firstn 32 (fi_enc kind s) /\
  Permutation (map (fun c => (ck _ c, cv _ c)) (entries item (sk_map _ s')))
              (map (fun c => (ck _ c, cv _ c)) (entries item (sk_map _ s))).
Proof.
  intros W Hne s'. destruct (roundtrip_obs kind s W Hne) as (W' & Elgm & Elen & Et & Eo & En & Hperm & _). fold s' in W', Elgm, Elen, Et, Eo, En, Hperm.
  assert (Elgc : lgc _ (sk_map _ s') = lgc _ (sk_map _ s)).
  { rewrite (w_len _ _ _ W'), (w_len _ _ _ W) in Elen. apply Nat.pow_inj_r in Elen; lia. }
  split.
  - unfold fi_enc, sk_serialize. rewrite Elgm, Elgc, Et, Eo, En.
    destruct (nact _ (sk_map _ s) =? 0); reflexivity.
  - eapply perm_trans; [apply Permutation_map, (entries_active item (fi_hash kind) _ W')|].
    eapply perm_trans; [exact Hperm|]. apply Permutation_sym, Permutation_map, (entries_active item (fi_hash kind) _ W).
Qed.

(* ---------------- a boolean test of the side conditions (used for the examples) ---------------- *)
Definition item_ok_b (kind : Z) (x : item) : bool :=
  if kind =? 2 then Z.of_nat (length x) <? 2 ^ 32
  else match x with [v] => (0 <=? v) && (v <? 2 ^ 64) | _ => false end.

Definition ser_ok_b (kind : Z) (s : sk) : bool :=
  let m := sk_map _ s in let es := entries item m in
  (0 <=? sk_tot _ s) && (sk_tot _ s <? 2 ^ 64) && (0 <=? sk_off _ s) && (sk_off _ s <? 2 ^ 64) &&
  (0 <=? nact _ m) && (nact _ m <? 2 ^ 32) && (nact _ m =? Z.of_nat (length es)) &&
  (3 <=? lgc _ m)%N && (lgc _ m <=? lgm _ m)%N &&
  forallb (fun c => (0 <=? cv _ c) && (cv _ c <? 2 ^ 64) && item_ok_b kind (ck _ c)) es &&
  (if kind =? 2 then (sk_tot _ s <? 2 ^ 63) && (sk_off _ s <? 2 ^ 63) && forallb (fun c => cv _ c <? 2 ^ 63) es else true).

Lemma item_ok_b_sound kind x : item_ok_b kind x = true -> item_ok kind x.
Proof.
  unfold item_ok_b, item_ok. destruct (kind =? 2).
  - intros H. now apply Z.ltb_lt.
  - destruct x as [|v [|? ?]]; try discriminate. intros H. apply andb_true_iff in H. destruct H as [A B].
    apply Z.leb_le in A. apply Z.ltb_lt in B. exists v. auto.
Qed.

Lemma ser_ok_b_sound kind s : ser_ok_b kind s = true -> SerOk2 kind s.
Proof.
  unfold ser_ok_b. intros H.
  repeat (apply andb_true_iff in H; destruct H as [H ?]).
  repeat match goal with
         | H : (_ <=? _) = true |- _ => apply Z.leb_le in H
         | H : (_ <? _) = true |- _ => apply Z.ltb_lt in H
         | H : (_ =? _) = true |- _ => apply Z.eqb_eq in H
         | H : (_ <=? _)%N = true |- _ => apply N.leb_le in H
         end.
  match goal with H : forallb _ _ = true |- _ => rewrite forallb_forall in H; rename H into Hall end.
  rename H0 into Hk.
  assert (K2 : kind = 2 -> sk_tot _ s < 2 ^ 63 /\ sk_off _ s < 2 ^ 63 /\
                           Forall (fun c => cv _ c < 2 ^ 63) (entries item (sk_map _ s))).
  { intros E. rewrite E in Hk. change (2 =? 2) with true in Hk. cbv iota in Hk.
    apply andb_true_iff in Hk. destruct Hk as [Hk K3]. apply andb_true_iff in Hk. destruct Hk as [K1 K2'].
    apply Z.ltb_lt in K1. apply Z.ltb_lt in K2'. split; [exact K1|]. split; [exact K2'|].
    rewrite forallb_forall in K3. rewrite Forall_forall. intros c Hc. now apply Z.ltb_lt, K3. }
  constructor; [constructor; try lia; auto| | | ]; try (intros E; apply (K2 E)).
  - rewrite Forall_forall. intros c Hc. specialize (Hall c Hc).
    apply andb_true_iff in Hall. destruct Hall as [Hall _]. apply andb_true_iff in Hall. destruct Hall as [A B].
    apply Z.leb_le in A. apply Z.ltb_lt in B. lia.
  - rewrite Forall_forall. intros c Hc. specialize (Hall c Hc).
    apply andb_true_iff in Hall. destruct Hall as [_ C]. now apply item_ok_b_sound.
Qed.
