(* HllOpenAddr.v — correctness of the open-addressing search shared by CouponHashSet::find and
   AuxHashMap::find (HllDefs.oa_find): table of 2^lg cells, 0 = empty, probe sequence
   home, home+stride, home+2*stride, ... (mod 2^lg) with an ODD stride.
   Invariant [tinv]: every stored entry is reachable from its home along its own probe sequence without
   crossing an empty cell, and keys are unique.  Results: the search finds the cell of a stored key
   ([find_found]), finds an empty cell for an absent key as long as one cell is empty ([find_absent], by
   the bijectivity of the probe sequence), insertion / replacement / re-hashing preserve the invariant. *)
From Coq Require Import ZArith NArith List Bool Lia Permutation.
From DS Require Import Word RunnerLib HllDefs HllProofs.
Import ListNotations.
Local Open Scope N_scope.

(* ---------- arithmetic: multiplication by an odd number is injective modulo 2^lg ---------- *)
Lemma odd_mul_mod_zero lg s d : N.odd s = true -> d < 2 ^ lg -> (d * s) mod 2 ^ lg = 0 -> d = 0.
Proof.
  intros Hs. revert d. induction lg as [|lg IH] using N.peano_ind; intros d Hd Hm.
  - change (2 ^ 0) with 1 in Hd. lia.
  - rewrite N.pow_succ_r' in *.
    assert (He : N.even (d * s) = true).
    { apply N.even_spec. apply N.mod_divide in Hm; [|apply N.neq_mul_0; split; [discriminate|apply N.pow_nonzero; discriminate]].
      destruct Hm as [q Hq]. exists (q * 2 ^ lg). lia. }
    rewrite N.even_mul in He. rewrite <- (N.negb_odd s), Hs in He. cbn [negb] in He. rewrite orb_false_r in He.
    apply N.even_spec in He. destruct He as [d' ->].
    rewrite <- N.mul_assoc in Hm. rewrite N.mul_mod_distr_l in Hm by (try discriminate; apply N.pow_nonzero; discriminate).
    assert (d' = 0); [|lia]. apply IH; lia.
Qed.

Lemma add_mod_same_zero M x y : M <> 0 -> (x + y) mod M = x mod M -> y mod M = 0.
Proof.
  intros HM H. rewrite N.add_mod in H by exact HM.
  pose proof (N.mod_lt x M HM) as Hr. pose proof (N.mod_lt y M HM) as Ht.
  set (r := x mod M) in *. set (t := y mod M) in *.
  destruct (N.lt_ge_cases (r + t) M) as [Hlt|Hge].
  - rewrite N.mod_small in H by exact Hlt. lia.
  - assert (E : (r + t) mod M = r + t - M).
    { symmetry. apply (N.mod_unique (r + t) M 1); lia. }
    rewrite E in H. lia.
Qed.

(* ---------- lists ---------- *)
Lemma NoDup_map_inj {A B} (f : A -> B) l :
  NoDup l -> (forall x y, In x l -> In y l -> f x = f y -> x = y) -> NoDup (map f l).
Proof.
  induction 1 as [|a l Ha Hl IH]; intros Hinj; simpl; constructor.
  - rewrite in_map_iff. intros (y & Hy & Hin). apply Ha.
    assert (y = a) by (apply Hinj; simpl; auto). now subst.
  - apply IH. intros x y Hx Hy. apply Hinj; simpl; auto.
Qed.

Lemma seqN_NoDup n : NoDup (seqN n).
Proof.
  unfold seqN. apply NoDup_map_inj; [apply seq_NoDup|]. intros x y _ _ H. lia.
Qed.

Lemma nonzero_In l x : In x (nonzero l) <-> In x l /\ x <> 0.
Proof.
  unfold nonzero. rewrite filter_In. destruct (N.eqb_spec x 0); simpl; intuition congruence.
Qed.

Lemma In_getN l x : In x l -> exists i, i < lenN l /\ getN l i = x.
Proof.
  intros H. apply (In_nth l x 0) in H. destruct H as (n & Hn & E).
  exists (N.of_nat n). unfold getN, lenN. rewrite Nat2N.id. split; [lia|exact E].
Qed.

Lemma getN_In l i : i < lenN l -> In (getN l i) l.
Proof. unfold getN, lenN. intros. apply nth_In. lia. Qed.

Lemma nonzero_zeros n : nonzero (zerosN n) = [].
Proof. unfold zerosN. induction (N.to_nat n); simpl; auto. Qed.

(* filling an empty cell / overwriting a full cell, seen on the list of non-empty entries *)
Lemma nonzero_fill l i e : i < lenN l -> getN l i = 0 -> e <> 0 ->
  exists l1 l2, nonzero l = l1 ++ l2 /\ nonzero (setN l i e) = l1 ++ e :: l2.
Proof.
  unfold getN, setN, lenN. intros Hi. assert (Hn : (N.to_nat i < length l)%nat) by lia. clear Hi.
  revert Hn. generalize (N.to_nat i). induction l as [|x t IH]; intros [|n] Hn H0 He; simpl in *; try lia.
  - subst x. exists [], (nonzero t). simpl. destruct (N.eqb_spec e 0); [contradiction|]. auto.
  - destruct (IH n ltac:(lia) H0 He) as (l1 & l2 & E1 & E2).
    destruct (N.eqb_spec x 0); simpl.
    + exists l1, l2. auto.
    + exists (x :: l1), l2. simpl. now rewrite E1, E2.
Qed.

Lemma nonzero_replace l i e' : i < lenN l -> getN l i <> 0 -> e' <> 0 ->
  exists l1 l2, nonzero l = l1 ++ getN l i :: l2 /\ nonzero (setN l i e') = l1 ++ e' :: l2.
Proof.
  unfold getN, setN, lenN. intros Hi. assert (Hn : (N.to_nat i < length l)%nat) by lia. clear Hi.
  revert Hn. generalize (N.to_nat i). induction l as [|x t IH]; intros [|n] Hn H0 He; simpl in *; try lia.
  - exists [], (nonzero t). simpl. destruct (N.eqb_spec e' 0); [contradiction|].
    destruct (N.eqb_spec x 0); [contradiction|]. auto.
  - destruct (IH n ltac:(lia) H0 He) as (l1 & l2 & E1 & E2).
    destruct (N.eqb_spec x 0); simpl.
    + exists l1, l2. auto.
    + exists (x :: l1), l2. simpl. now rewrite E1, E2.
Qed.

Lemma exists_empty l : lenN (nonzero l) < lenN l -> exists i, i < lenN l /\ getN l i = 0.
Proof.
  unfold lenN, getN. induction l as [|x t IH]; simpl; [lia|]. intros H.
  destruct (N.eqb_spec x 0) as [->|Hx]; simpl in H.
  - exists 0. simpl. split; [lia|reflexivity].
  - destruct IH as (i & Hi & E); [lia|]. exists (i + 1).
    replace (N.to_nat (i + 1)) with (S (N.to_nat i)) by lia. split; [lia|exact E].
Qed.

Section OA.
  Variable lg : N.
  Let M := 2 ^ lg.
  Variable keyof : N -> N.
  Variable iskey : N -> N -> bool.
  Hypothesis iskey_spec : forall k e, iskey k e = true <-> keyof e = k.
  Variable home : N -> N.
  Variable stride : N -> N.
  Hypothesis stride_odd : forall k, N.odd (stride k) = true.
  Hypothesis home_lt : forall k, home k < M.

  Definition pr (k j : N) : N := (home k + j * stride k) mod M.

  Definition find (k : N) (arr : list N) : found :=
    oa_find (length arr) arr (N.ones lg) (iskey k) (stride k) (home k) (home k).

  Lemma M_nz : M <> 0.
  Proof. apply N.pow_nonzero. discriminate. Qed.

  Lemma pr_lt k j : pr k j < M.
  Proof. apply N.mod_lt, M_nz. Qed.

  Lemma pr_0 k : pr k 0 = home k.
  Proof. unfold pr. rewrite N.mul_0_l, N.add_0_r. apply N.mod_small, home_lt. Qed.

  Lemma pr_succ k j : N.land (pr k j + stride k) (N.ones lg) = pr k (j + 1).
  Proof.
    rewrite N.land_ones. fold M. unfold pr. rewrite N.add_mod_idemp_l by apply M_nz. f_equal. lia.
  Qed.

  Lemma pr_inj k a0 b0 : a0 < M -> b0 < M -> pr k a0 = pr k b0 -> a0 = b0.
  Proof.
    assert (W : forall a b, a <= b -> b < M -> pr k a = pr k b -> a = b).
    { intros a b Hab Hb H. unfold pr in H.
      assert (E : b * stride k = a * stride k + (b - a) * stride k).
      { rewrite <- N.mul_add_distr_r. f_equal. lia. }
      rewrite E, N.add_assoc in H.
      symmetry in H. apply add_mod_same_zero in H; [|apply M_nz].
      apply odd_mul_mod_zero in H; [lia|apply stride_odd|unfold M in *; lia]. }
    intros Ha Hb H. destruct (N.le_ge_cases a0 b0); [apply W; auto|symmetry; apply W; auto].
  Qed.

  Lemma pr_surj k i : i < M -> exists j, j < M /\ pr k j = i.
  Proof.
    intros Hi.
    assert (Hincl : incl (seqN M) (map (pr k) (seqN M))).
    { apply NoDup_length_incl.
      - apply NoDup_map_inj; [apply seqN_NoDup|]. intros x y Hx Hy. apply pr_inj; now apply in_seqN.
      - rewrite map_length. lia.
      - intros x Hx. apply in_map_iff in Hx. destruct Hx as (j & <- & _). apply in_seqN, pr_lt. }
    specialize (Hincl i ltac:(now apply in_seqN)). apply in_map_iff in Hincl.
    destruct Hincl as (j & E & Hj). exists j. split; [now apply in_seqN|exact E].
  Qed.

  (* ----- the invariant ----- *)
  Definition nonempty_before (arr : list N) (k j : N) : Prop := forall j', j' < j -> getN arr (pr k j') <> 0.
  Definition reach (arr : list N) : Prop := forall i, i < M -> getN arr i <> 0 ->
    exists j, j < M /\ pr (keyof (getN arr i)) j = i /\ nonempty_before arr (keyof (getN arr i)) j.
  Definition nodupk (arr : list N) : Prop := forall i i', i < M -> i' < M ->
    getN arr i <> 0 -> getN arr i' <> 0 -> keyof (getN arr i) = keyof (getN arr i') -> i = i'.
  Definition tinv (arr : list N) : Prop := lenN arr = M /\ reach arr /\ nodupk arr.
  Definition absent (k : N) (arr : list N) : Prop := forall i, i < M -> getN arr i <> 0 -> keyof (getN arr i) <> k.

  Definition passed (arr : list N) (k j : N) : Prop :=
    forall j', j' < j -> getN arr (pr k j') <> 0 /\ keyof (getN arr (pr k j')) <> k.

  Lemma find_run arr k : forall fuel j, N.of_nat fuel + j = M -> passed arr k j ->
    match oa_find fuel arr (N.ones lg) (iskey k) (stride k) (pr k j) (home k) with
    | Found i => i < M /\ getN arr i <> 0 /\ keyof (getN arr i) = k
    | Empty i => exists j0, j0 < M /\ i = pr k j0 /\ getN arr i = 0 /\ passed arr k j0
    | Fail => passed arr k M
    end.
  Proof.
    induction fuel as [|f IH]; intros j Hj Hp; cbn [oa_find].
    - replace M with j by lia. exact Hp.
    - destruct (N.eqb_spec (getN arr (pr k j)) 0) as [E0|E0].
      + exists j. split; [lia|]. auto.
      + destruct (iskey k (getN arr (pr k j))) eqn:Ek.
        * apply iskey_spec in Ek. split; [apply pr_lt|]. auto.
        * assert (Hnk : keyof (getN arr (pr k j)) <> k).
          { intros C. apply iskey_spec in C. congruence. }
          assert (Hp' : passed arr k (j + 1)).
          { intros j' Hj'. destruct (N.eq_dec j' j) as [->|]; [auto|apply Hp; lia]. }
          rewrite pr_succ. destruct (N.eqb_spec (pr k (j + 1)) (home k)) as [Es|Es].
          -- destruct (N.eq_dec (j + 1) M) as [EM|NM]; [now rewrite <- EM|].
             exfalso. rewrite <- (pr_0 k) in Es. apply pr_inj in Es; lia.
          -- apply IH; [lia|exact Hp'].
  Qed.

  Lemma passed_0 arr k : passed arr k 0.
  Proof. intros j' H. lia. Qed.

  Lemma find_cases arr k : lenN arr = M ->
    match find k arr with
    | Found i => i < M /\ getN arr i <> 0 /\ keyof (getN arr i) = k
    | Empty i => exists j0, j0 < M /\ i = pr k j0 /\ getN arr i = 0 /\ passed arr k j0
    | Fail => passed arr k M
    end.
  Proof.
    intros Hl. unfold find.
    pose proof (find_run arr k (length arr) 0 ltac:(unfold lenN in Hl; lia) (passed_0 arr k)) as H.
    rewrite pr_0 in H. exact H.
  Qed.

  Lemma find_found arr k i : tinv arr -> i < M -> getN arr i <> 0 -> keyof (getN arr i) = k ->
    find k arr = Found i.
  Proof.
    intros (Hl & Hr & Hd) Hi Hne Hk. pose proof (find_cases arr k Hl) as Hc.
    destruct (Hr i Hi Hne) as (ji & Hji & Epr & Hnb). rewrite Hk in *.
    destruct (find k arr) as [i'|i'|].
    - destruct Hc as (Hi' & Hne' & Hk'). f_equal. apply Hd; auto. congruence.
    - exfalso. destruct Hc as (j0 & Hj0 & -> & Hz & Hp).
      destruct (N.lt_trichotomy j0 ji) as [H|[H|H]].
      + now apply (Hnb j0 H).
      + subst j0. congruence.
      + destruct (Hp ji H) as [_ Hnk]. rewrite Epr in Hnk. congruence.
    - exfalso. destruct (Hc ji Hji) as [_ Hnk]. rewrite Epr in Hnk. congruence.
  Qed.

  Lemma find_absent arr k : tinv arr -> absent k arr -> (exists i, i < M /\ getN arr i = 0) ->
    exists i j0, find k arr = Empty i /\ i < M /\ getN arr i = 0 /\ i = pr k j0 /\ nonempty_before arr k j0.
  Proof.
    intros (Hl & Hr & Hd) Ha (ie & Hie & Hz). pose proof (find_cases arr k Hl) as Hc.
    destruct (find k arr) as [i'|i'|].
    - exfalso. destruct Hc as (Hi' & Hne' & Hk'). now apply (Ha i' Hi' Hne').
    - destruct Hc as (j0 & Hj0 & -> & Hz0 & Hp). exists (pr k j0), j0.
      repeat split; auto; [apply pr_lt|]. intros j' Hj'. now apply Hp.
    - exfalso. destruct (pr_surj k ie Hie) as (j & Hj & E). destruct (Hc j Hj) as [Hne _]. congruence.
  Qed.

  Lemma find_Empty_absent arr k i : tinv arr -> find k arr = Empty i -> absent k arr.
  Proof.
    intros Ht Hf i' Hi' Hne Hk. rewrite (find_found arr k i' Ht Hi' Hne Hk) in Hf. discriminate.
  Qed.

  Lemma find_Empty_path arr k i : lenN arr = M -> find k arr = Empty i ->
    exists j0, i < M /\ getN arr i = 0 /\ i = pr k j0 /\ nonempty_before arr k j0.
  Proof.
    intros Hl Hf. pose proof (find_cases arr k Hl) as Hc. rewrite Hf in Hc.
    destruct Hc as (j0 & Hj0 & -> & Hz & Hp). exists j0. repeat split; auto; [apply pr_lt|].
    intros j' Hj'. now apply Hp.
  Qed.

  Lemma find_Found_sound arr k i : lenN arr = M -> find k arr = Found i ->
    i < M /\ getN arr i <> 0 /\ keyof (getN arr i) = k.
  Proof. intros Hl Hf. pose proof (find_cases arr k Hl) as Hc. now rewrite Hf in Hc. Qed.

  Lemma find_not_Fail arr k : tinv arr -> lenN (nonzero arr) < M -> find k arr <> Fail.
  Proof.
    intros Ht Hc Hf. destruct Ht as (Hl & Hr & Hd). pose proof (find_cases arr k Hl) as Hcs. rewrite Hf in Hcs.
    destruct (exists_empty arr ltac:(lia)) as (ie & Hie & Hz).
    destruct (pr_surj k ie ltac:(lia)) as (j & Hj & E). destruct (Hcs j Hj) as [Hne _]. congruence.
  Qed.

  Lemma tinv_zeros : tinv (zerosN M).
  Proof.
    split; [apply zerosN_length|]. split.
    - intros i _ H. now rewrite getN_zerosN in H.
    - intros i i' _ _ H. now rewrite getN_zerosN in H.
  Qed.

  Lemma nonempty_before_fill arr i e k j : lenN arr = M -> i < M -> e <> 0 ->
    nonempty_before arr k j -> nonempty_before (setN arr i e) k j.
  Proof.
    intros Hl Hi He Hnb j' Hj'. rewrite getN_setN by lia.
    destruct (i =? pr k j'); [exact He|now apply Hnb].
  Qed.

  (* inserting an entry with a new key into the empty cell found by the search *)
  Lemma insert_tinv arr e i : tinv arr -> e <> 0 -> find (keyof e) arr = Empty i -> tinv (setN arr i e).
  Proof.
    intros Ht He Hf. pose proof (find_Empty_absent arr _ i Ht Hf) as Ha.
    destruct Ht as (Hl & Hr & Hd).
    destruct (find_Empty_path arr _ i Hl Hf) as (j0 & Hi & Hz & Epr & Hnb).
    split; [now rewrite lenN_setN|]. split.
    - intros i1 Hi1 Hne. rewrite getN_setN in * by lia.
      destruct (N.eqb_spec i i1) as [<-|Hne1].
      + exists j0. split; [|split; [now symmetry|now apply nonempty_before_fill]].
        destruct (pr_surj (keyof e) i Hi) as (j & Hj & E).
        destruct (N.lt_ge_cases j0 M); auto.
        (* j0 >= M cannot be: position j < M <= j0 is passed, but it is cell i which is empty *)
        exfalso. apply (Hnb j ltac:(lia)). now rewrite E.
      + destruct (Hr i1 Hi1 Hne) as (j & Hj & E & Hb). exists j. split; [exact Hj|]. split; [exact E|].
        now apply nonempty_before_fill.
    - intros i1 i2 H1 H2. rewrite !getN_setN by lia.
      destruct (N.eqb_spec i i1) as [<-|N1], (N.eqb_spec i i2) as [<-|N2]; intros Hn1 Hn2 Hk; auto.
      + exfalso. now apply (Ha i2 H2 Hn2).
      + exfalso. now apply (Ha i1 H1 Hn1).
  Qed.

  (* overwriting a stored entry by another entry with the same key *)
  Lemma replace_tinv arr e' i : tinv arr -> e' <> 0 -> i < M -> getN arr i <> 0 -> keyof e' = keyof (getN arr i) ->
    tinv (setN arr i e').
  Proof.
    intros (Hl & Hr & Hd) He Hi Hne Hk.
    split; [now rewrite lenN_setN|]. split.
    - intros i1 Hi1 Hne1. rewrite getN_setN in * by lia.
      destruct (N.eqb_spec i i1) as [<-|Hne2].
      + destruct (Hr i Hi Hne) as (j & Hj & E & Hb). rewrite Hk. exists j. split; [exact Hj|]. split; [exact E|].
        now apply nonempty_before_fill.
      + destruct (Hr i1 Hi1 Hne1) as (j & Hj & E & Hb). exists j. split; [exact Hj|]. split; [exact E|].
        now apply nonempty_before_fill.
    - intros i1 i2 H1 H2. rewrite !getN_setN by lia.
      destruct (N.eqb_spec i i1) as [<-|N1], (N.eqb_spec i i2) as [<-|N2]; intros Hn1 Hn2 Hk2; auto.
      + apply Hd; auto. congruence.
      + apply Hd; auto. congruence.
  Qed.

  (* re-hashing a list of entries with distinct keys into a table *)
  Definition rehash_step (na : list N) (e : N) : option (list N) :=
    match find (keyof e) na with Empty i => Some (setN na i e) | _ => None end.

  Lemma keys_absent arr k : (forall x, In x (nonzero arr) -> keyof x <> k) -> absent k arr.
  Proof.
    intros H i Hi Hne. apply H. apply nonzero_In. split; [|exact Hne]. unfold getN.
    destruct (Nat.lt_ge_cases (N.to_nat i) (length arr)); [now apply nth_In|].
    exfalso. apply Hne. unfold getN. now apply nth_overflow.
  Qed.

  Lemma rehash_ok es : forall acc, tinv acc -> (forall e, In e es -> e <> 0) -> NoDup (map keyof es) ->
    (forall e x, In e es -> In x (nonzero acc) -> keyof x <> keyof e) ->
    lenN (nonzero acc) + lenN es < M ->
    exists acc', ofold rehash_step es acc = Some acc' /\ tinv acc' /\ Permutation (nonzero acc') (es ++ nonzero acc).
  Proof.
    induction es as [|e t IH]; intros acc Ht Hnz Hnd Hdis Hcnt; cbn [ofold].
    - exists acc. auto.
    - unfold rehash_step at 1.
      assert (Ha : absent (keyof e) acc) by (apply keys_absent; intros x Hx; apply (Hdis e x); simpl; auto).
      assert (Hcnt' : lenN (nonzero acc) < lenN acc).
      { destruct Ht as (Hl & _). unfold lenN in *. simpl in Hcnt. lia. }
      destruct (find_absent acc (keyof e) Ht Ha) as (i & j0 & Hf & Hi & Hz & _).
      { destruct (exists_empty acc Hcnt') as (ie & Hie & Hze). exists ie. destruct Ht as (Hl & _). split; [lia|auto]. }
      rewrite Hf.
      assert (He : e <> 0) by (apply Hnz; simpl; auto).
      pose proof (insert_tinv acc e i Ht He Hf) as Ht'.
      destruct (nonzero_fill acc i e) as (l1 & l2 & E1 & E2); auto.
      { destruct Ht as (Hl & _). lia. }
      inversion Hnd as [|? ? Hnin Hnd']; subst.
      destruct (IH (setN acc i e) Ht') as (acc' & Hfold & Htf & Hperm).
      + intros x Hx. apply Hnz. simpl; auto.
      + exact Hnd'.
      + intros e1 x He1 Hx. rewrite E2 in Hx. apply in_app_or in Hx.
        destruct Hx as [Hx|[<-|Hx]].
        * apply (Hdis e1 x); simpl; auto. rewrite E1. apply in_or_app; auto.
        * intros C. apply Hnin. rewrite C. now apply in_map.
        * apply (Hdis e1 x); simpl; auto. rewrite E1. apply in_or_app; auto.
      + rewrite E2. rewrite E1 in Hcnt. unfold lenN in *. rewrite app_length in *. simpl in *. lia.
      + exists acc'. split; [exact Hfold|]. split; [exact Htf|].
        rewrite Hperm, E2, E1. simpl. rewrite <- Permutation_middle.
        apply Permutation_sym, Permutation_middle.
  Qed.
End OA.
