(* XXHash64.v — XXH64 (Yann Collet) over byte lists, mirroring common/include/xxhash64.h
   (Stephan Brumme's implementation) for the one-shot entry point
   XXHash64::hash(input, length, seed) = { XXHash64 h(seed); h.add(input, length); return h.hash(); }.
   All arithmetic is uint64_t (wraps mod 2^64). *)
From Coq Require Import NArith List.
From DS Require Import Word.
Import ListNotations.
Local Open Scope N_scope.

Definition xP1 : N := 11400714785074694791.
Definition xP2 : N := 14029467366897019727.
Definition xP3 : N := 1609587929392839161.
Definition xP4 : N := 9650029242287828579.
Definition xP5 : N := 2870177450012600261.

(* processSingle(previous, input) = rotateLeft(previous + input * Prime2, 31) * Prime1 *)
Definition x_single (prev inp : N) : N :=
  mul64 (rotl64 (add64 prev (mul64 inp xP2)) 31) xP1.

Definition xstate : Type := (N * N * N * N)%type.

(* process(): one 32-byte stripe = four little-endian 64-bit lanes *)
Definition x_process (st : xstate) (blk : list N) : xstate :=
  let '(s0, s1, s2, s3) := st in
  (x_single s0 (le_bytes_to_N (firstn 8 blk)),
   x_single s1 (le_bytes_to_N (firstn 8 (skipn 8 blk))),
   x_single s2 (le_bytes_to_N (firstn 8 (skipn 16 blk))),
   x_single s3 (le_bytes_to_N (firstn 8 (skipn 24 blk)))).

(* add(): "while (data <= stopBlock) process" = while at least 32 bytes remain; the rest goes to the buffer *)
Fixpoint x_stripes (fuel : nat) (bs : list N) (st : xstate) : xstate * list N :=
  match fuel with
  | O => (st, bs)
  | S f =>
    if Nat.leb 32 (length bs)
    then x_stripes f (skipn 32 bs) (x_process st (firstn 32 bs))
    else (st, bs)
  end.

(* hash(): "for (; data + 8 <= stop; data += 8)" *)
Fixpoint x_tail8 (fuel : nat) (bs : list N) (r : N) : N * list N :=
  match fuel with
  | O => (r, bs)
  | S f =>
    if Nat.leb 8 (length bs)
    then x_tail8 f (skipn 8 bs)
           (add64 (mul64 (rotl64 (xor64 r (x_single 0 (le_bytes_to_N (firstn 8 bs)))) 27) xP1) xP4)
    else (r, bs)
  end.

(* "if (data + 4 <= stop)": result = rotl(result ^ (uint32 * Prime1), 23) * Prime2 + Prime3 *)
Definition x_tail4 (bs : list N) (r : N) : N * list N :=
  if Nat.leb 4 (length bs)
  then (add64 (mul64 (rotl64 (xor64 r (mul64 (le_bytes_to_N (firstn 4 bs)) xP1)) 23) xP2) xP3, skipn 4 bs)
  else (r, bs).

(* "while (data != stop)": result = rotl(result ^ (byte * Prime5), 11) * Prime1 *)
Fixpoint x_tail1 (bs : list N) (r : N) : N :=
  match bs with
  | [] => r
  | b :: t => x_tail1 t (mul64 (rotl64 (xor64 r (mul64 (w8 b) xP5)) 11) xP1)
  end.

Definition x_avalanche (r : N) : N :=
  let r := xor64 r (shr64 r 33) in
  let r := mul64 r xP2 in
  let r := xor64 r (shr64 r 29) in
  let r := mul64 r xP3 in
  xor64 r (shr64 r 32).

Definition x_merge (r s : N) : N := add64 (mul64 (xor64 r (x_single 0 s)) xP1) xP4.

Definition xxh64 (bs : list N) (seed : N) : N :=
  let seed := w64 seed in
  let len := N.of_nat (length bs) in
  let st0 : xstate := (add64 (add64 seed xP1) xP2, add64 seed xP2, seed, sub64 seed xP1) in
  let '(st, rest) := x_stripes (length bs) bs st0 in
  let '(s0, s1, s2, s3) := st in
  let r :=
    if 32 <=? len then
      let r := add64 (add64 (rotl64 s0 1) (rotl64 s1 7)) (add64 (rotl64 s2 12) (rotl64 s3 18)) in
      x_merge (x_merge (x_merge (x_merge r s0) s1) s2) s3
    else add64 s2 xP5 in
  let r := add64 r len in
  let '(r, rest) := x_tail8 (length rest) rest r in
  let '(r, rest) := x_tail4 rest r in
  x_avalanche (x_tail1 rest r).

(* ---- published XXH64 test vectors ---- *)

Example xxh64_empty : xxh64 [] 0 = 0xEF46DB3751D8E999.
Proof. vm_compute. reflexivity. Qed.

Example xxh64_a : xxh64 [97] 0 = 0xD24EC4F1A98C6E5B.
Proof. vm_compute. reflexivity. Qed.

Example xxh64_abc : xxh64 [97; 98; 99] 0 = 0x44BC2CF5AD770999.
Proof. vm_compute. reflexivity. Qed.

(* python-xxhash README: xxh64('xxhash', seed=20141025) = b559b98d844e0635 *)
Example xxh64_xxhash_seeded : xxh64 [120; 120; 104; 97; 115; 104] 20141025 = 0xB559B98D844E0635.
Proof. vm_compute. reflexivity. Qed.

(* 39 bytes (one stripe + 7 tail bytes): "Nobody inspects the spammish repetition" = fbcea83c8a378bf1 *)
Example xxh64_nobody :
  xxh64 [78;111;98;111;100;121;32;105;110;115;112;101;99;116;115;32;116;104;101;32;115;112;97;109;109;105;115;104;32;
         114;101;112;101;116;105;116;105;111;110] 0 = 0xFBCEA83C8A378BF1.
Proof. vm_compute. reflexivity. Qed.

(* ---- values computed by /repo (common/include/xxhash64.h) ---- *)
Definition x_ramp (n : nat) : list N := map (fun i => w8 (N.of_nat i * 7 + 1)) (seq 0 n).

Example xxh64_repo_u64 : xxh64 (N_to_le_bytes 8 5) 123 = 11042930290535945635.
Proof. vm_compute. reflexivity. Qed.

(* the Bloom filter's double hashing: h0 = H(item, seed), h1 = H(item, h0) *)
Example xxh64_repo_chain :
  let h0 := xxh64 (N_to_le_bytes 8 5) 9001 in
  (h0, xxh64 (N_to_le_bytes 8 5) h0) = (10501165071019826736, 15914150816359872778).
Proof. vm_compute. reflexivity. Qed.

Example xxh64_repo_77 : xxh64 (x_ramp 77) 18446744073709551615 = 18416678547582215581.
Proof. vm_compute. reflexivity. Qed.
Example xxh64_repo_64 : xxh64 (x_ramp 64) 1 = 6938116572344433764.
Proof. vm_compute. reflexivity. Qed.
Example xxh64_repo_32 : xxh64 (x_ramp 32) 1 = 11831965028138802368.
Proof. vm_compute. reflexivity. Qed.
Example xxh64_repo_31 : xxh64 (x_ramp 31) 1 = 4778819751316136643.
Proof. vm_compute. reflexivity. Qed.
